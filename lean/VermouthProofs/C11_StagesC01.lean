import VermouthProps.C01
/-!
# C11 / C01 — `do_mapping` depends on the numbering of the input atoms only through equality of keys and the order
of the lowest keys of the matches

The atom keys of the input of `C01.assemble` (`Atom.key`, the ends of `MolIn.edges`, the first components of
`Placement.molToBlock`, the second components of `Placement.refs`) are presentation: the PDB reader numbers the atoms
in file order.  `MolIn.rekey ρ` / `Placement.rekey ρ` renumber the input, `Result.rekey ρ` renumbers the constituent
atoms recorded in the output particles (`graph`, the keys of `mapping_weights`); `Result.table` forgets them.

* `c01_assemble_rekey_equivariant` (MAIN): `assemble` of the renumbered input is the renumbered result, error
  outcomes included, for every `ρ` that is (i) injective on `support m ps` (every key the input mentions) and
  (ii) keeps the order of the lowest keys of the matches
  (`minKey (p.rekey ρ) ≤ minKey (q.rekey ρ) ↔ minKey p ≤ minKey q` for the matches `p`, `q`).
  Route: a simulation (`St.rekey`, `applyBlock_rekey`, `order_rekey`, `finish_rekey`) for globally injective `ρ`
  (`c01_assemble_rekey_equivariant_global`); `c01_extend_injective` extends a `ρ` that is injective on finitely many
  keys to a global injection; `c01_result_atoms_in_support` (a free theorem of the simulation: two extensions that
  differ everywhere outside `support` give the same result) shows that the output mentions no other key.
* `c01_table_rekey_invariant` (the C11 clause): the particle table, bonds, interactions, warnings / the error are
  THE SAME for the renumbered input under (i) and (ii); `..._increasing`: in particular for `ρ` strictly increasing on
  `support m ps`.
* `c01_nonmonotone_changes_block_order`: (ii) cannot be dropped.  An injective renumbering that exchanges the keys of
  two residues exchanges the two blocks in the particle table (names, resids, `_old_resid`).  This is the only way
  the numbering of the reader enters `do_mapping` for block mappings.
-/
namespace C11

/-! ## definitions -/

/-- the input atom with its key renumbered by `ρ`, everything else untouched -/
def rekeyAtom01 (ρ : Int → Int) (a : C01.Atom) : C01.Atom := { a with key := ρ a.key }

/-- the input molecule with every atom key and both ends of every edge renumbered by `ρ` -/
def MolIn.rekey (ρ : Int → Int) (m : C01.MolIn) : C01.MolIn :=
  { atoms := m.atoms.map (rekeyAtom01 ρ), edges := m.edges.map (fun e => (ρ e.1, ρ e.2)) }

/-- the match with its molecule atoms renumbered: the keys of `molToBlock` and the TARGETS of `refs`; the block
and its node keys are untouched -/
def Placement.rekey (ρ : Int → Int) (p : C01.Placement) : C01.Placement :=
  { molToBlock := p.molToBlock.map (fun aw => (ρ aw.1, aw.2)), block := p.block,
    refs := p.refs.map (fun r => (r.1, ρ r.2)) }

/-- the output particle with its constituent atoms renumbered; key, name, resid, charge group, `_old_resid` untouched -/
def Bead.rekey (ρ : Int → Int) (b : C01.Bead) : C01.Bead :=
  { b with atoms := b.atoms.map ρ, weights := b.weights.map (fun aw => (ρ aw.1, aw.2)) }

/-- the result with the constituent atoms of every particle renumbered; edges, interactions, warnings untouched -/
def Result.rekey (ρ : Int → Int) (r : C01.Result) : C01.Result := { r with beads := r.beads.map (Bead.rekey ρ) }

/-- the loop state with every molecule atom key renumbered; output keys (`out`, `spawned`, the outer keys of
`outToMol`, the inner keys of `molToOut`, the sources of `refs`) untouched -/
def St.rekey (ρ : Int → Int) (st : C01.St) : C01.St :=
  { st with molToOut := st.molToOut.map (fun aw => (ρ aw.1, aw.2)),
            outToMol := st.outToMol.map (fun ow => (ow.1, ow.2.map (fun aw => (ρ aw.1, aw.2)))),
            overlap := st.overlap.map ρ,
            refs := st.refs.map (fun r => (r.1, ρ r.2)),
            placed := st.placed.map (List.map ρ) }

/-- what is left of a particle when the atom keys are forgotten: the weights of its constituents in order -/
structure BeadRow01 where
  key : Int
  name : Option String
  resid : Option Int
  cg : Option Int
  oldResid : Option Int
  weights : List Rat
  deriving Repr, DecidableEq

/-- the particle table, the bonds, the interactions and the warnings, without any input atom key -/
structure Table01 where
  beads : List BeadRow01
  edges : List (Int × Int)
  inters : List (String × C12.Inter)
  warn : C01.Warnings
  deriving Repr, DecidableEq

/-- forget the input atom keys of a result: per particle its key, name, resid, charge group, `_old_resid` and the
weights of its constituents in order; bonds, interactions and warnings as they are -/
def Result.table (r : C01.Result) : Table01 :=
  { beads := r.beads.map (fun b => ⟨b.key, b.name, b.resid, b.cg, b.oldResid, b.weights.map Prod.snd⟩),
    edges := r.edges, inters := r.inters, warn := r.warn }

namespace S01
open C01 C12

variable {ρ : Int → Int}

/-! ## list lemmas -/

theorem beq_inj (hinj : ∀ x y, ρ x = ρ y → x = y) (a b : Int) : (ρ a == ρ b) = (a == b) := by
  by_cases h : a = b
  · subst h; simp
  · have : ρ a ≠ ρ b := fun e => h (hinj _ _ e)
    rw [Bool.eq_iff_iff]
    simp [h, this]

theorem contains_map_inj {α β} [BEq α] [LawfulBEq α] [BEq β] [LawfulBEq β] (f : α → β)
    (hf : ∀ x y, f x = f y → x = y) (l : List α) (a : α) : (l.map f).contains (f a) = l.contains a := by
  rw [Bool.eq_iff_iff]
  simp only [List.contains_iff_mem, List.mem_map]
  constructor
  · rintro ⟨x, hx, e⟩; rw [← hf _ _ e]; exact hx
  · intro h; exact ⟨a, h, rfl⟩

theorem pair_inj (hinj : ∀ x y, ρ x = ρ y → x = y) (x y : Int × Int)
    (h : (fun e : Int × Int => (ρ e.1, ρ e.2)) x = (fun e : Int × Int => (ρ e.1, ρ e.2)) y) : x = y := by
  obtain ⟨a, b⟩ := x
  obtain ⟨c, d⟩ := y
  simp only [Prod.mk.injEq] at h
  rw [hinj _ _ h.1, hinj _ _ h.2]

theorem lookup_mapKey {β} (hinj : ∀ x y, ρ x = ρ y → x = y) (l : List (Int × β)) (a : Int) :
    (l.map (fun p => (ρ p.1, p.2))).lookup (ρ a) = l.lookup a := by
  induction l with
  | nil => rfl
  | cons x xs ih =>
    obtain ⟨k, v⟩ := x
    simp only [List.map_cons, List.lookup_cons, beq_inj hinj, ih]

theorem lookup_mapVal {β γ} (f : β → γ) (l : List (Int × β)) (k : Int) :
    (l.map (fun p => (p.1, f p.2))).lookup k = (l.lookup k).map f := by
  induction l with
  | nil => rfl
  | cons x xs ih =>
    obtain ⟨k', v⟩ := x
    simp only [List.map_cons, List.lookup_cons, ih]
    cases k == k' <;> rfl

theorem mapM_map_opt {α α' β β'} (f : α → α') (h : β → β') (g : α → Option β) (g' : α' → Option β')
    (hg : ∀ a, g' (f a) = (g a).map h) (l : List α) :
    (l.map f).mapM g' = (l.mapM g).map (List.map h) := by
  induction l with
  | nil => rfl
  | cons x xs ih =>
    simp only [List.map_cons, List.mapM_cons, ih, hg]
    cases g x with
    | none => rfl
    | some y =>
      cases xs.mapM g with
      | none => rfl
      | some ys => rfl

/-! ## dictionaries -/

theorem dset_rekey (hinj : ∀ x y, ρ x = ρ y → x = y) (d : List (Int × Rat)) (k : Int) (w : Rat) :
    dset (d.map (fun aw => (ρ aw.1, aw.2))) (ρ k) w = (dset d k w).map (fun aw => (ρ aw.1, aw.2)) := by
  induction d with
  | nil => rfl
  | cons x r ih =>
    obtain ⟨k', w'⟩ := x
    simp only [List.map_cons, dset]
    by_cases h : k' = k
    · subst h; simp
    · have : ρ k' ≠ ρ k := fun e => h (hinj _ _ e)
      simp only [h, this, if_false, List.map_cons, ih]

theorem dset2_rekey_outer (hinj : ∀ x y, ρ x = ρ y → x = y) (d : Dict2) (a b : Int) (w : Rat) :
    dset2 (d.map (fun aw => (ρ aw.1, aw.2))) (ρ a) b w = (dset2 d a b w).map (fun aw => (ρ aw.1, aw.2)) := by
  induction d with
  | nil => rfl
  | cons x r ih =>
    obtain ⟨a', inner⟩ := x
    simp only [List.map_cons, dset2]
    by_cases h : a' = a
    · subst h; simp
    · have : ρ a' ≠ ρ a := fun e => h (hinj _ _ e)
      simp only [h, this, if_false, List.map_cons, ih]

theorem dset2_rekey_inner (hinj : ∀ x y, ρ x = ρ y → x = y) (d : Dict2) (o a : Int) (w : Rat) :
    dset2 (d.map (fun ow => (ow.1, ow.2.map (fun aw => (ρ aw.1, aw.2))))) o (ρ a) w
      = (dset2 d o a w).map (fun ow => (ow.1, ow.2.map (fun aw => (ρ aw.1, aw.2)))) := by
  induction d with
  | nil => rfl
  | cons x r ih =>
    obtain ⟨o', inner⟩ := x
    simp only [List.map_cons, dset2]
    by_cases h : o' = o
    · subst h; simp [dset_rekey hinj]
    · simp only [h, if_false, List.map_cons, ih]

theorem addEntries_rekey (hinj : ∀ x y, ρ x = ρ y → x = y) (es : List (Int × Int × Rat)) (d : Dict2) :
    addEntries (d.map (fun aw => (ρ aw.1, aw.2))) (es.map (fun e => (ρ e.1, e.2)))
      = (addEntries d es).map (fun aw => (ρ aw.1, aw.2)) := by
  induction es generalizing d with
  | nil => rfl
  | cons e r ih =>
    simp only [addEntries, List.map_cons, List.foldl_cons] at ih ⊢
    rw [dset2_rekey_outer hinj, ih]

theorem addEntriesRev_rekey (hinj : ∀ x y, ρ x = ρ y → x = y) (es : List (Int × Int × Rat)) (d : Dict2) :
    addEntriesRev (d.map (fun ow => (ow.1, ow.2.map (fun aw => (ρ aw.1, aw.2))))) (es.map (fun e => (ρ e.1, e.2)))
      = (addEntriesRev d es).map (fun ow => (ow.1, ow.2.map (fun aw => (ρ aw.1, aw.2)))) := by
  induction es generalizing d with
  | nil => rfl
  | cons e r ih =>
    simp only [addEntriesRev, List.map_cons, List.foldl_cons] at ih ⊢
    rw [dset2_rekey_inner hinj, ih]

theorem unionInt_rekey (hinj : ∀ x y, ρ x = ρ y → x = y) (a b : List Int) :
    unionInt (a.map ρ) (b.map ρ) = (unionInt a b).map ρ := by
  unfold unionInt
  rw [List.map_append, List.filter_map]
  congr 2
  apply List.filter_congr
  intro x _
  simp only [Function.comp, contains_map_inj ρ hinj]

/-! ## generic equivariance helpers -/

theorem flatMap_equiv {α β γ δ} (f : α → β) (h : γ → δ) (g : α → List γ) (g' : β → List δ)
    (hg : ∀ a, g' (f a) = (g a).map h) (l : List α) : (l.map f).flatMap g' = (l.flatMap g).map h := by
  induction l with
  | nil => rfl
  | cons x xs ih => simp only [List.map_cons, List.flatMap_cons, List.map_append, ih, hg]

theorem flatMap_inv {α β γ} (f : α → β) (g : α → List γ) (g' : β → List γ)
    (hg : ∀ a, g' (f a) = g a) (l : List α) : (l.map f).flatMap g' = l.flatMap g := by
  induction l with
  | nil => rfl
  | cons x xs ih => simp only [List.map_cons, List.flatMap_cons, ih, hg]

theorem filter_equiv {α β} (f : α → β) (p : α → Bool) (p' : β → Bool) (hp : ∀ a, p' (f a) = p a) (l : List α) :
    (l.map f).filter p' = (l.filter p).map f := by
  induction l with
  | nil => rfl
  | cons x xs ih =>
    simp only [List.map_cons, List.filter_cons, hp, ih]
    cases p x <;> rfl

theorem any_equiv {α β} (f : α → β) (p : α → Bool) (p' : β → Bool) (hp : ∀ a, p' (f a) = p a) (l : List α) :
    (l.map f).any p' = l.any p := by
  induction l with
  | nil => rfl
  | cons x xs ih => simp only [List.map_cons, List.any_cons, hp, ih]

theorem filterMap_equiv {α β γ δ} (f : α → β) (h : γ → δ) (g : α → Option γ) (g' : β → Option δ)
    (hg : ∀ a, g' (f a) = (g a).map h) (l : List α) : (l.map f).filterMap g' = (l.filterMap g).map h := by
  induction l with
  | nil => rfl
  | cons x xs ih =>
    simp only [List.map_cons, List.filterMap_cons, hg]
    cases g x with
    | none => exact ih
    | some y => simp only [Option.map_some, List.map_cons, ih]

/-! ## the processing order -/

theorem atoms_rekey (p : Placement) : (Placement.rekey ρ p).atoms = p.atoms.map ρ := by
  simp only [Placement.atoms, Placement.rekey, List.map_map]
  rfl

theorem insertDesc_rekey (x : Placement) (l : List Placement)
    (hc : ∀ y ∈ l, (minKey (Placement.rekey ρ y) ≤ minKey (Placement.rekey ρ x) ↔ minKey y ≤ minKey x)) :
    insertDesc (Placement.rekey ρ x) (l.map (Placement.rekey ρ)) = (insertDesc x l).map (Placement.rekey ρ) := by
  induction l with
  | nil => rfl
  | cons y ys ih =>
    have hy := hc y List.mem_cons_self
    simp only [List.map_cons, insertDesc]
    by_cases hle : minKey y ≤ minKey x
    · rw [if_pos hle, if_pos (hy.mpr hle)]; rfl
    · rw [if_neg hle, if_neg (fun e => hle (hy.mp e)), ih (fun t ht => hc t (List.mem_cons_of_mem _ ht))]
      rfl

theorem sortDesc_rekey (l : List Placement)
    (hc : ∀ x ∈ l, ∀ y ∈ l, (minKey (Placement.rekey ρ y) ≤ minKey (Placement.rekey ρ x) ↔ minKey y ≤ minKey x)) :
    sortDesc (l.map (Placement.rekey ρ)) = (sortDesc l).map (Placement.rekey ρ) := by
  induction l with
  | nil => rfl
  | cons x xs ih =>
    simp only [List.map_cons, sortDesc]
    rw [ih (fun a ha b hb => hc a (List.mem_cons_of_mem _ ha) b (List.mem_cons_of_mem _ hb))]
    apply insertDesc_rekey
    intro y hy
    exact hc x List.mem_cons_self y (List.mem_cons_of_mem _ ((sortDesc_perm xs).subset hy))

theorem order_rekey (ps : List Placement)
    (hc : ∀ p ∈ ps, ∀ q ∈ ps, (minKey (Placement.rekey ρ p) ≤ minKey (Placement.rekey ρ q) ↔ minKey p ≤ minKey q)) :
    order (ps.map (Placement.rekey ρ)) = (order ps).map (Placement.rekey ρ) := by
  unfold order
  rw [sortDesc_rekey ps (fun x hx y hy => hc y hy x hx), List.map_reverse]

/-! ### lowest keys under an order preserving renumbering -/

theorem foldl_min_mem (ks : List Int) (k : Int) : ks.foldl min k ∈ k :: ks := by
  induction ks generalizing k with
  | nil => simp
  | cons x r ih =>
    simp only [List.foldl_cons]
    have := ih (min k x)
    rcases List.mem_cons.1 this with h | h
    · rw [h]
      by_cases hkx : k ≤ x
      · rw [Int.min_eq_left hkx]; simp
      · rw [Int.min_eq_right (by omega)]; simp
    · exact List.mem_cons_of_mem _ (List.mem_cons_of_mem _ h)

theorem foldl_min_map (ks : List Int) (k : Int)
    (hm : ∀ x ∈ k :: ks, ∀ y ∈ k :: ks, x < y → ρ x < ρ y) :
    (ks.map ρ).foldl min (ρ k) = ρ (ks.foldl min k) := by
  induction ks generalizing k with
  | nil => rfl
  | cons x r ih =>
    simp only [List.map_cons, List.foldl_cons]
    have hmem : min k x = k ∨ min k x = x := by
      by_cases h : k ≤ x
      · left; exact Int.min_eq_left h
      · right; exact Int.min_eq_right (by omega)
    have hkx : min (ρ k) (ρ x) = ρ (min k x) := by
      by_cases h : k ≤ x
      · rw [Int.min_eq_left h]
        by_cases e : k = x
        · subst e; exact Int.min_eq_left (Int.le_refl _)
        · have := hm k (by simp) x (by simp) (by omega)
          exact Int.min_eq_left (by omega)
      · rw [Int.min_eq_right (show x ≤ k by omega)]
        have := hm x (by simp) k (by simp) (by omega)
        exact Int.min_eq_right (by omega)
    rw [hkx]
    apply ih
    have hsub : ∀ a ∈ min k x :: r, a ∈ k :: x :: r := by
      intro a ha
      rcases List.mem_cons.1 ha with rfl | ha
      · rcases hmem with h | h <;> rw [h] <;> simp
      · exact List.mem_cons_of_mem _ (List.mem_cons_of_mem _ ha)
    intro a ha b hb
    exact hm a (hsub a ha) b (hsub b hb)

theorem minKey_mem (p : Placement) (hne : p.atoms ≠ []) : minKey p ∈ p.atoms := by
  unfold minKey
  cases h : p.atoms with
  | nil => exact absurd h hne
  | cons k ks => exact foldl_min_mem ks k

theorem minKey_rekey (p : Placement) (hm : ∀ x ∈ p.atoms, ∀ y ∈ p.atoms, x < y → ρ x < ρ y) :
    p.atoms ≠ [] → minKey (Placement.rekey ρ p) = ρ (minKey p) := by
  intro hne
  unfold minKey
  rw [atoms_rekey]
  cases h : p.atoms with
  | nil => exact absurd h hne
  | cons k ks =>
    rw [h] at hm
    exact foldl_min_map ks k hm

theorem lowOrder_of_mono (ps : List Placement) (hne : ∀ p ∈ ps, p.atoms ≠ [])
    (hm : ∀ p ∈ ps, ∀ x ∈ p.atoms, ∀ q ∈ ps, ∀ y ∈ q.atoms, x < y → ρ x < ρ y) :
    ∀ p ∈ ps, ∀ q ∈ ps, (minKey (Placement.rekey ρ p) ≤ minKey (Placement.rekey ρ q) ↔ minKey p ≤ minKey q) := by
  intro p hp q hq
  rw [minKey_rekey p (fun x hx y hy => hm p hp x hx p hp y hy) (hne p hp),
    minKey_rekey q (fun x hx y hy => hm q hq x hx q hq y hy) (hne q hq)]
  have hpm := minKey_mem p (hne p hp)
  have hqm := minKey_mem q (hne q hq)
  constructor
  · intro hle
    by_cases h : minKey p ≤ minKey q
    · exact h
    · have := hm q hq _ hqm p hp _ hpm (by omega)
      omega
  · intro hle
    by_cases e : minKey p = minKey q
    · rw [e]; exact Int.le_refl _
    · have := hm p hp _ hpm q hq _ hqm (by omega)
      omega

/-! ## one step of the placement loop -/

theorem weightEntries_rekey (bkeys : List Int) (offset : Int) (mtb : Dict2) :
    weightEntries bkeys offset (mtb.map (fun aw => (ρ aw.1, aw.2)))
      = (weightEntries bkeys offset mtb).map (List.map (fun e => (ρ e.1, e.2))) := by
  unfold weightEntries
  rw [flatMap_equiv (fun aw : Int × List (Int × Rat) => (ρ aw.1, aw.2)) (fun e : Int × Int × Rat => (ρ e.1, e.2))
    (fun aw => aw.2.map (fun bw => (aw.1, bw.1, bw.2))) (fun aw => aw.2.map (fun bw => (aw.1, bw.1, bw.2)))
    (by intro a; simp only [List.map_map]; rfl)]
  apply mapM_map_opt
  intro e
  cases corrOf bkeys offset e.2.1 <;> rfl

theorem refsM_rekey (bkeys : List Int) (offset : Int) (refs : List (Int × Int)) :
    (refs.map (fun r => (r.1, ρ r.2))).mapM (fun r => (corrOf bkeys offset r.1).map (fun o => (o, r.2)))
      = (refs.mapM (fun r => (corrOf bkeys offset r.1).map (fun o => (o, r.2)))).map
          (List.map (fun r => (r.1, ρ r.2))) := by
  apply mapM_map_opt
  intro r
  cases corrOf bkeys offset r.1 <;> rfl

theorem spawnedOut_rekey (bkeys : List Int) (offset : Int) (mtb : Dict2) :
    spawnedOut bkeys offset (mtb.map (fun aw => (ρ aw.1, aw.2))) = spawnedOut bkeys offset mtb := by
  unfold spawnedOut spawnedBlock
  congr 2
  funext k
  rw [any_equiv (fun aw : Int × List (Int × Rat) => (ρ aw.1, aw.2)) (fun aw => aw.2.any (fun bw => bw.1 == k))
    (fun aw => aw.2.any (fun bw => bw.1 == k)) (fun _ => rfl)]

theorem zeroEntries_rekey (atoms sp : List Int) :
    zeroEntries (atoms.map ρ) sp = (zeroEntries atoms sp).map (fun e => (ρ e.1, e.2)) := by
  unfold zeroEntries
  induction sp with
  | nil => rfl
  | cons s r ih =>
    rw [List.flatMap_cons, List.flatMap_cons, List.map_append, ← ih, List.map_map, List.map_map]
    rfl

theorem refsFold_rekey (nr rs : List (Int × Int)) :
    (nr.map (fun r => (r.1, ρ r.2))).foldl (fun rs r => (rs.filter (fun x => x.1 != r.1)) ++ [r])
        (rs.map (fun r => (r.1, ρ r.2)))
      = (nr.foldl (fun rs r => (rs.filter (fun x => x.1 != r.1)) ++ [r]) rs).map (fun r => (r.1, ρ r.2)) := by
  induction nr generalizing rs with
  | nil => rfl
  | cons r nr ih =>
    simp only [List.map_cons, List.foldl_cons]
    rw [← ih]
    congr 1
    rw [List.map_append, filter_equiv (fun r : Int × Int => (r.1, ρ r.2)) (fun x => x.1 != r.1) (fun x => x.1 != r.1)
      (fun _ => rfl)]
    rfl

theorem dom_rekey (d : Dict2) : dom (d.map (fun aw => (ρ aw.1, aw.2))) = (dom d).map ρ := by
  simp only [dom, List.map_map]; rfl

theorem overlap_rekey (hinj : ∀ x y, ρ x = ρ y → x = y) (atoms : List Int) (d : Dict2) (placed : List (List Int)) :
    (atoms.map ρ).filter (fun a => (dom (d.map (fun aw => (ρ aw.1, aw.2)))).contains a
        || (placed.map (List.map ρ)).any (fun k => k.contains a))
      = (atoms.filter (fun a => (dom d).contains a || placed.any (fun k => k.contains a))).map ρ := by
  apply filter_equiv
  intro a
  rw [dom_rekey, contains_map_inj ρ hinj]
  congr 1
  apply any_equiv
  intro k
  exact contains_map_inj ρ hinj k a

/-- the part of `applyBlock` after `merge_molecule` succeeded -/
def body (st : St) (p : Placement) (out1 : Mol) (offset : Int) : St :=
  let bkeys := p.block.keys
  let atoms := p.atoms
  match weightEntries bkeys offset p.molToBlock,
        p.refs.mapM (fun r => (C12.corrOf bkeys offset r.1).map (fun o => (o, r.2))) with
  | some wes, some newRefs =>
    let overlap := atoms.filter (fun a => (dom st.molToOut).contains a || st.placed.any (fun k => k.contains a))
    let sp := spawnedOut bkeys offset p.molToBlock
    let es := wes ++ zeroEntries atoms sp
    { out := out1,
      molToOut := addEntries st.molToOut es,
      outToMol := addEntriesRev st.outToMol es,
      overlap := unionInt st.overlap overlap,
      spawned := unionInt st.spawned sp,
      refs := newRefs.foldl (fun rs r => (rs.filter (fun x => x.1 != r.1)) ++ [r]) st.refs,
      placed := st.placed ++ [atoms],
      err := none }
  | _, _ => { st with err := some .keyerror }

def out0 (st : St) (p : Placement) : Mol :=
  if st.out.nrexcl.isNone then { st.out with nrexcl := p.block.nrexcl } else st.out

theorem applyBlock_eq (st : St) (p : Placement) :
    applyBlock st p = if st.err.isSome then st else
      match (out0 st p).merge p.block with
      | (out1, .ok) => body st p out1 (mergeOffset (out0 st p))
      | (_, e) => { st with err := some e } := by
  unfold applyBlock body out0
  rfl

theorem body_rekey (hinj : ∀ x y, ρ x = ρ y → x = y) (st : St) (p : Placement) (out1 : Mol) (offset : Int) :
    body (St.rekey ρ st) (Placement.rekey ρ p) out1 offset = St.rekey ρ (body st p out1 offset) := by
  unfold body
  simp only [atoms_rekey]
  simp only [Placement.rekey, St.rekey]
  rw [weightEntries_rekey, refsM_rekey]
  cases weightEntries p.block.keys offset p.molToBlock with
  | none => rfl
  | some wes =>
    cases p.refs.mapM (fun r => (C12.corrOf p.block.keys offset r.1).map (fun o => (o, r.2))) with
    | none => rfl
    | some newRefs =>
      simp only [Option.map_some]
      rw [spawnedOut_rekey, zeroEntries_rekey, ← List.map_append, addEntries_rekey hinj, addEntriesRev_rekey hinj,
        overlap_rekey hinj, unionInt_rekey hinj, refsFold_rekey]
      simp only [List.map_append, List.map_cons, List.map_nil]

theorem applyBlock_rekey (hinj : ∀ x y, ρ x = ρ y → x = y) (st : St) (p : Placement) :
    applyBlock (St.rekey ρ st) (Placement.rekey ρ p) = St.rekey ρ (applyBlock st p) := by
  rw [applyBlock_eq, applyBlock_eq]
  have h0 : out0 (St.rekey ρ st) (Placement.rekey ρ p) = out0 st p := rfl
  have h1 : (St.rekey ρ st).err = st.err := rfl
  have h2 : (Placement.rekey ρ p).block = p.block := rfl
  rw [h0, h1, h2]
  by_cases he : st.err.isSome = true
  · rw [if_pos he, if_pos he]
  · rw [if_neg he, if_neg he]
    split
    · exact body_rekey hinj st p _ _
    · rfl

theorem foldl_applyBlock_rekey (hinj : ∀ x y, ρ x = ρ y → x = y) (ps : List Placement) (st : St) :
    (ps.map (Placement.rekey ρ)).foldl applyBlock (St.rekey ρ st) = St.rekey ρ (ps.foldl applyBlock st) := by
  induction ps generalizing st with
  | nil => rfl
  | cons p ps ih =>
    simp only [List.map_cons, List.foldl_cons]
    rw [applyBlock_rekey hinj, ih]

theorem placeAll_rekey (hinj : ∀ x y, ρ x = ρ y → x = y) (ps : List Placement) :
    placeAll (ps.map (Placement.rekey ρ)) = St.rekey ρ (placeAll ps) :=
  foldl_applyBlock_rekey hinj ps {}

/-! ## after the loop -/

theorem keys_rekey (m : MolIn) : (MolIn.rekey ρ m).keys = m.keys.map ρ := by
  simp only [MolIn.keys, MolIn.rekey, List.map_map]; rfl

theorem atom?_rekey (hinj : ∀ x y, ρ x = ρ y → x = y) (m : MolIn) (k : Int) :
    (MolIn.rekey ρ m).atom? (ρ k) = (m.atom? k).map (rekeyAtom01 ρ) := by
  unfold MolIn.atom? MolIn.rekey
  simp only [List.find?_map]
  congr 2
  funext a
  exact beq_inj hinj a.key k

theorem adj_rekey (hinj : ∀ x y, ρ x = ρ y → x = y) (m : MolIn) (a b : Int) :
    (MolIn.rekey ρ m).adj (ρ a) (ρ b) = m.adj a b := by
  unfold MolIn.adj MolIn.rekey
  have h1 := contains_map_inj (fun e : Int × Int => (ρ e.1, ρ e.2)) (pair_inj hinj) m.edges (a, b)
  have h2 := contains_map_inj (fun e : Int × Int => (ρ e.1, ρ e.2)) (pair_inj hinj) m.edges (b, a)
  simp only at h1 h2 ⊢
  rw [h1, h2]

theorem isHyd_rekey (hinj : ∀ x y, ρ x = ρ y → x = y) (m : MolIn) (k : Int) :
    isHyd (MolIn.rekey ρ m) (ρ k) = isHyd m k := by
  unfold isHyd
  rw [atom?_rekey hinj]
  cases m.atom? k <;> rfl

theorem filterMap_atom?_rekey (hinj : ∀ x y, ρ x = ρ y → x = y) (m : MolIn) (as : List Int) :
    (as.map ρ).filterMap (MolIn.rekey ρ m).atom? = (as.filterMap m.atom?).map (rekeyAtom01 ρ) :=
  filterMap_equiv ρ (rekeyAtom01 ρ) m.atom? (MolIn.rekey ρ m).atom? (atom?_rekey hinj m) as

theorem garbage_rekey (hinj : ∀ x y, ρ x = ρ y → x = y) (m : MolIn) (as : List Int) :
    garbage (MolIn.rekey ρ m) (as.map ρ) = garbage m as := by
  unfold garbage
  simp only [filterMap_atom?_rekey hinj, List.map_map]
  rfl

theorem pairsOf_map {α β} (g : α → β) (l : List α) :
    pairsOf (l.map g) = (pairsOf l).map (fun kk => (g kk.1, g kk.2)) := by
  induction l with
  | nil => rfl
  | cons x xs ih => simp only [List.map_cons, pairsOf, List.map_append, List.map_map, ih]; rfl

theorem edgesBetween_rekey (hinj : ∀ x y, ρ x = ρ y → x = y) (m : MolIn) (k1 k2 : List Int) :
    edgesBetween (MolIn.rekey ρ m) (k1.map ρ) (k2.map ρ)
      = (edgesBetween m k1 k2).map (fun e => (ρ e.1, ρ e.2)) := by
  unfold edgesBetween
  apply flatMap_equiv
  intro a
  rw [filter_equiv ρ (fun b => m.adj a b) (fun b => (MolIn.rekey ρ m).adj (ρ a) b) (fun b => adj_rekey hinj m a b)]
  simp only [List.map_map]
  rfl

theorem crossBonds_rekey (hinj : ∀ x y, ρ x = ρ y → x = y) (m : MolIn) (st : St) :
    crossBonds (MolIn.rekey ρ m) (St.rekey ρ st) = (crossBonds m st).map (fun e => (ρ e.1, ρ e.2)) := by
  unfold crossBonds
  have hp : (St.rekey ρ st).placed = st.placed.map (List.map ρ) := rfl
  rw [hp, pairsOf_map]
  apply flatMap_equiv
  intro kk
  exact edgesBetween_rekey hinj m kk.1 kk.2

theorem beadsOf_rekey (hinj : ∀ x y, ρ x = ρ y → x = y) (st : St) (a : Int) :
    beadsOf (St.rekey ρ st) (ρ a) = beadsOf st a := by
  unfold beadsOf
  have h1 : (St.rekey ρ st).molToOut = st.molToOut.map (fun aw => (ρ aw.1, aw.2)) := rfl
  have h2 : (St.rekey ρ st).spawned = st.spawned := rfl
  rw [h1, h2, lookup_mapKey hinj]

theorem interEdges_rekey (hinj : ∀ x y, ρ x = ρ y → x = y) (m : MolIn) (st : St) :
    interEdges (MolIn.rekey ρ m) (St.rekey ρ st) = interEdges m st := by
  unfold interEdges
  rw [crossBonds_rekey hinj]
  apply flatMap_inv
  intro ab
  simp only [beadsOf_rekey hinj]

theorem withInterEdges_rekey (hinj : ∀ x y, ρ x = ρ y → x = y) (m : MolIn) (st : St) :
    withInterEdges (MolIn.rekey ρ m) (St.rekey ρ st) = withInterEdges m st := by
  unfold withInterEdges
  rw [interEdges_rekey hinj]
  rfl

theorem beadOf_rekey (hinj : ∀ x y, ρ x = ρ y → x = y) (m : MolIn) (st : St) (n : Int × Attrs) :
    beadOf (MolIn.rekey ρ m) (St.rekey ρ st) n = Bead.rekey ρ (beadOf m st n) := by
  unfold beadOf
  have h1 : (St.rekey ρ st).outToMol = st.outToMol.map (fun ow => (ow.1, ow.2.map (fun aw => (ρ aw.1, aw.2)))) := rfl
  have h2 : (St.rekey ρ st).refs = st.refs.map (fun r => (r.1, ρ r.2)) := rfl
  rw [h1, h2, lookup_mapVal (fun ws : List (Int × Rat) => ws.map (fun aw => (ρ aw.1, aw.2))), lookup_mapVal ρ]
  cases st.outToMol.lookup n.1 with
  | none => rfl
  | some ws =>
    have has : (ws.map (fun aw => (ρ aw.1, aw.2))).map Prod.fst = (ws.map Prod.fst).map ρ := by
      simp only [List.map_map]; rfl
    simp only [Option.map_some, has]
    cases st.refs.lookup n.1 with
    | none =>
      simp only [Option.map_none, Option.bind_none, filterMap_atom?_rekey hinj, List.head?_map, Option.map_map]
      rfl
    | some r =>
      simp only [Option.map_some, Option.bind_some, atom?_rekey hinj]
      cases m.atom? r with
      | none =>
        simp only [Option.map_none, filterMap_atom?_rekey hinj, List.head?_map, Option.map_map]
        rfl
      | some a => rfl

theorem garbageCount_rekey (hinj : ∀ x y, ρ x = ρ y → x = y) (m : MolIn) (st : St) :
    garbageCount (MolIn.rekey ρ m) (St.rekey ρ st) = garbageCount m st := by
  unfold garbageCount
  have h1 : (St.rekey ρ st).outToMol = st.outToMol.map (fun ow => (ow.1, ow.2.map (fun aw => (ρ aw.1, aw.2)))) := rfl
  have h2 : (St.rekey ρ st).refs = st.refs.map (fun r => (r.1, ρ r.2)) := rfl
  rw [h1, h2, filter_equiv (fun ow : Int × List (Int × Rat) => (ow.1, ow.2.map (fun aw => (ρ aw.1, aw.2))))
    (fun bw => ((st.refs.lookup bw.1).bind m.atom?).isNone && garbage m (bw.2.map Prod.fst)), List.length_map]
  intro bw
  have has : (bw.2.map (fun aw => (ρ aw.1, aw.2))).map Prod.fst = (bw.2.map Prod.fst).map ρ := by
    simp only [List.map_map]; rfl
  simp only [has, garbage_rekey hinj, lookup_mapVal ρ]
  congr 1
  cases st.refs.lookup bw.1 with
  | none => rfl
  | some r =>
    simp only [Option.map_some, Option.bind_some, atom?_rekey hinj]
    cases m.atom? r <;> rfl

theorem disconnectedCount_rekey (g : Mol) (st : St) :
    disconnectedCount g (St.rekey ρ st) = disconnectedCount g st := by
  unfold disconnectedCount
  have h1 : (St.rekey ρ st).molToOut = st.molToOut.map (fun aw => (ρ aw.1, aw.2)) := rfl
  have h2 : (St.rekey ρ st).spawned = st.spawned := rfl
  rw [h1, h2, filter_equiv (fun aw : Int × List (Int × Rat) => (ρ aw.1, aw.2)) _ _ (fun _ => rfl), List.length_map]

theorem uncovered_rekey (hinj : ∀ x y, ρ x = ρ y → x = y) (m : MolIn) (st : St) :
    uncovered (MolIn.rekey ρ m) (St.rekey ρ st) = (uncovered m st).map ρ := by
  unfold uncovered
  have h1 : (St.rekey ρ st).molToOut = st.molToOut.map (fun aw => (ρ aw.1, aw.2)) := rfl
  rw [h1, keys_rekey, dom_rekey]
  apply filter_equiv
  intro k
  rw [contains_map_inj ρ hinj]

theorem finish_rekey (hinj : ∀ x y, ρ x = ρ y → x = y) (m : MolIn) (st : St) :
    finish (MolIn.rekey ρ m) (St.rekey ρ st) = Result.rekey ρ (finish m st) := by
  unfold finish Result.rekey
  simp only [withInterEdges_rekey hinj, garbageCount_rekey hinj, disconnectedCount_rekey, uncovered_rekey hinj,
    List.map_map]
  have hov : (St.rekey ρ st).overlap.isEmpty = st.overlap.isEmpty := by
    show (st.overlap.map ρ).isEmpty = st.overlap.isEmpty
    cases st.overlap <;> rfl
  rw [hov, any_equiv ρ (fun k => !isHyd m k) (fun k => !isHyd (MolIn.rekey ρ m) k)
        (fun k => by rw [isHyd_rekey hinj]),
      any_equiv ρ (fun k => isHyd m k) (fun k => isHyd (MolIn.rekey ρ m) k) (fun k => isHyd_rekey hinj m k)]
  congr 1
  apply List.map_congr_left
  intro n _
  exact beadOf_rekey hinj m st n

/-! ## `assemble` -/

/-- `assemble` after the test for empty matches and the loop -/
def tailOf (m : MolIn) (st : St) : Except Outcome Result :=
  match st.err with
  | some e => .error e
  | none => .ok (finish m st)

theorem assemble_eq (m : MolIn) (ps : List Placement) :
    assemble m ps = if ps.any (fun p => p.atoms.isEmpty) then .error .valueerror
      else tailOf m (placeAll (order ps)) := rfl

theorem tailOf_rekey (hinj : ∀ x y, ρ x = ρ y → x = y) (m : MolIn) (st : St) :
    tailOf (MolIn.rekey ρ m) (St.rekey ρ st) = (tailOf m st).map (Result.rekey ρ) := by
  unfold tailOf
  have h : (St.rekey ρ st).err = st.err := rfl
  rw [h]
  cases st.err with
  | some e => rfl
  | none => simp only [finish_rekey hinj]; rfl

theorem any_empty_rekey (ps : List Placement) :
    (ps.map (Placement.rekey ρ)).any (fun p => p.atoms.isEmpty) = ps.any (fun p => p.atoms.isEmpty) := by
  apply any_equiv
  intro p
  rw [atoms_rekey]
  cases p.atoms <;> rfl

theorem atoms_ne_of_not_any (ps : List Placement) (h : ¬ ps.any (fun p => p.atoms.isEmpty) = true) :
    ∀ p ∈ ps, p.atoms ≠ [] := by
  intro p hp e
  apply h
  rw [List.any_eq_true]
  exact ⟨p, hp, by rw [e]; rfl⟩

/-- the simulation: the order hypothesis is only used when no match is empty (otherwise both sides are the
`ValueError` of `min` of an empty sequence) -/
theorem assemble_rekey_core (hinj : ∀ x y, ρ x = ρ y → x = y) (m : MolIn) (ps : List Placement)
    (hord : (∀ p ∈ ps, p.atoms ≠ []) → ∀ p ∈ ps, ∀ q ∈ ps,
      (minKey (Placement.rekey ρ p) ≤ minKey (Placement.rekey ρ q) ↔ minKey p ≤ minKey q)) :
    assemble (MolIn.rekey ρ m) (ps.map (Placement.rekey ρ)) = (assemble m ps).map (Result.rekey ρ) := by
  rw [assemble_eq, assemble_eq, any_empty_rekey]
  by_cases hany : ps.any (fun p => p.atoms.isEmpty) = true
  · rw [if_pos hany, if_pos hany]; rfl
  · rw [if_neg hany, if_neg hany, order_rekey ps (hord (atoms_ne_of_not_any ps hany)), placeAll_rekey hinj,
      tailOf_rekey hinj]

theorem table_rekey (r : Result) : Result.table (Result.rekey ρ r) = Result.table r := by
  unfold Result.table Result.rekey
  simp only [List.map_map]
  congr 1
  apply List.map_congr_left
  intro b _
  simp only [Function.comp, Bead.rekey, List.map_map]
  rfl

theorem map_table_rekey (x : Except Outcome Result) :
    (x.map (Result.rekey ρ)).map Result.table = x.map Result.table := by
  cases x with
  | error e => rfl
  | ok r => simp only [Except.map, table_rekey]

/-! ## renumberings that agree on the keys that occur -/

/-- every key the input mentions: atom keys, both ends of every edge, the atoms and reference targets of the
matches -/
def support (m : MolIn) (ps : List Placement) : List Int :=
  m.keys ++ m.edges.flatMap (fun e => [e.1, e.2]) ++ ps.flatMap (fun p => p.atoms ++ p.refs.map Prod.snd)

theorem mem_support_key (m : MolIn) (ps : List Placement) (a : C01.Atom) (ha : a ∈ m.atoms) :
    a.key ∈ support m ps := by
  unfold support MolIn.keys
  simp only [List.mem_append, List.mem_map]
  exact Or.inl (Or.inl ⟨a, ha, rfl⟩)

theorem mem_support_edge (m : MolIn) (ps : List Placement) (e : Int × Int) (he : e ∈ m.edges) :
    e.1 ∈ support m ps ∧ e.2 ∈ support m ps := by
  unfold support
  simp only [List.mem_append, List.mem_flatMap]
  exact ⟨Or.inl (Or.inr ⟨e, he, by simp⟩), Or.inl (Or.inr ⟨e, he, by simp⟩)⟩

theorem mem_support_atom (m : MolIn) (ps : List Placement) (p : Placement) (hp : p ∈ ps) (x : Int)
    (hx : x ∈ p.atoms) : x ∈ support m ps := by
  unfold support
  simp only [List.mem_append, List.mem_flatMap]
  exact Or.inr ⟨p, hp, Or.inl hx⟩

theorem mem_support_ref (m : MolIn) (ps : List Placement) (p : Placement) (hp : p ∈ ps) (r : Int × Int)
    (hr : r ∈ p.refs) : r.2 ∈ support m ps := by
  unfold support
  simp only [List.mem_append, List.mem_flatMap, List.mem_map]
  exact Or.inr ⟨p, hp, Or.inr ⟨r, hr, rfl⟩⟩

theorem molIn_rekey_congr {ρ ρ' : Int → Int} (m : MolIn) (ps : List Placement)
    (h : ∀ k ∈ support m ps, ρ' k = ρ k) : MolIn.rekey ρ' m = MolIn.rekey ρ m := by
  unfold MolIn.rekey
  congr 1
  · apply List.map_congr_left
    intro a ha
    unfold rekeyAtom01
    rw [h _ (mem_support_key m ps a ha)]
  · apply List.map_congr_left
    intro e he
    rw [h _ (mem_support_edge m ps e he).1, h _ (mem_support_edge m ps e he).2]

theorem placement_rekey_congr {ρ ρ' : Int → Int} (m : MolIn) (ps : List Placement)
    (h : ∀ k ∈ support m ps, ρ' k = ρ k) (p : Placement) (hp : p ∈ ps) :
    Placement.rekey ρ' p = Placement.rekey ρ p := by
  unfold Placement.rekey
  congr 1
  · apply List.map_congr_left
    intro aw haw
    have : aw.1 ∈ p.atoms := List.mem_map.2 ⟨aw, haw, rfl⟩
    rw [h _ (mem_support_atom m ps p hp _ this)]
  · apply List.map_congr_left
    intro r hr
    rw [h _ (mem_support_ref m ps p hp r hr)]

/-- an injection `Int → Int` with non-negative values -/
def enc (x : Int) : Int := if 0 ≤ x then 2 * x else -2 * x - 1

theorem enc_nonneg (x : Int) : 0 ≤ enc x := by unfold enc; split <;> omega

theorem enc_inj (x y : Int) (h : enc x = enc y) : x = y := by
  unfold enc at h
  split at h <;> split at h <;> omega

/-- an upper bound of `ρ` on `K` -/
def ub (ρ : Int → Int) : List Int → Int
  | [] => 0
  | k :: ks => max (ρ k) (ub ρ ks)

theorem le_ub (ρ : Int → Int) (K : List Int) (k : Int) (hk : k ∈ K) : ρ k ≤ ub ρ K := by
  induction K with
  | nil => cases hk
  | cons x xs ih =>
    unfold ub
    rcases List.mem_cons.1 hk with rfl | hk
    · exact Int.le_max_left _ _
    · exact Int.le_trans (ih hk) (Int.le_max_right _ _)

/-- `ρ` on `K`, everything else sent injectively above the values `ρ` takes on `K`; `c = 0` and `c = 1` give two
extensions that differ at every key outside `K` -/
def extend (ρ : Int → Int) (K : List Int) (c : Int) (x : Int) : Int :=
  if x ∈ K then ρ x else ub ρ K + 1 + 2 * enc x + c

theorem extend_on (ρ : Int → Int) (K : List Int) (c : Int) (k : Int) (hk : k ∈ K) : extend ρ K c k = ρ k := by
  unfold extend
  rw [if_pos hk]

theorem extend_inj (ρ : Int → Int) (K : List Int) (c : Int) (hc : 0 ≤ c)
    (hinj : ∀ x ∈ K, ∀ y ∈ K, ρ x = ρ y → x = y) : ∀ x y, extend ρ K c x = extend ρ K c y → x = y := by
  intro x y h
  unfold extend at h
  by_cases hx : x ∈ K
  · by_cases hy : y ∈ K
    · rw [if_pos hx, if_pos hy] at h
      exact hinj x hx y hy h
    · rw [if_pos hx, if_neg hy] at h
      have := le_ub ρ K x hx
      have := enc_nonneg y
      omega
  · by_cases hy : y ∈ K
    · rw [if_neg hx, if_pos hy] at h
      have := le_ub ρ K y hy
      have := enc_nonneg x
      omega
    · rw [if_neg hx, if_neg hy] at h
      exact enc_inj x y (by omega)

theorem extend_differ (ρ : Int → Int) (K : List Int) (x : Int) (h : extend ρ K 0 x = extend ρ K 1 x) : x ∈ K := by
  by_cases hx : x ∈ K
  · exact hx
  · unfold extend at h
    rw [if_neg hx, if_neg hx] at h
    omega

theorem molIn_rekey_id (m : MolIn) : MolIn.rekey (fun x => x) m = m := by
  cases m with
  | mk atoms edges =>
    unfold MolIn.rekey
    congr 1
    · rw [show (rekeyAtom01 fun x => x) = id from funext (fun a => by cases a; rfl)]
      exact List.map_id _
    · simp

theorem placement_rekey_id (p : Placement) : Placement.rekey (fun x => x) p = p := by
  cases p
  simp [Placement.rekey]

end S01

open S01

/-! ## the extension of a renumbering that is injective on finitely many keys -/

/-- every renumbering that is injective on a finite list of keys agrees on that list with a renumbering that is
injective on all integers -/
theorem c01_extend_injective (ρ : Int → Int) (K : List Int) (hinj : ∀ x ∈ K, ∀ y ∈ K, ρ x = ρ y → x = y) :
    ∃ ρ' : Int → Int, (∀ x y, ρ' x = ρ' y → x = y) ∧ ∀ k ∈ K, ρ' k = ρ k :=
  ⟨extend ρ K 0, extend_inj ρ K 0 (Int.le_refl 0) hinj, extend_on ρ K 0⟩

/-- `k ↦ k² mod 7` is injective on the keys 1, 2, 3 and not on all integers -/
example : ∀ x ∈ [1, 2, 3], ∀ y ∈ [1, 2, 3], (fun k : Int => k * k % 7) x = (fun k : Int => k * k % 7) y → x = y := by
  decide
example : ¬ (∀ x y : Int, (fun k : Int => k * k % 7) x = (fun k : Int => k * k % 7) y → x = y) :=
  fun h => absurd (h 3 4 (by decide)) (by decide)

/-- equality of outcomes is decidable (used by the computed examples only) -/
instance exceptDecEq {ε α : Type} [DecidableEq ε] [DecidableEq α] : DecidableEq (Except ε α)
  | .ok a, .ok b => if h : a = b then isTrue (by rw [h]) else isFalse (fun e => h (Except.ok.inj e))
  | .error a, .error b => if h : a = b then isTrue (by rw [h]) else isFalse (fun e => h (Except.error.inj e))
  | .ok _, .error _ => isFalse (fun e => by cases e)
  | .error _, .ok _ => isFalse (fun e => by cases e)

/-! ## concrete data for the non-vacuity examples -/
namespace Ex01

/-- strictly increasing on all integers -/
def ρ (k : Int) : Int := 3 * k + 7

/-- strictly increasing on the keys 10 … 31 that occur in `C01.exMol`, constant elsewhere -/
def ρK (k : Int) : Int := if 10 ≤ k ∧ k ≤ 31 then 100 - 2 * (31 - k) else 0

def blockA : C12.Mol := { nodes := [(0, { name := some "A", resid := some 1 })] }
def blockB : C12.Mol := { nodes := [(0, { name := some "B", resid := some 1 })] }
/-- two residues of two atoms each, bonded 2-3 -/
def mol : C01.MolIn :=
  { atoms := [⟨1, 1, "RA", "X", false⟩, ⟨2, 1, "RA", "X", false⟩, ⟨3, 2, "RB", "X", false⟩, ⟨4, 2, "RB", "X", false⟩],
    edges := [(1, 2), (2, 3), (3, 4)] }
def pA : C01.Placement := { molToBlock := [(1, [(0, 1)]), (2, [(0, 1)])], block := blockA, refs := [] }
def pB : C01.Placement := { molToBlock := [(3, [(0, 1)]), (4, [(0, 1)])], block := blockB, refs := [] }

/-- exchanges the keys of the two residues (1 ↔ 3, 2 ↔ 4): injective, not order preserving -/
def swap (k : Int) : Int := if k = 1 then 3 else if k = 3 then 1 else if k = 2 then 4 else if k = 4 then 2 else k

theorem swap_inj : ∀ x y, swap x = swap y → x = y := by
  intro x y h
  unfold swap at h
  repeat' split at h
  all_goals omega

theorem ρ_inj : ∀ x y, ρ x = ρ y → x = y := by
  intro x y h
  unfold ρ at h
  omega

end Ex01

/-! ## 1. `assemble` commutes with a renumbering of the input atoms

What is needed of `ρ`:
* INJECTIVITY ON THE KEYS THE INPUT MENTIONS (`support`: atom keys, both ends of every edge, atoms and reference
  targets of the matches), because atom keys are compared for equality: the dictionaries `mol_to_out` /
  `out_to_mol` (`dset2`, `lookup`), the overlap test, `edges_between` (`adj`), the reference atoms and the attribute
  loop (`MolIn.atom?`), the uncovered atoms.  Dangling edge ends and reference targets are included: they must not
  be sent onto the key of an atom.
* THE ORDER OF THE LOWEST KEYS OF THE MATCHES IS KEPT, because `do_mapping` sorts the matches by
  `min(match.keys())` (`minKey`, `insertDesc`); ties stay ties.
Nothing else: the order of the atoms inside a match, of the edges, of the atoms of the molecule is positional and
does not look at the keys. -/

/-- the simulation argument, for a renumbering that is injective on all integers -/
theorem c01_assemble_rekey_equivariant_global (ρ : Int → Int) (m : C01.MolIn) (ps : List C01.Placement)
    (hinj : ∀ x y, ρ x = ρ y → x = y)
    (hord : ∀ p ∈ ps, ∀ q ∈ ps,
      (C01.minKey (Placement.rekey ρ p) ≤ C01.minKey (Placement.rekey ρ q) ↔ C01.minKey p ≤ C01.minKey q)) :
    C01.assemble (MolIn.rekey ρ m) (ps.map (Placement.rekey ρ)) = (C01.assemble m ps).map (Result.rekey ρ) :=
  assemble_rekey_core hinj m ps (fun _ => hord)

/-- the same with the order hypothesis in the form "`ρ` strictly increasing on the atoms of the matches" -/
theorem c01_assemble_rekey_equivariant_mono (ρ : Int → Int) (m : C01.MolIn) (ps : List C01.Placement)
    (hinj : ∀ x y, ρ x = ρ y → x = y)
    (hmono : ∀ p ∈ ps, ∀ x ∈ p.atoms, ∀ q ∈ ps, ∀ y ∈ q.atoms, x < y → ρ x < ρ y) :
    C01.assemble (MolIn.rekey ρ m) (ps.map (Placement.rekey ρ)) = (C01.assemble m ps).map (Result.rekey ρ) :=
  assemble_rekey_core hinj m ps (fun hne => lowOrder_of_mono ps hne hmono)

/-- for a non-empty match, the lowest key of the renumbered match is the renumbered lowest key as soon as `ρ` is
strictly increasing on the atoms of that match -/
theorem c01_minKey_rekey (ρ : Int → Int) (p : C01.Placement) (hne : p.atoms ≠ [])
    (hmono : ∀ x ∈ p.atoms, ∀ y ∈ p.atoms, x < y → ρ x < ρ y) :
    C01.minKey (Placement.rekey ρ p) = ρ (C01.minKey p) := minKey_rekey p hmono hne

example : C01.exP1.atoms ≠ [] ∧ ∀ x ∈ C01.exP1.atoms, ∀ y ∈ C01.exP1.atoms, x < y → Ex01.ρ x < Ex01.ρ y := by decide

/-- global injectivity replaced by injectivity on the keys the input mentions: the result is renumbered by an
injective extension `ρ'` of `ρ` -/
theorem c01_assemble_rekey_equivariant_on (ρ : Int → Int) (m : C01.MolIn) (ps : List C01.Placement)
    (hinj : ∀ x ∈ support m ps, ∀ y ∈ support m ps, ρ x = ρ y → x = y)
    (hord : ∀ p ∈ ps, ∀ q ∈ ps,
      (C01.minKey (Placement.rekey ρ p) ≤ C01.minKey (Placement.rekey ρ q) ↔ C01.minKey p ≤ C01.minKey q)) :
    ∃ ρ' : Int → Int, (∀ x y, ρ' x = ρ' y → x = y) ∧ (∀ k ∈ support m ps, ρ' k = ρ k) ∧
      C01.assemble (MolIn.rekey ρ m) (ps.map (Placement.rekey ρ)) = (C01.assemble m ps).map (Result.rekey ρ') := by
  obtain ⟨ρ', hinj', hag⟩ := c01_extend_injective ρ (support m ps) hinj
  refine ⟨ρ', hinj', hag, ?_⟩
  have hps : ps.map (Placement.rekey ρ) = ps.map (Placement.rekey ρ') :=
    List.map_congr_left (fun p hp => (placement_rekey_congr m ps hag p hp).symm)
  rw [← molIn_rekey_congr m ps hag, hps]
  apply c01_assemble_rekey_equivariant_global ρ' m ps hinj'
  intro p hp q hq
  rw [placement_rekey_congr m ps hag p hp, placement_rekey_congr m ps hag q hq]
  exact hord p hp q hq

/-- **a free theorem of the equivariance**: every constituent atom of every particle of the result (`graph` and the
keys of `mapping_weights`) is a key the input mentions.  Proof: two injective renumberings that agree exactly on
`support m ps` renumber the input in the same way, hence the result in the same way. -/
theorem c01_result_atoms_in_support (m : C01.MolIn) (ps : List C01.Placement) (r : C01.Result)
    (h : C01.assemble m ps = .ok r) (b : C01.Bead) (hb : b ∈ r.beads) :
    (∀ a ∈ b.atoms, a ∈ support m ps) ∧ (∀ aw ∈ b.weights, aw.1 ∈ support m ps) := by
  have hid : ∀ x ∈ support m ps, ∀ y ∈ support m ps, (fun x : Int => x) x = (fun x : Int => x) y → x = y :=
    fun _ _ _ _ e => e
  have key : ∀ c : Int, 0 ≤ c →
      C01.assemble m ps = (C01.assemble m ps).map (Result.rekey (extend (fun x => x) (support m ps) c)) := by
    intro c hc
    have hag := extend_on (fun x : Int => x) (support m ps) c
    have hpl : ∀ p ∈ ps, Placement.rekey (extend (fun x => x) (support m ps) c) p = p := fun p hp => by
      rw [placement_rekey_congr m ps hag p hp, placement_rekey_id]
    have e := c01_assemble_rekey_equivariant_global (extend (fun x => x) (support m ps) c) m ps
      (extend_inj _ _ c hc hid) (by
        intro p hp q hq
        rw [hpl p hp, hpl q hq])
    have hm : MolIn.rekey (extend (fun x => x) (support m ps) c) m = m := by
      rw [molIn_rekey_congr m ps hag, molIn_rekey_id]
    have hps : ps.map (Placement.rekey (extend (fun x => x) (support m ps) c)) = ps := by
      rw [List.map_congr_left hpl, List.map_id']
    rw [hm, hps] at e
    exact e
  have e0 := key 0 (by omega)
  have e1 := key 1 (by omega)
  rw [h] at e0 e1
  have e : Result.rekey (extend (fun x => x) (support m ps) 0) r
      = Result.rekey (extend (fun x => x) (support m ps) 1) r :=
    Except.ok.inj (e0.symm.trans e1)
  have eb := List.map_inj_left.1 (congrArg C01.Result.beads e) b hb
  constructor
  · intro a ha
    exact extend_differ _ _ a (List.map_inj_left.1 (congrArg C01.Bead.atoms eb) a ha)
  · intro aw haw
    have := List.map_inj_left.1 (congrArg C01.Bead.weights eb) aw haw
    exact extend_differ _ _ aw.1 (congrArg Prod.fst this)

/-- **MAIN.** `do_mapping` on the renumbered input gives the renumbered result (same particles, names, resids, charge
groups, `_old_resid`, weights, bonds, interactions, warnings, same error outcome; the constituent atoms of every
particle are the renumbered ones) for every renumbering that is injective on the keys the input mentions and keeps
the order of the lowest atom keys of the matches. -/
theorem c01_assemble_rekey_equivariant (ρ : Int → Int) (m : C01.MolIn) (ps : List C01.Placement)
    (hinj : ∀ x ∈ support m ps, ∀ y ∈ support m ps, ρ x = ρ y → x = y)
    (hord : ∀ p ∈ ps, ∀ q ∈ ps,
      (C01.minKey (Placement.rekey ρ p) ≤ C01.minKey (Placement.rekey ρ q) ↔ C01.minKey p ≤ C01.minKey q)) :
    C01.assemble (MolIn.rekey ρ m) (ps.map (Placement.rekey ρ)) = (C01.assemble m ps).map (Result.rekey ρ) := by
  obtain ⟨ρ', _, hag, h⟩ := c01_assemble_rekey_equivariant_on ρ m ps hinj hord
  rw [h]
  cases hr : C01.assemble m ps with
  | error e => rfl
  | ok r =>
    simp only [Except.map]
    congr 1
    unfold Result.rekey
    congr 1
    apply List.map_congr_left
    intro b hb
    obtain ⟨h1, h2⟩ := c01_result_atoms_in_support m ps r hr b hb
    unfold Bead.rekey
    congr 1
    · exact List.map_congr_left (fun a ha => hag a (h1 a ha))
    · exact List.map_congr_left (fun aw haw => by rw [hag aw.1 (h2 aw haw)])

/-- in particular for every renumbering that is strictly increasing on the keys the input mentions -/
theorem c01_assemble_rekey_equivariant_increasing (ρ : Int → Int) (m : C01.MolIn) (ps : List C01.Placement)
    (hmono : ∀ x ∈ support m ps, ∀ y ∈ support m ps, x < y → ρ x < ρ y) :
    C01.assemble (MolIn.rekey ρ m) (ps.map (Placement.rekey ρ)) = (C01.assemble m ps).map (Result.rekey ρ) := by
  have hinj : ∀ x ∈ support m ps, ∀ y ∈ support m ps, ρ x = ρ y → x = y := by
    intro x hx y hy e
    by_cases h1 : x < y
    · have := hmono x hx y hy h1; omega
    · by_cases h2 : y < x
      · have := hmono y hy x hx h2; omega
      · omega
  by_cases hany : ps.any (fun p => p.atoms.isEmpty) = true
  · rw [assemble_eq, assemble_eq, any_empty_rekey, if_pos hany, if_pos hany]; rfl
  · exact c01_assemble_rekey_equivariant ρ m ps hinj
      (lowOrder_of_mono ps (atoms_ne_of_not_any ps hany) (fun p hp x hx q hq y hy hxy =>
        hmono x (mem_support_atom m ps p hp x hx) y (mem_support_atom m ps q hq y hy) hxy))

/-! ### non-vacuity: the worked instance of `VermouthProps/C01.lean` -/

example : ∀ x y, Ex01.ρ x = Ex01.ρ y → x = y := Ex01.ρ_inj
example : ∀ p ∈ [C01.exP2, C01.exP1], ∀ q ∈ [C01.exP2, C01.exP1],
    (C01.minKey (Placement.rekey Ex01.ρ p) ≤ C01.minKey (Placement.rekey Ex01.ρ q) ↔ C01.minKey p ≤ C01.minKey q) := by
  decide
example : ∀ p ∈ [C01.exP2, C01.exP1], ∀ x ∈ p.atoms, ∀ q ∈ [C01.exP2, C01.exP1], ∀ y ∈ q.atoms,
    x < y → Ex01.ρ x < Ex01.ρ y := by decide
example : (match C01.assemble C01.exMol [C01.exP2, C01.exP1] with | .ok _ => true | .error _ => false) = true := by
  decide
/-- computed on the input renumbered by `k ↦ 3 k + 7`: the constituents of particle 3 are the renumbered atoms 20,
21; the reference atom 21 of particle 4 is found under its new key (`_old_resid` 6) -/
example : (match C01.assemble (MolIn.rekey Ex01.ρ C01.exMol) ([C01.exP2, C01.exP1].map (Placement.rekey Ex01.ρ)) with
    | .ok r => r.beads.map (fun b => (b.key, b.oldResid, b.atoms))
    | .error _ => [])
    = [(1, some 5, [37, 40]), (2, some 5, [37, 40]), (3, some 6, [67, 70]), (4, some 6, [67, 70])] := by decide
/-- the hypotheses also hold with the third match `exP3`, which overlaps `exP2` in atom 21 -/
example : ∀ p ∈ [C01.exP3, C01.exP2, C01.exP1], ∀ q ∈ [C01.exP3, C01.exP2, C01.exP1],
    (C01.minKey (Placement.rekey Ex01.ρ p) ≤ C01.minKey (Placement.rekey Ex01.ρ q) ↔ C01.minKey p ≤ C01.minKey q) := by
  decide
/-- `ρK` is injective (even strictly increasing) on the keys that occur, not on all integers -/
example : ∀ x ∈ support C01.exMol [C01.exP2, C01.exP1], ∀ y ∈ support C01.exMol [C01.exP2, C01.exP1],
    Ex01.ρK x = Ex01.ρK y → x = y := by decide
example : ∀ x ∈ support C01.exMol [C01.exP2, C01.exP1], ∀ y ∈ support C01.exMol [C01.exP2, C01.exP1],
    x < y → Ex01.ρK x < Ex01.ρK y := by decide
example : ¬ (∀ x y, Ex01.ρK x = Ex01.ρK y → x = y) := fun h => absurd (h 0 1 (by decide)) (by decide)
example : ∀ p ∈ [C01.exP2, C01.exP1], ∀ q ∈ [C01.exP2, C01.exP1],
    (C01.minKey (Placement.rekey Ex01.ρK p) ≤ C01.minKey (Placement.rekey Ex01.ρK q) ↔ C01.minKey p ≤ C01.minKey q) := by
  decide
/-- the keys the worked instance mentions -/
example : support C01.exMol [C01.exP2, C01.exP1]
    = [20, 21, 10, 11, 30, 31, 10, 11, 11, 20, 20, 21, 21, 30, 30, 31, 20, 21, 21, 10, 11] := by decide

/-! ## 2. the particle table does not depend on the numbering of the input atoms -/

theorem c01_table_of_rekey (ρ : Int → Int) (r : C01.Result) : Result.table (Result.rekey ρ r) = Result.table r :=
  table_rekey r

/-- **the C11 clause for `do_mapping`.**  The particle table (key, name, resid, charge group, `_old_resid`, weights
in order), the bonds, the interactions and the warnings - or the error - are the same for the renumbered input, for
every renumbering that is injective on the keys the input mentions and keeps the order of the lowest atom keys of
the matches. -/
theorem c01_table_rekey_invariant (ρ : Int → Int) (m : C01.MolIn) (ps : List C01.Placement)
    (hinj : ∀ x ∈ support m ps, ∀ y ∈ support m ps, ρ x = ρ y → x = y)
    (hord : ∀ p ∈ ps, ∀ q ∈ ps,
      (C01.minKey (Placement.rekey ρ p) ≤ C01.minKey (Placement.rekey ρ q) ↔ C01.minKey p ≤ C01.minKey q)) :
    (C01.assemble (MolIn.rekey ρ m) (ps.map (Placement.rekey ρ))).map Result.table
      = (C01.assemble m ps).map Result.table := by
  rw [c01_assemble_rekey_equivariant ρ m ps hinj hord, map_table_rekey]

/-- in particular for every renumbering that is strictly increasing on the keys the input mentions: what the PDB
reader guarantees when atoms are inserted into or removed from the file elsewhere -/
theorem c01_table_rekey_invariant_increasing (ρ : Int → Int) (m : C01.MolIn) (ps : List C01.Placement)
    (hmono : ∀ x ∈ support m ps, ∀ y ∈ support m ps, x < y → ρ x < ρ y) :
    (C01.assemble (MolIn.rekey ρ m) (ps.map (Placement.rekey ρ))).map Result.table
      = (C01.assemble m ps).map Result.table := by
  rw [c01_assemble_rekey_equivariant_increasing ρ m ps hmono, map_table_rekey]

/-- the table of the worked instance, computed for the renumbered input: identical -/
example : (C01.assemble (MolIn.rekey Ex01.ρK C01.exMol) ([C01.exP2, C01.exP1].map (Placement.rekey Ex01.ρK))).map
      Result.table = (C01.assemble C01.exMol [C01.exP2, C01.exP1]).map Result.table := by decide

/-! ## 4. the order of the lowest keys matters: the numbering of the PDB reader is not pure presentation -/

/-- **an injective renumbering that does not keep the order of the lowest keys changes the particle table.**
Atoms 1, 2 are matched by block `A`, atoms 3, 4 by block `B`.  With the keys as read, particle 1 is `A` and
particle 2 is `B`.  After exchanging the keys of the two residues (1 ↔ 3, 2 ↔ 4; the same molecule, the same
matches, the same bond between the residues) the match of `B` has the lowest key and is placed first: particle 1 is
`B` with resid 1, particle 2 is `A` with resid 2. -/
theorem c01_nonmonotone_changes_block_order :
    (∀ x y, Ex01.swap x = Ex01.swap y → x = y)
    ∧ ¬ (∀ p ∈ [Ex01.pA, Ex01.pB], ∀ q ∈ [Ex01.pA, Ex01.pB],
          (C01.minKey (Placement.rekey Ex01.swap p) ≤ C01.minKey (Placement.rekey Ex01.swap q)
            ↔ C01.minKey p ≤ C01.minKey q))
    ∧ (C01.assemble Ex01.mol [Ex01.pA, Ex01.pB]).map (fun r => (Result.table r).beads)
        = .ok [⟨1, some "A", some 1, some 1, some 1, [1, 1]⟩, ⟨2, some "B", some 2, some 2, some 2, [1, 1]⟩]
    ∧ (C01.assemble (MolIn.rekey Ex01.swap Ex01.mol) ([Ex01.pA, Ex01.pB].map (Placement.rekey Ex01.swap))).map
          (fun r => (Result.table r).beads)
        = .ok [⟨1, some "B", some 1, some 1, some 2, [1, 1]⟩, ⟨2, some "A", some 2, some 2, some 1, [1, 1]⟩]
    ∧ (C01.assemble (MolIn.rekey Ex01.swap Ex01.mol) ([Ex01.pA, Ex01.pB].map (Placement.rekey Ex01.swap))).map
          Result.table
        ≠ (C01.assemble Ex01.mol [Ex01.pA, Ex01.pB]).map Result.table :=
  ⟨Ex01.swap_inj, by decide, by decide, by decide, by decide⟩

end C11
