import VermouthProofs.C02_C13Whole
/-!
C02 ∘ C13 — the whole written file through the repo reader, and the view of the resulting block.
Core Lean only.
-/
namespace C02.Repo
open C13

variable {tab : List Entry} {idxTab : List (String × List Idx)} {tbl : List (String × Arity)}

/-! ### what `repoOk` + `wellFormed` + `charOk` give, as facts -/

structure RepoFacts (T : List Path) (m : Mol) : Prop where
  nrexcl : (pyInt? m.nrexcl).isSome = true
  nrPlain : m.nrexcl.toList.all (fun c => c != '$') = true
  molHead : ∀ c, m.moltype.toList.head? = some c → c ≠ '[' ∧ c ≠ '#' ∧ c ≠ '\x01'
  molPlain : m.moltype.toList.all (fun c => c != '$') = true
  atoms : ∀ a ∈ m.atoms, atomRepoOk a = true
  inters : ∀ p ∈ m.inters, ∀ i ∈ p.2, i.params.all plainTok = true ∧ tagOk i.ifdef = true ∧ tagOk i.ifndef = true
  pre : m.pre.all (fun p => p.2.all freeLineOk) = true
  post : m.post.all (fun p => p.2.all freeLineOk) = true
  remaining : ∀ n ∈ C02.remainingNames m, [hdrName n] ∉ T
  remainingNoMacros : ∀ n ∈ C02.remainingNames m, hdrName n ≠ "macros"

theorem repoFacts_of (T : List Path) (m : Mol) (h : repoOk T m = true) : RepoFacts T m := by
  simp only [repoOk, repoOkLocal, Bool.and_eq_true, List.all_eq_true] at h
  obtain ⟨⟨⟨⟨⟨⟨⟨⟨h1, h1'⟩, h2⟩, h3⟩, h4⟩, h5⟩, h6⟩, h7⟩, h8⟩ := h
  refine ⟨h1, by simpa [List.all_eq_true] using h1', ?_, by simpa [List.all_eq_true] using h2, h4, ?_, by simpa [List.all_eq_true] using h6,
    by simpa [List.all_eq_true] using h7, ?_, ?_⟩
  · intro c hc
    rw [hc] at h3
    simpa [and_assoc] using h3
  · intro p hp i hi
    have := h5 p hp i hi
    simpa [Bool.and_eq_true, and_assoc] using this
  · intro n hn
    have := h8 n hn
    simp only [Bool.and_eq_true, Bool.not_eq_true', bne_iff_ne, ne_eq] at this
    simpa using this.1
  · intro n hn
    have := h8 n hn
    simp only [Bool.and_eq_true, Bool.not_eq_true', bne_iff_ne, ne_eq] at this
    exact this.2

theorem freeOk_linesOf (tbl' : List (String × List String)) (h : tbl'.all (fun p => p.2.all freeLineOk) = true)
    (n : String) : FreeOk (C02.linesOf tbl' n) := linesOf_free tbl' h n

/-! ### the prelude -/

theorem walk_defines (P : IParams RCtx) (x : XS) (hpm : x.pm = none) (defs : List (String × String))
    (h : ∀ d ∈ defs, C02.tokS d.1 ∧ C02.tokS d.2) :
    walkLs P x (defs.flatMap fun d =>
      [C02.Line.directive "#ifndef" [d.1], C02.Line.directive "#define" [d.1, d.2],
       C02.Line.directive "#endif" [], C02.Line.blank]) = some x := by
  induction defs with
  | nil => rfl
  | cons d t ih =>
    obtain ⟨pm, s, i⟩ := x
    simp only at hpm
    subst hpm
    obtain ⟨h1, h2⟩ := h d (by simp)
    simp only [List.flatMap_cons, List.cons_append, List.nil_append]
    have hopen := walk_guard_open P false d.1 h1 s i
    simp only [Bool.false_eq_true, if_false] at hopen
    rw [walkLs_cons_ok _ _ _ _ _ hopen]
    rw [walkLs_cons_ok _ _ _ _ _ (walk_define P d.1 d.2 h1 h2 _ s i)]
    rw [walkLs_cons_ok _ _ _ _ _ (walk_endif P _ s i)]
    rw [walkLs_cons_ok _ _ _ _ _ (by rw [cls_blank]; rfl)]
    exact ih (fun d' hd' => h d' (by simp [hd']))

def ctxMol (m : Mol) : RCtx :=
  { base := { name := some m.moltype }, nrexcl := some m.nrexcl }

theorem walk_prelude (F : TabFacts tab idxTab tbl) (m : Mol) (hc : C02.CharFacts m)
    (hr : RepoFacts (tab.map (·.path)) m) (hmol : hdrName "moleculetype" = "moleculetype") :
    walkLs (paramsX idxTab tab) ⟨none, {}, 0⟩ (C02.prelude m)
      = some (stX none ["moleculetype"] 0 (ctxMol m) [] 2) := by
  obtain ⟨e, he, _⟩ := F.mol
  have hT : ["moleculetype"] ∈ (paramsX idxTab tab).T := findEntry_mem he
  unfold C02.prelude
  rw [List.append_assoc, List.append_assoc]
  rw [walkLs_append_ok _ _ _ _ _ (walk_skip _ _ _ (by
    intro l hl; simp only [List.mem_map] at hl; obtain ⟨t, _, rfl⟩ := hl; exact cls_comment t))]
  rw [walkLs_append_ok _ _ _ _ _ (walk_skip _ _ _ (by
    intro l hl; split at hl <;> simp at hl; subst hl; exact cls_blank))]
  rw [walkLs_append_ok _ _ _ _ _ (walk_defines _ _ rfl _ (fun d hd =>
    ⟨C02.tokS_of_tokOk _ (hc.defines d hd).1, C02.tokS_of_tokOk _ (hc.defines d hd).2⟩))]
  rw [walkLs_cons_ok _ _ _ _ _ (walk_sect _ _ _ _ _)]
  rw [hmol, header_mol _ hT]
  simp only [Nat.zero_add, show (paramsX idxTab tab).fresh = ({} : RCtx) from rfl]
  have hm := walk_moltype F m.moltype m.nrexcl (C02.tokS_of_tokOk _ hc.moltype) (C02.tokS_of_tokOk _ hc.nrexcl)
    (fun c hcc => ⟨(hr.molHead c hcc).2.1, (hr.molHead c hcc).2.2⟩) hr.nrexcl 1 0 {} []
  rw [walkLs_cons_ok _ _ _ _ _ hm]
  rw [walkLs_cons_ok _ _ _ _ _ (by rw [cls_blank]; rfl)]
  rfl

/-! ### `[ atoms ]` -/

theorem addAtoms_fields (w : Widths) (l : List Atom) : ∀ (k : Nat) (c : RCtx),
    (addAtoms c w k l).rows = c.rows ++ (C02.atomLines w l (k + 1)).map lineTokens
    ∧ (addAtoms c w k l).nrexcl = c.nrexcl
    ∧ (addAtoms c w k l).base.name = c.base.name
    ∧ (addAtoms c w k l).base.inters = c.base.inters
    ∧ (addAtoms c w k l).base.nodes.map (·.1) = c.base.nodes.map (·.1) ++ (List.range' k l.length).map (fun (j : Nat) => toString j) := by
  induction l with
  | nil => intro k c; simp [addAtoms, C02.atomLines]
  | cons a r ih =>
    intro k c
    obtain ⟨h1, h2, h3, h4, h5⟩ := ih (k + 1) (addAtom c w k a)
    simp only [addAtoms, C02.atomLines, List.map_cons]
    refine ⟨?_, ?_, ?_, ?_, ?_⟩
    · rw [h1]; simp [addAtom]
    · rw [h2]; rfl
    · rw [h3]; rfl
    · rw [h4]; rfl
    · rw [h5]; simp [addAtom, List.range'_succ]

theorem keysUpTo_eq (n : Nat) : keysUpTo n = (List.range' 0 n).map (fun (j : Nat) => toString j) := by
  simp [keysUpTo, List.range_eq_range']

theorem walk_atomsPart (F : TabFacts tab idxTab tbl) (m : Mol) (hw : C02.WfFacts tbl m) (hc : C02.CharFacts m)
    (hr : RepoFacts (tab.map (·.path)) m) (hat : hdrName "atoms" = "atoms") (c : RCtx) (i : Nat)
    (hk : c.base.nodes = []) (name : String) (hname : c.base.name = some name) :
    ∃ j, walkLs (paramsX idxTab tab) (stX none ["moleculetype"] 0 c [] i) (C02.atomsPart m)
      = some (stX none ["moleculetype", "atoms"] 0 (addAtoms c (C02.widthsOf m) 0 (C02.sortedNodes m))
          [(some name, (0, c))] j) := by
  obtain ⟨e, he, _⟩ := F.atoms
  have hT : ["moleculetype", "atoms"] ∈ (paramsX idxTab tab).T := findEntry_mem he
  unfold C02.atomsPart
  simp only [List.append_assoc, List.singleton_append, List.cons_append, List.nil_append]
  unfold stX
  rw [walkLs_cons_ok _ _ _ _ _ (walk_sect _ _ _ _ _)]
  rw [hat, header_atoms _ hT F.atomsNotTop]
  have hnm : (paramsX idxTab tab).nameOf c = some name := hname
  rw [hnm]
  simp only [dictSet]
  rw [walkLs_append_ok _ _ _ _ _ (walk_frees _ _ _ (freeOk_linesOf _ hr.pre _))]
  obtain ⟨j, hj⟩ := walk_atomLines F (C02.widthsOf m) 0 [(some name, (0, c))] (C02.sortedNodes m) 0 c (i + 1)
    (by rw [hk]; rfl)
    (by
      intro a ha
      have ham : a ∈ m.atoms := (C02.sortedNodes_perm m).mem_iff.mp ha
      refine ⟨fun j => ?_, hr.atoms a ham, hw.atomsOk a ham⟩
      have := hc.atoms a ham
      simpa [lineGood] using this)
  unfold stX at hj
  rw [walkLs_append_ok _ _ _ _ _ hj]
  rw [walkLs_append_ok _ _ _ _ _ (walk_frees _ _ _ (freeOk_linesOf _ hr.post _))]
  exact ⟨j, walk_skip _ _ _ (by intro l hl; simp only [List.mem_singleton] at hl; subst hl; exact cls_blank)⟩

/-! ### facts about the sections -/

theorem keyOk_of (it : Inter) (hch : C02.interChars it = true) (h1 : tagOk it.ifdef = true)
    (h2 : tagOk it.ifndef = true) : KeyOk (keyOf it) := by
  simp only [C02.interChars, Bool.and_eq_true] at hch
  obtain ⟨⟨⟨⟨_, hd⟩, hnd⟩, _⟩, _⟩ := hch
  unfold KeyOk keyOf condOf
  cases hdef : it.ifdef with
  | some d =>
    rw [hdef] at hd h1
    simp only [Option.all_some] at hd
    simp only [tagOk, Option.all_some, List.all_eq_true, bne_iff_ne, ne_eq] at h1
    exact ⟨C02.tokS_of_tokOk d hd, h1⟩
  | none =>
    cases hndef : it.ifndef with
    | some d =>
      rw [hndef] at hnd h2
      simp only [Option.all_some] at hnd
      simp only [tagOk, Option.all_some, List.all_eq_true, bne_iff_ne, ne_eq] at h2
      exact ⟨C02.tokS_of_tokOk d hnd, h2⟩
    | none => trivial

theorem sectFacts_of (m : Mol) (hw : C02.WfFacts tbl m) (hc : C02.CharFacts m) (T : List Path)
    (hr : RepoFacts T m) (hnames : ∀ p ∈ tbl, hdrName p.1 = p.1) :
    ∀ s ∈ C02.sortInteractions m,
      ∃ ar, SectFacts (tbl := tbl) (C02.correspondence m) m.atoms.length ar s := by
  intro s hs
  obtain ⟨_, h2, ar, hlk, hv, hall⟩ := hw.sections s hs
  have hmem := C02.mem_lookup tbl _ ar hlk
  obtain ⟨hm, _⟩ := C02.mem_sortInteractions m s hs
  obtain ⟨_, hints⟩ := hc.inters _ hm
  have hh : hdrName (retag s.2.1) = retag s.2.1 := hnames (retag s.2.1, ar) hmem
  refine ⟨ar, { notAtoms := h2, inTbl := hmem, vsn := hv, hdr := hh, inters := ?_ }⟩
  intro it hit
  have hp := hr.inters _ hm it hit
  exact ⟨⟨(hall it hit).2, hp.1, hints it hit⟩, keyOk_of it (hints it hit) hp.2.1 hp.2.2⟩

/-! ### the whole file -/

/-- the interaction records the reader appends, in file order -/
def fileRecs (m : Mol) : List C13.Inter :=
  (C02.sortInteractions m).flatMap fun s => (C02.groupRuns (C02.sortInters s.2.2)).flatMap fun blk =>
    blk.2.map (interRec (C02.correspondence m) (retag s.2.1) (pmOf blk.1))

theorem walk_fileOrd (F : TabFacts tab idxTab tbl) (m : Mol) (hw : C02.WfFacts tbl m) (hc : C02.CharFacts m)
    (hr : RepoFacts (tab.map (·.path)) m) (hnames : ∀ p ∈ tbl, hdrName p.1 = p.1)
    (hmol : hdrName "moleculetype" = "moleculetype") (hat : hdrName "atoms" = "atoms")
    (names : List String) (hsub : ∀ n ∈ names, n ∈ C02.remainingNames m) :
    ∃ cf, ((walkLs (paramsX idxTab tab) ⟨none, {}, 0⟩ (C02.fileLinesOrd m names)).bind (finishX (paramsX idxTab tab))).map
        (·.blocks) = some [(some m.moltype, (0, cf))]
      ∧ ViewEq (addAtoms (ctxMol m) (C02.widthsOf m) 0 (C02.sortedNodes m)) cf (fileRecs m) := by
  obtain ⟨e, he, _⟩ := F.mol
  have hT : ["moleculetype"] ∈ (paramsX idxTab tab).T := findEntry_mem he
  let c2 := addAtoms (ctxMol m) (C02.widthsOf m) 0 (C02.sortedNodes m)
  obtain ⟨f1, f2, f3, f4, f5⟩ := addAtoms_fields (C02.widthsOf m) (C02.sortedNodes m) 0 (ctxMol m)
  have hname2 : c2.base.name = some m.moltype := f3
  have hkeys2 : c2.base.nodes.map (·.1) = keysUpTo m.atoms.length := by
    show (addAtoms (ctxMol m) (C02.widthsOf m) 0 (C02.sortedNodes m)).base.nodes.map (·.1) = _
    rw [f5, keysUpTo_eq, C02.sortedNodes_length]
    simp [ctxMol]
  unfold C02.fileLinesOrd
  rw [List.append_assoc, List.append_assoc]
  rw [walkLs_append_ok _ _ _ _ _ (walk_prelude F m hc hr hmol)]
  obtain ⟨j1, h1⟩ := walk_atomsPart F m hw hc hr hat (ctxMol m) 2 rfl m.moltype rfl
  rw [walkLs_append_ok _ _ _ _ _ h1]
  obtain ⟨c3, bl3, x3, j3, h3, hv3, hb3⟩ := walk_sections F m (C02.correspondence m) (C02.widthsOf m).idx
    m.atoms.length (freeOk_linesOf _ hr.pre) (freeOk_linesOf _ hr.post) m.moltype 0 (C02.sortInteractions m)
    "atoms" [(some m.moltype, (0, ctxMol m))] c2 j1
    (sectFacts_of m hw hc _ hr hnames) hname2 (Or.inr ⟨_, rfl⟩) ⟨hkeys2, Or.inl rfl⟩
  rw [walkLs_append_ok _ _ _ _ _ h3]
  obtain ⟨c4, bl4, sec4, j4, h4, hv4, hb4, _⟩ := walk_remaining m (freeOk_linesOf _ hr.pre)
    (freeOk_linesOf _ hr.post) hT m.moltype 0 names ["moleculetype", x3] bl3 c3 j3
    (fun n hn => hr.remaining n (hsub n hn)) (by simp) (hv3.name.trans hname2) hb3
  unfold C02.remainingPartOf
  rw [h4]
  have hv : ViewEq c2 c4 (fileRecs m) := by
    have := hv3.trans hv4
    simpa [fileRecs] using this
  -- end of file
  simp only [Option.bind_some, finishX, stX, Option.isSome_none, Bool.false_eq_true, if_false, Option.map_some]
  unfold itpFinalize
  by_cases hend : sec4.contains "atoms" = true
  · refine ⟨snap c4, ?_, ?_⟩
    · simp only [hend, if_true, Option.map_some]
      have hnm : (paramsX idxTab tab).nameOf ((paramsX idxTab tab).atomsEnded c4) = some m.moltype :=
        (hv.name.trans hname2)
      rw [hnm, blocksInv_set _ _ hb4]
      rfl
    · have := hv.trans (viewEq_snap c4)
      simpa using this
  · refine ⟨c4, ?_, hv⟩
    simp only [hend, Bool.false_eq_true, if_false]
    have hnm : (paramsX idxTab tab).nameOf c4 = some m.moltype := (hv.name.trans hname2)
    rw [hnm, blocksInv_set _ _ hb4]

theorem walk_file (F : TabFacts tab idxTab tbl) (m : Mol) (hw : C02.WfFacts tbl m) (hc : C02.CharFacts m)
    (hr : RepoFacts (tab.map (·.path)) m) (hnames : ∀ p ∈ tbl, hdrName p.1 = p.1)
    (hmol : hdrName "moleculetype" = "moleculetype") (hat : hdrName "atoms" = "atoms") :
    ∃ cf, ((walkLs (paramsX idxTab tab) ⟨none, {}, 0⟩ (C02.fileLines m)).bind (finishX (paramsX idxTab tab))).map
        (·.blocks) = some [(some m.moltype, (0, cf))]
      ∧ ViewEq (addAtoms (ctxMol m) (C02.widthsOf m) 0 (C02.sortedNodes m)) cf (fileRecs m) :=
  walk_fileOrd F m hw hc hr hnames hmol hat (C02.remainingNames m) (fun _ h => h)

/-! ### the view of the block -/

theorem rowAtom_written (w : Widths) (i : Nat) (a : Atom) (h : atomOk a = true) :
    rowAtom (lineTokens (.atom w i a)) = some (toPAtom a) := by
  by_cases hc : a.charge = "" <;> by_cases hm : a.mass = ""
  · simp [lineTokens, rowAtom, toPAtom, hc, hm]
  · simp [atomOk, hc, hm] at h
  · simp [lineTokens, rowAtom, toPAtom, hc, hm]
  · simp [lineTokens, rowAtom, toPAtom, hc, hm]

theorem mapM_rowAtom (w : Widths) (l : List Atom) (h : ∀ a ∈ l, atomOk a = true) : ∀ (k : Nat),
    ((C02.atomLines w l k).map lineTokens).mapM rowAtom = some (l.map toPAtom) := by
  induction l with
  | nil => intro k; rfl
  | cons a r ih =>
    intro k
    simp only [C02.atomLines, List.map_cons, List.mapM_cons]
    rw [rowAtom_written w k a (h a (by simp)), ih (fun x hx => h x (by simp [hx])) (k + 1)]
    rfl

theorem guard_pmOf (it : Inter) : guardOfMeta (pmOf (keyOf it)) = guardOf it := by
  unfold pmOf keyOf guardOf guardOfMeta
  cases hc : condOf it with
  | none => rfl
  | some p =>
    obtain ⟨d, flag⟩ := p
    cases flag <;> simp <;> decide

theorem viewInter_rec (corr : List (Int × Nat)) (N : Nat) (ar : Arity) (name : String) (it : Inter)
    (hr : C02.InterReady corr N ar it) :
    viewInter (interRec corr (retag name) (pmOf (keyOf it)) it) = some (toPInter corr name it) := by
  unfold viewInter interRec
  simp only
  rw [mapM_keyIdx _ (fun n hn => (C02.idxsOf_range hr n hn).1)]
  simp only [Option.map_some, guard_pmOf, toPInter, C02.idxsOf]

theorem flatMap_congr' {α β} (l : List α) (f g : α → List β) (h : ∀ a ∈ l, f a = g a) :
    l.flatMap f = l.flatMap g := by
  induction l with
  | nil => rfl
  | cons a t ih => simp only [List.flatMap_cons, h a (by simp), ih (fun x hx => h x (by simp [hx]))]

theorem view_fileRecs (m : Mol) (hw : C02.WfFacts tbl m) :
    (fileRecs m).mapM viewInter = some (C02.canon m).inters := by
  have : (C02.canon m).inters = (fileRecs m).map (fun r => (viewInter r).getD ⟨"", [], [], []⟩) ∧
      ∀ r ∈ fileRecs m, viewInter r = some ((viewInter r).getD ⟨"", [], [], []⟩) := by
    have hrec : ∀ s ∈ C02.sortInteractions m, ∀ blk ∈ C02.groupRuns (C02.sortInters s.2.2), ∀ it ∈ blk.2,
        viewInter (interRec (C02.correspondence m) (retag s.2.1) (pmOf blk.1) it)
          = some (toPInter (C02.correspondence m) s.2.1 it) := by
      intro s hs blk hb it hi
      obtain ⟨_, _, ar, _, _, hall⟩ := hw.sections s hs
      have hmem : it ∈ s.2.2 := (C02.sortInters_perm s.2.2).mem_iff.mp (C02.groupRuns_mem _ blk hb it hi)
      rw [← C02.groupRuns_keys _ blk hb it hi]
      exact viewInter_rec _ _ ar _ it (hall it hmem).2
    constructor
    · unfold C02.canon fileRecs
      simp only [List.map_flatMap, List.map_map]
      apply flatMap_congr'
      intro s hs
      rw [← C02.groupRuns_flatten (C02.sortInters s.2.2)]
      simp only [List.map_flatMap]
      rw [C02.groupRuns_flatten]
      apply flatMap_congr'
      intro blk hb
      apply List.map_congr_left
      intro it hi
      simp only [Function.comp]
      rw [hrec s hs blk hb it hi]
      rfl
    · intro r hr
      simp only [fileRecs, List.mem_flatMap, List.mem_map] at hr
      obtain ⟨s, hs, blk, hb, it, hi, rfl⟩ := hr
      rw [hrec s hs blk hb it hi]
      rfl
  rw [this.1]
  exact C02.mapM_option_some_of_forall _ _ _ this.2

end C02.Repo
