import VermouthModel.C13_Dir
import VermouthProofs.C13_Disp
import VermouthProofs.C13_ReaderProofs
/-!
C13 — proofs about directory loading (`VermouthModel/C13_Dir.lean`).

* `strip`: the dispatcher never READS the dictionaries / list it registers into, so a run on a force
  field that already has content succeeds exactly when the run on an empty one does, with the same
  current contexts (`run_strip`);
* per file: `readFFInto ff raw = some ff'` iff `readFF raw` succeeds, and then the links are appended,
  the block / modification candidates are registered on top of the existing dictionary;
* per directory: folds of the above.
-/
namespace C13
variable {C G : Type}

/-- forget what has been registered so far -/
def strip (s : St C G) : St C G := { s with blocks := [], links := [], mods := [] }

theorem strip_finalize (P : Params C G) (s : St C G) (p : Path) :
    strip (ffFinalize P s p) = strip (ffFinalize P (strip s) p) := rfl

theorem strip_action (P : Params C G) (s : St C G) (i : Nat) :
    strip (ffAction P s i) = ffAction P (strip s) i := by
  have hs : (strip s).sec = s.sec := rfl
  unfold ffAction
  rw [hs]
  by_cases h1 : s.sec = ["moleculetype"]
  · rw [if_pos h1, if_pos h1]; rfl
  · rw [if_neg h1, if_neg h1]
    by_cases h2 : s.sec = ["link"]
    · rw [if_pos h2, if_pos h2]; rfl
    · rw [if_neg h2, if_neg h2]
      by_cases h3 : s.sec = ["modification"]
      · rw [if_pos h3, if_pos h3]; rfl
      · rw [if_neg h3, if_neg h3]

theorem strip_strip (s : St C G) : strip (strip s) = strip s := rfl

theorem strip_header (P : Params C G) (s : St C G) (i : Nat) (n : String) :
    strip (ffHeaderWith ffFinalize P s i n) = strip (ffHeaderWith ffFinalize P (strip s) i n) := by
  have hs : (strip s).sec = s.sec := rfl
  unfold ffHeaderWith
  rw [hs]
  by_cases hn : P.T.contains [n] = true
  · rw [if_pos hn, if_pos hn, strip_action, strip_action]
    by_cases h0 : s.sec = []
    · rw [if_pos h0, if_pos h0]; rfl
    · rw [if_neg h0, if_neg h0]; rfl
  · rw [if_neg hn, if_neg hn, strip_action, strip_action]
    rfl

theorem strip_content (P : Params C G) (s : St C G) (t : String) :
    (ffContent P s t).map strip = (ffContent P (strip s) t).map strip := by
  have hs : (strip s).sec = s.sec := rfl
  have hb : (strip s).blk = s.blk := rfl
  have hl : (strip s).lnk = s.lnk := rfl
  have hm : (strip s).mod = s.mod := rfl
  have hg : (strip s).g = s.g := rfl
  have hc : hasContext (strip s) = hasContext s := rfl
  unfold ffContent
  rw [hs, hb, hl, hm, hg, hc]
  split
  · rfl
  · split
    · cases P.handleG s.sec t (hasContext s) s.g <;> rfl
    · cases s.blk with
      | none => rfl
      | some b =>
        obtain ⟨j, c⟩ := b
        show Option.map strip (Option.map _ (P.handle .block s.sec t c)) = Option.map strip (Option.map _ (P.handle .block s.sec t c))
        cases P.handle .block s.sec t c <;> rfl
    · cases s.lnk with
      | none => rfl
      | some b =>
        obtain ⟨j, c⟩ := b
        show Option.map strip (Option.map _ (P.handle .link s.sec t c)) = Option.map strip (Option.map _ (P.handle .link s.sec t c))
        cases P.handle .link s.sec t c <;> rfl
    · cases s.mod with
      | none => rfl
      | some b =>
        obtain ⟨j, c⟩ := b
        show Option.map strip (Option.map _ (P.handle .modification s.sec t c)) = Option.map strip (Option.map _ (P.handle .modification s.sec t c))
        cases P.handle .modification s.sec t c <;> rfl

theorem strip_step (P : Params C G) (s : St C G) (i : Nat) (l : Line) :
    (ffStepWith ffFinalize P s i l).map strip = (ffStepWith ffFinalize P (strip s) i l).map strip := by
  cases l with
  | header n => simp only [ffStepWith, Option.map_some, strip_header P s i n]
  | content t => exact strip_content P s t

/-- a run from a state with registered content and the run from the stripped state succeed together and
end in the same current contexts -/
theorem run_strip (P : Params C G) (lines : List Line) :
    ∀ (s : St C G) (i : Nat),
      (ffRunFromWith ffFinalize P s i lines).map strip =
        (ffRunFromWith ffFinalize P (strip s) i lines).map strip := by
  induction lines with
  | nil => intro s i; simp only [ffRunFromWith, Option.map_some, strip_finalize P s s.sec]; rfl
  | cons l r ih =>
    intro s i
    simp only [ffRunFromWith]
    have h := strip_step P s i l
    cases h1 : ffStepWith ffFinalize P s i l with
    | none =>
      rw [h1] at h
      cases h2 : ffStepWith ffFinalize P (strip s) i l with
      | none => rfl
      | some s2 => rw [h2] at h; cases h
    | some s1 =>
      rw [h1] at h
      cases h2 : ffStepWith ffFinalize P (strip s) i l with
      | none => rw [h2] at h; cases h
      | some s2 =>
        rw [h2] at h
        simp only [Option.map_some, Option.some.injEq] at h
        show (ffRunFromWith ffFinalize P s1 (i + 1) r).map strip =
          (ffRunFromWith ffFinalize P s2 (i + 1) r).map strip
        rw [ih s1 (i + 1), ih s2 (i + 1), h]


/-! ### one file read into a force field that already has content -/

/-- the comment-stripped, macro-expanded lines of a file -/
def prepLines (tab : List Entry) (raw : List String) : Option (List Line) :=
  (classify raw).bind fun l => expandMacros (tab.map (·.path)) [] [] l

theorem regStep_guard (P : Params C G) : regStep (guardP P) = regStep P := rfl

open Dir in
theorem readFFInto_spec (nt : List (String × Nat)) (tab : List Entry)
    (hT : TopOk (tab.map (·.path))) (hTab : TabOk tab) (ff ff' : FF) (raw : List String)
    (h : readFFInto nt tab ff raw = some ff') :
    ∃ lines' d, prepLines tab raw = some lines' ∧ readFF nt tab raw = some d ∧
      d.links = linkSpec (ffParams nt tab) [] none 0 lines' ∧
      ff'.links = ff.links ++ d.links ∧
      ff'.blocks = (blockSpec (ffParams nt tab) [] none 0 lines').foldl (regStep (ffParams nt tab)) ff.blocks ∧
      ff'.mods = (modSpec (ffParams nt tab) [] none 0 lines').foldl (regStep (ffParams nt tab)) ff.mods ∧
      ff'.vars = (fileVars (tab.map (·.path)) [] lines').foldl (fun d kv => dictSet d kv.1 kv.2) ff.vars := by
  unfold readFFInto at h
  simp only [Option.bind_eq_bind, Option.bind_eq_some_iff, Option.pure_def, Option.some.injEq] at h
  obtain ⟨lines, h1, lines', h2, s, h3, rfl⟩ := h
  have hTP : TopOk (ffParams nt tab).T := hT
  -- the standalone run succeeds too
  have hst := run_strip (ffParams nt tab) lines' (startState ff) 0
  rw [h3] at hst
  have hs0 : strip (startState ff) = ({ g := () } : St Ctx Unit) := rfl
  rw [hs0] at hst
  cases h4 : ffRunFromWith ffFinalize (ffParams nt tab) ({ g := () } : St Ctx Unit) 0 lines' with
  | none => rw [h4] at hst; cases hst
  | some s0 =>
    have hrun0 : ffRun (ffParams nt tab) () lines' = some s0 := h4
    have hl0 := ff_links_spec (ffParams nt tab) () lines' s0 hTP hrun0
    have hl := ff_links_from (ffParams nt tab) hTP lines' (startState ff) s 0 (fun _ => rfl) h3
    have hcur : curL (startState ff) = none := rfl
    rw [hcur] at hl
    have hg : ffRunFromWith ffFinalize (guardP (ffParams nt tab)) (startState ff) 0 lines' = some s := by
      rw [ffRunFrom_guard]; exact h3
    have hb := decl_from (guardP (ffParams nt tab)) .block "moleculetype" (·.blk) (·.blocks)
      (blockView (guardP (ffParams nt tab)) hTP) hTP.1
      (nameStable_guard (ffParams nt tab) _ _ (name_stable_ff_block nt tab hTab)) lines'
      (startState ff) s 0 (fun _ => rfl) hg
    have hm := decl_from (guardP (ffParams nt tab)) .modification "modification" (·.mod) (·.mods)
      (modView (guardP (ffParams nt tab)) hTP) hTP.2.2
      (nameStable_guard (ffParams nt tab) _ _ (name_stable_ff_mod nt tab hTab)) lines'
      (startState ff) s 0 (fun _ => rfl) hg
    rw [← blockSpec_eq_declSpec, blockSpec_guard, regStep_guard] at hb
    rw [← modSpec_eq_declSpec, modSpec_guard, regStep_guard] at hm
    refine ⟨lines', { blocks := s0.blocks, links := s0.links, mods := s0.mods }, ?_, ?_, hl0, ?_, hb, hm, rfl⟩
    · unfold prepLines; rw [h1]; exact h2
    · unfold readFF
      simp only [Option.bind_eq_bind, Option.pure_def]
      rw [h1]; simp only [Option.bind_some]; rw [h2]; simp only [Option.bind_some]; rw [hrun0]; rfl
    · show s.links = ff.links ++ s0.links
      rw [hl, hl0]; rfl

/-- conversely: a file that `read_ff` rejects on an empty force field is rejected on every force field -/
theorem readFFInto_none (nt : List (String × Nat)) (tab : List Entry) (ff : Dir.FF) (raw : List String)
    (h : readFF nt tab raw = none) : Dir.readFFInto nt tab ff raw = none := by
  unfold Dir.readFFInto
  unfold readFF at h
  simp only [Option.bind_eq_bind, Option.pure_def] at h ⊢
  cases h1 : classify raw with
  | none => rfl
  | some lines =>
    rw [h1] at h; simp only [Option.bind_some] at h ⊢
    cases h2 : expandMacros (tab.map (·.path)) [] [] lines with
    | none => rfl
    | some lines' =>
      rw [h2] at h; simp only [Option.bind_some] at h ⊢
      have hst := run_strip (ffParams nt tab) lines' (Dir.startState ff) 0
      have hs0 : strip (Dir.startState ff) = ({ g := () } : St Ctx Unit) := rfl
      rw [hs0] at hst
      cases h4 : ffRunFromWith ffFinalize (ffParams nt tab) ({ g := () } : St Ctx Unit) 0 lines' with
      | some s0 =>
        have : ffRun (ffParams nt tab) () lines' = some s0 := h4
        rw [this] at h; cases h
      | none =>
        rw [h4] at hst
        cases h5 : ffRunFromWith ffFinalize (ffParams nt tab) (Dir.startState ff) 0 lines' with
        | none => rfl
        | some s => rw [h5] at hst; cases hst

end C13

/-! ### the directory -/
namespace C13.Dir
open C13

/-- the entry is read by `read_ff` -/
def usesReadFF (parsers : List (String × String)) (e : DirEntry) : Bool :=
  match parsers.find? (fun p => p.1 = splitExt e.name) with
  | some p => p.2 = "read_ff"
  | none => false

def ffEntries (parsers : List (String × String)) (es : List DirEntry) : List DirEntry :=
  es.filter (usesReadFF parsers)

/-- the links `read_ff` loads from the file alone (on an empty force field) -/
def linksOf (nt : List (String × Nat)) (tab : List Entry) (e : DirEntry) : List (Nat × Ctx) :=
  ((readFF nt tab e.lines).map (·.links)).getD []

/-- one candidate per `[ moleculetype ]` header of the file, in file order (`blockSpec`) -/
def blockDecls (nt : List (String × Nat)) (tab : List Entry) (e : DirEntry) : List (Nat × Ctx) :=
  ((prepLines tab e.lines).map (blockSpec (ffParams nt tab) [] none 0)).getD []

def modDecls (nt : List (String × Nat)) (tab : List Entry) (e : DirEntry) : List (Nat × Ctx) :=
  ((prepLines tab e.lines).map (modSpec (ffParams nt tab) [] none 0)).getD []

/-- the `key value` pairs of the `[ variables ]` lines of the file, in file order -/
def varDecls (tab : List Entry) (e : DirEntry) : List (String × JVal) :=
  ((prepLines tab e.lines).map (fileVars (tab.map (·.path)) [])).getD []

theorem foldOpt_load (nt : List (String × Nat)) (tab : List Entry) (parsers : List (String × String))
    (hT : TopOk (tab.map (·.path))) (hTab : TabOk tab) (es : List DirEntry) :
    ∀ ff ff' : FF, foldOpt (loadFile nt tab parsers) ff es = some ff' →
      (∀ e ∈ es, e.isDir = false) ∧
      (∀ e ∈ ffEntries parsers es, (readFF nt tab e.lines).isSome = true) ∧
      ff'.links = ff.links ++ (ffEntries parsers es).flatMap (linksOf nt tab) ∧
      ff'.blocks = ((ffEntries parsers es).flatMap (blockDecls nt tab)).foldl (regStep (ffParams nt tab)) ff.blocks ∧
      ff'.mods = ((ffEntries parsers es).flatMap (modDecls nt tab)).foldl (regStep (ffParams nt tab)) ff.mods ∧
      ff'.vars = ((ffEntries parsers es).flatMap (varDecls tab)).foldl (fun d kv => dictSet d kv.1 kv.2) ff.vars := by
  induction es with
  | nil =>
    intro ff ff' h
    simp only [foldOpt, Option.some.injEq] at h
    subst h
    simp [ffEntries]
  | cons e r ih =>
    intro ff ff' h
    simp only [foldOpt] at h
    cases h1 : loadFile nt tab parsers ff e with
    | none => rw [h1] at h; cases h
    | some ff1 =>
      rw [h1] at h
      obtain ⟨ihd, ihr, ihl, ihb, ihm, ihv⟩ := ih ff1 ff' h
      unfold loadFile at h1
      cases hp : parsers.find? (fun p => p.1 = splitExt e.name) with
      | none => rw [hp] at h1; cases h1
      | some p =>
        rw [hp] at h1
        simp only at h1
        by_cases hd : e.isDir = true
        · rw [if_pos hd] at h1; cases h1
        · rw [if_neg hd] at h1
          have hd' : e.isDir = false := by simpa using hd
          by_cases hk : p.2 = "read_ff"
          · rw [if_pos hk] at h1
            have hu : usesReadFF parsers e = true := by simp [usesReadFF, hp, hk]
            obtain ⟨lines', d, hprep, hread, _, hl, hb, hm, hv⟩ := readFFInto_spec nt tab hT hTab ff ff1 e.lines h1
            have hfe : ffEntries parsers (e :: r) = e :: ffEntries parsers r := by
              simp [ffEntries, hu]
            have hlo : linksOf nt tab e = d.links := by simp [linksOf, hread]
            have hbd : blockDecls nt tab e = blockSpec (ffParams nt tab) [] none 0 lines' := by
              simp [blockDecls, hprep]
            have hmd : modDecls nt tab e = modSpec (ffParams nt tab) [] none 0 lines' := by
              simp [modDecls, hprep]
            have hvd : varDecls tab e = fileVars (tab.map (·.path)) [] lines' := by
              simp [varDecls, hprep]
            refine ⟨?_, ?_, ?_, ?_, ?_, ?_⟩
            · intro x hx
              rcases List.mem_cons.mp hx with rfl | hx
              · exact hd'
              · exact ihd x hx
            · intro x hx
              rw [hfe] at hx
              rcases List.mem_cons.mp hx with rfl | hx
              · simp [hread]
              · exact ihr x hx
            · rw [ihl, hl, hfe, List.flatMap_cons, hlo, List.append_assoc]
            · rw [ihb, hb, hfe, List.flatMap_cons, hbd, List.foldl_append]
            · rw [ihm, hm, hfe, List.flatMap_cons, hmd, List.foldl_append]
            · rw [ihv, hv, hfe, List.flatMap_cons, hvd, List.foldl_append]
          · rw [if_neg hk] at h1
            simp only [Option.some.injEq] at h1
            subst h1
            have hu : usesReadFF parsers e = false := by simp [usesReadFF, hp, hk]
            have hfe : ffEntries parsers (e :: r) = ffEntries parsers r := by
              simp [ffEntries, hu]
            refine ⟨?_, ?_, ?_, ?_, ?_, ?_⟩
            · intro x hx
              rcases List.mem_cons.mp hx with rfl | hx
              · exact hd'
              · exact ihd x hx
            · rw [hfe]; exact ihr
            · rw [hfe]; exact ihl
            · rw [hfe]; exact ihb
            · rw [hfe]; exact ihm
            · rw [hfe]; exact ihv

/-- a selected `.ff` file that `read_ff` rejects, or a selected directory, rejects the whole directory -/
theorem foldOpt_load_none (nt : List (String × Nat)) (tab : List Entry) (parsers : List (String × String))
    (es : List DirEntry) (e : DirEntry) (he : e ∈ es)
    (hbad : e.isDir = true ∨ (usesReadFF parsers e = true ∧ readFF nt tab e.lines = none)) :
    ∀ ff : FF, foldOpt (loadFile nt tab parsers) ff es = none := by
  induction es with
  | nil => cases he
  | cons x r ih =>
    intro ff
    simp only [foldOpt]
    cases h1 : loadFile nt tab parsers ff x with
    | none => rfl
    | some ff1 =>
      rcases List.mem_cons.mp he with rfl | hr
      · exfalso
        unfold loadFile at h1
        cases hp : parsers.find? (fun p => p.1 = splitExt e.name) with
        | none => rw [hp] at h1; cases h1
        | some p =>
          rw [hp] at h1
          simp only at h1
          rcases hbad with hd | ⟨hu, hn⟩
          · rw [if_pos hd] at h1; cases h1
          · by_cases hd : e.isDir = true
            · rw [if_pos hd] at h1; cases h1
            · rw [if_neg hd] at h1
              have hk : p.2 = "read_ff" := by simpa [usesReadFF, hp] using hu
              rw [if_pos hk, readFFInto_none nt tab ff e.lines hn] at h1
              cases h1
      · exact ih hr ff1

/-! ### which entries are read, how often -/

/-- no extension of the table is a suffix of another one (then no name matches two patterns) -/
def ExtsOk (exts : List String) : Prop :=
  exts.Pairwise fun a b => ¬ a.toList.isSuffixOf b.toList = true ∧ ¬ b.toList.isSuffixOf a.toList = true

theorem suffix_both {a b n : List Char} (ha : a.isSuffixOf n = true) (hb : b.isSuffixOf n = true) :
    a.isSuffixOf b = true ∨ b.isSuffixOf a = true := by
  rw [List.isSuffixOf_iff_suffix] at ha hb ⊢
  rw [List.isSuffixOf_iff_suffix]
  rcases Nat.le_total a.length b.length with h | h
  · exact Or.inl (List.suffix_of_suffix_length_le ha hb h)
  · exact Or.inr (List.suffix_of_suffix_length_le hb ha h)

theorem count_readOrder (exts : List String) (hE : ExtsOk exts) (listing : List DirEntry) (e : DirEntry) :
    (readOrder exts listing).count e =
      if exts.any (fun x => globStar x e.name) then listing.count e else 0 := by
  induction exts with
  | nil => simp [readOrder]
  | cons x r ih =>
    have hr : ExtsOk r := (List.pairwise_cons.mp hE).2
    have hx := (List.pairwise_cons.mp hE).1
    have hsplit : readOrder (x :: r) listing =
        (listing.filter fun d => globStar x d.name) ++ readOrder r listing := by
      simp [readOrder]
    rw [hsplit, List.count_append, ih hr, List.any_cons]
    by_cases hm : globStar x e.name = true
    · have hnone : r.any (fun y => globStar y e.name) = false := by
        rw [List.any_eq_false]
        intro y hy hyy
        have hxy := hx y hy
        unfold globStar at hm hyy
        simp only [Bool.and_eq_true] at hm hyy
        rcases suffix_both hm.2 hyy.2 with h | h
        · exact hxy.1 h
        · exact hxy.2 h
      rw [hm, hnone]
      simp only [Bool.true_or, if_true, Bool.false_eq_true, if_false, Nat.add_zero]
      rw [List.count_filter]
      exact hm
    · have hm' : globStar x e.name = false := by simpa using hm
      rw [hm']
      simp only [Bool.false_or]
      have : (listing.filter fun d => globStar x d.name).count e = 0 := by
        rw [List.count_eq_zero]
        intro hmem
        have := (List.mem_filter.mp hmem).2
        rw [hm'] at this
        cases this
      rw [this, Nat.zero_add]

end C13.Dir

/-! ### the mapping directory -/
namespace C13.Dir

theorem foldOpt_all {α β : Type} (f : β → α → Option β) (l : List α) :
    ∀ b b', foldOpt f b l = some b' → ∀ a ∈ l, ∃ b1 b2, f b1 a = some b2 := by
  induction l with
  | nil => intro b b' _ a ha; cases ha
  | cons x r ih =>
    intro b b' h a ha
    simp only [foldOpt] at h
    cases h1 : f b x with
    | none => rw [h1] at h; cases h
    | some b1 =>
      rw [h1] at h
      rcases List.mem_cons.mp ha with rfl | hr
      · exact ⟨b, b1, h1⟩
      · exact ih b1 b' h a hr

theorem mapStep_some (reader : List String → Option (List MKey)) (acc acc' : _) (pe : String × Tree)
    (h : mapStep reader acc pe = some acc') :
    ∃ n lines keys, pe.2 = .file n lines ∧ reader lines = some keys := by
  unfold mapStep at h
  cases hp : pe.2 with
  | dir n ch => rw [hp] at h; cases h
  | file n lines =>
    rw [hp] at h
    simp only at h
    cases hr : reader lines with
    | none => rw [hr] at h; cases h
    | some keys => exact ⟨n, lines, keys, rfl, hr⟩

end C13.Dir

/-! ### insertion-ordered dictionaries: the last value wins, keys keep the order of first insertion -/
namespace C13
variable {K V : Type} [DecidableEq K]

def dictGet (d : List (K × V)) (k : K) : Option V := (d.find? (fun e => e.1 = k)).map (·.2)

theorem dictGet_set_same (d : List (K × V)) (k : K) (v : V) : dictGet (dictSet d k v) k = some v := by
  induction d with
  | nil => simp [dictSet, dictGet]
  | cons e r ih =>
    obtain ⟨k', v'⟩ := e
    by_cases h : k' = k
    · simp [dictSet, dictGet, h]
    · simp only [dictSet, h, if_false]
      unfold dictGet at ih ⊢
      simp only [List.find?_cons, h, decide_false]
      exact ih

theorem dictGet_set_other (d : List (K × V)) (k k2 : K) (v : V) (hne : k ≠ k2) :
    dictGet (dictSet d k v) k2 = dictGet d k2 := by
  induction d with
  | nil => simp [dictSet, dictGet, hne]
  | cons e r ih =>
    obtain ⟨k', v'⟩ := e
    by_cases h : k' = k
    · subst h; simp [dictSet, dictGet, hne]
    · simp only [dictSet, h, if_false]
      unfold dictGet at ih ⊢
      by_cases h2 : k' = k2
      · simp [h2]
      · simp only [List.find?_cons, h2, decide_false]
        exact ih

theorem dictGet_foldl_other (l : List (K × V)) (k : K) (hl : ∀ e ∈ l, e.1 ≠ k) :
    ∀ d : List (K × V), dictGet (l.foldl (fun d kv => dictSet d kv.1 kv.2) d) k = dictGet d k := by
  induction l with
  | nil => intro d; rfl
  | cons e r ih =>
    intro d
    simp only [List.foldl_cons]
    rw [ih (fun x hx => hl x (List.mem_cons_of_mem _ hx))]
    exact dictGet_set_other d e.1 k e.2 (hl e (List.mem_cons_self ..))

/-- **the last declaration of a key wins** -/
theorem dictOfList_last_wins (pre post : List (K × V)) (k : K) (v : V) (hpost : ∀ e ∈ post, e.1 ≠ k) :
    dictGet (dictOfList (pre ++ (k, v) :: post)) k = some v := by
  unfold dictOfList
  rw [List.foldl_append, List.foldl_cons, dictGet_foldl_other post k hpost]
  exact dictGet_set_same _ k v

/-- a key that is never declared is absent -/
theorem dictOfList_absent (l : List (K × V)) (k : K) (hl : ∀ e ∈ l, e.1 ≠ k) :
    dictGet (dictOfList l) k = none := by
  unfold dictOfList
  rw [dictGet_foldl_other l k hl]
  rfl

/-- the keys in order of first occurrence -/
def firstOccs : List K → List K
  | [] => []
  | k :: r => k :: (firstOccs r).filter (fun x => x ≠ k)

def addKey (ks : List K) (k : K) : List K := if k ∈ ks then ks else ks ++ [k]

theorem keys_dictSet (d : List (K × V)) (k : K) (v : V) :
    (dictSet d k v).map (·.1) = addKey (d.map (·.1)) k := by
  induction d with
  | nil => simp [dictSet, addKey]
  | cons e r ih =>
    obtain ⟨k', v'⟩ := e
    by_cases h : k' = k
    · subst h; simp [dictSet, addKey]
    · simp only [dictSet, h, if_false, List.map_cons, ih]
      unfold addKey
      have hne : k ≠ k' := fun x => h x.symm
      by_cases hm : k ∈ r.map (·.1)
      · simp [hm]
      · simp [hm, hne]

theorem keys_foldl (l : List (K × V)) :
    ∀ d : List (K × V), (l.foldl (fun d kv => dictSet d kv.1 kv.2) d).map (·.1) =
      (l.map (·.1)).foldl addKey (d.map (·.1)) := by
  induction l with
  | nil => intro d; rfl
  | cons e r ih => intro d; simp only [List.foldl_cons, List.map_cons, ih, keys_dictSet]

theorem foldl_addKey (l : List K) :
    ∀ ks : List K, l.foldl addKey ks = ks ++ (firstOccs l).filter (fun x => x ∉ ks) := by
  induction l with
  | nil => intro ks; simp [firstOccs]
  | cons k r ih =>
    intro ks
    simp only [List.foldl_cons, firstOccs]
    rw [ih]
    by_cases hk : k ∈ ks
    · have h1 : addKey ks k = ks := by simp [addKey, hk]
      rw [h1, List.filter_cons]
      simp only [hk, not_true_eq_false, decide_false, Bool.false_eq_true, if_false]
      rw [List.filter_filter]
      congr 1
      apply List.filter_congr
      intro x _
      by_cases hx : x ∈ ks
      · simp [hx]
      · have : x ≠ k := fun h => hx (h ▸ hk)
        simp [hx, this]
    · have h1 : addKey ks k = ks ++ [k] := by simp [addKey, hk]
      rw [h1, List.filter_cons]
      simp only [hk, not_false_eq_true, decide_true, if_true]
      rw [List.filter_filter, List.append_assoc]
      congr 1
      show k :: List.filter _ (firstOccs r) = k :: List.filter _ (firstOccs r)
      congr 1
      apply List.filter_congr
      intro x _
      by_cases hx : x ∈ ks
      · simp [hx]
      · by_cases hxk : x = k
        · simp [hxk]
        · simp [hx, hxk]

/-- **keys keep the order of first declaration** -/
theorem dictOfList_keys (l : List (K × V)) : (dictOfList l).map (·.1) = firstOccs (l.map (·.1)) := by
  unfold dictOfList
  rw [keys_foldl, foldl_addKey]
  simp

end C13
