import VermouthProofs.C02_C13File
/-!
C02 ∘ C13 — every line of the written file classifies as the walk assumes (`ClsOk`) and is free of
macro references where the reader would substitute them (`lineNoMacro`).  Core Lean only.
-/
namespace C02.Repo
open C13

variable {tab : List Entry} {idxTab : List (String × List Idx)} {tbl : List (String × Arity)}

/-- per-line facts beyond `lineGood` that the repo reader needs -/
def LineRepo : C02.Line → Prop
  | .blank => True
  | .comment _ => True
  | .sect n => hdrName n ≠ "macros"
  | .directive kw _ => kw.toList.head? = some '#'
  | .free t => freeLineOk t = true
  | .moltype a b => (∀ c, a.toList.head? = some c → c ≠ '[') ∧
      a.toList.all (fun c => c != '$') = true ∧ b.toList.all (fun c => c != '$') = true
  | .atom w i a => ∀ t ∈ lineTokens (.atom w i a), plainTok t = true
  | .inter w v atoms ps c => atoms ≠ [] ∧ ∀ t ∈ lineTokens (.inter w v atoms ps c), plainTok t = true

theorem mem_stripComment (x : List Char) (c : Char) (h : c ∈ C13.stripComment x) : c ∈ x := by
  rw [stripComment_eq] at h
  have h1 := mem_stripChars _ _ _ h
  exact (List.takeWhile_sublist _).mem h1

theorem noMacro_nil : ∀ x ∈ ([] : List C13.Line), lineNoMacro x = true := by intro x hx; cases hx

/-- the two things the fusion needs to know about a written line -/
theorem line_cls_ok (l : C02.Line) (hg : lineGood l = true) (hr : LineRepo l) :
    ClsOk l ∧ ∀ x ∈ cls l, lineNoMacro x = true := by
  have hok := lineOk_of_good l hg
  have htok : splitWs (C02.stripComment (renderLineChars l)) = lineTokens l := C02.tokenize_renderLine l hok
  -- generic: from the first token
  have gen : (∀ n, l ≠ .sect n) → ∀ t0 rest, lineTokens l = t0 :: rest →
      (∀ c, t0.toList.head? = some c → c ≠ '[') →
      ((t0.toList.head? = some '#') ∨ ∀ x ∈ C13.stripComment (renderLineChars l), x ≠ '$') →
      ClsOk l ∧ ∀ x ∈ cls l, lineNoMacro x = true := by
    intro hns t0 rest ht h1 h2
    obtain ⟨c, r, hcr, hhead⟩ := (strip_of_tokens _).2 t0 rest (by rw [htok, ht])
    rw [← stripComment_eq] at hcr
    have hcls : ClsOk l := by
      have : (C13.stripComment (renderLineChars l)).head? ≠ some '[' := by
        rw [hcr]; simp; exact h1 c hhead
      cases l <;> first | exact this | exact absurd rfl (hns _)
    refine ⟨hcls, ?_⟩
    rw [cls_content l hns c r hcr]
    intro x hx
    simp only [List.mem_singleton] at hx
    subst hx
    simp only [lineNoMacro, Bool.or_eq_true]
    rcases h2 with h2 | h2
    · left
      rw [startsWith_hash, String.toList_ofList]
      rw [hhead] at h2
      simp at h2
      simp [h2]
    · right
      rw [String.toList_ofList, List.all_eq_true]
      intro y hy
      rw [← hcr] at hy
      simpa using h2 y hy
  have empty : (∀ n, l ≠ .sect n) → C13.stripComment (renderLineChars l) = [] →
      ClsOk l ∧ ∀ x ∈ cls l, lineNoMacro x = true := by
    intro hns he
    have hcls : ClsOk l := by
      have : (C13.stripComment (renderLineChars l)).head? ≠ some '[' := by rw [he]; simp
      cases l <;> first | exact this | exact absurd rfl (hns _)
    refine ⟨hcls, ?_⟩
    rw [cls_eq_contentOf l hns]
    simp [contentOf, he]
  cases l with
  | blank => exact empty (by intro n h; cases h) (by simp [renderLineChars, C13.stripComment, C13.stripChars])
  | comment t => exact empty (by intro n h; cases h) (by simp [renderLineChars, C13.stripComment, C13.stripChars])
  | sect n =>
    refine ⟨hok, ?_⟩
    intro x hx
    simp only [cls, List.mem_singleton] at hx
    subst hx
    have hr' : hdrName n ≠ "macros" := hr
    simpa [lineNoMacro] using hr'
  | directive kw args =>
    exact gen (by intro n h; cases h) kw args rfl (by intro c hc; rw [hr] at hc; simp at hc; subst hc; decide)
      (Or.inl hr)
  | free t =>
    simp only [LineRepo, freeLineOk, Bool.or_eq_true] at hr
    by_cases he : (C13.stripComment t.toList).isEmpty = true
    · exact empty (by intro n h; cases h) (by simpa [renderLineChars] using he)
    · rcases hr with h | h
      · exact absurd h he
      · have hl : ∃ r, C13.stripComment t.toList = '#' :: r := by
          have e5 : "#define".toList = ['#', 'd', 'e', 'f', 'i', 'n', 'e'] := by decide
          simp only [startsWithS, String.toList_ofList, e5] at h
          rw [List.isPrefixOf_iff_prefix] at h
          obtain ⟨r, hr⟩ := h
          exact ⟨_, hr.symm⟩
        obtain ⟨r, hr'⟩ := hl
        have hcls : ClsOk (.free t) := by
          show (C13.stripComment t.toList).head? ≠ some '['
          rw [hr']; simp
        refine ⟨hcls, ?_⟩
        rw [cls_content (.free t) (by intro n h; cases h) '#' r hr']
        intro x hx
        simp only [List.mem_singleton] at hx
        subst hx
        simp [lineNoMacro, startsWith_hash]
  | moltype a b =>
    obtain ⟨h1, h2, h3⟩ := hr
    refine gen (by intro n h; cases h) a [b] rfl h1 (Or.inr ?_)
    intro x hx
    have hm := mem_stripComment _ _ hx
    have : x ∈ a.toList ∨ x = ' ' ∨ x ∈ b.toList := by simpa [renderLineChars, joinSp] using hm
    rw [List.all_eq_true] at h2 h3
    rcases this with h | rfl | h
    · simpa using h2 x h
    · decide
    · simpa using h3 x h
  | atom w i a =>
    have htoks : ∃ tl, lineTokens (.atom w i a) = toString i :: tl :=
      ⟨(lineTokens (.atom w i a)).tail, by simp [lineTokens]⟩
    obtain ⟨tl, htl⟩ := htoks
    obtain ⟨c, r, hcr, hhead, _, hdollar⟩ := written_tokens _ hok (Or.inl ⟨w, i, a, rfl⟩) hr _ _ htl
    refine gen (by intro n h; cases h) _ _ htl ?_ (Or.inr ?_)
    · intro c' hc'; exact (digit_head i c' hc').2.1
    · rw [hcr]; exact hdollar
  | inter w v atoms ps cm =>
    obtain ⟨hne, hpl⟩ := hr
    have htoks : ∃ (a : Nat) (tl : List String), lineTokens (.inter w v atoms ps cm) = toString a :: tl := by
      cases atoms with
      | nil => exact absurd rfl hne
      | cons a rest =>
        cases v
        · exact ⟨a, (lineTokens (.inter w false (a :: rest) ps cm)).tail, by simp [lineTokens]⟩
        · exact ⟨a, (lineTokens (.inter w true (a :: rest) ps cm)).tail, by simp [lineTokens]⟩
    obtain ⟨a, tl, htl⟩ := htoks
    obtain ⟨c, r, hcr, hhead, _, hdollar⟩ := written_tokens _ hok (Or.inr ⟨w, v, atoms, ps, cm, rfl⟩) hpl _ _ htl
    refine gen (by intro n h; cases h) _ _ htl ?_ (Or.inr ?_)
    · intro c' hc'; exact (digit_head a c' hc').2.1
    · rw [hcr]; exact hdollar

/-! ### every line of the written file -/

theorem atom_tokens_plain (w : Widths) (i : Nat) (a : Atom) (hrepo : atomRepoOk a = true) :
    ∀ t ∈ lineTokens (.atom w i a), plainTok t = true := by
  simp only [atomRepoOk, Bool.and_eq_true, Bool.or_eq_true] at hrepo
  obtain ⟨⟨⟨⟨⟨⟨⟨⟨⟨⟨p1, p2⟩, p3⟩, p4⟩, p5⟩, p6⟩, p7⟩, _⟩, _⟩, _⟩, _⟩ := hrepo
  intro t ht
  simp only [lineTokens, List.cons_append, List.nil_append, List.mem_cons, List.mem_append] at ht
  rcases ht with rfl | rfl | rfl | rfl | rfl | rfl | h | h
  · exact plain_toString _
  · exact p1
  · exact p4
  · exact p2
  · exact p3
  · exact p5
  · split at h <;> simp at h; subst h; exact p6
  · split at h <;> simp at h; subst h; exact p7

theorem linesOf_repo (tbl' : List (String × List String)) (h : tbl'.all (fun p => p.2.all freeLineOk) = true)
    (n : String) : ∀ l ∈ C02.linesOf tbl' n, LineRepo l := by
  intro l hl
  obtain ⟨t, rfl, ht⟩ := linesOf_free tbl' h n l hl
  exact ht

theorem blockLines_repo (corr : List (Int × Nat)) (N : Nat) (ar : Arity) (w : Nat) (name : String)
    (post : List C02.Line) (blk : Key × List Inter)
    (hi : ∀ it ∈ blk.2, InterFacts corr N ar it) (hpost : ∀ l ∈ post, LineRepo l) :
    ∀ l ∈ C02.blockLines corr w name post blk, LineRepo l := by
  obtain ⟨k, is⟩ := blk
  intro l hl
  simp only [C02.blockLines, List.mem_append, List.mem_cons, List.not_mem_nil, or_false] at hl
  rcases hl with ((((hl | hl) | hl) | hl) | hl) | rfl
  · unfold C02.guardOpen at hl
    split at hl
    · next d flag _ =>
      simp only [List.mem_singleton] at hl
      subst hl
      cases flag <;> (show _ = some '#'; decide)
    · simp at hl
  · unfold C02.groupLine at hl
    split at hl
    · simp at hl
    · simp only [List.mem_singleton] at hl; subst hl; trivial
  · simp only [List.mem_map] at hl
    obtain ⟨it, him, rfl⟩ := hl
    have hf := hi it him
    have hne : C02.idxsOf corr it ≠ [] := by
      intro e
      have hl := C02.idxsOf_length hf.ready
      rw [e] at hl
      exact hf.ready.nonempty (List.eq_nil_of_length_eq_zero hl.symm)
    refine ⟨hne, ?_⟩
    intro t ht
    rcases mem_interTokens _ _ _ _ _ t ht with h | h
    · simp only [List.mem_map] at h
      obtain ⟨n, _, rfl⟩ := h
      exact plain_toString n
    · exact (List.all_eq_true.mp hf.plain) t h
  · unfold C02.guardClose at hl
    split at hl
    · simp only [List.mem_singleton] at hl; subst hl; show _ = some '#'; decide
    · simp at hl
  · exact hpost l hl
  · trivial

theorem fileLinesOrd_repo (F : TabFacts tab idxTab tbl) (m : Mol) (hw : C02.WfFacts tbl m) (hc : C02.CharFacts m)
    (hr : RepoFacts (tab.map (·.path)) m) (hnames : ∀ p ∈ tbl, hdrName p.1 = p.1)
    (hnomac : ∀ p ∈ tbl, p.1 ≠ "macros")
    (hmol : hdrName "moleculetype" = "moleculetype") (hat : hdrName "atoms" = "atoms")
    (names : List String) (hsub : ∀ n ∈ names, n ∈ C02.remainingNames m) :
    ∀ l ∈ C02.fileLinesOrd m names, LineRepo l := by
  have hsf := sectFacts_of m hw hc _ hr hnames
  intro l hl
  simp only [C02.fileLinesOrd, List.mem_append] at hl
  rcases hl with ((hl | hl) | hl) | hl
  · -- prelude
    simp only [C02.prelude, List.mem_append, List.mem_map, List.mem_flatMap, List.mem_cons,
      List.not_mem_nil, or_false] at hl
    rcases hl with ((⟨t, _, rfl⟩ | hl) | ⟨d, _, hl⟩) | hl
    · trivial
    · split at hl <;> simp at hl
      subst hl; trivial
    · rcases hl with rfl | rfl | rfl | rfl
      · show _ = some '#'; decide
      · show _ = some '#'; decide
      · show _ = some '#'; decide
      · trivial
    · rcases hl with rfl | rfl | rfl
      · show hdrName "moleculetype" ≠ "macros"
        rw [hmol]; decide
      · exact ⟨fun c hcc => (hr.molHead c hcc).1, hr.molPlain, hr.nrPlain⟩
      · trivial
  · -- atoms
    simp only [C02.atomsPart, List.mem_append, List.mem_cons, List.not_mem_nil, or_false] at hl
    rcases hl with (((rfl | hl) | hl) | hl) | rfl
    · show hdrName "atoms" ≠ "macros"
      rw [hat]; decide
    · exact linesOf_repo m.pre hr.pre _ l hl
    · obtain ⟨i, a, ha, rfl⟩ := C02.mem_atomLines _ _ _ l hl
      exact atom_tokens_plain _ _ a (hr.atoms a ((C02.sortedNodes_perm m).mem_iff.mp ha))
    · exact linesOf_repo m.post hr.post _ l hl
    · trivial
  · -- sections
    simp only [List.mem_flatten, List.mem_map] at hl
    obtain ⟨sl, ⟨s, hs, rfl⟩, hl⟩ := hl
    obtain ⟨ar, hf⟩ := hsf s hs
    simp only [C02.sectionLines, List.mem_append, List.mem_cons, List.not_mem_nil, or_false,
      List.mem_flatten, List.mem_map] at hl
    rcases hl with (rfl | hl) | ⟨bl, ⟨blk, hblk, rfl⟩, hl⟩
    · show hdrName (retag s.2.1) ≠ "macros"
      rw [hf.hdr]
      exact hnomac _ hf.inTbl
    · exact linesOf_repo m.pre hr.pre _ l hl
    · have hmem : ∀ i ∈ blk.2, i ∈ s.2.2 := fun i hi =>
        (C02.sortInters_perm s.2.2).mem_iff.mp (C02.groupRuns_mem _ blk hblk i hi)
      exact blockLines_repo (C02.correspondence m) m.atoms.length ar _ _ _ blk
        (fun it hi => (hf.inters it (hmem it hi)).1) (linesOf_repo m.post hr.post _) l hl
  · -- left-over sections
    simp only [C02.remainingPartOf, List.mem_flatMap, List.mem_append, List.mem_cons, List.not_mem_nil,
      or_false] at hl
    obtain ⟨n, hn, hl⟩ := hl
    rcases hl with ((rfl | hl) | hl) | rfl
    · exact hr.remainingNoMacros n (hsub n hn)
    · exact linesOf_repo m.pre hr.pre _ l hl
    · exact linesOf_repo m.post hr.post _ l hl
    · trivial

theorem fileLines_repo (F : TabFacts tab idxTab tbl) (m : Mol) (hw : C02.WfFacts tbl m) (hc : C02.CharFacts m)
    (hr : RepoFacts (tab.map (·.path)) m) (hnames : ∀ p ∈ tbl, hdrName p.1 = p.1)
    (hnomac : ∀ p ∈ tbl, p.1 ≠ "macros")
    (hmol : hdrName "moleculetype" = "moleculetype") (hat : hdrName "atoms" = "atoms") :
    ∀ l ∈ C02.fileLines m, LineRepo l :=
  fileLinesOrd_repo F m hw hc hr hnames hnomac hmol hat (C02.remainingNames m) (fun _ h => h)

end C02.Repo
