import VermouthModel.C05_Run
import VermouthProofs.C05_Order
import VermouthProofs.C05_Table
/-!
# C05 — effector mechanics, the run with error kinds, the pairwise order test and the table API

Proofs about sections C, D, E and F of `VermouthModel/C05_Run.lean`.
-/
namespace C05
open Iso

/-! ## helpers: `List.mapM` in the `Option` monad -/

theorem mapM_opt_nil {α β} (f : α → Option β) : ([] : List α).mapM f = some [] := by
  simp [List.mapM_nil]

theorem mapM_opt_cons {α β} (f : α → Option β) (a : α) (l : List α) :
    (a :: l).mapM f = (match f a with
      | none => none
      | some b => match l.mapM f with
        | none => none
        | some bs => some (b :: bs)) := by
  rw [List.mapM_cons]
  cases f a <;> simp
  cases l.mapM f <;> simp

/-- every element found: the result is the list of the values -/
theorem mapM_opt_of_forall {α β} (f : α → Option β) (g : α → β) (l : List α)
    (h : ∀ k ∈ l, f k = some (g k)) : l.mapM f = some (l.map g) := by
  induction l with
  | nil => exact mapM_opt_nil f
  | cons a t ih =>
    rw [mapM_opt_cons, h a List.mem_cons_self, ih (fun k hk => h k (List.mem_cons_of_mem _ hk))]
    rfl

/-- `mapM` fails exactly when some element fails -/
theorem mapM_opt_eq_none_iff {α β} (f : α → Option β) (l : List α) :
    l.mapM f = none ↔ ∃ k ∈ l, f k = none := by
  induction l with
  | nil => simp
  | cons a t ih =>
    rw [mapM_opt_cons]
    cases ha : f a with
    | none => simp [ha]
    | some b =>
      cases ht : t.mapM f with
      | none =>
        obtain ⟨k, hk, hkn⟩ := ih.1 ht
        simp only [true_iff]
        exact ⟨k, List.mem_cons_of_mem _ hk, hkn⟩
      | some bs =>
        simp only [List.mem_cons, exists_eq_or_imp, ha, false_iff, reduceCtorEq, false_or]
        intro hex
        rw [ih.2 hex] at ht
        cases ht

theorem mapM_opt_congr {α β} (f f' : α → Option β) (l : List α) (h : ∀ k ∈ l, f k = f' k) :
    l.mapM f = l.mapM f' := by
  induction l with
  | nil => simp
  | cons a t ih =>
    rw [mapM_opt_cons, mapM_opt_cons, h a List.mem_cons_self,
      ih (fun k hk => h k (List.mem_cons_of_mem _ hk))]

/-- every value of a successful `mapM` comes from an element of the list -/
theorem mapM_opt_mem {α β} (f : α → Option β) (l : List α) (r : List β) (h : l.mapM f = some r) :
    ∀ b ∈ r, ∃ k ∈ l, f k = some b := by
  induction l generalizing r with
  | nil =>
    rw [mapM_opt_nil] at h
    cases h
    simp
  | cons a t ih =>
    rw [mapM_opt_cons] at h
    cases ha : f a with
    | none => simp [ha] at h
    | some b0 =>
      cases ht : t.mapM f with
      | none => simp [ha, ht] at h
      | some bs =>
        simp only [ha, ht, Option.some.injEq] at h
        subst h
        intro b hb
        rcases List.mem_cons.1 hb with rfl | hb
        · exact ⟨a, List.mem_cons_self, ha⟩
        · obtain ⟨k, hk, hkb⟩ := ih bs ht b hb
          exact ⟨k, List.mem_cons_of_mem _ hk, hkb⟩

/-! ## C. effector mechanics -/

theorem toFun_of_lookup (mp : Map) (k a : Int) (h : mp.lookup k = some a) : Map.toFun mp k = a := by
  simp [Map.toFun, h]

/-- when the placement knows every name of the effector, the atoms read are the images of the names,
in the effector's order -/
theorem lookup_mapM_of_found (mp : Map) (keys : List Int) (h : ∀ k ∈ keys, (mp.lookup k).isSome) :
    keys.mapM (fun k => mp.lookup k) = some (keys.map (Map.toFun mp)) := by
  apply mapM_opt_of_forall
  intro k hk
  have := h k hk
  cases hl : mp.lookup k with
  | none => simp [hl] at this
  | some a => simp [Map.toFun, hl]

theorem effCall_of_found (pos : PosFn) (mp : Map) (name : String) (keys : List Int) (fmt : Option String)
    (h : ∀ k ∈ keys, (mp.lookup k).isSome) :
    effCall pos mp name keys fmt = evalAtoms pos name (keys.map (Map.toFun mp)) fmt := by
  unfold effCall
  rw [lookup_mapM_of_found mp keys h]

theorem effCall_of_missing (pos : PosFn) (mp : Map) (name : String) (keys : List Int) (fmt : Option String)
    (h : ∃ k ∈ keys, mp.lookup k = none) : effCall pos mp name keys fmt = .error .keyError := by
  unfold effCall
  rw [(mapM_opt_eq_none_iff _ keys).2 h]

theorem found_or_missing (mp : Map) (keys : List Int) :
    (∀ k ∈ keys, (mp.lookup k).isSome) ∨ (∃ k ∈ keys, mp.lookup k = none) := by
  by_cases h : ∃ k ∈ keys, mp.lookup k = none
  · exact Or.inr h
  · refine Or.inl fun k hk => ?_
    cases hl : mp.lookup k with
    | none => exact absurd ⟨k, hk, hl⟩ h
    | some a => rfl

/-- the three outcomes of `_apply` + rendering -/
theorem evalAtoms_notImplemented_iff (pos : PosFn) (name : String) (atoms : List Int) (fmt : Option String) :
    evalAtoms pos name atoms fmt = .error .notImplemented ↔ nKeysAsked name = none := by
  unfold evalAtoms
  cases hn : nKeysAsked name with
  | none => simp
  | some n =>
    simp only [Option.isNone_some, Bool.false_eq_true, if_false, reduceCtorEq, iff_false]
    cases atoms.mapM (posOf pos) with
    | none => simp
    | some ps => dsimp only; split <;> (try split) <;> simp

theorem evalAtoms_keyError_iff (pos : PosFn) (name : String) (atoms : List Int) (fmt : Option String) :
    evalAtoms pos name atoms fmt = .error .keyError ↔
      (nKeysAsked name).isSome ∧ ∃ a ∈ atoms, posOf pos a = none := by
  unfold evalAtoms
  cases hn : nKeysAsked name with
  | none => simp
  | some n =>
    simp only [Option.isNone_some, Bool.false_eq_true, if_false, Option.isSome_some, true_and]
    rw [← mapM_opt_eq_none_iff]
    cases atoms.mapM (posOf pos) with
    | none => simp
    | some ps => dsimp only; split <;> (try split) <;> simp

/-- (a) the parameters depend only on the positions of the atoms the placement assigns to the
effector's names -/
theorem effector_reads_placement_atoms (pos pos' : PosFn) (mp : Map) (name : String) (keys : List Int)
    (fmt : Option String) (h : ∀ k ∈ keys, ∀ a, mp.lookup k = some a → pos a = pos' a) :
    effCall pos mp name keys fmt = effCall pos' mp name keys fmt := by
  unfold effCall
  cases hm : keys.mapM (fun k => mp.lookup k) with
  | none => rfl
  | some atoms =>
    dsimp only
    have hmem := mapM_opt_mem _ keys atoms hm
    have hc : atoms.mapM (posOf pos) = atoms.mapM (posOf pos') := by
      apply mapM_opt_congr
      intro a ha
      obtain ⟨k, hk, hka⟩ := hmem a ha
      unfold posOf
      rw [h k hk a hka]
    unfold evalAtoms
    rw [hc]

/-- (b) ... and only on the placement's values on those names -/
theorem effector_reads_placement_names (pos : PosFn) (mp mp' : Map) (name : String) (keys : List Int)
    (fmt : Option String) (h : ∀ k ∈ keys, mp.lookup k = mp'.lookup k) :
    effCall pos mp name keys fmt = effCall pos mp' name keys fmt := by
  unfold effCall
  rw [mapM_opt_congr (fun k => mp.lookup k) (fun k => mp'.lookup k) keys h]

theorem effCall_keyError_iff (pos : PosFn) (mp : Map) (name : String) (keys : List Int) (fmt : Option String) :
    effCall pos mp name keys fmt = .error .keyError ↔
      (∃ k ∈ keys, mp.lookup k = none) ∨
      ((∀ k ∈ keys, (mp.lookup k).isSome) ∧ (nKeysAsked name).isSome ∧
        ∃ k ∈ keys, posOf pos (Map.toFun mp k) = none) := by
  rcases found_or_missing mp keys with hf | hmiss
  · rw [effCall_of_found pos mp name keys fmt hf, evalAtoms_keyError_iff]
    have hno : ¬ ∃ k ∈ keys, mp.lookup k = none := by
      rintro ⟨k, hk, hn⟩
      have := hf k hk
      simp [hn] at this
    simp only [hno, false_or]
    constructor
    · rintro ⟨h1, a, ha, hp⟩
      obtain ⟨k, hk, rfl⟩ := List.mem_map.1 ha
      exact ⟨hf, h1, k, hk, hp⟩
    · rintro ⟨_, h1, k, hk, hp⟩
      exact ⟨h1, _, List.mem_map.2 ⟨k, hk, rfl⟩, hp⟩
  · rw [effCall_of_missing pos mp name keys fmt hmiss]
    simp only [true_iff]
    exact Or.inl hmiss

theorem effCall_notImplemented_iff (pos : PosFn) (mp : Map) (name : String) (keys : List Int)
    (fmt : Option String) :
    effCall pos mp name keys fmt = .error .notImplemented ↔
      (∀ k ∈ keys, (mp.lookup k).isSome) ∧ nKeysAsked name = none := by
  rcases found_or_missing mp keys with hf | hmiss
  · rw [effCall_of_found pos mp name keys fmt hf, evalAtoms_notImplemented_iff]
    exact ⟨fun h => ⟨hf, h⟩, fun h => h.2⟩
  · rw [effCall_of_missing pos mp name keys fmt hmiss]
    simp only [Except.error.injEq, reduceCtorEq, false_iff, not_and]
    intro hf
    obtain ⟨k, hk, hn⟩ := hmiss
    have := hf k hk
    simp [hn] at this

/-- exact characterisation of the two error outcomes of `effector(molecule, match)` -/
theorem effCall_errors (pos : PosFn) (mp : Map) (name : String) (keys : List Int) (fmt : Option String) :
    (effCall pos mp name keys fmt = .error .keyError ↔
      (∃ k ∈ keys, mp.lookup k = none) ∨
      ((∀ k ∈ keys, (mp.lookup k).isSome) ∧ (nKeysAsked name).isSome ∧
        ∃ k ∈ keys, posOf pos (Map.toFun mp k) = none)) ∧
    (effCall pos mp name keys fmt = .error .notImplemented ↔
      (∀ k ∈ keys, (mp.lookup k).isSome) ∧ nKeysAsked name = none) :=
  ⟨effCall_keyError_iff pos mp name keys fmt, effCall_notImplemented_iff pos mp name keys fmt⟩

/-- a successful call: every name is placed, the class implements `_apply`, every atom has a position -/
theorem effCall_ok_iff (pos : PosFn) (mp : Map) (name : String) (keys : List Int) (fmt : Option String) :
    (∃ v, effCall pos mp name keys fmt = .ok v) ↔
      (∀ k ∈ keys, (mp.lookup k).isSome) ∧ (nKeysAsked name).isSome ∧
        ∀ k ∈ keys, (posOf pos (Map.toFun mp k)).isSome := by
  have hk := effCall_keyError_iff pos mp name keys fmt
  have hn := effCall_notImplemented_iff pos mp name keys fmt
  cases hc : effCall pos mp name keys fmt with
  | ok v =>
    rw [hc] at hk hn
    simp only [reduceCtorEq, false_iff, not_or, not_exists, not_and] at hk hn
    simp only [Except.ok.injEq, exists_eq', true_iff]
    have hf : ∀ k ∈ keys, (mp.lookup k).isSome := by
      intro k hkk
      cases hl : mp.lookup k with
      | none => exact absurd hl (hk.1 k hkk)
      | some a => rfl
    have hs : (nKeysAsked name).isSome := by
      cases hx : nKeysAsked name with
      | none => exact absurd hx (hn hf)
      | some n => rfl
    refine ⟨hf, hs, fun k hkk => ?_⟩
    cases hp : posOf pos (Map.toFun mp k) with
    | none => exact absurd hp (hk.2 hf hs k hkk)
    | some p => rfl
  | error e =>
    simp only [reduceCtorEq, exists_false, false_iff, not_and]
    intro hf hs hall
    cases e with
    | keyError =>
      rw [hc] at hk
      rcases hk.1 rfl with ⟨k, hkk, hl⟩ | ⟨_, _, k, hkk, hp⟩
      · have := hf k hkk; simp [hl] at this
      · have := hall k hkk; simp [hp] at this
    | notImplemented =>
      rw [hc] at hn
      have := (hn.1 rfl).2
      simp [this] at hs

/-- `__init__` raises exactly when the class fixes a number of keys and the number given differs -/
theorem effNew_rejects (name : String) (keys : List Int) (fmt : Option String) :
    (effNew name keys fmt = none ↔ ∃ n, nKeysAsked name = some n ∧ keys.length ≠ n) ∧
    (∀ p, effNew name keys fmt = some p → p = .eff name keys fmt) := by
  unfold effNew
  cases hn : nKeysAsked name with
  | none => simp
  | some n =>
    by_cases hl : keys.length = n
    · simp [hl]
    · simp [hl]

/-- `__eq__`: same class, same keys, same format; never equal to something that is not an effector -/
theorem effEq_iff (a b : Param) :
    effEq a b = true ↔ ∃ n k f, a = .eff n k f ∧ b = .eff n k f := by
  cases a <;> cases b <;> simp [effEq]
  constructor
  · rintro ⟨⟨rfl, rfl⟩, rfl⟩; exact ⟨_, _, _, ⟨rfl, rfl, rfl⟩, rfl, rfl, rfl⟩
  · rintro ⟨n, k, f, ⟨rfl, rfl, rfl⟩, rfl, rfl, rfl⟩; exact ⟨⟨rfl, rfl⟩, rfl⟩

theorem mul_self_nonneg' (i : Int) : 0 ≤ i * i := by
  rcases Int.le_total 0 i with h | h
  · exact Int.mul_nonneg h h
  · exact Int.mul_nonneg_of_nonpos_of_nonpos h h

/-- the exact squared distance of `ParamDistance` on two lattice points -/
theorem dist_exact (pos : PosFn) (mp : Map) (k1 k2 a1 a2 : Int) (x1 y1 z1 x2 y2 z2 : Int)
    (fmt : Option String)
    (h1 : mp.lookup k1 = some a1) (h2 : mp.lookup k2 = some a2)
    (p1 : pos a1 = some (.lattice x1 y1 z1)) (p2 : pos a2 = some (.lattice x2 y2 z2)) :
    effCall pos mp "dist" [k1, k2] fmt =
      .ok (.dist2 ((x2 - x1) * (x2 - x1) + (y2 - y1) * (y2 - y1) + (z2 - z1) * (z2 - z1)) fmt) := by
  have hn : nKeysAsked "dist" = some 2 := by decide
  simp [effCall, h1, h2, evalAtoms, hn, posOf, p1, p2, sqI]

/-- the distance does not depend on the order of the two keys -/
theorem dist_symm (pos : PosFn) (mp : Map) (k1 k2 a1 a2 : Int) (x1 y1 z1 x2 y2 z2 : Int)
    (fmt : Option String)
    (h1 : mp.lookup k1 = some a1) (h2 : mp.lookup k2 = some a2)
    (p1 : pos a1 = some (.lattice x1 y1 z1)) (p2 : pos a2 = some (.lattice x2 y2 z2)) :
    effCall pos mp "dist" [k2, k1] fmt = effCall pos mp "dist" [k1, k2] fmt := by
  rw [dist_exact pos mp k1 k2 a1 a2 x1 y1 z1 x2 y2 z2 fmt h1 h2 p1 p2,
    dist_exact pos mp k2 k1 a2 a1 x2 y2 z2 x1 y1 z1 fmt h2 h1 p2 p1]
  congr 2
  grind

theorem dist_nonneg (x1 y1 z1 x2 y2 z2 : Int) :
    0 ≤ (x2 - x1) * (x2 - x1) + (y2 - y1) * (y2 - y1) + (z2 - z1) * (z2 - z1) :=
  Int.add_nonneg (Int.add_nonneg (mul_self_nonneg' _) (mul_self_nonneg' _)) (mul_self_nonneg' _)

instance exceptDecEq {ε α} [DecidableEq ε] [DecidableEq α] : DecidableEq (Except ε α)
  | .ok a, .ok b => if h : a = b then isTrue (by rw [h]) else isFalse (fun e => h (Except.ok.inj e))
  | .error a, .error b =>
    if h : a = b then isTrue (by rw [h]) else isFalse (fun e => h (Except.error.inj e))
  | .ok _, .error _ => isFalse (fun e => by cases e)
  | .error _, .ok _ => isFalse (fun e => by cases e)

/-- three atoms on the lattice -/
def witPos : PosFn := fun a =>
  if a = 1 then some (.lattice 0 0 0) else if a = 2 then some (.lattice 1 0 0)
  else if a = 3 then some (.lattice 1 1 0) else none
/-- a placement of the link names 10, 11, 12 -/
def witMap : Map := [(10, 1), (11, 2), (12, 3)]

/-- the atoms are read in the effector's order: permuting the keys of an angle changes the ordered
atom list handed to `_apply`; for a distance on lattice points the value is the same -/
theorem effector_order_sensitive_witness :
    effCall witPos witMap "angle" [10, 11, 12] none = .ok (.sym "angle" [1, 2, 3] none) ∧
    effCall witPos witMap "angle" [11, 10, 12] none = .ok (.sym "angle" [2, 1, 3] none) ∧
    effCall witPos witMap "angle" [11, 10, 12] none ≠ effCall witPos witMap "angle" [10, 11, 12] none ∧
    effCall witPos witMap "dist" [10, 11] (some "f") = .ok (.dist2 1 (some "f")) ∧
    effCall witPos witMap "dist" [11, 10] (some "f") = .ok (.dist2 1 (some "f")) ∧
    effCall witPos witMap "dist" [10, 12] none = .ok (.dist2 2 none) := by
  decide

/-- evaluating the mapped symbolic parameter of the interaction table later equals calling the
effector at build time -/
theorem effCall_eq_evalParam (pos : PosFn) (mp : Map) (name : String) (keys : List Int) (fmt : Option String)
    (h : ∀ k ∈ keys, (mp.lookup k).isSome) :
    effCall pos mp name keys fmt = evalParam pos (mapParam mp (.eff name keys fmt)) := by
  rw [effCall_of_found pos mp name keys fmt h]
  rfl

/-- a parameter whose build-time call does not raise evaluates later to the same value -/
theorem paramErr_none_eval (pos : PosFn) (mp : Map) (p : Param) (h : paramErr pos mp p = none) :
    ∃ v, evalParam pos (mapParam mp p) = .ok v ∧
      (∀ n ks f, p = .eff n ks f → effCall pos mp n ks f = .ok v) := by
  cases p with
  | lit s => exact ⟨.lit s, rfl, fun _ _ _ hh => by cases hh⟩
  | eff n ks f =>
    simp only [paramErr] at h
    cases hc : effCall pos mp n ks f with
    | error e => simp [hc] at h
    | ok v =>
      have hf := ((effCall_ok_iff pos mp n ks f).1 ⟨v, hc⟩).1
      refine ⟨v, ?_, ?_⟩
      · rw [← effCall_eq_evalParam pos mp n ks f hf, hc]
      · intro n' ks' f' hh
        cases hh
        exact hc

/-- the deferred evaluation of a table entry built without exception never fails -/
theorem buildErr_none_eval (pos : PosFn) (mp : Map) (i : Inter)
    (h : buildErr pos mp i.atoms i.params = none) :
    ∀ p ∈ i.params, ∃ v, evalParam pos (mapParam mp p) = .ok v := by
  unfold buildErr at h
  split at h
  · cases h
  · intro p hp
    obtain ⟨v, hv, _⟩ := paramErr_none_eval pos mp p (List.findSome?_eq_none_iff.1 h p hp)
    exact ⟨v, hv⟩

/-- ... and every atom of the interaction is placed -/
theorem buildErr_none_atoms (pos : PosFn) (mp : Map) (i : Inter)
    (h : buildErr pos mp i.atoms i.params = none) : ∀ a ∈ i.atoms, (mp.lookup a).isSome := by
  unfold buildErr at h
  split at h
  · cases h
  · next hc =>
    intro a ha
    cases hl : mp.lookup a with
    | none =>
      exfalso
      apply hc
      simp only [List.any_eq_true]
      exact ⟨a, ha, by simp [hl]⟩
    | some b => rfl

/-! ## E. the pairwise order test and the dictionary order -/

theorem mem_pairs2_cons {α} (a b x : α) (t : List α) :
    (a, b) ∈ pairs2 (x :: t) ↔ (a = x ∧ b ∈ t) ∨ (a, b) ∈ pairs2 t := by
  simp only [pairs2, List.mem_append, List.mem_map, Prod.mk.injEq]
  constructor
  · rintro (⟨c, hc, rfl, rfl⟩ | h)
    · exact Or.inl ⟨rfl, hc⟩
    · exact Or.inr h
  · rintro (⟨rfl, hb⟩ | h)
    · exact Or.inl ⟨b, hb, rfl, rfl⟩
    · exact Or.inr h

theorem mem_of_mem_pairs2 {α} (a b : α) (t : List α) (h : (a, b) ∈ pairs2 t) : a ∈ t ∧ b ∈ t := by
  induction t with
  | nil => simp [pairs2] at h
  | cons x t ih =>
    rcases (mem_pairs2_cons a b x t).1 h with ⟨rfl, hb⟩ | h
    · exact ⟨List.mem_cons_self, List.mem_cons_of_mem _ hb⟩
    · exact ⟨List.mem_cons_of_mem _ (ih h).1, List.mem_cons_of_mem _ (ih h).2⟩

/-- a pair of a permuted list is a pair of the original list, possibly the other way round -/
theorem pairs2_perm {α} {l l' : List α} (hp : l.Perm l') :
    ∀ a b, (a, b) ∈ pairs2 l → (a, b) ∈ pairs2 l' ∨ (b, a) ∈ pairs2 l' := by
  induction hp with
  | nil => intro a b h; exact Or.inl h
  | cons x hp ih =>
    intro a b h
    rcases (mem_pairs2_cons a b x _).1 h with ⟨rfl, hb⟩ | h
    · exact Or.inl ((mem_pairs2_cons _ _ _ _).2 (Or.inl ⟨rfl, (hp.mem_iff).1 hb⟩))
    · rcases ih a b h with h | h
      · exact Or.inl ((mem_pairs2_cons _ _ _ _).2 (Or.inr h))
      · exact Or.inr ((mem_pairs2_cons _ _ _ _).2 (Or.inr h))
  | swap x y l =>
    intro a b h
    simp only [mem_pairs2_cons, List.mem_cons] at h ⊢
    rcases h with ⟨rfl, rfl | hb⟩ | ⟨rfl, hb⟩ | h
    · exact Or.inr (Or.inl ⟨rfl, Or.inl rfl⟩)
    · exact Or.inl (Or.inr (Or.inl ⟨rfl, hb⟩))
    · exact Or.inl (Or.inl ⟨rfl, Or.inr hb⟩)
    · exact Or.inl (Or.inr (Or.inr h))
  | trans _ _ ih1 ih2 =>
    intro a b h
    rcases ih1 a b h with h | h
    · exact ih2 a b h
    · exact (ih2 b a h).symm

theorem mem_pairResults (tbl : List (Order × Int)) (r : Option Bool) :
    r ∈ pairResults tbl ↔ ∃ p q, (p, q) ∈ pairs2 tbl ∧ r = matchOrder p.1 p.2 q.1 q.2 := by
  unfold pairResults
  rw [List.mem_map]
  constructor
  · rintro ⟨⟨p, q⟩, h, rfl⟩; exact ⟨p, q, h, rfl⟩
  · rintro ⟨p, q, h, rfl⟩; exact ⟨(p, q), h, rfl⟩

theorem pairResults_perm_sub {tbl tbl' : List (Order × Int)} (hp : tbl'.Perm tbl) (r : Option Bool)
    (h : r ∈ pairResults tbl') : r ∈ pairResults tbl := by
  obtain ⟨p, q, hpq, rfl⟩ := (mem_pairResults tbl' _).1 h
  rcases pairs2_perm hp p q hpq with h | h
  · exact (mem_pairResults tbl _).2 ⟨p, q, h, rfl⟩
  · exact (mem_pairResults tbl _).2 ⟨q, p, h, matchOrder_symm ..⟩

/-- the SET of results of the pairwise test does not depend on the dictionary order -/
theorem pairResults_perm {tbl tbl' : List (Order × Int)} (hp : tbl'.Perm tbl) (r : Option Bool) :
    r ∈ pairResults tbl' ↔ r ∈ pairResults tbl :=
  ⟨pairResults_perm_sub hp r, pairResults_perm_sub hp.symm r⟩

theorem pairwiseVerdict_eq (tbl : List (Order × Int)) :
    pairwiseVerdict tbl =
      if (∀ r ∈ pairResults tbl, r = some true) then .yes
      else if none ∉ pairResults tbl then .no
      else if some false ∉ pairResults tbl then .raises
      else .either := by
  unfold pairwiseVerdict
  have h1 : ((pairResults tbl).all (· == some true) = true) ↔ ∀ r ∈ pairResults tbl, r = some true := by
    simp
  have h2 : ((pairResults tbl).any (·.isNone) = true) ↔ none ∈ pairResults tbl := by
    simp only [List.any_eq_true, Option.isNone_iff_eq_none]
    exact ⟨fun ⟨x, hx, hn⟩ => hn ▸ hx, fun h => ⟨none, h, rfl⟩⟩
  have h3 : ((pairResults tbl).any (· == some false) = true) ↔ some false ∈ pairResults tbl := by
    simp only [List.any_eq_true, beq_iff_eq]
    exact ⟨fun ⟨x, hx, hn⟩ => hn ▸ hx, fun h => ⟨_, h, rfl⟩⟩
  dsimp only
  by_cases c1 : ∀ r ∈ pairResults tbl, r = some true
  · rw [if_pos (h1.2 c1), if_pos c1]
  · rw [if_neg (fun h => c1 (h1.1 h)), if_neg c1]
    by_cases c2 : none ∈ pairResults tbl
    · have : (pairResults tbl).any (·.isNone) = true := h2.2 c2
      simp only [this, Bool.not_true, Bool.false_eq_true, if_false, c2, not_true_eq_false]
      by_cases c3 : some false ∈ pairResults tbl
      · have : (pairResults tbl).any (· == some false) = true := h3.2 c3
        simp [this, c3]
      · have : (pairResults tbl).any (· == some false) = false := by
          cases hb : (pairResults tbl).any (· == some false) with
          | false => rfl
          | true => exact absurd (h3.1 hb) c3
        simp [this, c3]
    · have : (pairResults tbl).any (·.isNone) = false := by
        cases hb : (pairResults tbl).any (·.isNone) with
        | false => rfl
        | true => exact absurd (h2.1 hb) c2
      simp [this, c2]

/-- the verdict is the same for every order of the `order_match` dictionary -/
theorem pairwiseVerdict_perm {tbl tbl' : List (Order × Int)} (hp : tbl'.Perm tbl) :
    pairwiseVerdict tbl' = pairwiseVerdict tbl := by
  rw [pairwiseVerdict_eq, pairwiseVerdict_eq]
  have e1 : (∀ r ∈ pairResults tbl', r = some true) ↔ (∀ r ∈ pairResults tbl, r = some true) :=
    ⟨fun h r hr => h r ((pairResults_perm hp r).2 hr), fun h r hr => h r ((pairResults_perm hp r).1 hr)⟩
  simp only [pairResults_perm hp]

/-- the first result that is not `True` decides: either all are `True`, or the outcome is one of the
results and is not `True` -/
theorem firstDecides_cases (rs : List (Option Bool)) :
    ((∀ r ∈ rs, r = some true) ∧ firstDecides rs = some true) ∨
      (firstDecides rs ∈ rs ∧ firstDecides rs ≠ some true) := by
  induction rs with
  | nil => exact Or.inl ⟨by simp, rfl⟩
  | cons x t ih =>
    cases x with
    | none => exact Or.inr ⟨by simp [firstDecides], by simp [firstDecides]⟩
    | some b =>
      cases b with
      | false => exact Or.inr ⟨by simp [firstDecides], by simp [firstDecides]⟩
      | true =>
        simp only [firstDecides]
        rcases ih with ⟨h1, h2⟩ | ⟨h1, h2⟩
        · refine Or.inl ⟨?_, h2⟩
          intro r hr
          rcases List.mem_cons.1 hr with rfl | hr
          · rfl
          · exact h1 r hr
        · exact Or.inr ⟨List.mem_cons_of_mem _ h1, h2⟩

theorem firstDecides_true_iff (rs : List (Option Bool)) :
    firstDecides rs = some true ↔ ∀ r ∈ rs, r = some true := by
  rcases firstDecides_cases rs with ⟨h1, h2⟩ | ⟨h1, h2⟩
  · exact ⟨fun _ => h1, fun _ => h2⟩
  · exact ⟨fun h => absurd h h2, fun h => absurd (h _ h1) h2⟩

/-- the verdict as the outcome of the sequential loop, where it is determined -/
def Verdict.toOpt : Verdict → Option Bool
  | .yes => some true
  | .no => some false
  | .raises => none
  | .either => none

theorem pairwiseVerdict_inv (tbl : List (Order × Int)) :
    (pairwiseVerdict tbl = .yes → ∀ r ∈ pairResults tbl, r = some true) ∧
    (pairwiseVerdict tbl = .no → (¬ ∀ r ∈ pairResults tbl, r = some true) ∧ none ∉ pairResults tbl) ∧
    (pairwiseVerdict tbl = .raises →
      (¬ ∀ r ∈ pairResults tbl, r = some true) ∧ some false ∉ pairResults tbl) ∧
    (pairwiseVerdict tbl = .either → ¬ ∀ r ∈ pairResults tbl, r = some true) := by
  rw [pairwiseVerdict_eq]
  by_cases c1 : ∀ r ∈ pairResults tbl, r = some true
  · rw [if_pos c1]
    refine ⟨fun _ => c1, ?_, ?_, ?_⟩ <;> (intro h; cases h)
  · rw [if_neg c1]
    by_cases c2 : none ∉ pairResults tbl
    · rw [if_pos c2]
      refine ⟨?_, fun _ => ⟨c1, c2⟩, ?_, ?_⟩ <;> (intro h; cases h)
    · rw [if_neg c2]
      by_cases c3 : some false ∉ pairResults tbl
      · rw [if_pos c3]
        refine ⟨?_, ?_, fun _ => ⟨c1, c3⟩, ?_⟩ <;> (intro h; cases h)
      · rw [if_neg c3]
        refine ⟨?_, ?_, ?_, fun _ => c1⟩ <;> (intro h; cases h)

/-- the sequential test on the table itself -/
theorem pairwiseVerdict_seq (tbl : List (Order × Int)) :
    (pairwiseVerdict tbl = .yes → pairwiseSeq tbl = some true) ∧
    (pairwiseVerdict tbl = .no → pairwiseSeq tbl = some false) ∧
    (pairwiseVerdict tbl = .raises → pairwiseSeq tbl = none) ∧
    (pairwiseVerdict tbl = .either → (pairwiseSeq tbl = none ∨ pairwiseSeq tbl = some false)) := by
  obtain ⟨i1, i2, i3, i4⟩ := pairwiseVerdict_inv tbl
  unfold pairwiseSeq
  have key : ¬ (∀ r ∈ pairResults tbl, r = some true) →
      firstDecides (pairResults tbl) ∈ pairResults tbl ∧ firstDecides (pairResults tbl) ≠ some true := by
    intro hna
    rcases firstDecides_cases (pairResults tbl) with ⟨h1, _⟩ | h
    · exact absurd h1 hna
    · exact h
  have h3 : ∀ x : Option Bool, x ≠ some true → x = none ∨ x = some false := by
    intro x hx
    cases x with
    | none => exact Or.inl rfl
    | some b => cases b with
      | false => exact Or.inr rfl
      | true => exact absurd rfl hx
  refine ⟨fun hv => (firstDecides_true_iff _).2 (i1 hv), fun hv => ?_, fun hv => ?_, fun hv => ?_⟩
  · obtain ⟨c1, c2⟩ := i2 hv
    obtain ⟨hm, hne⟩ := key c1
    rcases h3 _ hne with h | h
    · rw [h] at hm; exact absurd hm c2
    · exact h
  · obtain ⟨c1, c3⟩ := i3 hv
    obtain ⟨hm, hne⟩ := key c1
    rcases h3 _ hne with h | h
    · exact h
    · rw [h] at hm; exact absurd hm c3
  · exact h3 _ (key (i4 hv)).2

theorem pairwiseSeq_eq_toOpt (tbl : List (Order × Int)) (h : pairwiseVerdict tbl ≠ .either) :
    pairwiseSeq tbl = (pairwiseVerdict tbl).toOpt := by
  obtain ⟨h1, h2, h3, _⟩ := pairwiseVerdict_seq tbl
  cases hv : pairwiseVerdict tbl with
  | yes => exact h1 hv
  | no => exact h2 hv
  | raises => exact h3 hv
  | either => exact absurd hv h

/-- Whatever the order of the `order_match` dictionary, the sequential test gives the outcome the
verdict names, unless the verdict is `either`. -/
theorem pairwise_order_independent (tbl tbl' : List (Order × Int)) (hp : tbl'.Perm tbl)
    (h : pairwiseVerdict tbl ≠ .either) :
    pairwiseSeq tbl' = (match pairwiseVerdict tbl with
      | .yes => some true | .no => some false | .raises => none | .either => none) := by
  have := pairwiseSeq_eq_toOpt tbl' (by rw [pairwiseVerdict_perm hp]; exact h)
  rw [pairwiseVerdict_perm hp] at this
  rw [this]
  cases pairwiseVerdict tbl <;> rfl

/-- a table whose outcome genuinely depends on the dictionary order -/
def eitherTable : List (Order × Int) := [(.num 0, 5), (.num 1, 9), (.bad, 7)]
def eitherTable1 : List (Order × Int) := [(.num 0, 5), (.num 1, 9), (.bad, 7)]
def eitherTable2 : List (Order × Int) := [(.bad, 7), (.num 0, 5), (.num 1, 9)]

theorem pairwise_either_witness :
    pairwiseVerdict eitherTable = .either ∧ eitherTable1.Perm eitherTable ∧ eitherTable2.Perm eitherTable ∧
      pairwiseSeq eitherTable1 = some false ∧ pairwiseSeq eitherTable2 = none := by
  refine ⟨by decide, List.Perm.refl _, ?_, by decide, by decide⟩
  unfold eitherTable2 eitherTable
  exact (List.Perm.swap _ _ _).trans (List.Perm.cons _ (List.Perm.swap _ _ _))

/-! ### the four-valued verdict against the `Option Bool` of the base model -/

theorem pairwiseOrders_eq_toOpt (tbl : List (Order × Int)) :
    pairwiseOrders tbl = (pairwiseVerdict tbl).toOpt := by
  have hdef : pairwiseOrders tbl =
      if (pairResults tbl).any (·.isNone) then none else some ((pairResults tbl).all (· == some true)) := rfl
  rw [hdef]
  unfold pairwiseVerdict
  dsimp only
  cases hall : (pairResults tbl).all (· == some true) with
  | true =>
    have hno : (pairResults tbl).any (·.isNone) = false := by
      cases hb : (pairResults tbl).any (·.isNone) with
      | false => rfl
      | true =>
        simp only [List.any_eq_true, Option.isNone_iff_eq_none] at hb
        obtain ⟨x, hx, rfl⟩ := hb
        simp only [List.all_eq_true, beq_iff_eq] at hall
        exact absurd (hall _ hx) (by simp)
    simp [hno, Verdict.toOpt]
  | false =>
    cases hb : (pairResults tbl).any (·.isNone) with
    | false => simp [Verdict.toOpt]
    | true =>
      cases (pairResults tbl).any (· == some false) <;> simp [Verdict.toOpt]

theorem placementOk_eq_toOpt (m : Mol) (l : Link) (mp : Map) :
    placementOk m l mp = (placementVerdict m l mp).toOpt := by
  unfold placementOk placementVerdict
  cases validNonEdges m l mp l.nonEdges with
  | none => rfl
  | some b =>
    cases b with
    | false => rfl
    | true =>
      dsimp only
      cases anyPattern m mp l.patterns with
      | none => rfl
      | some ap =>
        dsimp only
        split
        · rfl
        · cases orderTable m l mp with
          | none => rfl
          | some tbl => exact pairwiseOrders_eq_toOpt tbl

theorem toOpt_eq_some_true (v : Verdict) : v.toOpt = some true ↔ v = .yes := by
  cases v <;> simp [Verdict.toOpt]

theorem toOpt_eq_some_false (v : Verdict) : v.toOpt = some false ↔ v = .no := by
  cases v <;> simp [Verdict.toOpt]

theorem toOpt_eq_none (v : Verdict) : v.toOpt = none ↔ (v = .raises ∨ v = .either) := by
  cases v <;> simp [Verdict.toOpt]

theorem pairwiseVerdict_vs_orders (tbl : List (Order × Int)) :
    (pairwiseVerdict tbl = .yes ↔ pairwiseOrders tbl = some true) ∧
    (pairwiseVerdict tbl = .no ↔ pairwiseOrders tbl = some false) ∧
    ((pairwiseVerdict tbl = .raises ∨ pairwiseVerdict tbl = .either) ↔ pairwiseOrders tbl = none) := by
  rw [pairwiseOrders_eq_toOpt]
  exact ⟨(toOpt_eq_some_true _).symm, (toOpt_eq_some_false _).symm, (toOpt_eq_none _).symm⟩

theorem placementVerdict_yes_iff (m : Mol) (l : Link) (mp : Map) :
    placementVerdict m l mp = .yes ↔ placementOk m l mp = some true := by
  rw [placementOk_eq_toOpt, toOpt_eq_some_true]

theorem filter_verdict_eq (m : Mol) (l : Link) (raws : List Map) :
    raws.filter (fun mp => placementVerdict m l mp == .yes) =
      raws.filter (fun mp => placementOk m l mp == some true) := by
  apply List.filter_congr
  intro mp _
  rw [placementOk_eq_toOpt]
  cases placementVerdict m l mp <;> rfl

/-- whenever `match_link` may return, what it returns is the list of the base model -/
theorem matchLinkV_ps (m : Mol) (l : Link) (ps : List Map)
    (h : matchLinkV m l = .yields ps ∨ matchLinkV m l = .either ps) : ps = matchLink m l := by
  unfold matchLinkV at h
  unfold matchLink
  by_cases hc : attributesMatch m.md l.molmeta [] = true
  · simp only [hc, if_true] at h ⊢
    rw [← filter_verdict_eq]
    split at h
    · rcases h with h | h <;> cases h
    · split at h
      · rcases h with h | h
        · cases h
        · injection h with h; exact h.symm
      · rcases h with h | h
        · injection h with h; exact h.symm
        · cases h
  · simp only [hc, Bool.false_eq_true, if_false] at h ⊢
    rcases h with h | h
    · injection h with h; exact h.symm
    · cases h

theorem any_isNone_iff (m : Mol) (l : Link) (raws : List Map) :
    raws.any (fun mp => (placementOk m l mp).isNone) = true ↔
      ((raws.map (placementVerdict m l)).contains .raises = true ∨
       (raws.map (placementVerdict m l)).contains .either = true) := by
  simp only [List.any_eq_true, Option.isNone_iff_eq_none, List.contains_eq_mem, List.mem_map,
    decide_eq_true_eq]
  constructor
  · rintro ⟨mp, hmp, hn⟩
    rw [placementOk_eq_toOpt, toOpt_eq_none] at hn
    rcases hn with hn | hn
    · exact Or.inl ⟨mp, hmp, hn⟩
    · exact Or.inr ⟨mp, hmp, hn⟩
  · rintro (⟨mp, hmp, hn⟩ | ⟨mp, hmp, hn⟩)
    · exact ⟨mp, hmp, by rw [placementOk_eq_toOpt, hn]; rfl⟩
    · exact ⟨mp, hmp, by rw [placementOk_eq_toOpt, hn]; rfl⟩

/-- `match_link` certainly returns `ps` exactly when the exception-aware base model returns `ps`;
it raises for at least one dictionary order exactly when the base model reports an exception -/
theorem matchLinkV_vs_E (m : Mol) (l : Link) :
    (∀ ps, matchLinkV m l = .yields ps ↔ matchLinkE m l = some ps) ∧
    (matchLinkE m l = none ↔ (matchLinkV m l = .raises ∨ ∃ ps, matchLinkV m l = .either ps)) := by
  unfold matchLinkV matchLinkE
  by_cases hc : attributesMatch m.md l.molmeta [] = true
  · simp only [hc, if_true]
    have hany := any_isNone_iff m l (rawMatches m l)
    rw [filter_verdict_eq]
    by_cases h1 : (List.map (placementVerdict m l) (rawMatches m l)).contains Verdict.raises = true
    · have ha : (rawMatches m l).any (fun mp => (placementOk m l mp).isNone) = true := hany.2 (Or.inl h1)
      rw [if_pos h1, if_pos ha]
      refine ⟨fun ps => ⟨?_, ?_⟩, fun _ => Or.inl rfl, fun _ => rfl⟩ <;> (intro h; cases h)
    · by_cases h2 : (List.map (placementVerdict m l) (rawMatches m l)).contains Verdict.either = true
      · have ha : (rawMatches m l).any (fun mp => (placementOk m l mp).isNone) = true := hany.2 (Or.inr h2)
        rw [if_neg h1, if_pos h2, if_pos ha]
        refine ⟨fun ps => ⟨?_, ?_⟩, fun _ => Or.inr ⟨_, rfl⟩, fun _ => rfl⟩ <;> (intro h; cases h)
      · have ha : ¬ (rawMatches m l).any (fun mp => (placementOk m l mp).isNone) = true := by
          intro hb
          rcases hany.1 hb with h | h
          · exact h1 h
          · exact h2 h
        rw [if_neg h1, if_neg h2, if_neg ha]
        refine ⟨fun ps => ?_, ?_, ?_⟩
        · constructor
          · intro h; injection h with h; rw [h]
          · intro h; injection h with h; rw [h]
        · intro h; cases h
        · rintro (h | ⟨ps, h⟩) <;> cases h
  · simp only [hc, Bool.false_eq_true, if_false]
    refine ⟨fun ps => ?_, ?_, ?_⟩
    · constructor
      · intro h; injection h with h; rw [h]
      · intro h; injection h with h; rw [h]
    · intro h; cases h
    · rintro (h | ⟨ps, h⟩) <;> cases h

/-! ## D. the run with error kinds -/

/-- when the run with error kinds returns, it returns what the total run returns -/
theorem applyLinksFromX_ok_eq (pos : PosFn) (mb : Bool) (s : Mol × List Int) (links : List Link)
    (gs : List (List Map)) (r : Mol × List Int)
    (h : (applyLinksFromX pos mb s links gs).out = .ok r) : r = applyLinksFrom s links gs := by
  induction links generalizing mb s gs with
  | nil =>
    simp only [applyLinksFromX] at h
    injection h with h
    exact h.symm
  | cons l ls ih =>
    simp only [applyLinksFromX] at h
    simp only [applyLinksFrom]
    split at h
    · cases h
    · next ps hps =>
      rw [← matchLinkV_ps _ _ ps (Or.inl hps)]
      split at h
      · cases h
      · exact ih _ _ _ h
    · next ps hps =>
      rw [← matchLinkV_ps _ _ ps (Or.inr hps)]
      split at h
      · cases h
      · exact ih _ _ _ h

theorem applyLinksX_ok_eq (pos : PosFn) (m : Mol) (links : List Link) (given : List (List Map))
    (s : Mol × List Int) (h : (applyLinksX pos m links given).out = .ok s) :
    s.1 = applyLinks m links given := by
  unfold applyLinksX at h
  unfold applyLinks
  rw [applyLinksFromX_ok_eq pos _ _ _ _ _ h]

/-- an effector exception while the first link is applied comes from the first placement (in
processing order) whose construction raises; otherwise it comes from the rest of the run -/
theorem applyLinksX_first_error (pos : PosFn) (mb : Bool) (s : Mol × List Int) (l : Link) (ls : List Link)
    (gs : List (List Map)) (ps : List Map) (e : EffErr)
    (hv : matchLinkV s.1 l = .yields ps)
    (h : (applyLinksFromX pos mb s (l :: ls) gs).out = .error (.eff e)) :
    (∃ before mp after, orderAs (gs.headD []) ps = before ++ mp :: after ∧
        placementErr pos l mp = some e ∧ ∀ x ∈ before, placementErr pos l x = none) ∨
    ((∀ x ∈ orderAs (gs.headD []) ps, placementErr pos l x = none) ∧
      (applyLinksFromX pos mb (applyLinkWith l s (orderAs (gs.headD []) ps)) ls gs.tail).out
        = .error (.eff e)) := by
  simp only [applyLinksFromX, hv] at h
  cases hf : (orderAs (gs.headD []) ps).findSome? (placementErr pos l) with
  | some e' =>
    simp only [hf] at h
    injection h with h
    injection h with h
    subst h
    exact Or.inl (List.findSome?_eq_some_iff.1 hf)
  | none =>
    simp only [hf] at h
    exact Or.inr ⟨List.findSome?_eq_none_iff.1 hf, h⟩

/-! ## F. the interaction-table API -/

/-- a new identity is appended -/
theorem addOrReplace_new (t : Table) (x : String × Inter) (h : ∀ e ∈ t, keyOf e ≠ keyOf x) :
    addOrReplace t x = t ++ [x] := by
  induction t with
  | nil => rfl
  | cons e rest ih =>
    simp only [addOrReplace]
    have he : ¬ (keyOf e == keyOf x) = true := by
      simpa using h e List.mem_cons_self
    rw [if_neg he, List.cons_append]
    rw [ih (fun e' he' => h e' (List.mem_cons_of_mem _ he'))]

theorem any_key_false_iff (t : Table) (x : String × Inter) :
    t.any (fun e => keyOf e == keyOf x) = false ↔ ∀ e ∈ t, keyOf e ≠ keyOf x := by
  simp

/-- `add_or_replace_interaction` is the `addOrReplace` of the base model on the table (plus the
citations); it raises exactly when the identity is new and some atom is not a node -/
theorem addOrReplaceInteraction_table (m : Mol) (ty : String) (atoms : List Int) (params : List Param)
    (md : Option Attrs) (cites : Option (List String)) :
    (∀ m', addOrReplaceInteraction m ty atoms params md cites = some m' →
      m'.inters = addOrReplace m.inters (ty, ⟨atoms, params, md.getD []⟩) ∧
      m'.cites = unionSet m.cites (cites.getD []) ∧ m'.nodes = m.nodes ∧ m'.edges = m.edges ∧ m'.md = m.md) ∧
    (addOrReplaceInteraction m ty atoms params md cites = none ↔
      (∀ e ∈ m.inters, keyOf e ≠ keyOf (ty, (⟨atoms, params, md.getD []⟩ : Inter))) ∧
      ∃ a ∈ atoms, a ∉ m.keys) := by
  unfold addOrReplaceInteraction
  dsimp only
  cases hany : m.inters.any (fun e => keyOf e == keyOf (ty, (⟨atoms, params, md.getD []⟩ : Inter))) with
  | true =>
    have hex : ¬ ∀ e ∈ m.inters, keyOf e ≠ keyOf (ty, (⟨atoms, params, md.getD []⟩ : Inter)) := by
      intro hh
      rw [(any_key_false_iff _ _).2 hh] at hany
      cases hany
    simp only [if_true, Option.map_some, Option.some.injEq, reduceCtorEq, false_iff]
    refine ⟨?_, fun hh => hex hh.1⟩
    rintro m' rfl
    exact ⟨rfl, rfl, rfl, rfl, rfl⟩
  | false =>
    have hnew := (any_key_false_iff _ _).1 hany
    simp only [Bool.false_eq_true, if_false, addInteraction, Option.getD_some]
    by_cases hall : atoms.all (fun a => m.keys.contains a) = true
    · simp only [hall, if_true, Option.map_some, Option.some.injEq, reduceCtorEq, false_iff]
      refine ⟨?_, ?_⟩
      · rintro m' rfl
        exact ⟨(addOrReplace_new _ _ hnew).symm, rfl, rfl, rfl, rfl⟩
      · rintro ⟨_, a, ha, hna⟩
        simp only [List.all_eq_true, List.contains_eq_mem, decide_eq_true_eq] at hall
        exact hna (hall a ha)
    · simp only [hall, Bool.false_eq_true, if_false, Option.map_none, reduceCtorEq, false_imp_iff,
        implies_true, true_and, true_iff]
      refine ⟨hnew, ?_⟩
      have hall' : atoms.all (fun a => m.keys.contains a) = false := by
        cases hb : atoms.all (fun a => m.keys.contains a) with
        | false => rfl
        | true => exact absurd hb hall
      simp only [List.all_eq_false, List.contains_eq_mem, decide_eq_true_eq] at hall'
      exact hall'

/-- `add_interaction` appends, and raises exactly when some atom is not a node -/
theorem addInteraction_table (m : Mol) (ty : String) (atoms : List Int) (params : List Param)
    (md : Option Attrs) :
    (∀ m', addInteraction m ty atoms params md = some m' →
      m'.inters = m.inters ++ [(ty, ⟨atoms, params, md.getD []⟩)]) ∧
    (addInteraction m ty atoms params md = none ↔ ∃ a ∈ atoms, a ∉ m.keys) := by
  unfold addInteraction
  by_cases hall : atoms.all (fun a => m.keys.contains a) = true
  · simp only [hall, if_true, Option.some.injEq, reduceCtorEq, false_iff]
    refine ⟨by rintro m' rfl; rfl, ?_⟩
    rintro ⟨a, ha, hna⟩
    simp only [List.all_eq_true, List.contains_eq_mem, decide_eq_true_eq] at hall
    exact hna (hall a ha)
  · simp only [hall, Bool.false_eq_true, if_false, reduceCtorEq, false_imp_iff, implies_true,
      true_and, true_iff]
    have hall' : atoms.all (fun a => m.keys.contains a) = false := by
      cases hb : atoms.all (fun a => m.keys.contains a) with
      | false => rfl
      | true => exact absurd hb hall
    simp only [List.all_eq_false, List.contains_eq_mem, decide_eq_true_eq] at hall'
    exact hall'

/-- `remove_matching_interaction` is the `removeMatching` of the base model; it raises exactly when
no entry matches, in which case the swallowed call of `DoLinks` changes nothing -/
theorem removeMatchingE_table (m : Mol) (ty : String) (d : LDel) :
    (∀ m', removeMatchingE m ty d = some m' →
      m'.inters = removeMatching m.attrsOf m.inters ty d ∧ m'.nodes = m.nodes ∧ m'.edges = m.edges) ∧
    (removeMatchingE m ty d = none ↔ ∀ e ∈ m.inters, ¬ (e.1 = ty ∧ interMatch m.attrsOf e.2 d = true)) ∧
    (removeMatchingE m ty d = none → removeMatching m.attrsOf m.inters ty d = m.inters) := by
  have hiff : removeMatchingE m ty d = none ↔
      ∀ e ∈ m.inters, ¬ (e.1 = ty ∧ interMatch m.attrsOf e.2 d = true) := by
    unfold removeMatchingE
    cases hany : m.inters.any (fun e => e.1 == ty && interMatch m.attrsOf e.2 d) with
    | true =>
      simp only [if_true, reduceCtorEq, false_iff]
      intro hh
      simp only [List.any_eq_true, Bool.and_eq_true, beq_iff_eq] at hany
      obtain ⟨e, he, h⟩ := hany
      exact hh e he h
    | false =>
      simp only [Bool.false_eq_true, if_false, true_iff]
      intro e he h
      have : m.inters.any (fun e => e.1 == ty && interMatch m.attrsOf e.2 d) = true := by
        simp only [List.any_eq_true, Bool.and_eq_true, beq_iff_eq]
        exact ⟨e, he, h⟩
      rw [hany] at this
      cases this
  refine ⟨?_, hiff, fun h => removeMatching_none _ _ _ _ (hiff.1 h)⟩
  intro m' h
  unfold removeMatchingE at h
  split at h
  · injection h with h
    subst h
    exact ⟨rfl, rfl, rfl⟩
  · cases h

/-- `remove_interaction` deletes the first entry with that identity, and raises iff there is none -/
theorem removeInteraction_table (m : Mol) (ty : String) (atoms : List Int) (ver : Val) :
    (∀ m', removeInteraction m ty atoms ver = some m' →
      m'.inters = eraseFirstKey m.inters (ty, atoms, ver)) ∧
    (removeInteraction m ty atoms ver = none ↔ (ty, atoms, ver) ∉ tableKeys m.inters) := by
  unfold removeInteraction
  cases hany : m.inters.any (fun e => keyOf e == (ty, atoms, ver)) with
  | true =>
    simp only [if_true, Option.some.injEq, reduceCtorEq, false_iff]
    refine ⟨by rintro m' rfl; rfl, ?_⟩
    simp only [List.any_eq_true, beq_iff_eq] at hany
    obtain ⟨e, he, h⟩ := hany
    exact fun hn => hn (List.mem_map.2 ⟨e, he, h⟩)
  | false =>
    simp only [Bool.false_eq_true, if_false, reduceCtorEq, false_imp_iff, implies_true, true_and,
      true_iff]
    intro hmem
    obtain ⟨e, he, h⟩ := List.mem_map.1 hmem
    have : m.inters.any (fun e => keyOf e == (ty, atoms, ver)) = true := by
      simp only [List.any_eq_true, beq_iff_eq]
      exact ⟨e, he, h⟩
    rw [hany] at this
    cases this

end C05
