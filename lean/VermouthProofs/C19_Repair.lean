import VermouthModel.C19_Repair
import VermouthProps.C04
/-! Helper lemmas for the repair clause of C19. Core Lean only. -/
namespace C19.Repair
open C04

/-! ### attribute dictionaries -/

theorem lk (k : String) (p : String × String) (t : List (String × String)) :
    List.lookup k (p :: t) = if (k == p.1) = true then some p.2 else List.lookup k t := by
  obtain ⟨a, b⟩ := p
  simp only [List.lookup_cons]
  cases (k == a) <;> rfl

theorem beq_false_of_ne {a b : String} (h : a ≠ b) : (a == b) = false := by
  rw [Bool.eq_false_iff]; intro e; exact h (by simpa using e)

theorem lookup_setAttr_eq (d : Attrs) (k v : String) : (setAttr d k v).lookup k = some v := by
  unfold setAttr
  split
  · rename_i h
    induction d with
    | nil => simp at h
    | cons p t ih =>
      rw [List.map_cons, lk]
      by_cases hp : (p.1 == k) = true
      · simp [hp]
      · have hp' : (p.1 == k) = false := by simpa using hp
        have hne : p.1 ≠ k := by simpa using hp
        simp only [hp', Bool.false_eq_true, if_false]
        rw [if_neg (by rw [beq_false_of_ne (Ne.symm hne)]; simp)]
        apply ih
        simpa [hp'] using h
  · rename_i h
    induction d with
    | nil => simp [List.lookup]
    | cons p t ih =>
      simp only [List.any_cons, Bool.or_eq_true, not_or] at h
      have hne : p.1 ≠ k := by simpa using h.1
      rw [List.cons_append, lk, if_neg (by rw [beq_false_of_ne (Ne.symm hne)]; simp)]
      exact ih h.2

theorem lookup_map_other (t : Attrs) (k v k' : String) (hne : k ≠ k') :
    List.lookup k' (t.map fun p => if (p.1 == k) = true then (k, v) else p) = List.lookup k' t := by
  induction t with
  | nil => rfl
  | cons p t ih =>
    rw [List.map_cons, lk, lk]
    by_cases hp : (p.1 == k) = true
    · have e : p.1 = k := by simpa using hp
      simp only [hp, if_true]
      rw [if_neg (by rw [beq_false_of_ne (Ne.symm hne)]; simp),
          if_neg (by rw [e, beq_false_of_ne (Ne.symm hne)]; simp)]
      exact ih
    · have hp' : (p.1 == k) = false := by simpa using hp
      simp only [hp', Bool.false_eq_true, if_false]
      rw [ih]

theorem lookup_append_other (t : Attrs) (k v k' : String) (hne : k ≠ k') :
    List.lookup k' (t ++ [(k, v)]) = List.lookup k' t := by
  induction t with
  | nil => simp [List.lookup, beq_false_of_ne (Ne.symm hne)]
  | cons p t ih => rw [List.cons_append, lk, lk, ih]

theorem lookup_setAttr_ne (d : Attrs) (k v k' : String) (hne : k ≠ k') :
    (setAttr d k v).lookup k' = d.lookup k' := by
  unfold setAttr
  split
  · exact lookup_map_other d k v k' hne
  · exact lookup_append_other d k v k' hne

theorem no_key_of_lookup_none (t : Attrs) (k : String) (h : t.lookup k = none) : ∀ r ∈ t, r.1 ≠ k := by
  induction t with
  | nil => intro r hr; cases hr
  | cons x xs ih =>
    rw [lk] at h
    cases hkx : (k == x.1) with
    | true => rw [hkx] at h; simp at h
    | false =>
      rw [hkx] at h
      simp only [Bool.false_eq_true, if_false] at h
      intro r hr
      rcases List.mem_cons.1 hr with rfl | hr'
      · intro e; rw [e] at hkx; simp at hkx
      · exact ih h r hr'

/-- entries of `setAttr d k v` with key `k` all have value `v` -/
theorem mem_setAttr_key (d : Attrs) (k v w : String) (h : (k, w) ∈ setAttr d k v) : w = v := by
  unfold setAttr at h
  split at h
  · rw [List.mem_map] at h
    obtain ⟨p, _, hp⟩ := h
    by_cases hk : (p.1 == k) = true
    · simp only [hk, if_true, Prod.mk.injEq] at hp; exact hp.2.symm
    · simp only [hk, Bool.false_eq_true, if_false] at hp
      exfalso; apply hk; rw [hp]; simp
  · rename_i hn
    rw [List.mem_append] at h
    cases h with
    | inl h =>
      exfalso; apply hn
      exact List.any_eq_true.mpr ⟨(k, w), h, by simp⟩
    | inr h => simp at h; exact h

theorem mem_setAttr_other (d : Attrs) (k v k' w : String) (hne : k ≠ k') (h : (k', w) ∈ setAttr d k v) :
    (k', w) ∈ d := by
  unfold setAttr at h
  split at h
  · rw [List.mem_map] at h
    obtain ⟨p, hp, he⟩ := h
    by_cases hk : (p.1 == k) = true
    · simp only [hk, if_true, Prod.mk.injEq] at he; exact absurd he.1 hne
    · simp only [hk, Bool.false_eq_true, if_false] at he; rw [← he]; exact hp
  · rw [List.mem_append] at h
    cases h with
    | inl h => exact h
    | inr h => simp at h; exact absurd h.1.symm hne

/-- the attribute `k` is present with value `v`, and no entry says otherwise -/
def Has (k v : String) (d : Attrs) : Prop := d.lookup k = some v ∧ ∀ w, (k, w) ∈ d → w = v

theorem has_setAttr (d : Attrs) (k v : String) : Has k v (setAttr d k v) :=
  ⟨lookup_setAttr_eq d k v, fun w h => mem_setAttr_key d k v w h⟩

theorem has_setAttr_other (d : Attrs) (k v k' v' : String) (hne : k' ≠ k) (h : Has k v d) :
    Has k v (setAttr d k' v') :=
  ⟨by rw [lookup_setAttr_ne _ _ _ _ hne]; exact h.1, fun w hw => h.2 w (mem_setAttr_other d k' v' k w hne hw)⟩

theorem lookup_updAttrs_none (d new : Attrs) (k : String) (h : ∀ p ∈ new, p.1 ≠ k) :
    (updAttrs d new).lookup k = d.lookup k := by
  unfold updAttrs
  induction new generalizing d with
  | nil => rfl
  | cons p t ih =>
    simp only [List.foldl_cons]
    rw [ih _ (fun q hq => h q (by simp [hq])), lookup_setAttr_ne _ _ _ _ (h p (by simp))]

theorem mem_of_lookup_attr {d : Attrs} {k v : String} (h : d.lookup k = some v) : (k, v) ∈ d := by
  induction d with
  | nil => simp [List.lookup] at h
  | cons p t ih =>
    rw [lk] at h
    cases hk : (k == p.1) with
    | true =>
      rw [hk] at h
      have e : k = p.1 := by simpa using hk
      simp only [if_true, Option.some.injEq] at h
      rw [e, ← h]; simp
    | false =>
      rw [hk] at h
      simp only [Bool.false_eq_true, if_false] at h
      exact List.mem_cons_of_mem _ (ih h)

/-- `d.update(new)` where `new` says `k = v`: afterwards `k = v` -/
theorem lookup_updAttrs_has (d new : Attrs) (k v : String) (h : Has k v new) :
    (updAttrs d new).lookup k = some v := by
  induction new generalizing d with
  | nil => simp [Has, List.lookup] at h
  | cons p t ih =>
    have hstep : updAttrs d (p :: t) = updAttrs (setAttr d p.1 p.2) t := by simp [updAttrs]
    rw [hstep]
    by_cases hex : ∃ q ∈ t, q.1 = k
    · -- a later entry decides
      obtain ⟨q, hq, hqk⟩ := hex
      have hq' : (k, q.2) ∈ t := by rw [← hqk]; exact hq
      have hall : ∀ w, (k, w) ∈ t → w = v := fun w hw => h.2 w (List.mem_cons_of_mem _ hw)
      have hlk : t.lookup k = some v := by
        cases hl : t.lookup k with
        | none => exact absurd hqk (no_key_of_lookup_none t k hl q hq)
        | some w => rw [hall w (mem_of_lookup_attr hl)]
      exact ih _ ⟨hlk, hall⟩
    · have hno : ∀ q ∈ t, q.1 ≠ k := fun q hq e => hex ⟨q, hq, e⟩
      rw [lookup_updAttrs_none _ _ _ hno]
      have hpk : p.1 = k := by
        have := h.1
        rw [lk] at this
        cases hk : (k == p.1) with
        | true => exact (by simpa using hk : k = p.1).symm
        | false =>
          rw [hk] at this
          simp only [Bool.false_eq_true, if_false] at this
          have := mem_of_lookup_attr this
          exact absurd rfl (hno _ this)
      have hpv : p.2 = v := h.2 p.2 (by rw [← hpk]; simp)
      rw [hpk, hpv]
      exact lookup_setAttr_eq _ _ _

theorem has_refAttrs (a : Atom) (k v : String) (hk : k ≠ "resid") (h : Has k v a.attrs) : Has k v (refAttrs a) := by
  unfold refAttrs
  constructor
  · have h1 := h.1
    generalize a.attrs = d at h1
    induction d with
    | nil => simp [List.lookup] at h1
    | cons p t ih =>
      rw [lk] at h1
      cases hkp : (k == p.1) with
      | true =>
        rw [hkp] at h1
        have e : k = p.1 := by simpa using hkp
        have hne : (p.1 != "resid") = true := by rw [← e]; simpa using hk
        rw [List.filter_cons, if_pos hne, lk, hkp]; exact h1
      | false =>
        rw [hkp] at h1
        simp only [Bool.false_eq_true, if_false] at h1
        by_cases hne : (p.1 != "resid") = true
        · rw [List.filter_cons, if_pos hne, lk, hkp]
          simp only [Bool.false_eq_true, if_false]; exact ih h1
        · rw [List.filter_cons, if_neg hne]; exact ih h1
  · intro w hw; exact h.2 w (List.mem_filter.1 hw).1

/-! ### the reference -/

def names (b : Block) : List String := b.nodes.map (·.name)

theorem renumber_names (n : Nat) (l : List Atom) : (renumber n l).map (·.name) = l.map (·.name) := by
  induction l generalizing n with
  | nil => rfl
  | cons a t ih => simp [renumber, ih]

theorem renumber_ptm (n : Nat) (l : List Atom) : (renumber n l).map (·.ptm) = l.map (·.ptm) := by
  induction l generalizing n with
  | nil => rfl
  | cons a t ih => simp [renumber, ih]

theorem patch_names (b md b' : Block) (h : patchModification b md = some b') :
    names b' = names b ++ (newAtoms md).map (·.name) := by
  unfold patchModification at h
  cases ha : anchorMap b md with
  | none => simp [ha] at h
  | some am =>
    simp only [ha, Option.some.injEq] at h
    subst h
    simp [names, renumber_names]

theorem patch_prefix (b md b' : Block) (h : patchModification b md = some b') :
    ∃ added, b'.nodes = b.nodes ++ added ∧ ∀ a ∈ added, a.ptm = some true := by
  unfold patchModification at h
  cases ha : anchorMap b md with
  | none => simp [ha] at h
  | some am =>
    simp only [ha, Option.some.injEq] at h
    subst h
    refine ⟨_, rfl, ?_⟩
    intro a hm
    have : a.ptm ∈ (renumber b.nodes.length (newAtoms md)).map (·.ptm) := List.mem_map.2 ⟨a, hm, rfl⟩
    rw [renumber_ptm] at this
    obtain ⟨x, hx, e⟩ := List.mem_map.1 this
    have := (List.mem_filter.1 hx).2
    unfold isNew at this
    rw [← e]; simpa using this

/-- names the requested modifications add, in request order -/
def addedNames (ff : FF) (ms : List String) : List String :=
  (ms.filter (· != "none")).flatMap fun n =>
    match ff.mods.lookup n with
    | some md => (newAtoms md).map (·.name)
    | none => []

theorem applyMods_names (ff : FF) (ms : List String) (b b' : Block) (h : applyMods ff ms b = .ok b') :
    names b' = names b ++ addedNames ff ms ∧
    ∃ added, b'.nodes = b.nodes ++ added ∧ ∀ a ∈ added, a.ptm = some true := by
  induction ms generalizing b with
  | nil =>
    simp only [applyMods, Except.ok.injEq] at h
    subst h
    exact ⟨by simp [addedNames], [], by simp, by simp⟩
  | cons n rest ih =>
    unfold applyMods at h
    by_cases hn : n = "none"
    · rw [if_pos hn] at h
      obtain ⟨h1, h2⟩ := ih b h
      refine ⟨?_, h2⟩
      rw [h1]; simp [addedNames, hn, List.filter_cons]
    · rw [if_neg hn] at h
      cases hl : ff.mods.lookup n with
      | none => simp [hl] at h
      | some md =>
        simp only [hl] at h
        cases hp : patchModification b md with
        | none => simp [hp] at h
        | some b1 =>
          simp only [hp] at h
          obtain ⟨h1, added2, h2, h3⟩ := ih b1 h
          obtain ⟨added1, h4, h5⟩ := patch_prefix b md b1 hp
          refine ⟨?_, added1 ++ added2, by rw [h2, h4, List.append_assoc], ?_⟩
          · rw [h1, patch_names b md b1 hp]
            have hne : (n != "none") = true := by simpa using hn
            simp [addedNames, List.filter_cons, hne, hl]
          · intro a ha
            rcases List.mem_append.1 ha with ha | ha
            · exact h5 a ha
            · exact h3 a ha

theorem setAll_names (b : Block) (k v : String) : names (setAll b k v) = names b := by
  simp [names, setAll, List.map_map, Function.comp]

theorem setAll_shape (b : Block) (k v : String) :
    (setAll b k v).nodes.map (fun a => (a.key, a.name, a.elem, a.ptm)) = b.nodes.map (fun a => (a.key, a.name, a.elem, a.ptm)) := by
  simp [setAll, List.map_map, Function.comp]

theorem setAll_has (b : Block) (k v : String) : ∀ a ∈ (setAll b k v).nodes, Has k v a.attrs := by
  intro a ha
  simp only [setAll, List.mem_map] at ha
  obtain ⟨x, _, rfl⟩ := ha
  exact has_setAttr _ _ _

theorem setAll_has_other (b : Block) (k v k' v' : String) (hne : k' ≠ k) (h : ∀ a ∈ b.nodes, Has k v a.attrs) :
    ∀ a ∈ (setAll b k' v').nodes, Has k v a.attrs := by
  intro a ha
  simp only [setAll, List.mem_map] at ha
  obtain ⟨x, hx, rfl⟩ := ha
  exact has_setAttr_other _ _ _ _ _ hne (h x hx)

def shape (a : Atom) : String × Option Bool := (a.name, a.ptm)

theorem setAll_shapes (b : Block) (k v : String) : (setAll b k v).nodes.map shape = b.nodes.map shape := by
  simp [setAll, List.map_map, Function.comp, shape]

/-- the attribute loops at the end of `_get_reference_residue` do not touch names or flags -/
theorem finish_shapes (ra : Bool) (name : String) (mu : Option (List String)) (b1 b2 : Block)
    (hb2 : b2.nodes.map shape = b1.nodes.map shape) (r : Block)
    (hr : (match mu with
      | some (_ :: _) => Except.ok (if ra = true then setAll (setAll b2 "mutation" (pyStr name)) "resname" (pyStr name)
                                     else setAll b2 "mutation" (pyStr name))
      | _ => Except.ok b2) = (Except.ok r : Except RefErr Block)) : r.nodes.map shape = b1.nodes.map shape := by
  cases mu with
  | none => simp only [Except.ok.injEq] at hr; rw [← hr]; exact hb2
  | some l =>
    cases l with
    | nil => simp only [Except.ok.injEq] at hr; rw [← hr]; exact hb2
    | cons t rest =>
      simp only [Except.ok.injEq] at hr
      rw [← hr]
      cases ra <;> simp [setAll_shapes, hb2]

/-- what the reference is made of -/
theorem getReference_spec (ra : Bool) (ff : FF) (rn : String) (mu mods : Option (List String)) (ref : Block)
    (h : getReferenceGen ra ff rn mu mods = .ok ref) :
    ∃ name b0 added, targetName rn mu = .ok name ∧ ff.blocks.lookup name = some b0 ∧
      ref.nodes.map shape = (b0.nodes ++ added).map shape ∧ (∀ a ∈ added, a.ptm = some true) ∧
      added.map (·.name) = addedNames ff (dedupReq (mods.getD [])) := by
  unfold getReferenceGen at h
  cases ht : targetName rn mu with
  | error e => simp [ht] at h
  | ok name =>
    simp only [ht] at h
    cases hb : ff.blocks.lookup name with
    | none => simp [hb] at h
    | some b0 =>
      simp only [hb] at h
      cases ha : applyMods ff (dedupReq (mods.getD [])) b0 with
      | error e => simp [ha] at h
      | ok b1 =>
        simp only [ha] at h
        obtain ⟨hn, added, hnodes, hptm⟩ := applyMods_names ff _ b0 b1 ha
        have hadded : added.map (·.name) = addedNames ff (dedupReq (mods.getD [])) := by
          have : names b1 = names b0 ++ added.map (·.name) := by simp [names, hnodes]
          rw [this] at hn
          exact List.append_cancel_left hn
        have hshape : b1.nodes.map shape = (b0.nodes ++ added).map shape := by rw [hnodes]
        refine ⟨name, b0, added, rfl, hb, ?_, hptm, hadded⟩
        rw [← hshape]
        cases mods with
        | none => simp only at h; exact finish_shapes ra name mu b1 b1 rfl ref h
        | some ms =>
          simp only at h
          exact finish_shapes ra name mu b1 (setAll b1 "modification" (pyList ms)) (setAll_shapes _ _ _) ref h

/-- after the fix for F-C19-2: every atom of the reference of a mutated residue says the new name -/
theorem getReference_resname (ff : FF) (rn t : String) (rest : List String) (mods : Option (List String)) (ref : Block)
    (h : getReference ff rn (some (t :: rest)) mods = .ok ref) :
    ∀ a ∈ ref.nodes, Has "resname" (pyStr t) a.attrs := by
  unfold getReference getReferenceGen at h
  cases ht : targetName rn (some (t :: rest)) with
  | error e => simp [ht] at h
  | ok name =>
    have hname : name = t := by
      simp only [targetName] at ht
      split at ht
      · cases ht; rfl
      · cases ht
    subst hname
    simp only [ht] at h
    cases hb : ff.blocks.lookup name with
    | none => simp [hb] at h
    | some b0 =>
      simp only [hb] at h
      cases ha : applyMods ff (dedupReq (mods.getD [])) b0 with
      | error e => simp [ha] at h
      | ok b1 =>
        simp only [ha, if_true, Except.ok.injEq] at h
        rw [← h]
        exact setAll_has _ _ _

/-! ### an attribute of all reference atoms reaches every atom that plays one -/

theorem canonFn_attrs (M : Iso.Map) (rs : List Atom) (a : Atom) (r0 : Atom) (h0 : r0 ∈ rs)
    (hnd : (rs.map (·.key)).Nodup) (hl0 : M.lookup r0.key = some a.key)
    (hinj : ∀ r ∈ rs, M.lookup r.key = some a.key → r.key = r0.key) :
    (canonFn M rs a).attrs = updAttrs a.attrs (refAttrs r0) := by
  induction rs generalizing a with
  | nil => cases h0
  | cons r rs ih =>
    simp only [canonFn]
    have hnd' : r.key ∉ rs.map (·.key) ∧ (rs.map (·.key)).Nodup := List.nodup_cons.1 hnd
    by_cases hr : r.key = r0.key
    · have hrr : r = r0 := by
        rcases List.mem_cons.1 h0 with e | h0'
        · exact e.symm
        · exfalso; apply hnd'.1; rw [hr]; exact List.mem_map.2 ⟨r0, h0', rfl⟩
      subst hrr
      rw [hl0]
      simp only [if_true]
      rw [canonFn_untouched]
      · rfl
      · intro r' hr' hl'
        have hk : (canonAtom a r).key = a.key := rfl
        rw [hk] at hl'
        have := hinj r' (List.mem_cons_of_mem _ hr') hl'
        apply hnd'.1; rw [← this]; exact List.mem_map.2 ⟨r', hr', rfl⟩
    · have h0' : r0 ∈ rs := by
        rcases List.mem_cons.1 h0 with e | h0'
        · exact absurd (by rw [e]) hr
        · exact h0'
      cases hl : M.lookup r.key with
      | none => exact ih a h0' hnd'.2 hl0 (fun r' hr' => hinj r' (List.mem_cons_of_mem _ hr'))
      | some k =>
        simp only []
        rw [if_neg (by intro e; apply hr; apply hinj r (by simp); rw [hl, e])]
        exact ih a h0' hnd'.2 hl0 (fun r' hr' => hinj r' (List.mem_cons_of_mem _ hr'))

def Carries (k v : String) (st : RState) : Prop :=
  ∀ p ∈ st.mtch, ∃ a ∈ st.nodes, a.key = p.2 ∧ a.attrs.lookup k = some v

theorem carries_start (m : Mol) (R : Residue) (h : WF m R) (k v : String) (hk : k ≠ "resid")
    (href : ∀ a ∈ R.block.nodes, Has k v a.attrs) : Carries k v (startState m R) := by
  obtain ⟨hb, hm, hdn, hrn, hds, hrs, hfs⟩ := h
  intro p hp
  have hp' : p ∈ R.mtch := hp
  obtain ⟨ref, _, hkey, hmem⟩ := find_of_mem_keys (hds p.1 (mem_dom_of_mem hp'))
  have hkm : p.2 ∈ m.keys := hfs _ (hrs _ (mem_ran_of_mem hp'))
  obtain ⟨a0, ha0, hka0⟩ := List.mem_map.1 hkm
  have hl0 : R.mtch.lookup ref.key = some a0.key := by
    rw [hkey, hka0]; exact Iso.lookup_of_mem hdn hp'
  have hattrs := canonFn_attrs R.mtch R.block.nodes a0 ref hmem hb hl0 (by
    intro r' _ hl'
    exact fst_eq_of_snd_nodup hrn (mem_of_lookup hl') (mem_of_lookup hl0))
  refine ⟨canonFn R.mtch R.block.nodes a0, ?_, ?_, ?_⟩
  · show _ ∈ canonicalise R.block R.mtch m.nodes
    rw [canonicalise_eq_map]; exact List.mem_map.2 ⟨a0, ha0, rfl⟩
  · rw [canonFn_key]; exact hka0
  · rw [hattrs]
    exact lookup_updAttrs_has _ _ _ _ (has_refAttrs ref k v hk (href ref hmem))

theorem carries_step (R : Residue) (st : RState) (r : Int) (k v : String) (hk : k ≠ "resid") (hk2 : k ≠ "atomid")
    (href : ∀ a ∈ R.block.nodes, Has k v a.attrs) (h : Carries k v st) : Carries k v (addAtom R st r) := by
  unfold addAtom
  cases hf : R.block.nodes.find? (fun a => a.key = r) with
  | none => exact h
  | some ref =>
    simp only
    have hmem : ref ∈ R.block.nodes := List.mem_of_find?_eq_some hf
    intro p hp
    simp only at hp
    rcases List.mem_append.1 hp with hp | hp
    · obtain ⟨a, ha, hka, hl⟩ := h p hp
      exact ⟨a, List.mem_append_left _ ha, hka, hl⟩
    · simp only [List.mem_singleton] at hp
      subst hp
      refine ⟨_, List.mem_append_right _ (List.mem_singleton.2 rfl), rfl, ?_⟩
      simp only [newAtom]
      rw [lookup_setAttr_ne _ _ _ _ (Ne.symm hk2)]
      exact lookup_updAttrs_has _ _ _ _ (has_refAttrs ref k v hk (href ref hmem))

theorem carries_final (m : Mol) (R : Residue) (h : WF m R) (k v : String) (hk : k ≠ "resid") (hk2 : k ≠ "atomid")
    (href : ∀ a ∈ R.block.nodes, Has k v a.attrs) : Carries k v (rebuilt m R).2 := by
  have := rebuild_induct R
    (fun cur st => Inv R (canonicalise R.block R.mtch m.nodes) m.edges cur st ∧ Carries k v st)
    (fun _ _ hi => hi.1.nd)
    (fun cur st r hi hr _ => ⟨inv_step R _ _ cur st r hi.1 hr, carries_step R st r k v hk hk2 href hi.2⟩)
    ((missing0 R.block R.mtch).length + 1) (missing0 R.block R.mtch) (startState m R)
    ⟨inv_start m R h, carries_start m R h k v hk href⟩
  exact this.2

/-- every atom that plays a block atom after the repair carries the attribute all reference atoms agree on -/
theorem attr_reaches_all (m : Mol) (R : Residue) (h : WF m R) (k v : String) (hk : k ≠ "resid") (hk2 : k ≠ "atomid")
    (href : ∀ a ∈ R.block.nodes, Has k v a.attrs) :
    ∀ p ∈ (repairResidue m R).mtch, ∃ a ∈ (repairResidue m R).mol.nodes, a.key = p.2 ∧ a.attrs.lookup k = some v := by
  intro p hp
  have hp' : p ∈ (rebuilt m R).2.mtch := hp
  obtain ⟨a, ha, hka, hl⟩ := carries_final m R h k v hk hk2 href p hp'
  refine ⟨a, ?_, hka, hl⟩
  rw [repairResidue_mol]
  apply flagExtra_keep _ ha
  unfold extraAtoms
  intro hc
  have := (List.mem_filter.1 hc).2
  simp only [Bool.not_eq_true', List.contains_eq_mem, decide_eq_false_iff_not] at this
  exact this (by rw [hka]; exact mem_ran_of_mem hp')

/-! ### the removal rule -/

theorem requested_flagAtom (extra : List Int) (a : Atom) : requested (flagAtom extra a) = requested a := by
  unfold flagAtom; split <;> rfl

/-- an atom of the residue outside the match is still the input atom when the flags are set -/
theorem extra_atom_in_state (m : Mol) (R : Residue) (h : WF m R) (a0 : Atom) (ha0 : a0 ∈ m.nodes)
    (hn : a0.key ∉ ran R.mtch) : a0 ∈ (rebuilt m R).2.nodes := by
  obtain ⟨new, hnew⟩ := (inv_final m R h).next
  rw [hnew]
  apply List.mem_append_left
  rw [canonicalise_eq_map]
  exact List.mem_map.2 ⟨a0, ha0, canonFn_not_ran _ _ _ hn⟩

theorem extra_deleted (m : Mol) (R : Residue) (h : WF m R) (a0 : Atom) (ha0 : a0 ∈ m.nodes)
    (hf : a0.key ∈ R.found) (hn : a0.key ∉ ran R.mtch) (hreq : requested a0 = true) :
    a0.key ∉ (repairResidue m R).mol.keys := by
  have hex : a0.key ∈ extraAtoms R.found (rebuilt m R).2.mtch :=
    (extra_final_iff m R h a0.key).2 ⟨hf, hn⟩
  have hst := extra_atom_in_state m R h a0 ha0 hn
  have hgone : a0.key ∈ goneKeys (extraAtoms R.found (rebuilt m R).2.mtch) (rebuilt m R).2.nodes := by
    unfold goneKeys
    refine List.mem_map.2 ⟨flagAtom _ a0, List.mem_filter.2 ⟨List.mem_map.2 ⟨a0, hst, rfl⟩, ?_⟩, flagAtom_key _ _⟩
    rw [flagAtom_key, requested_flagAtom, hreq]
    simpa using hex
  intro hk
  rw [repairResidue_mol] at hk
  obtain ⟨b, hb, hbk⟩ := List.mem_map.1 hk
  rw [flagExtra_nodes] at hb
  have := (List.mem_filter.1 hb).2
  simp only [Bool.not_eq_true', List.contains_eq_mem, decide_eq_false_iff_not] at this
  exact this (by rw [hbk]; exact hgone)

theorem extra_kept (m : Mol) (R : Residue) (h : WF m R) (a0 : Atom) (ha0 : a0 ∈ m.nodes)
    (hf : a0.key ∈ R.found) (hn : a0.key ∉ ran R.mtch) (hreq : requested a0 = false) :
    ∃ a ∈ (repairResidue m R).mol.nodes, a.key = a0.key ∧ a.ptm = some true ∧ a.name = a0.name ∧ a.attrs = a0.attrs := by
  have hex : a0.key ∈ extraAtoms R.found (rebuilt m R).2.mtch :=
    (extra_final_iff m R h a0.key).2 ⟨hf, hn⟩
  have hst := extra_atom_in_state m R h a0 ha0 hn
  have hnd := (inv_final m R h).keysNd
  have hnot : a0.key ∉ goneKeys (extraAtoms R.found (rebuilt m R).2.mtch) (rebuilt m R).2.nodes := by
    intro hg
    unfold goneKeys at hg
    obtain ⟨b, hb, hbk⟩ := List.mem_map.1 hg
    obtain ⟨hb1, hb2⟩ := List.mem_filter.1 hb
    obtain ⟨b0, hb0, rfl⟩ := List.mem_map.1 hb1
    rw [flagAtom_key] at hbk
    have : b0 = a0 := inj_of_nodup_map hnd hb0 hst hbk
    subst this
    rw [requested_flagAtom, hreq] at hb2
    simp at hb2
  refine ⟨flagAtom (extraAtoms R.found (rebuilt m R).2.mtch) a0, ?_, flagAtom_key _ _, ?_, ?_, ?_⟩
  · rw [repairResidue_mol, flagExtra_nodes]
    refine List.mem_filter.2 ⟨List.mem_map.2 ⟨a0, hst, rfl⟩, ?_⟩
    rw [flagAtom_key]
    simpa using hnot
  all_goals (unfold flagAtom; rw [if_pos (by simpa using hex)])

end C19.Repair
