import VermouthModel.C17_Residues
import VermouthProofs.C17_Annot
/-!
C17 helper lemmas, part 6: the residue partition as the code computes it (`collect_residues` dict of
sets, `sorted(partitions, key=min)`, `sorted(residue_graph.nodes)`, set iteration order) equals the
specification `residues` used by the earlier theorems.
-/
namespace C17

/-! ### `dedup`, `resIds`, `keysOf` when a node is appended -/

theorem dedup_snoc (l : List Nat) (x : Nat) :
    dedup (l ++ [x]) = if x ∈ l then dedup l else dedup l ++ [x] := by
  induction l with
  | nil => simp [dedup]
  | cons y l ih =>
    have h1 : dedup (y :: l ++ [x]) = y :: (dedup (l ++ [x])).filter (fun z => z != y) := rfl
    have h2 : dedup (y :: l) = y :: (dedup l).filter (fun z => z != y) := rfl
    rw [h1, h2, ih]
    by_cases hxl : x ∈ l
    · simp [hxl]
    · by_cases hxy : x = y
      · subst hxy; simp [hxl]
      · simp [hxl, hxy]

theorem resIds_snoc (m : Mol) (a : Atom) :
    resIds (m ++ [a]) = if a.res ∈ resIds m then resIds m else resIds m ++ [a.res] := by
  unfold resIds
  rw [List.map_append, List.map_singleton, dedup_snoc]
  simp only [mem_dedup]

theorem keysOf_snoc (m : Mol) (a : Atom) (r : Nat) :
    keysOf (m ++ [a]) r = if a.res = r then keysOf m r ++ [a.key] else keysOf m r := by
  unfold keysOf
  by_cases h : a.res = r <;> simp [List.filter_append, h]

theorem keysOf_nil_of_not_mem (m : Mol) (r : Nat) (h : r ∉ resIds m) : keysOf m r = [] := by
  unfold keysOf
  rw [List.map_eq_nil_iff, List.filter_eq_nil_iff]
  intro a ha hr
  apply h
  unfold resIds
  rw [mem_dedup]
  exact List.mem_map.mpr ⟨a, ha, by simpa using hr⟩

/-! ### `collect_residues` -/

theorem dictAdd_map (rs : List Nat) (F : Nat → List Int) (r0 : Nat) (k : Int) (hn : rs.Nodup) :
    dictAdd (rs.map fun r => (r, F r)) r0 k =
      if r0 ∈ rs then rs.map fun r => (r, if r = r0 then F r ++ [k] else F r)
      else rs.map (fun r => (r, F r)) ++ [(r0, [k])] := by
  induction rs with
  | nil => simp [dictAdd]
  | cons r rs ih =>
    have hn' := List.nodup_cons.mp hn
    have hstep : dictAdd ((r :: rs).map fun r => (r, F r)) r0 k
        = if r = r0 then (r, F r ++ [k]) :: rs.map (fun r => (r, F r))
          else (r, F r) :: dictAdd (rs.map fun r => (r, F r)) r0 k := rfl
    rw [hstep]
    by_cases h : r = r0
    · subst h
      have hnot : ∀ x ∈ rs, ¬ x = r := fun x hx e => hn'.1 (e ▸ hx)
      simp only [if_true, List.mem_cons, true_or, List.map_cons]
      congr 1
      apply List.map_congr_left
      intro x hx
      simp [hnot x hx]
    · rw [if_neg h, ih hn'.2]
      have h' : ¬ r0 = r := fun e => h e.symm
      by_cases hm : r0 ∈ rs
      · simp [hm, h]
      · simp [hm, h']

/-- the dict built by `collect_residues`, as a function of the molecule -/
def collected (m : Mol) : List (Nat × List Int) := (resIds m).map fun r => (r, keysOf m r)

theorem dictAdd_collected (m : Mol) (a : Atom) :
    dictAdd (collected m) a.res a.key = collected (m ++ [a]) := by
  unfold collected
  have hn : (resIds m).Nodup := dedup_nodup _
  rw [dictAdd_map _ _ _ _ hn, resIds_snoc]
  by_cases h : a.res ∈ resIds m
  · rw [if_pos h, if_pos h]
    apply List.map_congr_left
    intro r _
    rw [keysOf_snoc]
    by_cases e : r = a.res
    · subst e; simp
    · have e' : ¬ a.res = r := fun x => e x.symm
      simp [e, e']
  · rw [if_neg h, if_neg h, List.map_append, List.map_singleton]
    congr 1
    · apply List.map_congr_left
      intro r hr
      rw [keysOf_snoc]
      have e' : ¬ a.res = r := fun x => h (x ▸ hr)
      simp [e']
    · rw [keysOf_snoc, keysOf_nil_of_not_mem m a.res h]; simp

theorem collect_fold (pre m : Mol) :
    m.foldl (fun d a => dictAdd d a.res a.key) (collected pre) = collected (pre ++ m) := by
  induction m generalizing pre with
  | nil => simp
  | cons a m ih =>
    rw [List.foldl_cons, dictAdd_collected, ih]
    simp

/-- **`collect_residues`**: the keys of the dict are the residue identities in order of first
appearance, the value of a key is the set of the node keys with that identity -/
theorem collectResidues_eq (m : Mol) : collectResidues m = collected m := by
  have := collect_fold [] m
  simpa [collectResidues, collected, resIds, dedup, keysOf] using this

/-! ### `sorted(partitions, key=min)` -/

theorem minKey_eq_pyMin (m : Mol) (r : Nat) : minKey m r = pyMin (keysOf m r) := by
  unfold minKey pyMin
  cases keysOf m r <;> rfl

theorem insertPart_map (m : Mol) (r : Nat) (l : List Nat) :
    insertPart (r, keysOf m r) (l.map fun r => (r, keysOf m r))
      = (insertRes m r l).map fun r => (r, keysOf m r) := by
  induction l with
  | nil => rfl
  | cons x xs ih =>
    have h1 : insertPart (r, keysOf m r) ((x :: xs).map fun r => (r, keysOf m r))
        = if pyMin (keysOf m r) ≤ pyMin (keysOf m x)
          then (r, keysOf m r) :: (x, keysOf m x) :: xs.map (fun r => (r, keysOf m r))
          else (x, keysOf m x) :: insertPart (r, keysOf m r) (xs.map fun r => (r, keysOf m r)) := rfl
    have h2 : insertRes m r (x :: xs)
        = if minKey m r ≤ minKey m x then r :: x :: xs else x :: insertRes m r xs := rfl
    rw [h1, h2, ih, ← minKey_eq_pyMin, ← minKey_eq_pyMin]
    by_cases h : minKey m r ≤ minKey m x <;> simp [h]

theorem sortedParts_map (m : Mol) (rs : List Nat) :
    sortedParts (rs.map fun r => (r, keysOf m r))
      = (rs.foldr (insertRes m) []).map fun r => (r, keysOf m r) := by
  induction rs with
  | nil => rfl
  | cons r rs ih =>
    have : sortedParts ((r :: rs).map fun r => (r, keysOf m r))
        = insertPart (r, keysOf m r) (sortedParts (rs.map fun r => (r, keysOf m r))) := rfl
    rw [this, ih, insertPart_map]
    rfl

theorem sortedParts_collect (m : Mol) :
    sortedParts (collectResidues m) = (residues m).map fun r => (r, keysOf m r) := by
  rw [collectResidues_eq]
  exact sortedParts_map m (resIds m)

/-! ### `sorted(residue_graph.nodes)` -/

theorem sortNat_sorted (l : List Nat) (h : l.Pairwise (· ≤ ·)) : sortNat l = l := by
  induction l with
  | nil => rfl
  | cons x xs ih =>
    have hp := List.pairwise_cons.mp h
    have : sortNat (x :: xs) = insertNat x (sortNat xs) := rfl
    rw [this, ih hp.2]
    cases xs with
    | nil => rfl
    | cons y ys =>
      have : x ≤ y := hp.1 y (by simp)
      simp [insertNat, this]

theorem sortNat_range (n : Nat) : sortNat (List.range n) = List.range n := by
  apply sortNat_sorted
  have := List.pairwise_lt_range (n := n)
  exact this.imp (fun h => Nat.le_of_lt h)

theorem filterMap_range_getElem? {α β : Type} (l : List α) (g : α → β) :
    (List.range l.length).filterMap (fun i => l[i]?.map g) = l.map g := by
  induction l with
  | nil => rfl
  | cons x xs ih =>
    rw [List.length_cons, List.range_succ_eq_map, List.filterMap_cons]
    simp only [List.getElem?_cons_zero, Option.map_some, List.map_cons]
    rw [List.filterMap_map, ← ih]
    congr 1

/-- **`iter_residues`, as computed, is the specification**: residues in the order of `residues`
(grouped by identity, ordered by lowest key), every tuple being the set order of the node keys of
the residue -/
theorem iterResidues_eq (m : Mol) :
    iterResidues m = (residues m).map fun r => (r, setOrder (keysOf m r)) := by
  unfold iterResidues
  simp only
  rw [sortNat_range, filterMap_range_getElem?, sortedParts_collect, List.map_map]
  rfl

theorem setOrder_perm (ks : List Int) : (setOrder ks).Perm ks := by
  unfold setOrder
  simp only
  split
  · rename_i h; exact List.isPerm_iff.mp h
  · exact List.Perm.refl _

end C17
