import VermouthModel.C02_Repo
import VermouthProofs.C02_Good
/-!
C02 ∘ C13 — character level bridges between the two readers: `C13.stripComment`, `C13.tokenize`
(brace counting) and `C13.splitWs` on the characters of a line written by the C02 writer model
give the tokens `C02.lineTokens` of that line.  Core Lean only.
-/
namespace C02.Repo
open C02

theorem isWs_eq (c : Char) : C13.isWs c = C02.isWs c := by
  unfold C13.isWs C02.isWs
  by_cases h1 : c = ' ' <;> by_cases h2 : c = '\t' <;> by_cases h3 : c = '\n' <;>
    by_cases h4 : c = '\r' <;> simp [h1, h2, h3, h4]

theorem isWs_fun : C13.isWs = C02.isWs := funext isWs_eq

/-! ### `stripChars` -/

theorem dropWhile_append_last (p : Char → Bool) (l : List Char) (c : Char) (hc : p c = false) :
    (l ++ [c]).dropWhile p = l.dropWhile p ++ [c] := by
  induction l with
  | nil => simp [List.dropWhile, hc]
  | cons a t ih =>
    by_cases ha : p a = true
    · simp [List.dropWhile, ha, ih]
    · simp [List.dropWhile, ha]

theorem dropWhile_head_false (p : Char → Bool) (x : List Char) (c : Char) (r : List Char)
    (h : x.dropWhile p = c :: r) : p c = false := by
  induction x with
  | nil => simp at h
  | cons a t ih =>
    by_cases ha : p a = true
    · simp only [List.dropWhile, ha] at h; exact ih h
    · simp only [List.dropWhile, ha] at h
      simp only [List.cons.injEq] at h
      rw [← h.1]; simpa using ha

theorem stripChars_nil (p : Char → Bool) (x : List Char) (h : x.dropWhile p = []) :
    C13.stripChars p x = [] := by
  simp [C13.stripChars, h]

theorem stripChars_cons (p : Char → Bool) (x : List Char) (c : Char) (r : List Char)
    (h : x.dropWhile p = c :: r) : ∃ r', C13.stripChars p x = c :: r' := by
  have hc := dropWhile_head_false p x c r h
  refine ⟨(r.reverse.dropWhile p).reverse, ?_⟩
  simp only [C13.stripChars, h, List.reverse_cons]
  rw [dropWhile_append_last p _ c hc]
  simp

theorem stripChars_id (p : Char → Bool) (x : List Char) (a b : Char)
    (ha : x.head? = some a) (hpa : p a = false) (hb : x.getLast? = some b) (hpb : p b = false) :
    C13.stripChars p x = x := by
  cases x with
  | nil => simp at ha
  | cons c r =>
    simp only [List.head?_cons, Option.some.injEq] at ha
    subst ha
    have h1 : (c :: r).dropWhile p = c :: r := by simp [List.dropWhile, hpa]
    unfold C13.stripChars
    rw [h1]
    have h2 : ∃ l, (c :: r).reverse = b :: l := by
      have : (c :: r).reverse.head? = some b := by rw [List.head?_reverse]; exact hb
      cases hrev : (c :: r).reverse with
      | nil => rw [hrev] at this; simp at this
      | cons b' l => rw [hrev] at this; simp at this; exact ⟨l, by rw [this]⟩
    obtain ⟨l, hl⟩ := h2
    rw [hl]
    simp only [List.dropWhile, hpb]
    rw [← hl]; simp

theorem mem_stripChars (p : Char → Bool) (x : List Char) (c : Char) (h : c ∈ C13.stripChars p x) : c ∈ x := by
  unfold C13.stripChars at h
  rw [List.mem_reverse] at h
  have h1 := (List.dropWhile_sublist p).mem h
  rw [List.mem_reverse] at h1
  exact (List.dropWhile_sublist p).mem h1

/-! ### `stripChars isWs` does not change the tokens -/

theorem splitGo_dropWhile (x : List Char) : splitGo (x.dropWhile C02.isWs) [] = splitGo x [] := by
  induction x with
  | nil => rfl
  | cons a t ih =>
    by_cases ha : C02.isWs a = true
    · simp [List.dropWhile, ha, splitGo, ih]
    · simp [List.dropWhile, ha]

theorem splitGo_trailing (y w : List Char) (hw : ∀ c ∈ w, C02.isWs c = true) :
    ∀ cur, splitGo (y ++ w) cur = splitGo y cur := by
  induction y with
  | nil =>
    intro cur
    simp only [List.nil_append]
    induction w generalizing cur with
    | nil => rfl
    | cons a t ih =>
      have ha := hw a (by simp)
      simp only [splitGo, ha, if_true]
      by_cases hc : cur.isEmpty = true
      · simp only [hc, if_true]
        rw [ih (fun c hc' => hw c (by simp [hc'])) []]
        have : cur = [] := by simpa using hc
        subst this; rfl
      · simp only [hc, Bool.false_eq_true, if_false]
        rw [ih (fun c hc' => hw c (by simp [hc'])) []]
        simp [splitGo, hc]
  | cons a t ih =>
    intro cur
    simp only [List.cons_append, splitGo]
    split
    · split <;> rw [ih]
    · rw [ih]

theorem splitWs_strip (x : List Char) : splitWs (C13.stripChars C02.isWs x) = splitWs x := by
  unfold splitWs C13.stripChars
  rw [← splitGo_dropWhile x]
  generalize x.dropWhile C02.isWs = d
  have hd : d = (d.reverse.dropWhile C02.isWs).reverse ++ (d.reverse.takeWhile C02.isWs).reverse := by
    rw [← List.reverse_append, List.takeWhile_append_dropWhile, List.reverse_reverse]
  conv => rhs; rw [hd]
  rw [splitGo_trailing _ _ (by
    intro c hc
    rw [List.mem_reverse] at hc
    have hall := List.all_takeWhile (p := C02.isWs) (l := d.reverse)
    rw [List.all_eq_true] at hall
    exact hall c hc)]

theorem splitGo_cur_head (r : List Char) : ∀ cur, cur ≠ [] →
    ∃ t rest, splitGo r cur = t :: rest ∧ t.toList.head? = cur.getLast? := by
  induction r with
  | nil =>
    intro cur h
    refine ⟨String.ofList cur.reverse, [], ?_, ?_⟩
    · simp [splitGo, h]
    · simp [List.head?_reverse]
  | cons c cs ih =>
    intro cur h
    by_cases hc : C02.isWs c = true
    · refine ⟨String.ofList cur.reverse, splitGo cs [], ?_, ?_⟩
      · simp [splitGo, hc, h]
      · simp [List.head?_reverse]
    · obtain ⟨t, rest, h1, h2⟩ := ih (c :: cur) (by simp)
      refine ⟨t, rest, ?_, ?_⟩
      · simp [splitGo, hc, h1]
      · rw [h2]
        cases cur with
        | nil => exact absurd rfl h
        | cons a l => simp [List.getLast?_cons_cons]

/-- the stripped line is empty iff it has no token; otherwise it starts with the first character of
the first token -/
theorem strip_of_tokens (x : List Char) :
    (splitWs x = [] → C13.stripChars C02.isWs x = []) ∧
    (∀ t rest, splitWs x = t :: rest →
      ∃ c r, C13.stripChars C02.isWs x = c :: r ∧ t.toList.head? = some c) := by
  cases hd : x.dropWhile C02.isWs with
  | nil =>
    refine ⟨fun _ => stripChars_nil _ _ hd, ?_⟩
    intro t rest h
    unfold splitWs at h
    rw [← splitGo_dropWhile, hd] at h
    simp [splitGo] at h
  | cons c r =>
    have hc := dropWhile_head_false _ _ _ _ hd
    have hsplit : splitWs x = splitGo r [c] := by
      unfold splitWs
      rw [← splitGo_dropWhile, hd]
      simp [splitGo, hc]
    obtain ⟨t0, rest0, h1, h2⟩ := splitGo_cur_head r [c] (by simp)
    obtain ⟨r', hr'⟩ := stripChars_cons _ _ _ _ hd
    refine ⟨?_, ?_⟩
    · intro h; rw [hsplit, h1] at h; cases h
    · intro t rest h
      rw [hsplit, h1] at h
      simp only [List.cons.injEq] at h
      refine ⟨c, r', hr', ?_⟩
      rw [← h.1, h2]; rfl

/-! ### `C13.stripComment` in terms of `C02.stripComment` -/

theorem stripComment_eq (cs : List Char) :
    C13.stripComment cs = C13.stripChars C02.isWs (C02.stripComment cs) := by
  unfold C13.stripComment C02.stripComment
  rw [isWs_fun]
  have : (fun c : Char => decide (c ≠ ';')) = (fun c : Char => c != ';') := by
    funext c
    by_cases h : c = ';' <;> simp [h]
  rw [this]

theorem splitWs_stripComment (cs : List Char) :
    splitWs (C13.stripComment cs) = tokenizeChars cs := by
  rw [stripComment_eq, splitWs_strip]; rfl

/-! ### `C13.splitWs` = `C02.splitWs` -/

def splitStep (acc : List (List Char) × List Char) (c : Char) : List (List Char) × List Char :=
  if C02.isWs c then (if acc.2.isEmpty then acc.1 else acc.2.reverse :: acc.1, [])
  else (acc.1, c :: acc.2)

def splitDone (r : List (List Char) × List Char) : List String :=
  ((if r.2.isEmpty then r.1 else r.2.reverse :: r.1).reverse).map String.ofList

theorem splitWs13_fold (cs : List Char) : ∀ (acc : List (List Char)) (cur : List Char),
    splitDone (cs.foldl splitStep (acc, cur)) = acc.reverse.map String.ofList ++ splitGo cs cur := by
  induction cs with
  | nil =>
    intro acc cur
    simp only [List.foldl_nil, splitGo, splitDone]
    by_cases hc : cur.isEmpty = true <;> simp [hc]
  | cons c t ih =>
    intro acc cur
    simp only [List.foldl_cons, splitGo, splitStep]
    by_cases hw : C02.isWs c = true
    · simp only [hw, if_true]
      by_cases hc : cur.isEmpty = true
      · simp only [hc, if_true]; exact ih acc []
      · simp only [hc, Bool.false_eq_true, if_false]
        rw [ih (cur.reverse :: acc) []]
        simp
    · simp only [hw, Bool.false_eq_true, if_false]
      exact ih acc (c :: cur)

theorem splitWs13_eq (s : String) : C13.splitWs s = C02.splitWs s.toList := by
  have h := splitWs13_fold s.toList [] []
  have hf : (fun (acc : List (List Char) × List Char) c =>
      if C13.isWs c then (if acc.2.isEmpty then acc.1 else acc.2.reverse :: acc.1, [])
      else (acc.1, c :: acc.2)) = splitStep := by
    funext acc c
    simp only [splitStep, isWs_eq]
  unfold C13.splitWs
  simp only [hf]
  simpa [splitDone, C02.splitWs] using h

/-! ### `C13.tokenize` on brace-free characters -/

/-- a character that `_tokenize` treats as `str.split()` does -/
def CharPlain (c : Char) : Prop := c ≠ '$' ∧ c ≠ '{' ∧ c ≠ '}' ∧ C13.isSep c = C02.isWs c

theorem tok_fold (cs : List Char) (h : ∀ c ∈ cs, CharPlain c) :
    ∀ (done : List (List Char)) (cur : List Char),
    (C13.tokFinish (cs.foldl C13.tokStep
        { done := done, cur := if cur = [] then none else some cur, br := 0 })).map
      (fun l => l.map String.ofList)
      = some (done.reverse.map String.ofList ++ splitGo cs cur) := by
  induction cs with
  | nil =>
    intro done cur
    by_cases hc : cur = []
    · subst hc; simp [C13.tokFinish, splitGo]
    · simp [C13.tokFinish, C13.closeTok, splitGo, hc]
  | cons c t ih =>
    intro done cur
    obtain ⟨_, h1, h2, h3⟩ := h c (by simp)
    have iht := ih (fun x hx => h x (by simp [hx]))
    simp only [List.foldl_cons, splitGo]
    by_cases hc : cur = []
    · subst hc
      simp only [if_true, C13.tokStep, h3, h1, h2, if_false, List.isEmpty_nil]
      by_cases hw : C02.isWs c = true
      · simp only [hw, if_true]
        have := iht done []
        simpa using this
      · simp only [hw, Bool.false_eq_true, if_false]
        have := iht done [c]
        simpa using this
    · simp only [hc, if_false, C13.tokStep, h3, h1, h2]
      have hce : cur.isEmpty = false := by simpa using hc
      by_cases hw : C02.isWs c = true
      · simp only [hw, if_true, hce, Bool.false_eq_true, if_false, C13.closeTok]
        have := iht (cur.reverse :: done) []
        simpa using this
      · simp only [hw, Bool.false_eq_true, if_false]
        have := iht done (c :: cur)
        simpa using this

theorem tokenizeS_plain (cs : List Char) (h : ∀ c ∈ cs, CharPlain c) :
    C13.tokenizeS (String.ofList cs) = some (C02.splitWs cs) := by
  have := tok_fold cs h [] []
  simpa [C13.tokenizeS, C13.tokenize, C02.splitWs] using this

theorem charPlain_space : CharPlain ' ' := ⟨by decide, by decide, by decide, by decide⟩

theorem charPlain_of_notWs (c : Char) (h0 : c ≠ '$') (h1 : c ≠ '{') (h2 : c ≠ '}') (hw : C02.isWs c = false) :
    CharPlain c := by
  refine ⟨h0, h1, h2, ?_⟩
  rw [hw]
  simp only [C02.isWs, Bool.or_eq_false_iff, decide_eq_false_iff_not] at hw
  simp [C13.isSep, hw.1.1.1.1.1, hw.1.1.1.1.2, hw.1.1.2]

end C02.Repo
