import VermouthProps.C04
import VermouthProps.C04_Ref
import VermouthProofs.C04_Patch
/-!
# C04 — lemmas for the composed model (make_reference + repair) of one residue

1. what the order-free specification of a matcher answer gives in the vocabulary of `VermouthProps/C04.lean`
   (`spec_facts`, `wf_of_spec`), and its relation with the enumerating reference `allMCIS` of C06;
2. the graphs `make_reference` builds from a molecule are (isomorphic to) `resGraph` / `blockGraph`;
3. what a successful `refNode` returns (`refNode_spec`);
4. a repair leaves the atoms outside the residue alone (`repair_frame`).
-/
namespace C04.Ref
open Iso C04 C19.Repair

/-! ## 1. the specification of the matcher -/

theorem isMCIS_of_allMCIS {g sg : Graph} (hs : sg.keys.Nodup) {M : Map} (h : M ∈ allMCIS g sg) : IsMCIS g sg M := by
  obtain ⟨h1, h2, h3⟩ := C06.allMCIS_sound g sg hs M h
  have hnd : (dom M).Nodup := h1.nodup hs
  refine ⟨hnd, fun r hr => h1.subset hr, h2, ?_⟩
  intro S f hSn hSs hf
  -- reorder `S` into a sublist of the pattern nodes
  let S' := sg.keys.filter fun u => S.contains u
  have hS'sub : S'.Sublist sg.keys := List.filter_sublist
  have hS'nd : S'.Nodup := hS'sub.nodup hs
  have hmem : ∀ a, a ∈ S ↔ a ∈ S' := by
    intro a
    simp only [S', List.mem_filter, List.contains_eq_mem, decide_eq_true_eq]
    exact ⟨fun ha => ⟨hSs a ha, ha⟩, fun ha => ha.2⟩
  have hperm : S.Perm S' := (List.perm_ext_iff_of_nodup hSn hS'nd).2 hmem
  have hf' : IsIndIsoOn g sg (colourPred g sg) S' f :=
    ⟨fun u hu => hf.node u ((hmem u).2 hu), fun u hu v hv => hf.inj u ((hmem u).2 hu) v ((hmem v).2 hv),
     fun u hu v hv => hf.edge u ((hmem u).2 hu) v ((hmem v).2 hv)⟩
  have := C06.allMCIS_max g sg hs S' f hS'sub hf'
  rw [hperm.length_eq, h3]; exact this

/-- the size of an answer allowed by the order-free specification is the size announced by the
enumerating reference of C06 -/
theorem isMCIS_length {g sg : Graph} (hs : sg.keys.Nodup) {M : Map} (h : IsMCIS g sg M) : M.length = mcisSize g sg := by
  apply Nat.le_antisymm
  · let S' := sg.keys.filter fun u => (dom M).contains u
    have hS'sub : S'.Sublist sg.keys := List.filter_sublist
    have hS'nd : S'.Nodup := hS'sub.nodup hs
    have hmem : ∀ a, a ∈ dom M ↔ a ∈ S' := by
      intro a
      simp only [S', List.mem_filter, List.contains_eq_mem, decide_eq_true_eq]
      exact ⟨fun ha => ⟨h.domSub a ha, ha⟩, fun ha => ha.2⟩
    have hperm : (dom M).Perm S' := (List.perm_ext_iff_of_nodup h.domNd hS'nd).2 hmem
    have hf' : IsIndIsoOn g sg (colourPred g sg) S' (Map.toFun M) :=
      ⟨fun u hu => h.iso.node u ((hmem u).2 hu), fun u hu v hv => h.iso.inj u ((hmem u).2 hu) v ((hmem v).2 hv),
       fun u hu v hv => h.iso.edge u ((hmem u).2 hu) v ((hmem v).2 hv)⟩
    have := C06.allMCIS_max g sg hs S' (Map.toFun M) hS'sub hf'
    have hl : M.length = (dom M).length := by simp [dom]
    rw [hl, hperm.length_eq]; exact this
  · obtain ⟨M0, hM0⟩ := List.exists_mem_of_ne_nil _ (C06.allMCIS_ne_nil g sg)
    obtain ⟨h1, h2, h3⟩ := C06.allMCIS_sound g sg hs M0 hM0
    have := h.max (M0.map Prod.fst) (Map.toFun M0) (h1.nodup hs) (fun r hr => h1.subset hr) h2
    rw [← h3]; simpa using this

/-- what the specification says about a match, in the vocabulary of `VermouthProps/C04.lean` -/
theorem spec_facts (m : Mol) (R : Residue) (hB : R.block.keys.Nodup)
    (hM : IsMCIS (resGraph m R.found) (blockGraph R.block) R.mtch) :
    (dom R.mtch).Nodup ∧ (∀ r ∈ dom R.mtch, r ∈ R.block.keys) ∧ (ran R.mtch).Nodup
    ∧ (∀ k ∈ ran R.mtch, k ∈ R.found ∧ k ∈ m.keys)
    ∧ R.mtch.length = mcisSize (resGraph m R.found) (blockGraph R.block) := by
  have hs : (blockGraph R.block).keys.Nodup := by rw [blockGraph_keys]; exact hB
  refine ⟨hM.domNd, fun r hr => by have := hM.domSub r hr; rwa [blockGraph_keys] at this, ?_, ?_, isMCIS_length hs hM⟩
  · rw [ran_eq_map_toFun hM.domNd]; exact nodup_map_of_inj_on hM.domNd hM.iso.inj
  · intro k hk
    rw [ran_eq_map_toFun hM.domNd] at hk
    obtain ⟨u, hu, e⟩ := List.mem_map.1 hk
    have := (hM.iso.node u hu).1
    rw [e] at this
    exact (mem_resGraph_keys _ _ _).1 this

theorem wf_of_spec (m : Mol) (R : Residue) (hB : R.block.keys.Nodup) (hm : m.keys.Nodup)
    (hf : ∀ k ∈ R.found, k ∈ m.keys)
    (hM : IsMCIS (resGraph m R.found) (blockGraph R.block) R.mtch) : WF m R := by
  obtain ⟨h1, h2, h3, h4, _⟩ := spec_facts m R hB hM
  exact ⟨hB, hm, h1, h3, h2, fun k hk => (h4 k hk).1, hf⟩

/-! ## 2. the graphs `make_reference` builds -/

/-- no atom lacks an element (the integer code of `None` marks a missing `element` attribute) -/
def AllElems (atoms : List Atom) : Prop := ∀ a ∈ atoms, a.elem ≠ noneCode
instance (atoms : List Atom) : Decidable (AllElems atoms) := by unfold AllElems; infer_instance

theorem toRAtom_elem {a : Atom} (h : a.elem ≠ noneCode) : (toRAtom a).elem = some a.elem := by
  unfold toRAtom
  have : (a.elem == noneCode) = false := by simpa using h
  simp [this]

theorem addElements_id {l : List Atom} (h : AllElems l) : addElements (l.map toRAtom) = .ok (l.map toRAtom) := by
  induction l with
  | nil => rfl
  | cons a l ih =>
    have ha := h a (by simp)
    have hl : AllElems l := fun x hx => h x (List.mem_cons_of_mem _ hx)
    simp only [List.map_cons, addElements]
    have : addElement (toRAtom a) = .ok (toRAtom a) := by
      unfold addElement; rw [toRAtom_elem ha]
    rw [this, ih hl]

theorem guessElem_id {a : Atom} (h : a.elem ≠ noneCode) : guessElem a = a := by
  unfold guessElem
  have : addElement (toRAtom a) = .ok (toRAtom a) := by
    unfold addElement; rw [toRAtom_elem h]
  rw [this]; simp [toRAtom_elem h]

theorem graphOf_block (b : Block) (h : AllElems b.nodes) : graphOf (b.nodes.map toRAtom) b.edges = blockGraph b := by
  unfold graphOf blockGraph
  congr 1
  rw [List.map_map]
  apply List.map_congr_left
  intro a ha
  show ((toRAtom a).key, (toRAtom a).elem.getD (-1)) = (a.key, a.elem)
  rw [toRAtom_elem (h a ha)]; rfl

theorem find_key {m : Mol} {k : Int} (hk : k ∈ m.keys) : ∃ a ∈ m.nodes, (m.nodes.find? fun a => a.key == k) = some a ∧ a.key = k := by
  obtain ⟨a0, ha0, e⟩ := List.mem_map.1 hk
  have : ((m.nodes.find? fun a => a.key == k)).isSome = true := List.find?_isSome.2 ⟨a0, ha0, by simpa using e⟩
  cases hf : m.nodes.find? fun a => a.key == k with
  | none => rw [hf] at this; cases this
  | some a => exact ⟨a, List.mem_of_find?_eq_some hf, rfl, by simpa using List.find?_some hf⟩

theorem resAtoms_keys {m : Mol} {found : List Int} (hf : ∀ k ∈ found, k ∈ m.keys) :
    (resAtoms m found).map (·.key) = found := by
  unfold resAtoms
  induction found with
  | nil => rfl
  | cons k ks ih =>
    obtain ⟨a, _, hfind, hka⟩ := find_key (hf k (by simp))
    simp only [List.filterMap_cons, hfind, List.map_cons, hka]
    rw [ih (fun x hx => hf x (List.mem_cons_of_mem _ hx))]

theorem mem_resAtoms {m : Mol} {found : List Int} {a : Atom} (h : a ∈ resAtoms m found) : a ∈ m.nodes ∧ a.key ∈ found := by
  unfold resAtoms at h
  obtain ⟨k, hk, hfind⟩ := List.mem_filterMap.1 h
  have := List.find?_some hfind
  exact ⟨List.mem_of_find?_eq_some hfind, by simp at this; rw [this]; exact hk⟩

theorem resGraph_ncol {m : Mol} (hm : m.keys.Nodup) {found : List Int} {a : Atom} (ha : a ∈ m.nodes) (hk : a.key ∈ found) :
    (resGraph m found).ncol a.key = some a.elem := by
  have hmem : (a.key, a.elem) ∈ (resGraph m found).nodes :=
    List.mem_map.2 ⟨a, List.mem_filter.2 ⟨ha, by simpa using hk⟩, rfl⟩
  have hn : ((resGraph m found).nodes.map Prod.fst).Nodup := by
    simp only [resGraph, List.map_map, Function.comp_def]
    exact (List.Sublist.map _ List.filter_sublist).nodup hm
  exact Iso.lookup_of_mem hn hmem

/-- the residue `make_reference` reads (atoms in the order of `found`) and `resGraph` (atoms in
molecule order) are the same coloured graph up to the order in which the nodes are listed -/
theorem resGraph_giso {m : Mol} {found : List Int} (hm : m.keys.Nodup) (hfn : found.Nodup)
    (hf : ∀ k ∈ found, k ∈ m.keys) (hel : AllElems m.nodes) :
    GIso id (graphOf ((resAtoms m found).map toRAtom) (resEdges m found)) (resGraph m found) := by
  have hkeys : (graphOf ((resAtoms m found).map toRAtom) (resEdges m found)).keys = found := by
    rw [graphOf_keys, List.map_map]
    have : ((fun a : RAtom => a.key) ∘ toRAtom) = fun a : Atom => a.key := by funext a; rfl
    rw [this]; exact resAtoms_keys hf
  refine ⟨?_, fun _ _ _ _ e => e, ?_, ?_⟩
  · intro t
    rw [hkeys, mem_resGraph_keys]
    exact ⟨fun h => ⟨t, h.1, rfl⟩, fun ⟨u, hu, e⟩ => by cases e; exact ⟨hu, hf _ hu⟩⟩
  · intro u hu
    rw [hkeys] at hu
    obtain ⟨a, ha, _, hka⟩ := find_key (hf u hu)
    have hra : a ∈ resAtoms m found := by
      unfold resAtoms
      exact List.mem_filterMap.2 ⟨u, hu, by
        obtain ⟨a', _, hfind, hka'⟩ := find_key (hf u hu)
        rw [hfind]
        have : a' = a := inj_of_nodup_map (by unfold Mol.keys at hm; exact hm) (List.mem_of_find?_eq_some hfind) ha (hka'.trans hka.symm)
        rw [this]⟩
    have hn : (((resAtoms m found).map toRAtom).map (·.key)).Nodup := by
      rw [List.map_map]
      have : ((fun a : RAtom => a.key) ∘ toRAtom) = fun a : Atom => a.key := by funext a; rfl
      rw [this, resAtoms_keys hf]; exact hfn
    have h1 := lookup_graphOf hn (resEdges m found) (List.mem_map.2 ⟨a, hra, rfl⟩)
    show (resGraph m found).ncol u = _
    have h2 := resGraph_ncol hm (found := found) ha (by rw [hka]; exact hu)
    rw [hka] at h2
    have hk' : (toRAtom a).key = u := hka
    rw [hk', toRAtom_elem (hel a ha)] at h1
    show (resGraph m found).ncol u = _
    rw [h2, h1]; rfl
  · intro u _ v _
    rfl

/-! ## 3. what a successful `refNode` returns -/

theorem mapPairs_id (M : Map) : mapPairs id id M = M := by
  unfold mapPairs
  conv => rhs; rw [← List.map_id M]
  apply List.map_congr_left
  intro p _; rfl

def BlockClosed (b : Block) : Prop := ∀ e ∈ b.edges, e.1 ∈ b.keys ∧ e.2 ∈ b.keys
instance (b : Block) : Decidable (BlockClosed b) := by unfold BlockClosed; infer_instance

/-- the specification of the matcher for the graphs it is handed: if it answers at all, its first
answer is a non-empty maximum common induced subgraph -/
def MatcherOK (g sg : Graph) : List Map → Prop
  | [] => True
  | A :: _ => IsMCIS g sg A ∧ A ≠ []

theorem refNode_spec {ff : FF} {m : Mol} {i : Nat} {q : ResReq} {R : Residue} {blk : Block}
    (hm : m.keys.Nodup) (hfn : q.found.Nodup) (hf : ∀ k ∈ q.found, k ∈ m.keys) (hel : AllElems m.nodes)
    (hg : getRef ff q.resname q.mutation q.modification = .ok blk)
    (hB : blk.keys.Nodup) (hBc : BlockClosed blk) (hBe : AllElems blk.nodes)
    (hspec : ∀ out, makeRef ((resAtoms m q.found).map toRAtom) (blk.nodes.map toRAtom) (resEdges m q.found) blk.edges q.answers = .ok out →
              MatcherOK out.resCopy out.refCopy q.answers)
    (h : refNode ff m i q = .ok (some R)) :
    R.block = blk ∧ R.found = q.found ∧ R.common = commonOf q ∧ R.mtch ≠ []
    ∧ IsMCIS (resGraph m R.found) (blockGraph R.block) R.mtch := by
  unfold refNode at h
  simp only [hg] at h
  cases hmk : makeRef ((resAtoms m q.found).map toRAtom) (blk.nodes.map toRAtom) (resEdges m q.found) blk.edges q.answers with
  | error e => simp [hmk] at h
  | ok out =>
    simp only [hmk] at h
    cases hmt : out.mtch with
    | none => simp [hmt] at h
    | some M =>
      simp only [hmt, Except.ok.injEq, Option.some.injEq] at h
      have hguess : blk.nodes.map guessElem = blk.nodes := by
        conv => rhs; rw [← List.map_id blk.nodes]
        apply List.map_congr_left
        intro a ha; exact guessElem_id (hBe a ha)
      have hR : R = { block := blk, found := q.found, mtch := M, common := commonOf q } := by
        rw [← h, hguess]
      subst hR
      -- the answers are not empty, the first one is specified
      have hsp := hspec out hmk
      obtain ⟨hnone, hsome⟩ := chosen_match_is_answer hmk
      obtain ⟨A, rest, hans, hMA⟩ := hsome M hmt
      rw [hans] at hsp hmk
      obtain ⟨hA, hAne⟩ := hsp
      have keyR : (((resAtoms m q.found).map toRAtom).map (·.key)) = q.found := by
        rw [List.map_map]
        have : ((fun a : RAtom => a.key) ∘ toRAtom) = fun a : Atom => a.key := by funext a; rfl
        rw [this]; exact resAtoms_keys hf
      have keyB : ((blk.nodes.map toRAtom).map (·.key)) = blk.keys := by
        rw [List.map_map]; rfl
      have hrc : PairsClosed ((resAtoms m q.found).map toRAtom) (resEdges m q.found) := by
        intro e he
        rw [keyR]
        have := (List.mem_filter.1 he).2
        simpa using this
      have hfc : PairsClosed (blk.nodes.map toRAtom) blk.edges := by
        intro e he; rw [keyB]; exact hBc e he
      obtain ⟨res', ref', M', h1, h2, h3, h4⟩ :=
        chosen_match_is_mcis (by rw [keyR]; exact hfn) (by rw [keyB]; exact hB) hrc hfc hmk hA
      rw [hmt] at h3; cases h3
      have hres' : res' = (resAtoms m q.found).map toRAtom := by
        have hid : addElements ((resAtoms m q.found).map toRAtom) = .ok ((resAtoms m q.found).map toRAtom) :=
          addElements_id (fun a ha => hel a (mem_resAtoms ha).1)
        rw [hid] at h1; cases h1; rfl
      have href' : ref' = blk.nodes.map toRAtom := by
        rw [addElements_id hBe] at h2; cases h2; rfl
      rw [hres', href', graphOf_block blk hBe] at h4
      refine ⟨rfl, rfl, rfl, ?_, ?_⟩
      · intro hc
        rw [hMA] at hc
        have : A = [] := by simpa [mapPairs] using hc
        exact hAne this
      · have := isMCIS_transport (resGraph_giso hm hfn hf hel) (GIso.refl (blockGraph blk))
          (φi := id) (ψi := id) (fun _ _ => rfl) (fun _ _ => rfl) h4
        rw [mapPairs_id] at this; exact this

/-- a residue for which the matcher gives no answer is left out of the reference graph -/
theorem refNode_skip {ff : FF} {m : Mol} {i : Nat} {q : ResReq} {blk : Block} {out : RefOut}
    (hg : getRef ff q.resname q.mutation q.modification = .ok blk)
    (hmk : makeRef ((resAtoms m q.found).map toRAtom) (blk.nodes.map toRAtom) (resEdges m q.found) blk.edges q.answers = .ok out)
    (ha : q.answers = []) : refNode ff m i q = .ok none := by
  unfold refNode
  simp only [hg, hmk]
  have := (chosen_match_is_answer hmk).1.2 ha
  rw [this]

/-! ## 4. the frame of a repair -/

/-- **A repair leaves the rest of the molecule alone**: an atom outside the residue is still there,
unchanged, and the bonds between two such atoms are what they were. -/
theorem repair_frame (m : Mol) (R : Residue) (h : WF m R) :
    (∀ a ∈ m.nodes, a.key ∉ R.found → a ∈ (repairResidue m R).mol.nodes)
    ∧ (∀ u ∈ m.keys, ∀ v ∈ m.keys, u ∉ R.found → v ∉ R.found →
        hasEdge (repairResidue m R).mol.edges u v = hasEdge m.edges u v) := by
  have hinv := inv_final m R h
  constructor
  · intro a ha hnf
    rw [repairResidue_mol]
    have hnr : a.key ∉ ran R.mtch := fun hc => hnf (h.2.2.2.2.2.1 _ hc)
    have hin : a ∈ (rebuilt m R).2.nodes := by
      obtain ⟨new, hnew⟩ := hinv.next
      rw [hnew]; apply List.mem_append_left
      rw [canonicalise_eq_map]
      exact List.mem_map.2 ⟨a, ha, canonFn_not_ran _ _ _ hnr⟩
    apply flagExtra_keep _ hin
    intro hc
    exact hnf (List.mem_filter.1 hc).1
  · intro u hu v hv hnu hnv
    have hue : u ∉ extraAtoms R.found (repairResidue m R).mtch := fun hc => hnu (List.mem_filter.1 hc).1
    have hve : v ∉ extraAtoms R.found (repairResidue m R).mtch := fun hc => hnv (List.mem_filter.1 hc).1
    exact (rebuild_conservative m R h).2 u hu v hv hue hve

end C04.Ref
