import VermouthProofs.C01_MergeSpec
import VermouthProofs.C01_Dict
/-! C01 — the placement loop (`applyBlock` folded over the ordered placements) against its
closed-form description. -/
namespace C01
open C12

/-- the `(atom, particle, weight)` assignments placement `p` makes when its block is numbered from `o.n` -/
def stepEntries (o : Off) (p : Placement) : List (Int × Int × Rat) :=
  ((weightEntries p.block.keys (o.n : Int) p.molToBlock).getD [])
    ++ zeroEntries p.atoms (spawnedOut p.block.keys (o.n : Int) p.molToBlock)

def stepInters (o : Off) (p : Placement) : List (String × Inter) :=
  (renameInters p.block.keys (o.n : Int) p.block.inters).getD []

def stepEdges (o : Off) (p : Placement) : List (Int × Int) :=
  (renameEdges p.block.keys (o.n : Int) p.block.edges).getD []

def stepSpawned (o : Off) (p : Placement) : List Int := spawnedOut p.block.keys (o.n : Int) p.molToBlock

/-- closed forms: what the whole loop produces, threading the offsets -/
def nodesSpec (o : Off) : List Placement → List (Int × Attrs)
  | [] => []
  | p :: ps => shiftNodes o p.block ++ nodesSpec (o.next p.block) ps

def logSpec (o : Off) : List Placement → List (Int × Int × Rat)
  | [] => []
  | p :: ps => stepEntries o p ++ logSpec (o.next p.block) ps

def intersSpec (o : Off) : List Placement → List (String × Inter)
  | [] => []
  | p :: ps => stepInters o p ++ intersSpec (o.next p.block) ps

def edgesSpec (o : Off) : List Placement → List (Int × Int)
  | [] => []
  | p :: ps => stepEdges o p ++ edgesSpec (o.next p.block) ps

def spawnedSpec (o : Off) : List Placement → List Int
  | [] => []
  | p :: ps => stepSpawned o p ++ spawnedSpec (o.next p.block) ps

/-- the offsets of the successive placements -/
def offsSpec (o : Off) : List Placement → List Off
  | [] => []
  | p :: ps => o :: offsSpec (o.next p.block) ps

def Off.after (o : Off) : List Placement → Off
  | [] => o
  | p :: ps => Off.after (o.next p.block) ps

theorem mergeOffset_inv (m : Mol) (o : Off) (h : Inv m o) : mergeOffset m = (o.n : Int) := by
  unfold mergeOffset
  by_cases he : m.nodes = []
  · have hn : o.n = 0 := by
      have := congrArg List.length h.1
      simp [Mol.keys, he, iota1_length] at this
      omega
    simp [he, hn]
  · have hmk := (lastKey_inv m o h he).2
    have h2 := h.2
    rw [if_neg he] at h2
    have : m.nodes.isEmpty = false := by
      cases hm : m.nodes with
      | nil => exact absurd hm he
      | cons _ _ => rfl
    simp only [this, Bool.false_eq_true, if_false]
    rcases h2.1 with hmx | hmx
    · simp [hmx]
    · simp [hmx, hmk]

theorem inv_nrexcl (m : Mol) (o : Off) (x : Option Int) (h : Inv m o) : Inv { m with nrexcl := x } o := h

theorem applyBlock_err (st : St) (p : Placement) (e : Outcome) (h : st.err = some e) :
    applyBlock st p = st := by
  unfold applyBlock
  simp [h]

theorem foldl_applyBlock_err (ps : List Placement) (st : St) (e : Outcome) (h : st.err = some e) :
    ps.foldl applyBlock st = st := by
  induction ps with
  | nil => rfl
  | cons p ps ih => simp only [List.foldl_cons, applyBlock_err st p e h, ih]

theorem mem_unionInt (a b : List Int) (x : Int) : x ∈ unionInt a b ↔ x ∈ a ∨ x ∈ b := by
  unfold unionInt
  simp only [List.mem_append, List.mem_filter]
  constructor
  · rintro (h | h)
    · exact Or.inl h
    · exact Or.inr h.1
  · rintro (h | h)
    · exact Or.inl h
    · by_cases hx : x ∈ a
      · exact Or.inl hx
      · exact Or.inr ⟨h, by simpa using hx⟩

/-- one placement -/
theorem applyBlock_spec (st : St) (p : Placement) (o : Off) (hinv : Inv st.out o) (he : st.err = none)
    (hok : (applyBlock st p).err = none) :
    (applyBlock st p).out.nodes = st.out.nodes ++ shiftNodes o p.block
    ∧ Inv (applyBlock st p).out (o.next p.block)
    ∧ (applyBlock st p).molToOut = addEntries st.molToOut (stepEntries o p)
    ∧ (applyBlock st p).outToMol = addEntriesRev st.outToMol (stepEntries o p)
    ∧ (applyBlock st p).overlap = unionInt st.overlap (p.atoms.filter (fun a => (dom st.molToOut).contains a || st.placed.any (fun k => k.contains a)))
    ∧ (applyBlock st p).spawned = unionInt st.spawned (stepSpawned o p)
    ∧ (applyBlock st p).placed = st.placed ++ [p.atoms]
    ∧ (applyBlock st p).out.inters = st.out.inters ++ stepInters o p
    ∧ (∀ x y, (applyBlock st p).out.hasEdge x y = true ↔
         st.out.hasEdge x y = true ∨ (x, y) ∈ stepEdges o p ∨ (y, x) ∈ stepEdges o p)
    ∧ (weightEntries p.block.keys (o.n : Int) p.molToBlock).isSome = true
    ∧ (renameInters p.block.keys (o.n : Int) p.block.inters).isSome = true
    ∧ (renameEdges p.block.keys (o.n : Int) p.block.edges).isSome = true := by
  unfold applyBlock at hok ⊢
  simp only [he, Option.isSome_none, Bool.false_eq_true, if_false] at hok ⊢
  generalize hout0 : (if st.out.nrexcl.isNone = true then { st.out with nrexcl := p.block.nrexcl } else st.out) = out0 at hok ⊢
  have hinv0 : Inv out0 o := by
    rw [← hout0]; split
    · exact inv_nrexcl _ _ _ hinv
    · exact hinv
  have hnodes0 : out0.nodes = st.out.nodes := by rw [← hout0]; split <;> rfl
  have hinters0 : out0.inters = st.out.inters := by rw [← hout0]; split <;> rfl
  have hedge0 : ∀ x y, out0.hasEdge x y = st.out.hasEdge x y := by
    intro x y; rw [← hout0]; split <;> rfl
  have hoff : mergeOffset out0 = (o.n : Int) := mergeOffset_inv out0 o hinv0
  rw [hoff] at hok ⊢
  generalize hm : out0.merge p.block = r at hok ⊢
  obtain ⟨out1, e⟩ := r
  cases e with
  | ok =>
    simp only at hok ⊢
    obtain ⟨m1, m2, ⟨ri, hri, m3⟩, ⟨re, hre, m4⟩, _⟩ := merge_spec out0 p.block out1 o hinv0 hm
    generalize hw : weightEntries p.block.keys (o.n : Int) p.molToBlock = w at hok ⊢
    generalize hr : p.refs.mapM (fun r => (corrOf p.block.keys (o.n : Int) r.1).map (fun o => (o, r.2))) = rr at hok ⊢
    cases w with
    | none => simp at hok
    | some wes =>
      cases rr with
      | none => simp at hok
      | some nr =>
        simp only
        refine ⟨by rw [m1, hnodes0], m2, ?_, ?_, by first | rfl | trivial, by first | rfl | trivial, by first | rfl | trivial, ?_, ?_, by simp, by simp [hri], by simp [hre]⟩
        · simp [stepEntries, hw]
        · simp [stepEntries, hw]
        · rw [m3, hinters0]; simp [stepInters, hri]
        · intro x y
          rw [m4 x y, hedge0]; simp [stepEdges, hre]
  | keyerror => simp at hok
  | valueerror => simp at hok
  | nxerror => simp at hok
  | badindex => simp at hok

/-- the whole loop -/
theorem fold_spec (ps : List Placement) (st : St) (o : Off) (hinv : Inv st.out o) (he : st.err = none)
    (hok : (ps.foldl applyBlock st).err = none) :
    (ps.foldl applyBlock st).out.nodes = st.out.nodes ++ nodesSpec o ps
    ∧ Inv (ps.foldl applyBlock st).out (o.after ps)
    ∧ (ps.foldl applyBlock st).molToOut = addEntries st.molToOut (logSpec o ps)
    ∧ (ps.foldl applyBlock st).outToMol = addEntriesRev st.outToMol (logSpec o ps)
    ∧ (∀ x, x ∈ (ps.foldl applyBlock st).spawned ↔ x ∈ st.spawned ∨ x ∈ spawnedSpec o ps)
    ∧ (ps.foldl applyBlock st).placed = st.placed ++ ps.map (·.atoms)
    ∧ (ps.foldl applyBlock st).out.inters = st.out.inters ++ intersSpec o ps
    ∧ (∀ x y, (ps.foldl applyBlock st).out.hasEdge x y = true ↔
         st.out.hasEdge x y = true ∨ (x, y) ∈ edgesSpec o ps ∨ (y, x) ∈ edgesSpec o ps) := by
  induction ps generalizing st o with
  | nil => simp [nodesSpec, logSpec, spawnedSpec, intersSpec, edgesSpec, Off.after, addEntries, addEntriesRev, hinv]
  | cons p ps ih =>
    simp only [List.foldl_cons] at hok ⊢
    have hok1 : (applyBlock st p).err = none := by
      cases h : (applyBlock st p).err with
      | none => rfl
      | some e => rw [foldl_applyBlock_err ps _ e h] at hok; rw [h] at hok; cases hok
    obtain ⟨s1, s2, s3, s4, _, s6, s7, s8, s9, _⟩ := applyBlock_spec st p o hinv he hok1
    obtain ⟨t1, t2, t3, t4, t5, t6, t7, t8⟩ := ih (applyBlock st p) (o.next p.block) s2 hok1 hok
    refine ⟨?_, t2, ?_, ?_, ?_, ?_, ?_, ?_⟩
    · rw [t1, s1]; simp [nodesSpec]
    · rw [t3, s3, logSpec, addEntries_append]
    · rw [t4, s4, logSpec, addEntriesRev_append]
    · intro x
      rw [t5, s6, mem_unionInt]
      simp only [spawnedSpec, List.mem_append]
      constructor
      · rintro ((h | h) | h)
        · exact Or.inl h
        · exact Or.inr (Or.inl h)
        · exact Or.inr (Or.inr h)
      · rintro (h | h | h)
        · exact Or.inl (Or.inl h)
        · exact Or.inl (Or.inr h)
        · exact Or.inr h
    · rw [t6, s7]; simp
    · rw [t7, s8]; simp [intersSpec]
    · intro x y
      rw [t8, s9]
      simp only [edgesSpec, List.mem_append]
      constructor
      · rintro ((h | h | h) | h | h)
        · exact Or.inl h
        · exact Or.inr (Or.inl (Or.inl h))
        · exact Or.inr (Or.inr (Or.inl h))
        · exact Or.inr (Or.inl (Or.inr h))
        · exact Or.inr (Or.inr (Or.inr h))
      · rintro (h | (h | h) | (h | h))
        · exact Or.inl (Or.inl h)
        · exact Or.inl (Or.inr (Or.inl h))
        · exact Or.inr (Or.inl h)
        · exact Or.inl (Or.inr (Or.inr h))
        · exact Or.inr (Or.inr h)

theorem inv_empty : Inv ({} : Mol) Off.zero := by
  refine ⟨rfl, ?_⟩
  simp [Off.zero]

end C01
