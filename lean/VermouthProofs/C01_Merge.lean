import VermouthModel.C01
/-! C01 — `merge_molecule` (`C12.Mol.merge`) on a molecule that was built by merges only:
the new nodes are appended under consecutive keys, offsets come from the last node. -/
namespace C01
open C12

def iota1 (n : Nat) : List Int := (List.range n).map (fun (i : Nat) => (i : Int) + 1)

/-- attributes of the last node -/
def lastA : List (Int × Attrs) → Option Attrs
  | [] => none
  | [x] => some x.2
  | _ :: y :: r => lastA (y :: r)

/-- the offsets the next merge will use: number of nodes so far, resid and charge group of the last node -/
structure Off where
  n : Nat
  roff : Int
  coff : Int
  deriving Repr, DecidableEq

def Off.zero : Off := ⟨0, 0, 0⟩

/-- the nodes of block `b` as they are added: keys `n+1, n+2, …`, resid and charge group shifted -/
def shiftNodes (o : Off) (b : Mol) : List (Int × Attrs) :=
  enumFrom ((o.n : Int) + 1) (b.nodes.map (fun p => (p.1, p.2.shift o.roff o.coff)))

def Off.next (o : Off) (b : Mol) : Off :=
  match lastA b.nodes with
  | none => o
  | some a => { n := o.n + b.nodes.length, roff := a.resid.getD 1 + o.roff, coff := a.cg.getD 1 + o.coff }

/-- `m` was built by merges (and new particles of modification mappings, which invalidate the
cached highest key) and the next merge will use the offsets `o` -/
def Inv (m : Mol) (o : Off) : Prop :=
  m.keys = iota1 o.n ∧
  (if m.nodes = [] then o.roff = 0 ∧ o.coff = 0
   else (m.maxNode = some (o.n : Int) ∨ m.maxNode = none) ∧
        ∃ a, lookupAttrs m.nodes (o.n : Int) = some a ∧ a.resid.getD 1 = o.roff ∧ a.cg.getD 1 = o.coff)

/-! ### merge, restated with named pieces -/

def offsOf (self : Mol) : Option (Int × Int × Int) :=
  if self.nodes.isEmpty then some (0, 0, 0)
  else
    match (match self.maxNode with | some k => some k | none => maxKey self.keys) with
    | none => none
    | some last =>
      match lookupAttrs self.nodes last with
      | none => none
      | some a => some (last, a.resid.getD 1, a.cg.getD 1)

def mergeCore (self other : Mol) (nrexcl : Option Int) (offset roff coff : Int) : Mol × Outcome :=
  let okeys := other.keys
  let newNodes := enumFrom (offset + 1) (other.nodes.map (fun p => (p.1, p.2.shift roff coff)))
  match renameInters okeys offset other.inters, renameEdges okeys offset other.edges with
  | some ri, some re =>
    let m1 : Mol := { self with nrexcl := nrexcl,
                                nodes := newNodes.foldl (fun ns p => upsert ns p.1 p.2) self.nodes }
    let m2 : Mol := { m1 with inters := m1.inters ++ ri }
    let m3 : Mol := re.foldl (fun m e => m.addEdge e.1 e.2) m2
    -- (C12 extension round: bond attribute table and log entries ride along; a log entry of the
    -- newcomer that mentions an atom it does not have makes the outcome a KeyError)
    let lg := mergeLogs self.logs okeys offset (flattenLogs other.logs)
    ({ m3 with cites := unionSet self.cites other.cites,
               maxNode := some (offset + (other.nodes.length : Int)),
               eattr := self.eattr ++ renameEAttr okeys offset other.eattr,
               logs := lg.1 }, if lg.2 then .ok else .keyerror)
  | _, _ => (self, .keyerror)

def mergeNrexcl (self other : Mol) : Option Int :=
  if self.nrexcl.isNone && self.nodes.isEmpty then other.nrexcl else self.nrexcl

theorem merge_eq (self other : Mol) :
    self.merge other =
      (if self.ff ≠ other.ff then (self, .valueerror) else
       if mergeNrexcl self other ≠ other.nrexcl then (self, .valueerror) else
       match offsOf self with
       | none => (self, .keyerror)
       | some (offset, roff, coff) => mergeCore self other (mergeNrexcl self other) offset roff coff) := rfl

/-! ### small facts -/

theorem iota1_length (n : Nat) : (iota1 n).length = n := by simp [iota1]

theorem mem_iota1 (n : Nat) (k : Int) : k ∈ iota1 n ↔ 1 ≤ k ∧ k ≤ n := by
  simp only [iota1, List.mem_map, List.mem_range]
  constructor
  · rintro ⟨i, hi, rfl⟩; omega
  · intro h; exact ⟨(k - 1).toNat, by omega, by omega⟩

theorem iota1_succ (n : Nat) : iota1 (n + 1) = iota1 n ++ [(n : Int) + 1] := by
  simp [iota1, List.range_succ]

theorem upsert_fresh (ns : List (Int × Attrs)) (k : Int) (a : Attrs) (h : ∀ p ∈ ns, p.1 ≠ k) :
    upsert ns k a = ns ++ [(k, a)] := by
  induction ns with
  | nil => rfl
  | cons p r ih =>
    obtain ⟨k', a'⟩ := p
    unfold upsert
    have : k' ≠ k := h (k', a') List.mem_cons_self
    simp only [this, if_false, List.cons_append]
    rw [ih (fun q hq => h q (List.mem_cons_of_mem _ hq))]

theorem foldl_upsert_enumFrom (l : List (Int × Attrs)) (ns : List (Int × Attrs)) (s : Int)
    (h : ∀ p ∈ ns, p.1 < s) :
    (enumFrom s l).foldl (fun ns p => upsert ns p.1 p.2) ns = ns ++ enumFrom s l := by
  induction l generalizing ns s with
  | nil => simp [enumFrom]
  | cons x r ih =>
    obtain ⟨k, a⟩ := x
    simp only [enumFrom, List.foldl_cons]
    rw [upsert_fresh ns s a (fun p hp => by have := h p hp; omega)]
    rw [ih (ns ++ [(s, a)]) (s + 1)]
    · simp
    · intro p hp
      rcases List.mem_append.1 hp with hp | hp
      · have := h p hp; omega
      · simp only [List.mem_singleton] at hp; subst hp; show s < s + 1; omega

theorem enumFrom_keys (l : List (Int × Attrs)) (s : Int) :
    (enumFrom s l).map Prod.fst = (List.range l.length).map (fun (i : Nat) => s + (i : Int)) := by
  induction l generalizing s with
  | nil => rfl
  | cons x r ih =>
    obtain ⟨k, a⟩ := x
    simp only [enumFrom, List.map_cons, List.length_cons, List.range_succ_eq_map, List.map_map, ih]
    simp only [Int.natCast_zero, Int.add_zero, List.cons.injEq, true_and]
    apply List.map_congr_left
    intro i _
    simp only [Function.comp, Nat.succ_eq_add_one, Int.natCast_add, Int.natCast_one]
    omega

theorem enumFrom_length (l : List (Int × Attrs)) (s : Int) : (enumFrom s l).length = l.length := by
  induction l generalizing s with
  | nil => rfl
  | cons x r ih => obtain ⟨k, a⟩ := x; simp [enumFrom, ih]

theorem iota1_add (n k : Nat) :
    iota1 (n + k) = iota1 n ++ (List.range k).map (fun (i : Nat) => ((n : Int) + 1) + (i : Int)) := by
  induction k with
  | zero => simp
  | succ k ih =>
    rw [← Nat.add_assoc, iota1_succ, ih, List.range_succ, List.map_append, List.append_assoc]
    simp only [List.map_cons, List.map_nil, Int.natCast_add]
    congr 2
    simp only [List.cons.injEq, and_true]
    omega

theorem lastA_enumFrom (l : List (Int × Attrs)) (s : Int) :
    lastA (enumFrom s l) = lastA l := by
  induction l generalizing s with
  | nil => rfl
  | cons x r ih =>
    obtain ⟨k, a⟩ := x
    cases r with
    | nil => rfl
    | cons y r' =>
      obtain ⟨k', a'⟩ := y
      have := ih (s + 1)
      simp only [enumFrom] at this ⊢
      simpa [lastA] using this

theorem lastA_map_shift (l : List (Int × Attrs)) (ro co : Int) :
    lastA (l.map (fun p => (p.1, p.2.shift ro co))) = (lastA l).map (fun a => a.shift ro co) := by
  induction l with
  | nil => rfl
  | cons x r ih =>
    cases r with
    | nil => rfl
    | cons y r' => simpa [lastA] using ih

theorem lookupAttrs_cons_ne (p : Int × Attrs) (r : List (Int × Attrs)) (t : Int) (h : p.1 ≠ t) :
    lookupAttrs (p :: r) t = lookupAttrs r t := by
  have : (p.1 == t) = false := by simpa using h
  simp [lookupAttrs, List.find?_cons, this]

theorem lookupAttrs_cons_eq (p : Int × Attrs) (r : List (Int × Attrs)) :
    lookupAttrs (p :: r) p.1 = some p.2 := by
  simp [lookupAttrs, List.find?_cons]

/-- in a table numbered `s, s+1, …` the entry with the highest key is the last one -/
theorem lookup_enumFrom_last (l : List (Int × Attrs)) (s t : Int) (hl : l ≠ [])
    (ht : t = s + (l.length : Int) - 1) :
    lookupAttrs (enumFrom s l) t = lastA l := by
  induction l generalizing s with
  | nil => exact absurd rfl hl
  | cons x r ih =>
    obtain ⟨k, a⟩ := x
    cases r with
    | nil =>
      have : t = s := by simp at ht; omega
      subst this
      exact lookupAttrs_cons_eq (t, a) []
    | cons y r' =>
      have h := ih (s + 1) (by simp) (by simp only [List.length_cons] at ht ⊢; omega)
      have hne : s ≠ t := by simp only [List.length_cons] at ht; omega
      show lookupAttrs ((s, a) :: enumFrom (s + 1) (y :: r')) t = _
      rw [lookupAttrs_cons_ne _ _ _ hne, h]
      obtain ⟨k', a'⟩ := y
      rfl

theorem lookupAttrs_append_right (ns ms : List (Int × Attrs)) (k : Int) (h : ∀ p ∈ ns, p.1 ≠ k) :
    lookupAttrs (ns ++ ms) k = lookupAttrs ms k := by
  unfold lookupAttrs
  rw [List.find?_append]
  have : ns.find? (fun p => p.1 == k) = none := by
    rw [List.find?_eq_none]
    intro p hp
    simpa using h p hp
  rw [this]; rfl

theorem foldl_max_le (r : List Int) (k x : Int) (hk : k ≤ x) (hr : ∀ y ∈ r, y ≤ x) : r.foldl max k ≤ x := by
  induction r generalizing k with
  | nil => exact hk
  | cons y r ih =>
    simp only [List.foldl_cons]
    exact ih (max k y) (by have := hr y List.mem_cons_self; omega) (fun z hz => hr z (List.mem_cons_of_mem _ hz))

theorem le_foldl_max (r : List Int) (k : Int) : k ≤ r.foldl max k := by
  induction r generalizing k with
  | nil => exact Int.le_refl _
  | cons y r ih =>
    simp only [List.foldl_cons]
    have := ih (max k y)
    omega

theorem maxKey_append_last (l : List Int) (x : Int) (h : ∀ y ∈ l, y ≤ x) : maxKey (l ++ [x]) = some x := by
  cases l with
  | nil => rfl
  | cons k rest =>
    simp only [List.cons_append, maxKey, List.foldl_append, List.foldl_cons, List.foldl_nil, Option.some.injEq]
    have := foldl_max_le rest k x (h k List.mem_cons_self) (fun y hy => h y (List.mem_cons_of_mem _ hy))
    omega

theorem maxKey_iota1 (n : Nat) : maxKey (iota1 (n + 1)) = some ((n : Int) + 1) := by
  rw [iota1_succ]
  apply maxKey_append_last
  intro y hy
  rw [mem_iota1] at hy
  omega

/-- the key `merge_molecule` / `apply_mod_mapping` take as the highest one -/
theorem lastKey_inv (m : Mol) (o : Off) (h : Inv m o) (he : m.nodes ≠ []) :
    (match m.maxNode with | some k => some k | none => maxKey m.keys) = some (o.n : Int) ∧ maxKey m.keys = some (o.n : Int) := by
  obtain ⟨hk, h2⟩ := h
  rw [if_neg he] at h2
  have hpos : 0 < o.n := by
    have := congrArg List.length hk
    simp only [Mol.keys, List.length_map, iota1_length] at this
    have : 0 < m.nodes.length := List.length_pos_iff.2 he
    omega
  have hmk : maxKey m.keys = some (o.n : Int) := by
    rw [hk]
    obtain ⟨n', hn'⟩ : ∃ n', o.n = n' + 1 := ⟨o.n - 1, by omega⟩
    rw [hn', maxKey_iota1]
    simp
  refine ⟨?_, hmk⟩
  rcases h2.1 with h | h
  · rw [h]
  · rw [h]; exact hmk

theorem offsOf_inv (m : Mol) (o : Off) (h : Inv m o) : offsOf m = some ((o.n : Int), o.roff, o.coff) := by
  obtain ⟨hk, h2⟩ := h
  unfold offsOf
  by_cases he : m.nodes = []
  · have hn : o.n = 0 := by
      have := congrArg List.length hk
      simp [Mol.keys, he, iota1_length] at this
      omega
    rw [if_pos he] at h2
    simp [he, hn, h2.1, h2.2]
  · have hmk := (lastKey_inv m o ⟨hk, h2⟩ he).2
    rw [if_neg he] at h2
    obtain ⟨hmax, a, ha, hr, hc⟩ := h2
    have : m.nodes.isEmpty = false := by
      cases hm : m.nodes with
      | nil => exact absurd hm he
      | cons _ _ => rfl
    rcases hmax with hmx | hmx
    · simp only [this, hmx, ha, hr, hc]
      rfl
    · simp only [this, hmx, hmk, ha, hr, hc]
      rfl

/-! ### `addEdge` folds -/

theorem addEdge_edges (m : Mol) (u v : Int) :
    (m.addEdge u v).edges = if m.hasEdge u v then m.edges else m.edges ++ [(u, v)] := by
  unfold Mol.addEdge
  simp only
  split <;> split <;> simp [Mol.hasEdge] <;> split <;> simp_all [Mol.hasEdge]

theorem hasEdge_iff (m : Mol) (x y : Int) :
    m.hasEdge x y = true ↔ (x, y) ∈ m.edges ∨ (y, x) ∈ m.edges := by
  simp [Mol.hasEdge]

theorem addEdge_hasEdge (m : Mol) (u v x y : Int) :
    (m.addEdge u v).hasEdge x y = true ↔ m.hasEdge x y = true ∨ (x = u ∧ y = v) ∨ (x = v ∧ y = u) := by
  rw [hasEdge_iff, hasEdge_iff, addEdge_edges]
  by_cases hc : m.hasEdge u v = true
  · rw [if_pos hc]
    rw [hasEdge_iff] at hc
    constructor
    · exact Or.inl
    · rintro (h | ⟨rfl, rfl⟩ | ⟨rfl, rfl⟩)
      · exact h
      · exact hc
      · exact hc.symm
  · rw [if_neg hc]
    simp only [List.mem_append, List.mem_singleton, Prod.mk.injEq]
    constructor
    · rintro ((h | h) | (h | h))
      · exact Or.inl (Or.inl h)
      · exact Or.inr (Or.inl h)
      · exact Or.inl (Or.inr h)
      · exact Or.inr (Or.inr ⟨h.2, h.1⟩)
    · rintro ((h | h) | h | h)
      · exact Or.inl (Or.inl h)
      · exact Or.inr (Or.inl h)
      · exact Or.inl (Or.inr h)
      · exact Or.inr (Or.inr ⟨h.2, h.1⟩)

theorem addEdge_nodes (m : Mol) (u v : Int) (hu : u ∈ m.keys) (hv : v ∈ m.keys) :
    (m.addEdge u v).nodes = m.nodes := by
  unfold Mol.addEdge
  have hu' : m.hasNode u = true := by simpa [Mol.hasNode] using hu
  have hv' : m.hasNode v = true := by simpa [Mol.hasNode] using hv
  simp only [hu', hv', if_true]
  split <;> rfl

theorem addEdge_other (m : Mol) (u v : Int) (hu : u ∈ m.keys) (hv : v ∈ m.keys) :
    (m.addEdge u v).inters = m.inters ∧ (m.addEdge u v).nrexcl = m.nrexcl
    ∧ (m.addEdge u v).maxNode = m.maxNode ∧ (m.addEdge u v).cites = m.cites := by
  unfold Mol.addEdge
  have hu' : m.hasNode u = true := by simpa [Mol.hasNode] using hu
  have hv' : m.hasNode v = true := by simpa [Mol.hasNode] using hv
  simp only [hu', hv', if_true]
  split <;> simp

/-- folding `addEdge` over edges whose end points are nodes: only the edge set grows -/
theorem foldl_addEdge (es : List (Int × Int)) (m : Mol) (h : ∀ e ∈ es, e.1 ∈ m.keys ∧ e.2 ∈ m.keys) :
    (es.foldl (fun m e => m.addEdge e.1 e.2) m).nodes = m.nodes
    ∧ (es.foldl (fun m e => m.addEdge e.1 e.2) m).inters = m.inters
    ∧ (es.foldl (fun m e => m.addEdge e.1 e.2) m).nrexcl = m.nrexcl
    ∧ (es.foldl (fun m e => m.addEdge e.1 e.2) m).maxNode = m.maxNode
    ∧ (es.foldl (fun m e => m.addEdge e.1 e.2) m).cites = m.cites
    ∧ ∀ x y, (es.foldl (fun m e => m.addEdge e.1 e.2) m).hasEdge x y = true ↔
        m.hasEdge x y = true ∨ (x, y) ∈ es ∨ (y, x) ∈ es := by
  induction es generalizing m with
  | nil => simp
  | cons e r ih =>
    have he := h e List.mem_cons_self
    have hn := addEdge_nodes m e.1 e.2 he.1 he.2
    have ho := addEdge_other m e.1 e.2 he.1 he.2
    have hk : (m.addEdge e.1 e.2).keys = m.keys := by simp [Mol.keys, hn]
    have := ih (m.addEdge e.1 e.2) (fun e' he' => by rw [hk]; exact h e' (List.mem_cons_of_mem _ he'))
    simp only [List.foldl_cons]
    obtain ⟨t1, t2, t3, t4, t5, t6⟩ := this
    refine ⟨t1.trans hn, t2.trans ho.1, t3.trans ho.2.1, t4.trans ho.2.2.1, t5.trans ho.2.2.2, ?_⟩
    intro x y
    rw [t6, addEdge_hasEdge]
    obtain ⟨e1, e2⟩ := e
    simp only [List.mem_cons, Prod.mk.injEq]
    constructor
    · rintro ((h | h | h) | h | h)
      · exact Or.inl h
      · exact Or.inr (Or.inl (Or.inl h))
      · exact Or.inr (Or.inr (Or.inl ⟨h.2, h.1⟩))
      · exact Or.inr (Or.inl (Or.inr h))
      · exact Or.inr (Or.inr (Or.inr h))
    · rintro (h | (h | h) | (h | h))
      · exact Or.inl (Or.inl h)
      · exact Or.inl (Or.inr (Or.inl h))
      · exact Or.inr (Or.inl h)
      · exact Or.inl (Or.inr (Or.inr ⟨h.2, h.1⟩))
      · exact Or.inr (Or.inr h)

end C01
