import VermouthProofs.C17_Seq
/-!
C17 helper lemmas, part 8: composition of the assignment with the conversion
(`AnnotateResidues` / `annotate_dssp` followed by `AnnotateMartiniSecondaryStructures`).
-/
namespace C17

deriving instance DecidableEq for Except

theorem mem_zipWith_zip {α β γ : Type} (f : α → β → γ) (l1 : List α) (l2 : List β) (c : γ)
    (h : c ∈ List.zipWith f l1 l2) : ∃ a b, (a, b) ∈ l1.zip l2 ∧ c = f a b := by
  induction l1 generalizing l2 with
  | nil => simp at h
  | cons x xs ih =>
    cases l2 with
    | nil => simp at h
    | cons y ys =>
      simp only [List.zipWith_cons_cons, List.mem_cons] at h
      rcases h with h | h
      · exact ⟨x, y, by simp, h⟩
      · obtain ⟨a, b, hab, hc⟩ := ih ys h
        exact ⟨a, b, by simp [hab], hc⟩

theorem annotated_val_const (m : Mol) (seq : List Nat) (off v : Nat) (hall : ∀ x ∈ seq, x = v)
    (hb : ∀ a ∈ m, off + (residues m).idxOf a.res < seq.length) :
    ∀ b ∈ annotated m seq off, b.val = some v := by
  intro b hb'
  unfold annotated at hb'
  obtain ⟨a, ha, rfl⟩ := List.mem_map.mp hb'
  have hlt := hb a ha
  simp only
  rw [List.getElem?_eq_getElem hlt]
  congr 1
  exact hall _ (List.getElem_mem hlt)

theorem mapM_some_length {α β : Type} (f : α → Option β) (l : List α) (r : List β)
    (h : l.mapM f = some r) : r.length = l.length := by
  induction l generalizing r with
  | nil => simp at h; subst h; rfl
  | cons a l ih =>
    rw [List.mapM_cons] at h
    cases hfa : f a with
    | none => simp [hfa] at h
    | some b =>
      cases hl : l.mapM f with
      | none => simp [hfa, hl] at h
      | some bs =>
        simp [hfa, hl] at h
        subst h
        simp [ih bs hl]

theorem annotated_slice (m : Mol) (seq : List Nat) (b : Nat)
    (h : b + (residues m).length ≤ seq.length) :
    annotated m seq b = annotated m (slice seq b (b + (residues m).length)) 0 := by
  have h1 := annotateMol_slice m seq b h
  have h2 := annotateMol_exact m _ (slice_length seq b _ h)
  rw [h2] at h1
  injection h1 with h1
  rw [← h1]
  simp [annotated]

theorem martiniSystem_ok (tbl : List (Char × Char)) (pats : List (List Char × List Char))
    (l out : List Mol2) (h : annotateMartiniSystem tbl pats l = .ok out) :
    out.length = l.length ∧
      ∀ (i : Nat) (x : Mol2), l[i]? = some x → ∃ y, convertAnnotationCode tbl pats x = .ok y ∧ out[i]? = some y := by
  induction l generalizing out with
  | nil =>
    simp [annotateMartiniSystem] at h
    subst h
    simp
  | cons m ms ih =>
    unfold annotateMartiniSystem at h
    cases h1 : convertAnnotationCode tbl pats m with
    | error e => simp [h1] at h
    | ok m' =>
      cases h2 : annotateMartiniSystem tbl pats ms with
      | error e => simp [h1, h2] at h
      | ok ms' =>
        simp [h1, h2] at h
        subst h
        obtain ⟨hl, hi⟩ := ih ms' h2
        refine ⟨by simp [hl], ?_⟩
        intro i x hx
        cases i with
        | zero =>
          simp at hx; subst hx
          exact ⟨m', h1, by simp⟩
        | succ i =>
          simp at hx
          obtain ⟨y, hy1, hy2⟩ := hi i x hx
          exact ⟨y, hy1, by simpa using hy2⟩

theorem dsspAll_ok (sys : List (Bool × Mol2 × List Bool × List Nat)) (ms : List Mol2)
    (h : dsspAll sys = .ok ms) :
    ms.length = sys.length ∧
      ∀ (i : Nat) (prot : Bool) (m : Mol2) (pos : List Bool) (ss : List Nat),
        sys[i]? = some (prot, m, pos, ss) →
        ∃ s, annotateDssp prot (srcMol m) pos ss = .ok s ∧ ms[i]? = some (withSrc m s) := by
  induction sys generalizing ms with
  | nil =>
    simp [dsspAll] at h
    subst h
    simp
  | cons x xs ih =>
    obtain ⟨prot0, m0, pos0, ss0⟩ := x
    unfold dsspAll at h
    cases h1 : annotateDssp prot0 (srcMol m0) pos0 ss0 with
    | error e => simp [h1] at h
    | ok s0 =>
      cases h2 : dsspAll xs with
      | error e => simp [h1, h2] at h
      | ok ms' =>
        simp [h1, h2] at h
        subst h
        obtain ⟨hl, hi⟩ := ih ms' h2
        refine ⟨by simp [hl], ?_⟩
        intro i prot m pos ss hx
        cases i with
        | zero =>
          simp at hx
          obtain ⟨rfl, rfl, rfl, rfl⟩ := hx
          exact ⟨s0, h1, by simp⟩
        | succ i =>
          simp at hx
          obtain ⟨s, hs1, hs2⟩ := hi i prot m pos ss hx
          exact ⟨s, hs1, by simpa using hs2⟩

theorem withDst_dstMol (m : Mol2) : withDst m (dstMol m) = m := by
  induction m with
  | nil => rfl
  | cons a m ih =>
    have : withDst (a :: m) (dstMol (a :: m)) = { a with dst := a.dst } :: withDst m (dstMol m) := rfl
    rw [this, ih]

theorem length_annotated (m : Mol) (s : List Nat) (off : Nat) : (annotated m s off).length = m.length := by
  simp [annotated]

theorem length_srcMol (m : Mol2) : (srcMol m).length = m.length := by simp [srcMol]
theorem length_dstMol (m : Mol2) : (dstMol m).length = m.length := by simp [dstMol]

end C17
