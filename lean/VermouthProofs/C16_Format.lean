import VermouthModel.C16_Format
import VermouthProofs.C16
/-!
Helper lemmas for the general `TruncFormatter.format_field` model (`VermouthModel/C16_Format.lean`).
-/
namespace C16

theorem length_padNum (fill align : Char) (w : Nat) (sign digits : List Char) :
    (padNum fill align w sign digits).length = max w (sign.length + digits.length) := by
  unfold padNum
  simp only []
  split
  · simp; omega
  · split
    · simp; omega
    · split
      · simp; omega
      · simp; omega

/-- python pads to the minimum width: a formatted value is never shorter than the width -/
theorem pyFormat_width_le (g : GSpec) (v : Val) (r : List Char) (h : pyFormat g v = .ok r) :
    g.width ≤ r.length := by
  unfold pyFormat at h
  split at h
  · cases h
  · cases v with
    | str s =>
      simp only [] at h
      split at h
      · split at h
        · cases h
        · cases h; rw [length_padNum]; omega
      · cases h
    | int i =>
      simp only [] at h
      split at h
      · split at h
        · cases h
        · split at h
          · cases h
          · cases h; rw [length_padNum]; omega
      · split at h
        · split at h
          · cases h
          · cases h; rw [length_padNum]; omega
        · split at h <;> cases h
    | fix k =>
      simp only [] at h
      split at h
      · split at h
        · cases h
        · cases h; rw [length_padNum]; omega
      · split at h <;> cases h
    | nan =>
      simp only [] at h
      split at h
      · split at h
        · cases h
        · cases h; rw [length_padNum]; omega
      · split at h <;> cases h

/-! ### the groups of a parsed spec -/

theorem takeFillAlign_align (s : List Char) (a : Char) (h : (takeFillAlign s).2.1 = some a) :
    isAlignCh a = true := by
  unfold takeFillAlign at h
  split at h
  · rename_i c a' r
    split at h
    · rename_i ha; simp only [Option.some.injEq] at h; rw [← h]; exact ha
    · split at h
      · rename_i hc; simp only [Option.some.injEq] at h; rw [← h]; exact hc
      · cases h
  · split at h
    · rename_i hc; simp only [Option.some.injEq] at h; rw [← h]; exact hc
    · cases h
  · cases h

theorem parseRest_fill_align (f a : Option Char) (s : List Char) (g : GSpec) (h : parseRest f a s = some g) :
    g.fill = f ∧ g.align = a := by
  unfold parseRest at h
  simp only [Option.ite_none_right_eq_some, Option.some.injEq] at h
  obtain ⟨_, rfl⟩ := h
  exact ⟨rfl, rfl⟩

theorem parseSpec_align (s : List Char) (g : GSpec) (h : parseSpec s = some g) :
    g.align = (takeFillAlign s).2.1 :=
  (parseRest_fill_align _ _ _ g h).2

theorem parseSpec_align_valid (s : List Char) (g : GSpec) (h : parseSpec s = some g) :
    ∀ a, g.align = some a → isAlignCh a = true := by
  intro a ha
  rw [parseSpec_align s g h] at ha
  exact takeFillAlign_align s a ha

/-- the four alignments `format_field` distinguishes -/
theorem isAlignCh_cases (a : Char) (h : isAlignCh a = true) : a = '<' ∨ a = '>' ∨ a = '=' ∨ a = '^' := by
  unfold isAlignCh at h
  simp only [Bool.or_eq_true, decide_eq_true_eq] at h
  rcases h with ((h | h) | h) | h
  · exact Or.inl h
  · exact Or.inr (Or.inl h)
  · exact Or.inr (Or.inr (Or.inl h))
  · exact Or.inr (Or.inr (Or.inr h))

theorem effAlign_valid (g : GSpec) (v : Val) (hal : ∀ a, g.align = some a → isAlignCh a = true) :
    isAlignCh (effAlign g v) = true := by
  unfold effAlign
  split
  · rename_i a ha; exact hal a ha
  · split <;> decide

/-! ### the `Spec` fragment -/

def kindMatches (sp : Spec) (v : Val) : Bool :=
  match sp.ty, v with
  | .d, .int _ => true
  | .s, .str _ => true
  | .f, .fix _ => true
  | .f, .int _ => true
  | .f, .nan => true
  | _, _ => false

theorem toSpec_facts (g : GSpec) (t : Bool) (sp : Spec) (h : g.toSpec? t = some sp) :
    g.sign = none ∧ g.alt = false ∧ g.zero = false ∧ g.comma = false ∧ sp.fill = g.fill.getD ' ' ∧
    sp.width = g.width ∧ sp.trunc = t ∧ g.prec ≠ some [] ∧
    ((g.align = none ∧ sp.align = .dflt) ∨ (g.align = some '<' ∧ sp.align = .left) ∨ (g.align = some '>' ∧ sp.align = .right)) ∧
    ((g.ty = some 's' ∧ sp.ty = .s ∧ g.prec = none) ∨ (g.ty = some 'd' ∧ sp.ty = .d ∧ g.prec = none) ∨
     (g.ty = some 'f' ∧ sp.ty = .f ∧ sp.prec = (g.prec.map digitsVal).getD 6)) := by
  unfold GSpec.toSpec? at h
  split at h
  · cases h
  · rename_i hc
    simp only [Bool.or_eq_true, Option.isSome_iff_ne_none, ne_eq, not_or, Bool.not_eq_true, Decidable.not_not] at hc
    obtain ⟨⟨⟨h1, h2⟩, h3⟩, h4⟩ := hc
    refine ⟨h1, h2, h3, h4, ?_⟩
    simp only [] at h
    split at h
    · cases h
    · rename_i al hal
      split at h
      · cases h
      · rename_i hp
        have hal' : (g.align = none ∧ al = .dflt) ∨ (g.align = some '<' ∧ al = .left) ∨ (g.align = some '>' ∧ al = .right) := by
          split at hal
          · rename_i ha; cases hal; exact Or.inl ⟨ha, rfl⟩
          · rename_i ha; cases hal; exact Or.inr (Or.inl ⟨ha, rfl⟩)
          · rename_i ha; cases hal; exact Or.inr (Or.inr ⟨ha, rfl⟩)
          · cases hal
        split at h
        · rename_i hty
          split at h
          · cases h
          · rename_i hpn
            cases h
            simp only [Option.isSome_iff_ne_none, ne_eq, Decidable.not_not] at hpn
            exact ⟨rfl, rfl, rfl, hp, hal', Or.inl ⟨hty, rfl, hpn⟩⟩
        · split at h
          · rename_i hty
            split at h
            · cases h
            · rename_i hpn
              cases h
              simp only [Option.isSome_iff_ne_none, ne_eq, Decidable.not_not] at hpn
              exact ⟨rfl, rfl, rfl, hp, hal', Or.inr (Or.inl ⟨hty, rfl, hpn⟩)⟩
          · split at h
            · rename_i hty
              cases h
              exact ⟨rfl, rfl, rfl, hp, hal', Or.inr (Or.inr ⟨hty, rfl, rfl⟩)⟩
            · cases h
theorem formatFieldG_of (g : GSpec) (t : Bool) (v : Val) (sp : Spec) (b : List Char)
    (hpy : pyFormat g v = .ok (padded sp b)) (hw : sp.width = g.width) (ht : sp.trunc = t)
    (hea : effAlign g v = if sp.leftAligned then '<' else '>') :
    formatFieldG g t v = .ok (let r := padded sp b
      if sp.trunc && sp.width != 0 && decide (sp.width < r.length) then
        (if sp.leftAligned then r.take sp.width else r.drop (r.length - sp.width)) else r) := by
  unfold formatFieldG
  rw [hpy, hea, hw, ht]
  simp only []
  generalize padded sp b = r
  by_cases h1 : t = true
  · by_cases h2 : g.width = 0
    · simp [h1, h2]
    · by_cases h3 : r.length ≤ g.width
      · have : ¬ g.width < r.length := by omega
        simp [h1, h3, this]
      · have h4 : g.width < r.length := by omega
        have e1 : r.length - (r.length - g.width) = g.width := by omega
        cases hl : sp.leftAligned <;> simp [h1, h2, h3, h4, e1]
  · have : t = false := by simpa using h1
    simp [this]
theorem padNum_left (fill : Char) (w : Nat) (b : List Char) :
    padNum fill '<' w [] b = b ++ List.replicate (w - b.length) fill := by
  unfold padNum; simp
theorem padNum_right (fill : Char) (w : Nat) (b : List Char) :
    padNum fill '>' w [] b = List.replicate (w - b.length) fill ++ b := by
  unfold padNum
  simp only [show ('>' : Char) ≠ '<' by decide, show ('>' : Char) ≠ '^' by decide, show ('>' : Char) ≠ '=' by decide, if_false]
  simp
theorem padNum_right_sign (fill : Char) (w : Nat) (s b : List Char) :
    padNum fill '>' w s b = List.replicate (w - (s ++ b).length) fill ++ (s ++ b) := by
  unfold padNum
  simp only [show ('>' : Char) ≠ '<' by decide, show ('>' : Char) ≠ '^' by decide, show ('>' : Char) ≠ '=' by decide, if_false]
  simp
theorem padNum_left_sign (fill : Char) (w : Nat) (s b : List Char) :
    padNum fill '<' w s b = (s ++ b) ++ List.replicate (w - (s ++ b).length) fill := by
  unfold padNum; simp

theorem signStr_none (g : GSpec) (hs : g.sign = none) (neg : Bool) : signStr g neg = if neg then ['-'] else [] := by
  unfold signStr; rw [hs]

theorem intRepr_eq (i : Int) : intRepr i = (if decide (i < 0) then ['-'] else []) ++ natDigits i.natAbs := by
  unfold intRepr; split <;> simp [*]

theorem fixRepr_eq (p : Nat) (k : Int) : fixRepr p k = (if decide (k < 0) then ['-'] else []) ++ fixBody false p k.natAbs := by
  unfold fixRepr fixBody
  simp only []
  split <;> simp [*]

theorem fix_int (i : Int) (p : Nat) :
    fixRepr p (i * ((10 ^ p : Nat) : Int)) = (if decide (i < 0) then ['-'] else []) ++ fixBody false p (i.natAbs * 10 ^ p) := by
  rw [fixRepr_eq]
  generalize hq : (10 ^ p : Nat) = q
  have hqpos : 0 < q := by rw [← hq]; exact Nat.pow_pos (by decide)
  have hpos : (0 : Int) < (q : Int) := by omega
  have habs : (i * (q : Int)).natAbs = i.natAbs * q := by
    rw [Int.natAbs_mul, Int.natAbs_natCast]
  rw [habs]
  congr 1
  by_cases hi : i < 0
  · have : i * (q : Int) < 0 := Int.mul_neg_of_neg_of_pos hi hpos
    simp only [hi, this, decide_true]
  · have h0 : 0 ≤ i * (q : Int) := Int.mul_nonneg (Int.not_lt.mp hi) (Int.le_of_lt hpos)
    have : ¬ i * (q : Int) < 0 := by omega
    simp only [hi, this, decide_false]

end C16
