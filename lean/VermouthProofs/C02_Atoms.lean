import VermouthProofs.C02_Whole
/-! Lemmas for the clauses about the `[ atoms ]` rows and the multiset of interactions. -/
namespace C02

def Line.atomIdx? : Line → Option Nat
  | .atom _ i _ => some i
  | _ => none

def Line.atomRow? : Line → Option Atom
  | .atom _ _ a => some a
  | _ => none

def Line.isAtom (l : Line) : Bool := l.atomIdx?.isSome

theorem filterMap_none {α β} (f : α → Option β) (l : List α) (h : ∀ a ∈ l, f a = none) : l.filterMap f = [] := by
  induction l with
  | nil => rfl
  | cons a t ih =>
    rw [List.filterMap_cons, h a (by simp)]
    exact ih (fun x hx => h x (by simp [hx]))

theorem atomLines_idx (w : Widths) (l : List Atom) (s : Nat) :
    (atomLines w l s).filterMap Line.atomIdx? = List.range' s l.length := by
  induction l generalizing s with
  | nil => rfl
  | cons a t ih =>
    simp only [atomLines, List.filterMap_cons, Line.atomIdx?, List.length_cons, List.range'_succ]
    rw [ih]

theorem atomLines_row (w : Widths) (l : List Atom) (s : Nat) :
    (atomLines w l s).filterMap Line.atomRow? = l := by
  induction l generalizing s with
  | nil => rfl
  | cons a t ih =>
    simp only [atomLines, List.filterMap_cons, Line.atomRow?]
    rw [ih]

theorem linesOf_noAtom (tbl : List (String × List String)) (n : String) :
    ∀ l ∈ linesOf tbl n, l.isAtom = false := by
  intro l hl
  simp only [linesOf, List.mem_map] at hl
  obtain ⟨_, _, rfl⟩ := hl
  rfl

theorem prelude_noAtom (m : Mol) : ∀ l ∈ prelude m, l.isAtom = false := by
  intro l hl
  simp only [prelude, List.mem_append, List.mem_map, List.mem_flatMap, List.mem_cons,
    List.not_mem_nil, or_false] at hl
  rcases hl with ((⟨_, _, rfl⟩ | hl) | ⟨_, _, hl⟩) | hl
  · rfl
  · split at hl <;> simp at hl; subst hl; rfl
  · rcases hl with rfl | rfl | rfl | rfl <;> rfl
  · rcases hl with rfl | rfl | rfl <;> rfl

theorem remaining_noAtom (m : Mol) : ∀ l ∈ remainingPart m, l.isAtom = false := by
  intro l hl
  simp only [remainingPart, List.mem_flatMap, List.mem_append, List.mem_cons, List.not_mem_nil,
    or_false] at hl
  obtain ⟨n, _, hl⟩ := hl
  rcases hl with ((rfl | hl) | hl) | rfl
  · rfl
  · exact linesOf_noAtom _ _ l hl
  · exact linesOf_noAtom _ _ l hl
  · rfl

theorem writeInter_noAtom {c w vsn i l} (h : writeInter c w vsn i = .ok l) : l.isAtom = false := by
  unfold writeInter at h
  split at h
  · cases h
  · split at h
    · cases h
    · cases h; rfl

theorem writeBlock_noAtom {c w name post blk ls} (hpost : ∀ l ∈ post, l.isAtom = false)
    (h : writeBlock c w name post blk = .ok ls) : ∀ l ∈ ls, l.isAtom = false := by
  unfold writeBlock at h
  cases hm : blk.2.mapM (writeInter c w (name == "virtual_sitesn")) with
  | error e => rw [hm] at h; cases h
  | ok ils =>
    rw [hm] at h
    cases h
    have hf := (mapM_except_ok_iff _ _ _).mp hm
    intro l hl
    simp only [List.mem_append, List.mem_cons, List.not_mem_nil, or_false] at hl
    rcases hl with ((((hl | hl) | hl) | hl) | hl) | rfl
    · split at hl <;> simp at hl
      subst hl; rfl
    · split at hl <;> simp at hl
      subst hl; rfl
    · obtain ⟨i, _, hi⟩ := forall₂_mem_right hf l hl
      exact writeInter_noAtom hi
    · split at hl <;> simp at hl
      subst hl; rfl
    · exact hpost l hl
    · rfl

theorem writeSection_noAtom {m c w s ls} (h : writeSection m c w s = .ok ls) : ∀ l ∈ ls, l.isAtom = false := by
  unfold writeSection at h
  by_cases hb : s.2.2.any hasBoth = true
  · simp [hb] at h; cases h
  · simp only [hb, Bool.false_eq_true, if_false] at h
    cases hm : (groupRuns (sortInters s.2.2)).mapM
        (writeBlock c w (retag s.2.1) (linesOf m.post (retag s.2.1))) with
    | error e => rw [hm] at h; cases h
    | ok bls =>
      rw [hm] at h
      cases h
      have hf := (mapM_except_ok_iff _ _ _).mp hm
      intro l hl
      simp only [List.mem_append, List.mem_cons, List.not_mem_nil, or_false, List.mem_flatten] at hl
      rcases hl with (rfl | hl) | ⟨bl, hbl, hl⟩
      · rfl
      · exact linesOf_noAtom _ _ l hl
      · obtain ⟨blk, _, hblk⟩ := forall₂_mem_right hf bl hbl
        exact writeBlock_noAtom (linesOf_noAtom _ _) hblk l hl

/-- shape of every successful write -/
theorem write_shape {m : Mol} {ls : List Line} (h : write m = .ok ls) :
    ∃ rest, ls = prelude m ++ atomsPart m ++ rest ∧ ∀ l ∈ rest, l.isAtom = false := by
  unfold write at h
  by_cases he : m.atoms.isEmpty = true
  · simp [he] at h
  · simp only [he, Bool.false_eq_true, if_false] at h
    split at h
    · cases h
    unfold writeBody at h
    cases hm : (sortInteractions m).mapM (writeSection m (correspondence m) (widthsOf m).idx) with
    | error e => rw [hm] at h; cases h
    | ok secs =>
      rw [hm] at h
      cases h
      refine ⟨secs.flatten ++ remainingPart m, by simp [List.append_assoc], ?_⟩
      have hf := (mapM_except_ok_iff _ _ _).mp hm
      intro l hl
      simp only [List.mem_append, List.mem_flatten] at hl
      rcases hl with ⟨sl, hsl, hl⟩ | hl
      · obtain ⟨s, _, hs⟩ := forall₂_mem_right hf sl hsl
        exact writeSection_noAtom hs l hl
      · exact remaining_noAtom m l hl

theorem filterMap_idx_of_noAtom (ls : List Line) (h : ∀ l ∈ ls, l.isAtom = false) :
    ls.filterMap Line.atomIdx? = [] ∧ ls.filterMap Line.atomRow? = [] := by
  constructor
  · apply filterMap_none
    intro l hl
    have := h l hl
    simpa [Line.isAtom] using this
  · apply filterMap_none
    intro l hl
    have := h l hl
    cases l <;> simp_all [Line.isAtom, Line.atomIdx?, Line.atomRow?]

/-! ### the multiset of interactions -/

theorem sectKeys_flatMap {β} (inters : List (String × List Inter)) (f : String → Inter → β) :
    (sectKeys inters).flatMap (fun s => s.2.2.map (f s.2.1)) = inters.flatMap (fun p => p.2.map (f p.1)) := by
  induction inters with
  | nil => rfl
  | cons p t ih =>
    obtain ⟨pn, pl⟩ := p
    cases pl with
    | nil => simpa [sectKeys] using ih
    | cons i is =>
      simp only [sectKeys, List.filterMap_cons, List.flatMap_cons] at ih ⊢
      rw [ih]

theorem perm_flatMap_of_forall {α β} (l : List α) (f g : α → List β) (h : ∀ a ∈ l, (f a).Perm (g a)) :
    (l.flatMap f).Perm (l.flatMap g) := by
  induction l with
  | nil => exact .nil
  | cons a t ih =>
    simp only [List.flatMap_cons]
    exact (h a (by simp)).append (ih (fun x hx => h x (by simp [hx])))

end C02
