import VermouthProofs.C14_Compose
/-!
Helper lemmas for C14: one flagged atom followed through the whole loop of `fix_ptm` (attributes,
placements of both kinds, removal list), and what every log entry records.
-/
namespace C14
open Iso

/-! ### one iteration, explicitly -/

/-- the residue of an iteration: `molecule.subgraph(n_idxs - removed)` -/
def resOf (orig : List Atom) (s : St) (key : List Int) : List Atom :=
  s.mol.atoms.filter fun a => (nIdxsOf orig key).contains a.key

def edgesOf (orig : List Atom) (s : St) (key : List Int) : List (Int × Int) :=
  induced ((resOf orig s key).map (·.key)) s.mol.edges

/-- the log entry of an iteration -/
def mkEntry (mods : List Modif) (orig : List Atom) (s : St) (key : List Int) (groups : List Group)
    (given : List (List Placement)) (r : Option (Cover × Cover)) : IterLog :=
  { key := key, allowedMods := allowed (resOf orig s key) (edgesOf orig s key) mods,
    candsOk := candsOk (resOf orig s key) (edgesOf orig s key) mods given, result := r,
    res := resOf orig s key, edges := edgesOf orig s key, groups := groups, given := given }

/-- the call of `identify_ptms` of an iteration -/
def identifyOf (mods : List Modif) (orig : List Atom) (s : St) (key : List Int) (groups : List Group)
    (given : List (List Placement)) : IdRes :=
  identify (resOf orig s key) (edgesOf orig s key) mods (annotOf orig) groups
    ((allowed (resOf orig s key) (edgesOf orig s key) mods).zip given)

def stepErr (mods : List Modif) (orig : List Atom) (s : St) (key : List Int) (groups : List Group)
    (given : List (List Placement)) (rm : List Int) : St :=
  { mol := removeAtoms s.mol (rm.filter (isFlagged s.mol)), removed := s.removed ++ rm.filter (isFlagged s.mol),
    warnings := s.warnings ++ [rm], log := s.log ++ [mkEntry mods orig s key groups given none],
    wlog := s.wlog ++ [warnRec orig s key rm] }

def stepOk (mods : List Modif) (orig : List Atom) (s : St) (key : List Int) (groups : List Group)
    (given : List (List Placement)) (used cov : Cover) : St :=
  { s with mol := { s.mol with atoms := (used ++ cov).foldl (applyOne mods (nIdxsOf orig key)) s.mol.atoms },
           log := s.log ++ [mkEntry mods orig s key groups given (some (used, cov))] }

theorem step_cases (mods : List Modif) (orig : List Atom) (s : St) (key : List Int) (groups : List Group)
    (given : List (List Placement)) :
    (∃ rm, identifyOf mods orig s key groups given = .keyError rm ∧
        step mods orig s key groups given = .done (stepErr mods orig s key groups given rm))
    ∨ (∃ used cov, identifyOf mods orig s key groups given = .ok used cov ∧
        step mods orig s key groups given = .done (stepOk mods orig s key groups given used cov)) := by
  cases hid : identifyOf mods orig s key groups given with
  | outOfFuel => exact absurd hid (identify_fuel _ _ _ _ _ _)
  | keyError rm =>
    left
    refine ⟨rm, rfl, ?_⟩
    unfold identifyOf edgesOf resOf nIdxsOf annotOf at hid
    unfold step
    simp only []
    rw [hid]
    rfl
  | ok used cov =>
    right
    refine ⟨used, cov, rfl, ?_⟩
    unfold identifyOf edgesOf resOf nIdxsOf annotOf at hid
    unfold step
    simp only []
    rw [hid]
    rfl

/-! ### what `identify_ptms` of an iteration guarantees, in terms of `identifyOf` -/

theorem identifyOf_err_bound {mods : List Modif} {orig : List Atom} {s : St} {key : List Int} {groups : List Group}
    {given : List (List Placement)} {rm : List Int} (h : identifyOf mods orig s key groups given = .keyError rm) :
    ∀ x ∈ rm, x ∈ atomsOf groups := by
  have hb := identify_bounds (resOf orig s key) (edgesOf orig s key) mods (annotOf orig) groups
    ((allowed (resOf orig s key) (edgesOf orig s key) mods).zip given)
  unfold identifyOf at h
  rw [h] at hb
  exact hb

theorem identifyOf_ok_bound {mods : List Modif} {orig : List Atom} {s : St} {key : List Int} {groups : List Group}
    {given : List (List Placement)} {used cov : Cover} (h : identifyOf mods orig s key groups given = .ok used cov) :
    (∀ e ∈ cov, ∀ x ∈ patoms e.2, x ∈ nonPtm (resOf orig s key) ∨ x ∈ allOf groups)
    ∧ (∀ e ∈ used, ∃ g ∈ groups, usedOf (annotOf orig) g ≠ [] ∧ ∀ x ∈ patoms e.2, x ∈ g.atoms) := by
  have hb := identify_bounds (resOf orig s key) (edgesOf orig s key) mods (annotOf orig) groups
    ((allowed (resOf orig s key) (edgesOf orig s key) mods).zip given)
  unfold identifyOf at h
  rw [h] at hb
  exact ⟨hb, identify_used_bound _ _ _ _ _ _ _ _ h⟩

/-! ### counting the placements of both kinds -/

/-- the placements an iteration applies: those taken from the annotations of the input, then the cover -/
def allCoverOf (l : IterLog) : Cover :=
  match l.result with
  | some (u, c) => u ++ c
  | none => []

/-- in how many applied placements (of either kind), over the whole run, is atom `a`? -/
def placedIn (log : List IterLog) (a : Int) : Nat :=
  (log.flatMap allCoverOf).countP fun e => (patoms e.2).contains a

theorem placedIn_append (log ext : List IterLog) (a : Int) :
    placedIn (log ++ ext) a = placedIn log a + placedIn ext a := by
  unfold placedIn
  rw [List.flatMap_append, List.countP_append]

theorem placedIn_single (l : IterLog) (a : Int) :
    placedIn [l] a = (allCoverOf l).countP fun e => (patoms e.2).contains a := by
  unfold placedIn
  simp

theorem mem_atomsOf {gs : List Group} {g : Group} {x : Int} (hg : g ∈ gs) (hx : x ∈ g.atoms) : x ∈ atomsOf gs :=
  List.mem_flatMap.2 ⟨g, hg, hx⟩

/-- key, resid and PTM flag of an atom of a later state are those of the input atom with its key -/
theorem inv_imm {orig : List Atom} (horig : (orig.map (·.key)).Nodup) {s : St} (hinv : Inv orig s)
    {a0 : Atom} (ha0 : a0 ∈ orig) {b : Atom} (hb : b ∈ s.mol.atoms) (hk : b.key = a0.key) : imm b = imm a0 := by
  have : imm b ∈ orig.map imm := hinv.subset (List.mem_map.2 ⟨b, hb, rfl⟩)
  obtain ⟨b0, hb0, hib⟩ := List.mem_map.1 this
  have hk0 : b0.key = a0.key := (congrArg Prod.fst hib).trans hk
  have : b0 = a0 := eq_of_key_eq horig hb0 ha0 hk0
  subst this
  exact hib.symm

/-! ### an iteration whose groups do not mention the flagged atom -/

theorem step_other (mods : List Modif) (orig : List Atom) (horig : (orig.map (·.key)).Nodup)
    {a0 : Atom} (ha0 : a0 ∈ orig) (hp : a0.ptm = true) (s : St) (key : List Int) (groups : List Group)
    (given : List (List Placement)) (hinv : Inv orig s) (hn0 : a0.key ∉ allOf groups) :
    ∃ s' : St, step mods orig s key groups given = .done s' ∧ Inv orig s' ∧ Later s s'
      ∧ (a0.key ∈ s'.mol.keys ↔ a0.key ∈ s.mol.keys)
      ∧ attrsAt s'.mol.atoms a0.key = attrsAt s.mol.atoms a0.key
      ∧ placedIn s'.log a0.key = placedIn s.log a0.key
      ∧ (a0.key ∈ s'.removed ↔ a0.key ∈ s.removed) := by
  obtain ⟨s1, hs1, hinv1, hl1, _⟩ := step_frame mods orig s key groups given hinv
  refine ⟨s1, hs1, hinv1, hl1, ?_⟩
  rcases step_cases mods orig s key groups given with ⟨rm, hid, hstep⟩ | ⟨used, cov, hid, hstep⟩
  · rw [hs1] at hstep
    cases hstep
    have hnrm : a0.key ∉ rm.filter (isFlagged s.mol) :=
      fun h => hn0 (atomsOf_sub_allOf (identifyOf_err_bound hid _ (List.mem_filter.1 h).1))
    refine ⟨?_, ?_, ?_, ?_⟩
    · simp only [stepErr]
      rw [mem_removeAtoms_keys]
      exact ⟨fun h => h.1, fun h => ⟨h, hnrm⟩⟩
    · exact attrsAt_removeAtoms _ _ _ hnrm
    · simp only [stepErr]
      rw [placedIn_append, placedIn_single]
      simp [allCoverOf, mkEntry]
    · simp only [stepErr, List.mem_append]
      exact ⟨fun h => h.elim id (fun h' => absurd h' hnrm), Or.inl⟩
  · rw [hs1] at hstep
    cases hstep
    obtain ⟨hbc, hbu⟩ := identifyOf_ok_bound hid
    have hnot : ∀ c ∈ used ++ cov, a0.key ∉ patoms c.2 := by
      intro c hc hin
      rcases List.mem_append.1 hc with hc | hc
      · obtain ⟨g, hg, _, hsub⟩ := hbu c hc
        exact hn0 (atomsOf_sub_allOf (mem_atomsOf hg (hsub _ hin)))
      · rcases hbc c hc _ hin with h | h
        · exact flagged_not_nonPtm horig hinv ha0 hp _ h
        · exact hn0 h
    refine ⟨?_, ?_, ?_, ?_⟩
    · simp only [stepOk, Mol.keys]
      rw [foldl_applyOne_keys]
    · exact attrsAt_foldl_frame _ _ _ _ _ hnot
    · simp only [stepOk]
      rw [placedIn_append, placedIn_single]
      have : (allCoverOf (mkEntry mods orig s key groups given (some (used, cov)))).countP
          (fun e => (patoms e.2).contains a0.key) = 0 := by
        rw [List.countP_eq_zero]
        intro c hc hcon
        exact hnot c hc (by simpa using hcon)
      omega
    · exact Iff.rfl

theorem runIters_other_full (mods : List Modif) (orig : List Atom) (horig : (orig.map (·.key)).Nodup)
    {a0 : Atom} (ha0 : a0 ∈ orig) (hp : a0.ptm = true) :
    ∀ (its : List (List Int × List Group)) (s : St) (given : List (List (List Placement))),
      Inv orig s → (∀ it ∈ its, a0.key ∉ allOf it.2) →
      ∃ s' : St, runIters mods orig s its given = .done s' ∧ Inv orig s' ∧ Later s s'
        ∧ (a0.key ∈ s'.mol.keys ↔ a0.key ∈ s.mol.keys)
        ∧ attrsAt s'.mol.atoms a0.key = attrsAt s.mol.atoms a0.key
        ∧ placedIn s'.log a0.key = placedIn s.log a0.key
        ∧ (a0.key ∈ s'.removed ↔ a0.key ∈ s.removed) := by
  intro its
  induction its with
  | nil =>
    intro s given hinv _
    exact ⟨s, rfl, hinv, Later.refl s, Iff.rfl, rfl, rfl, Iff.rfl⟩
  | cons it its ih =>
    intro s given hinv hnot
    obtain ⟨key, groups⟩ := it
    obtain ⟨s1, hs1, hinv1, hl1, h1, h2, h3, h4⟩ := step_other mods orig horig ha0 hp s key groups (given.headD [])
      hinv (hnot (key, groups) (by simp))
    obtain ⟨s2, hs2, hinv2, hl2, k1, k2, k3, k4⟩ := ih s1 given.tail hinv1 (fun it hit => hnot it (by simp [hit]))
    exact ⟨s2, by simp only [runIters, hs1, hs2], hinv2, hl1.trans hl2, k1.trans h1, k2.trans h2, k3.trans h3,
      k4.trans h4⟩

/-! ### the iteration of the flagged atom -/

/-- reading of `ptm_node_matcher` (as `ptmPred_spec` in the property file) -/
theorem ptmPred_true {res : List Atom} {md : Modif} {p t : Int} (h : ptmPred res md p t = true) :
    ∃ mp rt, md.atom? p = some mp ∧ atomAt res t = some rt ∧ rt.ptm = mp.ptm
      ∧ (mp.ptm = true → elemOf rt.attrs = elemOf mp.attrs)
      ∧ (mp.ptm = false → nameOf rt.attrs = nameOf mp.attrs) := by
  unfold ptmPred at h
  unfold atomAt
  cases h1 : md.atom? p with
  | none => simp [h1] at h
  | some mp =>
    cases h2 : res.find? (fun a => a.key == t) with
    | none => simp [h1, h2] at h
    | some rt =>
      rw [h1, h2] at h
      refine ⟨mp, rt, rfl, rfl, ?_⟩
      cases hp : mp.ptm <;> simp [hp] at h <;> simp [h]

/-- everything the property demands of a flagged atom that has been placed: the log entry `l` of its
iteration, the chosen placement `e` of the cover, the pattern node `ma` it is matched on, and its
attributes `att` in state `s` -/
structure Placed (mods : List Modif) (orig : List Atom) (a0 : Atom) (s : St) (l : IterLog) (used cov : Cover)
    (e : Nat × Placement) (q : Int) (ma : MAtom) (att : Attrs) : Prop where
  inLog : l ∈ s.log
  result : l.result = some (used, cov)
  inCov : e ∈ cov
  pair : (a0.key, q) ∈ e.2
  node : (modAt mods e.1).atom? q = some ma
  isPtm : ma.ptm = true
  /-- the chosen placement is a candidate of a fragment of ITS iteration ... -/
  cand : ∃ f ∈ l.allowedMods.zip l.given, f.1 = e.1 ∧ e.2 ∈ f.2
  /-- ... which is a reference placement on the residue of that iteration -/
  ref : e.2 ∈ refPlacements l.res l.edges (modAt mods e.1) ptmPred
  /-- until its iteration the atom carried the attributes of the input -/
  before : attrsAt l.res a0.key = some a0.attrs
  elem : elemOf a0.attrs = elemOf ma.attrs
  inside : ∀ x ∈ patoms e.2, x ∈ nIdxsOf orig l.key
  attrs : attrsAt s.mol.atoms a0.key = some att
  name : ∀ nm, nameOf ma.attrs = some nm → ma.WF → nameOf att = some (canonName ma nm)
  repl : ∀ rep, ma.replace = some rep → ma.WF → ∀ kv ∈ rep, kv.1 ≠ "_old_atomname" →
    (aget att kv.1).getD none = kv.2
  labels : ∀ b ∈ s.mol.atoms, b.key ∈ nIdxsOf orig l.key → ∀ e' ∈ used ++ cov, e'.1 ∈ b.mods

theorem Placed.later {mods : List Modif} {orig : List Atom} {a0 : Atom} {s s' : St} {l : IterLog}
    {used cov : Cover} {e : Nat × Placement} {q : Int} {ma : MAtom} {att : Attrs}
    (h : Placed mods orig a0 s l used cov e q ma att) (hl : Later s s')
    (hat : attrsAt s'.mol.atoms a0.key = attrsAt s.mol.atoms a0.key) :
    Placed mods orig a0 s' l used cov e q ma att := by
  refine { h with inLog := ?_, attrs := hat.trans h.attrs, labels := ?_ }
  · obtain ⟨ext, hext⟩ := hl.log
    rw [hext]
    exact List.mem_append_left _ h.inLog
  · intro b hb hbn e' he'
    obtain ⟨b0, hb0, hk, hm⟩ := hl.atoms b hb
    exact hm _ (h.labels b0 hb0 (hk ▸ hbn) e' he')

theorem step_own (mods : List Modif) (orig : List Atom) (horig : (orig.map (·.key)).Nodup)
    {a0 : Atom} (ha0 : a0 ∈ orig) (hp : a0.ptm = true) (s : St) (key : List Int) (groups : List Group)
    (given : List (List Placement)) (hinv : Inv orig s) (hin : a0.key ∈ s.mol.keys)
    (hat : attrsAt s.mol.atoms a0.key = some a0.attrs) (hnd : (atomsOf groups).Nodup)
    {g0 : Group} (hg0 : g0 ∈ groups) (hu0 : usedOf (annotOf orig) g0 = []) (hag0 : a0.key ∈ g0.atoms)
    (hcnt : placedIn s.log a0.key = 0) :
    ∃ s' : St, step mods orig s key groups given = .done s' ∧ Inv orig s' ∧ Later s s' ∧
      ((a0.key ∉ s'.mol.keys ∧ a0.key ∈ s'.removed ∧ (∃ w ∈ s'.warnings, a0.key ∈ w)
          ∧ placedIn s'.log a0.key = 0)
      ∨ (placedIn s'.log a0.key = 1 ∧ a0.key ∈ s'.mol.keys ∧ (a0.key ∈ s'.removed ↔ a0.key ∈ s.removed)
          ∧ ∃ used cov, s'.log = s.log ++ [mkEntry mods orig s key groups given (some (used, cov))]
            ∧ (candsOk (resOf orig s key) (edgesOf orig s key) mods given = true →
                ∃ e q ma att, Placed mods orig a0 s' (mkEntry mods orig s key groups given (some (used, cov)))
                  used cov e q ma att))) := by
  obtain ⟨s1, hs1, hinv1, hl1, _⟩ := step_frame mods orig s key groups given hinv
  refine ⟨s1, hs1, hinv1, hl1, ?_⟩
  have hspec := identify_spec_aux (resOf orig s key) (edgesOf orig s key) mods (annotOf orig) groups
    ((allowed (resOf orig s key) (edgesOf orig s key) mods).zip given)
  rcases step_cases mods orig s key groups given with ⟨rm, hid, hstep⟩ | ⟨used, cov, hid, hstep⟩
  · rw [hs1] at hstep
    cases hstep
    left
    have hid' := hid
    unfold identifyOf at hid'
    rw [hid'] at hspec
    have harm : a0.key ∈ rm := hspec g0 hg0 hu0 _ hag0
    have hflag : isFlagged s.mol a0.key = true := (isFlagged_eq horig hinv ha0 hin).trans hp
    have hfil : a0.key ∈ rm.filter (isFlagged s.mol) := List.mem_filter.2 ⟨harm, hflag⟩
    refine ⟨?_, ?_, ⟨rm, ?_, harm⟩, ?_⟩
    · simp only [stepErr]
      rw [mem_removeAtoms_keys]
      exact fun h => h.2 hfil
    · simp only [stepErr]
      exact List.mem_append_right _ hfil
    · simp [stepErr]
    · simp only [stepErr]
      rw [placedIn_append, placedIn_single, hcnt]
      simp [allCoverOf, mkEntry]
  · rw [hs1] at hstep
    cases hstep
    right
    have hid' := hid
    unfold identifyOf at hid'
    rw [hid'] at hspec
    obtain ⟨_, hone, hcand⟩ := hspec
    obtain ⟨_, hbu⟩ := identifyOf_ok_bound hid
    have hnp := flagged_not_nonPtm horig hinv ha0 hp (fun a => (nIdxsOf orig key).contains a.key)
    have h1 : cov.countP (fun e => (patoms e.2).contains a0.key) = 1 := hone g0 hg0 hu0 _ hag0 hnp
    have h0 : used.countP (fun e => (patoms e.2).contains a0.key) = 0 := by
      rw [List.countP_eq_zero]
      intro c hc hcon
      obtain ⟨g, hg, hne, hsub⟩ := hbu c hc
      have : g = g0 := atomsOf_unique hnd hg hg0 (hsub _ (by simpa using hcon)) hag0
      exact hne (this ▸ hu0)
    have hall : (used ++ cov).countP (fun e => (patoms e.2).contains a0.key) = 1 := by
      rw [List.countP_append, h0, h1]
    have hkeys : (stepOk mods orig s key groups given used cov).mol.keys = s.mol.keys := by
      simp only [stepOk, Mol.keys]
      rw [foldl_applyOne_keys]
    refine ⟨?_, ?_, Iff.rfl, used, cov, rfl, ?_⟩
    · simp only [stepOk]
      rw [placedIn_append, placedIn_single, hcnt]
      simpa [allCoverOf, mkEntry] using hall
    · rw [hkeys]; exact hin
    · intro hok
      have hpos : 0 < cov.countP (fun e => (patoms e.2).contains a0.key) := by omega
      obtain ⟨e, he, hcon⟩ := List.countP_pos_iff.1 hpos
      have hae : a0.key ∈ patoms e.2 := by simpa using hcon
      obtain ⟨f, hf, hf1, hf2⟩ := hcand e he
      have href : e.2 ∈ refPlacements (resOf orig s key) (edgesOf orig s key) (modAt mods e.1) ptmPred := by
        have hsame : sameSet f.2 (refPlacements (resOf orig s key) (edgesOf orig s key) (modAt mods f.1) ptmPred)
            = true := by
          unfold candsOk at hok
          simp only [Bool.and_eq_true, List.all_eq_true] at hok
          exact hok.2 f hf
        unfold sameSet at hsame
        simp only [Bool.and_eq_true, List.all_eq_true, List.contains_iff_mem] at hsame
        rw [← hf1]
        simpa using hsame.1.1 e.2 hf2
      obtain ⟨hnodup, hpairs, _⟩ := refPlacements_mem href
      obtain ⟨tq, htq, htq1⟩ := List.mem_map.1 hae
      obtain ⟨t, q⟩ := tq
      simp only at htq1
      subst htq1
      obtain ⟨mp, rt, hmp, hrt, hrp, hel, _⟩ := ptmPred_true (hpairs _ htq).2
      simp only at hmp hrt hrp hel
      have hinside : ∀ x ∈ patoms e.2, x ∈ nIdxsOf orig key := by
        intro x hx
        obtain ⟨tq', htq', rfl⟩ := List.mem_map.1 hx
        obtain ⟨b, hb, hkb⟩ := List.mem_map.1 (hpairs _ htq').1
        have := (List.mem_filter.1 hb).2
        rw [hkb] at this
        simpa using this
      have hbefore : attrsAt (resOf orig s key) a0.key = some a0.attrs := by
        unfold attrsAt resOf
        rw [atomAt_filter_keep]
        · exact hat
        · intro b _ hkb
          rw [hkb]
          simpa using hinside _ hae
      have hrt' : rt.attrs = a0.attrs := by
        unfold attrsAt at hbefore
        rw [hrt] at hbefore
        simpa using hbefore
      have hrtmem := atomAt_mem hrt
      have hrts : rt ∈ s.mol.atoms := (List.mem_filter.1 hrtmem.1).1
      have hptm : mp.ptm = true := by
        rw [← hrp]
        have := inv_imm horig hinv ha0 hrts hrtmem.2
        have h2 : rt.ptm = a0.ptm := congrArg (fun x => x.2.2) this
        rw [h2, hp]
      obtain ⟨b, hb⟩ := atomAt_of_mem_keys hin
      obtain ⟨b0, _, hfin⟩ := attrsAt_foldl_own mods (nIdxsOf orig key) (used ++ cov) s.mol.atoms a0.key e
        (List.mem_append_right _ he) hall hnodup q htq mp hmp b hb
      refine ⟨e, q, mp, (applyPair mp b0).attrs, ?_⟩
      refine { inLog := by simp [stepOk], result := rfl, inCov := he, pair := htq, node := hmp, isPtm := hptm,
               cand := ⟨f, hf, hf1, hf2⟩, ref := href, before := hbefore,
               elem := by rw [← hrt']; exact hel hptm,
               inside := hinside, attrs := hfin,
               name := fun nm hname hwf => applyPair_name mp b0 hptm nm hname hwf,
               repl := fun rep hr hwf kv hkv hne => applyPair_replace mp b0 rep hr (hwf.2 rep hr) kv hkv hne,
               labels := ?_ }
      intro b' hb' hbn e' he'
      obtain ⟨_, _, _, _, hl⟩ := foldl_applyOne_spec mods (nIdxsOf orig key) (used ++ cov) s.mol.atoms hb'
      exact hl hbn e' he'

/-! ### the whole loop, one flagged atom -/

/-- every recorded candidate list of the run passed `candsOk` (checked by the driver on every run) -/
def LogOk (log : List IterLog) : Prop := ∀ l ∈ log, l.candsOk = true

instance (log : List IterLog) : Decidable (LogOk log) := by unfold LogOk; infer_instance

/-- the verdict on a flagged atom in the final state -/
def Full (mods : List Modif) (orig : List Atom) (a0 : Atom) (s : St) : Prop :=
  (a0.key ∉ s.mol.keys ∧ a0.key ∈ s.removed ∧ (∃ w ∈ s.warnings, a0.key ∈ w) ∧ placedIn s.log a0.key = 0)
  ∨ (a0.key ∈ s.mol.keys ∧ a0.key ∉ s.removed ∧ placedIn s.log a0.key = 1
      ∧ ∃ l used cov e q ma att, Placed mods orig a0 s l used cov e q ma att)

theorem runIters_full (mods : List Modif) (orig : List Atom) (horig : (orig.map (·.key)).Nodup)
    {a0 : Atom} (ha0 : a0 ∈ orig) (hp : a0.ptm = true) :
    ∀ (its : List (List Int × List Group)) (s : St) (given : List (List (List Placement))),
      Inv orig s → a0.key ∈ s.mol.keys → a0.key ∉ s.removed → placedIn s.log a0.key = 0 →
      attrsAt s.mol.atoms a0.key = some a0.attrs →
      (atomsOf (its.flatMap (·.2))).Nodup →
      (∀ it ∈ its, ∀ g ∈ it.2, a0.key ∉ g.anchors) →
      (∃ it ∈ its, ∃ g ∈ it.2, usedOf (annotOf orig) g = [] ∧ a0.key ∈ g.atoms) →
      ∃ s' : St, runIters mods orig s its given = .done s' ∧ Inv orig s' ∧ (LogOk s'.log → Full mods orig a0 s') := by
  intro its
  induction its with
  | nil =>
    intro s given _ _ _ _ _ _ _ hex
    obtain ⟨it, hit, _⟩ := hex
    simp at hit
  | cons it its ih =>
    intro s given hinv hin hnr hcnt hat hnd hanch hex
    obtain ⟨key, groups⟩ := it
    have hsplit : atomsOf (((key, groups) :: its).flatMap (·.2)) = atomsOf groups ++ atomsOf (its.flatMap (·.2)) := by
      unfold atomsOf
      rw [List.flatMap_cons, List.flatMap_append]
    rw [hsplit, List.nodup_append] at hnd
    obtain ⟨hnd1, hnd2, hdisj⟩ := hnd
    have not_allOf : ∀ (gs : List Group), a0.key ∉ atomsOf gs → (∀ g ∈ gs, a0.key ∉ g.anchors) → a0.key ∉ allOf gs := by
      intro gs h1 h2 h
      obtain ⟨g, hg, hx⟩ := List.mem_flatMap.1 h
      rcases List.mem_append.1 hx with h3 | h3
      · exact h1 (mem_atomsOf hg h3)
      · exact h2 g hg h3
    by_cases hown : ∃ g ∈ groups, usedOf (annotOf orig) g = [] ∧ a0.key ∈ g.atoms
    · -- the iteration of `a0`
      obtain ⟨g0, hg0, hu0, hag0⟩ := hown
      have hrest : ∀ it ∈ its, a0.key ∉ allOf it.2 := by
        intro it hit
        apply not_allOf
        · intro h
          have h1 : a0.key ∈ atomsOf (its.flatMap (·.2)) := by
            obtain ⟨g, hg, hx⟩ := List.mem_flatMap.1 h
            exact List.mem_flatMap.2 ⟨g, List.mem_flatMap.2 ⟨it, hit, hg⟩, hx⟩
          exact hdisj _ (mem_atomsOf hg0 hag0) _ h1 rfl
        · exact fun g hg => hanch it (by simp [hit]) g hg
      obtain ⟨s1, hs1, hinv1, hl1, hcase⟩ := step_own mods orig horig ha0 hp s key groups (given.headD []) hinv hin hat
        hnd1 hg0 hu0 hag0 hcnt
      obtain ⟨s2, hs2, hinv2, hl2, k1, k2, k3, k4⟩ := runIters_other_full mods orig horig ha0 hp its s1 given.tail
        hinv1 hrest
      refine ⟨s2, by simp only [runIters, hs1, hs2], hinv2, ?_⟩
      intro hok
      rcases hcase with ⟨c1, c2, ⟨w, hw, haw⟩, c4⟩ | ⟨c1, c2, c3, used, cov, hlog, hpl⟩
      · left
        exact ⟨fun h => c1 (k1.1 h), k4.2 c2, ⟨w, hl2.warns w hw, haw⟩, k3.trans c4⟩
      · right
        have hlmem : mkEntry mods orig s key groups (given.headD []) (some (used, cov)) ∈ s2.log := by
          obtain ⟨ext, hext⟩ := hl2.log
          rw [hext, hlog]
          simp
        obtain ⟨e, q, ma, att, hplaced⟩ := hpl (hok _ hlmem)
        exact ⟨k1.2 c2, fun h => hnr (c3.1 (k4.1 h)), k3.trans c1, _, used, cov, e, q, ma, att, hplaced.later hl2 k2⟩
    · -- another iteration comes first
      have hex' : ∃ it ∈ its, ∃ g ∈ it.2, usedOf (annotOf orig) g = [] ∧ a0.key ∈ g.atoms := by
        obtain ⟨it, hit, g, hg, hu, hag⟩ := hex
        rcases List.mem_cons.1 hit with rfl | hit
        · exact absurd ⟨g, hg, hu, hag⟩ hown
        · exact ⟨it, hit, g, hg, hu, hag⟩
      have hnot : a0.key ∉ allOf groups := by
        apply not_allOf
        · intro h
          obtain ⟨it, hit, g, hg, _, hag⟩ := hex'
          have h1 : a0.key ∈ atomsOf (its.flatMap (·.2)) :=
            List.mem_flatMap.2 ⟨g, List.mem_flatMap.2 ⟨it, hit, hg⟩, hag⟩
          exact hdisj _ h _ h1 rfl
        · exact fun g hg => hanch (key, groups) (by simp) g hg
      obtain ⟨s1, hs1, hinv1, _, k1, k2, k3, k4⟩ := step_other mods orig horig ha0 hp s key groups (given.headD [])
        hinv hnot
      obtain ⟨s2, hs2, hinv2, hfull⟩ := ih s1 given.tail hinv1 (k1.2 hin) (fun h => hnr (k4.1 h)) (k3.trans hcnt)
        (k2.trans hat) hnd2 (fun it hit => hanch it (by simp [hit])) hex'
      exact ⟨s2, by simp only [runIters, hs1, hs2], hinv2, hfull⟩

/-! ### what the log and the warnings record (every iteration, every kind of group) -/

/-- a log entry is the outcome of `allowed_ptms` / `identify_ptms` on the residue, groups and candidate
lists it records -/
def EntryWF (mods : List Modif) (orig : List Atom) (l : IterLog) : Prop :=
  l.allowedMods = allowed l.res l.edges mods ∧ l.candsOk = candsOk l.res l.edges mods l.given
  ∧ (∀ b ∈ l.res, b.key ∈ nIdxsOf orig l.key)
  ∧ (match l.result with
     | some (u, c) => identify l.res l.edges mods (annotOf orig) l.groups (l.allowedMods.zip l.given) = .ok u c
     | none => ∃ rm, identify l.res l.edges mods (annotOf orig) l.groups (l.allowedMods.zip l.given) = .keyError rm)

/-- the atoms the warning of a failed iteration names: what the (mutated) sets of `identify_ptms` hold when
it raises -/
def warnOf (mods : List Modif) (orig : List Atom) (l : IterLog) : Option (List Int) :=
  match l.result with
  | some _ => none
  | none =>
    match identify l.res l.edges mods (annotOf orig) l.groups (l.allowedMods.zip l.given) with
    | .keyError rm => some rm
    | _ => none

structure Shape (mods : List Modif) (orig : List Atom) (s : St) : Prop where
  wf : ∀ l ∈ s.log, EntryWF mods orig l
  /-- exactly one warning per iteration that ended in `KeyError`, in order, naming the atoms `warnOf` -/
  warns : s.warnings = s.log.filterMap (warnOf mods orig)
  wlog : s.wlog.map (fun w => w.atoms.map Prod.fst) = s.warnings
  /-- the removed atoms, in order, are a sub-list of the atoms named by the warnings -/
  removed : s.removed.Sublist (s.warnings.flatMap id)
  gone : ∀ x ∈ s.removed, x ∉ s.mol.keys ∧ ∃ a ∈ orig, a.key = x ∧ a.ptm = true
  only : ∀ a ∈ orig, a.key ∉ s.mol.keys → a.key ∈ s.removed
  /-- the modifications of an identified iteration stay on every surviving atom of the residues of its key -/
  labels : ∀ l ∈ s.log, ∀ u c, l.result = some (u, c) → ∀ b ∈ s.mol.atoms, b.key ∈ nIdxsOf orig l.key →
    ∀ e ∈ u ++ c, e.1 ∈ b.mods
  /-- a removed atom is named by the warning of a failed iteration ... -/
  removedFrom : ∀ x ∈ s.removed, ∃ l ∈ s.log, ∃ rm, warnOf mods orig l = some rm ∧ x ∈ rm
  /-- ... and every flagged atom such a warning names has been removed -/
  removedAll : ∀ l ∈ s.log, ∀ rm, warnOf mods orig l = some rm → ∀ a ∈ orig, a.key ∈ rm → a.ptm = true →
    a.key ∈ s.removed

theorem mkEntry_wf (mods : List Modif) (orig : List Atom) (s : St) (key : List Int) (groups : List Group)
    (given : List (List Placement)) (r : Option (Cover × Cover))
    (h : match r with
      | some (u, c) => identifyOf mods orig s key groups given = .ok u c
      | none => ∃ rm, identifyOf mods orig s key groups given = .keyError rm) :
    EntryWF mods orig (mkEntry mods orig s key groups given r) := by
  refine ⟨rfl, rfl, ?_, ?_⟩
  · intro b hb
    have := (List.mem_filter.1 hb).2
    show b.key ∈ nIdxsOf orig key
    simpa using this
  · cases r with
    | none => exact h
    | some uc => exact h

theorem isFlagged_orig {orig : List Atom} {s : St} (hinv : Inv orig s) {x : Int} (h : isFlagged s.mol x = true) :
    ∃ a ∈ orig, a.key = x ∧ a.ptm = true := by
  unfold isFlagged Mol.atom? at h
  cases hf : s.mol.atoms.find? (fun a => a.key == x) with
  | none => rw [hf] at h; cases h
  | some b =>
    rw [hf] at h
    simp only at h
    have hb : b ∈ s.mol.atoms := List.mem_of_find?_eq_some hf
    have hkb : b.key = x := by simpa using List.find?_some hf
    have : imm b ∈ orig.map imm := hinv.subset (List.mem_map.2 ⟨b, hb, rfl⟩)
    obtain ⟨a, ha, hia⟩ := List.mem_map.1 this
    refine ⟨a, ha, (congrArg Prod.fst hia).trans hkb, ?_⟩
    have : a.ptm = b.ptm := congrArg (fun x => x.2.2) hia
    rw [this, h]

theorem step_shape (mods : List Modif) (orig : List Atom) (horig : (orig.map (·.key)).Nodup) (s : St)
    (key : List Int) (groups : List Group)
    (given : List (List Placement)) (hinv : Inv orig s) (hsh : Shape mods orig s) :
    ∃ s' : St, step mods orig s key groups given = .done s' ∧ Inv orig s' ∧ Shape mods orig s'
      ∧ ∃ l, s'.log = s.log ++ [l] ∧ l.key = key ∧ l.groups = groups ∧ l.given = given := by
  obtain ⟨s1, hs1, hinv1, hlater, _⟩ := step_frame mods orig s key groups given hinv
  refine ⟨s1, hs1, hinv1, ?_⟩
  rcases step_cases mods orig s key groups given with ⟨rm, hid, hstep⟩ | ⟨used, cov, hid, hstep⟩
  · rw [hs1] at hstep
    cases hstep
    refine ⟨?_, _, rfl, rfl, rfl, rfl⟩
    have hwf := mkEntry_wf mods orig s key groups given none ⟨rm, hid⟩
    have hwarn : warnOf mods orig (mkEntry mods orig s key groups given none) = some rm := by
      have hid' := hid
      unfold identifyOf at hid'
      unfold warnOf
      simp only [mkEntry, hid']
    refine ⟨?_, ?_, ?_, ?_, ?_, ?_, ?_, ?_, ?_⟩
    · intro l hl
      simp only [stepErr] at hl
      rcases List.mem_append.1 hl with h | h
      · exact hsh.wf l h
      · simp only [List.mem_singleton] at h; subst h; exact hwf
    · simp only [stepErr]
      rw [List.filterMap_append, ← hsh.warns]
      simp [hwarn]
    · simp only [stepErr]
      rw [List.map_append, hsh.wlog]
      simp [warnRec, List.map_map, Function.comp_def]
    · simp only [stepErr]
      rw [List.flatMap_append]
      refine List.Sublist.append hsh.removed ?_
      simp
    · intro x hx
      simp only [stepErr] at hx ⊢
      rw [mem_removeAtoms_keys]
      rcases List.mem_append.1 hx with h | h
      · exact ⟨fun h' => (hsh.gone x h).1 h'.1, (hsh.gone x h).2⟩
      · exact ⟨fun h' => h'.2 h, isFlagged_orig hinv (List.mem_filter.1 h).2⟩
    · intro a ha hna
      simp only [stepErr] at hna ⊢
      rw [mem_removeAtoms_keys] at hna
      by_cases h : a.key ∈ s.mol.keys
      · apply List.mem_append_right
        apply Classical.byContradiction
        intro hn
        exact hna ⟨h, hn⟩
      · exact List.mem_append_left _ (hsh.only a ha h)
    · intro l hl u c hres b hb hbn e he
      simp only [stepErr] at hl hb
      rcases List.mem_append.1 hl with h | h
      · exact hsh.labels l h u c hres b (List.mem_filter.1 hb).1 hbn e he
      · simp only [List.mem_singleton] at h
        subst h
        simp [mkEntry] at hres
    · intro x hx
      simp only [stepErr] at hx ⊢
      rcases List.mem_append.1 hx with h | h
      · obtain ⟨l, hl, rm', h1, h2⟩ := hsh.removedFrom x h
        exact ⟨l, List.mem_append_left _ hl, rm', h1, h2⟩
      · exact ⟨_, List.mem_append_right _ (by simp), rm, hwarn, (List.mem_filter.1 h).1⟩
    · intro l hl rm' hw a ha harm hap
      simp only [stepErr] at hl ⊢
      rcases List.mem_append.1 hl with h | h
      · exact List.mem_append_left _ (hsh.removedAll l h rm' hw a ha harm hap)
      · simp only [List.mem_singleton] at h
        subst h
        rw [hwarn] at hw
        cases hw
        by_cases hin : a.key ∈ s.mol.keys
        · exact List.mem_append_right _ (List.mem_filter.2 ⟨harm, (isFlagged_eq horig hinv ha hin).trans hap⟩)
        · exact List.mem_append_left _ (hsh.only a ha hin)
  · rw [hs1] at hstep
    cases hstep
    refine ⟨?_, _, rfl, rfl, rfl, rfl⟩
    have hwf := mkEntry_wf mods orig s key groups given (some (used, cov)) hid
    have hkeys : (stepOk mods orig s key groups given used cov).mol.keys = s.mol.keys := by
      simp only [stepOk, Mol.keys]
      rw [foldl_applyOne_keys]
    have hwarn : warnOf mods orig (mkEntry mods orig s key groups given (some (used, cov))) = none := by
      simp [warnOf, mkEntry]
    refine ⟨?_, ?_, hsh.wlog, hsh.removed, ?_, ?_, ?_, ?_, ?_⟩
    · intro l hl
      simp only [stepOk] at hl
      rcases List.mem_append.1 hl with h | h
      · exact hsh.wf l h
      · simp only [List.mem_singleton] at h; subst h; exact hwf
    · simp only [stepOk]
      rw [List.filterMap_append, ← hsh.warns]
      simp [warnOf, mkEntry]
    · intro x hx
      rw [hkeys]
      exact hsh.gone x hx
    · intro a ha hna
      rw [hkeys] at hna
      exact hsh.only a ha hna
    · intro l hl u c hres b hb hbn e he
      rcases List.mem_append.1 (show l ∈ s.log ++ [_] from hl) with h | h
      · obtain ⟨b0, hb0, hkb, hm⟩ := hlater.atoms b hb
        exact hm _ (hsh.labels l h u c hres b0 hb0 (hkb ▸ hbn) e he)
      · simp only [List.mem_singleton] at h
        subst h
        have : (u, c) = (used, cov) := by simpa [mkEntry] using hres.symm
        cases this
        obtain ⟨_, _, _, _, hlab⟩ := foldl_applyOne_spec mods (nIdxsOf orig key) (used ++ cov) s.mol.atoms hb
        exact hlab hbn e he
    · intro x hx
      obtain ⟨l, hl, rm', h1, h2⟩ := hsh.removedFrom x hx
      exact ⟨l, List.mem_append_left _ hl, rm', h1, h2⟩
    · intro l hl rm' hw a ha harm hap
      rcases List.mem_append.1 (show l ∈ s.log ++ [_] from hl) with h | h
      · exact hsh.removedAll l h rm' hw a ha harm hap
      · simp only [List.mem_singleton] at h
        subst h
        rw [hwarn] at hw
        cases hw

theorem runIters_shape (mods : List Modif) (orig : List Atom) (horig : (orig.map (·.key)).Nodup) :
    ∀ (its : List (List Int × List Group)) (s : St) (given : List (List (List Placement))),
      Inv orig s → Shape mods orig s →
      ∃ s' : St, runIters mods orig s its given = .done s' ∧ Inv orig s' ∧ Shape mods orig s'
        ∧ ∃ ext, s'.log = s.log ++ ext ∧ ext.map (fun l => (l.key, l.groups)) = its := by
  intro its
  induction its with
  | nil => intro s given hinv hsh; exact ⟨s, rfl, hinv, hsh, [], by simp, rfl⟩
  | cons it its ih =>
    intro s given hinv hsh
    obtain ⟨key, groups⟩ := it
    obtain ⟨s1, hs1, hinv1, hsh1, l, hl, hk, hg, _⟩ := step_shape mods orig horig s key groups (given.headD []) hinv hsh
    obtain ⟨s2, hs2, hinv2, hsh2, ext, hext, hmap⟩ := ih s1 given.tail hinv1 hsh1
    refine ⟨s2, by simp only [runIters, hs1, hs2], hinv2, hsh2, l :: ext, ?_, ?_⟩
    · rw [hext, hl]; simp
    · simp [hk, hg, hmap]

theorem identify_annotated (res : List Atom) (edges : List (Int × Int)) (mods : List Modif)
    (annot : Int → List Nat) (groups : List Group) (frags : List Frag) (used cov : Cover)
    (h : identify res edges mods annot groups frags = .ok used cov) :
    ∀ g ∈ groups, usedOf annot g ≠ [] → ∀ a ∈ g.atoms, ∃ e ∈ used, a ∈ patoms e.2 := by
  unfold identify at h
  cases hl : identifyLoop res edges mods annot groups [] [] [] with
  | inr r =>
    rw [hl] at h
    simp only [] at h
    subst h
    obtain ⟨rm, hr, _⟩ := identifyLoop_inr _ _ _ _ _ hl
    cases hr
  | inl x =>
    obtain ⟨cov0, tc, pending⟩ := x
    rw [hl] at h
    simp only [] at h
    obtain ⟨_, _, _, i4⟩ := identifyLoop_inl _ _ _ _ _ _ _ hl
    cases hc : coverGraph (nonPtm res) tc.length tc frags with
    | outOfFuel => rw [hc] at h; cases h
    | keyError => rw [hc] at h; cases h
    | ok c =>
      rw [hc] at h
      simp only [IdRes.ok.injEq] at h
      obtain ⟨rfl, rfl⟩ := h
      intro g hg hu a ha
      exact (i4 g hg).2 hu a ha

theorem flatMap_unique {α β} {L : List α} {f : α → List β} (hnd : (L.flatMap f).Nodup) {l l' : α}
    (hl : l ∈ L) (hl' : l' ∈ L) {x : β} (hx : x ∈ f l) (hx' : x ∈ f l') : l = l' := by
  induction L with
  | nil => simp at hl
  | cons h t ih =>
    rw [List.flatMap_cons, List.nodup_append] at hnd
    obtain ⟨_, hnt, hdisj⟩ := hnd
    have mem_t : ∀ {k : α}, k ∈ t → x ∈ f k → x ∈ t.flatMap f := fun hk hxk => List.mem_flatMap.2 ⟨_, hk, hxk⟩
    rcases List.mem_cons.1 hl with rfl | hlt <;> rcases List.mem_cons.1 hl' with rfl | hlt'
    · rfl
    · exact absurd rfl (hdisj _ hx _ (mem_t hlt' hx'))
    · exact absurd rfl (hdisj _ hx' _ (mem_t hlt hx))
    · exact ih hnt hlt hlt'

theorem shape_init (mods : List Modif) (m : Mol) :
    Shape mods m.atoms { mol := m, removed := [], warnings := [], log := [], wlog := [] } := by
  refine ⟨by simp, by simp, by simp, by simp, by simp, ?_, by simp, by simp, by simp⟩
  intro a ha hna
  exact absurd (List.mem_map.2 ⟨a, ha, rfl⟩) hna

theorem attrsAt_self {atoms : List Atom} (hk : (atoms.map (·.key)).Nodup) {a0 : Atom} (ha0 : a0 ∈ atoms) :
    attrsAt atoms a0.key = some a0.attrs := by
  obtain ⟨b, hb⟩ := atomAt_of_mem_keys (List.mem_map.2 ⟨a0, ha0, rfl⟩)
  obtain ⟨hbm, hbk⟩ := atomAt_mem hb
  have : b = a0 := eq_of_key_eq hk hbm ha0 hbk
  unfold attrsAt
  rw [hb, this]
  rfl

/-- for concrete witnesses: `List.mergeSort` is defined by well-founded recursion and does not reduce in the
kernel on two or more elements -/
theorem mergeSort_pair {α} (a b : α) (le : α → α → Bool) :
    [a, b].mergeSort le = if le a b then [a, b] else [b, a] := by
  simp [List.mergeSort, List.MergeSort.Internal.splitInTwo, List.merge]

theorem mem_insertSorted (x : Int) (l : List Int) (y : Int) : y ∈ insertSorted x l ↔ y = x ∨ y ∈ l := by
  induction l with
  | nil => simp [insertSorted]
  | cons z l ih =>
    simp only [insertSorted]
    split
    · simp
    · simp only [List.mem_cons, ih]
      constructor
      · rintro (h | h | h)
        · exact Or.inr (Or.inl h)
        · exact Or.inl h
        · exact Or.inr (Or.inr h)
      · rintro (h | h | h)
        · exact Or.inr (Or.inl h)
        · exact Or.inl h
        · exact Or.inr (Or.inr h)

theorem mem_sortInts (l : List Int) (y : Int) : y ∈ sortInts l ↔ y ∈ l := by
  unfold sortInts
  induction l with
  | nil => simp
  | cons x l ih => simp only [List.foldr_cons, mem_insertSorted, ih, List.mem_cons]

/-- every run of `groupby` is non-empty and all its members carry the key of the run -/
theorem groupRuns_mem (l : List (List Int × Group)) :
    ∀ it ∈ groupRuns l, it.2 ≠ [] ∧ ∀ g ∈ it.2, (it.1, g) ∈ l := by
  induction l with
  | nil => intro it hit; simp [groupRuns] at hit
  | cons x rest ih =>
    obtain ⟨k, g⟩ := x
    intro it hit
    simp only [groupRuns] at hit
    split at hit
    · next k' gs more heq =>
      rw [heq] at ih
      split at hit
      · next hkk =>
        have hk : k = k' := by simpa using hkk
        rcases List.mem_cons.1 hit with rfl | hit
        · refine ⟨by simp, ?_⟩
          intro g' hg'
          rcases List.mem_cons.1 hg' with rfl | hg'
          · simp
          · have := (ih (k', gs) (by simp)).2 g' hg'
            simp only at this
            rw [hk]
            exact List.mem_cons_of_mem _ this
        · have := ih it (List.mem_cons_of_mem _ hit)
          exact ⟨this.1, fun g' hg' => List.mem_cons_of_mem _ (this.2 g' hg')⟩
      · rcases List.mem_cons.1 hit with rfl | hit
        · exact ⟨by simp, by simp⟩
        · have := ih it hit
          exact ⟨this.1, fun g' hg' => List.mem_cons_of_mem _ (this.2 g' hg')⟩
    · next heq =>
      simp only [List.mem_singleton] at hit
      subst hit
      exact ⟨by simp, by simp⟩

end C14
