import VermouthModel.C14
/-!
Helper lemmas for C14: the recursion of `_cover_graph` (inversion lemmas, termination, exactness,
completeness of the backtracking).
-/
namespace C14

/-! ### tests in front of the recursive call -/

/-- what a placement test must guarantee for the recursion to make progress -/
def Progress (usF : List Int → List Int → Placement → Bool) : Prop :=
  ∀ avail tc p, usF avail tc p = true → (patoms p).any (fun a => tc.contains a) = true

/-- ... and to stay inside the available atoms -/
def Inside (usF : List Int → List Int → Placement → Bool) : Prop :=
  ∀ avail tc p, usF avail tc p = true → ∀ a ∈ patoms p, a ∈ avail

theorem usable_progress : Progress usable := by
  intro avail tc p h
  unfold usable at h
  simp only [Bool.and_eq_true] at h
  exact h.2

theorem usable_inside : Inside usable := by
  intro avail tc p h a ha
  unfold usable at h
  simp only [Bool.and_eq_true, List.all_eq_true] at h
  simpa using h.1 a ha

theorem usable_iff (avail tc : List Int) (p : Placement) :
    usable avail tc p = true ↔ (∀ a ∈ patoms p, a ∈ avail) ∧ ∃ a ∈ patoms p, a ∈ tc := by
  unfold usable
  simp [List.all_eq_true, List.any_eq_true]

theorem mem_minus {tc : List Int} {p : Placement} {a : Int} :
    a ∈ minus tc p ↔ a ∈ tc ∧ a ∉ patoms p := by
  unfold minus
  simp

theorem minus_length_lt {tc : List Int} {p : Placement}
    (h : (patoms p).any (fun a => tc.contains a) = true) : (minus tc p).length < tc.length := by
  unfold minus
  rw [List.length_filter_lt_length_iff_exists]
  simp only [List.any_eq_true] at h
  obtain ⟨a, ha, hat⟩ := h
  exact ⟨a, by simpa using hat, by simpa using ha⟩

/-! ### inversion of the two loops -/

theorem tryMatches_ok {us : Placement → Bool} {tc : List Int} {i : Nat} {rec : List Int → Res}
    {ms : List Placement} {c : Cover} (h : tryMatches us tc i rec ms = .ok c) :
    ∃ m ∈ ms, us m = true ∧ ∃ r, rec (minus tc m) = .ok r ∧ c = (i, m) :: r := by
  induction ms with
  | nil => simp [tryMatches] at h
  | cons m ms ih =>
    unfold tryMatches at h
    split at h
    · next hu =>
      split at h
      · next r hr =>
        refine ⟨m, by simp, hu, r, hr, ?_⟩
        cases h; rfl
      · obtain ⟨m', hm', rest⟩ := ih h
        exact ⟨m', by simp [hm'], rest⟩
      · cases h
    · obtain ⟨m', hm', rest⟩ := ih h
      exact ⟨m', by simp [hm'], rest⟩

theorem tryFrags_ok {us : Placement → Bool} {tc : List Int} {rec : List Frag → List Int → Res}
    {frs : List Frag} {c : Cover} (h : tryFrags us tc rec frs = .ok c) :
    ∃ pre f post, frs = pre ++ f :: post ∧
      ∃ m ∈ f.2, us m = true ∧ ∃ r, rec (f :: post) (minus tc m) = .ok r ∧ c = (f.1, m) :: r := by
  induction frs with
  | nil => simp [tryFrags] at h
  | cons f fs ih =>
    unfold tryFrags at h
    split at h
    · obtain ⟨pre, f', post, hfs, rest⟩ := ih h
      exact ⟨f :: pre, f', post, by simp [hfs], rest⟩
    · next hne =>
      obtain ⟨m, hm, hu, r, hr, hc⟩ := tryMatches_ok h
      exact ⟨[], f, fs, rfl, m, hm, hu, r, hr, hc⟩

/-! ### termination: the fuel `to_cover.length` is never exhausted -/

theorem tryMatches_fuel {us : Placement → Bool} {tc : List Int} {i : Nat} {rec : List Int → Res}
    {ms : List Placement} (h : ∀ m ∈ ms, us m = true → rec (minus tc m) ≠ .outOfFuel) :
    tryMatches us tc i rec ms ≠ .outOfFuel := by
  induction ms with
  | nil => simp [tryMatches]
  | cons m ms ih =>
    unfold tryMatches
    split
    · next hu =>
      have h1 := h m (by simp) hu
      split
      · simp
      · exact ih fun m' hm' => h m' (by simp [hm'])
      · next hr => exact absurd hr h1
    · exact ih fun m' hm' => h m' (by simp [hm'])

theorem tryFrags_fuel {us : Placement → Bool} {tc : List Int} {rec : List Frag → List Int → Res}
    {frs : List Frag} (h : ∀ frs' m, us m = true → rec frs' (minus tc m) ≠ .outOfFuel) :
    tryFrags us tc rec frs ≠ .outOfFuel := by
  induction frs with
  | nil => simp [tryFrags]
  | cons f fs ih =>
    unfold tryFrags
    have h1 : tryMatches us tc f.1 (rec (f :: fs)) f.2 ≠ .outOfFuel :=
      tryMatches_fuel fun m _ hu => h (f :: fs) m hu
    split
    · exact ih
    · exact h1

theorem coverWith_fuel {usF : List Int → List Int → Placement → Bool} (hp : Progress usF) (np : List Int) :
    ∀ (n : Nat) (tc : List Int) (frs : List Frag), tc.length ≤ n → coverWith usF np n tc frs ≠ .outOfFuel := by
  intro n
  induction n with
  | zero =>
    intro tc frs h
    cases tc with
    | nil => simp [coverWith]
    | cons a tc => simp at h
  | succ n ih =>
    intro tc frs h
    cases tc with
    | nil => simp [coverWith]
    | cons a tc =>
      unfold coverWith
      apply tryFrags_fuel
      intro frs' m hu
      apply ih
      have := minus_length_lt (hp _ _ _ hu)
      omega

/-! ### soundness and exactness -/

/-- what `_cover_graph` promises about a returned cover -/
structure IsExactCover (np tc : List Int) (frs : List Frag) (c : Cover) : Prop where
  /-- every chosen placement is one of the candidates of its fragment -/
  cand : ∀ e ∈ c, ∃ f ∈ frs, f.1 = e.1 ∧ e.2 ∈ f.2
  /-- placements use only non-PTM atoms of the residue and atoms that were to be covered -/
  inside : ∀ e ∈ c, ∀ a ∈ patoms e.2, a ∈ np ∨ a ∈ tc
  /-- every atom to be covered is in some chosen placement -/
  covers : ∀ a ∈ tc, ∃ e ∈ c, a ∈ patoms e.2
  /-- two chosen placements share non-PTM atoms (anchors) only -/
  disjoint : c.Pairwise fun e e' => ∀ a, a ∈ patoms e.2 → a ∈ patoms e'.2 → a ∈ np

theorem coverWith_exact {usF : List Int → List Int → Placement → Bool} (hi : Inside usF) (np : List Int) :
    ∀ (n : Nat) (tc : List Int) (frs : List Frag) (c : Cover),
      coverWith usF np n tc frs = .ok c → IsExactCover np tc frs c := by
  intro n
  induction n with
  | zero =>
    intro tc frs c h
    cases tc with
    | nil =>
      simp only [coverWith, Res.ok.injEq] at h
      subst h
      exact ⟨by simp, by simp, by simp, List.Pairwise.nil⟩
    | cons a tc => simp [coverWith] at h
  | succ n ih =>
    intro tc frs c h
    cases tc with
    | nil =>
      simp only [coverWith, Res.ok.injEq] at h
      subst h
      exact ⟨by simp, by simp, by simp, List.Pairwise.nil⟩
    | cons a tc =>
      unfold coverWith at h
      obtain ⟨pre, f, post, hfrs, m, hm, hu, r, hr, hc⟩ := tryFrags_ok h
      have IH := ih _ _ _ hr
      have hin := hi _ _ _ hu
      subst hc
      refine ⟨?_, ?_, ?_, ?_⟩
      · intro e he
        rcases List.mem_cons.1 he with rfl | he
        · exact ⟨f, by simp [hfrs], rfl, hm⟩
        · obtain ⟨f', hf', h1, h2⟩ := IH.cand e he
          refine ⟨f', ?_, h1, h2⟩
          rw [hfrs]
          exact List.mem_append_right _ hf'
      · intro e he b hb
        rcases List.mem_cons.1 he with rfl | he
        · have := hin b hb
          rcases List.mem_append.1 this with h1 | h1
          · exact Or.inl h1
          · exact Or.inr h1
        · rcases IH.inside e he b hb with h1 | h1
          · exact Or.inl h1
          · exact Or.inr (mem_minus.1 h1).1
      · intro b hb
        by_cases hbm : b ∈ patoms m
        · exact ⟨(f.1, m), by simp, hbm⟩
        · obtain ⟨e, he, hbe⟩ := IH.covers b (mem_minus.2 ⟨hb, hbm⟩)
          exact ⟨e, by simp [he], hbe⟩
      · refine List.Pairwise.cons ?_ IH.disjoint
        intro e he b hbm hbe
        rcases IH.inside e he b hbe with h1 | h1
        · exact h1
        · exact absurd hbm (mem_minus.1 h1).2

/-! ### completeness of the backtracking -/

theorem tryMatches_complete {us : Placement → Bool} {tc : List Int} {i : Nat} {rec : List Int → Res}
    {ms : List Placement} (hfuel : ∀ m ∈ ms, us m = true → rec (minus tc m) ≠ .outOfFuel)
    {m : Placement} (hm : m ∈ ms) (hu : us m = true) {r : Cover} (hr : rec (minus tc m) = .ok r) :
    ∃ c, tryMatches us tc i rec ms = .ok c := by
  induction ms with
  | nil => simp at hm
  | cons m' ms ih =>
    unfold tryMatches
    by_cases hu' : us m' = true
    · simp only [hu', if_true]
      cases hrec : rec (minus tc m') with
      | ok r' => exact ⟨_, rfl⟩
      | outOfFuel => exact absurd hrec (hfuel m' (by simp) hu')
      | keyError =>
        rcases List.mem_cons.1 hm with rfl | hm
        · rw [hr] at hrec; cases hrec
        · exact ih (fun x hx => hfuel x (by simp [hx])) hm
    · simp only [hu']
      rcases List.mem_cons.1 hm with rfl | hm
      · exact absurd hu hu'
      · exact ih (fun x hx => hfuel x (by simp [hx])) hm

/-- an exact cover either starts (after reordering) with a useful placement of the first fragment,
or does not need the first fragment at all -/
theorem cover_split {np tc : List Int} {f : Frag} {fs : List Frag} {C : Cover}
    (h : IsExactCover np tc (f :: fs) C) :
    (∃ m ∈ f.2, usable (np ++ tc) tc m = true ∧ ∃ C', IsExactCover np (minus tc m) (f :: fs) C')
    ∨ ∃ C', IsExactCover np tc fs C' := by
  by_cases hex : ∃ e ∈ C, (e.1 = f.1 ∧ e.2 ∈ f.2) ∧ ∃ a ∈ patoms e.2, a ∈ tc
  · left
    obtain ⟨e, he, ⟨_, hef⟩, a, hae, hat⟩ := hex
    refine ⟨e.2, hef, ?_, ?_⟩
    · rw [usable_iff]
      refine ⟨?_, a, hae, hat⟩
      intro b hb
      rcases h.inside e he b hb with h1 | h1
      · exact List.mem_append_left _ h1
      · exact List.mem_append_right _ h1
    · obtain ⟨l1, l2, hC⟩ := List.append_of_mem he
      have hpw := h.disjoint
      rw [hC] at hpw
      have hsym : ∀ e' ∈ l1 ++ l2, ∀ b, b ∈ patoms e.2 → b ∈ patoms e'.2 → b ∈ np := by
        intro e' he' b hb hb'
        rw [List.pairwise_append] at hpw
        rcases List.mem_append.1 he' with h1 | h1
        · exact hpw.2.2 e' h1 e (by simp) b hb' hb
        · exact (List.pairwise_cons.1 hpw.2.1).1 e' h1 b hb hb'
      refine ⟨l1 ++ l2, ?_, ?_, ?_, ?_⟩
      · intro e' he'
        exact h.cand e' (by rw [hC]; rcases List.mem_append.1 he' with h1 | h1 <;> simp [h1])
      · intro e' he' b hb
        have hmem : e' ∈ C := by rw [hC]; rcases List.mem_append.1 he' with h1 | h1 <;> simp [h1]
        rcases h.inside e' hmem b hb with h1 | h1
        · exact Or.inl h1
        · by_cases hbe : b ∈ patoms e.2
          · exact Or.inl (hsym e' he' b hbe hb)
          · exact Or.inr (mem_minus.2 ⟨h1, hbe⟩)
      · intro b hb
        obtain ⟨hbt, hbe⟩ := mem_minus.1 hb
        obtain ⟨e', he', hb'⟩ := h.covers b hbt
        rw [hC] at he'
        rcases List.mem_append.1 he' with h1 | h1
        · exact ⟨e', List.mem_append_left _ h1, hb'⟩
        · rcases List.mem_cons.1 h1 with rfl | h1
          · exact absurd hb' hbe
          · exact ⟨e', List.mem_append_right _ h1, hb'⟩
      · rw [List.pairwise_append] at hpw ⊢
        exact ⟨hpw.1, (List.pairwise_cons.1 hpw.2.1).2, fun x hx y hy => hpw.2.2 x hx y (by simp [hy])⟩
  · right
    refine ⟨C.filter (fun e => (patoms e.2).any fun a => tc.contains a), ?_, ?_, ?_, ?_⟩
    · intro e he
      obtain ⟨heC, hany⟩ := List.mem_filter.1 he
      obtain ⟨f', hf', h1, h2⟩ := h.cand e heC
      rcases List.mem_cons.1 hf' with rfl | hf'
      · exfalso
        apply hex
        simp only [List.any_eq_true] at hany
        obtain ⟨a, ha, hat⟩ := hany
        exact ⟨e, heC, ⟨h1.symm, h2⟩, a, ha, by simpa using hat⟩
      · exact ⟨f', hf', h1, h2⟩
    · intro e he
      exact h.inside e (List.mem_filter.1 he).1
    · intro a ha
      obtain ⟨e, he, hae⟩ := h.covers a ha
      refine ⟨e, List.mem_filter.2 ⟨he, ?_⟩, hae⟩
      simp only [List.any_eq_true]
      exact ⟨a, hae, by simpa using ha⟩
    · exact h.disjoint.filter _

theorem coverGraph_complete (np : List Int) :
    ∀ (n : Nat) (tc : List Int) (frs : List Frag), tc.length ≤ n →
      (∃ C, IsExactCover np tc frs C) → ∃ c, coverGraph np n tc frs = .ok c := by
  intro n
  induction n with
  | zero =>
    intro tc frs h _
    cases tc with
    | nil => exact ⟨[], by simp [coverGraph, coverWith]⟩
    | cons a tc => simp at h
  | succ n ih =>
    intro tc frs h hC
    cases tc with
    | nil => exact ⟨[], by simp [coverGraph, coverWith]⟩
    | cons a tc =>
      unfold coverGraph coverWith
      have hfuel : ∀ frs' m, usable (np ++ a :: tc) (a :: tc) m = true →
          coverWith usable np n (minus (a :: tc) m) frs' ≠ .outOfFuel := by
        intro frs' m hu
        apply coverWith_fuel usable_progress
        have := minus_length_lt (usable_progress _ _ _ hu)
        omega
      induction frs with
      | nil =>
        obtain ⟨C, hC⟩ := hC
        obtain ⟨e, he, _⟩ := hC.covers a (by simp)
        obtain ⟨f, hf, _⟩ := hC.cand e he
        simp at hf
      | cons f fs ihf =>
        obtain ⟨C, hC⟩ := hC
        unfold tryFrags
        rcases cover_split hC with ⟨m, hm, hu, C', hC'⟩ | ⟨C', hC'⟩
        · have hlen : (minus (a :: tc) m).length ≤ n := by
            have := minus_length_lt (usable_progress _ _ _ hu)
            omega
          obtain ⟨r, hr⟩ := ih _ (f :: fs) hlen ⟨C', hC'⟩
          have hr' : (fun tc' => coverWith usable np n tc' (f :: fs)) (minus (a :: tc) m) = .ok r := hr
          obtain ⟨c, hc⟩ := tryMatches_complete (i := f.1) (tc := a :: tc)
            (rec := fun tc' => coverWith usable np n tc' (f :: fs))
            (fun m' _ hu' => hfuel (f :: fs) m' hu') hm hu hr'
          rw [hc]
          exact ⟨c, rfl⟩
        · have h1 : tryMatches (usable (np ++ a :: tc) (a :: tc)) (a :: tc) f.1
              (fun tc' => coverWith usable np n tc' (f :: fs)) f.2 ≠ .outOfFuel :=
            tryMatches_fuel fun m' _ hu' => hfuel (f :: fs) m' hu'
          cases hres : tryMatches (usable (np ++ a :: tc) (a :: tc)) (a :: tc) f.1
              (fun tc' => coverWith usable np n tc' (f :: fs)) f.2 with
          | ok c => exact ⟨c, rfl⟩
          | outOfFuel => exact absurd hres h1
          | keyError => exact ihf ⟨C', hC'⟩

end C14
