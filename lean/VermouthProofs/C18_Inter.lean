import VermouthModel.C18_Inter
/-! helper lemmas for `VermouthProps/C18_Inter.lean`: the `defaultdict(list)` table operations and
the loop that also reports the pairs emitted before an abort -/
namespace C18

theorem tabGet_extend_same (t : ITable) (n : String) (items : List Inter) :
    tabGet (tabExtend t n items) n = tabGet t n ++ items := by
  induction t with
  | nil => simp [tabExtend, tabGet]
  | cons e rest ih =>
    obtain ⟨m, l⟩ := e
    by_cases h : m = n
    · simp [tabExtend, tabGet, h]
    · simp [tabExtend, tabGet, h, ih]

theorem tabGet_extend_other (t : ITable) (n m : String) (items : List Inter) (hne : m ≠ n) :
    tabGet (tabExtend t n items) m = tabGet t m := by
  induction t with
  | nil =>
    have : ¬ n = m := fun h => hne h.symm
    simp [tabExtend, tabGet, this]
  | cons e rest ih =>
    obtain ⟨k, l⟩ := e
    by_cases h : k = n
    · subst h
      have : ¬ k = m := fun h => hne h.symm
      simp [tabExtend, tabGet, this]
    · by_cases h2 : k = m
      · subst h2
        have hk : ¬ k = n := h
        simp [tabExtend, tabGet, hk]
      · simp [tabExtend, tabGet, h, h2, ih]

theorem tabKeys_extend (t : ITable) (n : String) (items : List Inter) :
    (tabExtend t n items).map (·.1) = if tabHas t n then t.map (·.1) else t.map (·.1) ++ [n] := by
  induction t with
  | nil => simp [tabExtend, tabHas]
  | cons e rest ih =>
    obtain ⟨k, l⟩ := e
    by_cases h : k = n
    · simp [tabExtend, tabHas, h]
    · simp only [tabExtend, tabHas, h, if_false, List.map_cons, ih]
      split <;> simp

theorem tabHas_extend (t : ITable) (n : String) (items : List Inter) : tabHas (tabExtend t n items) n = true := by
  induction t with
  | nil => simp [tabExtend, tabHas]
  | cons e rest ih =>
    obtain ⟨k, l⟩ := e
    by_cases h : k = n
    · simp [tabExtend, tabHas, h]
    · simp [tabExtend, tabHas, h, ih]

theorem tabGet_appendEach_same (t : ITable) (n : String) (items : List Inter) :
    tabGet (tabAppendEach t n items) n = tabGet t n ++ items := by
  unfold tabAppendEach
  split
  · rename_i h
    have : items = [] := by simpa using h
    simp [this]
  · exact tabGet_extend_same t n items

theorem tabGet_appendEach_other (t : ITable) (n m : String) (items : List Inter) (hne : m ≠ n) :
    tabGet (tabAppendEach t n items) m = tabGet t m := by
  unfold tabAppendEach
  split
  · rfl
  · exact tabGet_extend_other t n m items hne

theorem tabKeys_appendEach (t : ITable) (n : String) (items : List Inter) :
    (tabAppendEach t n items).map (·.1)
      = if tabHas t n || items.isEmpty then t.map (·.1) else t.map (·.1) ++ [n] := by
  unfold tabAppendEach
  by_cases h : items.isEmpty = true
  · simp [h]
  · have h' : items.isEmpty = false := by simpa using h
    rw [if_neg h, tabKeys_extend]
    simp [h']

theorem dictAppendEach_getD {α : Type} (t : Option (List α)) (items : List α) :
    (dictAppendEach t items).getD [] = t.getD [] ++ items := by
  unfold dictAppendEach
  split
  · rename_i h
    have : items = [] := by simpa using h
    simp [this]
  · simp

theorem dictAppendEach_isSome {α : Type} (t : Option (List α)) (items : List α) :
    (dictAppendEach t items).isSome = (t.isSome || !items.isEmpty) := by
  unfold dictAppendEach
  by_cases h : items.isEmpty = true
  · simp [h]
  · simp [h]

theorem runLoopP_fst (vs : List Verdict) (s : LoopState) : (runLoopP vs s).1 = runLoop vs s := by
  induction vs generalizing s with
  | nil => rfl
  | cons v r ih =>
    cases v with
    | skip => simpa [runLoopP, runLoop] using ih s
    | exit => rfl
    | keyerror => rfl
    | cand c => simpa [runLoopP, runLoop] using ih (step s c)

theorem runLoopP_ok (vs : List Verdict) (s : LoopState) (out : List Cand) (h : runLoop vs s = .ok out) :
    (runLoopP vs s).2 = out := by
  induction vs generalizing s with
  | nil => simpa [runLoopP, runLoop] using h
  | cons v r ih =>
    cases v with
    | skip => exact ih s (by simpa [runLoop] using h)
    | exit => simp [runLoop] at h
    | keyerror => simp [runLoop] at h
    | cand c => exact ih (step s c) (by simpa [runLoop] using h)

theorem step_out_prefix (s : LoopState) (c : Cand) : s.out <+: (step s c).out := by
  unfold step
  split
  · exact List.prefix_append _ _
  · exact List.prefix_refl _

/-- the pairs reported at an abort are the first pairs of what a run without the aborting line (and
everything after it) would have emitted: an initial segment of the emission order -/
theorem runLoopP_prefix (vs : List Verdict) (s : LoopState) : s.out <+: (runLoopP vs s).2 := by
  induction vs generalizing s with
  | nil => exact List.prefix_refl _
  | cons v r ih =>
    cases v with
    | skip => exact ih s
    | exit => exact List.prefix_refl _
    | keyerror => exact List.prefix_refl _
    | cand c => exact List.IsPrefix.trans (step_out_prefix s c) (ih (step s c))

/-- what `runLoopP` reports is what the loop emits on an initial segment of the lines that ends normally
(the whole list when nothing aborts, the lines before the aborting one otherwise) -/
theorem runLoopP_take (vs : List Verdict) (s : LoopState) :
    ∃ k, k ≤ vs.length ∧ runLoop (vs.take k) s = .ok (runLoopP vs s).2 := by
  induction vs generalizing s with
  | nil => exact ⟨0, Nat.le_refl _, rfl⟩
  | cons v r ih =>
    cases v with
    | skip =>
      obtain ⟨k, hk, h⟩ := ih s
      exact ⟨k + 1, by simpa using hk, by simpa [runLoop, runLoopP] using h⟩
    | exit => exact ⟨0, Nat.zero_le _, rfl⟩
    | keyerror => exact ⟨0, Nat.zero_le _, rfl⟩
    | cand c =>
      obtain ⟨k, hk, h⟩ := ih (step s c)
      exact ⟨k + 1, by simpa using hk, by simpa [runLoop, runLoopP] using h⟩

end C18
