import VermouthModel.Iso
namespace Iso
end Iso
