import VermouthModel.Iso
/-! Theorems about the shared reference matcher `Iso` (core Lean only). -/
namespace Iso

/-! ### `extend` against its declarative reading -/

/-- every pair of `m` is acceptable against `acc` and against the earlier pairs of `m` -/
def Valid (P : Problem) : Map → Map → Prop
  | _, [] => True
  | acc, x :: rest => x.2 ∈ P.tnodes ∧ okNew P acc x.1 x.2 = true ∧ Valid P (x :: acc) rest

theorem mem_extend_valid (P : Problem) (ps : List Int) (acc m : Map) :
    m ∈ extend P ps acc ↔ m.map Prod.fst = ps ∧ Valid P acc m := by
  induction ps generalizing acc m with
  | nil =>
    cases m <;> simp [extend, Valid]
  | cons p ps ih =>
    simp only [extend, List.mem_flatMap, List.mem_filter, List.mem_map]
    constructor
    · rintro ⟨t, ⟨ht, hok⟩, m', hm', rfl⟩
      have h := (ih _ _).1 hm'
      exact ⟨by simp [h.1], ht, hok, h.2⟩
    · intro ⟨hdom, hv⟩
      cases m with
      | nil => simp at hdom
      | cons x rest =>
        obtain ⟨p', t⟩ := x
        simp only [List.map_cons, List.cons.injEq] at hdom
        obtain ⟨rfl, hrest⟩ := hdom
        exact ⟨t, ⟨hv.1, hv.2.1⟩, rest, (ih _ _).2 ⟨hrest, hv.2.2⟩, rfl⟩

theorem okNew_iff (P : Problem) (acc : Map) (p t : Int) :
    okNew P acc p t = true ↔ P.npred p t = true ∧ ∀ a ∈ acc, pairRel P a (p, t) := by
  simp [okNew, pairRel, List.all_eq_true]

theorem valid_iff (P : Problem) (acc m : Map) :
    Valid P acc m ↔
      (∀ x ∈ m, x.2 ∈ P.tnodes ∧ P.npred x.1 x.2 = true)
      ∧ (∀ a ∈ acc, ∀ x ∈ m, pairRel P a x) ∧ m.Pairwise (pairRel P) := by
  induction m generalizing acc with
  | nil => simp [Valid]
  | cons x rest ih =>
    obtain ⟨p, t⟩ := x
    simp only [Valid, okNew_iff, ih, List.mem_cons, List.pairwise_cons]
    constructor
    · rintro ⟨ht, ⟨hn, hacc⟩, hnode, hcross, hpw⟩
      refine ⟨?_, ?_, ?_, hpw⟩
      · rintro x (rfl | hx)
        · exact ⟨ht, hn⟩
        · exact hnode x hx
      · rintro a ha x (rfl | hx)
        · exact hacc a ha
        · exact hcross a (Or.inr ha) x hx
      · intro x hx
        exact hcross (p, t) (Or.inl rfl) x hx
    · rintro ⟨hnode, hcross, hhead, hpw⟩
      refine ⟨(hnode _ (Or.inl rfl)).1, ⟨(hnode _ (Or.inl rfl)).2, fun a ha => hcross a ha _ (Or.inl rfl)⟩,
        fun x hx => hnode x (Or.inr hx), ?_, hpw⟩
      rintro a (rfl | ha) x hx
      · exact hhead x hx
      · exact hcross a ha x (Or.inr hx)

/-- **`extend` = its specification** (heart of soundness and completeness). -/
theorem mem_extend_iff (P : Problem) (ps : List Int) (m : Map) :
    m ∈ extend P ps [] ↔ IsMatch P ps m := by
  rw [mem_extend_valid, valid_iff]
  constructor
  · rintro ⟨h1, h2, _, h3⟩; exact ⟨h1, h2, h3⟩
  · rintro ⟨h1, h2, h3⟩; exact ⟨h1, h2, by simp, h3⟩

theorem mem_allMaps_iff (P : Problem) (m : Map) : m ∈ allMaps P ↔ IsMatch P P.pnodes m :=
  mem_extend_iff P P.pnodes m

/-! ### no duplicates -/

theorem nodup_flatMap_of {α β} {l : List α} {f : α → List β} (hl : l.Nodup)
    (hf : ∀ a ∈ l, (f a).Nodup)
    (hd : ∀ a ∈ l, ∀ b ∈ l, a ≠ b → ∀ x, x ∈ f a → x ∉ f b) : (l.flatMap f).Nodup := by
  induction l with
  | nil => simp
  | cons a l ih =>
    rw [List.flatMap_cons, List.nodup_append]
    have hl' := List.nodup_cons.1 hl
    refine ⟨hf a (by simp), ?_, ?_⟩
    · exact ih hl'.2 (fun b hb => hf b (by simp [hb]))
        (fun b hb c hc hne => hd b (by simp [hb]) c (by simp [hc]) hne)
    · intro x hx y hy hxy
      subst hxy
      obtain ⟨b, hb, hxb⟩ := List.mem_flatMap.1 hy
      have hne : a ≠ b := by
        intro h; subst h; exact hl'.1 hb
      exact hd a (by simp) b (by simp [hb]) hne x hx hxb

theorem extend_nodup (P : Problem) (hT : P.tnodes.Nodup) (ps : List Int) (acc : Map) :
    (extend P ps acc).Nodup := by
  induction ps generalizing acc with
  | nil => simp [extend]
  | cons p ps ih =>
    simp only [extend]
    apply nodup_flatMap_of (hT.filter _)
    · intro t _
      exact List.Pairwise.map _ (fun a b hab h => hab (List.cons.inj h).2) (ih _)
    · intro t _ t' _ hne x hx hx'
      obtain ⟨m, _, rfl⟩ := List.mem_map.1 hx
      obtain ⟨m', _, h⟩ := List.mem_map.1 hx'
      have := (List.cons.inj h).1
      simp only [Prod.mk.injEq, true_and] at this
      exact hne this.symm

theorem allMaps_nodup (P : Problem) (hT : P.tnodes.Nodup) : (allMaps P).Nodup :=
  extend_nodup P hT _ _

/-! ### graphs: the enumerator against `IsIndIsoOn` -/

theorem joins_comm (u v : Int) : joins u v = joins v u := by
  funext e; simp [joins, Bool.or_comm]

theorem ecol_comm (g : Graph) (u v : Int) : g.ecol u v = g.ecol v u := by
  simp [Graph.ecol, joins_comm u v]

theorem lookup_of_mem {m : Map} (hn : (m.map Prod.fst).Nodup) {u t : Int} (h : (u, t) ∈ m) :
    m.lookup u = some t := by
  induction m with
  | nil => simp at h
  | cons x rest ih =>
    obtain ⟨a, b⟩ := x
    simp only [List.map_cons, List.nodup_cons, List.mem_map] at hn
    rw [List.lookup_cons]
    rcases List.mem_cons.1 h with h' | h'
    · cases h'; simp
    · have hne : u ≠ a := by
        intro e; subst e; exact hn.1 ⟨(u, t), h', rfl⟩
      have : (u == a) = false := by simpa using hne
      rw [this]; exact ih hn.2 h'

theorem toFun_of_mem {m : Map} (hn : (m.map Prod.fst).Nodup) {u t : Int} (h : (u, t) ∈ m) :
    Map.toFun m u = t := by
  simp [Map.toFun, lookup_of_mem hn h]

theorem map_toFun_eq {m : Map} (hn : (m.map Prod.fst).Nodup) :
    (m.map Prod.fst).map (fun u => (u, Map.toFun m u)) = m := by
  rw [List.map_map]
  conv => rhs; rw [← List.map_id m]
  apply List.map_congr_left
  intro x hx
  obtain ⟨u, t⟩ := x
  simp [toFun_of_mem hn hx]

theorem pairwise_or {α} {R : α → α → Prop} {l : List α} (h : l.Pairwise R) {a b : α}
    (ha : a ∈ l) (hb : b ∈ l) (hne : a ≠ b) : R a b ∨ R b a := by
  induction h with
  | nil => simp at ha
  | cons hx _ ih =>
    rcases List.mem_cons.1 ha with rfl | ha' <;> rcases List.mem_cons.1 hb with rfl | hb'
    · exact absurd rfl hne
    · exact Or.inl (hx _ hb')
    · exact Or.inr (hx _ ha')
    · exact ih ha' hb'

theorem isMatch_toFun {g sg : Graph} {pred : NodePred} {S : List Int} {m : Map} (hS : S.Nodup)
    (h : IsMatch (graphProblem g sg pred) S m) : IsIndIsoOn g sg pred S (Map.toFun m) := by
  obtain ⟨hdom, hnode, hpair⟩ := h
  have hn : (m.map Prod.fst).Nodup := by rw [hdom]; exact hS
  have hmem : ∀ u ∈ S, (u, Map.toFun m u) ∈ m := by
    intro u hu
    rw [← hdom] at hu
    obtain ⟨⟨u', t⟩, hx, rfl⟩ := List.mem_map.1 hu
    simpa [toFun_of_mem hn hx] using hx
  have key : ∀ u ∈ S, ∀ v ∈ S, u ≠ v →
      Map.toFun m u ≠ Map.toFun m v ∧ g.ecol (Map.toFun m u) (Map.toFun m v) = sg.ecol u v := by
    intro u hu v hv hne
    have hne' : (u, Map.toFun m u) ≠ (v, Map.toFun m v) := fun e => hne (Prod.mk.inj e).1
    rcases pairwise_or hpair (hmem u hu) (hmem v hv) hne' with h | h
    · have := h.2
      simp only [graphProblem, beq_iff_eq] at this
      exact ⟨h.1, this⟩
    · have := h.2
      simp only [graphProblem, beq_iff_eq] at this
      exact ⟨fun e => h.1 e.symm, by rw [ecol_comm g, ecol_comm sg]; exact this⟩
  exact ⟨fun u hu => hnode _ (hmem u hu), fun u hu v hv hne => (key u hu v hv hne).1,
    fun u hu v hv hne => (key u hu v hv hne).2⟩

theorem isMatch_of_indIso {g sg : Graph} {pred : NodePred} {S : List Int} {f : Int → Int} (hS : S.Nodup)
    (h : IsIndIsoOn g sg pred S f) : IsMatch (graphProblem g sg pred) S (S.map fun u => (u, f u)) := by
  refine ⟨?_, ?_, ?_⟩
  · rw [List.map_map]
    conv => rhs; rw [← List.map_id S]
    apply List.map_congr_left; intro u _; rfl
  · intro x hx
    obtain ⟨u, hu, rfl⟩ := List.mem_map.1 hx
    exact h.node u hu
  · rw [List.pairwise_map]
    refine List.Pairwise.imp_of_mem ?_ hS
    intro u v hu hv hne
    exact ⟨h.inj u hu v hv hne, by simp [graphProblem, h.edge u hu v hv hne]⟩

/-- membership in the enumeration on a node list `S` ⟺ the declarative spec -/
theorem mem_isosOn_iff (g sg : Graph) (pred : NodePred) {S : List Int} (hS : S.Nodup) (m : Map) :
    m ∈ isosOn (graphProblem g sg pred) S ↔ m.map Prod.fst = S ∧ IsIndIsoOn g sg pred S (Map.toFun m) := by
  unfold isosOn
  rw [mem_extend_iff]
  constructor
  · intro h; exact ⟨h.dom, isMatch_toFun hS h⟩
  · rintro ⟨hdom, h⟩
    have hn : (m.map Prod.fst).Nodup := by rw [hdom]; exact hS
    have := isMatch_of_indIso hS h
    rw [← hdom, map_toFun_eq hn] at this
    rw [← hdom]; exact this

theorem mem_allIsosP_iff (g sg : Graph) (pred : NodePred) (hs : sg.keys.Nodup) (m : Map) :
    m ∈ allIsosP g sg pred ↔ m.map Prod.fst = sg.keys ∧ IsIndIsoP g sg pred (Map.toFun m) :=
  mem_isosOn_iff g sg pred hs m

theorem allIsosP_sound (g sg : Graph) (pred : NodePred) (hs : sg.keys.Nodup) (m : Map)
    (h : m ∈ allIsosP g sg pred) : m.map Prod.fst = sg.keys ∧ IsIndIsoP g sg pred (Map.toFun m) :=
  (mem_allIsosP_iff g sg pred hs m).1 h

theorem allIsosP_complete (g sg : Graph) (pred : NodePred) (hs : sg.keys.Nodup) (f : Int → Int)
    (h : IsIndIsoP g sg pred f) : (sg.keys.map fun u => (u, f u)) ∈ allIsosP g sg pred :=
  (mem_allMaps_iff _ _).2 (isMatch_of_indIso hs h)

theorem allIsosP_nodup (g sg : Graph) (pred : NodePred) (hg : g.keys.Nodup) : (allIsosP g sg pred).Nodup :=
  allMaps_nodup _ hg

/-! ### the class checker -/

theorem autEquivB_iff (sg : Graph) (m m' : Map) : autEquivB sg m m' = true ↔ AutEquiv sg m m' := by
  simp only [autEquivB, autEquivWith, AutEquiv, List.any_eq_true, beq_iff_eq]
  constructor
  · rintro ⟨a, ha, h⟩; exact ⟨a, ha, h.symm⟩
  · rintro ⟨a, ha, h⟩; exact ⟨a, ha, h.symm⟩

theorem pairwiseB_iff {α} (r : α → α → Bool) (l : List α) :
    pairwiseB r l = true ↔ l.Pairwise (fun a b => r a b = true) := by
  induction l with
  | nil => simp [pairwiseB]
  | cons a l ih => simp [pairwiseB, ih, List.all_eq_true]

/-- **The checker accepts exactly the outputs the statement allows**: a subset of the full
answer, without repetition, no two members equivalent under a symmetry of the pattern, and every
member of the full answer equivalent to a member of the output.  (No group lemma is used.) -/
theorem oneRepPerClass_iff (sg : Graph) (out full : List Map) :
    oneRepPerClass sg out full = true ↔
      (∀ m ∈ out, m ∈ full) ∧ out.Nodup
      ∧ out.Pairwise (fun m m' => ¬ AutEquiv sg m m' ∧ ¬ AutEquiv sg m' m)
      ∧ (∀ f ∈ full, ∃ m ∈ out, AutEquiv sg m f) := by
  have hB : ∀ m m', autEquivWith (auts sg) sg.keys m m' = true ↔ AutEquiv sg m m' := autEquivB_iff sg
  simp only [oneRepPerClass, Bool.and_eq_true, List.all_eq_true, List.any_eq_true, pairwiseB_iff,
    List.contains_iff_mem, hB, bne_iff_ne, Bool.not_eq_true', ← Bool.not_eq_true]
  constructor
  · rintro ⟨⟨h1, h2⟩, h3⟩
    refine ⟨h1, ?_, ?_, h3⟩
    · exact h2.imp (fun h => h.1.1)
    · exact h2.imp (fun h => ⟨h.1.2, h.2⟩)
  · rintro ⟨h1, h2, h3, h4⟩
    refine ⟨⟨h1, ?_⟩, h4⟩
    have := h2.and h3
    exact this.imp (fun h => ⟨⟨h.1, h.2.1⟩, h.2.2⟩)

theorem coversUpToAut_iff (sg : Graph) (out full : List Map) :
    coversUpToAut sg out full = true ↔
      (∀ m ∈ out, m ∈ full) ∧ (∀ f ∈ full, ∃ m ∈ out, AutEquiv sg m f) := by
  have hB : ∀ m m', autEquivWith (auts sg) sg.keys m m' = true ↔ AutEquiv sg m m' := autEquivB_iff sg
  simp only [coversUpToAut, Bool.and_eq_true, List.all_eq_true, List.any_eq_true,
    List.contains_iff_mem, hB]

/-! ### maximum common induced subgraphs -/

theorem mem_subsOfSize {α} (k : Nat) (l s : List α) :
    s ∈ subsOfSize k l ↔ s.Sublist l ∧ s.length = k := by
  induction l generalizing k s with
  | nil =>
    cases k with
    | zero => simp [subsOfSize]
    | succ k =>
      simp only [subsOfSize, List.not_mem_nil, List.sublist_nil, false_iff]
      rintro ⟨rfl, h⟩; simp at h
  | cons a l ih =>
    cases k with
    | zero =>
      simp only [subsOfSize, List.mem_singleton, List.length_eq_zero_iff]
      constructor
      · rintro rfl; simp
      · exact fun h => h.2
    | succ k =>
      simp only [subsOfSize, List.mem_append, List.mem_map, ih]
      constructor
      · rintro (⟨s', ⟨hs, hl⟩, rfl⟩ | ⟨hs, hl⟩)
        · exact ⟨hs.cons_cons a, by simp [hl]⟩
        · exact ⟨hs.cons a, hl⟩
      · rintro ⟨hs, hl⟩
        cases hs with
        | cons _ h => exact Or.inr ⟨h, hl⟩
        | cons_cons _ h =>
          rename_i s'
          exact Or.inl ⟨s', ⟨h, by simpa using hl⟩, rfl⟩

theorem searchDown_le (f : Nat → Bool) (n : Nat) : searchDown f n ≤ n := by
  induction n with
  | zero => simp [searchDown]
  | succ n ih => simp only [searchDown]; split <;> omega

theorem searchDown_spec (f : Nat → Bool) (n : Nat) : f (searchDown f n) = true ∨ searchDown f n = 0 := by
  induction n with
  | zero => simp [searchDown]
  | succ n ih =>
    simp only [searchDown]; split
    · exact Or.inl (by assumption)
    · exact ih

theorem searchDown_max (f : Nat → Bool) (n k : Nat) (hk : k ≤ n) (hf : f k = true) :
    k ≤ searchDown f n := by
  induction n with
  | zero => simp [searchDown]; omega
  | succ n ih =>
    simp only [searchDown]; split
    · exact hk
    · rename_i hn
      have : k ≠ n + 1 := by intro e; subst e; exact hn hf
      exact ih (by omega)

theorem hasCommon_iff (P : Problem) (k : Nat) :
    hasCommon P k = true ↔ ∃ S m, S.Sublist P.pnodes ∧ S.length = k ∧ IsMatch P S m := by
  simp only [hasCommon, List.any_eq_true, mem_subsOfSize, Bool.not_eq_true', List.isEmpty_eq_false_iff_exists_mem,
    isosOn, mem_extend_iff]
  constructor
  · rintro ⟨S, ⟨h1, h2⟩, m, hm⟩; exact ⟨S, m, h1, h2, hm⟩
  · rintro ⟨S, m, h1, h2, hm⟩; exact ⟨S, ⟨h1, h2⟩, m, hm⟩

theorem isMatch_length {P : Problem} {S : List Int} {m : Map} (h : IsMatch P S m) : m.length = S.length := by
  rw [← h.dom]; simp

theorem hasCommon_zero (P : Problem) : hasCommon P 0 = true :=
  (hasCommon_iff P 0).2 ⟨[], [], List.nil_sublist _, rfl, ⟨rfl, by simp, List.Pairwise.nil⟩⟩

theorem hasCommon_mcisSizeP (P : Problem) : hasCommon P (mcisSizeP P) = true := by
  rcases searchDown_spec (hasCommon P) P.pnodes.length with h | h
  · exact h
  · unfold mcisSizeP; rw [h]; exact hasCommon_zero P

theorem mem_allMCISP_iff (P : Problem) (m : Map) :
    m ∈ allMCISP P ↔ IsCommon P m ∧ m.length = mcisSizeP P := by
  simp only [allMCISP, List.mem_flatMap, mem_subsOfSize, isosOn, mem_extend_iff, IsCommon]
  constructor
  · rintro ⟨S, ⟨h1, h2⟩, hm⟩
    have hd := hm.dom
    subst hd
    exact ⟨⟨h1, hm⟩, by simpa using h2⟩
  · rintro ⟨⟨h1, hm⟩, h2⟩
    exact ⟨_, ⟨h1, by simpa using h2⟩, hm⟩

/-- every answer is a common induced subgraph of the announced size -/
theorem allMCISP_sound (P : Problem) (m : Map) (h : m ∈ allMCISP P) :
    IsCommon P m ∧ m.length = mcisSizeP P := (mem_allMCISP_iff P m).1 h

/-- no common induced subgraph is larger than the announced size -/
theorem allMCISP_max (P : Problem) (m : Map) (h : IsCommon P m) : m.length ≤ mcisSizeP P := by
  have hl : (m.map Prod.fst).length ≤ P.pnodes.length := h.1.length_le
  have : hasCommon P m.length = true :=
    (hasCommon_iff P _).2 ⟨_, m, h.1, by simp, h.2⟩
  exact searchDown_max _ _ _ (by simpa using hl) this

/-- every common induced subgraph of the maximum size is among the answers -/
theorem allMCISP_complete (P : Problem) (m : Map) (h : IsCommon P m) (hk : m.length = mcisSizeP P) :
    m ∈ allMCISP P := (mem_allMCISP_iff P m).2 ⟨h, hk⟩

/-- the announced size is attained: the answer list is never empty -/
theorem allMCISP_ne_nil (P : Problem) : allMCISP P ≠ [] := by
  obtain ⟨S, m, h1, h2, hm⟩ := (hasCommon_iff P _).1 (hasCommon_mcisSizeP P)
  have : m ∈ allMCISP P := by
    have hd := hm.dom
    subst hd
    exact allMCISP_complete P m ⟨h1, hm⟩ (by simpa using h2)
  intro e; rw [e] at this; simp at this

theorem allMCISP_nodup (P : Problem) (hT : P.tnodes.Nodup) (hS : P.pnodes.Nodup) : (allMCISP P).Nodup := by
  unfold allMCISP
  have subs_nodup : ∀ (k : Nat) (l : List Int), l.Nodup → (subsOfSize k l).Nodup := by
    intro k l
    induction l generalizing k with
    | nil => cases k <;> simp [subsOfSize]
    | cons a l ih =>
      intro hl
      cases k with
      | zero => simp [subsOfSize]
      | succ k =>
        have hl' := List.nodup_cons.1 hl
        simp only [subsOfSize]
        rw [List.nodup_append]
        refine ⟨List.Pairwise.map _ (fun x y hxy h => hxy (List.cons.inj h).2) (ih k hl'.2), ih _ hl'.2, ?_⟩
        intro x hx y hy hxy
        subst hxy
        obtain ⟨s', _, rfl⟩ := List.mem_map.1 hx
        have := ((mem_subsOfSize _ _ _).1 hy).1
        exact hl'.1 (this.subset (by simp))
  apply nodup_flatMap_of (subs_nodup _ _ hS)
  · intro S _; exact extend_nodup P hT _ _
  · intro S _ S' _ hne m hm hm'
    have h1 := ((mem_extend_iff P S m).1 hm).dom
    have h2 := ((mem_extend_iff P S' m).1 hm').dom
    exact hne (h1.symm.trans h2)

/-! ### what `ncol` / `ecol` mean in terms of the node and edge lists -/

theorem ecol_isSome_iff (g : Graph) (u v : Int) :
    (g.ecol u v).isSome = true ↔ ∃ e ∈ g.edges, (e.1 = u ∧ e.2.1 = v) ∨ (e.1 = v ∧ e.2.1 = u) := by
  simp [Graph.ecol, joins]

theorem ncol_isSome_iff (g : Graph) (u : Int) : (g.ncol u).isSome = true ↔ u ∈ g.keys := by
  unfold Graph.ncol Graph.keys
  induction g.nodes with
  | nil => simp
  | cons x rest ih =>
    obtain ⟨a, b⟩ := x
    rw [List.lookup_cons]
    by_cases h : u = a
    · subst h; simp
    · have : (u == a) = false := by simpa using h
      simp [this, ih, h]

/-! ### `AutEquiv` is an equivalence relation -/

/-- the map with domain `{u ∈ K | φ u ≠ none}` listed along `K` -/
def ofFun (K : List Int) (φ : Int → Option Int) : Map := K.filterMap fun u => (φ u).map fun t => (u, t)

theorem filterMap_congr_mem {α β} {l : List α} {f g : α → Option β} (h : ∀ a ∈ l, f a = g a) :
    l.filterMap f = l.filterMap g := by
  induction l with
  | nil => rfl
  | cons a l ih =>
    rw [List.filterMap_cons, List.filterMap_cons, h a (by simp), ih (fun b hb => h b (by simp [hb]))]

theorem compose_eq_ofFun (K : List Int) (m a : Map) :
    compose K m a = ofFun K (fun u => (a.lookup u).bind (fun v => m.lookup v)) := by
  unfold compose ofFun
  apply filterMap_congr_mem
  intro u _
  show ((a.lookup u).bind fun au => (m.lookup au).map fun t => (u, t))
      = ((a.lookup u).bind fun v => m.lookup v).map fun t => (u, t)
  cases a.lookup u <;> simp

theorem ofFun_cons_none {k : Int} {K : List Int} {φ : Int → Option Int} (h : φ k = none) :
    ofFun (k :: K) φ = ofFun K φ := by
  unfold ofFun; rw [List.filterMap_cons, h]; rfl

theorem ofFun_cons_some {k t : Int} {K : List Int} {φ : Int → Option Int} (h : φ k = some t) :
    ofFun (k :: K) φ = (k, t) :: ofFun K φ := by
  unfold ofFun; rw [List.filterMap_cons, h]; rfl

theorem ofFun_congr {K : List Int} {φ ψ : Int → Option Int} (h : ∀ u ∈ K, φ u = ψ u) :
    ofFun K φ = ofFun K ψ := by
  unfold ofFun
  apply filterMap_congr_mem
  intro u hu; rw [h u hu]

theorem lookup_ofFun (K : List Int) (φ : Int → Option Int) (u : Int) :
    (ofFun K φ).lookup u = if u ∈ K then φ u else none := by
  induction K with
  | nil => simp [ofFun]
  | cons k K ih =>
    unfold ofFun at ih ⊢
    rw [List.filterMap_cons]
    by_cases huk : u = k
    · subst huk
      cases hφ : φ u with
      | none =>
        simp only [Option.map_none, ih, hφ]
        simp
      | some t => simp
    · have hbeq : (u == k) = false := by simpa using huk
      cases hφ : φ k with
      | none => simp only [Option.map_none, ih, List.mem_cons, huk, false_or]
      | some t => simp only [Option.map_some, List.lookup_cons, hbeq, ih, List.mem_cons, huk, false_or]

theorem lookup_eq_none_of_not_mem {m : Map} {u : Int} (h : u ∉ m.map Prod.fst) : m.lookup u = none := by
  induction m with
  | nil => rfl
  | cons x rest ih =>
    obtain ⟨a, b⟩ := x
    simp only [List.map_cons, List.mem_cons, not_or] at h
    have : (u == a) = false := by simpa using h.1
    rw [List.lookup_cons, this]; exact ih h.2

/-- a map whose domain is a sublist of `K` is determined by its look-up function -/
theorem ofFun_lookup {K : List Int} (hK : K.Nodup) {m : Map} (hm : (m.map Prod.fst).Sublist K) :
    ofFun K (fun u => m.lookup u) = m := by
  induction K generalizing m with
  | nil =>
    have : m = [] := by simpa using hm
    subst this; rfl
  | cons k K ih =>
    have hK' := List.nodup_cons.1 hK
    cases m with
    | nil =>
      unfold ofFun
      rw [List.filterMap_eq_nil_iff]
      intro u _; rfl
    | cons x m' =>
      obtain ⟨p, t⟩ := x
      simp only [List.map_cons] at hm
      cases hm with
      | cons _ h =>
        -- k is skipped: k is not in the domain of m
        have hk : k ∉ ((p, t) :: m').map Prod.fst := fun hk => hK'.1 (h.subset hk)
        rw [ofFun_cons_none (lookup_eq_none_of_not_mem hk)]
        exact ih hK'.2 (m := (p, t) :: m') h
      | cons_cons _ h =>
        have h1 : ofFun K (fun u => List.lookup u ((k, t) :: m')) = ofFun K (fun u => m'.lookup u) := by
          apply ofFun_congr
          intro u hu
          have hne : (u == k) = false := by
            have : u ≠ k := fun e => hK'.1 (e ▸ hu)
            simpa using this
          simp only [List.lookup_cons, hne]
        have h0 : (fun u => List.lookup u ((k, t) :: m')) k = some t := by simp
        rw [ofFun_cons_some h0, h1, ih hK'.2 (m := m') h]

theorem subset_of_nodup_of_length_le {l₁ l₂ : List Int} (h₁ : l₁.Nodup) (hsub : l₁ ⊆ l₂)
    (hlen : l₂.length ≤ l₁.length) : l₂ ⊆ l₁ := by
  induction l₁ generalizing l₂ with
  | nil =>
    have : l₂ = [] := by simpa using hlen
    subst this; exact fun _ h => h
  | cons a t ih =>
    rw [List.nodup_cons] at h₁
    have ha : a ∈ l₂ := hsub (List.mem_cons_self ..)
    have htsub : t ⊆ l₂.erase a := by
      intro x hx
      have hxa : x ≠ a := fun h => h₁.1 (h ▸ hx)
      exact (List.mem_erase_of_ne hxa).2 (hsub (List.mem_cons_of_mem _ hx))
    have hl : (l₂.erase a).length ≤ t.length := by
      rw [List.length_erase]; simp only [ha, if_true]
      simp only [List.length_cons] at hlen; omega
    have := ih h₁.2 htsub hl
    intro x hx
    by_cases hxa : x = a
    · subst hxa; exact List.mem_cons_self ..
    · exact List.mem_cons_of_mem _ (this ((List.mem_erase_of_ne hxa).2 hx))

/-- an injective self-map of a duplicate-free list is onto -/
theorem surj_of_inj {K : List Int} (hK : K.Nodup) {f : Int → Int} (hmem : ∀ u ∈ K, f u ∈ K)
    (hinj : ∀ u ∈ K, ∀ v ∈ K, u ≠ v → f u ≠ f v) : ∀ w ∈ K, ∃ v ∈ K, f v = w := by
  have hn : (K.map f).Nodup := by
    rw [List.nodup_iff_pairwise_ne, List.pairwise_map]
    exact List.Pairwise.imp_of_mem (fun hu hv hne => hinj _ hu _ hv hne) hK
  have hsub : K.map f ⊆ K := by
    intro x hx
    obtain ⟨u, hu, rfl⟩ := List.mem_map.1 hx
    exact hmem u hu
  have := subset_of_nodup_of_length_le hn hsub (by simp)
  intro w hw
  obtain ⟨v, hv, e⟩ := List.mem_map.1 (this hw)
  exact ⟨v, hv, e⟩

theorem isAut_id (sg : Graph) : IsIndIso sg sg id :=
  ⟨fun u hu => ⟨hu, by simp [colourPred]⟩, fun _ _ _ _ h => h, fun _ _ _ _ _ => rfl⟩

theorem isAut_comp {sg : Graph} {f f' : Int → Int} (h : IsIndIso sg sg f) (h' : IsIndIso sg sg f') :
    IsIndIso sg sg (f ∘ f') := by
  refine ⟨?_, ?_, ?_⟩
  · intro u hu
    have h1 := h'.node u hu
    have h2 := h.node (f' u) h1.1
    refine ⟨h2.1, ?_⟩
    have e1 : sg.ncol (f' u) = sg.ncol u := by simpa [colourPred] using h1.2
    have e2 : sg.ncol (f (f' u)) = sg.ncol (f' u) := by simpa [colourPred] using h2.2
    simp [colourPred, e2, e1]
  · intro u hu v hv hne
    exact h.inj _ (h'.node u hu).1 _ (h'.node v hv).1 (h'.inj u hu v hv hne)
  · intro u hu v hv hne
    have := h.edge _ (h'.node u hu).1 _ (h'.node v hv).1 (h'.inj u hu v hv hne)
    simp only [Function.comp]
    rw [this, h'.edge u hu v hv hne]

theorem isAut_inv {sg : Graph} (hs : sg.keys.Nodup) {f : Int → Int} (h : IsIndIso sg sg f) :
    ∃ h' : Int → Int, IsIndIso sg sg h' ∧ ∀ u ∈ sg.keys, f (h' u) = u := by
  have hsurj := surj_of_inj hs (fun u hu => (h.node u hu).1) h.inj
  let h' : Int → Int := fun u => (sg.keys.find? (fun v => f v == u)).getD u
  have hspec : ∀ u ∈ sg.keys, h' u ∈ sg.keys ∧ f (h' u) = u := by
    intro u hu
    obtain ⟨v, hv, e⟩ := hsurj u hu
    cases hf : sg.keys.find? (fun v => f v == u) with
    | none =>
      have := List.find?_eq_none.1 hf v hv
      simp [e] at this
    | some w =>
      have h1 := List.find?_some hf
      have h2 := List.mem_of_find?_eq_some hf
      simp only [beq_iff_eq] at h1
      simp only [h', hf, Option.getD_some]
      exact ⟨h2, h1⟩
  refine ⟨h', ⟨?_, ?_, ?_⟩, fun u hu => (hspec u hu).2⟩
  · intro u hu
    have := h.node (h' u) (hspec u hu).1
    rw [(hspec u hu).2] at this
    refine ⟨(hspec u hu).1, ?_⟩
    have e : sg.ncol u = sg.ncol (h' u) := by simpa [colourPred] using this.2
    simp [colourPred, e]
  · intro u hu v hv hne e
    apply hne
    rw [← (hspec u hu).2, ← (hspec v hv).2, e]
  · intro u hu v hv hne
    have hne' : h' u ≠ h' v := by
      intro e; apply hne
      rw [← (hspec u hu).2, ← (hspec v hv).2, e]
    have := h.edge _ (hspec u hu).1 _ (hspec v hv).1 hne'
    rw [(hspec u hu).2, (hspec v hv).2] at this
    exact this.symm

/-- `AutEquiv` read with functions: composition with an automorphism of the pattern -/
theorem autEquiv_iff_fun (sg : Graph) (hs : sg.keys.Nodup) (m m' : Map) :
    AutEquiv sg m m' ↔ ∃ f, IsIndIso sg sg f ∧ m' = ofFun sg.keys (fun u => m.lookup (f u)) := by
  unfold AutEquiv auts allIsos
  constructor
  · rintro ⟨a, ha, rfl⟩
    obtain ⟨hdom, hf⟩ := (mem_allIsosP_iff sg sg _ hs a).1 ha
    have hn : (a.map Prod.fst).Nodup := by rw [hdom]; exact hs
    refine ⟨Map.toFun a, hf, ?_⟩
    rw [compose_eq_ofFun]
    apply ofFun_congr
    intro u hu
    rw [← hdom] at hu
    obtain ⟨⟨u', t⟩, hx, rfl⟩ := List.mem_map.1 hu
    simp [lookup_of_mem hn hx, toFun_of_mem hn hx]
  · rintro ⟨f, hf, rfl⟩
    refine ⟨sg.keys.map (fun u => (u, f u)), allIsosP_complete sg sg _ hs f hf, ?_⟩
    rw [compose_eq_ofFun]
    apply ofFun_congr
    intro u hu
    have hn : ((sg.keys.map (fun u => (u, f u))).map Prod.fst).Nodup := by
      rw [List.map_map]
      have : (Prod.fst ∘ fun u => (u, f u)) = id := rfl
      rw [this, List.map_id]; exact hs
    have hx : (u, f u) ∈ sg.keys.map (fun u => (u, f u)) := List.mem_map.2 ⟨u, hu, rfl⟩
    simp [lookup_of_mem hn hx]

/-- **`AutEquiv` is an equivalence relation** on the (partial) maps whose domain is a sublist of
the pattern nodes (in particular on the isomorphisms, whose domain is all of them). -/
theorem autEquiv_equivalence (sg : Graph) (hs : sg.keys.Nodup) :
    (∀ m, (m.map Prod.fst).Sublist sg.keys → AutEquiv sg m m)
    ∧ (∀ m m', (m.map Prod.fst).Sublist sg.keys → AutEquiv sg m m' → AutEquiv sg m' m)
    ∧ (∀ m m' m'', AutEquiv sg m m' → AutEquiv sg m' m'' → AutEquiv sg m m'') := by
  refine ⟨?_, ?_, ?_⟩
  · intro m hm
    rw [autEquiv_iff_fun sg hs]
    exact ⟨id, isAut_id sg, (ofFun_lookup hs hm).symm⟩
  · intro m m' hm h
    rw [autEquiv_iff_fun sg hs] at h ⊢
    obtain ⟨f, hf, rfl⟩ := h
    obtain ⟨h', hh', hinv⟩ := isAut_inv hs hf
    refine ⟨h', hh', ?_⟩
    have : ofFun sg.keys (fun u => (ofFun sg.keys (fun u => m.lookup (f u))).lookup (h' u))
        = ofFun sg.keys (fun u => m.lookup u) := by
      apply ofFun_congr
      intro u hu
      rw [lookup_ofFun]
      simp [(hh'.node u hu).1, hinv u hu]
    rw [this, ofFun_lookup hs hm]
  · intro m m' m'' h h2
    rw [autEquiv_iff_fun sg hs] at h h2 ⊢
    obtain ⟨f, hf, rfl⟩ := h
    obtain ⟨f', hf', rfl⟩ := h2
    refine ⟨f ∘ f', isAut_comp hf hf', ?_⟩
    apply ofFun_congr
    intro u hu
    rw [lookup_ofFun]
    simp [(hf'.node u hu).1]

/-! ### the greedy representatives are an accepted output -/

theorem classRepsWith_spec (sg : Graph) (hs : sg.keys.Nodup) (full reps done : List Map)
    (hfull : ∀ f ∈ full, (f.map Prod.fst).Sublist sg.keys)
    (h1 : ∀ r ∈ reps, r ∈ done)
    (h2 : reps.Pairwise (fun m m' => ¬ AutEquiv sg m m' ∧ ¬ AutEquiv sg m' m))
    (h3 : ∀ f ∈ done, ∃ r ∈ reps, AutEquiv sg r f) :
    (∀ r ∈ classRepsWith (auts sg) sg.keys full reps, r ∈ done ++ full)
    ∧ (classRepsWith (auts sg) sg.keys full reps).Pairwise (fun m m' => ¬ AutEquiv sg m m' ∧ ¬ AutEquiv sg m' m)
    ∧ (∀ f ∈ done ++ full, ∃ r ∈ classRepsWith (auts sg) sg.keys full reps, AutEquiv sg r f) := by
  obtain ⟨hrefl, hsymm, _⟩ := autEquiv_equivalence sg hs
  induction full generalizing reps done with
  | nil =>
    simp only [classRepsWith, List.mem_reverse, List.append_nil]
    refine ⟨h1, ?_, h3⟩
    rw [List.pairwise_reverse]
    exact h2.imp (fun h => ⟨h.2, h.1⟩)
  | cons f rest ih =>
    have hf := hfull f (by simp)
    have hrest : ∀ f' ∈ rest, (f'.map Prod.fst).Sublist sg.keys := fun f' h => hfull f' (by simp [h])
    have happ : done ++ f :: rest = (done ++ [f]) ++ rest := by simp
    simp only [classRepsWith]
    split
    · rename_i hany
      obtain ⟨r, hr, hrf⟩ := List.any_eq_true.1 hany
      have hrf' : AutEquiv sg r f := (autEquivB_iff sg r f).1 hrf
      rw [happ]
      apply ih reps (done ++ [f]) hrest
      · intro r hr; simp [h1 r hr]
      · exact h2
      · intro x hx
        rcases List.mem_append.1 hx with hx | hx
        · exact h3 x hx
        · have : x = f := by simpa using hx
          subst this; exact ⟨r, hr, hrf'⟩
    · rename_i hany
      have hno : ∀ r ∈ reps, ¬ AutEquiv sg r f := by
        intro r hr hrf
        apply hany
        exact List.any_eq_true.2 ⟨r, hr, (autEquivB_iff sg r f).2 hrf⟩
      rw [happ]
      apply ih (f :: reps) (done ++ [f]) hrest
      · intro r hr
        rcases List.mem_cons.1 hr with rfl | hr
        · simp
        · simp [h1 r hr]
      · rw [List.pairwise_cons]
        refine ⟨?_, h2⟩
        intro r hr
        exact ⟨fun h => hno r hr (hsymm _ _ hf h), hno r hr⟩
      · intro x hx
        rcases List.mem_append.1 hx with hx | hx
        · obtain ⟨r, hr, h⟩ := h3 x hx
          exact ⟨r, List.mem_cons_of_mem _ hr, h⟩
        · have : x = f := by simpa using hx
          subst this; exact ⟨x, List.mem_cons_self .., hrefl x hf⟩

/-- the greedy list of class representatives is accepted by the checker, so for every full
answer there IS an output the statement allows -/
theorem classReps_accepted (sg : Graph) (hs : sg.keys.Nodup) (full : List Map)
    (hfull : ∀ f ∈ full, (f.map Prod.fst).Sublist sg.keys) :
    oneRepPerClass sg (classReps sg full) full = true := by
  obtain ⟨hrefl, _, _⟩ := autEquiv_equivalence sg hs
  have h := classRepsWith_spec sg hs full [] [] hfull (by simp) List.Pairwise.nil (by simp)
  simp only [List.nil_append] at h
  rw [oneRepPerClass_iff]
  refine ⟨h.1, ?_, h.2.1, h.2.2⟩
  refine h.2.1.imp_of_mem ?_
  intro a b ha _ hab e
  subst e
  exact hab.1 (hrefl a (hfull a (h.1 a ha)))

end Iso
