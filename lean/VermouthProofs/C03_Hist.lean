import VermouthModel.C03_Hist
import VermouthProofs.C03_Top
/-! Helper lemmas for molecule objects: sequential assignment of names, `mapM` on `Option`. -/
namespace C03

theorem assign_length (names : List (Option MName)) (ps : List (Nat × MName)) :
    (assign names ps).length = names.length := by
  induction ps generalizing names with
  | nil => rfl
  | cons p r ih =>
    obtain ⟨o, v⟩ := p
    simp only [assign, ih, List.length_set]

/-- objects that are not assigned keep their name -/
theorem assign_unchanged (names : List (Option MName)) (ps : List (Nat × MName)) (o : Nat)
    (h : o ∉ ps.map (·.1)) : (assign names ps)[o]? = names[o]? := by
  induction ps generalizing names with
  | nil => rfl
  | cons p r ih =>
    obtain ⟨o', v⟩ := p
    simp only [List.map_cons, List.mem_cons, not_or] at h
    simp only [assign]
    rw [ih _ h.2, List.getElem?_set_ne (Ne.symm h.1)]

/-- an assigned object carries one of the values assigned to it -/
theorem assign_some (names : List (Option MName)) (ps : List (Nat × MName)) (o : Nat)
    (hin : o ∈ ps.map (·.1)) (hlt : o < names.length) :
    ∃ v, (o, v) ∈ ps ∧ (assign names ps)[o]? = some (some v) := by
  induction ps generalizing names with
  | nil => cases hin
  | cons p r ih =>
    obtain ⟨o', v'⟩ := p
    simp only [assign]
    by_cases hr : o ∈ r.map (·.1)
    · obtain ⟨v, hv, he⟩ := ih (names.set o' (some v')) hr (by simpa using hlt)
      exact ⟨v, List.mem_cons_of_mem _ hv, he⟩
    · have ho : o' = o := by
        simp only [List.map_cons, List.mem_cons] at hin
        rcases hin with e | e
        · exact e.symm
        · exact absurd e hr
      subst ho
      refine ⟨v', by simp, ?_⟩
      rw [assign_unchanged _ _ _ hr, List.getElem?_set_self hlt]

theorem mapM_option_some {α β} (f : α → Option β) : ∀ (l : List α), (∀ x ∈ l, ∃ y, f x = some y) →
    ∃ ys, l.mapM f = some ys ∧ ys.length = l.length ∧
      ∀ (p : Nat) (x : α), l[p]? = some x → ∃ y, ys[p]? = some y ∧ f x = some y
  | [], _ => ⟨[], rfl, rfl, fun p x h => by simp at h⟩
  | a :: r, h => by
      obtain ⟨b, hb⟩ := h a (by simp)
      obtain ⟨bs, h1, h2, h3⟩ := mapM_option_some f r (fun x hx => h x (by simp [hx]))
      refine ⟨b :: bs, ?_, by simp [h2], ?_⟩
      · simp [List.mapM_cons, hb, h1]
      · intro p x hp
        cases p with
        | zero =>
          simp only [List.getElem?_cons_zero, Option.some.injEq] at hp
          subst hp
          exact ⟨b, rfl, hb⟩
        | succ k =>
          simp only [List.getElem?_cons_succ] at hp ⊢
          exact h3 k x hp

theorem mem_zip_get {α β} (l : List α) (m : List β) (a : α) (b : β) (h : (a, b) ∈ l.zip m) :
    ∃ q : Nat, l[q]? = some a ∧ m[q]? = some b := by
  obtain ⟨q, hq⟩ := List.mem_iff_getElem?.mp h
  refine ⟨q, ?_, ?_⟩
  · have := List.getElem?_zip_eq_some.mp hq
    exact this.1
  · have := List.getElem?_zip_eq_some.mp hq
    exact this.2

end C03
