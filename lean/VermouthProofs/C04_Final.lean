import VermouthProofs.C04
/-!
# C04 — flagging of extra atoms, connectedness, and what the invariant gives for `repairResidue`
-/
namespace C04
open Iso

/-! ## flagging -/

def flagAtom (extra : List Int) (a : Atom) : Atom := if extra.contains a.key then { a with ptm := some true } else a

theorem flagAtom_key (extra : List Int) (a : Atom) : (flagAtom extra a).key = a.key := by
  unfold flagAtom; split <;> rfl

def goneKeys (extra : List Int) (nodes : List Atom) : List Int :=
  ((nodes.map (flagAtom extra)).filter fun a => extra.contains a.key && requested a).map (·.key)

theorem flagExtra_nodes (extra : List Int) (nodes : List Atom) (edges : List (Int × Int)) :
    (flagExtra extra nodes edges).nodes = (nodes.map (flagAtom extra)).filter fun a => !(goneKeys extra nodes).contains a.key := rfl

theorem flagExtra_edges (extra : List Int) (nodes : List Atom) (edges : List (Int × Int)) :
    (flagExtra extra nodes edges).edges
      = edges.filter fun e => !(goneKeys extra nodes).contains e.1 && !(goneKeys extra nodes).contains e.2 := rfl

theorem gone_sub_extra {extra : List Int} {nodes : List Atom} {k : Int} (h : k ∈ goneKeys extra nodes) : k ∈ extra := by
  unfold goneKeys at h
  obtain ⟨a, ha, hk⟩ := List.mem_map.1 h
  have := (List.mem_filter.1 ha).2
  simp only [Bool.and_eq_true, List.contains_eq_mem, decide_eq_true_eq] at this
  rw [← hk]; exact this.1

/-- an atom that is not extra survives unchanged -/
theorem flagExtra_keep {extra : List Int} {nodes : List Atom} (edges : List (Int × Int)) {a : Atom}
    (ha : a ∈ nodes) (hk : a.key ∉ extra) : a ∈ (flagExtra extra nodes edges).nodes := by
  rw [flagExtra_nodes]
  refine List.mem_filter.2 ⟨List.mem_map.2 ⟨a, ha, ?_⟩, ?_⟩
  · unfold flagAtom; rw [if_neg]; simpa using hk
  · simp only [Bool.not_eq_true', List.contains_eq_mem, decide_eq_false_iff_not]
    exact fun hg => hk (gone_sub_extra hg)

/-- every atom of the result is an input atom, flagged if it is extra -/
theorem mem_flagExtra {extra : List Int} {nodes : List Atom} {edges : List (Int × Int)} {b : Atom}
    (h : b ∈ (flagExtra extra nodes edges).nodes) : ∃ a ∈ nodes, b = flagAtom extra a := by
  rw [flagExtra_nodes] at h
  obtain ⟨a, ha, e⟩ := List.mem_map.1 (List.mem_filter.1 h).1
  exact ⟨a, ha, e.symm⟩

theorem flagExtra_keys_nodup {extra : List Int} {nodes : List Atom} (edges : List (Int × Int))
    (h : (nodes.map (·.key)).Nodup) : ((flagExtra extra nodes edges).nodes.map (·.key)).Nodup := by
  rw [flagExtra_nodes]
  refine List.Nodup.sublist (List.Sublist.map _ List.filter_sublist) ?_
  rw [List.map_map]
  have : ((fun a : Atom => a.key) ∘ flagAtom extra) = fun a => a.key := by
    funext a; exact flagAtom_key extra a
  rw [this]; exact h

theorem flagExtra_hasEdge {extra : List Int} {nodes : List Atom} {edges : List (Int × Int)} {u v : Int}
    (hu : u ∉ extra) (hv : v ∉ extra) :
    hasEdge (flagExtra extra nodes edges).edges u v = hasEdge edges u v := by
  rw [flagExtra_edges]
  apply Bool.eq_iff_iff.2
  rw [hasEdge_iff, hasEdge_iff]
  have hgu : u ∉ goneKeys extra nodes := fun h => hu (gone_sub_extra h)
  have hgv : v ∉ goneKeys extra nodes := fun h => hv (gone_sub_extra h)
  constructor
  · rintro ⟨e, he, h⟩; exact ⟨e, (List.mem_filter.1 he).1, h⟩
  · rintro ⟨e, he, h⟩
    refine ⟨e, List.mem_filter.2 ⟨he, ?_⟩, h⟩
    rcases h with ⟨h1, h2⟩ | ⟨h1, h2⟩ <;> simp [h1, h2, hgu, hgv]

theorem flagExtra_nil (nodes : List Atom) (edges : List (Int × Int)) :
    flagExtra [] nodes edges = { nodes := nodes, edges := edges } := by
  unfold flagExtra
  simp

/-! ## connectedness -/

/-- a walk in the block along bonds -/
inductive Walk (es : List (Int × Int)) : Int → Int → Prop
  | refl (u : Int) : Walk es u u
  | step {u v w : Int} : Walk es u v → w ∈ nbrs es v → Walk es u w

theorem Walk.trans {es : List (Int × Int)} {a b c : Int} (h1 : Walk es a b) (h2 : Walk es b c) : Walk es a c := by
  induction h2 with
  | refl => exact h1
  | step _ hn ih => exact Walk.step ih hn

theorem Walk.symm {es : List (Int × Int)} {a b : Int} (h : Walk es a b) : Walk es b a := by
  induction h with
  | refl => exact Walk.refl _
  | step _ hn ih => exact Walk.trans (Walk.step (Walk.refl _) (nbrs_symm hn)) ih

/-- a set closed under "neighbour of" contains everything a walk from one of its members reaches -/
theorem Walk.closed {es : List (Int × Int)} {S : List Int} (hS : ∀ r ∈ S, ∀ q ∈ nbrs es r, q ∈ S)
    {a b : Int} (h : Walk es a b) (ha : a ∈ S) : b ∈ S := by
  induction h with
  | refl => exact ha
  | step _ hn ih => exact hS _ ih _ hn

theorem reachFrom_sound (es : List (Int × Int)) (n : Nat) (seen : List Int) :
    ∀ q ∈ reachFrom es n seen, ∃ s ∈ seen, Walk es s q := by
  induction n generalizing seen with
  | zero => intro q hq; exact ⟨q, hq, Walk.refl _⟩
  | succ n ih =>
    intro q hq
    obtain ⟨s, hs, hw⟩ := ih (expand es seen) q hq
    unfold expand at hs
    rcases List.mem_append.1 hs with hs | hs
    · exact ⟨s, hs, hw⟩
    · have := (List.mem_filter.1 hs).1
      obtain ⟨t, ht, hst⟩ := List.mem_flatMap.1 this
      exact ⟨t, ht, Walk.trans (Walk.step (Walk.refl _) hst) hw⟩

/-- the decidable check implies: any two block atoms are joined by a walk -/
theorem connectedB_walk {b : Block} (h : connectedB b = true) {u v : Int} (hu : u ∈ b.keys) (hv : v ∈ b.keys) :
    Walk b.edges u v := by
  unfold connectedB at h
  cases hk : b.keys with
  | nil => rw [hk] at hu; cases hu
  | cons k ks =>
    rw [hk] at h
    simp only [List.all_eq_true, List.contains_eq_mem, decide_eq_true_eq] at h
    rw [hk] at hu hv
    obtain ⟨s, hs, hws⟩ := reachFrom_sound _ _ _ u (h u hu)
    obtain ⟨t, ht, hwt⟩ := reachFrom_sound _ _ _ v (h v hv)
    simp at hs ht; subst hs; subst ht
    exact Walk.trans hws.symm hwt

/-! ## the end of the loop -/

/-- **Completeness of the rebuild**: with a connected block and a non-empty match nothing stays missing. -/
theorem rebuilt_nil (m : Mol) (R : Residue) (h : WF m R) (hc : connectedB R.block = true) (hne : R.mtch ≠ []) :
    (rebuilt m R).1 = [] := by
  have hinv := inv_final m R h
  have hstuck := final_stuck m R h
  cases hl : (rebuilt m R).1 with
  | nil => rfl
  | cons x xs =>
    exfalso
    have hx : x ∈ (rebuilt m R).1 := by rw [hl]; simp
    obtain ⟨p, hp⟩ := List.exists_mem_of_ne_nil _ hne
    have hpk : p.1 ∈ R.block.keys := h.2.2.2.2.1 p.1 (mem_dom_of_mem hp)
    have hw := connectedB_walk hc (hinv.curSub x hx) hpk
    have hclosed : ∀ r ∈ (rebuilt m R).1, ∀ q ∈ nbrs R.block.edges r, q ∈ (rebuilt m R).1 := by
      intro r hr q hq
      have := hstuck r hr
      unfold stuck at this
      simp only [List.all_eq_true, List.contains_eq_mem, decide_eq_true_eq] at this
      exact this q hq
    have hpin := Walk.closed hclosed hw hx
    apply hinv.disj p.1 hpin
    obtain ⟨ext, he, _⟩ := hinv.mext
    rw [he, dom_append]
    exact List.mem_append_left _ (mem_dom_of_mem hp)

/-! ## projections of `repairResidue` -/

theorem repairResidue_mol (m : Mol) (R : Residue) :
    (repairResidue m R).mol
      = flagExtra (extraAtoms R.found (rebuilt m R).2.mtch) (rebuilt m R).2.nodes (rebuilt m R).2.edges := rfl
theorem repairResidue_mtch (m : Mol) (R : Residue) : (repairResidue m R).mtch = (rebuilt m R).2.mtch := rfl
theorem repairResidue_lost (m : Mol) (R : Residue) : (repairResidue m R).lost = (rebuilt m R).1 := rfl
theorem repairResidue_log (m : Mol) (R : Residue) :
    (repairResidue m R).log
      = (rebuilt m R).2.log ++ (rebuilt m R).1.map fun r => Event.lost (nameOf R.block r) := rfl

end C04
