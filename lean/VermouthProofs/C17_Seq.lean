import VermouthProofs.C17_Residues
/-!
C17 helper lemmas, part 7: `sequence_from_residues`, `annotate_residues_from_sequence` over the
residue tuples of `iter_residues`, `convert_dssp_annotation_to_martini`.
-/
namespace C17

/-- node keys are distinct (networkx: the nodes of a graph are the keys of a dict) -/
def keysNodup (m : Mol) : Prop := (m.map (·.key)).Nodup

instance (m : Mol) : Decidable (keysNodup m) := by unfold keysNodup; infer_instance

/-- all atoms of a residue carry the same value -/
def uniform (m : Mol) : Prop := ∀ a ∈ m, ∀ b ∈ m, a.res = b.res → a.val = b.val

/-- key and residue identity of every node: what the residue partition depends on -/
def shape (m : Mol) : List (Int × Nat) := m.map fun a => (a.key, a.res)

/-! ### the partition depends on the shape only -/

theorem keysOf_shape (m : Mol) (r : Nat) :
    keysOf m r = ((shape m).filter fun p => p.2 == r).map (·.1) := by
  unfold keysOf shape
  induction m with
  | nil => rfl
  | cons a m ih =>
    by_cases h : a.res = r <;> simp_all

theorem keysOf_congr (m m' : Mol) (h : shape m = shape m') (r : Nat) : keysOf m r = keysOf m' r := by
  rw [keysOf_shape, keysOf_shape, h]

theorem minKey_congr (m m' : Mol) (h : shape m = shape m') (r : Nat) : minKey m r = minKey m' r := by
  rw [minKey_eq_pyMin, minKey_eq_pyMin, keysOf_congr m m' h]

theorem insertRes_congr (m m' : Mol) (h : shape m = shape m') (r : Nat) (l : List Nat) :
    insertRes m r l = insertRes m' r l := by
  induction l with
  | nil => rfl
  | cons x xs ih =>
    simp only [insertRes, ih, minKey_congr m m' h]

theorem resIds_congr (m m' : Mol) (h : shape m = shape m') : resIds m = resIds m' := by
  have : m.map (·.res) = m'.map (·.res) := by
    have := congrArg (List.map (·.2)) h
    simpa [shape, List.map_map, Function.comp_def] using this
  unfold resIds
  rw [this]

theorem residues_congr (m m' : Mol) (h : shape m = shape m') : residues m = residues m' := by
  unfold residues
  rw [resIds_congr m m' h]
  have : insertRes m = insertRes m' := by
    funext r l
    exact insertRes_congr m m' h r l
  rw [this]

theorem shape_annotated (m : Mol) (s : List Nat) (off : Nat) : shape (annotated m s off) = shape m := by
  simp [shape, annotated, List.map_map, Function.comp_def]

theorem keysNodup_congr (m m' : Mol) (h : shape m = shape m') (hk : keysNodup m) : keysNodup m' := by
  have : m.map (·.key) = m'.map (·.key) := by
    have := congrArg (List.map (·.1)) h
    simpa [shape, List.map_map, Function.comp_def] using this
  unfold keysNodup
  rw [← this]
  exact hk

/-! ### reading a node by key -/

theorem valAt_of_mem (m : Mol) (hk : keysNodup m) (a : Atom) (ha : a ∈ m) : valAt m a.key = a.val := by
  unfold valAt
  induction m with
  | nil => cases ha
  | cons b m ih =>
    have hk' : b.key ∉ m.map (·.key) ∧ (m.map (·.key)).Nodup := List.nodup_cons.mp hk
    rcases List.mem_cons.mp ha with e | hm
    · subst e; simp
    · have hne : b.key ≠ a.key := by
        intro e
        apply hk'.1
        rw [e]
        exact List.mem_map_of_mem hm
      have hb : (b.key == a.key) = false := by simpa using hne
      rw [List.find?_cons, hb]
      exact ih hk'.2 hm

theorem mem_keysOf (m : Mol) (r : Nat) (k : Int) : k ∈ keysOf m r ↔ ∃ a ∈ m, a.res = r ∧ a.key = k := by
  unfold keysOf
  simp only [List.mem_map, List.mem_filter, beq_iff_eq]
  constructor
  · rintro ⟨a, ⟨ha, hr⟩, hk⟩; exact ⟨a, ha, hr, hk⟩
  · rintro ⟨a, ha, hr, hk⟩; exact ⟨a, ⟨ha, hr⟩, hk⟩

theorem key_inj (m : Mol) (hk : keysNodup m) (a b : Atom) (ha : a ∈ m) (hb : b ∈ m)
    (e : a.key = b.key) : a = b := by
  induction m with
  | nil => cases ha
  | cons c m ih =>
    have hk' : c.key ∉ m.map (·.key) ∧ (m.map (·.key)).Nodup := List.nodup_cons.mp hk
    rcases List.mem_cons.mp ha with ea | ha' <;> rcases List.mem_cons.mp hb with eb | hb'
    · rw [ea, eb]
    · exfalso; apply hk'.1; rw [← ea, e]; exact List.mem_map_of_mem hb'
    · exfalso; apply hk'.1; rw [← eb, ← e]; exact List.mem_map_of_mem ha'
    · exact ih hk'.2 ha' hb'

/-- with distinct keys, a node is in the key set of exactly its own residue -/
theorem key_mem_keysOf_iff (m : Mol) (hk : keysNodup m) (a : Atom) (ha : a ∈ m) (r : Nat) :
    a.key ∈ keysOf m r ↔ a.res = r := by
  rw [mem_keysOf]
  constructor
  · rintro ⟨b, hb, hr, e⟩
    have := key_inj m hk b a hb ha e
    rw [← this]; exact hr
  · intro h; exact ⟨a, ha, h, rfl⟩

/-! ### `sequence_from_residues` -/

/-- the exact value: the attribute of the node that comes first in the set order of the residue -/
theorem seqFromResiduesCode_eq (m : Mol) :
    seqFromResiduesCode m = (residues m).map fun r => (setOrder (keysOf m r)).head?.bind (valAt m) := by
  unfold seqFromResiduesCode
  rw [iterResidues_eq, List.map_map]
  apply List.map_congr_left
  intro r _
  simp only [Function.comp]
  cases setOrder (keysOf m r) <;> rfl

theorem setOrder_head (m : Mol) (r : Nat) (hr : r ∈ residues m) :
    ∃ k, (setOrder (keysOf m r)).head? = some k ∧ k ∈ keysOf m r := by
  have hp := setOrder_perm (keysOf m r)
  obtain ⟨a, ha, har⟩ := (mem_residues m r).mp hr
  have hne : keysOf m r ≠ [] := by
    intro e
    have : a.key ∈ keysOf m r := (mem_keysOf m r a.key).mpr ⟨a, ha, har, rfl⟩
    rw [e] at this; cases this
  cases hs : setOrder (keysOf m r) with
  | nil => rw [hs] at hp; exact absurd hp.symm.eq_nil hne
  | cons k ks =>
    refine ⟨k, rfl, ?_⟩
    apply hp.subset
    rw [hs]; simp

theorem seqFromResidues_uniform (m : Mol) (hk : keysNodup m) (hu : uniform m) :
    seqFromResiduesCode m = seqFromResidues m := by
  rw [seqFromResiduesCode_eq]
  unfold seqFromResidues
  apply List.map_congr_left
  intro r hr
  obtain ⟨k, hk1, hk2⟩ := setOrder_head m r hr
  obtain ⟨a, ha, har, hak⟩ := (mem_keysOf m r k).mp hk2
  rw [hk1, Option.bind_some, ← hak, valAt_of_mem m hk a ha]
  cases hf : (m.filter fun a => a.res == r).head? with
  | none =>
    have : m.filter (fun a => a.res == r) = [] := List.head?_eq_none_iff.mp hf
    have hmem : a ∈ m.filter (fun a => a.res == r) := List.mem_filter.mpr ⟨ha, by simpa using har⟩
    rw [this] at hmem; cases hmem
  | some b =>
    have hb : b ∈ m.filter (fun a => a.res == r) := List.mem_of_mem_head? hf
    have hb' := List.mem_filter.mp hb
    have : a.val = b.val := hu a ha b hb'.1 (by rw [har]; exact (by simpa using hb'.2 : b.res = r).symm)
    simp [this]

/-! ### `annotate_residues_from_sequence` over the tuples -/

theorem setKeys_eq_map (ks : List Int) (v : Nat) (m : Mol) :
    setKeys ks v m = m.map fun a => if a.key ∈ ks then { a with val := some v } else a := by
  induction ks generalizing m with
  | nil => simp [setKeys]
  | cons k ks ih =>
    have : setKeys (k :: ks) v m
        = setKeys ks v (m.map fun a => if a.key = k then { a with val := some v } else a) := rfl
    rw [this, ih, List.map_map]
    apply List.map_congr_left
    intro a _
    simp only [Function.comp, List.mem_cons]
    by_cases h1 : a.key = k
    · simp [h1]
    · by_cases h2 : a.key ∈ ks <;> simp [h1, h2]

/-- per-atom effect of the assignment loop over residue tuples -/
def updCode (a : Atom) (pairs : List ((Nat × List Int) × Nat)) : Atom :=
  pairs.foldl (fun a p => if a.key ∈ p.1.2 then { a with val := some p.2 } else a) a

theorem assignCode_eq_map (m : Mol) (pairs : List ((Nat × List Int) × Nat)) :
    assignCode m pairs = m.map fun a => updCode a pairs := by
  induction pairs generalizing m with
  | nil => simp [assignCode, updCode]
  | cons p ps ih =>
    have : assignCode m (p :: ps) = assignCode (setKeys p.1.2 p.2 m) ps := rfl
    rw [this, ih, setKeys_eq_map, List.map_map]
    apply List.map_congr_left
    intro a _
    rfl

theorem updCode_eq_upd (m : Mol) (rs vs : List Nat) (a : Atom)
    (h : ∀ r, a.key ∈ keysOf m r ↔ a.res = r) :
    updCode a ((rs.map fun r => (r, setOrder (keysOf m r))).zip vs) = upd a (rs.zip vs) := by
  induction rs generalizing vs a with
  | nil => simp [updCode, upd]
  | cons r rs ih =>
    cases vs with
    | nil => simp [updCode, upd]
    | cons v vs =>
      have h1 : updCode a (((r :: rs).map fun r => (r, setOrder (keysOf m r))).zip (v :: vs))
          = updCode (if a.key ∈ setOrder (keysOf m r) then { a with val := some v } else a)
              ((rs.map fun r => (r, setOrder (keysOf m r))).zip vs) := rfl
      have h2 : upd a ((r :: rs).zip (v :: vs))
          = upd (if a.res = r then { a with val := some v } else a) (rs.zip vs) := rfl
      have hmem : a.key ∈ setOrder (keysOf m r) ↔ a.res = r := by
        rw [(setOrder_perm _).mem_iff]; exact h r
      rw [h1, h2]
      by_cases e : a.res = r
      · rw [if_pos (hmem.mpr e), if_pos e]
        exact ih vs _ h
      · rw [if_neg (fun x => e (hmem.mp x)), if_neg e]
        exact ih vs _ h

theorem assignCode_eq_assign (m : Mol) (hk : keysNodup m) (vs : List Nat) :
    assignCode m ((iterResidues m).zip vs) = assign m ((residues m).zip vs) := by
  rw [assignCode_eq_map, assign_eq_map, iterResidues_eq]
  apply List.map_congr_left
  intro a ha
  exact updCode_eq_upd m _ vs a (key_mem_keysOf_iff m hk a ha)

theorem iterResidues_length (m : Mol) : (iterResidues m).length = (residues m).length := by
  rw [iterResidues_eq, List.length_map]

theorem annotateMolCode_eq' (m : Mol) (hk : keysNodup m) (seq : List Nat) :
    annotateMolCode m seq = annotateMol m seq := by
  unfold annotateMolCode annotateMol
  simp only [iterResidues_length, assignCode_eq_assign m hk]

/-! ### two attributes -/

theorem shape_srcMol_dstMol (m : Mol2) : shape (srcMol m) = shape (dstMol m) := by
  simp [shape, srcMol, dstMol, List.map_map, Function.comp_def]

theorem srcMol_withSrc (m : Mol2) (d : Mol) (h : shape d = shape (srcMol m)) :
    srcMol (withSrc m d) = d := by
  induction m generalizing d with
  | nil =>
    cases d with
    | nil => rfl
    | cons _ _ => simp [shape, srcMol] at h
  | cons a m ih =>
    cases d with
    | nil => simp [shape, srcMol] at h
    | cons b d =>
      have h' : (b.key, b.res) = (a.key, a.res) ∧ shape d = shape (srcMol m) := by
        simpa [shape, srcMol, List.map_map, Function.comp_def] using h
      have hb : b = ⟨a.key, a.res, b.val⟩ := by
        cases b; simp_all
      have : srcMol (withSrc (a :: m) (b :: d)) = ⟨a.key, a.res, b.val⟩ :: srcMol (withSrc m d) := rfl
      rw [this, ih d h'.2, ← hb]

theorem dstMol_withSrc (m : Mol2) (d : Mol) (h : d.length = m.length) :
    dstMol (withSrc m d) = dstMol m := by
  induction m generalizing d with
  | nil => cases d <;> rfl
  | cons a m ih =>
    cases d with
    | nil => simp at h
    | cons b d =>
      have : dstMol (withSrc (a :: m) (b :: d)) = ⟨a.key, a.res, a.dst⟩ :: dstMol (withSrc m d) := rfl
      rw [this, ih d (by simpa using h)]
      rfl

/-! ### the sequence read back from an annotated molecule -/

theorem map_idxOf_getElem? (l : List Nat) (s : List Nat) (hn : l.Nodup) (hl : s.length = l.length) :
    l.map (fun r => s[l.idxOf r]?) = s.map some := by
  apply List.ext_getElem?
  intro i
  simp only [List.getElem?_map]
  by_cases hi : i < l.length
  · have hi' : i < s.length := by omega
    rw [List.getElem?_eq_getElem hi, List.getElem?_eq_getElem hi']
    simp only [Option.map_some]
    have : l.idxOf l[i] = i := hn.idxOf_getElem i hi
    rw [this, List.getElem?_eq_getElem hi']
  · have hi' : ¬ i < s.length := by omega
    rw [List.getElem?_eq_none (by omega), List.getElem?_eq_none (by omega)]
    rfl

theorem uniform_annotated (m : Mol) (s : List Nat) (off : Nat) : uniform (annotated m s off) := by
  intro a ha b hb e
  simp only [annotated, List.mem_map] at ha hb
  obtain ⟨a', _, rfl⟩ := ha
  obtain ⟨b', _, rfl⟩ := hb
  simp only at e ⊢
  rw [e]

theorem seqFromResidues_annotated (m : Mol) (s : List Nat) (hl : s.length = (residues m).length) :
    seqFromResidues (annotated m s 0) = s.map some := by
  unfold seqFromResidues
  rw [residues_congr _ _ (shape_annotated m s 0), ← map_idxOf_getElem? (residues m) s (nodup_residues m) hl]
  apply List.map_congr_left
  intro r hr
  obtain ⟨a, ha, har⟩ := (mem_residues m r).mp hr
  have hf : (annotated m s 0).filter (fun a => a.res == r)
      = (m.filter fun a => a.res == r).map fun a => { a with val := s[0 + (residues m).idxOf a.res]? } := by
    unfold annotated
    rw [List.filter_map]
    rfl
  rw [hf, List.head?_map]
  cases hh : (m.filter fun a => a.res == r).head? with
  | none =>
    have : m.filter (fun a => a.res == r) = [] := List.head?_eq_none_iff.mp hh
    have hmem : a ∈ m.filter (fun a => a.res == r) := List.mem_filter.mpr ⟨ha, by simpa using har⟩
    rw [this] at hmem; cases hmem
  | some b =>
    have hb := (List.mem_filter.mp (List.mem_of_mem_head? hh)).2
    have : b.res = r := by simpa using hb
    simp [this]

end C17
