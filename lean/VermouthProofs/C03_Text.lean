import VermouthModel.C03_Text
import VermouthModel.C03_Sort
import VermouthProps.C03
import VermouthProps.C02
import VermouthProps.C16File
import VermouthProps.C16Gro
import VermouthProps.C16Conect
/-!
Helper lemmas for the text-level composition (C03 × C02 × C16): the three models sort the atoms
of a molecule the same way, the keys read back from the three files are those of the sorted atoms.
-/
namespace C03

/-! ### one order: `List.mergeSort` (C02, C16) = the insertion sort of `C03.sortedNodes` -/

theorem insBy_append {α} (le : α → α → Bool) (x : α) (l₁ l₂ : List α)
    (h₁ : ∀ b ∈ l₁, le x b = false) (h₂ : ∀ b ∈ l₂.head?, le x b = true) :
    insBy le x (l₁ ++ l₂) = l₁ ++ x :: l₂ := by
  induction l₁ with
  | nil =>
    cases l₂ with
    | nil => rfl
    | cons c r => simp [insBy, h₂ c (by simp)]
  | cons b r ih =>
    simp only [List.cons_append, insBy, h₁ b (by simp), Bool.false_eq_true, if_false]
    rw [ih (fun c hc => h₁ c (by simp [hc]))]

theorem mergeSort_eq_insSortBy {α} (le : α → α → Bool)
    (htrans : ∀ a b c, le a b = true → le b c = true → le a c = true)
    (htotal : ∀ a b, (le a b || le b a) = true) (l : List α) :
    l.mergeSort le = insSortBy le l := by
  induction l with
  | nil => simp [insSortBy]
  | cons a l ih =>
    obtain ⟨l₁, l₂, h1, h2, h3⟩ := List.mergeSort_cons htrans htotal a l
    rw [h1, insSortBy, ← ih, h2]
    symm
    apply insBy_append
    · intro b hb
      simpa using h3 b hb
    · intro b hb
      have hs := List.pairwise_mergeSort htrans htotal (a :: l)
      rw [h1] at hs
      have := (List.pairwise_append.mp hs).2.1
      cases l₂ with
      | nil => simp at hb
      | cons c r =>
        simp only [List.head?_cons, Option.mem_def, Option.some.injEq] at hb
        subst hb
        exact (List.pairwise_cons.mp this).1 _ (by simp)

def atomLe (a b : Atom) : Bool := keyLe (atomidOf a) (atomidOf b)

theorem keyLe_total' (a b : Option Int) : (keyLe a b || keyLe b a) = true := by
  cases a <;> cases b <;> simp [keyLe] <;> omega

theorem sortedNodes_eq_insSortBy (l : List Atom) : sortedNodes l = insSortBy atomLe l := by
  induction l with
  | nil => rfl
  | cons x xs ih =>
    simp only [sortedNodes, insSortBy, ih]
    generalize insSortBy atomLe xs = s
    induction s with
    | nil => rfl
    | cons y ys ihs =>
      simp only [insertAtom, insBy, ihs]
      rfl

theorem sortedNodes_eq_mergeSort (l : List Atom) : sortedNodes l = l.mergeSort atomLe := by
  rw [sortedNodes_eq_insSortBy, mergeSort_eq_insSortBy atomLe
    (fun a b c h1 h2 => keyLe_trans h1 h2) (fun a b => keyLe_total' _ _)]

/-- the order on (node, decoration) pairs -/
def pairLe (p q : Atom × Deco) : Bool := atomLe p.1 q.1

/-- the atoms of a molecule in writing order, with their decorations -/
def TMol.sorted (t : TMol) : List (Atom × Deco) := t.atoms.mergeSort pairLe

theorem TMol.sorted_eq_ins (t : TMol) : t.sorted = insSortBy pairLe t.atoms :=
  mergeSort_eq_insSortBy pairLe (fun _ _ _ h1 h2 => keyLe_trans h1 h2) (fun _ _ => keyLe_total' _ _) _

theorem zipDeco_fst (ns : List Atom) (ds : List Deco) : (zipDeco ns ds).map Prod.fst = ns := by
  induction ns generalizing ds with
  | nil => rfl
  | cons a as ih => cases ds <;> simp [zipDeco, ih]

theorem TMol.sorted_fst (t : TMol) : t.sorted.map Prod.fst = sortedNodes t.mol.nodes := by
  unfold TMol.sorted
  rw [List.map_mergeSort (r := pairLe) (s := atomLe) (f := Prod.fst) (fun a _ b _ => rfl), sortedNodes_eq_mergeSort]
  unfold TMol.atoms
  rw [zipDeco_fst]

theorem c16_atomidLe (p q : Atom × Deco) : C16.atomidLe (pdbAtom p) (pdbAtom q) = pairLe p q := by
  unfold C16.atomidLe pairLe atomLe pdbAtom
  simp only []
  cases atomidOf p.1 <;> cases atomidOf q.1 <;> simp [keyLe]

theorem c16_atomidLe_gro (p q : Atom × Deco) : C16.atomidLe (groAtom p) (groAtom q) = pairLe p q := by
  unfold C16.atomidLe pairLe atomLe groAtom pdbAtom
  simp only []
  cases atomidOf p.1 <;> cases atomidOf q.1 <;> simp [keyLe]

theorem c02_atomidLe (p q : Atom × Deco) :
    C02.atomidLe (itpAtom p).atomid (itpAtom q).atomid = pairLe p q := by
  unfold C02.atomidLe pairLe atomLe itpAtom
  simp only []
  cases atomidOf p.1 <;> cases atomidOf q.1 <;> simp [keyLe]

/-- **the PDB writer model lists the atoms in `TMol.sorted` order** -/
theorem sortedNodes_pdbMol (t : TMol) : C16.sortedNodes (pdbMol t) = t.sorted.map pdbAtom := by
  unfold C16.sortedNodes pdbMol TMol.sorted
  simp only []
  rw [List.map_mergeSort (fun a _ b _ => (c16_atomidLe a b).symm)]

theorem sortedNodes_groMol (t : TMol) : C16.sortedNodes (groMol t) = t.sorted.map groAtom := by
  unfold C16.sortedNodes groMol TMol.sorted
  simp only []
  rw [List.map_mergeSort (fun a _ b _ => (c16_atomidLe_gro a b).symm)]

/-- **the ITP writer model lists the atoms in `TMol.sorted` order** -/
theorem sortedNodes_itpMol (h : List String) (n : String) (t : TMol) :
    C02.sortedNodes (itpMol h n t) = t.sorted.map itpAtom := by
  unfold C02.sortedNodes itpMol TMol.sorted
  simp only []
  rw [List.map_mergeSort (r := pairLe) (s := fun a b => C02.atomidLe a.atomid b.atomid) (f := itpAtom)
    (fun a _ b _ => (c02_atomidLe a b).symm)]

/-! ### keys -/

/-- atom name, residue name, residue number of a node as the writers print them -/
def textKeyOf (a : Atom) : TextKey :=
  ⟨(strAttr a "atomname").getD [], (strAttr a "resname").getD [], (intAttr a "resid").getD 1⟩

theorem textKeyOf_of_rec (a b : Atom) (h : recOf a = recOf b) : textKeyOf a = textKeyOf b := by
  simp only [recOf, Rec.mk.injEq] at h
  simp only [textKeyOf, strAttr, intAttr, h.1, h.2.1, h.2.2]

/-- the keys of a molecule's records in writing order -/
def TMol.keys (t : TMol) : List TextKey := (sortedNodes t.mol.nodes).map textKeyOf

theorem TMol.keys_eq (t : TMol) : t.keys = t.sorted.map (fun p => textKeyOf p.1) := by
  unfold TMol.keys
  rw [← TMol.sorted_fst, List.map_map]
  rfl

theorem keys_of_writeAtoms (a b : TMol) (h : writeAtoms a.mol = writeAtoms b.mol) : a.keys = b.keys := by
  unfold writeAtoms at h
  unfold TMol.keys
  generalize sortedNodes a.mol.nodes = la at h
  generalize sortedNodes b.mol.nodes = lb at h
  induction la generalizing lb with
  | nil => cases lb with
    | nil => rfl
    | cons _ _ => simp at h
  | cons x xs ih =>
    cases lb with
    | nil => simp at h
    | cons y ys =>
      simp only [List.map_cons, List.cons.injEq] at h ⊢
      exact ⟨textKeyOf_of_rec x y h.1, ih ys h.2⟩

theorem pdbKey_pAtomOf (s : Nat) (p : Atom × Deco) : pdbKey (C16.pAtomOf s (pdbAtom p)) = textKeyOf p.1 := rfl

theorem groKey_gAtomOf (s : Nat) (p : Atom × Deco) : groKey (C16.gAtomOf s (groAtom p)) = textKeyOf p.1 := rfl

theorem itpKey_toPAtom (p : Atom × Deco) : itpKey (C02.toPAtom (itpAtom p)) = some (textKeyOf p.1) := by
  simp [itpKey, C02.toPAtom, itpAtom, intStr, String.toList_ofList, C16.parseInt_intRepr, textKeyOf]

theorem molPAtoms_keys (l : List (Atom × Deco)) (s : Nat) :
    (C16.molPAtoms C16.pAtomOf s (l.map pdbAtom)).map pdbKey = l.map (fun p => textKeyOf p.1) := by
  induction l generalizing s with
  | nil => rfl
  | cons p r ih => simp [C16.molPAtoms, pdbKey_pAtomOf, ih]

/-- the molecules read back from the PDB text, as keys -/
theorem expectedMols_keys (sys : List TMol) (s : Nat) :
    (C16.expectedMols C16.pAtomOf s (sys.map pdbMol)).map (·.map pdbKey) = sys.map TMol.keys := by
  induction sys generalizing s with
  | nil => rfl
  | cons t ts ih =>
    simp only [List.map_cons, C16.expectedMols, List.cons.injEq]
    refine ⟨?_, ih _⟩
    rw [sortedNodes_pdbMol, molPAtoms_keys, TMol.keys_eq]

theorem serialPairs_keys (l : List (Atom × Deco)) (s : Nat) :
    (C16.serialPairs s (l.map groAtom)).map (fun p => groKey (C16.gAtomOf p.1 p.2))
      = l.map (fun p => textKeyOf p.1) := by
  induction l generalizing s with
  | nil => rfl
  | cons p r ih => simp [C16.serialPairs, groKey_gAtomOf, ih]

/-- the atoms read back from the GRO text, as keys: all molecules in order -/
theorem groPairs_keys (sys : List TMol) (s : Nat) :
    (C16.groPairs s (sys.map groMol)).map (fun p => groKey (C16.gAtomOf p.1 p.2)) = sys.flatMap TMol.keys := by
  induction sys generalizing s with
  | nil => rfl
  | cons t ts ih =>
    simp only [List.map_cons, C16.groPairs, List.map_append, List.flatMap_cons, ih]
    rw [sortedNodes_groMol, serialPairs_keys, TMol.keys_eq]

/-- the `[ atoms ]` rows read back from the ITP text, as keys -/
theorem canon_keys (h : List String) (n : String) (t : TMol) :
    (C02.canon (itpMol h n t)).atoms.map itpKey = t.keys.map some := by
  simp only [C02.canon]
  rw [sortedNodes_itpMol, TMol.keys_eq, List.map_map, List.map_map, List.map_map]
  apply List.map_congr_left
  intro p _
  exact itpKey_toPAtom p

/-- row-by-row reading of the list equality: the k-th ATOM record of molecule `i` exists iff the
k-th `[ atoms ]` row exists, and then they carry the same key -/
theorem kth_of_lists {α β} (f : α → Option TextKey) (g : β → Option TextKey) (L : List α) (M : List β)
    (h : L.map f = M.map g) (k : Nat) :
    (L[k]?).map f = (M[k]?).map g := by
  rw [← List.getElem?_map, ← List.getElem?_map, h]

/-- position of the first record of molecule `i` in a file that lists all molecules one after the
other (GRO: no separators) -/
def recordOffset (sys : List TMol) (i : Nat) : Nat := ((sys.take i).map fun t => t.keys.length).sum

theorem keys_length (t : TMol) : t.keys.length = t.mol.nodes.length := by
  unfold TMol.keys
  rw [List.length_map]
  exact (sortedNodes_perm t.mol.nodes).length_eq

theorem flatMap_getElem_offset {α β} (f : α → List β) : ∀ (l : List α) (i k : Nat) (x : α),
    l[i]? = some x → k < (f x).length →
    (l.flatMap f)[((l.take i).map fun y => (f y).length).sum + k]? = (f x)[k]?
  | [], i, k, x, h, _ => by simp at h
  | y :: ys, 0, k, x, h, hk => by
      simp only [List.getElem?_cons_zero, Option.some.injEq] at h
      subst h
      simp only [List.take_zero, List.map_nil, List.sum_nil, Nat.zero_add, List.flatMap_cons]
      rw [List.getElem?_append_left hk]
  | y :: ys, i + 1, k, x, h, hk => by
      simp only [List.getElem?_cons_succ] at h
      simp only [List.take_succ_cons, List.map_cons, List.sum_cons, List.flatMap_cons]
      rw [Nat.add_assoc, List.getElem?_append_right (by omega)]
      have := flatMap_getElem_offset f ys i k x h hk
      rw [← this]
      congr 1
      omega

/-- the last `w` digits of `str(n)` spell `n mod 10^w` -/
theorem digitsVal_drop_natDigits (w : Nat) : ∀ n : Nat, w ≤ (C16.natDigits n).length →
    C16.digitsVal ((C16.natDigits n).drop ((C16.natDigits n).length - w)) = n % 10 ^ w := by
  induction w with
  | zero =>
    intro n _
    simp [C16.digitsVal, Nat.mod_one]
  | succ w ih =>
    intro n hw
    rw [C16.natDigits] at hw ⊢
    split
    · rename_i hlt
      simp only [hlt, if_true, List.length_singleton] at hw
      have hw0 : w = 0 := by omega
      subst hw0
      simp only [List.length_singleton, Nat.sub_self, List.drop_zero, Nat.zero_add, Nat.pow_one]
      have : C16.digitsVal [C16.digitChar n] = n := by
        have := C16.digitsVal_natDigits n
        rw [C16.natDigits] at this
        simpa [hlt] using this
      rw [this, Nat.mod_eq_of_lt hlt]
    · rename_i hge
      simp only [hge, if_false, List.length_append, List.length_singleton] at hw
      have hw' : w ≤ (C16.natDigits (n / 10)).length := by omega
      have hd : (C16.natDigits (n / 10) ++ [C16.digitChar (n % 10)]).drop
          ((C16.natDigits (n / 10) ++ [C16.digitChar (n % 10)]).length - (w + 1))
          = (C16.natDigits (n / 10)).drop ((C16.natDigits (n / 10)).length - w) ++ [C16.digitChar (n % 10)] := by
        rw [List.length_append, List.length_singleton, List.drop_append_of_le_length (by omega)]
        congr 2
        omega
      rw [hd, C16.digitsVal_append, ih (n / 10) hw']
      have hdv : C16.digitVal (C16.digitChar (n % 10)) = n % 10 := by
        have h10 : n % 10 < 10 := Nat.mod_lt _ (by omega)
        have := C16.digitsVal_natDigits (n % 10)
        rw [C16.natDigits] at this
        simp only [h10, if_true] at this
        simpa [C16.digitsVal] using this
      rw [hdv, Nat.pow_succ, Nat.mul_comm (10 ^ w) 10, Nat.mod_mul]
      omega

/-- what the reader makes of the last `w ≥ 1` characters of an over-long `str(i)` -/
theorem parseInt_truncated (w : Nat) (hw : 1 ≤ w) (i : Int) (hover : w < (C16.intRepr i).length) :
    C16.parseInt ((C16.intRepr i).drop ((C16.intRepr i).length - w)) = some ((i.natAbs % 10 ^ w : Nat) : Int) := by
  have key : (C16.intRepr i).drop ((C16.intRepr i).length - w)
      = (C16.natDigits i.natAbs).drop ((C16.natDigits i.natAbs).length - w) ∧ w ≤ (C16.natDigits i.natAbs).length := by
    unfold C16.intRepr at hover ⊢
    split
    · rename_i hneg
      simp only [hneg, if_true, List.length_cons] at hover
      refine ⟨?_, by omega⟩
      rw [List.length_cons, show (C16.natDigits i.natAbs).length + 1 - w
        = ((C16.natDigits i.natAbs).length - w) + 1 by omega, List.drop_succ_cons]
    · rename_i hpos
      simp only [hpos, if_false] at hover
      exact ⟨rfl, by omega⟩
  rw [key.1]
  have hval := digitsVal_drop_natDigits w i.natAbs key.2
  have hall : ((C16.natDigits i.natAbs).drop ((C16.natDigits i.natAbs).length - w)).all C16.isDigit = true := by
    rw [List.all_eq_true]
    intro c hc
    exact List.all_eq_true.mp (C16.all_isDigit_natDigits i.natAbs) c (List.mem_of_mem_drop hc)
  have hne : (C16.natDigits i.natAbs).drop ((C16.natDigits i.natAbs).length - w) ≠ [] := by
    intro h0
    have := congrArg List.length h0
    simp only [List.length_drop, List.length_nil] at this
    omega
  generalize (C16.natDigits i.natAbs).drop ((C16.natDigits i.natAbs).length - w) = ds at hval hall hne
  cases ds with
  | nil => exact absurd rfl hne
  | cons c r =>
    have hcd : C16.isDigit c = true := by simpa using (List.all_eq_true.mp hall) c (by simp)
    have hcm : c ≠ '-' := by intro h; subst h; revert hcd; decide
    have hcp : c ≠ '+' := by intro h; subst h; revert hcd; decide
    unfold C16.parseInt
    split
    · rename_i heq; cases heq; exact absurd rfl hcm
    · rename_i heq; cases heq; exact absurd rfl hcp
    · simp [hall, hval]


end C03
