import VermouthModel.C05
import VermouthProofs.C05_Symm
namespace C05

/-- a well-formed order as the documentation describes it: a run of `k` characters `>`, `<` or `*`
(k ≥ 1), or an integer -/
inductive POrder where
  | gt (k : Nat)
  | lt (k : Nat)
  | star (k : Nat)
  | num (n : Int)
  deriving DecidableEq, Repr

def POrder.wf : POrder → Prop
  | .gt k => 1 ≤ k
  | .lt k => 1 ≤ k
  | .star k => 1 ≤ k
  | .num _ => True

/-- how it is written in the `order` attribute -/
def POrder.render : POrder → Order
  | .gt k => .str (List.replicate k '>')
  | .lt k => .str (List.replicate k '<')
  | .star k => .str (List.replicate k '*')
  | .num n => .num n

/-- The relation table of the docstring of `match_order` (rows = left order, columns = right
order; `!` = no constraint, `/` = different residues, `?` = compare the numbers), generalised
from `>`/`>>` to runs of any length. -/
def orderRel : POrder → Int → POrder → Int → Bool
  | .gt a, r1, .gt b, r2 => if a = b then r1 = r2 else if a < b then r1 < r2 else r1 > r2
  | .gt _, r1, .lt _, r2 => r1 > r2
  | .gt _, r1, .num n, r2 => if n = 0 then r1 > r2 else true
  | .gt _, _, .star _, _ => true
  | .lt _, r1, .gt _, r2 => r1 < r2
  | .lt a, r1, .lt b, r2 => if a = b then r1 = r2 else if a < b then r1 > r2 else r1 < r2
  | .lt _, r1, .num n, r2 => if n = 0 then r1 < r2 else true
  | .lt _, _, .star _, _ => true
  | .num n, r1, .num n', r2 => n' - n = r2 - r1
  | .num n, r1, .gt _, r2 => if n = 0 then r1 < r2 else true
  | .num n, r1, .lt _, r2 => if n = 0 then r1 > r2 else true
  | .num n, r1, .star _, r2 => if n = 0 then r1 ≠ r2 else true
  | .star _, r1, .num n, r2 => if n = 0 then r1 ≠ r2 else true
  | .star _, _, .gt _, _ => true
  | .star _, _, .lt _, _ => true
  | .star a, r1, .star b, r2 => decide ((a = b) ↔ (r1 = r2))

theorem all_beq_replicate (n : Nat) (c : Char) : (List.replicate n c).all (· == c) = true := by
  simp

theorem eq_replicate_of_all (l : List Char) (c : Char) (h : l.all (· == c) = true) :
    l = List.replicate l.length c := by
  induction l with
  | nil => rfl
  | cons a t ih =>
    simp only [List.all_cons, Bool.and_eq_true, beq_iff_eq] at h
    rw [List.length_cons, List.replicate_succ, ← ih h.2, h.1]

theorem interpretOrder_render (p : POrder) (h : p.wf) :
    interpretOrder p.render = some (match p with
      | .gt k => (OType.angle, (k : Int))
      | .lt k => (OType.angle, -(k : Int))
      | .star k => (OType.star, (k : Int))
      | .num n => (OType.number, n)) := by
  cases p with
  | num n => rfl
  | gt k =>
    cases k with
    | zero => simp [POrder.wf] at h
    | succ j =>
      simp only [POrder.render, List.replicate_succ, interpretOrder, all_beq_replicate,
        List.length_replicate]
      simp
  | lt k =>
    cases k with
    | zero => simp [POrder.wf] at h
    | succ j =>
      simp only [POrder.render, List.replicate_succ, interpretOrder, all_beq_replicate,
        List.length_replicate]
      simp
  | star k =>
    cases k with
    | zero => simp [POrder.wf] at h
    | succ j =>
      simp only [POrder.render, List.replicate_succ, interpretOrder, all_beq_replicate,
        List.length_replicate]
      simp

theorem matchOrder_table (p1 : POrder) (r1 : Int) (p2 : POrder) (r2 : Int)
    (h1 : p1.wf) (h2 : p2.wf) :
    matchOrder p1.render r1 p2.render r2 = some (orderRel p1 r1 p2 r2) := by
  unfold matchOrder
  rw [interpretOrder_render p1 h1, interpretOrder_render p2 h2]
  cases p1 <;> cases p2 <;> simp only [POrder.wf] at h1 h2 <;>
    simp [matchOrderCore, sgn, orderRel] <;> (repeat' split) <;> first | rfl | omega | grind

/-- whatever `interpretOrder` accepts is the rendering of a well-formed documented order -/
theorem interpretOrder_some_render (o : Order) (x : OType × Int) (h : interpretOrder o = some x) :
    ∃ p : POrder, p.wf ∧ o = p.render := by
  cases o with
  | bool b => simp [interpretOrder] at h
  | bad => simp [interpretOrder] at h
  | num n => exact ⟨.num n, trivial, rfl⟩
  | str cs =>
    cases cs with
    | nil => simp [interpretOrder] at h
    | cons c rest =>
      by_cases hall : rest.all (· == c) = true
      · have hrep : c :: rest = List.replicate (rest.length + 1) c := by
          rw [List.replicate_succ, ← eq_replicate_of_all rest c hall]
        by_cases hg : c = '>'
        · subst hg
          exact ⟨.gt (rest.length + 1), by simp [POrder.wf], by simp only [POrder.render]; rw [← hrep]⟩
        · by_cases hl : c = '<'
          · subst hl
            exact ⟨.lt (rest.length + 1), by simp [POrder.wf], by simp only [POrder.render]; rw [← hrep]⟩
          · by_cases hs : c = '*'
            · subst hs
              exact ⟨.star (rest.length + 1), by simp [POrder.wf], by simp only [POrder.render]; rw [← hrep]⟩
            · simp [interpretOrder, hall, hg, hl, hs] at h
      · simp [interpretOrder, hall] at h

theorem interpretOrder_rejects (o : Order) :
    interpretOrder o = none ↔ ¬ ∃ p : POrder, p.wf ∧ o = p.render := by
  constructor
  · rintro h ⟨p, hw, rfl⟩
    rw [interpretOrder_render p hw] at h
    simp at h
  · intro h
    cases hx : interpretOrder o with
    | none => rfl
    | some x => exact absurd (interpretOrder_some_render o x hx) h

theorem interpretOrder_rejects_bool (b : Bool) : interpretOrder (.bool b) = none := rfl

theorem interpretOrder_rejects_empty : interpretOrder (.str []) = none := rfl

theorem interpretOrder_rejects_mixed (c d : Char) (rest : List Char) (h : c ≠ d) :
    interpretOrder (.str (c :: d :: rest)) = none := by
  have : ¬ d = c := fun e => h e.symm
  simp [interpretOrder, this]

theorem interpretOrder_rejects_other (c : Char) (rest : List Char)
    (h : c ≠ '>' ∧ c ≠ '<' ∧ c ≠ '*') : interpretOrder (.str (c :: rest)) = none := by
  simp [interpretOrder, h.1, h.2.1, h.2.2]

theorem matchOrder_rejects (o1 o2 : Order) (r1 r2 : Int) :
    matchOrder o1 r1 o2 r2 = none ↔ (interpretOrder o1 = none ∨ interpretOrder o2 = none) := by
  unfold matchOrder
  cases h1 : interpretOrder o1 <;> cases h2 : interpretOrder o2 <;> simp

theorem matchOrderCore_same (t : OType) (v r1 r2 : Int) :
    matchOrderCore t v r1 t v r2 = decide (r1 = r2) := by
  cases t <;> simp [matchOrderCore, sgn] <;> (repeat' split) <;> first | rfl | omega | grind

theorem matchOrder_same (o : Order) (r1 r2 : Int) (h : (interpretOrder o).isSome) :
    matchOrder o r1 o r2 = some (decide (r1 = r2)) := by
  unfold matchOrder
  cases hx : interpretOrder o with
  | none => simp [hx] at h
  | some x =>
    obtain ⟨t, v⟩ := x
    simp only [matchOrderCore_same]

example : (POrder.gt 2).wf := by simp [POrder.wf]
example : (POrder.gt 2).render = .str ['>', '>'] := rfl
example : matchOrder (.str ['>']) 5 (.str ['>','>']) 9 = some true := by decide
example : matchOrder (.num 0) 5 (.str ['<']) 9 = some false := by decide
example : matchOrder (.str ['*']) 5 (.str ['*','*']) 5 = some false := by decide
example : interpretOrder (.str ['>', '<']) = none := by decide
example : orderRel (.gt 1) 5 (.gt 2) 9 = true := by decide

end C05
