import VermouthModel.C16
namespace C16
end C16
