import VermouthModel.C16
/-!
Helper lemmas for C16: lengths of rendered fields, slicing a rendered record at segment
boundaries, digit strings, stripping.
-/
namespace C16

/-! ### lengths -/

theorem length_padded (sp : Spec) (b : List Char) : (padded sp b).length = max sp.width b.length := by
  unfold padded; split <;> simp <;> omega

theorem length_renderField (sp : Spec) (v : Val) (ht : sp.trunc = true) (hw : sp.width ≠ 0) :
    (renderField sp v).length = sp.width := by
  unfold renderField
  have hp := length_padded sp (fieldBody sp v)
  generalize padded sp (fieldBody sp v) = r at *
  by_cases h : sp.width < r.length
  · have hw' : (sp.width != 0) = true := by simpa using hw
    simp only [ht, hw', h, decide_true, Bool.and_self, if_true]
    split
    · simp; omega
    · simp; omega
  · simp only [h, decide_false, Bool.and_false]
    simp; omega

/-- a field that fits is just padded -/
theorem renderField_of_fits (sp : Spec) (v : Val) (h : (fieldBody sp v).length ≤ sp.width) :
    renderField sp v = padded sp (fieldBody sp v) := by
  unfold renderField
  have hp := length_padded sp (fieldBody sp v)
  have : ¬ sp.width < (padded sp (fieldBody sp v)).length := by omega
  simp [this]

def segOk : Seg → Bool
  | .lit _ => true
  | .fld _ sp => sp.trunc && sp.width != 0

theorem allTrunc_cons (s : Seg) (fmt : List Seg) : allTrunc (s :: fmt) = (segOk s && allTrunc fmt) := by
  unfold allTrunc segOk
  cases s <;> simp

theorem length_segText (env : Env) (s : Seg) (h : segOk s = true) : (segText env s).length = segWidth s := by
  cases s with
  | lit s => rfl
  | fld n sp =>
    simp only [segOk, Bool.and_eq_true, bne_iff_ne, ne_eq] at h
    exact length_renderField sp (env n) h.1 h.2

theorem render_nil (env : Env) : render [] env = [] := rfl
theorem render_cons (env : Env) (s : Seg) (fmt : List Seg) :
    render (s :: fmt) env = segText env s ++ render fmt env := by
  simp [render]
theorem render_append (env : Env) (a b : List Seg) : render (a ++ b) env = render a env ++ render b env := by
  simp [render]

theorem fmtWidth_cons (s : Seg) (fmt : List Seg) : fmtWidth (s :: fmt) = segWidth s + fmtWidth fmt := by
  simp [fmtWidth]

theorem length_render (env : Env) (fmt : List Seg) (h : allTrunc fmt = true) :
    (render fmt env).length = fmtWidth fmt := by
  induction fmt with
  | nil => rfl
  | cons s fmt ih =>
    rw [allTrunc_cons, Bool.and_eq_true] at h
    rw [render_cons, List.length_append, length_segText env s h.1, ih h.2, fmtWidth_cons]

/-! ### slicing at segment boundaries -/

/-- remove a prefix of segments of total width exactly `n` -/
def dropW : List Seg → Nat → Option (List Seg)
  | fmt, 0 => some fmt
  | [], _ + 1 => none
  | s :: r, n + 1 => if segWidth s ≤ n + 1 then dropW r (n + 1 - segWidth s) else none

/-- the prefix of segments of total width exactly `n` (shortest such prefix) -/
def takeW : List Seg → Nat → Option (List Seg)
  | _, 0 => some []
  | [], _ + 1 => none
  | s :: r, n + 1 => if segWidth s ≤ n + 1 then (takeW r (n + 1 - segWidth s)).map (s :: ·) else none

/-- the segments occupying columns `[a, b)` -/
def segsOf (fmt : List Seg) (a b : Nat) : Option (List Seg) := (dropW fmt a).bind (takeW · (b - a))

theorem drop_render (env : Env) : ∀ (fmt : List Seg) (n : Nat) (rest : List Seg), allTrunc fmt = true →
    dropW fmt n = some rest → (render fmt env).drop n = render rest env ∧ allTrunc rest = true
  | fmt, 0, rest, h, hd => by
      cases fmt <;> (simp only [dropW, Option.some.injEq] at hd; subst hd; exact ⟨rfl, h⟩)
  | [], n + 1, rest, _, hd => by simp [dropW] at hd
  | s :: r, n + 1, rest, h, hd => by
      rw [allTrunc_cons, Bool.and_eq_true] at h
      simp only [dropW] at hd
      split at hd
      · rename_i hle
        have ih := drop_render env r (n + 1 - segWidth s) rest h.2 hd
        refine ⟨?_, ih.2⟩
        rw [render_cons, List.drop_append]
        have hl := length_segText env s h.1
        rw [List.drop_of_length_le (by omega), hl, List.nil_append]
        exact ih.1
      · cases hd

theorem take_render (env : Env) : ∀ (fmt : List Seg) (n : Nat) (pre : List Seg), allTrunc fmt = true →
    takeW fmt n = some pre → (render fmt env).take n = render pre env
  | fmt, 0, pre, _, hd => by
      cases fmt <;> (simp only [takeW, Option.some.injEq] at hd; subst hd; simp [render])
  | [], n + 1, pre, _, hd => by simp [takeW] at hd
  | s :: r, n + 1, pre, h, hd => by
      rw [allTrunc_cons, Bool.and_eq_true] at h
      simp only [takeW] at hd
      split at hd
      · rename_i hle
        cases ht : takeW r (n + 1 - segWidth s) with
        | none => rw [ht] at hd; cases hd
        | some p =>
          rw [ht] at hd
          simp only [Option.map_some, Option.some.injEq] at hd
          subst hd
          have ih := take_render env r (n + 1 - segWidth s) p h.2 ht
          have hl := length_segText env s h.1
          rw [render_cons, render_cons, List.take_append, hl, ih,
            List.take_of_length_le (by omega)]
      · cases hd

theorem slice_render (env : Env) (fmt mid : List Seg) (a b : Nat) (h : allTrunc fmt = true)
    (hs : segsOf fmt a b = some mid) : slice (render fmt env) a b = render mid env := by
  unfold segsOf at hs
  cases hd : dropW fmt a with
  | none => rw [hd] at hs; cases hs
  | some rest =>
    rw [hd] at hs
    simp only [Option.bind_some] at hs
    have h1 := drop_render env fmt a rest h hd
    unfold slice
    rw [h1.1]
    exact take_render env rest (b - a) mid h1.2 hs

/-! ### white space -/

def isBlankLit : Seg → Bool
  | .lit s => s.all (· = ' ')
  | .fld _ _ => false

theorem stripL_replicate_append (n : Nat) (s : List Char) : stripL (List.replicate n ' ' ++ s) = stripL s := by
  induction n with
  | zero => rfl
  | succ n ih =>
    rw [List.replicate_succ, List.cons_append]
    unfold stripL at *
    rw [List.dropWhile_cons]
    simp only [isWs, decide_true, Bool.true_or, if_true]
    exact ih

theorem stripL_blank_append (p s : List Char) (hp : p.all (· = ' ') = true) : stripL (p ++ s) = stripL s := by
  induction p with
  | nil => rfl
  | cons c p ih =>
    simp only [List.all_cons, Bool.and_eq_true, decide_eq_true_eq] at hp
    rw [List.cons_append]
    unfold stripL at *
    rw [List.dropWhile_cons]
    have : isWs c = true := by rw [hp.1]; rfl
    simp only [this, if_true]
    exact ih hp.2

theorem stripR_append_blank (s p : List Char) (hp : p.all (· = ' ') = true) : stripR (s ++ p) = stripR s := by
  unfold stripR
  rw [List.reverse_append]
  have h := stripL_blank_append p.reverse s.reverse (by simpa using hp)
  unfold stripL at h
  rw [h]

theorem stripL_all_blank (p : List Char) (hp : p.all (· = ' ') = true) : stripL p = [] := by
  have := stripL_blank_append p [] hp
  simpa [stripL] using this

theorem stripL_append_blank (s q : List Char) (hq : q.all (· = ' ') = true) :
    stripL (s ++ q) = if stripL s = [] then [] else stripL s ++ q := by
  induction s with
  | nil =>
    have := stripL_all_blank q hq
    unfold stripL at this
    simp [this, stripL]
  | cons c s ih =>
    unfold stripL at *
    simp only [List.cons_append, List.dropWhile_cons]
    by_cases hc : isWs c = true
    · simp only [hc, if_true]; exact ih
    · simp [hc]

/-- stripping does not see blank columns on either side -/
theorem strip_blank_surround (p s q : List Char) (hp : p.all (· = ' ') = true) (hq : q.all (· = ' ') = true) :
    strip (p ++ s ++ q) = strip s := by
  unfold strip
  rw [List.append_assoc, stripL_blank_append _ _ hp, stripL_append_blank _ _ hq]
  split
  · rename_i h; rw [h]
  · exact stripR_append_blank _ _ hq

theorem all_takeWhile {α : Type} (p : α → Bool) (l : List α) : (l.takeWhile p).all p = true := by
  induction l with
  | nil => rfl
  | cons a l ih =>
    simp only [List.takeWhile_cons]
    split
    · rename_i h; simp [h, ih]
    · rfl

theorem render_blanks (env : Env) (l : List Seg) (h : l.all isBlankLit = true) :
    (render l env).all (· = ' ') = true := by
  induction l with
  | nil => rfl
  | cons s l ih =>
    simp only [List.all_cons, Bool.and_eq_true] at h
    rw [render_cons, List.all_append, Bool.and_eq_true]
    refine ⟨?_, ih h.2⟩
    cases s with
    | lit s => exact h.1
    | fld _ _ => simp [isBlankLit] at h

/-- columns that hold exactly one field and otherwise blank literals -/
def oneField (mid : List Seg) (n : FName) (sp : Spec) : Bool :=
  match mid.dropWhile isBlankLit with
  | .fld n' sp' :: rest => decide (n' = n) && decide (sp' = sp) && rest.all isBlankLit
  | _ => false

theorem strip_render_oneField (env : Env) (mid : List Seg) (n : FName) (sp : Spec)
    (h : oneField mid n sp = true) : strip (render mid env) = strip (renderField sp (env n)) := by
  unfold oneField at h
  have hsplit := List.takeWhile_append_dropWhile (p := isBlankLit) (l := mid)
  split at h
  · rename_i n' sp' rest heq
    simp only [Bool.and_eq_true, decide_eq_true_eq] at h
    obtain ⟨⟨hn, hsp⟩, hrest⟩ := h
    subst hn; subst hsp
    rw [← hsplit, heq, render_append, render_cons]
    have hpre : (mid.takeWhile isBlankLit).all isBlankLit = true := all_takeWhile _ _
    rw [← List.append_assoc]
    exact strip_blank_surround _ _ _ (render_blanks env _ hpre) (render_blanks env _ hrest)
  · cases h

theorem render_blank_indep (env env' : Env) (l : List Seg) (h : l.all isBlankLit = true) :
    render l env = render l env' := by
  induction l with
  | nil => rfl
  | cons s l ih =>
    simp only [List.all_cons, Bool.and_eq_true] at h
    rw [render_cons, render_cons, ih h.2]
    cases s with
    | lit s => rfl
    | fld _ _ => simp [isBlankLit] at h

theorem render_oneField_congr (env env' : Env) (mid : List Seg) (n : FName) (sp : Spec)
    (h : oneField mid n sp = true) (hn : env n = env' n) : render mid env = render mid env' := by
  unfold oneField at h
  have hsplit := List.takeWhile_append_dropWhile (p := isBlankLit) (l := mid)
  split at h
  · rename_i n' sp' rest heq
    simp only [Bool.and_eq_true, decide_eq_true_eq] at h
    obtain ⟨⟨hn', hsp⟩, hrest⟩ := h
    subst hn'; subst hsp
    rw [← hsplit, heq, render_append, render_append, render_cons, render_cons,
      render_blank_indep env env' _ (all_takeWhile _ _), render_blank_indep env env' _ hrest]
    simp only [segText, hn]
  · cases h

/-! ### digits -/

theorem digitChar_props : ∀ d, d < 10 → isDigit (digitChar d) = true ∧ digitVal (digitChar d) = d ∧
    isWs (digitChar d) = false := by
  decide

theorem natDigits_ne_nil (n : Nat) : natDigits n ≠ [] := by
  rw [natDigits]; split <;> simp

theorem all_isDigit_natDigits (n : Nat) : (natDigits n).all isDigit = true := by
  induction n using Nat.strongRecOn with
  | _ n ih =>
    rw [natDigits]
    split
    · rename_i h; simp [(digitChar_props n h).1]
    · rename_i h
      rw [List.all_append, ih (n / 10) (by omega)]
      simp [(digitChar_props (n % 10) (by omega)).1]

theorem digitsVal_append (a : List Char) (c : Char) : digitsVal (a ++ [c]) = digitsVal a * 10 + digitVal c := by
  simp [digitsVal, List.foldl_append]

theorem digitsVal_natDigits (n : Nat) : digitsVal (natDigits n) = n := by
  induction n using Nat.strongRecOn with
  | _ n ih =>
    rw [natDigits]
    split
    · rename_i h; simp [digitsVal, (digitChar_props n h).2.1]
    · rename_i h
      rw [digitsVal_append, ih (n / 10) (by omega), (digitChar_props (n % 10) (by omega)).2.1]
      omega

theorem isDigit_not_ws (c : Char) (h : isDigit c = true) : isWs c = false := by
  unfold isDigit at h
  simp only [Bool.and_eq_true, decide_eq_true_eq] at h
  unfold isWs
  have : ∀ d : Char, d.toNat < 48 → c ≠ d := by
    intro d hd hcd; subst hcd; omega
  simp [this ' ' (by decide), this '\t' (by decide), this '\n' (by decide), this '\r' (by decide),
    this '\x0b' (by decide), this '\x0c' (by decide)]

/-! ### stripping clean text -/

theorem strip_of_no_ws (s : List Char) (h : ∀ c ∈ s, isWs c = false) : strip s = s := by
  have hL : ∀ t : List Char, (∀ c ∈ t, isWs c = false) → t.dropWhile isWs = t := by
    intro t ht
    cases t with
    | nil => rfl
    | cons c t => rw [List.dropWhile_cons]; simp [ht c (by simp)]
  unfold strip stripR stripL
  rw [hL s h, hL s.reverse (by intro c hc; exact h c (by simpa using hc)), List.reverse_reverse]

theorem all_blank_replicate (n : Nat) : (List.replicate n ' ').all (· = ' ') = true := by
  simp

theorem strip_padded (sp : Spec) (b : List Char) (hf : sp.fill = ' ') : strip (padded sp b) = strip b := by
  unfold padded
  rw [hf]
  split
  · have := strip_blank_surround [] b (List.replicate (sp.width - b.length) ' ') rfl (all_blank_replicate _)
    simpa using this
  · have := strip_blank_surround (List.replicate (sp.width - b.length) ' ') b [] (all_blank_replicate _) rfl
    simpa using this

/-! ### integers -/

theorem isDigit_ne (c d : Char) (hc : isDigit c = true) (hd : isDigit d = false) : c ≠ d := by
  intro h; subst h; rw [hc] at hd; cases hd

theorem natDigits_cons (n : Nat) : ∃ c r, natDigits n = c :: r ∧ isDigit c = true := by
  have h1 := natDigits_ne_nil n
  have h2 := all_isDigit_natDigits n
  cases h : natDigits n with
  | nil => exact absurd h h1
  | cons c r =>
    rw [h] at h2
    simp only [List.all_cons, Bool.and_eq_true] at h2
    exact ⟨c, r, rfl, h2.1⟩

theorem parseInt_natDigits (n : Nat) : parseInt (natDigits n) = some (n : Int) := by
  obtain ⟨c, r, hcr, hc⟩ := natDigits_cons n
  have hall := all_isDigit_natDigits n
  have hval := digitsVal_natDigits n
  rw [hcr] at hall hval ⊢
  unfold parseInt
  split
  · rename_i ds heq
    have := (List.cons.inj heq).1
    exact absurd this (isDigit_ne _ _ hc (by decide))
  · rename_i ds heq
    have := (List.cons.inj heq).1
    exact absurd this (isDigit_ne _ _ hc (by decide))
  · simp only [ne_eq, reduceCtorEq, not_false_eq_true, true_and, hall, if_true, hval]

theorem parseInt_intRepr (i : Int) : parseInt (intRepr i) = some i := by
  unfold intRepr
  split
  · rename_i h
    unfold parseInt
    simp only [ne_eq, natDigits_ne_nil, not_false_eq_true, all_isDigit_natDigits, and_self, if_true,
      digitsVal_natDigits]
    congr 1; omega
  · rename_i h
    rw [parseInt_natDigits]
    congr 1; omega

theorem natDigits_no_ws (n : Nat) : ∀ c ∈ natDigits n, isWs c = false := by
  intro c hc
  exact isDigit_not_ws c (List.all_eq_true.mp (all_isDigit_natDigits n) c hc)

theorem intRepr_no_ws (i : Int) : ∀ c ∈ intRepr i, isWs c = false := by
  unfold intRepr
  split
  · intro c hc
    rcases List.mem_cons.mp hc with h | h
    · subst h; decide
    · exact natDigits_no_ws _ c h
  · exact natDigits_no_ws _

theorem natDigits_length_le (p : Nat) : ∀ n, n < 10 ^ p → 1 ≤ p → (natDigits n).length ≤ p := by
  induction p with
  | zero => intro n _ h; omega
  | succ p ih =>
    intro n hn _
    rw [natDigits]
    split
    · simp
    · rename_i h10
      have hp : 1 ≤ p := by
        cases p with
        | zero => simp at hn; omega
        | succ q => omega
      have : n / 10 < 10 ^ p := by
        rw [Nat.pow_succ] at hn
        omega
      have := ih (n / 10) this hp
      simp only [List.length_append, List.length_cons, List.length_nil]
      omega

/-! ### fixed-point decimals -/

theorem takeWhile_digits_dot (ds r : List Char) (h : ds.all isDigit = true) :
    (ds ++ '.' :: r).takeWhile isDigit = ds ∧ (ds ++ '.' :: r).dropWhile isDigit = '.' :: r := by
  induction ds with
  | nil => constructor <;> simp [List.takeWhile_cons, List.dropWhile_cons, show isDigit '.' = false by decide]
  | cons c ds ih =>
    simp only [List.all_cons, Bool.and_eq_true] at h
    simp only [List.cons_append, List.takeWhile_cons, List.dropWhile_cons, h.1, if_true]
    exact ⟨by rw [(ih h.2).1], (ih h.2).2⟩

theorem digitsVal_zeros (z : Nat) (ds : List Char) : digitsVal (List.replicate z '0' ++ ds) = digitsVal ds := by
  induction z with
  | zero => rfl
  | succ z ih =>
    rw [List.replicate_succ, List.cons_append]
    unfold digitsVal at *
    rw [List.foldl_cons]
    have : 0 * 10 + digitVal '0' = 0 := by decide
    rw [this]; exact ih

theorem padZeros_props (p n : Nat) (hn : n < 10 ^ p) (hp : 1 ≤ p) :
    (padZeros p (natDigits n)).length = p ∧ (padZeros p (natDigits n)).all isDigit = true ∧
    digitsVal (padZeros p (natDigits n)) = n := by
  have hl := natDigits_length_le p n hn hp
  unfold padZeros
  refine ⟨by simp; omega, ?_, ?_⟩
  · rw [List.all_append, all_isDigit_natDigits]
    simp [show isDigit '0' = true by decide]
  · rw [digitsVal_zeros, digitsVal_natDigits]

theorem parseDecBody_fix (sgn : Int) (p a : Nat) (hp : 1 ≤ p) :
    parseDecBody sgn (natDigits (a / 10 ^ p) ++ '.' :: padZeros p (natDigits (a % 10 ^ p))) =
      some (sgn * (a : Int), p) := by
  have hpos : 0 < 10 ^ p := Nat.pow_pos (by omega)
  obtain ⟨h1, h2, h3⟩ := padZeros_props p (a % 10 ^ p) (Nat.mod_lt _ hpos) hp
  obtain ⟨t1, t2⟩ := takeWhile_digits_dot (natDigits (a / 10 ^ p)) (padZeros p (natDigits (a % 10 ^ p)))
    (all_isDigit_natDigits _)
  unfold parseDecBody
  simp only [t1, t2, h2, h1, h3, digitsVal_natDigits, ne_eq, natDigits_ne_nil, not_false_eq_true, true_or,
    and_self, if_true]
  have : a / 10 ^ p * 10 ^ p + a % 10 ^ p = a := by
    rw [Nat.mul_comm]; exact Nat.div_add_mod a (10 ^ p)
  rw [this]

theorem fixRepr_pos (p : Nat) (hp : 1 ≤ p) (k : Int) :
    fixRepr p k = (if k < 0 then ['-'] else []) ++
      (natDigits (k.natAbs / 10 ^ p) ++ '.' :: padZeros p (natDigits (k.natAbs % 10 ^ p))) := by
  unfold fixRepr
  have : ¬ p = 0 := by omega
  simp only [this, if_false]
  split <;> simp

theorem parseDec_fixRepr (p : Nat) (hp : 1 ≤ p) (k : Int) : parseDec (fixRepr p k) = some (k, p) := by
  rw [fixRepr_pos p hp]
  by_cases hk : k < 0
  · simp only [hk, if_true, List.cons_append, List.nil_append]
    unfold parseDec
    simp only []
    rw [parseDecBody_fix _ _ _ hp]
    congr 2; omega
  · simp only [hk, if_false, List.nil_append]
    obtain ⟨c, r, hcr, hc⟩ := natDigits_cons (k.natAbs / 10 ^ p)
    have key := parseDecBody_fix 1 p k.natAbs hp
    rw [hcr] at key ⊢
    unfold parseDec
    split
    · rename_i r' heq
      exact absurd (List.cons.inj heq).1 (isDigit_ne _ _ hc (by decide))
    · rename_i r' heq
      exact absurd (List.cons.inj heq).1 (isDigit_ne _ _ hc (by decide))
    · rw [key]; congr 2; omega

theorem fixRepr_no_ws (p : Nat) (k : Int) : ∀ c ∈ fixRepr p k, isWs c = false := by
  have hz : ∀ n, ∀ c ∈ padZeros p (natDigits n), isWs c = false := by
    intro n c hc
    unfold padZeros at hc
    rcases List.mem_append.mp hc with h | h
    · rw [(List.mem_replicate.mp h).2]; decide
    · exact natDigits_no_ws _ c h
  have hb : ∀ c ∈ natDigits (k.natAbs / 10 ^ p) ++
      (if p = 0 then [] else '.' :: padZeros p (natDigits (k.natAbs % 10 ^ p))), isWs c = false := by
    intro c hc
    rcases List.mem_append.mp hc with h | h
    · exact natDigits_no_ws _ c h
    · split at h
      · cases h
      · rcases List.mem_cons.mp h with h | h
        · subst h; decide
        · exact hz _ c h
  unfold fixRepr
  simp only []
  split
  · intro c hc
    rcases List.mem_cons.mp hc with h | h
    · subst h; decide
    · exact hb c h
  · exact hb

end C16
