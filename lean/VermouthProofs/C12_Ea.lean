import VermouthProofs.C12_System
/-! Helper lemmas for C12, part 6 (extension round): the bond attribute table.  `Mol.EaOk` (every
entry of the table belongs to an existing bond) is preserved by every operation; with `Mol.Inv` it
forms the extended invariant `Mol.InvE`. -/
namespace C12

theorem eaOk_mono {m m' : Mol} (h : m.EaOk) (he : m'.eattr = m.eattr)
    (hmono : ∀ a b, m.hasEdge a b = true → m'.hasEdge a b = true) : m'.EaOk := by
  intro x hx
  rw [he] at hx
  exact hmono _ _ (h x hx)

theorem eaOk_same {m m' : Mol} (h : m.EaOk) (he : m'.eattr = m.eattr) (hed : m'.edges = m.edges) : m'.EaOk :=
  eaOk_mono h he (fun a b hab => by unfold Mol.hasEdge at hab ⊢; rw [hed]; exact hab)

theorem ensure_eattr (m : Mol) (u : Int) : (m.ensure u).eattr = m.eattr := by
  unfold Mol.ensure; split <;> rfl

theorem addEdge_eattr (m : Mol) (u v : Int) : (m.addEdge u v).eattr = m.eattr := by
  rw [addEdge_eq]; split <;> simp [ensure_eattr]

theorem addEdge_ea {m : Mol} (h : m.EaOk) (u v : Int) : (m.addEdge u v).EaOk :=
  eaOk_mono h (addEdge_eattr m u v) (fun a b hab => (addEdge_hasEdge m u v a b).mpr (Or.inl hab))

theorem addEdges_eattr (m : Mol) (es : List (Int × Int)) : (m.addEdges es).eattr = m.eattr := by
  induction es generalizing m with
  | nil => rfl
  | cons e t ih => rw [addEdges_cons, ih, addEdge_eattr]

theorem addEdges_ea {m : Mol} (h : m.EaOk) (es : List (Int × Int)) : (m.addEdges es).EaOk :=
  eaOk_mono h (addEdges_eattr m es) (fun a b hab => (addEdges_hasEdge m es a b).mpr (Or.inl hab))

/-! ### upsertE / lookupE -/

theorem sameEdge_iff (u v : Int) (k : Int × Int) :
    sameEdge u v k = true ↔ (k.1 = u ∧ k.2 = v) ∨ (k.1 = v ∧ k.2 = u) := by
  simp [sameEdge]

theorem sameEdge_swap (u v : Int) (k : Int × Int) : sameEdge u v (k.2, k.1) = sameEdge v u k := by
  apply Bool.eq_iff_iff.mpr
  rw [sameEdge_iff, sameEdge_iff]
  constructor <;> rintro (⟨a, b⟩ | ⟨a, b⟩) <;> simp_all

theorem sameEdge_comm (u v : Int) (k : Int × Int) : sameEdge u v k = sameEdge v u k := by
  apply Bool.eq_iff_iff.mpr
  rw [sameEdge_iff, sameEdge_iff]
  exact Or.comm

theorem upsertE_key {κ : Type} [BEq κ] (t : List ((κ × κ) × EAttrs)) (u v : κ) (a : EAttrs) :
    ∀ x ∈ upsertE t u v a, (∃ y ∈ t, y.1 = x.1) ∨ x.1 = (u, v) := by
  induction t with
  | nil => intro x hx; simp only [upsertE, List.mem_singleton] at hx; right; rw [hx]
  | cons y t ih =>
    intro x hx
    unfold upsertE at hx
    split at hx
    · rcases List.mem_cons.mp hx with rfl | hx
      · exact Or.inl ⟨y, List.mem_cons_self, rfl⟩
      · exact Or.inl ⟨x, List.mem_cons_of_mem _ hx, rfl⟩
    · rcases List.mem_cons.mp hx with rfl | hx
      · exact Or.inl ⟨x, List.mem_cons_self, rfl⟩
      · rcases ih x hx with ⟨z, hz, e⟩ | e
        · exact Or.inl ⟨z, List.mem_cons_of_mem _ hz, e⟩
        · exact Or.inr e

/-- after `add_edge(u, v, **a)` the bond's dict is its old dict updated with `a` -/
theorem lookupE_upsertE_self (t : List ((Int × Int) × EAttrs)) (u v : Int) (a : EAttrs) :
    lookupE (upsertE t u v a) u v = (lookupE t u v).update a := by
  induction t with
  | nil =>
    simp only [upsertE, lookupE, List.find?_cons, List.find?_nil]
    have : sameEdge u v (u, v) = true := by simp [sameEdge]
    rw [this]
    simp [EAttrs.update]
  | cons y t ih =>
    unfold upsertE
    by_cases hy : sameEdge u v y.1 = true
    · rw [if_pos hy]
      simp only [lookupE, List.find?_cons, hy]
    · rw [if_neg hy]
      have hy' : sameEdge u v y.1 = false := by simpa using hy
      simp only [lookupE, List.find?_cons, hy'] at ih ⊢
      exact ih

/-- ... and no other bond's dict changes -/
theorem lookupE_upsertE_other (t : List ((Int × Int) × EAttrs)) (u v : Int) (a : EAttrs) (c d : Int)
    (hne : sameEdge c d (u, v) = false) : lookupE (upsertE t u v a) c d = lookupE t c d := by
  have hkey : ∀ k : Int × Int, sameEdge u v k = true → sameEdge c d k = false := by
    intro k hk
    rcases (sameEdge_iff u v k).mp hk with ⟨e1, e2⟩ | ⟨e1, e2⟩
    · have : k = (u, v) := Prod.ext e1 e2
      rw [this]; exact hne
    · have : k = (v, u) := Prod.ext e1 e2
      rw [this]
      have := sameEdge_swap c d (u, v)
      simp only at this
      rw [this, sameEdge_comm]; exact hne
  induction t with
  | nil =>
    simp only [upsertE, lookupE, List.find?_cons, List.find?_nil, hne]
  | cons y t ih =>
    unfold upsertE
    by_cases hy : sameEdge u v y.1 = true
    · rw [if_pos hy]
      simp only [lookupE, List.find?_cons, hkey y.1 hy]
    · rw [if_neg hy]
      simp only [lookupE, List.find?_cons] at ih ⊢
      cases hcd : sameEdge c d y.1 with
      | true => rfl
      | false => exact ih

theorem addEdgeA_ea {m : Mol} (h : m.EaOk) (u v : Int) (a : EAttrs) : (m.addEdgeA u v a).EaOk := by
  intro x hx
  have hx' : x ∈ upsertE (m.addEdge u v).eattr u v a := hx
  show (m.addEdge u v).hasEdge x.1.1 x.1.2 = true
  rcases upsertE_key _ _ _ _ x hx' with ⟨y, hy, e⟩ | e
  · rw [← e]; exact addEdge_ea h u v y hy
  · rw [e]; exact (addEdge_hasEdge m u v u v).mpr (Or.inr (Or.inl ⟨rfl, rfl⟩))

theorem foldl_addEdgeA_ea {m : Mol} (h : m.EaOk) (l : List (Int × Int × EAttrs)) :
    (l.foldl (fun acc e => acc.addEdgeA e.1 e.2.1 e.2.2) m).EaOk := by
  induction l generalizing m with
  | nil => exact h
  | cons e t ih => exact ih (addEdgeA_ea h _ _ _)

theorem addEdgesA_ea {m : Mol} (h : m.EaOk) (l : List (Int × Int × EAttrs)) : (m.addEdgesA l).EaOk :=
  foldl_addEdgeA_ea h l

/-! ### removals -/

/-- filtering bonds and table with the same orientation-blind test keeps the table inside the bonds -/
theorem filter_ea {m : Mol} (h : m.EaOk) (keep : Int × Int → Bool) (hsym : ∀ k : Int × Int, keep (k.2, k.1) = keep k)
    (m' : Mol) (hed : m'.edges = m.edges.filter keep) (hea : m'.eattr = m.eattr.filter (fun x => keep x.1)) :
    m'.EaOk := by
  intro x hx
  rw [hea] at hx
  obtain ⟨hx1, hx2⟩ := List.mem_filter.mp hx
  rw [hasEdge_iff, hed]
  rcases (hasEdge_iff m _ _).mp (h x hx1) with h' | h'
  · left; exact List.mem_filter.mpr ⟨h', hx2⟩
  · right
    refine List.mem_filter.mpr ⟨h', ?_⟩
    have := hsym x.1
    rw [← this] at hx2; exact hx2

theorem dropNodes_ea {m : Mol} (h : m.EaOk) (ks : List Int) : (m.dropNodes ks).EaOk :=
  filter_ea h (fun e => !ks.contains e.1 && !ks.contains e.2) (fun k => Bool.and_comm _ _) _ rfl rfl

theorem dropEdges_ea {m : Mol} (h : m.EaOk) (l : List (Int × Int)) : (m.dropEdges l).EaOk := by
  apply filter_ea h (fun e => !l.any (fun uv => sameEdge uv.1 uv.2 e)) _ _ rfl rfl
  intro k
  congr 1
  apply List.any_congr rfl
  intro uv
  rw [sameEdge_swap, sameEdge_comm]

theorem pruneEdges_ea {m : Mol} (h : m.EaOk) (a b : List Int) : (m.pruneEdges a b).EaOk := by
  apply filter_ea h (fun e => !edgeBetween a b e) _ _ rfl rfl
  intro k
  simp only [edgeBetween]
  rw [Bool.or_comm]

theorem subgraph_ea {m : Mol} (h : m.EaOk) (ks : List Int) (s : Mol) (hs : m.subgraph ks = some s) : s.EaOk := by
  unfold Mol.subgraph at hs
  split at hs
  · cases hs
    exact filter_ea h (fun e => ks.contains e.1 && ks.contains e.2) (fun k => Bool.and_comm _ _) _ rfl rfl
  · cases hs

theorem copy_ea {m : Mol} (h : m.EaOk) : m.copy.EaOk := by
  unfold Mol.copy
  cases hs : m.subgraph m.keys with
  | none => exact h
  | some s => exact subgraph_ea h _ s hs

theorem clear_ea (m : Mol) : m.clear.EaOk := by
  intro x hx; cases hx

/-! ### bonds from interactions -/

theorem addPath_ea {m : Mol} (h : m.EaOk) (atoms : List Int) : (m.addPath atoms).EaOk :=
  addEdges_ea h (consecPairs atoms)

theorem foldl_ea {α : Type} (f : Mol → α → Mol) (hf : ∀ m x, m.EaOk → (f m x).EaOk) (l : List α) {m : Mol}
    (h : m.EaOk) : (l.foldl f m).EaOk := by
  induction l generalizing m with
  | nil => exact h
  | cons x t ih => exact ih (hf m x h)

theorem makeEdgesType_ea {m : Mol} (h : m.EaOk) (ty : String) : (m.makeEdgesType ty).EaOk :=
  foldl_ea _ (fun _ ti hm => addPath_ea hm ti.2.atoms) _ h

theorem makeEdgesAll_ea {m : Mol} (h : m.EaOk) : m.makeEdgesAll.EaOk :=
  foldl_ea _ (fun _ ty hm => makeEdgesType_ea hm ty) _ h

/-! ### merge -/

/-- the re-keyed attribute table of the newcomer, in closed form -/
theorem mem_renameEAttr {other : Mol} (ho : other.Wf) (hoe : other.EaOk) (offset : Int)
    (x : (Int × Int) × EAttrs) :
    x ∈ renameEAttr other.keys offset other.eattr ↔
      ∃ y ∈ other.eattr, corr other.keys offset y.1.1 ≠ corr other.keys offset y.1.2 ∧
        x = ((corr other.keys offset y.1.1, corr other.keys offset y.1.2), y.2) := by
  have hk : ∀ y ∈ other.eattr, y.1.1 ∈ other.keys ∧ y.1.2 ∈ other.keys := by
    intro y hy
    rcases (hasEdge_iff other _ _).mp (hoe y hy) with h' | h'
    · exact ho.2.1 _ h'
    · exact ⟨(ho.2.1 _ h').2, (ho.2.1 _ h').1⟩
  unfold renameEAttr
  simp only [List.mem_filterMap]
  constructor
  · rintro ⟨y, hy, h⟩
    rw [corrOf_of_mem _ _ _ (hk y hy).1, corrOf_of_mem _ _ _ (hk y hy).2] at h
    dsimp only at h
    split at h
    · cases h
    · rename_i hne; cases h; exact ⟨y, hy, hne, rfl⟩
  · rintro ⟨y, hy, hne, rfl⟩
    refine ⟨y, hy, ?_⟩
    rw [corrOf_of_mem _ _ _ (hk y hy).1, corrOf_of_mem _ _ _ (hk y hy).2]
    dsimp only
    rw [if_neg hne]

theorem mergeResult_ea {self other : Mol} (ho : other.Wf) (hse : self.EaOk) (hoe : other.EaOk)
    (nrexcl : Option Int) (offset roff coff : Int) : (mergeResult self other nrexcl offset roff coff).EaOk := by
  intro x hx
  have hx' : x ∈ self.eattr ++ renameEAttr other.keys offset other.eattr := hx
  rw [mergeResult_hasEdge]
  rcases List.mem_append.mp hx' with h | h
  · exact Or.inl (hse x h)
  · right
    obtain ⟨y, hy, hne, rfl⟩ := (mem_renameEAttr ho hoe offset x).mp h
    rcases (hasEdge_iff other _ _).mp (hoe y hy) with h' | h'
    · exact ⟨_, (mem_renamedEdges _ _ _ _).mpr ⟨_, h', hne, rfl⟩, Or.inl ⟨rfl, rfl⟩⟩
    · exact ⟨_, (mem_renamedEdges _ _ _ _).mpr ⟨_, h', fun e => hne e.symm, rfl⟩, Or.inr ⟨rfl, rfl⟩⟩

theorem merge_ea {self other : Mol} (hs : self.Inv) (ho : other.Inv) (hse : self.EaOk) (hoe : other.EaOk) :
    (self.merge other).1.EaOk := by
  by_cases hf : self.ff = other.ff
  · by_cases hn : mergeNrexcl self other = other.nrexcl
    · rw [merge_eq hs ho hf hn]; exact mergeResult_ea ho.1 hse hoe _ _ _ _
    · rw [merge_err (Or.inr hn)]; exact hse
  · rw [merge_err (Or.inl hf)]; exact hse

theorem merge_inve {self other : Mol} (hs : self.InvE) (ho : other.InvE) : (self.merge other).1.InvE :=
  ⟨merge_inv hs.1 ho.1, merge_ea hs.1 ho.1 hs.2 ho.2⟩

theorem selfMerge_ea {m : Mol} (h : m.Inv) (he : m.EaOk) : m.selfMerge.1.EaOk := by
  unfold Mol.selfMerge
  split
  · exact merge_ea h h he he
  · split
    · exact merge_ea h h he he
    · rw [mergeOffs_eq h.2]; exact he
  · rw [mergeOffs_eq h.2]; exact he

/-! ### Block.to_molecule -/

/-- every attribute dict of the block belongs to a bond of the block (true of every real block:
networkx keeps the dict inside the adjacency structure) -/
def Block.EaOk (b : Block) : Prop := ∀ x ∈ b.eattr, b.hasEdge x.1.1 x.1.2 = true

instance (b : Block) : Decidable b.EaOk := by unfold Block.EaOk; exact inferInstance

theorem toMolecule_ea (b : Block) (hb : b.EaOk) (ao ro co : Int) (m : Mol) (h : b.toMolecule ao ro co = some m) :
    m.EaOk := by
  obtain ⟨inters, edges, _, he, rfl⟩ := toMolecule_eq b ao ro co m h
  intro x hx
  rw [addEdges_eattr] at hx
  have hx' : x ∈ blockEAttr b.names ao b.eattr := hx
  unfold blockEAttr at hx'
  simp only [List.mem_filterMap] at hx'
  obtain ⟨y, hy, hxy⟩ := hx'
  cases h1 : nameIdx b.names ao y.1.1 with
  | none => rw [h1] at hxy; cases hxy
  | some u =>
    cases h2 : nameIdx b.names ao y.1.2 with
    | none => rw [h1, h2] at hxy; cases hxy
    | some v =>
      rw [h1, h2] at hxy
      cases hxy
      rw [addEdges_hasEdge]
      right
      have hbe := hb y hy
      unfold Block.hasEdge at hbe
      simp only [Bool.or_eq_true, List.contains_eq_mem, decide_eq_true_eq] at hbe
      obtain ⟨_, hspec⟩ := mapM_option_some _ _ _ he
      rcases hbe with hbe | hbe
      · obtain ⟨k, hk, ek⟩ := List.getElem_of_mem hbe
        have := hspec k hk
        rw [ek] at this
        simp only [blockEdge, h1, h2] at this
        exact ⟨(u, v), List.mem_of_getElem? this.symm, Or.inl ⟨rfl, rfl⟩⟩
      · obtain ⟨k, hk, ek⟩ := List.getElem_of_mem hbe
        have := hspec k hk
        rw [ek] at this
        simp only [blockEdge, h1, h2] at this
        exact ⟨(v, u), List.mem_of_getElem? this.symm, Or.inr ⟨rfl, rfl⟩⟩

/-! ### building a block -/

theorem Block.ensure_edges (b : Block) (u : String) : (b.ensure u).edges = b.edges ∧ (b.ensure u).eattr = b.eattr := by
  unfold Block.ensure; split <;> exact ⟨rfl, rfl⟩

theorem Block.hasEdge_of_edges {b b' : Block} (h : ∀ e ∈ b.edges, e ∈ b'.edges) (u v : String)
    (hb : b.hasEdge u v = true) : b'.hasEdge u v = true := by
  unfold Block.hasEdge at hb ⊢
  simp only [Bool.or_eq_true, List.contains_eq_mem, decide_eq_true_eq] at hb ⊢
  rcases hb with hb | hb
  · exact Or.inl (h _ hb)
  · exact Or.inr (h _ hb)

theorem Block.addEdge_ea {b : Block} (h : b.EaOk) (u v : String) (a : EAttrs) : (b.addEdge u v a).EaOk := by
  have e1 := (Block.ensure_edges (b.ensure u) v)
  have e0 := (Block.ensure_edges b u)
  have hed : ((b.ensure u).ensure v).edges = b.edges := by rw [e1.1, e0.1]
  have hea : ((b.ensure u).ensure v).eattr = b.eattr := by rw [e1.2, e0.2]
  unfold Block.addEdge
  dsimp only
  intro x hx
  by_cases hh : ((b.ensure u).ensure v).hasEdge u v = true
  · rw [if_pos hh] at hx ⊢
    rcases upsertE_key _ _ _ _ x hx with ⟨y, hy, e⟩ | e
    · rw [← e]
      rw [hea] at hy
      exact Block.hasEdge_of_edges (fun e' he' => by rw [hed]; exact he') _ _ (h y hy)
    · rw [e]; exact hh
  · rw [if_neg hh] at hx ⊢
    rcases upsertE_key _ _ _ _ x hx with ⟨y, hy, e⟩ | e
    · rw [← e]
      have hy' : y ∈ b.eattr := by rw [← hea]; exact hy
      apply Block.hasEdge_of_edges _ _ _ (h y hy')
      intro e' he'
      show e' ∈ ((b.ensure u).ensure v).edges ++ [(u, v)]
      rw [hed]; exact List.mem_append_left _ he'
    · rw [e]
      unfold Block.hasEdge
      simp

theorem Block.makeEdges_ea {b : Block} (h : b.EaOk) (ty : String) : (b.makeEdges ty).EaOk := by
  unfold Block.makeEdges
  generalize (b.inters.filter (fun i => i.ty == ty && i.edge)) = l
  induction l generalizing b with
  | nil => exact h
  | cons i t ih =>
    simp only [List.foldl_cons]
    apply ih
    generalize consecPairs i.atoms = ps
    induction ps generalizing b with
    | nil => exact h
    | cons e r ih2 => simp only [List.foldl_cons]; exact ih2 (Block.addEdge_ea h _ _ _)

theorem Block.bstep_ea {b b' : Block} (h : b.EaOk) (s : BStep) (hs : b.bstep s = .ok b') : b'.EaOk := by
  cases s with
  | addAtom a =>
    simp only [Block.bstep] at hs
    split at hs
    · cases hs
    · cases hs; exact h
  | addNode n a => simp only [Block.bstep] at hs; cases hs; exact h
  | addEdge u v a => simp only [Block.bstep] at hs; cases hs; exact Block.addEdge_ea h u v a
  | addInter i =>
    simp only [Block.bstep] at hs
    split at hs
    · cases hs; exact h
    · cases hs
  | rawInter i => simp only [Block.bstep] at hs; cases hs; exact h
  | makeEdges ty => simp only [Block.bstep] at hs; cases hs; exact Block.makeEdges_ea h ty
  | log lvl entry => simp only [Block.bstep] at hs; cases hs; exact h

theorem Block.build_ea {b0 b : Block} (h : b0.EaOk) (steps : List BStep) (hs : b0.build steps = .ok b) : b.EaOk := by
  induction steps generalizing b0 with
  | nil => simp only [Block.build] at hs; cases hs; exact h
  | cons s t ih =>
    unfold Block.build at hs
    cases hb : b0.bstep s with
    | error e => rw [hb] at hs; cases hs
    | ok b1 => rw [hb] at hs; exact ih (Block.bstep_ea h s hb) hs

/-! ### the pool -/

theorem addInter_fields (m : Mol) (ty : String) (atoms : List Int) (params : String) (version : Option Int) (edge : Bool) :
    (m.addInter ty atoms params version edge).1.edges = m.edges ∧
    (m.addInter ty atoms params version edge).1.eattr = m.eattr := by
  unfold Mol.addInter; split <;> exact ⟨rfl, rfl⟩

theorem addOrReplace_fields (m : Mol) (ty : String) (atoms : List Int) (params : String) (version : Option Int)
    (cites : List String) (edge : Bool) :
    (m.addOrReplace ty atoms params version cites edge).1.edges = m.edges ∧
    (m.addOrReplace ty atoms params version cites edge).1.eattr = m.eattr := by
  unfold Mol.addOrReplace
  dsimp only
  cases hr : replaceFirst m.inters ty { atoms := atoms, params := params, version := version, edge := edge } with
  | some l => exact ⟨rfl, rfl⟩
  | none =>
    have h2 := addInter_fields m ty atoms params version edge
    simp only []
    cases hai : m.addInter ty atoms params version edge with
    | mk m' o =>
      rw [hai] at h2
      cases o <;> exact h2

theorem poolInvE_inv {p : Pool} (h : PoolInvE p) : PoolInv p := fun m hm => (h m hm).1

theorem poolInvE_of {p : Pool} (h1 : PoolInv p) (h2 : ∀ m ∈ p, m.EaOk) : PoolInvE p := fun m hm => ⟨h1 m hm, h2 m hm⟩

theorem onMol_ea {p : Pool} (h : PoolInvE p) (i : Nat) (f : Mol → Mol × Outcome)
    (hf : ∀ m, m.InvE → (f m).1.EaOk) : ∀ m ∈ (onMol p i f).1, m.EaOk := by
  unfold onMol
  cases hm : p[i]? with
  | none => exact fun m hmem => (h m hmem).2
  | some m0 =>
    intro m hmem
    rcases List.mem_or_eq_of_mem_set hmem with hx | rfl
    · exact (h m hx).2
    · exact hf m0 (h m0 (List.mem_of_getElem? hm))

theorem append_ea {p : Pool} (h : PoolInvE p) (m0 : Mol) (h0 : m0.EaOk) : ∀ m ∈ p ++ [m0], m.EaOk := by
  intro m hm
  rcases List.mem_append.mp hm with hm | hm
  · exact (h m hm).2
  · rw [List.mem_singleton.mp hm]; exact h0

/-- the operations whose block argument must itself be consistent -/
def Op.blockOk : Op → Bool
  | .fromBlock b .. => decide b.EaOk
  | .buildBlock b0 .. => decide b0.EaOk
  | _ => true

theorem fromBlockStep_ea {p : Pool} (h : PoolInvE p) (b : Block) (hb : b.EaOk) (ao ro co : Int) :
    ∀ m ∈ (fromBlockStep p b ao ro co).1, m.EaOk := by
  unfold fromBlockStep
  cases hm : b.toMolecule ao ro co with
  | none => exact fun m hmem => (h m hmem).2
  | some m0 => exact append_ea h m0 (toMolecule_ea b hb ao ro co m0 hm)

theorem step_ea {p : Pool} (h : PoolInvE p) (op : Op) (hb : op.blockOk = true) : ∀ m ∈ (step p op).1, m.EaOk := by
  cases op with
  | addNode i k a => exact onMol_ea h i _ (fun m hm => hm.2)
  | addNodes i l => exact onMol_ea h i _ (fun m hm => hm.2)
  | addNodesC i l c => exact onMol_ea h i _ (fun m hm => hm.2)
  | removeNode i k =>
    apply onMol_ea h i
    intro m hm
    split
    · exact dropNodes_ea hm.2 _
    · exact hm.2
  | removeNodes i ks => exact onMol_ea h i _ (fun m hm => dropNodes_ea hm.2 ks)
  | addEdge i u v => exact onMol_ea h i _ (fun m hm => addEdge_ea hm.2 u v)
  | addEdgeA i u v a => exact onMol_ea h i _ (fun m hm => addEdgeA_ea hm.2 u v a)
  | addEdgesA i l => exact onMol_ea h i _ (fun m hm => addEdgesA_ea hm.2 l)
  | removeEdge i u v =>
    apply onMol_ea h i
    intro m hm
    split
    · exact dropEdges_ea hm.2 _
    · exact hm.2
  | removeEdges i l => exact onMol_ea h i _ (fun m hm => dropEdges_ea hm.2 l)
  | makeEdgesType i ty => exact onMol_ea h i _ (fun m hm => makeEdgesType_ea hm.2 ty)
  | makeEdgesAll i => exact onMol_ea h i _ (fun m hm => makeEdgesAll_ea hm.2)
  | clear i => exact onMol_ea h i _ (fun m _ => clear_ea m)
  | addInter i ty atoms params version edge =>
    apply onMol_ea h i
    intro m hm
    unfold Mol.addInter
    split
    · exact hm.2
    · exact hm.2
  | addOrReplace i ty atoms params version cites edge =>
    apply onMol_ea h i
    intro m hm
    have := addOrReplace_fields m ty atoms params version cites edge
    exact eaOk_same hm.2 this.2 this.1
  | removeInter i ty atoms version =>
    apply onMol_ea h i
    intro m hm
    unfold Mol.removeInter
    split <;> exact hm.2
  | removeMatching i ty t =>
    apply onMol_ea h i
    intro m hm
    unfold Mol.removeMatching
    split <;> exact hm.2
  | pruneEdges i a b => exact onMol_ea h i _ (fun m hm => pruneEdges_ea hm.2 a b)
  | pruneByName i na nb => exact onMol_ea h i _ (fun m hm => pruneEdges_ea hm.2 _ _)
  | addLog i lvl entry args => exact onMol_ea h i _ (fun m hm => hm.2)
  | copy i =>
    simp only [step]
    cases hm : p[i]? with
    | none => exact fun m hmem => (h m hmem).2
    | some m0 => exact append_ea h _ (copy_ea (h m0 (List.mem_of_getElem? hm)).2)
  | subgraph i ks =>
    simp only [step]
    cases hm : p[i]? with
    | none => exact fun m hmem => (h m hmem).2
    | some m0 =>
      dsimp only
      cases hs : m0.subgraph ks with
      | none => exact fun m hmem => (h m hmem).2
      | some s => exact append_ea h _ (subgraph_ea (h m0 (List.mem_of_getElem? hm)).2 ks s hs)
  | merge i j =>
    simp only [step]
    split
    · exact onMol_ea h i _ (fun m hm => selfMerge_ea hm.1 hm.2)
    · cases ha : p[i]? with
      | none => exact fun m hmem => (h m hmem).2
      | some a =>
        cases hb' : p[j]? with
        | none => exact fun m hmem => (h m hmem).2
        | some b =>
          intro m hmem
          have hmem' : m ∈ p.set i (a.merge b).1 := hmem
          rcases List.mem_or_eq_of_mem_set hmem' with hx | rfl
          · exact (h m hx).2
          · have h1 := h a (List.mem_of_getElem? ha)
            have h2 := h b (List.mem_of_getElem? hb')
            exact merge_ea h1.1 h2.1 h1.2 h2.2
  | newMol n ff => exact append_ea h _ (fun x hx => by cases hx)
  | fromBlock b ao ro co =>
    simp only [Op.blockOk, decide_eq_true_eq] at hb
    exact fromBlockStep_ea h b hb ao ro co
  | buildBlock b0 steps ao ro co =>
    simp only [Op.blockOk, decide_eq_true_eq] at hb
    simp only [step]
    cases hbld : b0.build steps with
    | error e => exact fun m hmem => (h m hmem).2
    | ok b => exact fromBlockStep_ea h b (Block.build_ea hb steps hbld) ao ro co

theorem step_inve {p : Pool} (h : PoolInvE p) (op : Op) (hs : op.safe p = true) (hb : op.blockOk = true) :
    PoolInvE (step p op).1 :=
  poolInvE_of (step_inv (poolInvE_inv h) op hs) (step_ea h op hb)

/-- a history in which every step is safe where it is applied and every block argument is consistent -/
def SafeRunE (p : Pool) (ops : List Op) : Bool := SafeRun p ops && ops.all Op.blockOk

theorem run_inve {p : Pool} (h : PoolInvE p) (ops : List Op) (hs : SafeRun p ops = true)
    (hb : ∀ op ∈ ops, op.blockOk = true) : PoolInvE (run p ops) := by
  induction ops generalizing p with
  | nil => exact h
  | cons o t ih =>
    simp only [SafeRun, Bool.and_eq_true] at hs
    exact ih (step_inve h o hs.1 (hb o List.mem_cons_self)) hs.2 (fun op hop => hb op (List.mem_cons_of_mem _ hop))

end C12
