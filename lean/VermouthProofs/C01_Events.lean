import VermouthProofs.C01_ModProofs
/-! C01 — the merged loop as a fold over a schedule of events; the particle table in closed form for
runs WITH modification matches (when no `replace` dictionary touches atomname / resid / charge_group). -/
namespace C01
open C12

inductive Ev where
  | blk (p : Placement)
  | mod (q : ModPlacement)
  deriving Repr, Inhabited

def applyEv (st : St) : Ev → St
  | .blk p => applyBlock st p
  | .mod q => applyMod st q

/-- the order in which `runAll` applies the matches -/
def schedule : Nat → List Placement → List ModPlacement → List Ev
  | 0, _, _ => []
  | _ + 1, [], [] => []
  | n + 1, [], q :: qs => .mod q :: schedule n [] qs
  | n + 1, p :: ps, [] => .blk p :: schedule n ps []
  | n + 1, p :: ps, q :: qs =>
    if modKey q < minKey p then .mod q :: schedule n (p :: ps) qs else .blk p :: schedule n ps (q :: qs)

theorem runAll_eq_fold (n : Nat) (ps : List Placement) (qs : List ModPlacement) (st : St) :
    runAll n ps qs st = (schedule n ps qs).foldl applyEv st := by
  induction n generalizing ps qs st with
  | zero => rfl
  | succ n ih =>
    cases ps with
    | nil =>
      cases qs with
      | nil => rfl
      | cons q qs => simp only [runAll, schedule, List.foldl_cons, applyEv, ih]
    | cons p ps =>
      cases qs with
      | nil => simp only [runAll, schedule, List.foldl_cons, applyEv, ih]
      | cons q qs =>
        simp only [runAll, schedule]
        split
        · simp only [List.foldl_cons, applyEv, ih]
        · simp only [List.foldl_cons, applyEv, ih]

def blocksOf : List Ev → List Placement
  | [] => []
  | .blk p :: es => p :: blocksOf es
  | .mod _ :: es => blocksOf es

def modsOf : List Ev → List ModPlacement
  | [] => []
  | .blk _ :: es => modsOf es
  | .mod q :: es => q :: modsOf es

/-- with enough fuel (the number of matches) the schedule holds every block match and every
modification match, each queue in its own order -/
theorem schedule_split (n : Nat) (ps : List Placement) (qs : List ModPlacement) (hn : ps.length + qs.length ≤ n) :
    blocksOf (schedule n ps qs) = ps ∧ modsOf (schedule n ps qs) = qs := by
  induction n generalizing ps qs with
  | zero =>
    have hp : ps = [] := List.length_eq_zero_iff.1 (by omega)
    have hq : qs = [] := List.length_eq_zero_iff.1 (by omega)
    subst hp; subst hq
    exact ⟨rfl, rfl⟩
  | succ n ih =>
    cases ps with
    | nil =>
      cases qs with
      | nil => exact ⟨rfl, rfl⟩
      | cons q qs =>
        obtain ⟨h1, h2⟩ := ih [] qs (by simp at hn ⊢; omega)
        simp only [schedule, blocksOf, modsOf, h1, h2, and_self]
    | cons p ps =>
      cases qs with
      | nil =>
        obtain ⟨h1, h2⟩ := ih ps [] (by simp at hn ⊢; omega)
        simp only [schedule, blocksOf, modsOf, h1, h2, and_self]
      | cons q qs =>
        simp only [schedule]
        split
        · obtain ⟨h1, h2⟩ := ih (p :: ps) qs (by simp at hn ⊢; omega)
          simp only [blocksOf, modsOf, h1, h2, and_self]
        · obtain ⟨h1, h2⟩ := ih ps (q :: qs) (by simp at hn ⊢; omega)
          simp only [blocksOf, modsOf, h1, h2, and_self]

/-! ### new particles of a modification match, in closed form -/

/-- offsets after the new particle `n` was appended: it is the last node now; its own resid and
charge group (default 1) are what the next merge starts from — NOT added to the running offsets
(known finding F-C01-3) -/
def Off.afterNew (o : Off) (n : ModNode) : Off :=
  { n := o.n + 1, roff := n.attrs.resid.getD 1, coff := n.attrs.cg.getD 1 }

def Off.nextNodes (o : Off) : List ModNode → Off
  | [] => o
  | n :: ns => if n.isNew then Off.nextNodes (o.afterNew n) ns else Off.nextNodes o ns

/-- the particles a modification match appends: one per `PTM_atom` node, in node order, under the
next free keys, with the attributes of the modification node as they are -/
def newNodesL (o : Off) : List ModNode → List (Int × Attrs)
  | [] => []
  | n :: ns => if n.isNew then ((o.n : Int) + 1, n.attrs) :: newNodesL (o.afterNew n) ns else newNodesL o ns

theorem newNodesL_attrs (o : Off) (ns : List ModNode) :
    (newNodesL o ns).map Prod.snd = (ns.filter (·.isNew)).map (·.attrs) := by
  induction ns generalizing o with
  | nil => rfl
  | cons n ns ih =>
    unfold newNodesL
    by_cases h : n.isNew = true
    · simp [h, ih, List.filter_cons]
    · simp [h, ih, List.filter_cons]

theorem newNodesL_keys (o : Off) (ns : List ModNode) :
    (newNodesL o ns).map Prod.fst
      = (List.range (newNodesL o ns).length).map (fun (i : Nat) => (o.n : Int) + 1 + (i : Int)) := by
  induction ns generalizing o with
  | nil => rfl
  | cons n ns ih =>
    unfold newNodesL
    by_cases h : n.isNew = true
    · simp only [h, if_true, List.map_cons, List.length_cons, List.range_succ_eq_map, List.map_map, ih]
      rw [List.cons.injEq]
      refine ⟨by simp, List.map_congr_left ?_⟩
      intro i _
      simp only [Off.afterNew, Function.comp, Int.natCast_add, Int.natCast_one]
      omega
    · simp only [h, Bool.false_eq_true, if_false]
      exact ih o

theorem nextNodes_n (o : Off) (ns : List ModNode) : (o.nextNodes ns).n = o.n + (newNodesL o ns).length := by
  induction ns generalizing o with
  | nil => rfl
  | cons n ns ih =>
    unfold Off.nextNodes newNodesL
    by_cases h : n.isNew = true
    · simp only [h, if_true, ih, List.length_cons, Off.afterNew]; omega
    · simp [h, ih]

/-! ### one modification step on the particle table -/

theorem foldl_min_mem (ks : List Int) (k : Int) : ks.foldl min k ∈ k :: ks := by
  induction ks generalizing k with
  | nil => simp
  | cons y ys ih =>
    simp only [List.foldl_cons]
    have := ih (min k y)
    rcases List.mem_cons.1 this with h | h
    · rw [h]
      by_cases hky : k ≤ y
      · rw [Int.min_eq_left hky]; simp
      · rw [Int.min_eq_right (by omega)]; simp
    · exact List.mem_cons_of_mem _ (List.mem_cons_of_mem _ h)

theorem overlayTarget_mem (st : St) (p : ModPlacement) (n : ModNode) (k : Int)
    (h : overlayTarget st p n = some k) : k ∈ st.out.keys := by
  unfold overlayTarget at h
  simp only at h
  split at h
  · cases h
  · rename_i k0 ks hok
    simp only [Option.some.injEq] at h
    have hm : k ∈ k0 :: ks := h ▸ foldl_min_mem ks k0
    rw [← hok] at hm
    have := (List.mem_filter.1 hm).2
    cases hl : lookupAttrs st.out.nodes k with
    | none => simp [hl] at this
    | some a =>
      unfold lookupAttrs at hl
      cases hf : st.out.nodes.find? (fun p => p.1 == k) with
      | none => simp [hf] at hl
      | some x =>
        have hx := List.find?_some hf
        have hmem := List.mem_of_find?_eq_some hf
        simp only [beq_iff_eq] at hx
        exact List.mem_map.2 ⟨x, hmem, hx⟩

theorem updNode_id (nodes : List (Int × Attrs)) (k : Int) : updNode nodes k ({} : Repl).apply = nodes := by
  unfold updNode
  have : (fun p : Int × Attrs => if p.1 = k then (p.1, ({} : Repl).apply p.2) else p) = id := by
    funext p
    simp only [repl_apply_empty]
    split <;> rfl
  rw [this, List.map_id]

theorem inv_congr (m m' : Mol) (o : Off) (h1 : m'.nodes = m.nodes) (h2 : m'.maxNode = m.maxNode) (h : Inv m o) :
    Inv m' o := by
  unfold Inv Mol.keys at *
  rw [h1, h2]; exact h

theorem inv_addNode (m : Mol) (o : Off) (n : ModNode) (hinv : Inv m o) (hne : m.nodes ≠ []) :
    (m.addNode (if m.nodes.isEmpty then 0 else (maxKey m.keys).getD 0 + 1) n.attrs).nodes
        = m.nodes ++ [((o.n : Int) + 1, n.attrs)]
    ∧ Inv (m.addNode (if m.nodes.isEmpty then 0 else (maxKey m.keys).getD 0 + 1) n.attrs) (o.afterNew n) := by
  have hk : (if m.nodes.isEmpty then 0 else (maxKey m.keys).getD 0 + 1) = (o.n : Int) + 1 := by
    have : m.nodes.isEmpty = false := by
      cases hm : m.nodes with
      | nil => exact absurd hm hne
      | cons _ _ => rfl
    simp [this, (lastKey_inv m o hinv hne).2]
  have hnodes := addNode_fresh_nodes m n.attrs
  rw [hk] at hnodes ⊢
  refine ⟨hnodes, ?_, ?_⟩
  · show List.map Prod.fst (m.addNode ((o.n : Int) + 1) n.attrs).nodes = _
    rw [hnodes, List.map_append]
    have := hinv.1
    unfold Mol.keys at this
    rw [this]
    show _ = iota1 (o.n + 1)
    rw [iota1_succ]; rfl
  · have hne' : (m.addNode ((o.n : Int) + 1) n.attrs).nodes ≠ [] := by rw [hnodes]; simp
    rw [if_neg hne']
    refine ⟨Or.inr rfl, n.attrs, ?_, rfl, rfl⟩
    rw [hnodes]
    simp only [Off.afterNew, Int.natCast_add, Int.natCast_one]
    rw [lookupAttrs_append_right]
    · simp [lookupAttrs]
    · intro p hp
      have : p.1 ∈ m.keys := List.mem_map.2 ⟨p, hp, rfl⟩
      rw [hinv.1, mem_iota1] at this
      omega

theorem placeModNodes_table (st : St) (p : ModPlacement) (ns : List ModNode) (out out' : Mol) (o : Off)
    (m2o m2o' : List (Int × Int)) (hinv : Inv out o) (hne : out.nodes ≠ [])
    (hrepl : ∀ n ∈ ns, n.repl = {}) (hm : ∀ x ∈ m2o, x.2 ∈ out.keys)
    (h : placeModNodes st p ns out m2o = some (out', m2o')) :
    out'.nodes = out.nodes ++ newNodesL o ns ∧ Inv out' (o.nextNodes ns) ∧ out'.nodes ≠ []
    ∧ (∀ x ∈ m2o', x.2 ∈ out'.keys) ∧ out'.edges = out.edges ∧ out'.inters = out.inters := by
  induction ns generalizing out o m2o with
  | nil =>
    simp only [placeModNodes, Option.some.injEq, Prod.mk.injEq] at h
    obtain ⟨rfl, rfl⟩ := h
    exact ⟨by simp [newNodesL], hinv, hne, hm, rfl, rfl⟩
  | cons n ns ih =>
    unfold placeModNodes at h
    by_cases hn : n.isNew = true
    · rw [if_pos hn] at h
      obtain ⟨a1, a2⟩ := inv_addNode out o n hinv hne
      have hne1 : (out.addNode (if out.nodes.isEmpty then 0 else (maxKey out.keys).getD 0 + 1) n.attrs).nodes ≠ [] := by
        rw [a1]; simp
      have hk : (if out.nodes.isEmpty then 0 else (maxKey out.keys).getD 0 + 1) = (o.n : Int) + 1 := by
        have : out.nodes.isEmpty = false := by
          cases hm' : out.nodes with
          | nil => exact absurd hm' hne
          | cons _ _ => rfl
        simp [this, (lastKey_inv out o hinv hne).2]
      have hm1 : ∀ x ∈ m2o ++ [(n.key, (if out.nodes.isEmpty then 0 else (maxKey out.keys).getD 0 + 1))],
          x.2 ∈ (out.addNode (if out.nodes.isEmpty then 0 else (maxKey out.keys).getD 0 + 1) n.attrs).keys := by
        intro x hx
        show x.2 ∈ List.map Prod.fst (out.addNode (if out.nodes.isEmpty then 0 else (maxKey out.keys).getD 0 + 1) n.attrs).nodes
        rw [a1, List.map_append]
        rcases List.mem_append.1 hx with hx | hx
        · exact List.mem_append_left _ (hm x hx)
        · simp only [List.mem_singleton] at hx
          subst hx
          apply List.mem_append_right
          show (if out.nodes.isEmpty then 0 else (maxKey out.keys).getD 0 + 1) ∈ List.map Prod.fst [((o.n : Int) + 1, n.attrs)]
          rw [hk]; simp
      obtain ⟨b1, b2, b3, b4, b5, b6⟩ := ih _ _ _ a2 hne1 (fun x hx => hrepl x (List.mem_cons_of_mem _ hx)) hm1 h
      refine ⟨?_, ?_, b3, b4, by rw [b5]; rfl, by rw [b6]; rfl⟩
      · rw [b1, a1]
        simp only [newNodesL, hn, if_true, List.append_assoc, List.singleton_append]
      · simpa [Off.nextNodes, hn] using b2
    · rw [if_neg hn] at h
      split at h
      · cases h
      · split at h
        · cases h
        · rename_i k hk
          have hkmem : k ∈ out.keys := overlayTarget_mem _ p n k hk
          have hsame : ({ out with nodes := updNode out.nodes k n.repl.apply } : Mol) = out := by
            rw [hrepl n List.mem_cons_self, updNode_id]
          rw [hsame] at h
          have hm1 : ∀ x ∈ m2o ++ [(n.key, k)], x.2 ∈ out.keys := by
            intro x hx
            rcases List.mem_append.1 hx with hx | hx
            · exact hm x hx
            · simp only [List.mem_singleton] at hx
              subst hx
              exact hkmem
          obtain ⟨b1, b2, b3, b4, b5, b6⟩ := ih _ _ _ hinv hne (fun x hx => hrepl x (List.mem_cons_of_mem _ hx)) hm1 h
          refine ⟨?_, ?_, b3, b4, b5, b6⟩
          · simpa [newNodesL, hn] using b1
          · simpa [Off.nextNodes, hn] using b2

theorem addInter_maxNode (m : Mol) (ty : String) (atoms : List Int) (pr : String) (v : Option Int) :
    (m.addInter ty atoms pr v).1.maxNode = m.maxNode := by
  unfold Mol.addInter
  split <;> rfl

theorem addOrReplace_maxNode (m : Mol) (ty : String) (atoms : List Int) (pr : String) (v : Option Int) (c : List String) :
    (m.addOrReplace ty atoms pr v c).1.maxNode = m.maxNode := by
  unfold Mol.addOrReplace
  simp only
  split
  · rfl
  · have hn := addInter_maxNode m ty atoms pr v
    generalize m.addInter ty atoms pr v = r at hn ⊢
    obtain ⟨m', e⟩ := r
    cases e <;> exact hn

theorem foldl_addOrReplace_maxNode (is : List (String × Inter)) (m : Mol) :
    (is.foldl (fun o ti => (o.addOrReplace ti.1 ti.2.atoms ti.2.params ti.2.version []).1) m).maxNode = m.maxNode := by
  induction is generalizing m with
  | nil => rfl
  | cons i is ih => simp only [List.foldl_cons, ih, addOrReplace_maxNode]

theorem lookup_mem {α β} [BEq α] [LawfulBEq α] (l : List (α × β)) (a : α) (b : β) (h : l.lookup a = some b) : (a, b) ∈ l := by
  induction l with
  | nil => cases h
  | cons x r ih =>
    obtain ⟨a0, b0⟩ := x
    simp only [List.lookup_cons] at h
    by_cases h0 : a == a0
    · simp only [h0] at h
      have : a = a0 := by simpa using h0
      cases h; subst this
      exact List.mem_cons_self
    · simp only [h0] at h
      exact List.mem_cons_of_mem _ (ih h)

/-- same interaction: type, atoms, version (the parameters may have been replaced).  Since the C12
extension round `Inter.version` is `meta.get('version')` (`none` = no version key); the key the
code compares is `meta.get('version', 0)`, i.e. `version.getD 0` -/
def sameKey (a b : String × Inter) : Prop :=
  a.1 = b.1 ∧ a.2.atoms = b.2.atoms ∧ a.2.version.getD 0 = b.2.version.getD 0

theorem replaceFirst_keys (l l' : List (String × Inter)) (ty : String) (i : Inter) (h : replaceFirst l ty i = some l') :
    ∀ ti ∈ l, ∃ ti' ∈ l', sameKey ti' ti := by
  induction l generalizing l' with
  | nil => cases h
  | cons x r ih =>
    obtain ⟨t, j⟩ := x
    unfold replaceFirst at h
    split at h
    · rename_i hc
      cases h
      intro ti hti
      rcases List.mem_cons.1 hti with rfl | hti
      · exact ⟨(t, i), List.mem_cons_self, rfl, hc.2.1.symm, hc.2.2.symm⟩
      · exact ⟨ti, List.mem_cons_of_mem _ hti, rfl, rfl, rfl⟩
    · cases hr : replaceFirst r ty i with
      | none => rw [hr] at h; cases h
      | some r' =>
        rw [hr] at h
        cases h
        intro ti hti
        rcases List.mem_cons.1 hti with rfl | hti
        · exact ⟨_, List.mem_cons_self, rfl, rfl, rfl⟩
        · obtain ⟨ti', h1, h2⟩ := ih r' hr ti hti
          exact ⟨ti', List.mem_cons_of_mem _ h1, h2⟩

theorem addOrReplace_keys (m : Mol) (ty : String) (atoms : List Int) (pr : String) (v : Option Int) (c : List String) :
    (∀ ti ∈ m.inters, ∃ ti' ∈ (m.addOrReplace ty atoms pr v c).1.inters, sameKey ti' ti)
    ∧ (m.addOrReplace ty atoms pr v c).1.edges = m.edges := by
  unfold Mol.addOrReplace
  simp only
  split
  · rename_i l hl
    exact ⟨replaceFirst_keys _ _ _ _ hl, rfl⟩
  · have hA : (∀ ti ∈ m.inters, ti ∈ (m.addInter ty atoms pr v).1.inters) ∧ (m.addInter ty atoms pr v).1.edges = m.edges := by
      unfold Mol.addInter
      split
      · exact ⟨fun ti hti => List.mem_append_left _ hti, rfl⟩
      · exact ⟨fun ti hti => hti, rfl⟩
    generalize m.addInter ty atoms pr v = r at hA ⊢
    obtain ⟨m', e⟩ := r
    cases e <;> exact ⟨fun ti hti => ⟨ti, hA.1 ti hti, rfl, rfl, rfl⟩, hA.2⟩

theorem foldl_addOrReplace_keys (is : List (String × Inter)) (m : Mol) :
    (∀ ti ∈ m.inters, ∃ ti' ∈ (is.foldl (fun o ti => (o.addOrReplace ti.1 ti.2.atoms ti.2.params ti.2.version []).1) m).inters,
        sameKey ti' ti)
    ∧ (is.foldl (fun o ti => (o.addOrReplace ti.1 ti.2.atoms ti.2.params ti.2.version []).1) m).edges = m.edges := by
  induction is generalizing m with
  | nil => exact ⟨fun ti hti => ⟨ti, hti, rfl, rfl, rfl⟩, rfl⟩
  | cons i is ih =>
    simp only [List.foldl_cons]
    obtain ⟨a1, a2⟩ := addOrReplace_keys m i.1 i.2.atoms i.2.params i.2.version []
    obtain ⟨b1, b2⟩ := ih (m.addOrReplace i.1 i.2.atoms i.2.params i.2.version []).1
    refine ⟨?_, by rw [b2, a2]⟩
    intro ti hti
    obtain ⟨t1, h1, k1⟩ := a1 ti hti
    obtain ⟨t2, h2, k2⟩ := b1 t1 h1
    exact ⟨t2, h2, k2.1.trans k1.1, k2.2.1.trans k1.2.1, k2.2.2.trans k1.2.2⟩

/-- one modification match on the particle table, when no `replace` dictionary of its nodes touches
atomname / resid / charge_group: the new particles are appended, nothing else changes -/
theorem applyMod_table (st : St) (q : ModPlacement) (o : Off) (hinv : Inv st.out o) (hne : st.out.nodes ≠ [])
    (hrepl : ∀ n ∈ q.nodes, n.repl = {}) (he : st.err = none) (hok : (applyMod st q).err = none) :
    (applyMod st q).out.nodes = st.out.nodes ++ newNodesL o q.nodes
    ∧ Inv (applyMod st q).out (o.nextNodes q.nodes) ∧ (applyMod st q).out.nodes ≠ []
    ∧ (∀ a x w, get2 (applyMod st q).molToOut a x = some w →
        get2 st.molToOut a x = some w ∨ x ∈ (applyMod st q).out.keys)
    ∧ (∀ x y, st.out.hasEdge x y = true → (applyMod st q).out.hasEdge x y = true)
    ∧ (∀ ti ∈ st.out.inters, ∃ ti' ∈ (applyMod st q).out.inters, sameKey ti' ti) := by
  unfold applyMod at hok ⊢
  simp only [he, Option.isSome_none, Bool.false_eq_true, if_false] at hok ⊢
  generalize hpm : placeModNodes st q q.nodes st.out [] = r at hok ⊢
  cases r with
  | none => simp at hok
  | some om =>
    obtain ⟨out1, m2o⟩ := om
    simp only at hok ⊢
    generalize h1 : modEntries m2o q.molToMod = r1 at hok ⊢
    generalize h2 : q.edges.mapM (fun e => do pure ((← m2o.lookup e.1), (← m2o.lookup e.2))) = r2 at hok ⊢
    generalize h3 : q.inters.mapM (fun ti => do pure (ti.1, { ti.2 with atoms := (← ti.2.atoms.mapM (fun a => m2o.lookup a)) })) = r3 at hok ⊢
    generalize h4 : q.refs.mapM (fun r => (m2o.lookup r.1).map (fun o => (o, r.2))) = r4 at hok ⊢
    cases r1 with
    | none => simp at hok
    | some es =>
      cases r2 with
      | none => simp at hok
      | some edges =>
        cases r3 with
        | none => simp at hok
        | some inters =>
          cases r4 with
          | none => simp at hok
          | some nr =>
            simp only
            obtain ⟨t1, t2, t3, t4, t5, t6⟩ := placeModNodes_table st q q.nodes st.out out1 o [] m2o hinv hne hrepl
              (by intro x hx; cases hx) hpm
            have hends : ∀ e ∈ edges, e.1 ∈ out1.keys ∧ e.2 ∈ out1.keys := by
              intro e he'
              obtain ⟨e0, _, hf⟩ := (mapM_some_mem _ _ _ h2).1 e he'
              cases hu : m2o.lookup e0.1 with
              | none => simp [hu] at hf
              | some u =>
                cases hv : m2o.lookup e0.2 with
                | none => simp [hu, hv] at hf
                | some v =>
                  simp only [hu, hv, Option.pure_def, Option.bind_eq_bind, Option.bind_some, Option.some.injEq] at hf
                  subst hf
                  exact ⟨t4 (e0.1, u) (lookup_mem m2o e0.1 u hu), t4 (e0.2, v) (lookup_mem m2o e0.2 v hv)⟩
            obtain ⟨f1, f2, _, f4, _, f6⟩ := foldl_addEdge edges out1 hends
            have hn : (inters.foldl (fun o ti => (o.addOrReplace ti.1 ti.2.atoms ti.2.params ti.2.version []).1)
                (edges.foldl (fun o e => o.addEdge e.1 e.2) out1)).nodes = out1.nodes := by
              rw [foldl_addOrReplace_nodes, f1]
            have hmx : (inters.foldl (fun o ti => (o.addOrReplace ti.1 ti.2.atoms ti.2.params ti.2.version []).1)
                (edges.foldl (fun o e => o.addEdge e.1 e.2) out1)).maxNode = out1.maxNode := by
              rw [foldl_addOrReplace_maxNode, f4]
            obtain ⟨g1, g2⟩ := foldl_addOrReplace_keys inters (edges.foldl (fun o e => o.addEdge e.1 e.2) out1)
            refine ⟨by rw [hn, t1], inv_congr _ _ _ hn hmx t2, by rw [hn]; exact t3, ?_, ?_, ?_⟩
            rotate_left
            · intro x y hxy
              have h0 : out1.hasEdge x y = true := by
                unfold Mol.hasEdge at hxy ⊢
                rw [t5]; exact hxy
              have h1' := (f6 x y).2 (Or.inl h0)
              unfold Mol.hasEdge at h1' ⊢
              rw [g2]; exact h1'
            · intro ti hti
              apply g1
              rw [f2, t6]; exact hti
            intro a x w hg
            rw [get2_addEntries] at hg
            rcases lastW_some a x es _ w hg with hmem | hold
            · right
              show x ∈ List.map Prod.fst _
              rw [hn]
              unfold modEntries at h1
              obtain ⟨e0, _, hf⟩ := (mapM_some_mem _ _ _ h1).1 (a, x, w) hmem
              cases hl : m2o.lookup e0.2.1 with
              | none => simp [hl] at hf
              | some k =>
                simp only [hl, Option.map_some, Option.some.injEq, Prod.mk.injEq] at hf
                obtain ⟨_, rfl, _⟩ := hf
                exact t4 (e0.2.1, k) (lookup_mem m2o e0.2.1 k hl)
            · exact Or.inl hold

/-! ### the whole schedule -/

def Off.nextEv (o : Off) : Ev → Off
  | .blk p => o.next p.block
  | .mod q => o.nextNodes q.nodes

/-- the particle table in closed form: in schedule order, each block match contributes one copy of
its block under the key shift and the offsets of `merge_molecule`, each modification match its new
particles; the offsets after a new particle are that particle's own resid / charge group -/
def nodesSpecE (o : Off) : List Ev → List (Int × Attrs)
  | [] => []
  | .blk p :: es => shiftNodes o p.block ++ nodesSpecE (o.next p.block) es
  | .mod q :: es => newNodesL o q.nodes ++ nodesSpecE (o.nextNodes q.nodes) es

def Off.afterE (o : Off) : List Ev → Off
  | [] => o
  | e :: es => Off.afterE (o.nextEv e) es

theorem applyEv_err (st : St) (e : Ev) (x : Outcome) (h : st.err = some x) : applyEv st e = st := by
  cases e with
  | blk p => exact applyBlock_err st p x h
  | mod q => exact applyMod_err st q x h

theorem foldl_applyEv_err (es : List Ev) (st : St) (x : Outcome) (h : st.err = some x) : es.foldl applyEv st = st := by
  induction es with
  | nil => rfl
  | cons e es ih => simp only [List.foldl_cons, applyEv_err st e x h, ih]

/-- every particle the correspondence table mentions is a node of the output graph -/
def RangeOK (st : St) : Prop := ∀ a x w, get2 st.molToOut a x = some w → x ∈ st.out.keys

theorem rangeOK_empty : RangeOK {} := by
  intro a x w h
  cases h

theorem applyBlock_rangeOK (st : St) (p : Placement) (o : Off) (hinv : Inv st.out o) (he : st.err = none)
    (hok : (applyBlock st p).err = none) (hr : RangeOK st) : RangeOK (applyBlock st p) := by
  obtain ⟨s1, _, s3, _⟩ := applyBlock_spec st p o hinv he hok
  intro a x w hg
  rw [s3, get2_addEntries] at hg
  unfold Mol.keys
  rw [s1, List.map_append]
  rcases lastW_some a x _ _ w hg with hmem | hold
  · exact List.mem_append_right _ (stepEntries_bead_mem o p _ hmem).1
  · exact List.mem_append_left _ (hr a x w hold)

theorem foldEv_spec (es : List Ev) (st : St) (o : Off) (hinv : Inv st.out o) (hne : st.out.nodes ≠ [])
    (hrepl : ∀ q ∈ modsOf es, ∀ n ∈ q.nodes, n.repl = {}) (he : st.err = none)
    (hok : (es.foldl applyEv st).err = none) (hr : RangeOK st) :
    (es.foldl applyEv st).out.nodes = st.out.nodes ++ nodesSpecE o es
    ∧ Inv (es.foldl applyEv st).out (o.afterE es) ∧ RangeOK (es.foldl applyEv st) := by
  induction es generalizing st o with
  | nil => simp [nodesSpecE, Off.afterE, hinv, hr]
  | cons e es ih =>
    simp only [List.foldl_cons] at hok ⊢
    have hok1 : (applyEv st e).err = none := by
      cases h : (applyEv st e).err with
      | none => rfl
      | some x => rw [foldl_applyEv_err es _ x h, h] at hok; cases hok
    cases e with
    | blk p =>
      obtain ⟨s1, s2, _⟩ := applyBlock_spec st p o hinv he hok1
      have hne1 : (applyBlock st p).out.nodes ≠ [] := by
        rw [s1]; intro h; exact hne (List.append_eq_nil_iff.1 h).1
      obtain ⟨t1, t2, t3⟩ := ih (applyBlock st p) (o.next p.block) s2 hne1 (by simpa [modsOf] using hrepl) hok1 hok
        (applyBlock_rangeOK st p o hinv he hok1 hr)
      exact ⟨by rw [show applyEv st (.blk p) = applyBlock st p from rfl, t1, s1]; simp [nodesSpecE], t2, t3⟩
    | mod q =>
      have hrq : ∀ n ∈ q.nodes, n.repl = {} := hrepl q (by simp [modsOf])
      obtain ⟨s1, s2, s3, s4, _, _⟩ := applyMod_table st q o hinv hne hrq he hok1
      have hr1 : RangeOK (applyMod st q) := by
        intro a x w hg
        rcases s4 a x w hg with hold | hnew
        · have := hr a x w hold
          unfold Mol.keys at this ⊢
          rw [s1, List.map_append]
          exact List.mem_append_left _ this
        · exact hnew
      obtain ⟨t1, t2, t3⟩ := ih (applyMod st q) (o.nextNodes q.nodes) s2 s3
        (fun q' hq' => hrepl q' (by simp [modsOf, hq'])) hok1 hok hr1
      exact ⟨by rw [show applyEv st (.mod q) = applyMod st q from rfl, t1, s1]; simp [nodesSpecE], t2, t3⟩

/-- the run starts with a block match whose block has at least one particle (a modification match
that goes first creates particle 0 and every key is one lower: not covered by the closed form) -/
def startsWithBlock : List Ev → Bool
  | .blk p :: _ => !p.block.nodes.isEmpty
  | _ => false

theorem run_table (es : List Ev) (hstart : startsWithBlock es = true)
    (hrepl : ∀ q ∈ modsOf es, ∀ n ∈ q.nodes, n.repl = {}) (hok : (es.foldl applyEv {}).err = none) :
    (es.foldl applyEv {}).out.nodes = nodesSpecE Off.zero es ∧ RangeOK (es.foldl applyEv {}) := by
  cases es with
  | nil => cases hstart
  | cons e es =>
    cases e with
    | mod q => cases hstart
    | blk p =>
      simp only [startsWithBlock, Bool.not_eq_true', List.isEmpty_eq_false_iff] at hstart
      simp only [List.foldl_cons] at hok ⊢
      have hok1 : (applyEv {} (.blk p)).err = none := by
        cases h : (applyEv {} (.blk p)).err with
        | none => rfl
        | some x => rw [foldl_applyEv_err es _ x h, h] at hok; cases hok
      obtain ⟨s1, s2, _⟩ := applyBlock_spec {} p Off.zero inv_empty rfl hok1
      have hne1 : (applyBlock {} p).out.nodes ≠ [] := by
        rw [s1]
        intro h
        have := congrArg List.length h
        simp [shiftNodes, enumFrom_length] at this
        exact hstart this
      obtain ⟨t1, _, t3⟩ := foldEv_spec es (applyBlock {} p) _ s2 hne1 (by simpa [modsOf] using hrepl) hok1 hok
        (applyBlock_rangeOK {} p Off.zero inv_empty rfl hok1 rangeOK_empty)
      refine ⟨?_, t3⟩
      rw [show applyEv {} (.blk p) = applyBlock {} p from rfl, t1, s1]
      simp [nodesSpecE]

/-- adding the edges between placements changes nothing but the edge set -/
theorem withInterEdges_range (m : MolIn) (st : St) (hr : RangeOK st) :
    (withInterEdges m st).nodes = st.out.nodes
    ∧ (withInterEdges m st).inters = st.out.inters
    ∧ ∀ x y, (withInterEdges m st).hasEdge x y = true ↔
        st.out.hasEdge x y = true ∨ (x, y) ∈ interEdges m st ∨ (y, x) ∈ interEdges m st := by
  have hin : ∀ e ∈ interEdges m st, e.1 ∈ st.out.keys ∧ e.2 ∈ st.out.keys := by
    intro e he
    obtain ⟨e1, e2⟩ := e
    obtain ⟨ab, _, hu, hv, _⟩ := (mem_interEdges m _ e1 e2).1 he
    obtain ⟨⟨w1, h1⟩, _⟩ := (mem_beadsOf _ _ _).1 hu
    obtain ⟨⟨w2, h2⟩, _⟩ := (mem_beadsOf _ _ _).1 hv
    exact ⟨hr _ _ _ h1, hr _ _ _ h2⟩
  obtain ⟨f1, f2, _, _, _, f6⟩ := foldl_addEdge (interEdges m st) st.out hin
  exact ⟨f1, f2, f6⟩

/-- without new particles the modification matches contribute nothing to the table and do not move
the offsets: the closed form is the one of the block matches alone -/
theorem nodesSpecE_noNew (o : Off) (es : List Ev) (h : ∀ q ∈ modsOf es, ∀ n ∈ q.nodes, n.isNew = false) :
    nodesSpecE o es = nodesSpec o (blocksOf es) := by
  have hnil : ∀ (o : Off) (ns : List ModNode), (∀ n ∈ ns, n.isNew = false) → newNodesL o ns = [] ∧ o.nextNodes ns = o := by
    intro o ns hns
    induction ns with
    | nil => exact ⟨rfl, rfl⟩
    | cons n ns ih =>
      have := hns n List.mem_cons_self
      obtain ⟨i1, i2⟩ := ih (fun x hx => hns x (List.mem_cons_of_mem _ hx))
      simp [newNodesL, Off.nextNodes, this, i1, i2]
  induction es generalizing o with
  | nil => rfl
  | cons e es ih =>
    cases e with
    | blk p =>
      simp only [nodesSpecE, blocksOf, nodesSpec]
      rw [ih _ (by simpa [modsOf] using h)]
    | mod q =>
      obtain ⟨i1, i2⟩ := hnil o q.nodes (h q (by simp [modsOf]))
      simp only [nodesSpecE, blocksOf, i1, i2, List.nil_append]
      exact ih _ (fun q' hq' => h q' (by simp [modsOf, hq']))


/-! ### bonds and interactions of the block copies survive the modification matches -/

def edgesSpecE (o : Off) : List Ev → List (Int × Int)
  | [] => []
  | .blk p :: es => stepEdges o p ++ edgesSpecE (o.next p.block) es
  | .mod q :: es => edgesSpecE (o.nextNodes q.nodes) es

def intersSpecE (o : Off) : List Ev → List (String × Inter)
  | [] => []
  | .blk p :: es => stepInters o p ++ intersSpecE (o.next p.block) es
  | .mod q :: es => intersSpecE (o.nextNodes q.nodes) es

theorem foldEv_edges_inters (es : List Ev) (st : St) (o : Off) (hinv : Inv st.out o) (hne : st.out.nodes ≠ [])
    (hrepl : ∀ q ∈ modsOf es, ∀ n ∈ q.nodes, n.repl = {}) (he : st.err = none)
    (hok : (es.foldl applyEv st).err = none) :
    (∀ x y, (st.out.hasEdge x y = true ∨ (x, y) ∈ edgesSpecE o es ∨ (y, x) ∈ edgesSpecE o es) →
        (es.foldl applyEv st).out.hasEdge x y = true)
    ∧ (∀ ti, (ti ∈ st.out.inters ∨ ti ∈ intersSpecE o es) →
        ∃ ti' ∈ (es.foldl applyEv st).out.inters, sameKey ti' ti) := by
  induction es generalizing st o with
  | nil =>
    refine ⟨?_, ?_⟩
    · rintro x y (h | h | h)
      · exact h
      · cases h
      · cases h
    · rintro ti (h | h)
      · exact ⟨ti, h, rfl, rfl, rfl⟩
      · cases h
  | cons e es ih =>
    simp only [List.foldl_cons] at hok ⊢
    have hok1 : (applyEv st e).err = none := by
      cases h : (applyEv st e).err with
      | none => rfl
      | some x => rw [foldl_applyEv_err es _ x h, h] at hok; cases hok
    cases e with
    | blk p =>
      obtain ⟨s1, s2, _, _, _, _, _, s8, s9, _⟩ := applyBlock_spec st p o hinv he hok1
      have hne1 : (applyBlock st p).out.nodes ≠ [] := by
        rw [s1]; intro h; exact hne (List.append_eq_nil_iff.1 h).1
      obtain ⟨t1, t2⟩ := ih (applyBlock st p) (o.next p.block) s2 hne1 (by simpa [modsOf] using hrepl) hok1 hok
      refine ⟨?_, ?_⟩
      · intro x y h
        apply t1
        simp only [edgesSpecE, List.mem_append] at h
        rcases h with h | (h | h) | (h | h)
        · exact Or.inl ((s9 x y).2 (Or.inl h))
        · exact Or.inl ((s9 x y).2 (Or.inr (Or.inl h)))
        · exact Or.inr (Or.inl h)
        · exact Or.inl ((s9 x y).2 (Or.inr (Or.inr h)))
        · exact Or.inr (Or.inr h)
      · intro ti h
        apply t2
        simp only [intersSpecE, List.mem_append] at h
        rcases h with h | h | h
        · exact Or.inl (by rw [s8]; exact List.mem_append_left _ h)
        · exact Or.inl (by rw [s8]; exact List.mem_append_right _ h)
        · exact Or.inr h
    | mod q =>
      have hrq : ∀ n ∈ q.nodes, n.repl = {} := hrepl q (by simp [modsOf])
      obtain ⟨_, s2, s3, _, s5, s6⟩ := applyMod_table st q o hinv hne hrq he hok1
      obtain ⟨t1, t2⟩ := ih (applyMod st q) (o.nextNodes q.nodes) s2 s3
        (fun q' hq' => hrepl q' (by simp [modsOf, hq'])) hok1 hok
      refine ⟨?_, ?_⟩
      · intro x y h
        apply t1
        simp only [edgesSpecE] at h
        rcases h with h | h
        · exact Or.inl (s5 x y h)
        · exact Or.inr h
      · intro ti h
        simp only [intersSpecE] at h
        rcases h with h | h
        · obtain ⟨ti1, h1, k1⟩ := s6 ti h
          obtain ⟨ti2, h2, k2⟩ := t2 ti1 (Or.inl h1)
          exact ⟨ti2, h2, k2.1.trans k1.1, k2.2.1.trans k1.2.1, k2.2.2.trans k1.2.2⟩
        · exact t2 ti (Or.inr h)

theorem specE_noNew (o : Off) (es : List Ev) (h : ∀ q ∈ modsOf es, ∀ n ∈ q.nodes, n.isNew = false) :
    edgesSpecE o es = edgesSpec o (blocksOf es) ∧ intersSpecE o es = intersSpec o (blocksOf es) := by
  have hnil : ∀ (o : Off) (ns : List ModNode), (∀ n ∈ ns, n.isNew = false) → o.nextNodes ns = o := by
    intro o ns hns
    induction ns with
    | nil => rfl
    | cons n ns ih =>
      have := hns n List.mem_cons_self
      simp [Off.nextNodes, this, ih (fun x hx => hns x (List.mem_cons_of_mem _ hx))]
  induction es generalizing o with
  | nil => exact ⟨rfl, rfl⟩
  | cons e es ih =>
    cases e with
    | blk p =>
      obtain ⟨i1, i2⟩ := ih (o.next p.block) (by simpa [modsOf] using h)
      simp only [edgesSpecE, intersSpecE, blocksOf, edgesSpec, intersSpec, i1, i2, and_self]
    | mod q =>
      have := hnil o q.nodes (h q (by simp [modsOf]))
      simp only [edgesSpecE, intersSpecE, blocksOf, this]
      exact ih o (fun q' hq' => h q' (by simp [modsOf, hq']))

end C01
