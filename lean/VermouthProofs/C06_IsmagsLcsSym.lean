import VermouthProofs.C06_IsmagsLcs
import VermouthProofs.C06_IsmagsSym
/-! `largest_common_subgraph` with symmetry constraints: valid constraints (stabiliser-chain cosets) lose no
maximum common induced subgraph up to a symmetry of the pattern. Core Lean only. -/
namespace C06I
open Iso

/-- `S` contains, with the higher node of a constraint, also the lower one -/
def ClosedUnder (C : Constraints) (S : List Int) : Prop := ∀ lo hi, (lo, hi) ∈ C → hi ∈ S → lo ∈ S

/-- level invariant with constraints: only sublists of size `k`, and at least all closed ones -/
def LvlC (sg : Graph) (C : Constraints) (k : Nat) (tbm : List (List Int)) : Prop :=
  LvlW sg k tbm ∧ ∀ S : List Int, S.Sublist sg.keys → S.length = k → ClosedUnder C S → S ∈ tbm

theorem lvlC_top (sg : Graph) (C : Constraints) : LvlC sg C sg.keys.length [sg.keys] := by
  refine ⟨fun S hS => (lvl_top.2 S).1 hS, ?_⟩
  intro S h1 h2 _
  exact (lvl_top.2 S).2 ⟨h1, h2⟩

theorem cvalid_lt {sg : Graph} {C : Constraints} (hv : CValid sg C) {lo hi : Int} (h : (lo, hi) ∈ C) :
    lo ∈ sg.keys ∧ hi ∈ sg.keys ∧ lo < hi := by
  obtain ⟨hlo, hne, horb⟩ := (hv lo hi).1 h
  have hhi := inOrb_mem hlo horb
  refine ⟨hlo, hhi, ?_⟩
  obtain ⟨f, hf, hfix, hfl⟩ := horb
  apply Classical.byContradiction
  intro hnlt
  have hlt : hi < lo := by omega
  have h1 : f hi = hi := hfix hi hhi hlt
  exact hf.inj lo hlo hi hhi hne (by rw [hfl, h1])

theorem removeNode_none (C : Constraints) (nodes : List Int) (fuel : Nat) (node : Int)
    (h : ∀ lh ∈ C, lh.1 = node → lh.2 ∉ nodes) : removeNode C nodes fuel node = nodes.filter (· != node) := by
  cases fuel with
  | zero => rfl
  | succ fuel =>
    unfold removeNode
    have : C.find? (fun lh => lh.1 == node && nodes.contains lh.2) = none := by
      rw [List.find?_eq_none]
      intro lh hlh hc
      simp only [Bool.and_eq_true, beq_iff_eq, List.contains_iff_mem] at hc
      exact h lh hlh hc.1 hc.2
    rw [this]

theorem lvlC_shrink {sg : Graph} (hs : sg.keys.Nodup) {C : Constraints} (hv : CValid sg C) {k : Nat}
    {tbm : List (List Int)} (h : LvlC sg C (k + 1) tbm) (hk : k + 1 ≤ sg.keys.length) :
    LvlC sg C k (lcsShrink C tbm) := by
  refine ⟨lvlW_shrink hs C h.1, ?_⟩
  intro S h1 h2 hcl
  have hex : ∃ x ∈ sg.keys, x ∉ S := exists_not_mem_of_sublist hs h1 (by omega)
  obtain ⟨y, hyK, hyS, hymin⟩ := exists_min id (fun x => x ∉ S) sg.keys hex
  simp only [id] at hymin
  obtain ⟨T, hT1, hT2, hT3, hT4⟩ := sublist_insert h1 hyK hyS
  have hmemT : ∀ u, u ∈ T ↔ u = y ∨ u ∈ S := by
    intro u
    constructor
    · intro hu
      by_cases e : u = y
      · exact Or.inl e
      · right
        rw [← hT4]
        simp only [List.mem_filter, bne_iff_ne, ne_eq]
        exact ⟨hu, e⟩
    · rintro (rfl | hu)
      · exact hT3
      · rw [← hT4] at hu
        exact (List.mem_filter.1 hu).1
  have hclT : ClosedUnder C T := by
    intro lo hi hc hhi
    obtain ⟨hloK, _, hlt⟩ := cvalid_lt hv hc
    rcases (hmemT hi).1 hhi with rfl | hhiS
    · apply (hmemT lo).2
      right
      apply Classical.byContradiction
      intro hno
      have := hymin lo hloK hno
      omega
    · exact (hmemT lo).2 (Or.inr (hcl lo hi hc hhiS))
  have hTin : T ∈ tbm := h.2 T hT1 (by omega) hclT
  rw [mem_lcsShrink]
  refine ⟨T, hTin, y, hT3, ?_⟩
  rw [removeNode_none, hT4]
  intro lh hlh he hin
  obtain ⟨lo, hi⟩ := lh
  simp only at he hin
  subst he
  obtain ⟨_, _, hlt⟩ := cvalid_lt hv hlh
  rcases (hmemT hi).1 hin with e | hS
  · omega
  · exact hyS (hcl lo hi hlh hS)

/-! ### moving a common subgraph into the closed, constraint-satisfying position -/

theorem le_sum_of_mem {l : List Nat} {a : Nat} (h : a ∈ l) : a ≤ l.sum := by
  induction l with
  | nil => simp at h
  | cons b l ih =>
    simp only [List.sum_cons]
    rcases List.mem_cons.1 h with rfl | h
    · omega
    · have := ih h; omega

/-- a value larger than every `F u`, `u ∈ S` -/
def bigVal (S : List Int) (F : Int → Int) : Int := (((S.map fun u => (F u).natAbs).sum : Nat) : Int) + 1

theorem lt_bigVal {S : List Int} {F : Int → Int} {u : Int} (hu : u ∈ S) : F u < bigVal S F := by
  unfold bigVal
  have : (F u).natAbs ≤ (S.map fun u => (F u).natAbs).sum := le_sum_of_mem (List.mem_map.2 ⟨u, hu, rfl⟩)
  omega

/-- for a common induced subgraph `(S, F)` there is an automorphism `a` of the pattern such that the
pulled-back subgraph `(a⁻¹ S, F ∘ a)` lies on a closed node set and satisfies all constraints inside it -/
theorem exists_closed_position {g sg : Graph} (hs : sg.keys.Nodup) {C : Constraints} (hv : CValid sg C)
    {S : List Int} (hS : S.Sublist sg.keys) {F : Int → Int} (hF : IsIndIsoOn g sg (colourPred g sg) S F) :
    ∃ a, IsIndIso sg sg a ∧
      let S' := sg.keys.filter fun u => decide (a u ∈ S)
      S'.length = S.length ∧ IsIndIsoOn g sg (colourPred g sg) S' (F ∘ a) ∧ ClosedUnder C S'
      ∧ Satisfies C S' (F ∘ a) := by
  let Φ : Int → Int := fun u => if u ∈ S then F u else bigVal S F
  obtain ⟨a, ha, hmin⟩ := exists_minimiser sg Φ
  refine ⟨a, ha, ?_⟩
  intro S'
  have hmemS' : ∀ u, u ∈ S' ↔ u ∈ sg.keys ∧ a u ∈ S := by
    intro u; simp [S']
  have hΦin : ∀ u, u ∈ S → Φ u = F u := fun u hu => by simp [Φ, hu]
  have hΦout : ∀ u, u ∉ S → Φ u = bigVal S F := fun u hu => by simp [Φ, hu]
  obtain ⟨h', hh', hinv⟩ := isAut_inv hs ha
  have hSn : S.Nodup := hS.nodup hs
  refine ⟨?_, ?_, ?_, ?_⟩
  · -- same size: `a` maps S' injectively into S and its inverse maps S injectively into S'
    have h1 : (S'.map a).Nodup := by
      rw [List.nodup_iff_pairwise_ne, List.pairwise_map]
      refine List.Pairwise.imp_of_mem ?_ (hs.filter _)
      intro x y hx hy hne
      exact ha.inj x ((hmemS' x).1 hx).1 y ((hmemS' y).1 hy).1 hne
    have h2 : S'.map a ⊆ S := by
      intro x hx
      obtain ⟨u, hu, rfl⟩ := List.mem_map.1 hx
      exact ((hmemS' u).1 hu).2
    have h3 : (S.map h').Nodup := by
      rw [List.nodup_iff_pairwise_ne, List.pairwise_map]
      refine List.Pairwise.imp_of_mem ?_ hSn
      intro x y hx hy hne
      exact hh'.inj x (hS.subset hx) y (hS.subset hy) hne
    have h4 : S.map h' ⊆ S' := by
      intro x hx
      obtain ⟨u, hu, rfl⟩ := List.mem_map.1 hx
      exact (hmemS' _).2 ⟨(hh'.node u (hS.subset hu)).1, by rw [hinv u (hS.subset hu)]; exact hu⟩
    have e1 := h1.length_le_of_subset h2
    have e2 := h3.length_le_of_subset h4
    simp only [List.length_map] at e1 e2
    omega
  · refine ⟨?_, ?_, ?_⟩
    · intro u hu
      obtain ⟨huK, hau⟩ := (hmemS' u).1 hu
      have h1 := ha.node u huK
      have h2 := hF.node (a u) hau
      refine ⟨h2.1, ?_⟩
      have e1 : sg.ncol (a u) = sg.ncol u := by simpa [colourPred] using h1.2
      have e2 : g.ncol (F (a u)) = sg.ncol (a u) := by simpa [colourPred] using h2.2
      simp [colourPred, e2, e1]
    · intro u hu v hv hne
      obtain ⟨huK, hau⟩ := (hmemS' u).1 hu
      obtain ⟨hvK, hav⟩ := (hmemS' v).1 hv
      exact hF.inj _ hau _ hav (ha.inj u huK v hvK hne)
    · intro u hu v hv hne
      obtain ⟨huK, hau⟩ := (hmemS' u).1 hu
      obtain ⟨hvK, hav⟩ := (hmemS' v).1 hv
      have := hF.edge _ hau _ hav (ha.inj u huK v hvK hne)
      simp only [Function.comp]
      rw [this, ha.edge u huK v hvK hne]
  · intro lo hi hc hhi
    obtain ⟨hloK, hne, horb⟩ := (hv lo hi).1 hc
    obtain ⟨_, hahi⟩ := (hmemS' hi).1 hhi
    have hm := hmin lo hloK hi horb
    simp only [Function.comp] at hm
    rw [hΦin _ hahi] at hm
    apply (hmemS' lo).2
    refine ⟨hloK, ?_⟩
    apply Classical.byContradiction
    intro hno
    rw [hΦout _ hno] at hm
    have := lt_bigVal (F := F) hahi
    omega
  · intro lo hi hc hlo hhi
    obtain ⟨hloK, hne, horb⟩ := (hv lo hi).1 hc
    obtain ⟨_, halo⟩ := (hmemS' lo).1 hlo
    obtain ⟨hhiK, hahi⟩ := (hmemS' hi).1 hhi
    have hm := hmin lo hloK hi horb
    simp only [Function.comp] at hm ⊢
    rw [hΦin _ halo, hΦin _ hahi] at hm
    have := hF.inj _ halo _ hahi (ha.inj lo hloK hi hhiK hne)
    omega

/-! ### the search with constraints, level by level -/

theorem lcsShrink_ne_nil (C : Constraints) {tbm : List (List Int)} (hne : tbm ≠ []) (hpos : ∀ S ∈ tbm, S ≠ []) :
    lcsShrink C tbm ≠ [] := by
  obtain ⟨S, hS⟩ := List.exists_mem_of_ne_nil _ hne
  obtain ⟨x, hx⟩ := List.exists_mem_of_ne_nil _ (hpos S hS)
  intro e
  have : removeNode C S S.length x ∈ lcsShrink C tbm := (mem_lcsShrink C tbm _).2 ⟨S, hS, x, hx, rfl⟩
  rw [e] at this
  simp at this

theorem isCommon_canonP_of_good {g sg : Graph} (hs : sg.keys.Nodup) {C : Constraints} {m : Map}
    (h : LcsGood g sg C m) :
    IsCommon (graphProblem g sg (colourPred g sg)) (canonP sg m) ∧ (canonP sg m).length = m.length := by
  obtain ⟨h1, h2, nodes, h3, h4⟩ := h
  have hkeys := canonP_keys hs h2 h3 h4
  rw [isCommon_iff g sg hs, hkeys]
  refine ⟨⟨h3, ?_⟩, ?_⟩
  · apply indIsoOn_congr_fun (f := Map.toFun m)
    · intro u hu; exact canonP_toFun sg m (h3.subset hu)
    · exact indIsoOn_congr_mem h4 (mapOK_indIso h2 h1)
  · have e1 : (canonP sg m).length = ((canonP sg m).map Prod.fst).length := by simp
    have e2 : m.length = (m.map Prod.fst).length := by simp
    rw [e1, hkeys, e2]
    exact length_of_same_mem (h3.nodup hs) h2 h4

theorem lcsFound_cover {pick : Map → Cands → List Int → Int} (hpick : PickOK pick) (g sg : Graph) {C : Constraints}
    (ha : antisymB C = true) {k : Nat} (hk : 1 ≤ k) {tbm : List (List Int)} (h : LvlC sg C k tbm)
    {S : List Int} (hS : S.Sublist sg.keys) (hl : S.length = k) {F : Int → Int}
    (hF : IsIndIsoOn g sg (colourPred g sg) S F) (hcl : ClosedUnder C S) (hsat : Satisfies C S F) :
    ∃ m ∈ lcsFound pick g sg (findNodecolorCandidates g sg) C tbm,
      (∀ u, u ∈ S ↔ u ∈ m.map Prod.fst) ∧ (m.map Prod.fst).Nodup ∧ ∀ u ∈ S, Map.toFun m u = F u := by
  have hin : S ∈ tbm := h.2 S hS hl hcl
  have hne : S ≠ [] := by intro e; rw [e] at hl; simp at hl; omega
  have hp := hpick [] (findNodecolorCandidates g sg) S hne
  obtain ⟨m, hm, hagree⟩ := mapNodes_complete hpick g sg C S F ⟨hF, (sol_iff_satisfies ha S F).2 hsat⟩
    S.length _ (findNodecolorCandidates g sg) [] (by simp) (by simp)
    (cInv_nodecolor (fun u hu => hS.subset hu) hF) hp (by simp) (by simp) (by simp)
  obtain ⟨_, h4, h5⟩ := lcs_call_sound hpick g sg C (fun u hu => hS.subset hu) m hm
  exact ⟨m, (mem_lcsFound _ _ _ _ _ _ _).2 ⟨S, hin, hm⟩, h5, h4, hagree⟩

/-- **`_largest_common_subgraph` with valid constraints**, level by level against `searchDown (hasCommon P)`:
all yields are common induced subgraphs of the maximum size, and every maximum common induced subgraph
differs from a yielded one only by a symmetry of the pattern. -/
theorem lcsWith_sym {pick : Map → Cands → List Int → Int} (hpick : PickOK pick) (g sg : Graph) (hs : sg.keys.Nodup)
    {C : Constraints} (hv : CValid sg C) (level : Nat) (tbm : List (List Int)) (h : LvlC sg C level tbm)
    (hne : tbm ≠ []) (hle : level ≤ sg.keys.length) :
    (∀ m ∈ lcsWith pick g sg (findNodecolorCandidates g sg) C level tbm,
        LcsGood g sg C m ∧ m.length = searchDown (hasCommon (graphProblem g sg (colourPred g sg))) level)
    ∧ (searchDown (hasCommon (graphProblem g sg (colourPred g sg))) level = 0 →
        lcsWith pick g sg (findNodecolorCandidates g sg) C level tbm = [])
    ∧ (1 ≤ searchDown (hasCommon (graphProblem g sg (colourPred g sg))) level →
        ∀ m', IsCommon (graphProblem g sg (colourPred g sg)) m' →
          m'.length = searchDown (hasCommon (graphProblem g sg (colourPred g sg))) level →
          ∃ m ∈ lcsWith pick g sg (findNodecolorCandidates g sg) C level tbm, AutEquiv sg (canonP sg m) m') := by
  have hanti := cvalid_antisym hv
  induction level generalizing tbm with
  | zero => simp [lcsWith, searchDown]
  | succ level ih =>
    have hcur : (tbm.head?.getD []).length = level + 1 := by
      cases tbm with
      | nil => exact absurd rfl hne
      | cons S0 rest => exact (h.1 S0 (by simp)).2
    -- facts about the yields of this level
    have hgood : ∀ m ∈ lcsFound pick g sg (findNodecolorCandidates g sg) C tbm, LcsGood g sg C m ∧ m.length = level + 1 :=
      fun m hm => lcsFound_good hpick g sg hs C h.1 m hm
    have hcover : ∀ m', IsCommon (graphProblem g sg (colourPred g sg)) m' → m'.length = level + 1 →
        ∃ m ∈ lcsFound pick g sg (findNodecolorCandidates g sg) C tbm, AutEquiv sg (canonP sg m) m' := by
      intro m' hc hl
      obtain ⟨hsub, hF⟩ := (isCommon_iff g sg hs m').1 hc
      have hSl : (m'.map Prod.fst).length = level + 1 := by simpa using hl
      obtain ⟨a, haut, hpos⟩ := exists_closed_position hs hv hsub hF
      obtain ⟨hlen, hiso, hcl, hsat⟩ := hpos
      have hmemS' : ∀ u, u ∈ (sg.keys.filter fun u => decide (a u ∈ m'.map Prod.fst)) ↔
          u ∈ sg.keys ∧ a u ∈ m'.map Prod.fst := by intro u; simp
      obtain ⟨m, hm, hdom, hnd, hagree⟩ := lcsFound_cover hpick g sg hanti (by omega) h
        (List.filter_sublist) (by rw [hlen, hSl]) hiso hcl hsat
      refine ⟨m, hm, ?_⟩
      apply (autEquiv_equivalence sg hs).2.1 m' _ hsub
      rw [autEquiv_iff_fun sg hs]
      refine ⟨a, haut, ?_⟩
      unfold canonP
      apply ofFun_congr
      intro u hu
      have hn' : (m'.map Prod.fst).Nodup := hsub.nodup hs
      by_cases hin : a u ∈ m'.map Prod.fst
      · have hu' : u ∈ sg.keys.filter fun u => decide (a u ∈ m'.map Prod.fst) := (hmemS' u).2 ⟨hu, hin⟩
        rw [lookup_of_keys hnd ((hdom u).1 hu'), lookup_of_keys hn' hin, hagree u hu']
        rfl
      · have hu' : u ∉ m.map Prod.fst := fun hmem => hin ((hmemS' u).1 ((hdom u).2 hmem)).2
        rw [lookup_eq_none_of_not_mem hu', lookup_eq_none_of_not_mem hin]
    unfold lcsWith
    dsimp only
    rw [hcur]
    generalize hf : (if level + 1 ≤ g.keys.length
      then lcsFound pick g sg (findNodecolorCandidates g sg) C tbm else []) = found
    have hkey : (found = [] ∧ hasCommon (graphProblem g sg (colourPred g sg)) (level + 1) = false)
        ∨ (found ≠ [] ∧ hasCommon (graphProblem g sg (colourPred g sg)) (level + 1) = true
            ∧ found = lcsFound pick g sg (findNodecolorCandidates g sg) C tbm) := by
      by_cases hguard : level + 1 ≤ g.keys.length
      · rw [if_pos hguard] at hf
        subst hf
        by_cases he : lcsFound pick g sg (findNodecolorCandidates g sg) C tbm = []
        · left
          refine ⟨he, ?_⟩
          cases hc : hasCommon (graphProblem g sg (colourPred g sg)) (level + 1) with
          | false => rfl
          | true =>
            obtain ⟨m', hm', hl'⟩ := (hasCommon_iff_isCommon _ _).1 hc
            obtain ⟨m, hm, _⟩ := hcover m' hm' hl'
            rw [he] at hm; simp at hm
        · right
          refine ⟨he, ?_, rfl⟩
          obtain ⟨m, hm⟩ := List.exists_mem_of_ne_nil _ he
          obtain ⟨hg1, hg2⟩ := hgood m hm
          obtain ⟨hc1, hc2⟩ := isCommon_canonP_of_good hs hg1
          exact (hasCommon_iff_isCommon _ _).2 ⟨_, hc1, by rw [hc2, hg2]⟩
      · rw [if_neg hguard] at hf
        left
        refine ⟨hf.symm, ?_⟩
        cases hc : hasCommon (graphProblem g sg (colourPred g sg)) (level + 1) with
        | false => rfl
        | true => exact absurd (hasCommon_le _ hc) hguard
    rcases hkey with ⟨he, hc⟩ | ⟨he, hc, hfl⟩
    · subst he
      simp only [searchDown, hc, Bool.false_eq_true, if_false]
      by_cases h0 : level = 0
      · subst h0
        simp [searchDown]
      · have hcond : (!([] : List Map).isEmpty || level + 1 == 1) = false := by
          simp [h0]
        rw [if_neg (by rw [hcond]; simp)]
        refine ih _ (lvlC_shrink hs hv h hle) (lcsShrink_ne_nil C hne ?_) (by omega)
        intro S hS e
        have := (h.1 S hS).2
        rw [e] at this; simp at this
    · have hcond : (!found.isEmpty || level + 1 == 1) = true := by
        have : found.isEmpty = false := by
          cases found with
          | nil => exact absurd rfl he
          | cons _ _ => rfl
        simp [this]
      rw [if_pos hcond]
      simp only [searchDown, hc, if_true]
      subst hfl
      exact ⟨hgood, fun h0 => by omega, fun _ => hcover⟩

end C06I
