import VermouthProofs.C18_Residues
/-! Helper lemmas for C18, part 8: the cached lookup table of a reused ComputeStructuralGoBias. -/
namespace C18

def Residue.ckey (r : Residue) : CacheKey := (r.chain, r.old)

theorem Cache.get_set (c : Cache) (k k' : CacheKey) (v : Nat) :
    (c.set k' v).get k = if k' == k then some v else c.get k := by
  unfold Cache.set Cache.get
  by_cases h : (k' == k) = true
  · simp [List.find?_cons, h]
  · have hk : k' ≠ k := by simpa using h
    simp only [List.find?_cons, h, if_false]
    -- removing entries with key k' does not affect the search for k
    have : ∀ (l : Cache), (l.filter (fun e => !(e.1 == k'))).find? (fun e => e.1 == k) = l.find? (fun e => e.1 == k) := by
      intro l
      induction l with
      | nil => rfl
      | cons e rest ih =>
        by_cases he : (e.1 == k') = true
        · have hek : (e.1 == k) = false := by
            have : e.1 = k' := by simpa using he
            rw [this]; simpa using hk
          simp [List.filter_cons, he, List.find?_cons, hek, ih]
        · simp only [List.filter_cons, he, Bool.not_false, if_true, List.find?_cons, ih]
    simp [this]

def mergeAux (c : Cache) (l : List Residue) (n : Nat) : Cache :=
  (l.zipIdx n).foldl (fun c ri => c.set (ri.1.chain, ri.1.old) ri.2) c

theorem mergeAux_cons (c : Cache) (a : Residue) (l : List Residue) (n : Nat) :
    mergeAux c (a :: l) n = mergeAux (c.set a.ckey n) l (n + 1) := by
  simp [mergeAux, List.zipIdx_cons, Residue.ckey]

theorem get_mergeAux (c : Cache) (l : List Residue) (n : Nat) (k : CacheKey) :
    (mergeAux c l n).get k = lastIdx (fun r => r.ckey == k) l n (c.get k) := by
  induction l generalizing c n with
  | nil => simp [mergeAux, lastIdx]
  | cons a rest ih =>
    rw [mergeAux_cons, ih, lastIdx_cons, Cache.get_set]

theorem lastIdx_acc (p : Residue → Bool) (l : List Residue) (n : Nat) (acc : Option Nat) :
    lastIdx p l n acc = match lastIdx p l n none with
      | some j => some j
      | none => acc := by
  induction l generalizing n acc with
  | nil => simp [lastIdx]
  | cons a rest ih =>
    rw [lastIdx_cons, lastIdx_cons, ih, ih (n + 1) (if p a = true then some n else none)]
    by_cases h : p a = true
    · simp [h]
      cases lastIdx p rest (n + 1) none <;> rfl
    · simp [h]
      cases lastIdx p rest (n + 1) none <;> rfl

theorem findRes_eq_ckey (rs : List Residue) (chain : String) (resid : Int) :
    findRes rs chain resid = lastIdx (fun r => r.ckey == (chain, some resid)) rs 0 none := by
  rw [findRes_eq_lastIdx]
  have : (fun r : Residue => r.matches chain resid) = (fun r => r.ckey == (chain, some resid)) := by
    funext r
    rw [Bool.eq_iff_iff]
    simp [Residue.matches, Residue.ckey, Prod.ext_iff]
  rw [this]

theorem get_merge (c : Cache) (rs : List Residue) (chain : String) (resid : Int) :
    (c.merge rs).get (chain, some resid) =
      match findRes rs chain resid with
      | some j => some j
      | none => c.get (chain, some resid) := by
  have : c.merge rs = mergeAux c rs 0 := rfl
  rw [this, get_mergeAux, lastIdx_acc, findRes_eq_ckey]

/-- every entry of the table agrees with the current residue graph -/
def Cons (c : Cache) (rs : List Residue) : Prop :=
  ∀ chain resid i, c.get (chain, some resid) = some i → findRes rs chain resid = some i

theorem cons_nil (rs : List Residue) : Cons [] rs := by
  intro ch r i h; simp [Cache.get] at h

theorem cons_merge {c : Cache} {rs : List Residue} (h : Cons c rs) : Cons (c.merge rs) rs := by
  intro ch r i hg
  rw [get_merge] at hg
  cases hf : findRes rs ch r with
  | some j => rw [hf] at hg; exact hg
  | none => rw [hf] at hg; have := h ch r i hg; rw [hf] at this; cases this

theorem isEmpty_get (c : Cache) (k : CacheKey) (h : c.isEmpty = true) : c.get k = none := by
  cases c with
  | nil => rfl
  | cons _ _ => cases h

/-- with a consistent table the lookup is the stateless one, and the table stays consistent -/
theorem lookupS_cons {c : Cache} {rs : List Residue} (h : Cons c rs) (chain : String) (resid : Int) :
    (lookupS c rs chain resid).1 = findRes rs chain resid ∧ Cons (lookupS c rs chain resid).2 rs := by
  unfold lookupS
  split
  · rename_i i hi
    have hg : c.get (chain, some resid) = some i := by
      by_cases he : c.isEmpty = true
      · simp [he] at hi
      · simpa [he] using hi
    exact ⟨(h chain resid i hg).symm, h⟩
  · rename_i hi
    have hg : c.get (chain, some resid) = none := by
      by_cases he : c.isEmpty = true
      · exact isEmpty_get c _ he
      · simpa [he] using hi
    refine ⟨?_, cons_merge h⟩
    simp only [get_merge, hg]
    cases findRes rs chain resid <;> rfl

/-- for the indices the stateless lookup returns, the loop body is `classify` -/
theorem classifyIdx_findRes (P : Params) (rs : List Residue) (E : List (Nat × Nat)) (c : Contact) :
    classifyIdx P rs E c (findRes rs c.chainA c.residA) (findRes rs c.chainB c.residB) = classify P rs E c := by
  unfold classifyIdx classify
  cases hA : findRes rs c.chainA c.residA with
  | none => rfl
  | some ia =>
    cases hB : findRes rs c.chainB c.residB with
    | none => rfl
    | some ib =>
      obtain ⟨ra, hra, _, _⟩ := findRes_sound rs _ _ ia hA
      obtain ⟨rb, hrb, _, _⟩ := findRes_sound rs _ _ ib hB
      simp only [hra, hrb]
      by_cases hb : ib ∈ ball E ia P.sep.toNat
      · simp [hb]
      · cases h1 : firstBB ra P.backbone with
        | none => simp [hb]
        | some a =>
          cases h2 : firstBB rb P.backbone with
          | none => simp [hb, h2]
          | some b => simp [hb, h2]

theorem runLoopS_cons (P : Params) (rs : List Residue) (E : List (Nat × Nat)) (contacts : List Contact)
    (cache : Cache) (s : LoopState) (h : Cons cache rs) :
    (runLoopS P rs E contacts cache s).1 = runLoop (contacts.map (classify P rs E)) s
    ∧ Cons (runLoopS P rs E contacts cache s).2 rs := by
  induction contacts generalizing cache s with
  | nil => exact ⟨rfl, h⟩
  | cons c rest ih =>
    have ha := lookupS_cons h c.chainA c.residA
    have hb := lookupS_cons ha.2 c.chainB c.residB
    simp only [runLoopS, List.map_cons]
    rw [ha.1, hb.1, classifyIdx_findRes]
    cases hv : classify P rs E c with
    | skip => simpa [runLoop] using ih _ s hb.2
    | exit => exact ⟨by simp [runLoop], hb.2⟩
    | keyerror => exact ⟨by simp [runLoop], hb.2⟩
    | cand x => simpa [runLoop] using ih _ (step s x) hb.2

end C18
