import VermouthModel.C10_Search
import VermouthProofs.C10_Bonds
import Mathlib.Tactic.Ring
/-!
Helper lemmas for `VermouthProps/C10_Search.lean`: exact rational arithmetic on
`(numerator, denominator)` pairs, correctness of the normal form `Expr.norm`, and the two
consequences used by the property theorems (domination ⇒ the cut-off is implied by the per-pair
test; half-sum form ⇒ the per-pair test is `within`).
-/
namespace C10

/-- equality of the rationals `v.1/v.2` and `w.1/w.2` -/
def req (v w : Q) : Prop := v.1 * w.2 = w.1 * v.2

/-! ### plain arithmetic -/

theorem le_congr_arith {vn vd wn wd d2 : Nat} (hv : 0 < vd) (hw : 0 < wd) (h : vn * wd = wn * vd) :
    vd * vd * d2 ≤ 100 * (vn * vn) ↔ wd * wd * d2 ≤ 100 * (wn * wn) := by
  have e1 : (wd * wd) * (vd * vd * d2) = (vd * vd) * (wd * wd * d2) := by ring
  have e2 : (wd * wd) * (100 * (vn * vn)) = (vd * vd) * (100 * (wn * wn)) := by
    calc (wd * wd) * (100 * (vn * vn)) = 100 * ((vn * wd) * (vn * wd)) := by ring
      _ = 100 * ((wn * vd) * (wn * vd)) := by rw [h]
      _ = (vd * vd) * (100 * (wn * wn)) := by ring
  have pv : 0 < vd * vd := Nat.mul_pos hv hv
  have pw : 0 < wd * wd := Nat.mul_pos hw hw
  constructor
  · intro hh
    have := Nat.mul_le_mul_left (wd * wd) hh
    rw [e1, e2] at this
    exact Nat.le_of_mul_le_mul_left this pv
  · intro hh
    have := Nat.mul_le_mul_left (vd * vd) hh
    rw [← e1, ← e2] at this
    exact Nat.le_of_mul_le_mul_left this pw

theorem lt_congr_arith {vn vd wn wd d2 : Nat} (hv : 0 < vd) (hw : 0 < wd) (h : vn * wd = wn * vd) :
    vd * vd * d2 < 100 * (vn * vn) ↔ wd * wd * d2 < 100 * (wn * wn) := by
  have e1 : (wd * wd) * (vd * vd * d2) = (vd * vd) * (wd * wd * d2) := by ring
  have e2 : (wd * wd) * (100 * (vn * vn)) = (vd * vd) * (100 * (wn * wn)) := by
    calc (wd * wd) * (100 * (vn * vn)) = 100 * ((vn * wd) * (vn * wd)) := by ring
      _ = 100 * ((wn * vd) * (wn * vd)) := by rw [h]
      _ = (vd * vd) * (100 * (wn * wn)) := by ring
  have pv : 0 < vd * vd := Nat.mul_pos hv hv
  have pw : 0 < wd * wd := Nat.mul_pos hw hw
  constructor
  · intro hh
    have := Nat.mul_lt_mul_of_pos_left hh pw
    rw [e1, e2] at this
    exact Nat.lt_of_mul_lt_mul_left this
  · intro hh
    have := Nat.mul_lt_mul_of_pos_left hh pv
    rw [← e1, ← e2] at this
    exact Nat.lt_of_mul_lt_mul_left this

/-- a smaller rational threshold is implied: `Xp/pd ≤ Xc/cd` -/
theorem dom_arith {pd cd Qk P Xp Xc d2 : Nat} (hpd : 0 < pd) (h : Xp * cd ≤ Xc * pd)
    (hle : (pd * Qk) * (pd * Qk) * d2 ≤ 100 * ((Xp * P) * (Xp * P))) :
    (cd * Qk) * (cd * Qk) * d2 ≤ 100 * ((Xc * P) * (Xc * P)) := by
  have pp : 0 < pd * pd := Nat.mul_pos hpd hpd
  apply Nat.le_of_mul_le_mul_left _ pp
  have h1 : Xp * cd * P ≤ Xc * pd * P := Nat.mul_le_mul_right _ h
  calc pd * pd * ((cd * Qk) * (cd * Qk) * d2) = (cd * cd) * ((pd * Qk) * (pd * Qk) * d2) := by ring
    _ ≤ (cd * cd) * (100 * ((Xp * P) * (Xp * P))) := Nat.mul_le_mul_left _ hle
    _ = 100 * ((Xp * cd * P) * (Xp * cd * P)) := by ring
    _ ≤ 100 * ((Xc * pd * P) * (Xc * pd * P)) := Nat.mul_le_mul_left _ (Nat.mul_le_mul h1 h1)
    _ = pd * pd * (100 * ((Xc * P) * (Xc * P))) := by ring

theorem add_arith {xn xd yn yd fd gd Qk P X Y : Nat}
    (h1 : xn * (fd * Qk) = X * P * xd) (h2 : yn * (gd * Qk) = Y * P * yd) :
    (xn * yd + yn * xd) * (fd * gd * Qk) = (X * gd + Y * fd) * P * (xd * yd) := by
  calc (xn * yd + yn * xd) * (fd * gd * Qk)
      = (xn * (fd * Qk)) * (yd * gd) + (yn * (gd * Qk)) * (xd * fd) := by ring
    _ = (X * P * xd) * (yd * gd) + (Y * P * yd) * (xd * fd) := by rw [h1, h2]
    _ = (X * gd + Y * fd) * P * (xd * yd) := by ring

theorem mul_arith {xn xd yn yd fd gd Q1 Q2 P1 P2 X Y : Nat}
    (h1 : xn * (fd * Q1) = X * P1 * xd) (h2 : yn * (gd * Q2) = Y * P2 * yd) :
    (xn * yn) * (fd * gd * (Q1 * Q2)) = (X * Y) * (P1 * P2) * (xd * yd) := by
  calc (xn * yn) * (fd * gd * (Q1 * Q2)) = (xn * (fd * Q1)) * (yn * (gd * Q2)) := by ring
    _ = (X * P1 * xd) * (Y * P2 * yd) := by rw [h1, h2]
    _ = (X * Y) * (P1 * P2) * (xd * yd) := by ring

/-! ### `leDist` / `ltDist` respect equality of rationals -/

theorem leDist_congr {d2 : Nat} {v w : Q} (hv : 0 < v.2) (hw : 0 < w.2) (h : req v w) :
    leDist d2 v = leDist d2 w := by
  unfold leDist
  exact decide_eq_decide.mpr (le_congr_arith hv hw h)

theorem ltDist_congr {d2 : Nat} {v w : Q} (hv : 0 < v.2) (hw : 0 < w.2) (h : req v w) :
    ltDist d2 v = ltDist d2 w := by
  unfold ltDist
  exact decide_eq_decide.mpr (lt_congr_arith hv hw h)

theorem ltDist_leDist {d2 : Nat} {v : Q} (h : ltDist d2 v = true) : leDist d2 v = true := by
  unfold ltDist at h; unfold leDist
  simp only [decide_eq_true_eq] at h ⊢
  exact Nat.le_of_lt h

/-! ### the normal form is the value -/

theorem Form.val_den_pos (f : Form) (env : Env) (hd : 0 < f.den) (hq : 0 < env.q) : 0 < (f.val env).2 := by
  unfold Form.val
  exact Nat.mul_pos hd (Nat.pow_pos hq)

theorem scalar_coeffs {f : Form} (h : f.scalar = true) : f.a = 0 ∧ f.b = 0 ∧ f.c = 0 := by
  unfold Form.scalar at h
  simp only [Bool.and_eq_true, beq_iff_eq] at h
  exact ⟨h.1.1, h.1.2, h.2⟩

theorem norm_correct (env : Env) (hany : env.any = true) (hq : 0 < env.q) :
    ∀ (e : Expr) (f : Form), e.norm = some f →
      0 < f.den ∧ 0 < (e.eval env).2 ∧ req (e.eval env) (f.val env) := by
  intro e
  induction e with
  | lit n d =>
    intro f h
    unfold Expr.norm at h
    by_cases hd : d = 0
    · simp [hd] at h
    · simp only [hd, if_false, Option.some.injEq] at h
      subst h
      refine ⟨Nat.pos_of_ne_zero hd, Nat.pos_of_ne_zero hd, ?_⟩
      simp only [req, Expr.eval, Form.val, Nat.pow_zero]
      ring
  | maxR =>
    intro f h
    simp only [Expr.norm, Option.some.injEq] at h
    subst h
    refine ⟨Nat.one_pos, Nat.one_pos, ?_⟩
    simp only [req, Expr.eval, Form.val, Nat.pow_zero]
    ring
  | fudge =>
    intro f h
    simp only [Expr.norm, Option.some.injEq] at h
    subst h
    refine ⟨Nat.one_pos, hq, ?_⟩
    simp only [req, Expr.eval, Form.val, Nat.pow_one]
    ring
  | r1 =>
    intro f h
    simp only [Expr.norm, Option.some.injEq] at h
    subst h
    refine ⟨Nat.one_pos, Nat.one_pos, ?_⟩
    simp only [req, Expr.eval, Form.val, Nat.pow_zero]
    ring
  | r2 =>
    intro f h
    simp only [Expr.norm, Option.some.injEq] at h
    subst h
    refine ⟨Nat.one_pos, Nat.one_pos, ?_⟩
    simp only [req, Expr.eval, Form.val, Nat.pow_zero]
    ring
  | add x y ihx ihy =>
    intro F h
    unfold Expr.norm at h
    cases hx : x.norm with
    | none => simp [hx] at h
    | some f =>
      cases hy : y.norm with
      | none => simp [hx, hy] at h
      | some g =>
        simp only [hx, hy] at h
        by_cases hk : f.k = g.k
        · simp only [hk, if_true, Option.some.injEq] at h
          subst h
          obtain ⟨fd, xd, rx⟩ := ihx f hx
          obtain ⟨gd, yd, ry⟩ := ihy g hy
          refine ⟨Nat.mul_pos fd gd, Nat.mul_pos xd yd, ?_⟩
          simp only [req, Form.val] at rx ry
          simp only [req, Expr.eval, Form.val]
          rw [hk] at rx
          have := add_arith (xn := (x.eval env).1) (xd := (x.eval env).2) (yn := (y.eval env).1)
            (yd := (y.eval env).2) (fd := f.den) (gd := g.den) (Qk := env.q ^ g.k) (P := env.p ^ g.k)
            (X := f.a * env.M + f.b * env.ra + f.c * env.rb + f.z)
            (Y := g.a * env.M + g.b * env.ra + g.c * env.rb + g.z) rx ry
          calc ((x.eval env).1 * (y.eval env).2 + (y.eval env).1 * (x.eval env).2) * (f.den * g.den * env.q ^ g.k)
              = ((f.a * env.M + f.b * env.ra + f.c * env.rb + f.z) * g.den
                  + (g.a * env.M + g.b * env.ra + g.c * env.rb + g.z) * f.den) * env.p ^ g.k
                  * ((x.eval env).2 * (y.eval env).2) := this
            _ = _ := by ring
        · simp [hk] at h
  | mul x y ihx ihy =>
    intro F h
    unfold Expr.norm at h
    cases hx : x.norm with
    | none => simp [hx] at h
    | some f =>
      cases hy : y.norm with
      | none => simp [hx, hy] at h
      | some g =>
        simp only [hx, hy] at h
        obtain ⟨fd, xd, rx⟩ := ihx f hx
        obtain ⟨gd, yd, ry⟩ := ihy g hy
        simp only [req, Form.val] at rx ry
        have key := mul_arith (xn := (x.eval env).1) (xd := (x.eval env).2) (yn := (y.eval env).1)
            (yd := (y.eval env).2) (fd := f.den) (gd := g.den) (Q1 := env.q ^ f.k) (Q2 := env.q ^ g.k)
            (P1 := env.p ^ f.k) (P2 := env.p ^ g.k)
            (X := f.a * env.M + f.b * env.ra + f.c * env.rb + f.z)
            (Y := g.a * env.M + g.b * env.ra + g.c * env.rb + g.z) rx ry
        cases hs : f.scalar with
        | true =>
          simp only [hs, if_true, Option.some.injEq] at h
          subst h
          obtain ⟨a0, b0, c0⟩ := scalar_coeffs hs
          refine ⟨Nat.mul_pos fd gd, Nat.mul_pos xd yd, ?_⟩
          simp only [req, Expr.eval, Form.val, Nat.pow_add]
          rw [a0, b0, c0] at key
          calc (x.eval env).1 * (y.eval env).1 * (f.den * g.den * (env.q ^ f.k * env.q ^ g.k))
              = _ := key
            _ = _ := by ring
        | false =>
          simp only [hs, Bool.false_eq_true, if_false] at h
          cases hs2 : g.scalar with
          | true =>
            simp only [hs2, if_true, Option.some.injEq] at h
            subst h
            obtain ⟨a0, b0, c0⟩ := scalar_coeffs hs2
            refine ⟨Nat.mul_pos fd gd, Nat.mul_pos xd yd, ?_⟩
            simp only [req, Expr.eval, Form.val, Nat.pow_add]
            rw [a0, b0, c0] at key
            calc (x.eval env).1 * (y.eval env).1 * (f.den * g.den * (env.q ^ f.k * env.q ^ g.k))
                = _ := key
              _ = _ := by ring
          | false => simp [hs2] at h
  | ifAny x y ihx _ =>
    intro f h
    simp only [Expr.norm] at h
    obtain ⟨fd, xd, rx⟩ := ihx f h
    refine ⟨fd, ?_, ?_⟩
    · simp only [Expr.eval, hany, if_true]; exact xd
    · simp only [Expr.eval, hany, if_true]; exact rx
  | unknown w =>
    intro f h
    simp [Expr.norm] at h

/-! ### consequences for the model -/

theorem anyEligible_of {S : Sys} {inN : Nat → Bool} {u : Nat} (hu : u < S.atoms.length)
    (he : eligible S inN u = true) : anyEligible S inN = true := by
  unfold anyEligible
  exact List.any_eq_true.mpr ⟨u, List.mem_range.mpr hu, he⟩

theorem eligible_radius {S : Sys} {inN : Nat → Bool} {u : Nat} (he : eligible S inN u = true) :
    ∃ r, radiusOf S.radii (atomAt S.atoms u).element = some r := by
  unfold eligible at he
  simp only [Bool.and_eq_true] at he
  exact Option.isSome_iff_exists.mp he.2

/-- domination, on forms -/
theorem form_dominates {fc fp : Form} {env : Env} {d2 : Nat} (hpd : 0 < fp.den)
    (hk : fc.k = fp.k)
    (h1 : (fp.a + fp.b + fp.c) * fc.den ≤ fc.a * fp.den) (h2 : fp.z * fc.den ≤ fc.z * fp.den)
    (ha : env.ra ≤ env.M) (hb : env.rb ≤ env.M)
    (hle : leDist d2 (fp.val env) = true) : leDist d2 (fc.val env) = true := by
  unfold leDist Form.val at hle ⊢
  simp only [decide_eq_true_eq] at hle ⊢
  rw [hk]
  refine dom_arith hpd ?_ hle
  -- (fp.a M + fp.b ra + fp.c rb + fp.z) * fc.den ≤ (fc.a M + fc.b ra + fc.c rb + fc.z) * fp.den
  have s1 : fp.a * env.M + fp.b * env.ra + fp.c * env.rb ≤ (fp.a + fp.b + fp.c) * env.M := by
    have := Nat.mul_le_mul_left fp.b ha
    have := Nat.mul_le_mul_left fp.c hb
    calc fp.a * env.M + fp.b * env.ra + fp.c * env.rb
        ≤ fp.a * env.M + fp.b * env.M + fp.c * env.M := by omega
      _ = (fp.a + fp.b + fp.c) * env.M := by ring
  calc (fp.a * env.M + fp.b * env.ra + fp.c * env.rb + fp.z) * fc.den
      ≤ ((fp.a + fp.b + fp.c) * env.M + fp.z) * fc.den := Nat.mul_le_mul_right _ (by omega)
    _ = ((fp.a + fp.b + fp.c) * fc.den) * env.M + fp.z * fc.den := by ring
    _ ≤ (fc.a * fp.den) * env.M + fc.z * fp.den := Nat.add_le_add (Nat.mul_le_mul_right _ h1) h2
    _ ≤ (fc.a * env.M + fc.b * env.ra + fc.c * env.rb + fc.z) * fp.den := by
      have : (fc.a * fp.den) * env.M + fc.z * fp.den = (fc.a * env.M + fc.z) * fp.den := by ring
      rw [this]
      exact Nat.mul_le_mul_right _ (by omega)

/-- the half-sum form is `within` -/
theorem form_halfsum {f : Form} {env : Env} {d2 : Nat} (hd : 0 < f.den)
    (hk : f.k = 1) (ha : f.a = 0) (hz : f.z = 0) (hbc : f.b = f.c) (h2 : 2 * f.b = f.den) :
    leDist d2 (f.val env) = within env.p env.q env.ra env.rb d2 := by
  unfold leDist within Form.val
  apply decide_eq_decide.mpr
  rw [hk, ha, hz, ← hbc, ← h2]
  have hb : 0 < f.b := by omega
  simp only [Nat.pow_one]
  have hbb : 0 < f.b * f.b := Nat.mul_pos hb hb
  have e1 : 2 * f.b * env.q * (2 * f.b * env.q) * d2 = (f.b * f.b) * (4 * (env.q * env.q) * d2) := by ring
  have e2 : 100 * ((0 * env.M + f.b * env.ra + f.b * env.rb + 0) * env.p
      * ((0 * env.M + f.b * env.ra + f.b * env.rb + 0) * env.p))
      = (f.b * f.b) * (100 * (env.p * env.p) * ((env.ra + env.rb) * (env.ra + env.rb))) := by ring
  rw [e1, e2]
  exact Nat.mul_le_mul_left_iff hbb

end C10
