import VermouthProofs.C02
/-! Lemmas about the reader `C02.step` on each kind of written line. -/
namespace C02

theorem not_isNat_of_head (s : String) (c : Char) (cs : List Char) (h : s.toList = c :: cs)
    (hc : c.isDigit = false) (hu : c ≠ '_') : s.isNat = false := by
  rw [Bool.eq_false_iff]; intro hn; rw [String.isNat_iff] at hn
  have := hn.2.1 c (by rw [h]; simp)
  rcases this with h1 | h1
  · rw [hc] at h1; cases h1
  · exact hu h1

theorem isNat_lb : "[".isNat = false := not_isNat_of_head _ '[' [] rfl (by decide) (by decide)
theorem isNat_ifdef : "#ifdef".isNat = false := not_isNat_of_head _ '#' _ rfl (by decide) (by decide)
theorem isNat_ifndef : "#ifndef".isNat = false := not_isNat_of_head _ '#' _ rfl (by decide) (by decide)
theorem isNat_endif : "#endif".isNat = false := not_isNat_of_head _ '#' _ rfl (by decide) (by decide)
theorem isNat_define : "#define".isNat = false := not_isNat_of_head _ '#' _ rfl (by decide) (by decide)
theorem isNat_include : "#include".isNat = false := not_isNat_of_head _ '#' _ rfl (by decide) (by decide)

theorem isNat_toString (n : Nat) : (toString n).isNat = true := Nat.isNat_repr n
theorem toNat?_toString (n : Nat) : (toString n).toNat? = some n := Nat.toNat?_repr n

theorem step_nil (tbl) (st : PState) : step tbl st [] = .ok st := rfl

theorem step_sect (tbl) (st : PState) (n : String) :
    step tbl st ["[", n, "]"] = .ok { st with sect := some n } := by
  simp [step, isNat_lb]

theorem step_ifdef (tbl) (st : PState) (d : String) :
    step tbl st ["#ifdef", d] = .ok { st with guard := (d, true) :: st.guard } := by
  simp [step, isNat_ifdef]

theorem step_ifndef (tbl) (st : PState) (d : String) :
    step tbl st ["#ifndef", d] = .ok { st with guard := (d, false) :: st.guard } := by
  simp [step, isNat_ifndef]

theorem step_endif (tbl) (st : PState) (g : String × Bool) (gs : List (String × Bool))
    (h : st.guard = g :: gs) :
    step tbl st ["#endif"] = .ok { st with guard := gs } := by
  simp [step, isNat_endif, h]

theorem step_define (tbl) (st : PState) (args : List String) :
    step tbl st ("#define" :: args) = .ok st := by
  simp [step, isNat_define]

theorem step_skippable (tbl) (st : PState) (toks : List String) (h : skippable toks = true) :
    step tbl st toks = .ok st := by
  cases toks with
  | nil => rfl
  | cons t rest =>
    simp only [skippable, Bool.or_eq_true, decide_eq_true_eq] at h
    rcases h with h | h
    · subst h; exact step_define tbl st rest
    · subst h; simp [step, isNat_include]

theorem step_content (tbl) (st : PState) (t : String) (rest : List String)
    (h : t.isNat = true ∨ keywords.contains t = false) :
    step tbl st (t :: rest) = content tbl st (t :: rest) := by
  rcases h with h | h
  · simp [step, h]
  · simp only [keywords, List.contains_cons, List.contains_nil, Bool.or_false, Bool.or_eq_false_iff,
      beq_eq_false_iff_ne, ne_eq] at h
    obtain ⟨h1, h2, h3, h4, h5, h6⟩ := h
    simp [step, h1, h2, h3, h4, h5, h6]

theorem step_moltype (tbl) (st : PState) (a b : String) (hs : st.sect = some "moleculetype")
    (ha : keywords.contains a = false) :
    step tbl st [a, b] = .ok { st with out := { st.out with moltype := some (a, b) } } := by
  rw [step_content tbl st a [b] (Or.inr ha)]
  simp [content, hs]

theorem step_atom (tbl) (st : PState) (w : Widths) (i : Nat) (a : Atom) (hs : st.sect = some "atoms")
    (hi : i = st.out.atoms.length + 1) (ha : atomOk a = true) :
    step tbl st (lineTokens (.atom w i a)) = .ok (pushAtom st (toPAtom a)) := by
  subst hi
  simp only [lineTokens, List.cons_append, List.nil_append]
  rw [step_content tbl st _ _ (Or.inl (isNat_toString _))]
  have hne : ("atoms" = "moleculetype") = False := by decide
  simp only [content, hs, hne, if_false, if_true, ne_eq, not_true_eq_false]
  by_cases hc : a.charge = "" <;> by_cases hm : a.mass = ""
  · simp [hc, hm, toPAtom]
  · simp [atomOk, hc, hm] at ha
  · simp [hc, hm, toPAtom]
  · simp [hc, hm, toPAtom]

end C02

namespace C02

theorem mapM_toNat_toString (idxs : List Nat) :
    (idxs.map (fun (i : Nat) => toString i)).mapM String.toNat? = some idxs := by
  induction idxs with
  | nil => rfl
  | cons a t ih =>
    rw [List.map_cons, List.mapM_cons, toNat?_toString, ih]
    rfl

/-- what the reader needs to know about an interaction line -/
def arityFits (ar : Arity) (nAtoms : Nat) (params : List String) : Prop :=
  match ar with
  | .fixed k => nAtoms = k ∧ 1 ≤ k
  | .all => params = [] ∧ nAtoms ≠ 0
  | .firstSkip => params.length = 1 ∧ nAtoms ≠ 0

theorem step_inter (tbl : List (String × Arity)) (st : PState) (s : String) (ar : Arity) (w : Nat)
    (idxs : List Nat) (params : List String) (c : Option String)
    (hs : st.sect = some s) (h1 : s ≠ "moleculetype") (h2 : s ≠ "atoms")
    (ht : tbl.lookup s = some ar) (har : arityFits ar idxs.length params)
    (hv : (ar = .firstSkip) ↔ (s = "virtual_sitesn"))
    (hr : ∀ n ∈ idxs, 1 ≤ n ∧ n ≤ st.out.atoms.length) :
    step tbl st (lineTokens (.inter w (s == "virtual_sitesn") idxs params c))
      = .ok { st with out := { st.out with inters := st.out.inters ++ [⟨s, st.guard, idxs, params⟩] } } := by
  have hall : (idxs.all fun n => decide (1 ≤ n) && decide (n ≤ st.out.atoms.length)) = true := by
    rw [List.all_eq_true]; intro n hn; have := hr n hn; simp [this.1, this.2]
  cases ar with
  | fixed k =>
    have hne : s ≠ "virtual_sitesn" := fun e => by have := hv.mpr e; cases this
    have hb : (s == "virtual_sitesn") = false := by simpa using hne
    obtain ⟨hk, hk1⟩ := har
    cases idxs with
    | nil => simp at hk; omega
    | cons a rest =>
      simp only [lineTokens, hb, List.map_cons, List.cons_append, Bool.false_eq_true, if_false]
      rw [step_content tbl st _ _ (Or.inl (isNat_toString a))]
      have hlen : ¬ ((toString a :: (rest.map (fun (i : Nat) => toString i) ++ params)).length < k) := by
        simp only [List.length_cons, List.length_append, List.length_map] at hk ⊢; omega
      have htake : (toString a :: (rest.map (fun (i : Nat) => toString i) ++ params)).take k
          = (a :: rest).map (fun (i : Nat) => toString i) := by
        rw [← List.cons_append, ← List.map_cons]
        apply List.take_left'
        simpa using hk
      have hdrop : (toString a :: (rest.map (fun (i : Nat) => toString i) ++ params)).drop k = params := by
        rw [← List.cons_append, ← List.map_cons]
        apply List.drop_left'
        simpa using hk
      simp only [content, hs, h1, h2, if_false, ht, splitAtoms, hlen, htake, hdrop,
        mapM_toNat_toString, hall, if_true]
  | all =>
    have hne : s ≠ "virtual_sitesn" := fun e => by have := hv.mpr e; cases this
    have hb : (s == "virtual_sitesn") = false := by simpa using hne
    obtain ⟨hp, hk⟩ := har
    subst hp
    cases idxs with
    | nil => simp at hk
    | cons a rest =>
      simp only [lineTokens, hb, List.map_cons, List.cons_append, Bool.false_eq_true, if_false,
        List.append_nil]
      rw [step_content tbl st _ _ (Or.inl (isNat_toString a))]
      rw [← List.map_cons]
      simp only [content, hs, h1, h2, if_false, ht, splitAtoms, mapM_toNat_toString, hall, if_true]
  | firstSkip =>
    have he : s = "virtual_sitesn" := hv.mp rfl
    have hb : (s == "virtual_sitesn") = true := by simpa using he
    obtain ⟨hp, hk⟩ := har
    cases idxs with
    | nil => simp at hk
    | cons a rest =>
      match params, hp with
      | [p], _ =>
        simp only [lineTokens, hb, List.map_cons, if_true, List.cons_append, List.nil_append]
        rw [step_content tbl st _ _ (Or.inl (isNat_toString a))]
        simp only [content, hs, h1, h2, if_false, ht, splitAtoms]
        rw [← List.map_cons (f := fun (i : Nat) => toString i)]
        simp only [mapM_toNat_toString, hall, if_true]

end C02
