import VermouthProofs.C02_Text
/-! From the decidable character conditions on the molecule (`charOk`) to `LineOk`/`NoNl` of every written line. -/
namespace C02

def lineGood : Line → Bool
  | .blank => true
  | .comment t => textOk t
  | .sect n => tokOk n
  | .directive kw args => tokOk kw && args.all tokOk
  | .free t => textOk t
  | .moltype a b => tokOk a && tokOk b
  | .atom _ _ a => tokOk a.atype && tokOk a.resid && tokOk a.resname && tokOk a.atomname && tokOk a.cgnr
      && (a.charge.isEmpty || tokOk a.charge) && (a.mass.isEmpty || tokOk a.mass)
  | .inter _ vsn atoms params c => params.all tokOk && c.all textOk && (!vsn || !atoms.isEmpty)

theorem tokS_of_tokOk (s : String) (h : tokOk s = true) : tokS s := by
  simp only [tokOk, Bool.and_eq_true, Bool.not_eq_true', List.all_eq_true, bne_iff_ne, ne_eq] at h
  refine ⟨?_, fun c hc => h.2 c hc⟩
  intro e
  have : s = "" := String.toList_eq_nil_iff.mp e
  subst this
  simp at h

theorem isEmpty_iff_eq (s : String) (h : s.isEmpty = true) : s = "" := by
  simpa using h

theorem nl_isWs : isWs '\n' = true := by decide

theorem tokOk_noNl (s : String) (h : tokOk s = true) : ∀ c ∈ s.toList, c ≠ '\n' := by
  intro c hc e
  subst e
  have := ((tokS_of_tokOk s h).2 _ hc).1
  rw [nl_isWs] at this
  cases this

theorem textOk_noNl (s : String) (h : textOk s = true) : ∀ c ∈ s.toList, c ≠ '\n' := by
  simp only [textOk, List.all_eq_true, bne_iff_ne, ne_eq] at h
  exact h

theorem spaces_noNl (n : Nat) : ∀ c ∈ spaces n, c ≠ '\n' := by
  intro c hc
  simp only [spaces, List.mem_replicate] at hc
  rw [hc.2]; decide

theorem joinSp_noNl (cells : List (List Char)) (h : ∀ l ∈ cells, ∀ x ∈ l, x ≠ '\n') :
    ∀ x ∈ joinSp cells, x ≠ '\n' := by
  induction cells with
  | nil => intro x hx; simp [joinSp] at hx
  | cons a rest ih =>
    cases rest with
    | nil => simpa [joinSp] using h a (by simp)
    | cons b rest' =>
      intro x hx
      rw [joinSp_cons_cons] at hx
      simp only [List.mem_append, List.mem_cons] at hx
      rcases hx with hx | rfl | hx
      · exact h a (by simp) x hx
      · decide
      · exact ih (fun l hl => h l (by simp [hl])) x hx

theorem toString_noNl (n : Nat) : ∀ c ∈ (toString n).toList, c ≠ '\n' := by
  intro c hc e
  subst e
  have := ((tokS_toString n).2 _ hc).1
  rw [nl_isWs] at this
  cases this

theorem padL_noNl (w : Nat) (s : String) (h : ∀ c ∈ s.toList, c ≠ '\n') : ∀ c ∈ padL w s, c ≠ '\n' := by
  intro c hc
  simp only [padL, List.mem_append] at hc
  rcases hc with hc | hc
  · exact spaces_noNl _ c hc
  · exact h c hc

theorem padR_noNl (w : Nat) (s : String) (h : ∀ c ∈ s.toList, c ≠ '\n') : ∀ c ∈ padR w s, c ≠ '\n' := by
  intro c hc
  simp only [padR, List.mem_append] at hc
  rcases hc with hc | hc
  · exact h c hc
  · exact spaces_noNl _ c hc

theorem optTok_noNl (s : String) (h : (s.isEmpty || tokOk s) = true) : ∀ c ∈ s.toList, c ≠ '\n' := by
  simp only [Bool.or_eq_true] at h
  rcases h with h | h
  · have := isEmpty_iff_eq s h
    subst this
    intro c hc; simp at hc
  · exact tokOk_noNl s h

theorem optTok_ok (s : String) (h : (s.isEmpty || tokOk s) = true) : s = "" ∨ tokS s := by
  simp only [Bool.or_eq_true] at h
  rcases h with h | h
  · exact Or.inl (isEmpty_iff_eq s h)
  · exact Or.inr (tokS_of_tokOk s h)

theorem lineOk_of_good (l : Line) (h : lineGood l = true) : LineOk l := by
  cases l with
  | blank => trivial
  | comment t => trivial
  | sect n => exact tokS_of_tokOk n h
  | directive kw args =>
    simp only [lineGood, Bool.and_eq_true, List.all_eq_true] at h
    exact ⟨tokS_of_tokOk kw h.1, fun a ha => tokS_of_tokOk a (h.2 a ha)⟩
  | free t => trivial
  | moltype a b =>
    simp only [lineGood, Bool.and_eq_true] at h
    exact ⟨tokS_of_tokOk a h.1, tokS_of_tokOk b h.2⟩
  | atom w i a =>
    simp only [lineGood, Bool.and_eq_true] at h
    obtain ⟨⟨⟨⟨⟨⟨h1, h2⟩, h3⟩, h4⟩, h5⟩, h6⟩, h7⟩ := h
    exact ⟨tokS_of_tokOk _ h1, tokS_of_tokOk _ h2, tokS_of_tokOk _ h3, tokS_of_tokOk _ h4,
      tokS_of_tokOk _ h5, optTok_ok _ h6, optTok_ok _ h7⟩
  | inter w vsn atoms params c =>
    simp only [lineGood, Bool.and_eq_true, List.all_eq_true, Bool.or_eq_true, Bool.not_eq_true'] at h
    refine ⟨fun p hp => tokS_of_tokOk p (h.1.1 p hp), ?_⟩
    intro hv e
    subst e
    rcases h.2 with h2 | h2
    · rw [hv] at h2; cases h2
    · simp at h2

theorem noNl_of_good (l : Line) (h : lineGood l = true) : NoNl l := by
  unfold NoNl
  cases l with
  | blank => intro c hc; simp [renderLineChars] at hc
  | comment t =>
    intro c hc
    simp only [renderLineChars, List.mem_cons] at hc
    rcases hc with rfl | rfl | hc
    · decide
    · decide
    · exact textOk_noNl t h c hc
  | sect n =>
    apply joinSp_noNl
    intro l hl
    simp only [List.mem_cons, List.not_mem_nil, or_false] at hl
    rcases hl with rfl | rfl | rfl
    · intro x hx; simp only [List.mem_singleton] at hx; subst hx; decide
    · exact tokOk_noNl n h
    · intro x hx; simp only [List.mem_singleton] at hx; subst hx; decide
  | directive kw args =>
    simp only [lineGood, Bool.and_eq_true, List.all_eq_true] at h
    apply joinSp_noNl
    intro l hl
    simp only [List.mem_cons, List.mem_map] at hl
    rcases hl with rfl | ⟨a, ha, rfl⟩
    · exact tokOk_noNl kw h.1
    · exact tokOk_noNl a (h.2 a ha)
  | free t => exact textOk_noNl t h
  | moltype a b =>
    simp only [lineGood, Bool.and_eq_true] at h
    apply joinSp_noNl
    intro l hl
    simp only [List.mem_cons, List.not_mem_nil, or_false] at hl
    rcases hl with rfl | rfl
    · exact tokOk_noNl a h.1
    · exact tokOk_noNl b h.2
  | atom w i a =>
    simp only [lineGood, Bool.and_eq_true] at h
    obtain ⟨⟨⟨⟨⟨⟨h1, h2⟩, h3⟩, h4⟩, h5⟩, h6⟩, h7⟩ := h
    apply joinSp_noNl
    intro l hl
    simp only [List.mem_cons, List.not_mem_nil, or_false] at hl
    rcases hl with rfl | rfl | rfl | rfl | rfl | rfl | rfl | rfl
    · exact padL_noNl _ _ (toString_noNl i)
    · exact padR_noNl _ _ (tokOk_noNl _ h1)
    · exact padL_noNl _ _ (tokOk_noNl _ h2)
    · exact padR_noNl _ _ (tokOk_noNl _ h3)
    · exact padR_noNl _ _ (tokOk_noNl _ h4)
    · exact padL_noNl _ _ (tokOk_noNl _ h5)
    · exact padL_noNl _ _ (optTok_noNl _ h6)
    · exact padL_noNl _ _ (optTok_noNl _ h7)
  | inter w vsn atoms params c =>
    simp only [lineGood, Bool.and_eq_true, List.all_eq_true] at h
    obtain ⟨⟨hp, hc⟩, _⟩ := h
    have hcells : ∀ l ∈ atoms.map (fun (i : Nat) => padL w (toString i)), ∀ x ∈ l, x ≠ '\n' := by
      intro l hl
      simp only [List.mem_map] at hl
      obtain ⟨i, _, rfl⟩ := hl
      exact padL_noNl _ _ (toString_noNl i)
    have hP : ∀ x ∈ joinSp (params.map String.toList), x ≠ '\n' := by
      apply joinSp_noNl
      intro l hl
      simp only [List.mem_map] at hl
      obtain ⟨p, hpm, rfl⟩ := hl
      exact tokOk_noNl p (hp p hpm)
    have hmain : ∀ x ∈ renderLineChars (.inter w vsn atoms params none), x ≠ '\n' := by
      simp only [renderLineChars, List.append_nil]
      apply joinSp_noNl
      intro l hl
      split at hl
      · split at hl
        · next a rest heq =>
          simp only [List.mem_cons] at hl
          rcases hl with rfl | rfl | hl
          · exact hcells _ (by rw [heq]; simp)
          · exact hP
          · exact hcells l (by rw [heq]; simp [hl])
        · simp only [List.mem_singleton] at hl
          subst hl; exact hP
      · simp only [List.mem_append, List.mem_singleton] at hl
        rcases hl with hl | rfl
        · exact hcells l hl
        · exact hP
    cases c with
    | none => exact hmain
    | some txt =>
      rw [renderLine_inter_comment]
      intro x hx
      simp only [List.mem_append, List.mem_cons] at hx
      rcases hx with hx | rfl | rfl | rfl | hx
      · exact hmain x hx
      · decide
      · decide
      · decide
      · exact textOk_noNl txt (by simpa using hc) x hx

end C02
