import VermouthProofs.C16_File
import VermouthProofs.C16_Conect
/-! Set-level CONECT: dictionaries as lists, the records written, the bonds read. -/
namespace C16
open Std

/-! ### the dictionaries -/

/-- index of the first element equal to `k` -/
def idxIn : List Int → Int → Option Nat
  | [], _ => none
  | x :: r, k => if x = k then some 0 else (idxIn r k).map (· + 1)

theorem idxIn_none_of_not_mem : ∀ (l : List Int) (k : Int), k ∉ l → idxIn l k = none
  | [], _, _ => rfl
  | x :: r, k, h => by
      have hx : x ≠ k := fun e => h (by simp [e])
      simp only [idxIn, hx, if_false, idxIn_none_of_not_mem r k (fun hm => h (by simp [hm]))]
      rfl

theorem idxIn_some_iff : ∀ (l : List Int) (k : Int) (i : Nat), idxIn l k = some i → l[i]? = some k
  | [], _, _, h => by cases h
  | x :: r, k, i, h => by
      simp only [idxIn] at h
      split at h
      · rename_i hx; cases h; subst hx; rfl
      · cases hr : idxIn r k with
        | none => rw [hr] at h; cases h
        | some j =>
          rw [hr] at h; simp only [Option.map_some, Option.some.injEq] at h; subst h
          rw [List.getElem?_cons_succ]
          exact idxIn_some_iff r k j hr

theorem idxIn_of_mem : ∀ (l : List Int) (k : Int), k ∈ l → ∃ i, idxIn l k = some i
  | [], _, h => by cases h
  | x :: r, k, h => by
      by_cases hx : x = k
      · exact ⟨0, by simp [idxIn, hx]⟩
      · have : k ∈ r := by
          rcases List.mem_cons.mp h with h | h
          · exact absurd h.symm hx
          · exact h
        obtain ⟨i, hi⟩ := idxIn_of_mem r k this
        exact ⟨i + 1, by simp [idxIn, hx, hi]⟩

/-- the fold behind `serialTable` and `idTable` -/
def insertAll (keys : List Int) (m0 : HashMap Int Nat) (s0 : Nat) : HashMap Int Nat :=
  (keys.foldl (fun (acc : HashMap Int Nat × Nat) k => (acc.1.insert k acc.2, acc.2 + 1)) (m0, s0)).1

theorem insertAll_get? : ∀ (keys : List Int) (m0 : HashMap Int Nat) (s0 : Nat) (k : Int), keys.Nodup →
    (insertAll keys m0 s0).get? k =
      match idxIn keys k with
      | some i => some (s0 + i)
      | none => m0.get? k
  | [], _, _, _, _ => rfl
  | x :: r, m0, s0, k, hnd => by
      simp only [List.nodup_cons] at hnd
      have ih := insertAll_get? r (m0.insert x s0) (s0 + 1) k hnd.2
      unfold insertAll at ih ⊢
      rw [List.foldl_cons, ih]
      by_cases hx : x = k
      · subst hx
        rw [idxIn_none_of_not_mem r x hnd.1]
        simp [idxIn, HashMap.getElem?_insert]
      · simp only [idxIn, hx, if_false]
        cases hr : idxIn r k with
        | none => simp [HashMap.getElem?_insert, hx]
        | some j => simp; omega

theorem serialTable_eq (start : Nat) (sn : List Atom) :
    serialTable start sn = insertAll (sn.map (·.key)) (HashMap.emptyWithCapacity sn.length) start := by
  unfold serialTable insertAll
  rw [List.foldl_map]

theorem idTable_eq (mol : List PAtom) :
    idTable mol = insertAll (mol.map (·.atomid)) (HashMap.emptyWithCapacity mol.length) 0 := by
  unfold idTable insertAll
  rw [List.foldl_map]

theorem serialTable_get? (start : Nat) (sn : List Atom) (k : Int) (hnd : (sn.map (·.key)).Nodup) :
    (serialTable start sn).get? k = (idxIn (sn.map (·.key)) k).map (start + ·) := by
  rw [serialTable_eq, insertAll_get? _ _ _ _ hnd]
  cases idxIn (sn.map (·.key)) k <;> simp

/-- membership in the adjacency dictionary -/
theorem adjacency_fold_mem : ∀ (edges : List (Int × Int)) (m0 : HashMap Int (List Int)) (k n : Int),
    n ∈ ((edges.foldl (fun acc e =>
        let acc := acc.insert e.1 (e.2 :: (acc.get? e.1).getD [])
        acc.insert e.2 (e.1 :: (acc.get? e.2).getD [])) m0).get? k).getD [] ↔
      n ∈ (m0.get? k).getD [] ∨ (k, n) ∈ edges ∨ (n, k) ∈ edges
  | [], m0, k, n => by simp
  | e :: es, m0, k, n => by
      rw [List.foldl_cons, adjacency_fold_mem es _ k n]
      obtain ⟨u, v⟩ := e
      simp only [HashMap.get?_insert, List.mem_cons, Prod.mk.injEq, beq_iff_eq]
      by_cases h1 : v = k <;> by_cases h2 : u = k
      · subst h1; subst h2; simp; grind
      · subst h1; simp [h2]; grind
      · subst h2; simp [h1]; grind
      · simp [h1, h2]; grind

theorem adjacency_mem (edges : List (Int × Int)) (k n : Int) :
    n ∈ ((adjacency edges).get? k).getD [] ↔ (k, n) ∈ edges ∨ (n, k) ∈ edges := by
  unfold adjacency
  rw [adjacency_fold_mem]
  simp

theorem upperNbrs_mem (edges : List (Int × Int)) (k n : Int) :
    n ∈ upperNbrs (adjacency edges) k ↔ ((k, n) ∈ edges ∨ (n, k) ∈ edges) ∧ k < n := by
  unfold upperNbrs
  rw [List.mem_filter, adjacency_mem]
  simp

/-! ### the records written for one molecule -/

/-- owner/partner pairs of a list of records -/
def recPairs (recs : List (List Nat)) : List (Nat × Nat) :=
  recs.flatMap fun r =>
    match r with
    | [] => []
    | own :: ps => ps.map fun p => (own, p)

theorem recPairs_append (a b : List (List Nat)) : recPairs (a ++ b) = recPairs a ++ recPairs b := by
  simp [recPairs]

theorem lookupAll_ok (tbl : HashMap Int Nat) : ∀ (l : List Int), (∀ k ∈ l, ∃ s, tbl.get? k = some s) →
    ∃ ids, lookupAll tbl l = .ok ids ∧ ∀ s, s ∈ ids ↔ ∃ k ∈ l, tbl.get? k = some s
  | [], _ => ⟨[], rfl, by simp⟩
  | k :: ks, h => by
      obtain ⟨s, hs⟩ := h k (by simp)
      obtain ⟨ids, hids, hmem⟩ := lookupAll_ok tbl ks (fun k' hk' => h k' (by simp [hk']))
      refine ⟨s :: ids, by simp only [lookupAll, hs, hids], ?_⟩
      intro t
      simp only [List.mem_cons, hmem]
      constructor
      · rintro (h1 | ⟨k', hk', hk''⟩)
        · exact ⟨k, Or.inl rfl, by rw [hs, h1]⟩
        · exact ⟨k', Or.inr hk', hk''⟩
      · rintro ⟨k', hk' | hk', hk''⟩
        · subst hk'; rw [hs] at hk''; cases hk''; exact Or.inl rfl
        · exact Or.inr ⟨k', hk', hk''⟩

theorem mem_chunks_iff (n : Nat) (hn : n ≠ 0) (l : List Nat) (t : Nat) :
    (∃ c ∈ chunks n l, t ∈ c) ↔ t ∈ l := by
  have := chunks_flatten n l hn
  constructor
  · rintro ⟨c, hc, ht⟩
    rw [← this]; exact List.mem_flatten.mpr ⟨c, hc, ht⟩
  · intro ht
    rw [← this] at ht
    exact List.mem_flatten.mp ht

theorem recPairs_chunks (n : Nat) (hn : n ≠ 0) (own : Nat) (l : List Nat) (s t : Nat) :
    (s, t) ∈ recPairs ((chunks n l).map (own :: ·)) ↔ s = own ∧ t ∈ l := by
  unfold recPairs
  simp only [List.mem_flatMap, List.mem_map]
  constructor
  · rintro ⟨r, ⟨c, hc, rfl⟩, hst⟩
    simp only [List.mem_map, Prod.mk.injEq] at hst
    obtain ⟨p, hp, rfl, rfl⟩ := hst
    exact ⟨rfl, (mem_chunks_iff n hn l _).mp ⟨c, hc, hp⟩⟩
  · rintro ⟨rfl, ht⟩
    obtain ⟨c, hc, htc⟩ := (mem_chunks_iff n hn l t).mpr ht
    exact ⟨s :: c, ⟨c, hc, rfl⟩, by simp [htc]⟩

/-- every record has an owner and at least one partner -/
def goodRecs (recs : List (List Nat)) : Prop := ∀ r ∈ recs, ∃ own c, r = own :: c ∧ c ≠ []

theorem atomConectRecords_spec (chunk : Nat) (hchunk : chunk ≠ 0) (tbl : HashMap Int Nat)
    (edges : List (Int × Int)) (a : Atom)
    (hown : ∃ s, tbl.get? a.key = some s)
    (hall : ∀ k ∈ upperNbrs (adjacency edges) a.key, ∃ s, tbl.get? k = some s) :
    ∃ recs, atomConectRecords chunk tbl (adjacency edges) a = .ok recs ∧ goodRecs recs ∧
      ∀ s t, (s, t) ∈ recPairs recs ↔
        tbl.get? a.key = some s ∧ ∃ n ∈ upperNbrs (adjacency edges) a.key, tbl.get? n = some t := by
  obtain ⟨own, hown⟩ := hown
  obtain ⟨ids, hids, hmem⟩ := lookupAll_ok tbl _ hall
  refine ⟨(chunks chunk (ids.mergeSort natLe)).map (own :: ·), by simp only [atomConectRecords, hown, hids], ?_, ?_⟩
  · intro r hr
    obtain ⟨c, hc, rfl⟩ := List.mem_map.mp hr
    exact ⟨own, c, rfl, (chunks_bounds chunk _ c hc).1⟩
  · intro s t
    rw [recPairs_chunks chunk hchunk, List.mem_mergeSort, hmem, hown]
    constructor
    · rintro ⟨rfl, h⟩; exact ⟨rfl, h⟩
    · rintro ⟨h, h'⟩; cases h; exact ⟨rfl, h'⟩

theorem atomsConectRecords_spec (chunk : Nat) (hchunk : chunk ≠ 0) (tbl : HashMap Int Nat)
    (edges : List (Int × Int)) : ∀ (atoms : List Atom),
    (∀ a ∈ atoms, ∃ s, tbl.get? a.key = some s) →
    (∀ a ∈ atoms, ∀ k ∈ upperNbrs (adjacency edges) a.key, ∃ s, tbl.get? k = some s) →
    ∃ recs, atomsConectRecords chunk tbl (adjacency edges) atoms = .ok recs ∧ goodRecs recs ∧
      ∀ s t, (s, t) ∈ recPairs recs ↔
        ∃ a ∈ atoms, tbl.get? a.key = some s ∧ ∃ n ∈ upperNbrs (adjacency edges) a.key, tbl.get? n = some t
  | [], _, _ => by
      refine ⟨[], rfl, ?_, ?_⟩
      · intro r hr; cases hr
      · intro s t; simp [recPairs]
  | a :: r, h1, h2 => by
      obtain ⟨x, hx, gx, px⟩ := atomConectRecords_spec chunk hchunk tbl edges a (h1 a (by simp)) (h2 a (by simp))
      obtain ⟨y, hy, gy, py⟩ := atomsConectRecords_spec chunk hchunk tbl edges r
        (fun b hb => h1 b (by simp [hb])) (fun b hb => h2 b (by simp [hb]))
      refine ⟨x ++ y, by simp only [atomsConectRecords, hx, hy], ?_, ?_⟩
      · intro rec hrec
        rcases List.mem_append.mp hrec with h | h
        · exact gx rec h
        · exact gy rec h
      · intro s t
        rw [recPairs_append, List.mem_append, px, py]
        constructor
        · rintro (h | ⟨b, hb, h⟩)
          · exact ⟨a, by simp, h⟩
          · exact ⟨b, by simp [hb], h⟩
        · rintro ⟨b, hb, h⟩
          rcases List.mem_cons.mp hb with rfl | hb
          · exact Or.inl h
          · exact Or.inr ⟨b, hb, h⟩

/-! ### reading the records back -/

/-- all serials of the records lie in `[lo, hi)` -/
def recsIn (recs : List (List Nat)) (lo hi : Nat) : Prop := ∀ r ∈ recs, ∀ s ∈ r, lo ≤ s ∧ s < hi

theorem singleConect_spec (tables : List (HashMap Int Nat)) (mi lo hi : Nat)
    (hfind : ∀ s, lo ≤ s → s < hi → findMol tables (s : Int) = some (mi, s - lo))
    (own : Nat) (c : List Nat) (hown : lo ≤ own ∧ own < hi) (hc : ∀ t ∈ c, lo ≤ t ∧ t < hi) :
    singleConect tables ((own :: c).map Int.ofNat) = .ok (c.map fun t => (mi, own - lo, t - lo)) := by
  simp only [List.map_cons, singleConect]
  have h0 : findMol tables (Int.ofNat own) = some (mi, own - lo) := hfind own hown.1 hown.2
  rw [h0]
  simp only []
  induction c with
  | nil => rfl
  | cons t c ih =>
    have ht := hc t (by simp)
    have hft : findMol tables (Int.ofNat t) = some (mi, t - lo) := hfind t ht.1 ht.2
    simp only [List.map_cons, List.foldr_cons]
    rw [ih (fun t' ht' => hc t' (by simp [ht']))]
    simp only [bind, Except.bind, pure, Except.pure, hft, if_true]

theorem doConect_append (L : PdbLayout) (tables : List (HashMap Int Nat)) : ∀ (a b : List (List Char)),
    doConect L tables (a ++ b) =
      match doConect L tables a with
      | .error e => .error e
      | .ok x => match doConect L tables b with
        | .error e => .error e
        | .ok y => .ok (x ++ y)
  | [], b => by
      simp only [List.nil_append, doConect]
      cases doConect L tables b <;> simp
  | l :: a, b => by
      simp only [List.cons_append, doConect, bind, Except.bind, pure, Except.pure]
      cases conectIds L l with
      | error e => rfl
      | ok ids =>
        simp only []
        cases singleConect tables ids with
        | error e => rfl
        | ok e1 =>
          simp only []
          rw [doConect_append L tables a b]
          cases doConect L tables a with
          | error e => rfl
          | ok x =>
            simp only []
            cases doConect L tables b with
            | error e => rfl
            | ok y => simp

/-- the records of one molecule are read back as bonds between the node indices -/
theorem doConect_recs (L : PdbLayout) (tables : List (HashMap Int Nat)) (mi lo hi : Nat)
    (hfind : ∀ s, lo ≤ s → s < hi → findMol tables (s : Int) = some (mi, s - lo))
    (hstart : L.conectPrefix.length = L.conectStart) (hwidth : L.conectNum.width = L.conectWidth)
    (hw : 1 ≤ L.conectWidth) (hty : L.conectNum.ty = .d) (hfill : L.conectNum.fill = ' ')
    (htr : L.conectNum.trunc = true) (halign : L.conectNum.leftAligned = false)
    (hhi : hi ≤ 10 ^ L.conectWidth) :
    ∀ (recs : List (List Nat)), goodRecs recs → recsIn recs lo hi →
      doConect L tables (recs.map (conectLine L)) =
        .ok ((recPairs recs).map fun p => (mi, p.1 - lo, p.2 - lo))
  | [], _, _ => rfl
  | r :: recs, hg, hin => by
      obtain ⟨own, c, rfl, _⟩ := hg r (by simp)
      have hr := hin (own :: c) (by simp)
      have hids := conectIds_conectLine L (own :: c) (by simp) hstart hwidth hw hty hfill htr halign
        (fun i hi' => Nat.lt_of_lt_of_le (hr i hi').2 hhi)
      have hs := singleConect_spec tables mi lo hi hfind own c (hr own (by simp)) (fun t ht => hr t (by simp [ht]))
      have ih := doConect_recs L tables mi lo hi hfind hstart hwidth hw hty hfill htr halign hhi recs
        (fun r' hr' => hg r' (by simp [hr'])) (fun r' hr' => hin r' (by simp [hr']))
      rw [List.map_cons] at hs
      simp only [List.map_cons, doConect, hids, bind, Except.bind, pure, Except.pure, ih]
      rw [hs]
      simp [recPairs]

end C16
