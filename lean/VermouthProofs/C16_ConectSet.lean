import VermouthProofs.C16_File
import VermouthProofs.C16_Conect
import VermouthProofs.C16_Gro
/-! Set-level CONECT: dictionaries as lists, the records written, the bonds read. -/
namespace C16
open Std

/-! ### the dictionaries -/

/-- index of the first element equal to `k` -/
def idxIn : List Int → Int → Option Nat
  | [], _ => none
  | x :: r, k => if x = k then some 0 else (idxIn r k).map (· + 1)

theorem idxIn_none_of_not_mem : ∀ (l : List Int) (k : Int), k ∉ l → idxIn l k = none
  | [], _, _ => rfl
  | x :: r, k, h => by
      have hx : x ≠ k := fun e => h (by simp [e])
      simp only [idxIn, hx, if_false, idxIn_none_of_not_mem r k (fun hm => h (by simp [hm]))]
      rfl

theorem idxIn_some_iff : ∀ (l : List Int) (k : Int) (i : Nat), idxIn l k = some i → l[i]? = some k
  | [], _, _, h => by cases h
  | x :: r, k, i, h => by
      simp only [idxIn] at h
      split at h
      · rename_i hx; cases h; subst hx; rfl
      · cases hr : idxIn r k with
        | none => rw [hr] at h; cases h
        | some j =>
          rw [hr] at h; simp only [Option.map_some, Option.some.injEq] at h; subst h
          rw [List.getElem?_cons_succ]
          exact idxIn_some_iff r k j hr

theorem idxIn_of_mem : ∀ (l : List Int) (k : Int), k ∈ l → ∃ i, idxIn l k = some i
  | [], _, h => by cases h
  | x :: r, k, h => by
      by_cases hx : x = k
      · exact ⟨0, by simp [idxIn, hx]⟩
      · have : k ∈ r := by
          rcases List.mem_cons.mp h with h | h
          · exact absurd h.symm hx
          · exact h
        obtain ⟨i, hi⟩ := idxIn_of_mem r k this
        exact ⟨i + 1, by simp [idxIn, hx, hi]⟩

/-- the fold behind `serialTable` and `idTable` -/
def insertAll (keys : List Int) (m0 : HashMap Int Nat) (s0 : Nat) : HashMap Int Nat :=
  (keys.foldl (fun (acc : HashMap Int Nat × Nat) k => (acc.1.insert k acc.2, acc.2 + 1)) (m0, s0)).1

theorem insertAll_get? : ∀ (keys : List Int) (m0 : HashMap Int Nat) (s0 : Nat) (k : Int), keys.Nodup →
    (insertAll keys m0 s0).get? k =
      match idxIn keys k with
      | some i => some (s0 + i)
      | none => m0.get? k
  | [], _, _, _, _ => rfl
  | x :: r, m0, s0, k, hnd => by
      simp only [List.nodup_cons] at hnd
      have ih := insertAll_get? r (m0.insert x s0) (s0 + 1) k hnd.2
      unfold insertAll at ih ⊢
      rw [List.foldl_cons, ih]
      by_cases hx : x = k
      · subst hx
        rw [idxIn_none_of_not_mem r x hnd.1]
        simp [idxIn, HashMap.getElem?_insert]
      · simp only [idxIn, hx, if_false]
        cases hr : idxIn r k with
        | none => simp [HashMap.getElem?_insert, hx]
        | some j => simp; omega

theorem serialTable_eq (start : Nat) (sn : List Atom) :
    serialTable start sn = insertAll (sn.map (·.key)) (HashMap.emptyWithCapacity sn.length) start := by
  unfold serialTable insertAll
  rw [List.foldl_map]

theorem idTable_eq (mol : List PAtom) :
    idTable mol = insertAll (mol.map (·.atomid)) (HashMap.emptyWithCapacity mol.length) 0 := by
  unfold idTable insertAll
  rw [List.foldl_map]

theorem serialTable_get? (start : Nat) (sn : List Atom) (k : Int) (hnd : (sn.map (·.key)).Nodup) :
    (serialTable start sn).get? k = (idxIn (sn.map (·.key)) k).map (start + ·) := by
  rw [serialTable_eq, insertAll_get? _ _ _ _ hnd]
  cases idxIn (sn.map (·.key)) k <;> simp

/-- membership in the adjacency dictionary -/
theorem adjacency_fold_mem : ∀ (edges : List (Int × Int)) (m0 : HashMap Int (List Int)) (k n : Int),
    n ∈ ((edges.foldl (fun acc e =>
        let acc := acc.insert e.1 (e.2 :: (acc.get? e.1).getD [])
        acc.insert e.2 (e.1 :: (acc.get? e.2).getD [])) m0).get? k).getD [] ↔
      n ∈ (m0.get? k).getD [] ∨ (k, n) ∈ edges ∨ (n, k) ∈ edges
  | [], m0, k, n => by simp
  | e :: es, m0, k, n => by
      rw [List.foldl_cons, adjacency_fold_mem es _ k n]
      obtain ⟨u, v⟩ := e
      simp only [HashMap.get?_insert, List.mem_cons, Prod.mk.injEq, beq_iff_eq]
      by_cases h1 : v = k <;> by_cases h2 : u = k
      · subst h1; subst h2; simp; grind
      · subst h1; simp [h2]; grind
      · subst h2; simp [h1]; grind
      · simp [h1, h2]; grind

theorem adjacency_mem (edges : List (Int × Int)) (k n : Int) :
    n ∈ ((adjacency edges).get? k).getD [] ↔ (k, n) ∈ edges ∨ (n, k) ∈ edges := by
  unfold adjacency
  rw [adjacency_fold_mem]
  simp

theorem upperNbrs_mem (edges : List (Int × Int)) (k n : Int) :
    n ∈ upperNbrs (adjacency edges) k ↔ ((k, n) ∈ edges ∨ (n, k) ∈ edges) ∧ k < n := by
  unfold upperNbrs
  rw [List.mem_filter, adjacency_mem]
  simp

/-! ### the records written for one molecule -/

/-- owner/partner pairs of a list of records -/
def recPairs (recs : List (List Nat)) : List (Nat × Nat) :=
  recs.flatMap fun r =>
    match r with
    | [] => []
    | own :: ps => ps.map fun p => (own, p)

theorem recPairs_append (a b : List (List Nat)) : recPairs (a ++ b) = recPairs a ++ recPairs b := by
  simp [recPairs]

theorem lookupAll_ok (tbl : HashMap Int Nat) : ∀ (l : List Int), (∀ k ∈ l, ∃ s, tbl.get? k = some s) →
    ∃ ids, lookupAll tbl l = .ok ids ∧ ∀ s, s ∈ ids ↔ ∃ k ∈ l, tbl.get? k = some s
  | [], _ => ⟨[], rfl, by simp⟩
  | k :: ks, h => by
      obtain ⟨s, hs⟩ := h k (by simp)
      obtain ⟨ids, hids, hmem⟩ := lookupAll_ok tbl ks (fun k' hk' => h k' (by simp [hk']))
      refine ⟨s :: ids, by simp only [lookupAll, hs, hids], ?_⟩
      intro t
      simp only [List.mem_cons, hmem]
      constructor
      · rintro (h1 | ⟨k', hk', hk''⟩)
        · exact ⟨k, Or.inl rfl, by rw [hs, h1]⟩
        · exact ⟨k', Or.inr hk', hk''⟩
      · rintro ⟨k', hk' | hk', hk''⟩
        · subst hk'; rw [hs] at hk''; cases hk''; exact Or.inl rfl
        · exact Or.inr ⟨k', hk', hk''⟩

theorem mem_chunks_iff (n : Nat) (hn : n ≠ 0) (l : List Nat) (t : Nat) :
    (∃ c ∈ chunks n l, t ∈ c) ↔ t ∈ l := by
  have := chunks_flatten n l hn
  constructor
  · rintro ⟨c, hc, ht⟩
    rw [← this]; exact List.mem_flatten.mpr ⟨c, hc, ht⟩
  · intro ht
    rw [← this] at ht
    exact List.mem_flatten.mp ht

theorem recPairs_chunks (n : Nat) (hn : n ≠ 0) (own : Nat) (l : List Nat) (s t : Nat) :
    (s, t) ∈ recPairs ((chunks n l).map (own :: ·)) ↔ s = own ∧ t ∈ l := by
  unfold recPairs
  simp only [List.mem_flatMap, List.mem_map]
  constructor
  · rintro ⟨r, ⟨c, hc, rfl⟩, hst⟩
    simp only [List.mem_map, Prod.mk.injEq] at hst
    obtain ⟨p, hp, rfl, rfl⟩ := hst
    exact ⟨rfl, (mem_chunks_iff n hn l _).mp ⟨c, hc, hp⟩⟩
  · rintro ⟨rfl, ht⟩
    obtain ⟨c, hc, htc⟩ := (mem_chunks_iff n hn l t).mpr ht
    exact ⟨s :: c, ⟨c, hc, rfl⟩, by simp [htc]⟩

/-- every record has an owner and at least one partner -/
def goodRecs (recs : List (List Nat)) : Prop := ∀ r ∈ recs, ∃ own c, r = own :: c ∧ c ≠ []

theorem atomConectRecords_spec (chunk : Nat) (hchunk : chunk ≠ 0) (tbl : HashMap Int Nat)
    (edges : List (Int × Int)) (a : Atom)
    (hown : ∃ s, tbl.get? a.key = some s)
    (hall : ∀ k ∈ upperNbrs (adjacency edges) a.key, ∃ s, tbl.get? k = some s) :
    ∃ recs, atomConectRecords chunk tbl (adjacency edges) a = .ok recs ∧ goodRecs recs ∧
      ∀ s t, (s, t) ∈ recPairs recs ↔
        tbl.get? a.key = some s ∧ ∃ n ∈ upperNbrs (adjacency edges) a.key, tbl.get? n = some t := by
  obtain ⟨own, hown⟩ := hown
  obtain ⟨ids, hids, hmem⟩ := lookupAll_ok tbl _ hall
  refine ⟨(chunks chunk (ids.mergeSort natLe)).map (own :: ·), by simp only [atomConectRecords, hown, hids], ?_, ?_⟩
  · intro r hr
    obtain ⟨c, hc, rfl⟩ := List.mem_map.mp hr
    exact ⟨own, c, rfl, (chunks_bounds chunk _ c hc).1⟩
  · intro s t
    rw [recPairs_chunks chunk hchunk, List.mem_mergeSort, hmem, hown]
    constructor
    · rintro ⟨rfl, h⟩; exact ⟨rfl, h⟩
    · rintro ⟨h, h'⟩; cases h; exact ⟨rfl, h'⟩

theorem atomsConectRecords_spec (chunk : Nat) (hchunk : chunk ≠ 0) (tbl : HashMap Int Nat)
    (edges : List (Int × Int)) : ∀ (atoms : List Atom),
    (∀ a ∈ atoms, ∃ s, tbl.get? a.key = some s) →
    (∀ a ∈ atoms, ∀ k ∈ upperNbrs (adjacency edges) a.key, ∃ s, tbl.get? k = some s) →
    ∃ recs, atomsConectRecords chunk tbl (adjacency edges) atoms = .ok recs ∧ goodRecs recs ∧
      ∀ s t, (s, t) ∈ recPairs recs ↔
        ∃ a ∈ atoms, tbl.get? a.key = some s ∧ ∃ n ∈ upperNbrs (adjacency edges) a.key, tbl.get? n = some t
  | [], _, _ => by
      refine ⟨[], rfl, ?_, ?_⟩
      · intro r hr; cases hr
      · intro s t; simp [recPairs]
  | a :: r, h1, h2 => by
      obtain ⟨x, hx, gx, px⟩ := atomConectRecords_spec chunk hchunk tbl edges a (h1 a (by simp)) (h2 a (by simp))
      obtain ⟨y, hy, gy, py⟩ := atomsConectRecords_spec chunk hchunk tbl edges r
        (fun b hb => h1 b (by simp [hb])) (fun b hb => h2 b (by simp [hb]))
      refine ⟨x ++ y, by simp only [atomsConectRecords, hx, hy], ?_, ?_⟩
      · intro rec hrec
        rcases List.mem_append.mp hrec with h | h
        · exact gx rec h
        · exact gy rec h
      · intro s t
        rw [recPairs_append, List.mem_append, px, py]
        constructor
        · rintro (h | ⟨b, hb, h⟩)
          · exact ⟨a, by simp, h⟩
          · exact ⟨b, by simp [hb], h⟩
        · rintro ⟨b, hb, h⟩
          rcases List.mem_cons.mp hb with rfl | hb
          · exact Or.inl h
          · exact Or.inr ⟨b, hb, h⟩

/-! ### reading the records back -/

/-- all serials of the records lie in `[lo, hi)` -/
def recsIn (recs : List (List Nat)) (lo hi : Nat) : Prop := ∀ r ∈ recs, ∀ s ∈ r, lo ≤ s ∧ s < hi

theorem singleConect_spec (tables : List (HashMap Int Nat)) (mi lo hi : Nat)
    (hfind : ∀ s, lo ≤ s → s < hi → findMol tables (s : Int) = some (mi, s - lo))
    (own : Nat) (c : List Nat) (hown : lo ≤ own ∧ own < hi) (hc : ∀ t ∈ c, lo ≤ t ∧ t < hi) :
    singleConect tables ((own :: c).map Int.ofNat) = .ok (c.map fun t => (mi, own - lo, t - lo)) := by
  simp only [List.map_cons, singleConect]
  have h0 : findMol tables (Int.ofNat own) = some (mi, own - lo) := hfind own hown.1 hown.2
  rw [h0]
  simp only []
  induction c with
  | nil => rfl
  | cons t c ih =>
    have ht := hc t (by simp)
    have hft : findMol tables (Int.ofNat t) = some (mi, t - lo) := hfind t ht.1 ht.2
    simp only [List.map_cons, List.foldr_cons]
    rw [ih (fun t' ht' => hc t' (by simp [ht']))]
    simp only [bind, Except.bind, pure, Except.pure, hft, if_true]

theorem doConect_append (L : PdbLayout) (tables : List (HashMap Int Nat)) : ∀ (a b : List (List Char)),
    doConect L tables (a ++ b) =
      match doConect L tables a with
      | .error e => .error e
      | .ok x => match doConect L tables b with
        | .error e => .error e
        | .ok y => .ok (x ++ y)
  | [], b => by
      simp only [List.nil_append, doConect]
      cases doConect L tables b <;> simp
  | l :: a, b => by
      simp only [List.cons_append, doConect, bind, Except.bind, pure, Except.pure]
      cases conectIds L l with
      | error e => rfl
      | ok ids =>
        simp only []
        cases singleConect tables ids with
        | error e => rfl
        | ok e1 =>
          simp only []
          rw [doConect_append L tables a b]
          cases doConect L tables a with
          | error e => rfl
          | ok x =>
            simp only []
            cases doConect L tables b with
            | error e => rfl
            | ok y => simp

/-- the records of one molecule are read back as bonds between the node indices -/
theorem doConect_recs (L : PdbLayout) (tables : List (HashMap Int Nat)) (mi lo hi : Nat)
    (hfind : ∀ s, lo ≤ s → s < hi → findMol tables (s : Int) = some (mi, s - lo))
    (hstart : L.conectPrefix.length = L.conectStart) (hwidth : L.conectNum.width = L.conectWidth)
    (hw : 1 ≤ L.conectWidth) (hty : L.conectNum.ty = .d) (hfill : L.conectNum.fill = ' ')
    (htr : L.conectNum.trunc = true) (halign : L.conectNum.leftAligned = false)
    (hhi : hi ≤ 10 ^ L.conectWidth) :
    ∀ (recs : List (List Nat)), goodRecs recs → recsIn recs lo hi →
      doConect L tables (recs.map (conectLine L)) =
        .ok ((recPairs recs).map fun p => (mi, p.1 - lo, p.2 - lo))
  | [], _, _ => rfl
  | r :: recs, hg, hin => by
      obtain ⟨own, c, rfl, _⟩ := hg r (by simp)
      have hr := hin (own :: c) (by simp)
      have hids := conectIds_conectLine L (own :: c) (by simp) hstart hwidth hw hty hfill htr halign
        (fun i hi' => Nat.lt_of_lt_of_le (hr i hi').2 hhi)
      have hs := singleConect_spec tables mi lo hi hfind own c (hr own (by simp)) (fun t ht => hr t (by simp [ht]))
      have ih := doConect_recs L tables mi lo hi hfind hstart hwidth hw hty hfill htr halign hhi recs
        (fun r' hr' => hg r' (by simp [hr'])) (fun r' hr' => hin r' (by simp [hr']))
      rw [List.map_cons] at hs
      simp only [List.map_cons, doConect, hids, bind, Except.bind, pure, Except.pure, ih]
      rw [hs]
      simp [recPairs]

/-! ### ranges -/

theorem atomConectRecords_in (chunk : Nat) (tbl : HashMap Int Nat) (adj : HashMap Int (List Int)) (a : Atom)
    (lo hi : Nat) (hrange : ∀ k s, tbl.get? k = some s → lo ≤ s ∧ s < hi) (recs : List (List Nat))
    (h : atomConectRecords chunk tbl adj a = .ok recs) : recsIn recs lo hi := by
  unfold atomConectRecords at h
  cases hown : tbl.get? a.key with
  | none => rw [hown] at h; cases h
  | some own =>
    rw [hown] at h
    simp only [] at h
    cases hl : lookupAll tbl (upperNbrs adj a.key) with
    | error e => rw [hl] at h; cases h
    | ok ids =>
      rw [hl] at h
      simp only [Except.ok.injEq] at h
      subst h
      have hids : ∀ s ∈ ids, lo ≤ s ∧ s < hi := by
        have : ∀ (l : List Int) (ids : List Nat), lookupAll tbl l = .ok ids → ∀ s ∈ ids, lo ≤ s ∧ s < hi := by
          intro l
          induction l with
          | nil => intro ids h s hs; simp only [lookupAll, Except.ok.injEq] at h; subst h; cases hs
          | cons k ks ih =>
            intro ids h s hs
            simp only [lookupAll] at h
            cases hk : tbl.get? k with
            | none => rw [hk] at h; cases h
            | some v =>
              rw [hk] at h
              simp only [] at h
              cases hr : lookupAll tbl ks with
              | error e => rw [hr] at h; cases h
              | ok r =>
                rw [hr] at h
                simp only [Except.ok.injEq] at h
                subst h
                rcases List.mem_cons.mp hs with rfl | hs
                · exact hrange k _ hk
                · exact ih r hr s hs
        exact this _ ids hl
      intro r hr s hs
      obtain ⟨c, hc, rfl⟩ := List.mem_map.mp hr
      rcases List.mem_cons.mp hs with rfl | hs
      · exact hrange _ _ hown
      · have hflat : s ∈ (chunks chunk (ids.mergeSort natLe)).flatten := List.mem_flatten.mpr ⟨c, hc, hs⟩
        by_cases hch : chunk = 0
        · rw [chunks_nil_of chunk _ (Or.inr hch)] at hc; cases hc
        · rw [chunks_flatten chunk _ hch, List.mem_mergeSort] at hflat
          exact hids s hflat

theorem atomsConectRecords_in (chunk : Nat) (tbl : HashMap Int Nat) (adj : HashMap Int (List Int))
    (lo hi : Nat) (hrange : ∀ k s, tbl.get? k = some s → lo ≤ s ∧ s < hi) :
    ∀ (atoms : List Atom) (recs : List (List Nat)), atomsConectRecords chunk tbl adj atoms = .ok recs →
      recsIn recs lo hi
  | [], recs, h => by
      simp only [atomsConectRecords, Except.ok.injEq] at h; subst h
      intro r hr; cases hr
  | a :: rest, recs, h => by
      simp only [atomsConectRecords] at h
      cases hx : atomConectRecords chunk tbl adj a with
      | error e => rw [hx] at h; cases h
      | ok x =>
        rw [hx] at h
        simp only [] at h
        cases hy : atomsConectRecords chunk tbl adj rest with
        | error e => rw [hy] at h; cases h
        | ok y =>
          rw [hy] at h
          simp only [Except.ok.injEq] at h
          subst h
          intro r hr
          rcases List.mem_append.mp hr with hr | hr
          · exact atomConectRecords_in chunk tbl adj a lo hi hrange x hx r hr
          · exact atomsConectRecords_in chunk tbl adj lo hi hrange rest y hy r hr

theorem idxIn_lt (l : List Int) (k : Int) (i : Nat) (h : idxIn l k = some i) : i < l.length := by
  have := idxIn_some_iff l k i h
  exact (List.getElem?_eq_some_iff.mp this).1

/-! ### one molecule -/

/-- keys are distinct and every bond joins two nodes of the molecule -/
def graphOk (m : Mol) : Prop :=
  (m.atoms.map (·.key)).Nodup ∧ ∀ e ∈ m.edges, e.1 ∈ m.atoms.map (·.key) ∧ e.2 ∈ m.atoms.map (·.key)

/-- there is a bond between the nodes at positions `i` and `j` of the written order, `i` being the
end with the lower key -/
def EdgeUp (m : Mol) (i j : Nat) : Prop :=
  ∃ u v, ((u, v) ∈ m.edges ∨ (v, u) ∈ m.edges) ∧ u < v ∧
    idxIn ((sortedNodes m).map (·.key)) u = some i ∧ idxIn ((sortedNodes m).map (·.key)) v = some j

theorem sortedNodes_keys_perm (m : Mol) : ((sortedNodes m).map (·.key)).Perm (m.atoms.map (·.key)) :=
  (List.mergeSort_perm m.atoms atomidLe).map _

theorem molConectRecords_spec (L : PdbLayout) (hchunk : L.conectChunk ≠ 0) (start : Nat) (m : Mol) (hg : graphOk m) :
    ∃ recs, molConectRecords L start m = .ok recs ∧ goodRecs recs ∧
      recsIn recs start (start + (sortedNodes m).length) ∧
      ∀ s t, (s, t) ∈ recPairs recs ↔ ∃ i j, EdgeUp m i j ∧ s = start + i ∧ t = start + j := by
  have hperm := sortedNodes_keys_perm m
  have hnd : ((sortedNodes m).map (·.key)).Nodup := hperm.nodup_iff.mpr hg.1
  have hmem : ∀ k, k ∈ (sortedNodes m).map (·.key) ↔ k ∈ m.atoms.map (·.key) := fun k => hperm.mem_iff
  have hget := fun k => serialTable_get? start (sortedNodes m) k hnd
  have hsome : ∀ k, k ∈ m.atoms.map (·.key) → ∃ s, (serialTable start (sortedNodes m)).get? k = some s := by
    intro k hk
    obtain ⟨i, hi⟩ := idxIn_of_mem _ k ((hmem k).mpr hk)
    exact ⟨start + i, by rw [hget, hi]; rfl⟩
  have hnb : ∀ a ∈ m.atoms, ∀ k ∈ upperNbrs (adjacency m.edges) a.key, k ∈ m.atoms.map (·.key) := by
    intro a _ k hk
    rcases ((upperNbrs_mem m.edges a.key k).mp hk).1 with h | h
    · exact (hg.2 _ h).2
    · exact (hg.2 _ h).1
  obtain ⟨recs, hrecs, hgood, hpairs⟩ := atomsConectRecords_spec L.conectChunk hchunk
    (serialTable start (sortedNodes m)) m.edges m.atoms
    (fun a ha => hsome a.key (List.mem_map_of_mem (f := (·.key)) ha))
    (fun a ha k hk => hsome k (hnb a ha k hk))
  have hrange : ∀ k s, (serialTable start (sortedNodes m)).get? k = some s →
      start ≤ s ∧ s < start + (sortedNodes m).length := by
    intro k s hs
    rw [hget] at hs
    cases hi : idxIn ((sortedNodes m).map (·.key)) k with
    | none => rw [hi] at hs; cases hs
    | some i =>
      rw [hi] at hs
      simp only [Option.map_some, Option.some.injEq] at hs
      have := idxIn_lt _ _ _ hi
      simp only [List.length_map] at this
      omega
  refine ⟨recs, hrecs, hgood, atomsConectRecords_in _ _ _ _ _ hrange m.atoms recs hrecs, ?_⟩
  intro s t
  rw [hpairs]
  constructor
  · rintro ⟨a, ha, hs, n, hn, ht⟩
    rw [hget] at hs ht
    obtain ⟨hedge, hlt⟩ := (upperNbrs_mem m.edges a.key n).mp hn
    cases hi : idxIn ((sortedNodes m).map (·.key)) a.key with
    | none => rw [hi] at hs; cases hs
    | some i =>
      cases hj : idxIn ((sortedNodes m).map (·.key)) n with
      | none => rw [hj] at ht; cases ht
      | some j =>
        rw [hi] at hs; rw [hj] at ht
        simp only [Option.map_some, Option.some.injEq] at hs ht
        exact ⟨i, j, ⟨a.key, n, hedge, hlt, hi, hj⟩, hs.symm, ht.symm⟩
  · rintro ⟨i, j, ⟨u, v, hedge, hlt, hi, hj⟩, rfl, rfl⟩
    have hu : u ∈ m.atoms.map (·.key) := by
      rcases hedge with h | h
      · exact (hg.2 _ h).1
      · exact (hg.2 _ h).2
    obtain ⟨a, ha, rfl⟩ := List.mem_map.mp hu
    refine ⟨a, ha, by rw [hget, hi]; rfl, v, (upperNbrs_mem m.edges a.key v).mpr ⟨hedge, hlt⟩, by rw [hget, hj]; rfl⟩

/-! ### serial → (molecule, node index) -/

theorem idxIn_range' : ∀ (n start t : Nat),
    idxIn ((List.range' start n).map Int.ofNat) (t : Int) =
      if start ≤ t ∧ t < start + n then some (t - start) else none
  | 0, start, t => by
      have : ¬ (start ≤ t ∧ t < start + 0) := by omega
      simp [idxIn, this]
  | n + 1, start, t => by
      simp only [List.range'_succ, List.map_cons, idxIn]
      by_cases h : start = t
      · subst h; simp
      · have hne : ¬ Int.ofNat start = (t : Int) := by
          intro he; exact h (Int.ofNat.inj he)
        simp only [hne, if_false, idxIn_range' n (start + 1) t]
        by_cases h2 : start + 1 ≤ t ∧ t < start + 1 + n
        · have h3 : start ≤ t ∧ t < start + (n + 1) := by omega
          simp only [h2, h3, and_self, if_true, Option.map_some, Option.some.injEq]
          omega
        · have h3 : ¬ (start ≤ t ∧ t < start + (n + 1)) := by omega
          simp [h2, h3]

theorem nodup_range'_int : ∀ (n start : Nat), ((List.range' start n).map Int.ofNat).Nodup
  | 0, _ => by simp
  | n + 1, start => by
      simp only [List.range'_succ, List.map_cons, List.nodup_cons]
      refine ⟨?_, nodup_range'_int n (start + 1)⟩
      intro hmem
      obtain ⟨y, hy, heq⟩ := List.mem_map.mp hmem
      have := Int.ofNat.inj heq
      have h2 := (List.mem_range'_1.mp hy).1
      omega

theorem molPAtoms_ids (f : Nat → Atom → PAtom) (hf : ∀ s a, (f s a).atomid = (s : Int)) :
    ∀ (l : List Atom) (start : Nat),
      (molPAtoms f start l).map (·.atomid) = (List.range' start l.length).map Int.ofNat
  | [], _ => rfl
  | a :: r, start => by
      simp only [molPAtoms, List.map_cons, List.length_cons, List.range'_succ, hf, molPAtoms_ids f hf r (start + 1)]
      rfl

theorem molPAtoms_length (f : Nat → Atom → PAtom) : ∀ (l : List Atom) (start : Nat),
    (molPAtoms f start l).length = l.length
  | [], _ => rfl
  | _ :: r, start => by simp [molPAtoms, molPAtoms_length f r (start + 1)]

theorem idTable_molPAtoms_get? (f : Nat → Atom → PAtom) (hf : ∀ s a, (f s a).atomid = (s : Int))
    (l : List Atom) (start t : Nat) :
    (idTable (molPAtoms f start l)).get? (t : Int) =
      if start ≤ t ∧ t < start + l.length then some (t - start) else none := by
  rw [idTable_eq, molPAtoms_ids f hf, insertAll_get? _ _ _ _ (nodup_range'_int _ _), idxIn_range']
  by_cases h : start ≤ t ∧ t < start + l.length <;> simp [h]

/-- first serial of the `k`-th molecule -/
def startOf (start : Nat) : List Mol → Nat → Nat
  | [], _ => start
  | _ :: _, 0 => start
  | m :: ms, k + 1 => startOf (start + (sortedNodes m).length + 1) ms k

/-- the serial after the last TER record -/
def serialEnd (start : Nat) : List Mol → Nat
  | [] => start
  | m :: ms => serialEnd (start + (sortedNodes m).length + 1) ms

theorem startOf_ge : ∀ (sys : List Mol) (start k : Nat), start ≤ startOf start sys k
  | [], _, _ => by simp [startOf]
  | _ :: _, _, 0 => Nat.le_refl _
  | m :: ms, start, k + 1 => by
      have := startOf_ge ms (start + (sortedNodes m).length + 1) k
      simp only [startOf]; omega

theorem serialEnd_ge : ∀ (sys : List Mol) (start : Nat), start ≤ serialEnd start sys
  | [], _ => Nat.le_refl _
  | m :: ms, start => by
      have := serialEnd_ge ms (start + (sortedNodes m).length + 1)
      simp only [serialEnd]; omega

theorem findMol_go_cons (id : Int) (mi : Nat) (tb : HashMap Int Nat) (r : List (HashMap Int Nat)) :
    findMol.go id mi (tb :: r) = match tb.get? id with
      | some i => some (mi, i)
      | none => findMol.go id (mi + 1) r := by
  rfl

/-- a serial of the `k`-th molecule is found in that molecule, at its position in the written order -/
theorem findMol_go_spec (f : Nat → Atom → PAtom) (hf : ∀ s a, (f s a).atomid = (s : Int)) :
    ∀ (k : Nat) (sys : List Mol) (start mi0 t : Nat) (m : Mol), sys[k]? = some m →
      startOf start sys k ≤ t → t < startOf start sys k + (sortedNodes m).length →
      findMol.go (t : Int) mi0 ((expectedMols f start sys).map idTable) = some (mi0 + k, t - startOf start sys k)
  | 0, [], _, _, _, _, h, _, _ => by cases h
  | 0, m0 :: ms, start, mi0, t, m, h, h1, h2 => by
      simp only [List.getElem?_cons_zero, Option.some.injEq] at h
      subst h
      simp only [startOf] at h1 h2 ⊢
      simp only [expectedMols, List.map_cons, findMol_go_cons, idTable_molPAtoms_get? f hf]
      have : start ≤ t ∧ t < start + (sortedNodes m0).length := ⟨h1, h2⟩
      simp [this]
  | k + 1, [], _, _, _, _, h, _, _ => by cases h
  | k + 1, m0 :: ms, start, mi0, t, m, h, h1, h2 => by
      simp only [List.getElem?_cons_succ] at h
      simp only [startOf] at h1 h2 ⊢
      have hge := startOf_ge ms (start + (sortedNodes m0).length + 1) k
      simp only [expectedMols, List.map_cons, findMol_go_cons, idTable_molPAtoms_get? f hf]
      have : ¬ (start ≤ t ∧ t < start + (sortedNodes m0).length) := by omega
      simp only [this, if_false]
      rw [findMol_go_spec f hf k ms (start + (sortedNodes m0).length + 1) (mi0 + 1) t m h h1 h2]
      congr 2; omega

/-! ### the whole system -/

theorem conect_sys (L : PdbLayout) (tables : List (HashMap Int Nat))
    (hchunk : L.conectChunk ≠ 0)
    (hstart : L.conectPrefix.length = L.conectStart) (hwidth : L.conectNum.width = L.conectWidth)
    (hw : 1 ≤ L.conectWidth) (hty : L.conectNum.ty = .d) (hfill : L.conectNum.fill = ' ')
    (htr : L.conectNum.trunc = true) (halign : L.conectNum.leftAligned = false) :
    ∀ (sys : List Mol) (start k0 : Nat), (∀ m ∈ sys, graphOk m) → serialEnd start sys ≤ 10 ^ L.conectWidth →
      (∀ k m, sys[k]? = some m → ∀ t, startOf start sys k ≤ t → t < startOf start sys k + (sortedNodes m).length →
        findMol tables (t : Int) = some (k0 + k, t - startOf start sys k)) →
      ∃ recs bonds, conectRecords L start sys = .ok recs ∧ goodRecs recs ∧
        (∀ r ∈ recs, ∀ s ∈ r, s < 10 ^ L.conectWidth) ∧
        doConect L tables (recs.map (conectLine L)) = .ok bonds ∧
        ∀ mi i j, (mi, i, j) ∈ bonds ↔ ∃ k m, sys[k]? = some m ∧ mi = k0 + k ∧ EdgeUp m i j
  | [], _, _, _, _, _ => by
      refine ⟨[], [], rfl, ?_, ?_, rfl, ?_⟩
      · intro r hr; cases hr
      · intro r hr; cases hr
      · intro mi i j; simp
  | m :: ms, start, k0, hg, hend, hfind => by
      obtain ⟨ra, hra, hgood, hin, hpairs⟩ := molConectRecords_spec L hchunk start m (hg m (by simp))
      have hhi : start + (sortedNodes m).length ≤ 10 ^ L.conectWidth := by
        have := serialEnd_ge ms (start + (sortedNodes m).length + 1)
        simp only [serialEnd] at hend; omega
      have hf0 : ∀ s, start ≤ s → s < start + (sortedNodes m).length →
          findMol tables (s : Int) = some (k0, s - start) := by
        intro s h1 h2
        have := hfind 0 m rfl s (by simpa [startOf] using h1) (by simpa [startOf] using h2)
        simpa [startOf] using this
      have hda := doConect_recs L tables k0 start (start + (sortedNodes m).length) hf0 hstart hwidth hw hty hfill
        htr halign hhi ra hgood hin
      obtain ⟨rb, bb, hrb, hgb, hlb, hdb, hbb⟩ := conect_sys L tables hchunk hstart hwidth hw hty hfill htr halign ms
        (start + (sortedNodes m).length + 1) (k0 + 1) (fun m' hm' => hg m' (by simp [hm']))
        (by simpa [serialEnd] using hend)
        (by
          intro k m' hk t h1 h2
          have := hfind (k + 1) m' (by simpa using hk) t (by simpa [startOf] using h1) (by simpa [startOf] using h2)
          simp only [startOf] at this
          rw [this]; congr 2; omega)
      refine ⟨ra ++ rb, (recPairs ra).map (fun p => (k0, p.1 - start, p.2 - start)) ++ bb,
        by simp only [conectRecords, hra, hrb], ?_, ?_, ?_, ?_⟩
      · intro r hr
        rcases List.mem_append.mp hr with h | h
        · exact hgood r h
        · exact hgb r h
      · intro r hr s hs
        rcases List.mem_append.mp hr with h | h
        · exact Nat.lt_of_lt_of_le (hin r h s hs).2 hhi
        · exact hlb r h s hs
      · rw [List.map_append, doConect_append, hda, hdb]
      · intro mi i j
        rw [List.mem_append, hbb]
        constructor
        · rintro (h | ⟨k, m', hk, rfl, he⟩)
          · obtain ⟨p, hp, heq⟩ := List.mem_map.mp h
            obtain ⟨s, t⟩ := p
            obtain ⟨i', j', he, rfl, rfl⟩ := (hpairs s t).mp hp
            simp only [Prod.mk.injEq] at heq
            obtain ⟨rfl, rfl, rfl⟩ := heq
            refine ⟨0, m, rfl, rfl, ?_⟩
            simpa using he
          · exact ⟨k + 1, m', by simpa using hk, by omega, he⟩
        · rintro ⟨k, m', hk, rfl, he⟩
          cases k with
          | zero =>
            simp only [List.getElem?_cons_zero, Option.some.injEq] at hk
            subst hk
            left
            refine List.mem_map.mpr ⟨(start + i, start + j), (hpairs _ _).mpr ⟨i, j, he, rfl, rfl⟩, ?_⟩
            simp
          | succ k =>
            right
            exact ⟨k, m', by simpa using hk, by omega, he⟩

/-! ### a CONECT line is stored as it is -/

theorem stripR_conectLine (L : PdbLayout) (ids : List Nat) (hne : ids ≠ [])
    (hwidth : L.conectNum.width = L.conectWidth) (hw : 1 ≤ L.conectWidth) (hty : L.conectNum.ty = .d)
    (hfill : L.conectNum.fill = ' ') (halign : L.conectNum.leftAligned = false)
    (hfit : ∀ i ∈ ids, i < 10 ^ L.conectWidth) : stripR (conectLine L ids) = conectLine L ids := by
  obtain ⟨init, last, hil⟩ : ∃ init last, ids = init ++ [last] :=
    ⟨ids.dropLast, ids.getLast hne, (List.dropLast_concat_getLast hne).symm⟩
  have hlast : last ∈ ids := by rw [hil]; simp
  obtain ⟨di, c, hdc, hc⟩ := natDigits_snoc last
  have hbody : fieldBody L.conectNum (.int (last : Int)) = natDigits last := by
    unfold fieldBody; rw [hty]; exact intRepr_nat last
  have hfits : (fieldBody L.conectNum (.int (last : Int))).length ≤ L.conectNum.width := by
    rw [hbody, hwidth]; exact natDigits_length_le _ last (hfit last hlast) hw
  have hfl : renderField L.conectNum (.int (last : Int)) =
      (List.replicate (L.conectNum.width - (natDigits last).length) ' ' ++ di) ++ [c] := by
    rw [renderField_of_fits _ _ hfits, hbody]
    unfold padded
    rw [halign, hfill, hdc]
    simp
  unfold conectLine
  rw [hil, List.flatMap_append, List.flatMap_cons, List.flatMap_nil, List.append_nil, hfl,
    ← List.append_assoc, ← List.append_assoc]
  exact stripR_snoc _ c hc

theorem conectLine_all_ne (L : PdbLayout) (ch : Char) (hd : isDigit ch = false) (hm : ch ≠ '-')
    (hpre : L.conectPrefix.all (· ≠ ch) = true) (hfillc : L.conectNum.fill ≠ ch) (hty : L.conectNum.ty = .d)
    (ids : List Nat) : (conectLine L ids).all (· ≠ ch) = true := by
  unfold conectLine
  rw [List.all_append, hpre, Bool.true_and, List.all_eq_true]
  intro x hx
  obtain ⟨i, _, hxi⟩ := List.mem_flatMap.mp hx
  have hb : fieldBody L.conectNum (.int (i : Int)) = intRepr (i : Int) := by unfold fieldBody; rw [hty]
  have := renderField_all (· ≠ ch) L.conectNum (.int (i : Int)) (by simpa using hfillc)
    (by rw [hb]; exact intRepr_all_ne ch hd hm _)
  exact List.all_eq_true.mp this x hxi

/-- a CONECT line of the writer is recognised as such and stored unchanged -/
theorem reads_as_conect (L : PdbLayout) (excl : List (List Char)) (ignh : Bool) (q X : List Char)
    (hlen : q.length = 6) (hq : strip q = q) (hqL : stripL q = q) (hqne : q ≠ [])
    (hkind : classify q = .conect) (hhash : (q ++ X).all (· ≠ '#') = true)
    (hR : stripR (q ++ X) = q ++ X) : ReadsAsConect L excl ignh (q ++ X) := by
  intro st
  have hhash' : (q ++ []).all (· ≠ '#') = true := by
    rw [List.all_append, Bool.and_eq_true] at hhash; simpa using hhash.1
  obtain ⟨hne, hname⟩ := record_name q [] X (by simpa using hlen) hq hqL hqne rfl hhash'
  simp only [List.append_nil] at hne hname
  have hc : classify (decomment (q ++ X)) = .conect := by
    rw [← hkind]
    unfold classify
    rw [hname, List.take_of_length_le (by omega), hq]
  have hd : decomment (q ++ X) = q ++ X := by
    unfold decomment
    have := takeWhile_append_of_all (p := fun c => decide (c ≠ '#')) (q ++ X) [] (by simpa using hhash)
    simp only [List.append_nil, List.takeWhile_nil] at this
    rw [this]
    unfold strip
    rw [stripL_append_of q X hqL hqne, hR]
  rw [hd] at hne hc
  unfold pdbStep
  simp only [hd, hne, if_false, hc]

end C16
