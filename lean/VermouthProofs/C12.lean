import VermouthModel.C12
/-! Helper lemmas for C12, part 1: the invariant and its preservation by every operation except
`merge` and `Block.toMolecule` (parts `C12_Merge`, `C12_Block`).  Core Lean only. -/
namespace C12

/-! ### The invariant -/

/-- structural part: keys distinct, edge end points and interaction atoms are nodes -/
def Mol.Wf (m : Mol) : Prop :=
  m.keys.Nodup ∧ (∀ e ∈ m.edges, e.1 ∈ m.keys ∧ e.2 ∈ m.keys) ∧
  (∀ ti ∈ m.inters, ∀ a ∈ ti.2.atoms, a ∈ m.keys)

/-- cache validity: on a non-empty molecule a cached highest key IS the highest key.
(`merge_molecule` on two empty molecules leaves `max_node = 0` on an empty molecule; harmless,
because merge tests emptiness before it reads the cache.) -/
def Mol.CacheOk (m : Mol) : Prop :=
  m.nodes ≠ [] → ∀ k, m.maxNode = some k → maxKey m.keys = some k

def Mol.Inv (m : Mol) : Prop := m.Wf ∧ m.CacheOk

def PoolInv (p : Pool) : Prop := ∀ m ∈ p, m.Inv

/-- every attribute dict of the bond table belongs to a bond that exists (so a bond that was
removed and is added again starts with an empty attribute dict) -/
def Mol.EaOk (m : Mol) : Prop := ∀ x ∈ m.eattr, m.hasEdge x.1.1 x.1.2 = true

/-- the extended invariant of the extension round: `Inv` plus the bond attribute table -/
def Mol.InvE (m : Mol) : Prop := m.Inv ∧ m.EaOk

def PoolInvE (p : Pool) : Prop := ∀ m ∈ p, m.InvE

theorem Mol.cacheOk_iff (m : Mol) :
    m.CacheOk ↔ (m.nodes ≠ [] → m.maxNode = none ∨ m.maxNode = maxKey m.keys) := by
  unfold Mol.CacheOk
  constructor
  · intro h hne
    cases hm : m.maxNode with
    | none => exact Or.inl rfl
    | some k => exact Or.inr (h hne k hm).symm
  · intro h hne k hk
    rcases h hne with h1 | h1
    · rw [h1] at hk; cases hk
    · rw [← h1, hk]

instance (m : Mol) : Decidable m.Wf := by unfold Mol.Wf; exact inferInstance
instance (m : Mol) : Decidable m.CacheOk := decidable_of_iff _ (Mol.cacheOk_iff m).symm
instance (m : Mol) : Decidable m.Inv := by unfold Mol.Inv; exact inferInstance
instance (p : Pool) : Decidable (PoolInv p) := by unfold PoolInv; exact inferInstance
instance (m : Mol) : Decidable m.EaOk := by unfold Mol.EaOk; exact inferInstance
instance (m : Mol) : Decidable m.InvE := by unfold Mol.InvE; exact inferInstance
instance (p : Pool) : Decidable (PoolInvE p) := by unfold PoolInvE; exact inferInstance

theorem mem_keys_iff (m : Mol) (k : Int) : m.hasNode k = true ↔ k ∈ m.keys := by
  simp [Mol.hasNode]

/-! ### maxKey -/

theorem foldl_max_spec (rest : List Int) (k : Int) :
    k ≤ rest.foldl max k ∧ (∀ x ∈ rest, x ≤ rest.foldl max k) ∧
    (rest.foldl max k = k ∨ rest.foldl max k ∈ rest) := by
  induction rest generalizing k with
  | nil => simp
  | cons y t ih =>
    simp only [List.foldl_cons]
    obtain ⟨h1, h2, h3⟩ := ih (max k y)
    refine ⟨by omega, ?_, ?_⟩
    · intro x hx
      rcases List.mem_cons.mp hx with rfl | hx
      · omega
      · exact h2 x hx
    · rcases h3 with h3 | h3
      · by_cases hky : k ≤ y
        · right; rw [h3]; simp; omega
        · left; rw [h3]; omega
      · right; exact List.mem_cons_of_mem _ h3

theorem maxKey_eq_some_iff (l : List Int) (k : Int) :
    maxKey l = some k ↔ k ∈ l ∧ ∀ x ∈ l, x ≤ k := by
  cases l with
  | nil => simp [maxKey]
  | cons y t =>
    obtain ⟨h1, h2, h3⟩ := foldl_max_spec t y
    simp only [maxKey, Option.some.injEq]
    constructor
    · rintro rfl
      refine ⟨?_, ?_⟩
      · rcases h3 with h3 | h3
        · rw [h3]; exact List.mem_cons_self
        · exact List.mem_cons_of_mem _ h3
      · intro x hx
        rcases List.mem_cons.mp hx with rfl | hx
        · exact h1
        · exact h2 x hx
    · rintro ⟨hk, hle⟩
      have ha : t.foldl max y ≤ k := by
        apply hle
        rcases h3 with h3 | h3
        · rw [h3]; exact List.mem_cons_self
        · exact List.mem_cons_of_mem _ h3
      have hb : k ≤ t.foldl max y := by
        rcases List.mem_cons.mp hk with rfl | hk
        · exact h1
        · exact h2 k hk
      omega

theorem maxKey_isSome (l : List Int) (h : l ≠ []) : ∃ k, maxKey l = some k := by
  cases l with
  | nil => exact absurd rfl h
  | cons y t => exact ⟨_, rfl⟩

/-! ### upsert -/

theorem upsert_keys (ns : List (Int × Attrs)) (k : Int) (a : Attrs) :
    (upsert ns k a).map Prod.fst =
      if k ∈ ns.map Prod.fst then ns.map Prod.fst else ns.map Prod.fst ++ [k] := by
  induction ns with
  | nil => simp [upsert]
  | cons p t ih =>
    obtain ⟨k', a'⟩ := p
    unfold upsert
    by_cases h : k' = k
    · subst h; simp
    · have h' : ¬ k = k' := fun e => h e.symm
      simp only [if_neg h, List.map_cons, ih, List.mem_cons, h', false_or]
      split <;> simp

theorem upsert_fresh (ns : List (Int × Attrs)) (k : Int) (a : Attrs) (h : k ∉ ns.map Prod.fst) :
    upsert ns k a = ns ++ [(k, a)] := by
  induction ns with
  | nil => simp [upsert]
  | cons p t ih =>
    obtain ⟨k', a'⟩ := p
    simp only [List.map_cons, List.mem_cons, not_or] at h
    unfold upsert
    have h' : ¬ k' = k := fun e => h.1 e.symm
    simp only [if_neg h', ih h.2, List.cons_append]

theorem upsert_mem_keys (ns : List (Int × Attrs)) (k : Int) (a : Attrs) (x : Int) :
    x ∈ (upsert ns k a).map Prod.fst ↔ x ∈ ns.map Prod.fst ∨ x = k := by
  rw [upsert_keys]
  split
  · constructor
    · exact Or.inl
    · rintro (h | rfl)
      · exact h
      · assumption
  · simp

theorem upsert_nodup (ns : List (Int × Attrs)) (k : Int) (a : Attrs) (h : (ns.map Prod.fst).Nodup) :
    ((upsert ns k a).map Prod.fst).Nodup := by
  rw [upsert_keys]
  split
  · exact h
  · rename_i hk
    rw [List.nodup_append]
    refine ⟨h, by simp, ?_⟩
    intro x hx y hy
    simp only [List.mem_singleton] at hy
    subst hy
    intro e; subst e; exact hk hx

theorem foldl_upsert_nodup (l : List (Int × Attrs)) (ns : List (Int × Attrs))
    (h : (ns.map Prod.fst).Nodup) :
    ((l.foldl (fun ns p => upsert ns p.1 p.2) ns).map Prod.fst).Nodup := by
  induction l generalizing ns with
  | nil => exact h
  | cons p t ih => exact ih _ (upsert_nodup _ _ _ h)

theorem foldl_upsert_mem (l : List (Int × Attrs)) (ns : List (Int × Attrs)) (x : Int) :
    x ∈ (l.foldl (fun ns p => upsert ns p.1 p.2) ns).map Prod.fst ↔
      x ∈ ns.map Prod.fst ∨ x ∈ l.map Prod.fst := by
  induction l generalizing ns with
  | nil => simp
  | cons p t ih =>
    simp only [List.foldl_cons, ih, upsert_mem_keys, List.map_cons, List.mem_cons]
    constructor
    · rintro ((h | h) | h)
      · exact Or.inl h
      · exact Or.inr (Or.inl h)
      · exact Or.inr (Or.inr h)
    · rintro (h | h | h)
      · exact Or.inl (Or.inl h)
      · exact Or.inl (Or.inr h)
      · exact Or.inr h

theorem foldl_upsert_fresh (l : List (Int × Attrs)) (ns : List (Int × Attrs))
    (hnd : (l.map Prod.fst).Nodup) (hfr : ∀ x ∈ l.map Prod.fst, x ∉ ns.map Prod.fst) :
    l.foldl (fun ns p => upsert ns p.1 p.2) ns = ns ++ l := by
  induction l generalizing ns with
  | nil => simp
  | cons p t ih =>
    simp only [List.map_cons, List.nodup_cons] at hnd
    simp only [List.foldl_cons]
    rw [upsert_fresh ns p.1 p.2 (hfr p.1 (by simp))]
    rw [ih _ hnd.2]
    · simp
    · intro x hx
      simp only [List.map_append, List.map_cons, List.map_nil, List.mem_append, List.mem_singleton,
        not_or]
      refine ⟨hfr x (by simp [hx]), ?_⟩
      intro e; subst e; exact hnd.1 hx

/-! ### Inv of the single-molecule operations -/

theorem Mol.inv_of_wf_none {m : Mol} (h : m.Wf) (hc : m.maxNode = none) : m.Inv :=
  ⟨h, fun _ k hk => by rw [hc] at hk; cases hk⟩

/-- growing the node table keeps edges and interactions inside it -/
theorem Mol.wf_grow {m : Mol} (h : m.Wf) (ns : List (Int × Attrs)) (mx : Option Int)
    (hnd : (ns.map Prod.fst).Nodup) (hsub : ∀ x ∈ m.keys, x ∈ ns.map Prod.fst) :
    ({ m with nodes := ns, maxNode := mx } : Mol).Wf := by
  obtain ⟨_, h2, h3⟩ := h
  refine ⟨hnd, ?_, ?_⟩
  · intro e he; exact ⟨hsub _ (h2 e he).1, hsub _ (h2 e he).2⟩
  · intro ti hti a ha; exact hsub _ (h3 ti hti a ha)

theorem addNode_inv {m : Mol} (h : m.Inv) (k : Int) (a : Attrs) : (m.addNode k a).Inv := by
  apply Mol.inv_of_wf_none _ rfl
  unfold Mol.addNode
  apply Mol.wf_grow h.1
  · exact upsert_nodup _ _ _ h.1.1
  · intro x hx; exact (upsert_mem_keys _ _ _ _).mpr (Or.inl hx)

theorem addNodes_inv {m : Mol} (h : m.Inv) (l : List (Int × Attrs)) : (m.addNodes l).Inv := by
  apply Mol.inv_of_wf_none _ rfl
  unfold Mol.addNodes
  apply Mol.wf_grow h.1
  · exact foldl_upsert_nodup _ _ h.1.1
  · intro x hx; exact (foldl_upsert_mem _ _ _).mpr (Or.inl hx)

theorem dropNodes_keys (m : Mol) (ks : List Int) :
    (m.dropNodes ks).keys = m.keys.filter (fun k => !ks.contains k) := by
  simp only [Mol.dropNodes, Mol.keys, List.filter_map]
  rfl

theorem interMentions_false_iff (ks : List Int) (i : Inter) :
    interMentions ks i = false ↔ ∀ a ∈ i.atoms, a ∉ ks := by
  simp [interMentions]

theorem dropNodes_inv {m : Mol} (h : m.Inv) (ks : List Int) : (m.dropNodes ks).Inv := by
  apply Mol.inv_of_wf_none _ rfl
  obtain ⟨⟨h1, h2, h3⟩, _⟩ := h
  refine ⟨?_, ?_, ?_⟩
  · rw [dropNodes_keys]; exact List.Nodup.sublist List.filter_sublist h1
  · intro e he
    rw [dropNodes_keys]
    simp only [Mol.dropNodes, List.mem_filter, Bool.and_eq_true, Bool.not_eq_true',
      List.contains_eq_mem, decide_eq_false_iff_not] at he
    simp only [List.mem_filter, Bool.not_eq_true', List.contains_eq_mem, decide_eq_false_iff_not]
    exact ⟨⟨(h2 e he.1).1, he.2.1⟩, ⟨(h2 e he.1).2, he.2.2⟩⟩
  · intro ti hti a ha
    rw [dropNodes_keys]
    simp only [Mol.dropNodes, List.mem_filter, Bool.not_eq_true'] at hti
    have := (interMentions_false_iff ks ti.2).mp hti.2 a ha
    simp only [List.mem_filter, Bool.not_eq_true', List.contains_eq_mem, decide_eq_false_iff_not]
    exact ⟨h3 ti hti.1 a ha, this⟩

/-- `add_edge` creates a missing end point with empty attributes -/
def Mol.ensure (m : Mol) (u : Int) : Mol :=
  if m.hasNode u then m else { m with nodes := m.nodes ++ [(u, {})], maxNode := none }

theorem addEdge_eq (m : Mol) (u v : Int) :
    m.addEdge u v =
      (if ((m.ensure u).ensure v).hasEdge u v then (m.ensure u).ensure v
       else { (m.ensure u).ensure v with edges := ((m.ensure u).ensure v).edges ++ [(u, v)] }) := rfl

theorem ensure_of_mem (m : Mol) (u : Int) (h : u ∈ m.keys) : m.ensure u = m := by
  unfold Mol.ensure; rw [if_pos ((mem_keys_iff m u).mpr h)]

theorem ensure_keys (m : Mol) (u : Int) :
    (m.ensure u).keys = if u ∈ m.keys then m.keys else m.keys ++ [u] := by
  unfold Mol.ensure
  by_cases h : u ∈ m.keys
  · rw [if_pos ((mem_keys_iff m u).mpr h), if_pos h]
  · rw [if_neg (fun e => h ((mem_keys_iff m u).mp e)), if_neg h]; simp [Mol.keys]

theorem ensure_mem (m : Mol) (u x : Int) : x ∈ (m.ensure u).keys ↔ x ∈ m.keys ∨ x = u := by
  rw [ensure_keys]; split
  · constructor
    · exact Or.inl
    · rintro (h | rfl)
      · exact h
      · assumption
  · simp

theorem ensure_edges (m : Mol) (u : Int) : (m.ensure u).edges = m.edges := by
  unfold Mol.ensure; split <;> rfl
theorem ensure_inters (m : Mol) (u : Int) : (m.ensure u).inters = m.inters := by
  unfold Mol.ensure; split <;> rfl
theorem ensure_cites (m : Mol) (u : Int) : (m.ensure u).cites = m.cites := by
  unfold Mol.ensure; split <;> rfl
theorem ensure_nrexcl (m : Mol) (u : Int) : (m.ensure u).nrexcl = m.nrexcl := by
  unfold Mol.ensure; split <;> rfl

theorem ensure_inv {m : Mol} (h : m.Inv) (u : Int) : (m.ensure u).Inv := by
  by_cases hu : u ∈ m.keys
  · rw [ensure_of_mem m u hu]; exact h
  · have hb : ¬ m.hasNode u = true := fun e => hu ((mem_keys_iff m u).mp e)
    unfold Mol.ensure; rw [if_neg hb]
    apply Mol.inv_of_wf_none _ rfl
    apply Mol.wf_grow h.1
    · have := upsert_nodup m.nodes u {} h.1.1
      rw [upsert_fresh m.nodes u {} hu] at this; exact this
    · intro x hx; simp only [List.map_append, List.mem_append]; exact Or.inl hx

theorem addEdge_keys_mem (m : Mol) (u v x : Int) :
    x ∈ (m.addEdge u v).keys ↔ x ∈ m.keys ∨ x = u ∨ x = v := by
  have : (m.addEdge u v).keys = ((m.ensure u).ensure v).keys := by
    rw [addEdge_eq]; split <;> rfl
  rw [this, ensure_mem, ensure_mem, or_assoc]

theorem addEdge_inters (m : Mol) (u v : Int) : (m.addEdge u v).inters = m.inters := by
  rw [addEdge_eq]; split <;> simp [ensure_inters]
theorem addEdge_cites (m : Mol) (u v : Int) : (m.addEdge u v).cites = m.cites := by
  rw [addEdge_eq]; split <;> simp [ensure_cites]
theorem addEdge_nrexcl (m : Mol) (u v : Int) : (m.addEdge u v).nrexcl = m.nrexcl := by
  rw [addEdge_eq]; split <;> simp [ensure_nrexcl]

theorem addEdge_nodes_of_mem (m : Mol) (u v : Int) (hu : u ∈ m.keys) (hv : v ∈ m.keys) :
    (m.addEdge u v).nodes = m.nodes ∧ (m.addEdge u v).maxNode = m.maxNode := by
  rw [addEdge_eq, ensure_of_mem m u hu, ensure_of_mem m v hv]; split <;> exact ⟨rfl, rfl⟩

theorem hasEdge_iff (m : Mol) (a b : Int) :
    m.hasEdge a b = true ↔ (a, b) ∈ m.edges ∨ (b, a) ∈ m.edges := by
  simp [Mol.hasEdge]

theorem addEdge_edges (m : Mol) (u v : Int) :
    (m.addEdge u v).edges = if m.hasEdge u v then m.edges else m.edges ++ [(u, v)] := by
  have h1 : ((m.ensure u).ensure v).edges = m.edges := by rw [ensure_edges, ensure_edges]
  have h2 : ((m.ensure u).ensure v).hasEdge u v = m.hasEdge u v := by
    unfold Mol.hasEdge; rw [h1]
  rw [addEdge_eq, h2]
  split
  · exact h1
  · simp only [h1]

theorem addEdge_hasEdge (m : Mol) (u v a b : Int) :
    (m.addEdge u v).hasEdge a b = true ↔
      m.hasEdge a b = true ∨ (a = u ∧ b = v) ∨ (a = v ∧ b = u) := by
  rw [hasEdge_iff, addEdge_edges]
  by_cases h : m.hasEdge u v = true
  · rw [if_pos h, ← hasEdge_iff]
    constructor
    · exact Or.inl
    · rintro (h' | ⟨rfl, rfl⟩ | ⟨rfl, rfl⟩)
      · exact h'
      · exact h
      · rw [hasEdge_iff] at h ⊢; exact h.symm
  · rw [if_neg h, hasEdge_iff]
    simp only [List.mem_append, List.mem_singleton, Prod.mk.injEq]
    constructor
    · rintro ((h' | h') | (h' | h'))
      · exact Or.inl (Or.inl h')
      · exact Or.inr (Or.inl h')
      · exact Or.inl (Or.inr h')
      · exact Or.inr (Or.inr ⟨h'.2, h'.1⟩)
    · rintro ((h' | h') | h' | h')
      · exact Or.inl (Or.inl h')
      · exact Or.inr (Or.inl h')
      · exact Or.inl (Or.inr h')
      · exact Or.inr (Or.inr ⟨h'.2, h'.1⟩)

theorem addEdge_inv {m : Mol} (h : m.Inv) (u v : Int) : (m.addEdge u v).Inv := by
  have h2 : ((m.ensure u).ensure v).Inv := ensure_inv (ensure_inv h u) v
  rw [addEdge_eq]
  split
  · exact h2
  · obtain ⟨⟨k1, k2, k3⟩, k4⟩ := h2
    refine ⟨⟨k1, ?_, k3⟩, k4⟩
    intro e he
    simp only [List.mem_append, List.mem_singleton] at he
    rcases he with he | rfl
    · exact k2 e he
    · show u ∈ ((m.ensure u).ensure v).keys ∧ v ∈ ((m.ensure u).ensure v).keys
      rw [ensure_mem, ensure_mem, ensure_mem, ensure_mem]
      exact ⟨Or.inl (Or.inr rfl), Or.inr rfl⟩

/-- the structural part alone is also preserved (used inside merge, where the cache is stale
until the end) -/
theorem ensure_wf {m : Mol} (h : m.Wf) (u : Int) : (m.ensure u).Wf := by
  by_cases hu : u ∈ m.keys
  · rw [ensure_of_mem m u hu]; exact h
  · have hb : ¬ m.hasNode u = true := fun e => hu ((mem_keys_iff m u).mp e)
    unfold Mol.ensure; rw [if_neg hb]
    apply Mol.wf_grow h
    · have := upsert_nodup m.nodes u {} h.1
      rw [upsert_fresh m.nodes u {} hu] at this; exact this
    · intro x hx; simp only [List.map_append, List.mem_append]; exact Or.inl hx

theorem addEdge_wf {m : Mol} (h : m.Wf) (u v : Int) : (m.addEdge u v).Wf := by
  have h2 : ((m.ensure u).ensure v).Wf := ensure_wf (ensure_wf h u) v
  rw [addEdge_eq]
  split
  · exact h2
  · obtain ⟨k1, k2, k3⟩ := h2
    refine ⟨k1, ?_, k3⟩
    intro e he
    simp only [List.mem_append, List.mem_singleton] at he
    rcases he with he | rfl
    · exact k2 e he
    · show u ∈ ((m.ensure u).ensure v).keys ∧ v ∈ ((m.ensure u).ensure v).keys
      rw [ensure_mem, ensure_mem, ensure_mem, ensure_mem]
      exact ⟨Or.inl (Or.inr rfl), Or.inr rfl⟩

/-! ### interactions -/

theorem addInter_inv {m : Mol} (h : m.Inv) (ty : String) (atoms : List Int) (params : String)
    (version : Option Int) (edge : Bool := true) : (m.addInter ty atoms params version edge).1.Inv := by
  unfold Mol.addInter
  split
  · rename_i hall
    obtain ⟨⟨k1, k2, k3⟩, k4⟩ := h
    refine ⟨⟨k1, k2, ?_⟩, k4⟩
    intro ti hti a ha
    simp only [List.mem_append, List.mem_singleton] at hti
    rcases hti with hti | rfl
    · exact k3 ti hti a ha
    · rw [List.all_eq_true] at hall; exact (mem_keys_iff m a).mp (hall a ha)
  · exact h

theorem replaceFirst_atoms (l : List (String × Inter)) (ty : String) (i : Inter)
    (l' : List (String × Inter)) (h : replaceFirst l ty i = some l') :
    ∀ ti ∈ l', ∃ tj ∈ l, ti.2.atoms = tj.2.atoms := by
  induction l generalizing l' with
  | nil => simp [replaceFirst] at h
  | cons p t ih =>
    obtain ⟨t0, j⟩ := p
    unfold replaceFirst at h
    split at h
    · rename_i hc
      cases h
      intro ti hti
      rcases List.mem_cons.mp hti with rfl | hti
      · exact ⟨(t0, j), List.mem_cons_self, hc.2.1.symm⟩
      · exact ⟨ti, List.mem_cons_of_mem _ hti, rfl⟩
    · cases hr : replaceFirst t ty i with
      | none => rw [hr] at h; cases h
      | some r =>
        rw [hr] at h; cases h
        intro ti hti
        rcases List.mem_cons.mp hti with rfl | hti
        · exact ⟨(t0, j), List.mem_cons_self, rfl⟩
        · obtain ⟨tj, htj, e⟩ := ih r hr ti hti
          exact ⟨tj, List.mem_cons_of_mem _ htj, e⟩

theorem removeFirst_sub (l : List (String × Inter)) (ty : String) (atoms : List Int) (version : Int)
    (l' : List (String × Inter)) (h : removeFirst l ty atoms version = some l') :
    ∀ ti ∈ l', ti ∈ l := by
  induction l generalizing l' with
  | nil => simp [removeFirst] at h
  | cons p t ih =>
    obtain ⟨t0, j⟩ := p
    unfold removeFirst at h
    split at h
    · cases h
      intro ti hti; exact List.mem_cons_of_mem _ hti
    · cases hr : removeFirst t ty atoms version with
      | none => rw [hr] at h; cases h
      | some r =>
        rw [hr] at h; cases h
        intro ti hti
        rcases List.mem_cons.mp hti with rfl | hti
        · exact List.mem_cons_self
        · exact List.mem_cons_of_mem _ (ih r hr ti hti)

theorem addOrReplace_inv {m : Mol} (h : m.Inv) (ty : String) (atoms : List Int) (params : String)
    (version : Option Int) (cites : List String) (edge : Bool := true) :
    (m.addOrReplace ty atoms params version cites edge).1.Inv := by
  unfold Mol.addOrReplace
  dsimp only
  cases hr : replaceFirst m.inters ty { atoms := atoms, params := params, version := version, edge := edge } with
  | some l =>
    obtain ⟨⟨k1, k2, k3⟩, k4⟩ := h
    refine ⟨⟨k1, k2, ?_⟩, k4⟩
    intro ti hti a ha
    obtain ⟨tj, htj, e⟩ := replaceFirst_atoms _ _ _ _ hr ti hti
    exact k3 tj htj a (e ▸ ha)
  | none =>
    have h2 := addInter_inv h ty atoms params version edge
    simp only []
    cases hai : m.addInter ty atoms params version edge with
    | mk m' o =>
      rw [hai] at h2
      cases o <;> exact h2

theorem removeInter_inv {m : Mol} (h : m.Inv) (ty : String) (atoms : List Int) (version : Int) :
    (m.removeInter ty atoms version).1.Inv := by
  unfold Mol.removeInter
  cases hr : removeFirst m.inters ty atoms version with
  | some l =>
    obtain ⟨⟨k1, k2, k3⟩, k4⟩ := h
    refine ⟨⟨k1, k2, ?_⟩, k4⟩
    intro ti hti a ha
    exact k3 ti (removeFirst_sub _ _ _ _ _ hr ti hti) a ha
  | none => exact h

/-! ### remove_matching_interaction, prune_edges -/

theorem removeFirstP_some_iff (l : List (String × Inter)) (ty : String) (p : Inter → Bool)
    (l' : List (String × Inter)) :
    removeFirstP l ty p = some l' ↔
      ∃ pre x post, l = pre ++ x :: post ∧ (x.1 = ty ∧ p x.2 = true) ∧
        (∀ y ∈ pre, ¬ (y.1 = ty ∧ p y.2 = true)) ∧ l' = pre ++ post := by
  induction l generalizing l' with
  | nil =>
    simp only [removeFirstP, reduceCtorEq, false_iff]
    rintro ⟨pre, x, post, h, _⟩
    cases pre <;> cases h
  | cons q t ih =>
    obtain ⟨t0, j⟩ := q
    unfold removeFirstP
    by_cases hc : t0 = ty ∧ p j = true
    · rw [if_pos hc]
      constructor
      · intro h; cases h
        exact ⟨[], (t0, j), t, rfl, hc, fun _ hy => (by cases hy), rfl⟩
      · rintro ⟨pre, x, post, h, hx, hpre, rfl⟩
        cases pre with
        | nil => simp only [List.nil_append, List.cons.injEq] at h; rw [h.2]; rfl
        | cons y pre' =>
          simp only [List.cons_append, List.cons.injEq] at h
          have hy := hpre y List.mem_cons_self
          rw [← h.1] at hy
          exact absurd hc hy
    · rw [if_neg hc]
      constructor
      · intro h
        cases hr : removeFirstP t ty p with
        | none => rw [hr] at h; cases h
        | some r =>
          rw [hr] at h; cases h
          obtain ⟨pre, x, post, h1, h2, h3, h4⟩ := (ih r).mp hr
          refine ⟨(t0, j) :: pre, x, post, by rw [h1]; rfl, h2, ?_, by rw [h4]; rfl⟩
          intro y hy
          rcases List.mem_cons.mp hy with rfl | hy
          · exact hc
          · exact h3 y hy
      · rintro ⟨pre, x, post, h, hx, hpre, rfl⟩
        cases pre with
        | nil =>
          simp only [List.nil_append, List.cons.injEq] at h
          rw [← h.1] at hx
          exact absurd hx hc
        | cons y pre' =>
          simp only [List.cons_append, List.cons.injEq] at h
          have := (ih (pre' ++ post)).mpr ⟨pre', x, post, h.2, hx,
            fun z hz => hpre z (List.mem_cons_of_mem _ hz), rfl⟩
          rw [this, h.1]; rfl

theorem removeFirstP_none_iff (l : List (String × Inter)) (ty : String) (p : Inter → Bool) :
    removeFirstP l ty p = none ↔ ∀ y ∈ l, ¬ (y.1 = ty ∧ p y.2 = true) := by
  induction l with
  | nil => simp [removeFirstP]
  | cons q t ih =>
    obtain ⟨t0, j⟩ := q
    unfold removeFirstP
    by_cases hc : t0 = ty ∧ p j = true
    · rw [if_pos hc]
      simp only [reduceCtorEq, false_iff]
      intro h; exact h (t0, j) List.mem_cons_self hc
    · rw [if_neg hc]
      simp only [Option.map_eq_none_iff, ih, List.mem_cons, forall_eq_or_imp]
      exact ⟨fun h => ⟨hc, h⟩, fun h => h.2⟩

theorem removeMatching_inv {m : Mol} (h : m.Inv) (ty : String) (t : Template) :
    (m.removeMatching ty t).1.Inv := by
  unfold Mol.removeMatching
  cases hr : removeFirstP m.inters ty (interMatch m.nodes t) with
  | some l =>
    obtain ⟨⟨k1, k2, k3⟩, k4⟩ := h
    refine ⟨⟨k1, k2, ?_⟩, k4⟩
    intro ti hti a ha
    obtain ⟨pre, x, post, h1, _, _, h4⟩ := (removeFirstP_some_iff _ _ _ _).mp hr
    apply k3 ti _ a ha
    rw [h1]; rw [h4] at hti
    rcases List.mem_append.mp hti with h' | h'
    · exact List.mem_append_left _ h'
    · exact List.mem_append_right _ (List.mem_cons_of_mem _ h')
  | none => exact h

theorem pruneEdges_inv {m : Mol} (h : m.Inv) (a b : List Int) : (m.pruneEdges a b).Inv := by
  obtain ⟨⟨k1, k2, k3⟩, k4⟩ := h
  refine ⟨⟨k1, ?_, k3⟩, k4⟩
  intro e he
  exact k2 e (List.mem_filter.mp he).1

theorem pruneByName_inv {m : Mol} (h : m.Inv) (na : String) (nb : Option String) :
    (m.pruneByName na nb).Inv := pruneEdges_inv h _ _

/-! ### subgraph, copy -/

theorem dedupKeys_mem (ks : List Int) (x : Int) : x ∈ dedupKeys ks ↔ x ∈ ks := by
  induction ks with
  | nil => simp [dedupKeys]
  | cons k t ih =>
    simp only [dedupKeys, List.mem_cons, List.mem_filter, ih, bne_iff_ne, ne_eq]
    by_cases e : x = k <;> simp [e]

theorem dedupKeys_nodup (ks : List Int) : (dedupKeys ks).Nodup := by
  induction ks with
  | nil => simp [dedupKeys]
  | cons k t ih =>
    simp only [dedupKeys, List.nodup_cons, List.mem_filter, bne_self_eq_false, Bool.false_eq_true,
      and_false, not_false_eq_true, true_and]
    exact List.Nodup.sublist List.filter_sublist ih

theorem dedupKeys_of_nodup (ks : List Int) (h : ks.Nodup) : dedupKeys ks = ks := by
  induction ks with
  | nil => rfl
  | cons k t ih =>
    rw [List.nodup_cons] at h
    simp only [dedupKeys, ih h.2, List.cons.injEq, true_and, List.filter_eq_self, bne_iff_ne, ne_eq]
    intro a ha e; subst e; exact h.1 ha

theorem lookupAttrs_isSome (ns : List (Int × Attrs)) (k : Int) :
    (lookupAttrs ns k).isSome = true ↔ k ∈ ns.map Prod.fst := by
  induction ns with
  | nil => simp [lookupAttrs]
  | cons p t ih =>
    unfold lookupAttrs at ih ⊢
    simp only [List.find?_cons]
    by_cases e : p.1 = k
    · simp [e]
    · have e' : ¬ k = p.1 := fun x => e x.symm
      have eb : (p.1 == k) = false := by simp [e]
      simp only [eb, ih, List.map_cons, List.mem_cons, e', false_or]

theorem lookupAttrs_mem (ns : List (Int × Attrs)) (k : Int) (a : Attrs)
    (h : lookupAttrs ns k = some a) : (k, a) ∈ ns := by
  unfold lookupAttrs at h
  cases hf : ns.find? (fun p => p.1 == k) with
  | none => rw [hf] at h; cases h
  | some p =>
    rw [hf] at h; cases h
    have h1 := List.find?_some hf
    have h2 := List.mem_of_find?_eq_some hf
    simp only [beq_iff_eq] at h1
    subst h1; exact h2

theorem lookupAttrs_of_mem (ns : List (Int × Attrs)) (hnd : (ns.map Prod.fst).Nodup) (k : Int) (a : Attrs)
    (h : (k, a) ∈ ns) : lookupAttrs ns k = some a := by
  induction ns with
  | nil => cases h
  | cons p t ih =>
    simp only [List.map_cons, List.nodup_cons] at hnd
    unfold lookupAttrs at ih ⊢
    simp only [List.find?_cons]
    rcases List.mem_cons.mp h with rfl | h
    · simp
    · have : ¬ p.1 = k := by
        intro e; apply hnd.1; rw [e]; exact List.mem_map.mpr ⟨(k, a), h, rfl⟩
      have eb : (p.1 == k) = false := by simp [this]
      simp only [eb]
      exact ih hnd.2 h

theorem filterMap_lookup_keys (ns : List (Int × Attrs)) (l : List Int)
    (h : ∀ k ∈ l, k ∈ ns.map Prod.fst) :
    (l.filterMap (fun k => (lookupAttrs ns k).map (fun a => (k, a)))).map Prod.fst = l := by
  induction l with
  | nil => rfl
  | cons k t ih =>
    have hk := (lookupAttrs_isSome ns k).mpr (h k List.mem_cons_self)
    obtain ⟨a, ha⟩ := Option.isSome_iff_exists.mp hk
    simp only [List.filterMap_cons, ha, Option.map_some, List.map_cons]
    rw [ih (fun k hk => h k (List.mem_cons_of_mem _ hk))]

theorem subgraph_keys (m : Mol) (ks : List Int) (s : Mol) (h : m.subgraph ks = some s) :
    s.keys = dedupKeys ks := by
  unfold Mol.subgraph at h
  split at h
  · rename_i hall
    cases h
    apply filterMap_lookup_keys
    intro k hk
    rw [List.all_eq_true] at hall
    exact (mem_keys_iff m k).mp (hall k ((dedupKeys_mem ks k).mp hk))
  · cases h

theorem subgraph_inv {m : Mol} (ks : List Int) (s : Mol) (h : m.subgraph ks = some s) : s.Inv := by
  have hk := subgraph_keys m ks s h
  unfold Mol.subgraph at h
  split at h
  · cases h
    apply Mol.inv_of_wf_none _ rfl
    refine ⟨?_, ?_, ?_⟩
    · rw [hk]; exact dedupKeys_nodup ks
    · intro e he
      rw [hk]
      simp only [List.mem_filter, Bool.and_eq_true, List.contains_eq_mem, decide_eq_true_eq] at he
      exact ⟨(dedupKeys_mem ks _).mpr he.2.1, (dedupKeys_mem ks _).mpr he.2.2⟩
    · intro ti hti a ha
      rw [hk]
      simp only [List.mem_filter, List.all_eq_true, List.contains_eq_mem, decide_eq_true_eq] at hti
      exact (dedupKeys_mem ks _).mpr (hti.2 a ha)
  · cases h

theorem filterMap_lookup_self (ns : List (Int × Attrs)) (hnd : (ns.map Prod.fst).Nodup) :
    (ns.map Prod.fst).filterMap (fun k => (lookupAttrs ns k).map (fun a => (k, a))) = ns := by
  suffices H : ∀ l : List (Int × Attrs), (∀ p ∈ l, p ∈ ns) →
      (l.map Prod.fst).filterMap (fun k => (lookupAttrs ns k).map (fun a => (k, a))) = l from
    H ns (fun _ h => h)
  intro l
  induction l with
  | nil => intro _; rfl
  | cons p t ih =>
    intro hsub
    have := lookupAttrs_of_mem ns hnd p.1 p.2 (hsub p List.mem_cons_self)
    simp only [List.map_cons, List.filterMap_cons, this, Option.map_some]
    rw [ih (fun q hq => hsub q (List.mem_cons_of_mem _ hq))]

/-- under the (extended) invariant a copy has exactly the content of its source (the cache is reset) -/
theorem copy_eq {m : Mol} (h : m.Inv) (he : m.EaOk) : m.copy = { m with maxNode := none } := by
  obtain ⟨⟨k1, k2, k3⟩, _⟩ := h
  unfold Mol.copy Mol.subgraph
  have hall : m.keys.all m.hasNode = true := by
    rw [List.all_eq_true]; intro k hk; exact (mem_keys_iff m k).mpr hk
  rw [if_pos hall]
  simp only [Option.getD_some]
  rw [dedupKeys_of_nodup _ k1]
  have e1 : m.keys.filterMap (fun k => (lookupAttrs m.nodes k).map (fun a => (k, a))) = m.nodes :=
    filterMap_lookup_self m.nodes k1
  have e2 : m.edges.filter (fun e => m.keys.contains e.1 && m.keys.contains e.2) = m.edges := by
    rw [List.filter_eq_self]; intro e he
    simp only [Bool.and_eq_true, List.contains_eq_mem, decide_eq_true_eq]; exact k2 e he
  have e3 : m.inters.filter (fun ti => ti.2.atoms.all (fun a => m.keys.contains a)) = m.inters := by
    rw [List.filter_eq_self]; intro ti hti
    simp only [List.all_eq_true, List.contains_eq_mem, decide_eq_true_eq]; exact k3 ti hti
  have e4 : m.eattr.filter (fun x => m.keys.contains x.1.1 && m.keys.contains x.1.2) = m.eattr := by
    rw [List.filter_eq_self]; intro x hx
    simp only [Bool.and_eq_true, List.contains_eq_mem, decide_eq_true_eq]
    rcases (hasEdge_iff m _ _).mp (he x hx) with h' | h'
    · exact k2 _ h'
    · exact ⟨(k2 _ h').2, (k2 _ h').1⟩
  rw [e1, e2, e3, e4]

theorem copy_inv {m : Mol} (h : m.Inv) : m.copy.Inv := by
  have hall : m.keys.all m.hasNode = true := by
    rw [List.all_eq_true]; intro k hk; exact (mem_keys_iff m k).mpr hk
  cases hs : m.subgraph m.keys with
  | none => unfold Mol.subgraph at hs; rw [if_pos hall] at hs; cases hs
  | some s =>
    have := subgraph_inv m.keys s hs
    unfold Mol.copy; rw [hs]; exact this

/-! ### a run of `add_edge` (merge, to_molecule) -/

def Mol.addEdges (m : Mol) (es : List (Int × Int)) : Mol := es.foldl (fun m e => m.addEdge e.1 e.2) m

theorem addEdges_nil (m : Mol) : m.addEdges [] = m := rfl
theorem addEdges_cons (m : Mol) (e : Int × Int) (es : List (Int × Int)) :
    m.addEdges (e :: es) = (m.addEdge e.1 e.2).addEdges es := rfl

theorem addEdges_inters (m : Mol) (es : List (Int × Int)) : (m.addEdges es).inters = m.inters := by
  induction es generalizing m with
  | nil => rfl
  | cons e t ih => rw [addEdges_cons, ih, addEdge_inters]

theorem addEdges_cites (m : Mol) (es : List (Int × Int)) : (m.addEdges es).cites = m.cites := by
  induction es generalizing m with
  | nil => rfl
  | cons e t ih => rw [addEdges_cons, ih, addEdge_cites]

theorem addEdges_nrexcl (m : Mol) (es : List (Int × Int)) : (m.addEdges es).nrexcl = m.nrexcl := by
  induction es generalizing m with
  | nil => rfl
  | cons e t ih => rw [addEdges_cons, ih, addEdge_nrexcl]

theorem addEdges_wf {m : Mol} (h : m.Wf) (es : List (Int × Int)) : (m.addEdges es).Wf := by
  induction es generalizing m with
  | nil => exact h
  | cons e t ih => rw [addEdges_cons]; exact ih (addEdge_wf h _ _)

theorem addEdges_inv {m : Mol} (h : m.Inv) (es : List (Int × Int)) : (m.addEdges es).Inv := by
  induction es generalizing m with
  | nil => exact h
  | cons e t ih => rw [addEdges_cons]; exact ih (addEdge_inv h _ _)

theorem addEdges_nodes (m : Mol) (es : List (Int × Int))
    (h : ∀ e ∈ es, e.1 ∈ m.keys ∧ e.2 ∈ m.keys) :
    (m.addEdges es).nodes = m.nodes ∧ (m.addEdges es).maxNode = m.maxNode := by
  induction es generalizing m with
  | nil => exact ⟨rfl, rfl⟩
  | cons e t ih =>
    have he := h e List.mem_cons_self
    obtain ⟨h1, h2⟩ := addEdge_nodes_of_mem m e.1 e.2 he.1 he.2
    have hk : (m.addEdge e.1 e.2).keys = m.keys := by unfold Mol.keys; rw [h1]
    rw [addEdges_cons]
    have := ih (m.addEdge e.1 e.2) (fun e' he' => by rw [hk]; exact h e' (List.mem_cons_of_mem _ he'))
    rw [this.1, this.2, h1, h2]; exact ⟨rfl, rfl⟩

theorem addEdges_hasEdge (m : Mol) (es : List (Int × Int)) (a b : Int) :
    (m.addEdges es).hasEdge a b = true ↔
      m.hasEdge a b = true ∨ ∃ e ∈ es, (a = e.1 ∧ b = e.2) ∨ (a = e.2 ∧ b = e.1) := by
  induction es generalizing m with
  | nil => simp [addEdges_nil]
  | cons e t ih =>
    rw [addEdges_cons, ih, addEdge_hasEdge]
    simp only [List.mem_cons, exists_eq_or_imp]
    rw [or_assoc]

/-! ### extension round: bond attributes, bond removal, bonds from interactions, log entries -/

theorem addEdgeA_inv {m : Mol} (h : m.Inv) (u v : Int) (a : EAttrs) : (m.addEdgeA u v a).Inv :=
  addEdge_inv h u v

theorem addEdgeA_wf {m : Mol} (h : m.Wf) (u v : Int) (a : EAttrs) : (m.addEdgeA u v a).Wf :=
  addEdge_wf h u v

theorem foldl_addEdgeA_wf {m : Mol} (h : m.Wf) (l : List (Int × Int × EAttrs)) :
    (l.foldl (fun acc e => acc.addEdgeA e.1 e.2.1 e.2.2) m).Wf := by
  induction l generalizing m with
  | nil => exact h
  | cons e t ih => exact ih (addEdgeA_wf h _ _ _)

theorem addEdgesA_inv {m : Mol} (h : m.Inv) (l : List (Int × Int × EAttrs)) : (m.addEdgesA l).Inv :=
  Mol.inv_of_wf_none (foldl_addEdgeA_wf h.1 l) rfl

theorem dropEdges_inv {m : Mol} (h : m.Inv) (l : List (Int × Int)) : (m.dropEdges l).Inv := by
  obtain ⟨⟨k1, k2, k3⟩, k4⟩ := h
  refine ⟨⟨k1, ?_, k3⟩, k4⟩
  intro e he
  exact k2 e (List.mem_filter.mp he).1

theorem addPath_inv {m : Mol} (h : m.Inv) (atoms : List Int) : (m.addPath atoms).Inv :=
  Mol.inv_of_wf_none (addEdges_wf h.1 (consecPairs atoms)) rfl

theorem foldl_inv {α : Type} (f : Mol → α → Mol) (hf : ∀ m x, m.Inv → (f m x).Inv) (l : List α) {m : Mol}
    (h : m.Inv) : (l.foldl f m).Inv := by
  induction l generalizing m with
  | nil => exact h
  | cons x t ih => exact ih (hf m x h)

theorem makeEdgesType_inv {m : Mol} (h : m.Inv) (ty : String) : (m.makeEdgesType ty).Inv :=
  foldl_inv _ (fun m' ti hm => addPath_inv hm ti.2.atoms) _ h

theorem makeEdgesAll_inv {m : Mol} (h : m.Inv) : m.makeEdgesAll.Inv :=
  foldl_inv _ (fun m' ty hm => makeEdgesType_inv hm ty) _ h

theorem addLog_inv {m : Mol} (h : m.Inv) (lvl : Int) (entry : String) (args : List FmtArg) :
    (m.addLog lvl entry args).Inv := h

/-- what `Molecule.clear()` leaves of the invariant: the interactions stay, so it survives exactly
when no interaction has an atom -/
theorem clear_inv_iff (m : Mol) : m.clear.Inv ↔ ∀ ti ∈ m.inters, ti.2.atoms = [] := by
  constructor
  · intro h ti hti
    have := h.1.2.2 ti hti
    cases hat : ti.2.atoms with
    | nil => rfl
    | cons a t => have := this a (by rw [hat]; exact List.mem_cons_self); cases this
  · intro h
    apply Mol.inv_of_wf_none _ rfl
    refine ⟨List.nodup_nil, ?_, ?_⟩
    · intro e he; cases he
    · intro ti hti a ha
      have : ti ∈ m.inters := hti
      rw [h ti this] at ha; cases ha

end C12
