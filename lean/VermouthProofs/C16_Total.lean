import VermouthProofs.C16_Gro
/-!
Totality of reading what the truncating formatter writes: the last `w` characters of a number are
digits (the sign is the first thing to go), so a right-aligned truncated numeric field always
parses; which number comes back.
-/
namespace C16

theorem digitsVal_foldl (b : List Char) : ∀ acc : Nat,
    b.foldl (fun acc c => acc * 10 + digitVal c) acc = acc * 10 ^ b.length + digitsVal b := by
  induction b with
  | nil => intro acc; simp [digitsVal]
  | cons c r ih =>
    intro acc
    unfold digitsVal
    simp only [List.foldl_cons, List.length_cons, Nat.pow_succ]
    rw [ih (acc * 10 + digitVal c), ih (0 * 10 + digitVal c)]
    rw [Nat.add_mul, Nat.zero_mul, Nat.zero_add, Nat.mul_assoc, Nat.mul_comm 10 (10 ^ r.length)]
    omega

theorem digitsVal_app (a b : List Char) : digitsVal (a ++ b) = digitsVal a * 10 ^ b.length + digitsVal b := by
  unfold digitsVal
  rw [List.foldl_append, digitsVal_foldl]
  rfl

theorem isDigit_val_lt (c : Char) (h : isDigit c = true) : digitVal c < 10 := by
  unfold isDigit at h
  unfold digitVal
  simp only [Bool.and_eq_true, decide_eq_true_eq] at h
  omega

theorem digitsVal_lt (l : List Char) (h : l.all isDigit = true) : digitsVal l < 10 ^ l.length := by
  induction l with
  | nil => simp [digitsVal]
  | cons c r ih =>
    simp only [List.all_cons, Bool.and_eq_true] at h
    have h1 := ih h.2
    have h2 := isDigit_val_lt c h.1
    have e : digitsVal (c :: r) = digitVal c * 10 ^ r.length + digitsVal r := by
      have := digitsVal_app [c] r
      simpa [digitsVal] using this
    rw [e, List.length_cons, Nat.pow_succ]
    have h3 : digitVal c * 10 ^ r.length ≤ 9 * 10 ^ r.length := Nat.mul_le_mul_right _ (by omega)
    omega

/-- value of the last `w` digits -/
theorem digitsVal_suffix (l : List Char) (w : Nat) (h : l.all isDigit = true) (hw : w ≤ l.length) :
    digitsVal (l.drop (l.length - w)) = digitsVal l % 10 ^ w := by
  have hsplit := List.take_append_drop (l.length - w) l
  have hlen : (l.drop (l.length - w)).length = w := by rw [List.length_drop]; omega
  have hall : (l.drop (l.length - w)).all isDigit = true := by
    rw [List.all_eq_true] at h ⊢
    intro c hc; exact h c (List.mem_of_mem_drop hc)
  have hlt := digitsVal_lt _ hall
  rw [hlen] at hlt
  conv => rhs; rw [← hsplit, digitsVal_app, hlen]
  rw [Nat.mul_add_mod_self_right, Nat.mod_eq_of_lt hlt]

theorem parseInt_digits (l : List Char) (hne : l ≠ []) (h : l.all isDigit = true) :
    parseInt l = some (digitsVal l : Int) := by
  cases l with
  | nil => exact absurd rfl hne
  | cons c r =>
    have hc : isDigit c = true := by
      simp only [List.all_cons, Bool.and_eq_true] at h; exact h.1
    unfold parseInt
    split
    · rename_i ds heq
      exact absurd (List.cons.inj heq).1 (isDigit_ne _ _ hc (by decide))
    · rename_i ds heq
      exact absurd (List.cons.inj heq).1 (isDigit_ne _ _ hc (by decide))
    · simp only [ne_eq, reduceCtorEq, not_false_eq_true, true_and, h, if_true]

theorem all_digits_no_ws (l : List Char) (h : l.all isDigit = true) : ∀ c ∈ l, isWs c = false := by
  intro c hc
  exact isDigit_not_ws c (List.all_eq_true.mp h c hc)

/-- what a reader gets back from a right-aligned integer column of width `w` -/
def truncInt (w : Nat) (i : Int) : Int :=
  if (intRepr i).length ≤ w then i else ((i.natAbs % 10 ^ w : Nat) : Int)

/-- the last `w` characters of an over-long integer are its last `w` digits: the sign is gone -/
theorem intRepr_suffix (i : Int) (w : Nat) (_hw : 1 ≤ w) (hover : w < (intRepr i).length) :
    (intRepr i).drop ((intRepr i).length - w) = (natDigits i.natAbs).drop ((natDigits i.natAbs).length - w) ∧
    w ≤ (natDigits i.natAbs).length := by
  unfold intRepr at *
  split
  · rename_i hneg
    simp only [hneg, if_true, List.length_cons] at hover
    constructor
    · have : (natDigits i.natAbs).length + 1 - w = ((natDigits i.natAbs).length - w) + 1 := by omega
      simp only [List.length_cons, this, List.drop_succ_cons]
    · omega
  · rename_i hneg
    simp only [hneg, if_false] at hover
    exact ⟨rfl, by omega⟩

/-- **a right-aligned truncating integer field is ALWAYS readable**, and the value read is the
value written when it fits, else the number made of its last `w` digits -/
theorem int_field_total (sp : Spec) (i : Int) (hty : sp.ty = .d) (hf : sp.fill = ' ')
    (hal : sp.leftAligned = false) (htr : sp.trunc = true) (hw : sp.width ≠ 0) :
    parseInt (strip (renderField sp (.int i))) = some (truncInt sp.width i) := by
  have hb : fieldBody sp (.int i) = intRepr i := by unfold fieldBody; rw [hty]
  unfold truncInt
  by_cases hfit : (intRepr i).length ≤ sp.width
  · simp only [hfit, if_true]
    rw [renderField_of_fits sp _ (by rw [hb]; exact hfit), hb, strip_padded sp _ hf,
      strip_of_no_ws _ (intRepr_no_ws i), parseInt_intRepr]
  · simp only [hfit, if_false]
    have hover : sp.width < (intRepr i).length := by omega
    have hr : renderField sp (.int i) = (intRepr i).drop ((intRepr i).length - sp.width) := by
      unfold renderField
      have hp : padded sp (fieldBody sp (.int i)) = intRepr i := by
        unfold padded
        rw [hb]
        have : sp.width - (intRepr i).length = 0 := by omega
        split <;> simp [this]
      have hw' : (sp.width != 0) = true := by simpa using hw
      rw [hp]
      simp [htr, hw', hover, hal]
    obtain ⟨hs, hle⟩ := intRepr_suffix i sp.width (by omega) hover
    rw [hr, hs]
    have hall : ((natDigits i.natAbs).drop ((natDigits i.natAbs).length - sp.width)).all isDigit = true := by
      have := all_isDigit_natDigits i.natAbs
      rw [List.all_eq_true] at this ⊢
      intro c hc; exact this c (List.mem_of_mem_drop hc)
    have hne : (natDigits i.natAbs).drop ((natDigits i.natAbs).length - sp.width) ≠ [] := by
      intro h0
      have := congrArg List.length h0
      rw [List.length_drop] at this
      simp at this; omega
    rw [strip_of_no_ws _ (all_digits_no_ws _ hall), parseInt_digits _ hne hall,
      digitsVal_suffix _ _ (all_isDigit_natDigits _) hle, digitsVal_natDigits]
/-- what a reader gets back from a right-aligned fixed-point column of width `w` (`p` decimals, `p + 2 ≤ w`):
the value written when it fits, else the number shown by its last `w` characters -/
def truncFix (w p : Nat) (k : Int) : Int :=
  if (fixRepr p k).length ≤ w then k else ((k.natAbs % 10 ^ (w - 1) : Nat) : Int)

theorem parseDec_digits_dot (I F : List Char) (hI : I.all isDigit = true) (hne : I ≠ []) (hF : F.all isDigit = true) :
    parseDec (I ++ '.' :: F) = some (((digitsVal I * 10 ^ F.length + digitsVal F : Nat) : Int), F.length) := by
  obtain ⟨t1, t2⟩ := takeWhile_digits_dot I F hI
  have body : parseDecBody 1 (I ++ '.' :: F) = some (((digitsVal I * 10 ^ F.length + digitsVal F : Nat) : Int), F.length) := by
    unfold parseDecBody
    simp only [t1, t2, hF, ne_eq, hne, not_false_eq_true, true_or, and_self, if_true, Int.one_mul]
  cases I with
  | nil => exact absurd rfl hne
  | cons c r =>
    have hc : isDigit c = true := by
      simp only [List.all_cons, Bool.and_eq_true] at hI; exact hI.1
    unfold parseDec
    split
    · rename_i r' heq
      exact absurd (List.cons.inj heq).1 (isDigit_ne _ _ hc (by decide))
    · rename_i r' heq
      exact absurd (List.cons.inj heq).1 (isDigit_ne _ _ hc (by decide))
    · exact body

/-- **a right-aligned truncating fixed-point field is ALWAYS readable** -/
theorem fix_field_total (sp : Spec) (k : Int) (hty : sp.ty = .f) (hf : sp.fill = ' ')
    (hal : sp.leftAligned = false) (htr : sp.trunc = true) (hp : 1 ≤ sp.prec) (hw : sp.prec + 2 ≤ sp.width) :
    parseDec (strip (renderField sp (.fix k))) = some (truncFix sp.width sp.prec k, sp.prec) := by
  have hb : fieldBody sp (.fix k) = fixRepr sp.prec k := by unfold fieldBody; rw [hty]
  unfold truncFix
  by_cases hfit : (fixRepr sp.prec k).length ≤ sp.width
  · simp only [hfit, if_true]
    rw [renderField_of_fits sp _ (by rw [hb]; exact hfit), hb, strip_padded sp _ hf,
      strip_of_no_ws _ (fixRepr_no_ws _ k), parseDec_fixRepr _ hp]
  · simp only [hfit, if_false]
    have hover : sp.width < (fixRepr sp.prec k).length := by omega
    have hr : renderField sp (.fix k) = (fixRepr sp.prec k).drop ((fixRepr sp.prec k).length - sp.width) := by
      unfold renderField
      have hpd : padded sp (fieldBody sp (.fix k)) = fixRepr sp.prec k := by
        unfold padded
        rw [hb]
        have : sp.width - (fixRepr sp.prec k).length = 0 := by omega
        split <;> simp [this]
      have hw' : (sp.width != 0) = true := by simp; omega
      rw [hpd]
      simp [htr, hw', hover, hal]
    have hpos : 0 < 10 ^ sp.prec := Nat.pow_pos (by omega)
    obtain ⟨hF1, hF2, hF3⟩ := padZeros_props sp.prec (k.natAbs % 10 ^ sp.prec) (Nat.mod_lt _ hpos) hp
    generalize hFdef : padZeros sp.prec (natDigits (k.natAbs % 10 ^ sp.prec)) = F at hF1 hF2 hF3
    generalize hIdef : natDigits (k.natAbs / 10 ^ sp.prec) = I
    have hIall : I.all isDigit = true := by rw [← hIdef]; exact all_isDigit_natDigits _
    have hIval : digitsVal I = k.natAbs / 10 ^ sp.prec := by rw [← hIdef]; exact digitsVal_natDigits _
    generalize hSdef : (if k < 0 then ['-'] else [] : List Char) = S
    have hSlen : S.length ≤ 1 := by rw [← hSdef]; split <;> simp
    have hrepr : fixRepr sp.prec k = S ++ (I ++ '.' :: F) := by
      rw [fixRepr_pos sp.prec hp, hFdef, hIdef, hSdef]
    have hlen : (fixRepr sp.prec k).length = S.length + I.length + 1 + sp.prec := by
      rw [hrepr]; simp [hF1]; omega
    have hdrop : (fixRepr sp.prec k).drop ((fixRepr sp.prec k).length - sp.width) =
        I.drop (I.length - (sp.width - sp.prec - 1)) ++ '.' :: F := by
      rw [hlen, hrepr, List.drop_append, List.drop_of_length_le (by omega), List.nil_append, List.drop_append]
      have e1 : S.length + I.length + 1 + sp.prec - sp.width - S.length = I.length - (sp.width - sp.prec - 1) := by omega
      have e2 : I.length - (sp.width - sp.prec - 1) - I.length = 0 := by omega
      rw [e1, e2]; rfl
    have hIle : sp.width - sp.prec - 1 ≤ I.length := by omega
    generalize hI'def : I.drop (I.length - (sp.width - sp.prec - 1)) = I' at hdrop
    have hI'all : I'.all isDigit = true := by
      rw [← hI'def]
      rw [List.all_eq_true] at hIall ⊢
      intro c hc; exact hIall c (List.mem_of_mem_drop hc)
    have hI'len : I'.length = sp.width - sp.prec - 1 := by rw [← hI'def, List.length_drop]; omega
    have hI'ne : I' ≠ [] := by
      intro h0; rw [h0] at hI'len; simp at hI'len; omega
    have hI'val : digitsVal I' = k.natAbs / 10 ^ sp.prec % 10 ^ (sp.width - sp.prec - 1) := by
      rw [← hI'def, digitsVal_suffix I _ hIall hIle, hIval]
    have hnows : ∀ c ∈ I' ++ '.' :: F, isWs c = false := by
      intro c hc
      rcases List.mem_append.mp hc with h | h
      · exact all_digits_no_ws _ hI'all c h
      · rcases List.mem_cons.mp h with h | h
        · subst h; decide
        · exact all_digits_no_ws _ hF2 c h
    rw [hr, hdrop, strip_of_no_ws _ hnows, parseDec_digits_dot I' F hI'all hI'ne hF2, hF1, hI'val, hF3]
    congr 2
    have hpow : 10 ^ (sp.width - 1) = 10 ^ sp.prec * 10 ^ (sp.width - sp.prec - 1) := by
      rw [← Nat.pow_add]; congr 1; omega
    rw [hpow, Nat.mod_mul]
    rw [Nat.mul_comm]
    omega

/-- the strings a reader gets back: the written string cut to its column, blanks at the ends gone -/
theorem str_field_total (sp : Spec) (s : List Char) (hty : sp.ty = .s) (hf : sp.fill = ' ') :
    strip (renderField sp (.str s)) =
      strip (if sp.trunc && sp.width != 0 && decide (sp.width < s.length) then
        (if sp.leftAligned then s.take sp.width else s.drop (s.length - sp.width)) else s) := by
  have hb : fieldBody sp (.str s) = s := by unfold fieldBody; rw [hty]
  by_cases hfit : s.length ≤ sp.width
  · have : ¬ sp.width < s.length := by omega
    simp only [this, decide_false, Bool.and_false, Bool.false_eq_true, if_false]
    rw [renderField_of_fits sp _ (by rw [hb]; exact hfit), hb, strip_padded sp _ hf]
  · have hover : sp.width < s.length := by omega
    unfold renderField
    have hpd : padded sp (fieldBody sp (.str s)) = s := by
      unfold padded
      rw [hb]
      have : sp.width - s.length = 0 := by omega
      split <;> simp [this]
    rw [hpd]
end C16
