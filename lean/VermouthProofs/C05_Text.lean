import VermouthModel.C05_Text
/-! C05: dictionaries written on the lines of a `[ link ]` (helper lemmas for VermouthProps/C05_Text.lean) -/
namespace C05

theorem tlk_ne {β} {k' kx : String} (h : k' ≠ kx) (vx : β) (rest : List (String × β)) :
    List.lookup k' ((kx, vx) :: rest) = List.lookup k' rest := by
  have : (k' == kx) = false := by simp [h]
  simp [List.lookup_cons, this]

/-- `d[k] = v` then `d.get(k')` -/
theorem lookup_dset {α : Type} (a : List (String × α)) (k : String) (v : α) (k' : String) :
    (dset a k v).lookup k' = if k' = k then some v else a.lookup k' := by
  induction a with
  | nil =>
    simp only [dset]
    by_cases h : k' = k
    · subst h; simp
    · simp [h, tlk_ne h]
  | cons x rest ih =>
    obtain ⟨kx, vx⟩ := x
    simp only [dset]
    by_cases hx : kx = k
    · subst hx
      simp only [beq_self_eq_true, if_true]
      by_cases h : k' = kx
      · subst h; simp
      · simp [h, tlk_ne h]
    · have : (kx == k) = false := by simp [hx]
      simp only [this, Bool.false_eq_true, if_false]
      by_cases h : k' = kx
      · subst h; simp [hx]
      · rw [tlk_ne h, tlk_ne h, ih]

theorem lookup_append_one {α : Type} (l : List (String × α)) (x : String × α) (k : String) :
    (l ++ [x]).lookup k =
      match l.lookup k with
      | some v => some v
      | none => if k = x.1 then some x.2 else none := by
  induction l with
  | nil =>
    obtain ⟨kx, vx⟩ := x
    by_cases h : k = kx
    · subst h; simp
    · simp [h, tlk_ne h]
  | cons y l ihl =>
    obtain ⟨ky, vy⟩ := y
    by_cases h : k = ky
    · subst h; simp
    · simp only [List.cons_append]
      rw [tlk_ne h, tlk_ne h, ihl]

/-- `wide.copy().update(line)`: a key of `line` gets the LAST value `line` gives it, other keys keep theirs -/
theorem lookup_dmerge_rev {α : Type} (wide line : List (String × α)) (k : String) :
    (dmerge wide line).lookup k = (line.reverse.lookup k).or (wide.lookup k) := by
  unfold dmerge
  induction line generalizing wide with
  | nil => simp
  | cons x rest ih =>
    simp only [List.foldl_cons]
    rw [ih]
    simp only [List.reverse_cons]
    rw [lookup_append_one, lookup_dset]
    cases h : rest.reverse.lookup k with
    | some v => simp
    | none => by_cases hk : k = x.1 <;> simp [hk]

theorem lookup_none_of_not_key {α : Type} (l : List (String × α)) (k : String) (h : k ∉ l.map (·.1)) :
    l.lookup k = none := by
  induction l with
  | nil => simp
  | cons y l ih =>
    obtain ⟨ky, vy⟩ := y
    simp only [List.map_cons, List.mem_cons, not_or] at h
    rw [tlk_ne h.1]
    exact ih h.2

theorem key_of_lookup {α : Type} (l : List (String × α)) (k : String) (v : α) (h : l.lookup k = some v) :
    k ∈ l.map (·.1) := by
  by_cases hk : k ∈ l.map (·.1)
  · exact hk
  · rw [lookup_none_of_not_key l k hk] at h; cases h

/-- in a dictionary (distinct keys) looking a key up from the back or from the front is the same -/
theorem lookup_reverse_nodup {α : Type} (l : List (String × α)) (hd : (l.map (·.1)).Nodup) (k : String) :
    l.reverse.lookup k = l.lookup k := by
  induction l with
  | nil => simp
  | cons y l ih =>
    obtain ⟨ky, vy⟩ := y
    simp only [List.map_cons, List.nodup_cons] at hd
    simp only [List.reverse_cons]
    rw [lookup_append_one, ih hd.2]
    by_cases h : k = ky
    · subst h
      rw [lookup_none_of_not_key l k hd.1]
      simp
    · rw [tlk_ne h]
      cases l.lookup k <;> simp [h]

/-- dictionary semantics of the merge: the line's value if the line has the key, else the link-wide one -/
theorem lookup_dmerge {α : Type} (wide line : List (String × α)) (hd : (line.map (·.1)).Nodup) (k : String) :
    (dmerge wide line).lookup k = (line.lookup k).or (wide.lookup k) := by
  rw [lookup_dmerge_rev, lookup_reverse_nodup line hd]

/-! ### keys stay distinct -/

theorem keys_dset {α : Type} (a : List (String × α)) (k : String) (v : α) :
    (dset a k v).map (·.1) = if k ∈ a.map (·.1) then a.map (·.1) else a.map (·.1) ++ [k] := by
  induction a with
  | nil => simp [dset]
  | cons x rest ih =>
    obtain ⟨kx, vx⟩ := x
    simp only [dset]
    by_cases hx : kx = k
    · subst hx; simp
    · have : (kx == k) = false := by simp [hx]
      simp only [this, Bool.false_eq_true, if_false, List.map_cons, ih, List.mem_cons]
      have hne : ¬ k = kx := fun h => hx h.symm
      by_cases hm : k ∈ rest.map (·.1)
      · simp [hm]
      · simp [hm, hne]

theorem nodup_dset {α : Type} (a : List (String × α)) (k : String) (v : α) (h : (a.map (·.1)).Nodup) :
    ((dset a k v).map (·.1)).Nodup := by
  rw [keys_dset]
  split
  · exact h
  · rename_i hk
    rw [List.nodup_append]
    refine ⟨h, by simp, ?_⟩
    intro x hx y hy
    simp only [List.mem_singleton] at hy
    subst hy
    intro hxy
    subst hxy
    exact hk hx

theorem nodup_dmerge {α : Type} (wide line : List (String × α)) (h : (wide.map (·.1)).Nodup) :
    ((dmerge wide line).map (·.1)).Nodup := by
  unfold dmerge
  induction line generalizing wide with
  | nil => simpa using h
  | cons x rest ih =>
    simp only [List.foldl_cons]
    exact ih _ (nodup_dset wide x.1 x.2 h)

/-- in a dictionary, membership of an entry is what `lookup` says -/
theorem mem_iff_lookup {α : Type} (l : List (String × α)) (hd : (l.map (·.1)).Nodup) (k : String) (v : α) :
    (k, v) ∈ l ↔ l.lookup k = some v := by
  induction l with
  | nil => simp
  | cons y l ih =>
    obtain ⟨ky, vy⟩ := y
    simp only [List.map_cons, List.nodup_cons] at hd
    by_cases h : k = ky
    · subst h
      simp only [List.mem_cons, Prod.mk.injEq, true_and, List.lookup_cons, beq_self_eq_true]
      constructor
      · rintro (h1 | h1)
        · simp [h1]
        · exact absurd (List.mem_map_of_mem (f := (·.1)) h1) hd.1
      · intro h1
        simp only [Option.some.injEq] at h1
        exact Or.inl h1.symm
    · rw [tlk_ne h]
      simp only [List.mem_cons, Prod.mk.injEq, h, false_and, false_or]
      exact ih hd.2

/-- `all` over a dictionary, stated through `lookup` -/
theorem all_iff_lookup {α : Type} (l : List (String × α)) (hd : (l.map (·.1)).Nodup) (P : String × α → Bool) :
    l.all P = true ↔ ∀ k v, l.lookup k = some v → P (k, v) = true := by
  rw [List.all_eq_true]
  constructor
  · intro h k v hl
    exact h (k, v) ((mem_iff_lookup l hd k v).2 hl)
  · intro h x hx
    obtain ⟨k, v⟩ := x
    exact h k v ((mem_iff_lookup l hd k v).1 hx)

theorem lookup_filter_notin {α : Type} (wide line : List (String × α)) (k : String) :
    (wide.filter fun kv => !(line.any (·.1 == kv.1))).lookup k =
      if k ∈ line.map (·.1) then none else wide.lookup k := by
  induction wide with
  | nil => simp
  | cons y w ih =>
    obtain ⟨ky, vy⟩ := y
    simp only [List.filter_cons]
    by_cases hin : ky ∈ line.map (·.1)
    · have : (line.any fun x => x.1 == ky) = true := by
        simp only [List.any_eq_true, beq_iff_eq]
        obtain ⟨x, hx, hxe⟩ := List.mem_map.1 hin
        exact ⟨x, hx, hxe⟩
      simp only [this, Bool.not_true, Bool.false_eq_true, if_false, ih]
      by_cases h : k = ky
      · subst h; simp [hin]
      · rw [tlk_ne h]
    · have : (line.any fun x => x.1 == ky) = false := by
        rw [Bool.eq_false_iff]
        intro hc
        simp only [List.any_eq_true, beq_iff_eq] at hc
        obtain ⟨x, hx, hxe⟩ := hc
        exact hin (List.mem_map.2 ⟨x, hx, hxe⟩)
      simp only [this, Bool.not_false, if_true]
      by_cases h : k = ky
      · subst h; simp [hin]
      · rw [tlk_ne h, tlk_ne h, ih]

theorem nodup_filter_keys {α : Type} (l : List (String × α)) (p : String × α → Bool) (h : (l.map (·.1)).Nodup) :
    ((l.filter p).map (·.1)).Nodup := by
  induction l with
  | nil => simp
  | cons y l ih =>
    simp only [List.map_cons, List.nodup_cons] at h
    simp only [List.filter_cons]
    split
    · simp only [List.map_cons, List.nodup_cons]
      refine ⟨?_, ih h.2⟩
      intro hc
      obtain ⟨x, hx, hxe⟩ := List.mem_map.1 hc
      exact h.1 (List.mem_map.2 ⟨x, (List.mem_filter.1 hx).1, hxe⟩)
    · exact ih h.2

end C05
