import VermouthModel.C13_Reader
import VermouthProofs.C13_MappingProofs2
/-!
C13 — macros are substituted with the definitions in force at the line (a `[ macros ]` section may come
any number of times and redefine a name), and a `[ non-edges ]` line records the link-wide attributes.
-/
namespace C13

/-- the section path and the macro definitions in force after the lines `pre` -/
def defsAfter (T : List Path) : Path → List (String × String) → List Line → Option (Path × List (String × String))
  | sec, ms, [] => some (sec, ms)
  | sec, ms, .header n :: r => defsAfter T (nextSec T sec n) ms r
  | sec, ms, .content t :: r =>
    match substMacros ms t with
    | none => none
    | some t' =>
      if sec = ["macros"] then
        match parseMacro t' with
        | none => none
        | some d => defsAfter T sec (ms ++ [d]) r
      else defsAfter T sec ms r

theorem expand_in_force (T : List Path) (pre : List Line) :
    ∀ (sec : Path) (ms : List (String × String)) (t : String) (post out : List Line),
      expandMacros T sec ms (pre ++ .content t :: post) = some out →
      ∃ sec' ms' t', defsAfter T sec ms pre = some (sec', ms') ∧ substMacros ms' t = some t' ∧
        out[pre.length]? = some (.content t') := by
  induction pre with
  | nil =>
    intro sec ms t post out h
    simp only [List.nil_append, expandMacros] at h
    cases hs : substMacros ms t with
    | none => rw [hs] at h; cases h
    | some t' =>
      rw [hs] at h
      simp only at h
      refine ⟨sec, ms, t', rfl, hs, ?_⟩
      split at h
      · cases hp : parseMacro t' with
        | none => rw [hp] at h; cases h
        | some d =>
          rw [hp] at h
          simp only [Option.map_eq_some_iff] at h
          obtain ⟨r, _, rfl⟩ := h
          rfl
      · simp only [Option.map_eq_some_iff] at h
        obtain ⟨r, _, rfl⟩ := h
        rfl
  | cons l pre ih =>
    intro sec ms t post out h
    cases l with
    | header n =>
      simp only [List.cons_append, expandMacros, Option.map_eq_some_iff] at h
      obtain ⟨r, hr, rfl⟩ := h
      obtain ⟨sec', ms', t', h1, h2, h3⟩ := ih _ ms t post r hr
      exact ⟨sec', ms', t', by simpa [defsAfter] using h1, h2, by simpa using h3⟩
    | content u =>
      simp only [List.cons_append, expandMacros] at h
      cases hs : substMacros ms u with
      | none => rw [hs] at h; cases h
      | some u' =>
        rw [hs] at h
        simp only at h
        by_cases hm : sec = ["macros"]
        · rw [if_pos hm] at h
          cases hp : parseMacro u' with
          | none => rw [hp] at h; cases h
          | some d =>
            rw [hp] at h
            simp only [Option.map_eq_some_iff] at h
            obtain ⟨r, hr, rfl⟩ := h
            obtain ⟨sec', ms', t', h1, h2, h3⟩ := ih _ _ t post r hr
            refine ⟨sec', ms', t', ?_, h2, by simpa using h3⟩
            simp only [defsAfter, hs, hm, if_true, hp]
            rw [hm] at h1; exact h1
        · rw [if_neg hm] at h
          simp only [Option.map_eq_some_iff] at h
          obtain ⟨r, hr, rfl⟩ := h
          obtain ⟨sec', ms', t', h1, h2, h3⟩ := ih _ _ t post r hr
          refine ⟨sec', ms', t', ?_, h2, by simpa using h3⟩
          simp only [defsAfter, hs, hm, if_false]
          exact h1

theorem lookupMacro_last (ms : List (String × String)) (n v : String) :
    lookupMacro (ms ++ [(n, v)]) n = some v ∧
    ∀ n', n' ≠ n → lookupMacro (ms ++ [(n, v)]) n' = lookupMacro ms n' := by
  constructor
  · simp [lookupMacro]
  · intro n' hne
    have : ¬ n = n' := fun h => hne h.symm
    simp [lookupMacro, this]

theorem edgeLine_non_edge (line : String) (c c' : Ctx) (h : edgeLine .link true line c = some c') :
    ∃ k0 x, c'.nonEdges = c.nonEdges ++ [nonEdgeOf c k0 x] ∧ c'.nodes = c.nodes ∧ c'.inters = c.inters ∧
      c'.allNodes = c.allNodes := by
  unfold edgeLine at h
  simp only [Option.bind_eq_bind, Option.pure_def, Bool.and_eq_true, bne_self_eq_false, Bool.false_eq_true,
    and_false, if_false, if_true] at h
  cases ht : tokenizeS line with
  | none => rw [ht] at h; cases h
  | some toks =>
    rw [ht] at h
    simp only [Option.bind_some] at h
    cases ha : atomsWithAttrs (some 2) false toks with
    | none => rw [ha] at h; cases h
    | some ar =>
      rw [ha] at h
      simp only [Option.bind_some] at h
      cases hk : ar.1.mapM (fun (x : String × Attrs) => (treatAtomPrefix x.1.toList x.2).map fun x => String.ofList x.1) with
      | none => rw [hk] at h; cases h
      | some keys =>
        rw [hk] at h
        simp only [Option.bind_some] at h
        split at h
        next k0 k1 =>
          split at h
          next _x0 r1 a1 _heq =>
            cases hx : treatAtomPrefix r1.toList a1 with
            | none => rw [hx] at h; cases h
            | some x =>
              rw [hx] at h
              simp only [Option.map_some, Option.some.injEq] at h
              subst h
              exact ⟨k0, x.2, rfl, rfl, rfl, rfl⟩
          · cases h
        · cases h

theorem attrsUpdate_eq (a b : Attrs) : attrsUpdate a b = Mapping.updAttrs a b := rfl

end C13
