import VermouthModel.C13
/-!
# C13 — component lemmas: tokenizer, atom prefix / order, arity, weights, macros

Proofs about the executable models of `VermouthModel/C13.lean`, sections 2-6:

* A. `tokenize` (`_tokenize`): rejects unbalanced braces, every token is balanced and non-empty,
  no non-separator character is lost, a line of bare words tokenizes to these words;
* B. `treatAtomPrefix` (`_treat_atom_prefix`): a prefix and the equivalent `order` attribute give the
  same result, a conflicting prefix / attribute pair is rejected, the result always carries
  `order` and `atomname`;
* C. `baseAtoms` (`_get_atoms` + arity check of `_base_parser`);
* D. `computeWeights` (`_compute_weights`): conflict rejection, the weight formula, weights of one
  source atom sum to one, denominators are positive;
* E. `substMacrosAux` (`_substitute_macros`).
-/
namespace C13

/-! ## A. `_tokenize` -/

/-- brace balance of a character list -/
def bal (l : List Char) : Int := (l.count '{' : Int) - (l.count '}' : Int)

def dlt (c : Char) : Int := if c = '{' then 1 else if c = '}' then -1 else 0

theorem bal_nil : bal [] = 0 := by simp [bal]

theorem bal_cons (c : Char) (t : List Char) : bal (c :: t) = bal t + dlt c := by
  unfold bal dlt
  by_cases h1 : c = '{'
  · subst h1; simp; omega
  · by_cases h2 : c = '}'
    · subst h2; simp; omega
    · simp [h1, h2]

theorem bal_reverse (t : List Char) : bal t.reverse = bal t := by
  simp [bal, List.count_reverse]

theorem bal_append (a b : List Char) : bal (a ++ b) = bal a + bal b := by
  simp [bal, List.count_append]; omega

theorem isSep_dlt {c : Char} (h : isSep c = true) : dlt c = 0 := by
  unfold isSep at h; unfold dlt
  have : c ≠ '{' := by intro e; subst e; simp at h
  have : c ≠ '}' := by intro e; subst e; simp at h
  simp [*]

/-- state invariant -/
def TokInv (s : TokSt) : Prop :=
  (∀ t ∈ s.done, bal t = 0 ∧ t ≠ []) ∧
  (match s.cur with
   | none => s.br = 0
   | some t => bal t = s.br ∧ t ≠ [])

theorem tokInv_init : TokInv {} := by
  simp [TokInv]

theorem dlt_open : dlt '{' = 1 := by decide
theorem dlt_close : dlt '}' = -1 := by decide
theorem dlt_other {c : Char} (h1 : c ≠ '{') (h2 : c ≠ '}') : dlt c = 0 := by simp [dlt, h1, h2]

theorem tokStep_inv (s : TokSt) (c : Char) (h : TokInv s) :
    TokInv (tokStep s c) ∧ (tokStep s c).br = s.br + dlt c := by
  obtain ⟨done, cur, br⟩ := s
  obtain ⟨hd, hc⟩ := h
  cases cur with
  | none =>
    simp only at hc hd
    subst hc
    unfold tokStep
    simp only
    by_cases hs : isSep c = true
    · simp [hs, TokInv, isSep_dlt hs]; exact hd
    · by_cases h1 : c = '{'
      · subst h1; simp [hs, TokInv, dlt_open, bal_cons, bal_nil]; exact hd
      · by_cases h2 : c = '}'
        · subst h2; simp [hs, TokInv, dlt_close, bal_cons, bal_nil]; exact hd
        · simp [hs, h1, h2, TokInv, dlt_other h1 h2, bal_cons, bal_nil]; exact hd
  | some t =>
    simp only at hc hd
    obtain ⟨hb, hne⟩ := hc
    unfold tokStep
    simp only
    by_cases h1 : c = '{'
    · subst h1
      by_cases h0 : br = 0
      · subst h0
        simp [TokInv, dlt_open, bal_cons, bal_nil, bal_reverse, hne, hb]; exact hd
      · simp [h0, TokInv, dlt_open, bal_cons, hb]; exact hd
    · by_cases h2 : c = '}'
      · subst h2
        by_cases h0 : br - 1 = 0
        · simp [h0, closeTok, TokInv, dlt_close, bal_reverse, bal_append, bal_cons, bal_nil, hb]
          refine ⟨⟨by omega, hd⟩, by omega⟩
        · simp [h0, TokInv, dlt_close, bal_cons, hb]; refine ⟨⟨hd, by omega⟩, by omega⟩
      · by_cases hs : isSep c = true
        · by_cases h0 : br = 0
          · subst h0
            simp [h1, h2, hs, closeTok, TokInv, dlt_other h1 h2, bal_reverse, hne, hb]; exact hd
          · simp [h1, h2, hs, h0, TokInv, dlt_other h1 h2, bal_cons, hb]; exact hd
        · simp [h1, h2, hs, TokInv, dlt_other h1 h2, bal_cons, hb]; exact hd

theorem tokFold_inv (cs : List Char) (s : TokSt) (h : TokInv s) :
    TokInv (cs.foldl tokStep s) ∧ (cs.foldl tokStep s).br = s.br + bal cs := by
  induction cs generalizing s with
  | nil => simp [bal_nil, h]
  | cons c cs ih =>
    obtain ⟨h1, h2⟩ := tokStep_inv s c h
    obtain ⟨h3, h4⟩ := ih (tokStep s c) h1
    refine ⟨h3, ?_⟩
    simp only [List.foldl_cons, h4, h2, bal_cons]; omega

theorem tokFinish_inv (s : TokSt) (h : TokInv s) (toks : List (List Char))
    (hf : tokFinish s = some toks) : s.br = 0 ∧ ∀ t ∈ toks, bal t = 0 ∧ t ≠ [] := by
  obtain ⟨done, cur, br⟩ := s
  obtain ⟨hd, hc⟩ := h
  cases cur with
  | none =>
    simp only at hc hd
    simp [tokFinish] at hf
    subst hf
    refine ⟨hc, ?_⟩
    intro t ht
    exact hd t (by simpa using ht)
  | some t =>
    simp only at hc hd
    simp [tokFinish, closeTok] at hf
    obtain ⟨hb, hf⟩ := hf
    subst hf
    refine ⟨hb, ?_⟩
    intro u hu
    simp at hu
    rcases hu with hu | hu
    · exact hd u hu
    · subst hu; simp [bal_reverse, hc.1, hb, hc.2]

theorem tokenize_inv {cs : List Char} {toks : List (List Char)} (h : tokenize cs = some toks) :
    bal cs = 0 ∧ ∀ t ∈ toks, bal t = 0 ∧ t ≠ [] := by
  unfold tokenize at h
  obtain ⟨h1, h2⟩ := tokFold_inv cs {} tokInv_init
  obtain ⟨h3, h4⟩ := tokFinish_inv _ h1 toks h
  refine ⟨?_, h4⟩
  rw [h2] at h3; simpa using h3

theorem bal_zero_iff (l : List Char) : bal l = 0 ↔ l.count '{' = l.count '}' := by
  unfold bal; omega

theorem tokenize_balanced {cs : List Char} {toks : List (List Char)}
    (h : tokenize cs = some toks) : cs.count '{' = cs.count '}' :=
  (bal_zero_iff cs).1 (tokenize_inv h).1

/-- A1 -/
theorem tokenize_rejects_unbalanced {cs : List Char} (h : cs.count '{' ≠ cs.count '}') :
    tokenize cs = none := by
  cases hT : tokenize cs with
  | none => rfl
  | some toks => exact absurd (tokenize_balanced hT) h

/-- A2 -/
theorem tokenize_tokens_balanced {cs : List Char} {toks : List (List Char)}
    (h : tokenize cs = some toks) : ∀ t ∈ toks, t.count '{' = t.count '}' :=
  fun t ht => (bal_zero_iff t).1 ((tokenize_inv h).2 t ht).1

/-- A3 -/
theorem tokenize_nonempty {cs : List Char} {toks : List (List Char)}
    (h : tokenize cs = some toks) : ∀ t ∈ toks, t ≠ [] :=
  fun t ht => ((tokenize_inv h).2 t ht).2

/-! ### A4: no character is lost -/

def tokContent (s : TokSt) : List Char :=
  s.done.reverse.flatten ++ (match s.cur with | some t => t.reverse | none => [])

def nsf (l : List Char) : List Char := l.filter (fun c => !isSep c)

theorem nsf_append (a b : List Char) : nsf (a ++ b) = nsf a ++ nsf b := by simp [nsf]

theorem nsf_single_sep {c : Char} (h : isSep c = true) : nsf [c] = [] := by simp [nsf, h]

theorem tokStep_content (s : TokSt) (c : Char) :
    nsf (tokContent (tokStep s c)) = nsf (tokContent s ++ [c]) := by
  obtain ⟨done, cur, br⟩ := s
  cases cur with
  | none =>
    unfold tokStep
    simp only
    by_cases hs : isSep c = true
    · simp [hs, tokContent, nsf_append, nsf_single_sep hs]
    · by_cases h1 : c = '{'
      · subst h1; simp [hs, tokContent]
      · by_cases h2 : c = '}'
        · subst h2; simp [hs, tokContent]
        · simp [hs, h1, h2, tokContent]
  | some t =>
    unfold tokStep
    simp only
    by_cases h1 : c = '{'
    · subst h1
      by_cases h0 : br = 0
      · simp [h0, tokContent]
      · simp [h0, tokContent]
    · by_cases h2 : c = '}'
      · subst h2
        by_cases h0 : br - 1 = 0
        · simp [h0, closeTok, tokContent]
        · simp [h0, tokContent]
      · by_cases hs : isSep c = true
        · by_cases h0 : br = 0
          · simp [h1, h2, hs, h0, closeTok, tokContent, nsf_append, nsf_single_sep hs]
          · simp [h1, h2, hs, h0, tokContent]
        · simp [h1, h2, hs, tokContent]

theorem tokFold_content (cs : List Char) (s : TokSt) :
    nsf (tokContent (cs.foldl tokStep s)) = nsf (tokContent s ++ cs) := by
  induction cs generalizing s with
  | nil => simp
  | cons c cs ih =>
    simp only [List.foldl_cons]
    rw [ih, nsf_append, tokStep_content, nsf_append, nsf_append]
    have : c :: cs = [c] ++ cs := rfl
    rw [this, nsf_append, List.append_assoc]

theorem tokFinish_content (s : TokSt) (toks : List (List Char)) (h : tokFinish s = some toks) :
    toks.flatten = tokContent s := by
  obtain ⟨done, cur, br⟩ := s
  cases cur with
  | none => simp [tokFinish] at h; subst h; simp [tokContent]
  | some t =>
    simp [tokFinish, closeTok] at h
    obtain ⟨_, h⟩ := h
    subst h; simp [tokContent]

/-- A4 -/
theorem tokenize_no_loss {cs : List Char} {toks : List (List Char)} (h : tokenize cs = some toks) :
    toks.flatten.filter (fun c => !isSep c) = cs.filter (fun c => !isSep c) := by
  unfold tokenize at h
  have h1 := tokFinish_content _ _ h
  have h2 := tokFold_content cs {}
  rw [← h1] at h2
  simpa [nsf, tokContent] using h2

/-! ### A5: bare words -/

/-- a character of a bare word: no separator, no brace -/
def WordChar (c : Char) : Prop := isSep c = false ∧ c ≠ '{' ∧ c ≠ '}'

theorem word_fold (w : List Char) (hw : ∀ c ∈ w, WordChar c) :
    ∀ (d : List (List Char)) (t : List Char),
      w.foldl tokStep { done := d, cur := some t, br := 0 }
        = { done := d, cur := some (w.reverse ++ t), br := 0 } := by
  induction w with
  | nil => intro d t; rfl
  | cons c w ih =>
    intro d t
    obtain ⟨h1, h2, h3⟩ := hw c (by simp)
    have hs : tokStep { done := d, cur := some t, br := 0 } c = { done := d, cur := some (c :: t), br := 0 } := by
      simp [tokStep, h1, h2, h3]
    rw [List.foldl_cons, hs, ih (fun x hx => hw x (by simp [hx]))]
    simp

theorem word_start (w : List Char) (hne : w ≠ []) (hw : ∀ c ∈ w, WordChar c) (d : List (List Char)) :
    w.foldl tokStep { done := d, cur := none, br := 0 }
      = { done := d, cur := some w.reverse, br := 0 } := by
  cases w with
  | nil => exact absurd rfl hne
  | cons c w =>
    obtain ⟨h1, h2, h3⟩ := hw c (by simp)
    have hs : tokStep { done := d, cur := none, br := 0 } c = { done := d, cur := some [c], br := 0 } := by
      simp [tokStep, h1, h2, h3]
    rw [List.foldl_cons, hs, word_fold w (fun x hx => hw x (by simp [hx]))]
    simp

theorem words_fold (ws : List (List Char)) (h : ∀ w ∈ ws, w ≠ [] ∧ ∀ c ∈ w, WordChar c) :
    ∀ d : List (List Char),
      tokFinish ((List.intercalate [' '] ws).foldl tokStep { done := d, cur := none, br := 0 })
        = some (d.reverse ++ ws) := by
  induction ws with
  | nil => intro d; simp [List.intercalate, tokFinish]
  | cons w ws ih =>
    intro d
    obtain ⟨hne, hw⟩ := h w (by simp)
    cases ws with
    | nil =>
      simp [List.intercalate, word_start w hne hw d, tokFinish, closeTok]
    | cons w' ws =>
      have hi : List.intercalate [' '] (w :: w' :: ws) = w ++ ' ' :: List.intercalate [' '] (w' :: ws) := by
        simp [List.intercalate]
      have hs : tokStep { done := d, cur := some w.reverse, br := 0 } ' '
          = { done := w :: d, cur := none, br := 0 } := by
        simp [tokStep, closeTok, isSep]
      rw [hi, List.foldl_append, word_start w hne hw d, List.foldl_cons, hs,
        ih (fun x hx => h x (by simp [hx])) (w :: d)]
      simp

/-- A5 -/
theorem tokenize_words (ws : List (List Char))
    (h : ∀ w ∈ ws, w ≠ [] ∧ ∀ c ∈ w, isSep c = false ∧ c ≠ '{' ∧ c ≠ '}') :
    tokenize (List.intercalate [' '] ws) = some ws := by
  have := words_fold ws h []
  simpa [tokenize] using this

example : tokenize "BB  {a b} c{d}".toList = some ["BB".toList, "{a b}".toList, "c".toList, "{d}".toList] := by
  decide
example : tokenize "a {b".toList = none := by decide
example : tokenize "a }b{".toList = some ["a".toList, "}b{".toList] := by decide

/-! ## B. `_treat_atom_prefix` -/

def GoodBase (base : List Char) : Prop := ∃ b rest, base = b :: rest ∧ isPrefixChar b = false

theorem dictSet_of_get_none (a : Attrs) (k : String) (v : JVal) (h : Attrs.get a k = none) :
    dictSet a k v = a ++ [(k, v)] := by
  induction a with
  | nil => rfl
  | cons e a ih =>
    obtain ⟨k', v'⟩ := e
    simp only [Attrs.get] at h
    by_cases hk : k' = k
    · simp [hk] at h
    · simp only [hk, if_false] at h
      simp [dictSet, hk, ih h]

theorem get_dictSet_self (a : Attrs) (k : String) (v : JVal) :
    Attrs.get (dictSet a k v) k = some v := by
  induction a with
  | nil => simp [dictSet, Attrs.get]
  | cons e a ih =>
    obtain ⟨k', v'⟩ := e
    by_cases hk : k' = k
    · simp [dictSet, hk, Attrs.get]
    · simp [dictSet, hk, Attrs.get, ih]

theorem get_dictSet_other (a : Attrs) (k k2 : String) (v : JVal) (hne : k ≠ k2) :
    Attrs.get (dictSet a k v) k2 = Attrs.get a k2 := by
  induction a with
  | nil => simp [dictSet, Attrs.get, hne]
  | cons e a ih =>
    obtain ⟨k', v'⟩ := e
    by_cases hk : k' = k
    · subst hk; simp [dictSet, Attrs.get, hne]
    · simp only [dictSet, hk, if_false, Attrs.get, ih]

theorem get_append_of_none (a b : Attrs) (k : String) (h : Attrs.get a k = none) :
    Attrs.get (a ++ b) k = Attrs.get b k := by
  induction a with
  | nil => rfl
  | cons e a ih =>
    obtain ⟨k', v'⟩ := e
    simp only [Attrs.get] at h
    by_cases hk : k' = k
    · simp [hk] at h
    · simp only [hk, if_false] at h
      simp [Attrs.get, hk, ih h]

theorem eraseDups_replicate_succ (n : Nat) (c : Char) :
    (List.replicate (n + 1) c).eraseDups = [c] := by
  rw [List.replicate_succ, List.eraseDups_cons]
  have : List.filter (fun b => !b == c) (List.replicate n c) = [] := by
    simp
  rw [this]; rfl

theorem eraseDups_replicate_le (n : Nat) (c : Char) :
    (List.replicate n c).eraseDups.length ≤ 1 := by
  cases n with
  | zero => simp
  | succ n => simp [eraseDups_replicate_succ]

theorem splitNodeKey_replicate (n : Nat) (c : Char) (base : List Char)
    (hc : isPrefixChar c = true) (hb : GoodBase base) :
    splitNodeKey (List.replicate n c ++ base) = some (List.replicate n c, base) := by
  obtain ⟨b, rest, rfl, hb⟩ := hb
  have h1 : List.takeWhile isPrefixChar (List.replicate n c ++ b :: rest) = List.replicate n c := by
    rw [List.takeWhile_append]
    simp [hc, hb]
  have h2 : List.dropWhile isPrefixChar (List.replicate n c ++ b :: rest) = b :: rest := by
    rw [List.dropWhile_append]
    simp [hc, hb]
  unfold splitNodeKey
  simp only [h1, h2]
  have := eraseDups_replicate_le n c
  simp
  omega

theorem splitNodeKey_base (base : List Char) (hb : GoodBase base) :
    splitNodeKey base = some ([], base) := by
  have := splitNodeKey_replicate 0 '+' base (by decide) hb
  simpa using this

theorem order_ne_atomname : ("order" : String) ≠ "atomname" := by decide

/-- B1 -/
theorem prefix_order_equiv_sign (c : Char) (n : Nat) (base : List Char) (a : Attrs)
    (hc : c = '+' ∨ c = '-') (hb : GoodBase base) (ha : Attrs.get a "order" = none) :
    treatAtomPrefix (List.replicate n c ++ base) a
      = treatAtomPrefix base (a ++ [("order", JVal.int (if c = '+' then (n : Int) else -(n : Int)))]) := by
  have hpc : isPrefixChar c = true := by rcases hc with rfl | rfl <;> decide
  unfold treatAtomPrefix
  rw [splitNodeKey_replicate n c base hpc hb, splitNodeKey_base base hb]
  have hA : orderFromAttrs a = some ([], none) := by simp [orderFromAttrs, ha]
  have hget : Attrs.get (a ++ [("order", JVal.int (if c = '+' then (n : Int) else -(n : Int)))]) "order"
      = some (JVal.int (if c = '+' then (n : Int) else -(n : Int))) := by
    rw [get_append_of_none _ _ _ ha]; simp [Attrs.get]
  have hA' : orderFromAttrs (a ++ [("order", JVal.int (if c = '+' then (n : Int) else -(n : Int)))])
      = some (List.replicate n c, some (JVal.int (if c = '+' then (n : Int) else -(n : Int)))) := by
    unfold orderFromAttrs
    rw [hget]
    simp only [replicateChar]
    rcases hc with rfl | rfl
    · cases n with
      | zero => simp
      | succ n => simp; omega
    · cases n with
      | zero => simp
      | succ n => simp; omega
  rw [hA, hA']
  have hds := fun v => dictSet_of_get_none a "order" v ha
  cases n with
  | zero =>
    simp [orderFromPrefix, Attrs.set, hds]
  | succ n =>
    rcases hc with rfl | rfl
    · simp [orderFromPrefix, List.replicate_succ, Attrs.set, hds]
    · simp [orderFromPrefix, List.replicate_succ, Attrs.set, hds]


/-- B2 -/
theorem prefix_order_equiv_sym (c : Char) (n : Nat) (base : List Char) (a : Attrs)
    (hc : c = '>' ∨ c = '<' ∨ c = '*') (hn : 1 ≤ n) (hb : GoodBase base)
    (ha : Attrs.get a "order" = none) :
    treatAtomPrefix (List.replicate n c ++ base) a
      = treatAtomPrefix base (a ++ [("order", JVal.str (String.ofList (List.replicate n c)))]) := by
  have hpc : isPrefixChar c = true := by rcases hc with rfl | rfl | rfl <;> decide
  obtain ⟨m, rfl⟩ : ∃ m, n = m + 1 := ⟨n - 1, by omega⟩
  unfold treatAtomPrefix
  rw [splitNodeKey_replicate (m + 1) c base hpc hb, splitNodeKey_base base hb]
  have hA : orderFromAttrs a = some ([], none) := by simp [orderFromAttrs, ha]
  have hget : Attrs.get (a ++ [("order", JVal.str (String.ofList (List.replicate (m + 1) c)))]) "order"
      = some (JVal.str (String.ofList (List.replicate (m + 1) c))) := by
    rw [get_append_of_none _ _ _ ha]; simp [Attrs.get]
  have hA' : orderFromAttrs (a ++ [("order", JVal.str (String.ofList (List.replicate (m + 1) c)))])
      = some (List.replicate (m + 1) c, some (JVal.str (String.ofList (List.replicate (m + 1) c)))) := by
    unfold orderFromAttrs
    rw [hget]
    simp only [String.toList_ofList, eraseDups_replicate_succ]
    simp only [List.replicate_succ]
    rcases hc with rfl | rfl | rfl <;> simp
  rw [hA, hA']
  have hds := fun v => dictSet_of_get_none a "order" v ha
  have h1 : c ≠ '+' := by rcases hc with rfl | rfl | rfl <;> decide
  have h2 : c ≠ '-' := by rcases hc with rfl | rfl | rfl <;> decide
  simp [orderFromPrefix, List.replicate_succ, Attrs.set, hds, h1, h2]

theorem orderFromAttrs_some {a : Attrs} {preA : List Char} {ordA : Option JVal}
    (h : orderFromAttrs a = some (preA, ordA)) :
    ordA = none ∨ (Attrs.get a "order" = ordA ∧ ordA ≠ some JVal.null) := by
  unfold orderFromAttrs at h
  split at h
  · simp at h; exact Or.inl h.2.symm
  · simp at h; exact Or.inl h.2.symm
  · rename_i i hi
    simp at h; right; rw [hi, ← h.2]; simp
  · rename_i s hs
    simp only at h
    split at h
    · simp at h
    · split at h
      · simp at h; right; rw [hs, ← h.2]; simp
      · simp at h
  · simp at h

theorem all_eq_replicate {c : Char} {pre : List Char} (h : ∀ x ∈ pre, x = c) :
    pre = List.replicate pre.length c := by
  induction pre with
  | nil => rfl
  | cons x pre ih =>
    have hx : x = c := h x (by simp)
    subst hx
    rw [List.length_cons, List.replicate_succ]
    congr 1
    exact ih (fun y hy => h y (by simp [hy]))

/-- B3 -/
theorem prefix_order_conflict_rejected (c : Char) (pre base : List Char) (a : Attrs) (v : JVal)
    (hpre : pre ≠ []) (hall : ∀ x ∈ pre, x = c) (hpc : isPrefixChar c = true) (hb : GoodBase base)
    (ha : Attrs.get a "order" = some v) (hv : v ≠ JVal.null)
    (hne : v ≠ (orderFromPrefix pre).2) :
    treatAtomPrefix (pre ++ base) a = none := by
  unfold treatAtomPrefix
  rw [all_eq_replicate hall, splitNodeKey_replicate _ c base hpc hb, ← all_eq_replicate hall]
  cases hA : orderFromAttrs a with
  | none => rfl
  | some r =>
    obtain ⟨preA, ordA⟩ := r
    have hord : ordA = some v := by
      unfold orderFromAttrs at hA
      rw [ha] at hA
      cases v with
      | null => exact absurd rfl hv
      | int i => simp at hA; exact hA.2.symm
      | bool b => simp at hA
      | other r => simp at hA
      | choice l => simp at hA
      | notP r => simp at hA
      | str s =>
        simp only at hA
        split at hA
        · simp at hA
        · split at hA
          · simp at hA; exact hA.2.symm
          · simp at hA
    subst hord
    have hP : (orderFromPrefix pre).1.isSome = true := by
      cases pre with
      | nil => exact absurd rfl hpre
      | cons x xs =>
        unfold orderFromPrefix; simp only
        split
        · rfl
        · split <;> rfl
    simp only
    have : (some v != some (orderFromPrefix pre).2) = true := by simp [hne]
    simp [hP, this]


theorem atomname_step (a1 : Attrs) (v : JVal) (h1 : (Attrs.get a1 "order").isSome = true) :
    (Attrs.get (if (Attrs.get a1 "atomname").isNone then Attrs.set a1 "atomname" v else a1) "order").isSome
      = true ∧
    (Attrs.get (if (Attrs.get a1 "atomname").isNone then Attrs.set a1 "atomname" v else a1)
      "atomname").isSome = true := by
  by_cases hn : (Attrs.get a1 "atomname").isNone = true
  · rw [if_pos hn]
    refine ⟨?_, ?_⟩
    · simp only [Attrs.set]
      rw [get_dictSet_other _ _ _ _ (Ne.symm order_ne_atomname)]
      exact h1
    · simp [Attrs.set, get_dictSet_self]
  · rw [if_neg hn]
    refine ⟨h1, ?_⟩
    cases hg : Attrs.get a1 "atomname" with
    | none => simp [hg] at hn
    | some x => rfl

/-- B4 -/
theorem prefix_result_order {ref : List Char} {a : Attrs} {key : List Char} {a' : Attrs}
    (h : treatAtomPrefix ref a = some (key, a')) :
    (Attrs.get a' "order").isSome ∧ (Attrs.get a' "atomname").isSome := by
  unfold treatAtomPrefix at h
  cases hS : splitNodeKey ref with
  | none => simp [hS] at h
  | some pb =>
    obtain ⟨pre, base⟩ := pb
    cases hA : orderFromAttrs a with
    | none => simp [hS, hA] at h
    | some r =>
      obtain ⟨preA, ordA⟩ := r
      simp only [hS, hA] at h
      split at h
      · simp at h
      · simp only [Option.some.injEq, Prod.mk.injEq] at h
        obtain ⟨_, h⟩ := h
        have h1 : (Attrs.get (if ordA.isNone then Attrs.set a "order" (orderFromPrefix pre).2 else a)
            "order").isSome = true := by
          cases ordA with
          | none => simp [Attrs.set, get_dictSet_self]
          | some o =>
            rcases orderFromAttrs_some hA with h0 | ⟨h0, _⟩
            · simp at h0
            · simp [h0]
        rw [← h]
        exact atomname_step _ _ h1

/-! B5: non-vacuity -/
example : treatAtomPrefix "++BB".toList []
    = some ("++BB".toList, [("order", .int 2), ("atomname", .str "BB")]) := by decide
example : treatAtomPrefix "BB".toList [("order", .int 2)]
    = some ("++BB".toList, [("order", .int 2), ("atomname", .str "BB")]) := by decide
example : treatAtomPrefix "+BB".toList [("order", .int 2)] = none := by decide
example : treatAtomPrefix "--BB".toList [("order", .int (-2))]
    = some ("--BB".toList, [("order", .int (-2)), ("atomname", .str "BB")]) := by decide
example : treatAtomPrefix ">>BB".toList []
    = some (">>BB".toList, [("order", .str ">>"), ("atomname", .str "BB")]) := by decide
example : treatAtomPrefix "BB".toList [("order", .str ">>")]
    = some (">>BB".toList, [("order", .str ">>"), ("atomname", .str "BB")]) := by decide
example : treatAtomPrefix ">BB".toList [("order", .str ">>")] = none := by decide
example : treatAtomPrefix "+-BB".toList [] = none := by decide
example : treatAtomPrefix "++".toList [] = none := by decide
example : treatAtomPrefix "BB".toList [("order", .null)]
    = some ("BB".toList, [("order", .int 0), ("atomname", .str "BB")]) := by decide
example : GoodBase "BB".toList := ⟨'B', ['B'], rfl, by decide⟩

/-! ## C. `_get_atoms` and the arity check -/

def Plain (t : String) : Prop := t ≠ "--" ∧ startsWithBrace t = false

theorem startsWithBrace_delim : startsWithBrace "--" = false := by decide

/-- one iteration of `_get_atoms` on a plain token that is not followed by an attribute token -/
theorem getAtomsAux_step (natoms : Option Nat) (fuel : Nat) (t : String) (rest : List String)
    (acc : List (String × Option String)) (ht : Plain t)
    (hn : ∀ n, natoms = some n → acc.length < n)
    (hr : ∀ u r, rest = u :: r → startsWithBrace u = false) :
    getAtomsAux natoms (fuel + 1) (t :: rest) acc = getAtomsAux natoms fuel rest ((t, none) :: acc) := by
  conv => lhs; unfold getAtomsAux
  cases natoms with
  | none =>
    cases rest with
    | nil => simp [ht.1, ht.2]
    | cons u r => simp [ht.1, ht.2, hr u r rfl]
  | some n =>
    have := hn n rfl
    have h' : ¬ (n ≤ acc.length) := by omega
    cases rest with
    | nil => simp [ht.1, ht.2, h']
    | cons u r => simp [ht.1, ht.2, hr u r rfl, h']

/-- `_get_atoms` on a run of plain tokens followed by nothing or by the delimiter -/
theorem getAtomsAux_plain (natoms : Option Nat) (a q : List String)
    (ha : ∀ t ∈ a, Plain t) (hq : q = [] ∨ ∃ p, q = "--" :: p) :
    ∀ (fuel : Nat) (acc : List (String × Option String)),
      a.length < fuel → (∀ n, natoms = some n → acc.length + a.length ≤ n) →
      getAtomsAux natoms fuel (a ++ q) acc
        = some (acc.reverse ++ a.map (fun t => (t, none)), q.drop 1) := by
  induction a with
  | nil =>
    intro fuel acc hf hn
    obtain ⟨fuel, rfl⟩ : ∃ k, fuel = k + 1 := ⟨fuel - 1, by simp at hf; omega⟩
    rcases hq with rfl | ⟨p, rfl⟩
    · simp [getAtomsAux]
    · simp [getAtomsAux]
  | cons t a ih =>
    intro fuel acc hf hn
    obtain ⟨fuel, rfl⟩ : ∃ k, fuel = k + 1 := ⟨fuel - 1, by simp at hf; omega⟩
    have ht := ha t (by simp)
    have ha' : ∀ u ∈ a, Plain u := fun u hu => ha u (by simp [hu])
    have hrec := ih ha' fuel ((t, none) :: acc) (by simp at hf; omega)
      (by intro n hn'; have := hn n hn'; simp at this ⊢; omega)
    rw [List.cons_append, getAtomsAux_step natoms fuel t (a ++ q) acc ht
      (by intro n hn'; have := hn n hn'; simp at this; omega) ?_, hrec]
    · simp
    · intro u r hur
      cases a with
      | nil =>
        rcases hq with rfl | ⟨p, rfl⟩
        · simp at hur
        · simp at hur; rw [← hur.1]; exact startsWithBrace_delim
      | cons u' a =>
        simp at hur
        rw [← hur.1]; exact (ha' u' (by simp)).2

theorem count_delim_plain (a : List String) (ha : ∀ t ∈ a, Plain t) : a.count "--" = 0 := by
  rw [List.count_eq_zero]
  intro h
  exact (ha _ h).1 rfl

/-- C1 -/
theorem arity_enforced {n : Nat} {toks : List String} {atoms : List (String × Option String)}
    {rest : List String} (h : baseAtoms (some n) toks = some (atoms, rest)) : atoms.length = n := by
  unfold baseAtoms at h
  split at h
  · simp at h
  · split at h
    · simp at h
    · simp only at h
      split at h
      · simp at h; rw [← h.1]; assumption
      · simp at h

/-- C2 -/
theorem arity_delimiter_exact (n : Nat) (a p : List String) (ha : ∀ t ∈ a, Plain t)
    (hp : "--" ∉ p) (hlen : a.length = n) :
    baseAtoms (some n) (a ++ "--" :: p) = some (a.map (fun t => (t, none)), p) := by
  have hc : (a ++ "--" :: p).count "--" = 1 := by
    simp [List.count_append, count_delim_plain a ha, List.count_eq_zero.2 hp]
  have hg := getAtomsAux_plain (some n) a ("--" :: p) ha (Or.inr ⟨p, rfl⟩)
    ((a ++ "--" :: p).length + 1) [] (by simp; omega) (by intro m hm; simp at hm ⊢; omega)
  unfold baseAtoms getAtoms
  rw [hg]
  simp [hc, hlen, hp]

/-- C3 -/
theorem arity_delimiter_short (n : Nat) (a p : List String) (ha : ∀ t ∈ a, Plain t)
    (hlen : a.length < n) :
    baseAtoms (some n) (a ++ "--" :: p) = none := by
  have hg := getAtomsAux_plain (some n) a ("--" :: p) ha (Or.inr ⟨p, rfl⟩)
    ((a ++ "--" :: p).length + 1) [] (by simp; omega) (by intro m hm; simp at hm ⊢; omega)
  unfold baseAtoms getAtoms
  rw [hg]
  split
  · rfl
  · by_cases hp : "--" ∈ p <;> simp [hp] <;> omega

/-- C4 -/
theorem arity_too_few (n : Nat) (a : List String) (ha : ∀ t ∈ a, Plain t) (hlen : a.length < n) :
    baseAtoms (some n) a = none := by
  have hg := getAtomsAux_plain (some n) a [] ha (Or.inl rfl)
    (a.length + 1) [] (by omega) (by intro m hm; simp at hm ⊢; omega)
  rw [List.append_nil] at hg
  unfold baseAtoms getAtoms
  rw [hg]
  split
  · rfl
  · simp; omega

/-- C5 -/
theorem arity_free (a p : List String) (ha : ∀ t ∈ a, Plain t) (hp : "--" ∉ p) :
    baseAtoms none (a ++ "--" :: p) = some (a.map (fun t => (t, none)), p) := by
  have hc : (a ++ "--" :: p).count "--" = 1 := by
    simp [List.count_append, count_delim_plain a ha, List.count_eq_zero.2 hp]
  have hg := getAtomsAux_plain none a ("--" :: p) ha (Or.inr ⟨p, rfl⟩)
    ((a ++ "--" :: p).length + 1) [] (by simp; omega) (by intro m hm; simp at hm)
  unfold baseAtoms getAtoms
  rw [hg]
  simp [hc]

/-- the loop stops after `n` atoms when the next token is not the delimiter -/
theorem getAtomsAux_plain_stop (n : Nat) (a : List String) (u : String) (r : List String)
    (ha : ∀ t ∈ a, Plain t) (hu : Plain u) :
    ∀ (fuel : Nat) (acc : List (String × Option String)),
      a.length < fuel → acc.length + a.length = n →
      getAtomsAux (some n) fuel (a ++ u :: r) acc
        = some (acc.reverse ++ a.map (fun t => (t, none)), u :: r) := by
  induction a with
  | nil =>
    intro fuel acc hf hn
    obtain ⟨fuel, rfl⟩ : ∃ k, fuel = k + 1 := ⟨fuel - 1, by simp at hf; omega⟩
    have h' : n ≤ acc.length := by simp at hn; omega
    simp [getAtomsAux, hu.1, h']
  | cons t a ih =>
    intro fuel acc hf hn
    obtain ⟨fuel, rfl⟩ : ∃ k, fuel = k + 1 := ⟨fuel - 1, by simp at hf; omega⟩
    have ht := ha t (by simp)
    have ha' : ∀ v ∈ a, Plain v := fun v hv => ha v (by simp [hv])
    have hrec := ih ha' fuel ((t, none) :: acc) (by simp at hf; omega)
      (by simp at hn ⊢; omega)
    rw [List.cons_append, getAtomsAux_step (some n) fuel t (a ++ u :: r) acc ht
      (by intro m hm; cases hm; simp at hn; omega) ?_, hrec]
    · simp
    · intro v w hvw
      cases a with
      | nil => simp at hvw; rw [← hvw.1]; exact hu.2
      | cons u' a => simp at hvw; rw [← hvw.1]; exact (ha' u' (by simp)).2

/-- C6 (after the repair of F-C13-7): more plain atoms than the arity before the delimiter are rejected -/
theorem arity_delimiter_excess_rejected (n : Nat) (a p : List String) (ha : ∀ t ∈ a, Plain t)
    (hlen : n < a.length) :
    baseAtoms (some n) (a ++ "--" :: p) = none := by
  have hsplit : a = a.take n ++ a.drop n := (List.take_append_drop n a).symm
  cases hd : a.drop n with
  | nil =>
    have : (a.drop n).length = a.length - n := List.length_drop
    rw [hd] at this; simp at this; omega
  | cons u r =>
    have hu : Plain u := ha u (by rw [hsplit, hd]; simp)
    have ha1 : ∀ t ∈ a.take n, Plain t := fun t ht => ha t (List.mem_of_mem_take ht)
    have hl1 : (a.take n).length = n := by simp; omega
    have hg := getAtomsAux_plain_stop n (a.take n) u (r ++ "--" :: p) ha1 hu
      ((a ++ "--" :: p).length + 1) [] (by simp; omega) (by simp; omega)
    have hto : a ++ "--" :: p = a.take n ++ u :: (r ++ "--" :: p) := by
      conv => lhs; rw [hsplit, hd]
      simp
    unfold baseAtoms getAtoms
    split
    · rfl
    · rw [show getAtomsAux (some n) ((a ++ "--" :: p).length + 1) (a ++ "--" :: p) []
          = getAtomsAux (some n) ((a ++ "--" :: p).length + 1) (a.take n ++ u :: (r ++ "--" :: p)) [] by
            rw [← hto], hg]
      simp

example : baseAtoms (some 2) ["A", "B", "C", "--", "1"] = none := by decide

example : Plain "A" := ⟨by decide, by decide⟩
example : baseAtoms (some 2) ["A", "--", "1"] = none := by decide
example : baseAtoms (some 2) ["A", "B", "--", "1"] = some ([("A", none), ("B", none)], ["1"]) := by decide

/-! ## D. `_compute_weights` -/

theorem lineConflict_of_mem {tos : List String} {t : String}
    (h1 : t ∈ nonNull tos) (h2 : t ∈ nullTargets tos) : lineConflict tos = true := by
  unfold lineConflict
  simp only [List.any_eq_true]
  exact ⟨t, h2, by simpa using h1⟩

theorem not_mem_of_lineConflict_false {tos : List String} {t : String}
    (h : lineConflict tos = false) (h2 : t ∈ nullTargets tos) : t ∉ nonNull tos := by
  intro h1
  rw [lineConflict_of_mem h1 h2] at h
  exact Bool.noConfusion h

/-- D1 -/
theorem weights_conflict_rejected {m : List (String × List String)} {f t : String}
    {tos : List String} (hm : (f, tos) ∈ m) (h1 : t ∈ nonNull tos) (h2 : t ∈ nullTargets tos) :
    computeWeights m = none := by
  unfold computeWeights
  have : m.any (fun e => lineConflict e.2) = true := by
    simp only [List.any_eq_true]
    exact ⟨(f, tos), hm, lineConflict_of_mem h1 h2⟩
  simp [this]

/-- lookup in a list of entries `(t, f, F t)` -/
theorem find_map_entry (l : List String) (f t0 : String) (F : String → Frac) :
    (l.map fun t => (t, f, F t)).find? (fun e => e.1 = t0 && e.2.1 = f)
      = if t0 ∈ l then some (t0, f, F t0) else none := by
  induction l with
  | nil => simp
  | cons x l ih =>
    simp only [List.map_cons, List.find?_cons]
    by_cases hx : x = t0
    · subst hx; simp
    · have : ¬ (t0 = x) := fun h => hx h.symm
      simp [hx, this, ih]

theorem find_map_entry_other (l : List String) (f f' t0 : String) (F : String → Frac) (h : f' ≠ f) :
    (l.map fun t => (t, f', F t)).find? (fun e => e.1 = t0 && e.2.1 = f) = none := by
  simp [List.find?_eq_none, h]

theorem lookup_lineWeights (f t : String) (tos : List String) :
    lookupWeight (lineWeights f tos) t f
      = if t ∈ nonNull tos then some ⟨(nonNull tos).count t, (nonNull tos).length⟩
        else if t ∈ nullTargets tos then some ⟨0, 1⟩ else none := by
  unfold lookupWeight lineWeights
  simp only [List.find?_append, find_map_entry, List.mem_eraseDups]
  by_cases h1 : t ∈ nonNull tos
  · simp [h1]
  · by_cases h2 : t ∈ nullTargets tos
    · simp [h1, h2]
    · simp [h1, h2]

theorem lookup_lineWeights_other (f f' t : String) (tos : List String) (h : f' ≠ f) :
    (lineWeights f' tos).find? (fun e => e.1 = t && e.2.1 = f) = none := by
  unfold lineWeights
  simp only [List.find?_append, find_map_entry_other _ _ _ _ _ h]
  rfl

theorem lookup_flatMap_absent (m : List (String × List String)) (f t : String)
    (h : f ∉ m.map (·.1)) :
    (m.flatMap fun e => lineWeights e.1 e.2).find? (fun e => e.1 = t && e.2.1 = f) = none := by
  induction m with
  | nil => rfl
  | cons e m ih =>
    simp only [List.map_cons, List.mem_cons, not_or] at h
    simp only [List.flatMap_cons, List.find?_append]
    rw [lookup_lineWeights_other f e.1 t e.2 (fun h' => h.1 h'.symm), ih h.2]
    rfl

theorem lookup_flatMap (m : List (String × List String)) (f t : String) (tos : List String)
    (hnd : (m.map (·.1)).Nodup) (hm : (f, tos) ∈ m) :
    lookupWeight (m.flatMap fun e => lineWeights e.1 e.2) t f
      = lookupWeight (lineWeights f tos) t f := by
  induction m with
  | nil => simp at hm
  | cons e m ih =>
    simp only [List.map_cons, List.nodup_cons] at hnd
    unfold lookupWeight
    simp only [List.flatMap_cons, List.find?_append]
    rcases List.mem_cons.1 hm with he | hm'
    · subst he
      rw [lookup_flatMap_absent m f t hnd.1]
      simp
    · have hne : e.1 ≠ f := by
        intro h
        apply hnd.1
        rw [h]
        exact List.mem_map.2 ⟨(f, tos), hm', rfl⟩
      rw [lookup_lineWeights_other f e.1 t e.2 hne]
      have := ih hnd.2 hm'
      unfold lookupWeight at this
      simpa using this

/-- D2 -/
theorem weights_formula {m : List (String × List String)} {w : List (String × String × Frac)}
    {f t : String} {tos : List String}
    (hw : computeWeights m = some w) (hnd : (m.map (·.1)).Nodup) (hm : (f, tos) ∈ m) :
    (t ∈ nonNull tos → lookupWeight w t f = some ⟨(nonNull tos).count t, (nonNull tos).length⟩) ∧
    (t ∈ nullTargets tos → lookupWeight w t f = some ⟨0, 1⟩) ∧
    (t ∉ nonNull tos → t ∉ nullTargets tos → lookupWeight w t f = none) := by
  unfold computeWeights at hw
  split at hw
  · simp at hw
  · rename_i hany
    simp only [Option.some.injEq] at hw
    subst hw
    have hnc : lineConflict tos = false := by
      cases hc : lineConflict tos with
      | false => rfl
      | true =>
        exfalso; apply hany
        simp only [List.any_eq_true]
        exact ⟨(f, tos), hm, hc⟩
    rw [lookup_flatMap m f t tos hnd hm, lookup_lineWeights]
    refine ⟨?_, ?_, ?_⟩
    · intro h; simp [h]
    · intro h; simp [h, not_mem_of_lineConflict_false hnc h]
    · intro h1 h2; simp [h1, h2]

theorem count_add_filter_ne (a : String) (l : List String) :
    l.count a + (l.filter (fun b => !b == a)).length = l.length := by
  induction l with
  | nil => rfl
  | cons x l ih =>
    by_cases hx : x = a
    · subst hx; simp; omega
    · have : (x == a) = false := by simp [hx]
      simp [List.count_cons, this]; omega

theorem sum_count_eraseDups (l : List String) :
    (l.eraseDups.map (fun t => l.count t)).sum = l.length := by
  generalize hn : l.length = n
  induction n using Nat.strongRecOn generalizing l with
  | _ n ih =>
    cases l with
    | nil => simp at hn; subst hn; simp
    | cons a as =>
      rw [List.eraseDups_cons, List.map_cons, List.sum_cons]
      have hlen : (as.filter (fun b => !b == a)).length < n := by
        have := List.length_filter_le (fun b => !b == a) as
        simp at hn; omega
      have hcongr : ((as.filter (fun b => !b == a)).eraseDups.map (fun t => (a :: as).count t))
          = ((as.filter (fun b => !b == a)).eraseDups.map
              (fun t => (as.filter (fun b => !b == a)).count t)) := by
        apply List.map_congr_left
        intro t ht
        rw [List.mem_eraseDups, List.mem_filter] at ht
        have hta : t ≠ a := by simpa using ht.2
        have hat : (a == t) = false := by simp [Ne.symm hta]
        rw [List.count_cons, hat]
        simp only [Bool.false_eq_true, if_false, Nat.add_zero]
        rw [List.count_filter]
        simpa using hta
      rw [hcongr, ih _ hlen _ rfl]
      have := count_add_filter_ne a as
      simp at hn ⊢
      omega

/-- D3 -/
theorem weights_sum_one (tos : List String) :
    ((nonNull tos).eraseDups.map fun t => (nonNull tos).count t).sum = (nonNull tos).length :=
  sum_count_eraseDups _

/-- D4 -/
theorem weights_den_pos {m : List (String × List String)} {w : List (String × String × Frac)}
    (hw : computeWeights m = some w) : ∀ e ∈ w, 0 < e.2.2.den := by
  unfold computeWeights at hw
  split at hw
  · simp at hw
  · simp only [Option.some.injEq] at hw
    subst hw
    intro e he
    simp only [List.mem_flatMap] at he
    obtain ⟨l, _, he⟩ := he
    unfold lineWeights at he
    simp only [List.mem_append, List.mem_map] at he
    rcases he with ⟨t, ht, rfl⟩ | ⟨t, _, rfl⟩
    · rw [List.mem_eraseDups] at ht
      exact List.length_pos_of_mem ht
    · exact Nat.one_pos

/-! non-vacuity -/
example : computeWeights [("A", ["X", "X", "Y", "!Z"]), ("B", ["X"])]
    = some [("X", "A", ⟨2, 3⟩), ("Y", "A", ⟨1, 3⟩), ("Z", "A", ⟨0, 1⟩), ("X", "B", ⟨1, 1⟩)] := by decide
example : computeWeights [("A", ["X", "!X"])] = none := by decide
example : lookupWeight [("X", "A", ⟨2, 3⟩), ("Y", "A", ⟨1, 3⟩)] "Y" "A" = some ⟨1, 3⟩ := by decide

/-! ## E. `_substitute_macros` -/

theorem length_dropWhile_le' (p : Char → Bool) (l : List Char) :
    (l.dropWhile p).length ≤ l.length := by
  induction l with
  | nil => simp
  | cons x l ih =>
    rw [List.dropWhile_cons]
    split
    · simp; omega
    · simp

/-- E2 -/
theorem subst_plain (ms : List (String × String)) :
    ∀ (cs : List Char) (fuel : Nat), '$' ∉ cs → cs.length < fuel →
      substMacrosAux ms fuel cs = some cs := by
  intro cs
  induction cs with
  | nil =>
    intro fuel _ hf
    cases fuel <;> simp [substMacrosAux]
  | cons c cs ih =>
    intro fuel hd hf
    obtain ⟨fuel, rfl⟩ : ∃ k, fuel = k + 1 := ⟨fuel - 1, by simp at hf; omega⟩
    simp only [List.mem_cons, not_or] at hd
    have hc : c ≠ '$' := fun h => hd.1 h.symm
    simp only [substMacrosAux, hc, if_false]
    rw [ih fuel hd.2 (by simp at hf; omega)]
    rfl

/-- E1 -/
theorem subst_no_dollar (ms : List (String × String)) :
    ∀ (fuel : Nat) (cs r : List Char), substMacrosAux ms fuel cs = some r → cs.length < fuel →
      '$' ∉ r := by
  intro fuel
  induction fuel with
  | zero => intro cs r _ hf; simp at hf
  | succ fuel ih =>
    intro cs r h hf
    cases cs with
    | nil => simp [substMacrosAux] at h; subst h; simp
    | cons c rest =>
      simp only [substMacrosAux] at h
      by_cases hc : c = '$'
      · simp only [hc, if_true] at h
        split at h
        · simp at h
        · split at h
          · simp at h
          · rename_i v hv
            split at h
            · simp at h
            · rename_i hvd
              simp only [Option.map_eq_some_iff] at h
              obtain ⟨r', hr', rfl⟩ := h
              have hlen : (rest.dropWhile (fun c => !isMacroEnd c)).length < fuel := by
                have := length_dropWhile_le' (fun c => !isMacroEnd c) rest
                simp at hf; omega
              have := ih _ _ hr' hlen
              simp only [List.mem_append, not_or]
              exact ⟨by simpa using hvd, this⟩
      · simp only [hc, if_false, Option.map_eq_some_iff] at h
        obtain ⟨r', hr', rfl⟩ := h
        have := ih _ _ hr' (by simp at hf; omega)
        simp only [List.mem_cons, not_or]
        exact ⟨fun h => hc h.symm, this⟩

theorem takeWhile_name (name tail : List Char) (hn : ∀ x ∈ name, isMacroEnd x = false)
    (ht : tail = [] ∨ ∃ e r, tail = e :: r ∧ isMacroEnd e = true) :
    (name ++ tail).takeWhile (fun c => !isMacroEnd c) = name ∧
    (name ++ tail).dropWhile (fun c => !isMacroEnd c) = tail := by
  induction name with
  | nil =>
    rcases ht with rfl | ⟨e, r, rfl, he⟩
    · simp
    · simp [he]
  | cons x name ih =>
    have hx := hn x (by simp)
    have := ih (fun y hy => hn y (by simp [hy]))
    simp [hx, this.1, this.2]

/-- E3 -/
theorem subst_step (ms : List (String × String)) (name tail : List Char) (v : String)
    (hn : ∀ x ∈ name, isMacroEnd x = false)
    (ht : tail = [] ∨ ∃ e r, tail = e :: r ∧ isMacroEnd e = true)
    (hne : name ++ tail ≠ [])
    (hl : lookupMacro ms (String.ofList name) = some v) (hv : '$' ∉ v.toList) :
    ∀ (pre : List Char) (fuel : Nat), '$' ∉ pre → (pre ++ '$' :: name ++ tail).length < fuel →
      substMacrosAux ms fuel (pre ++ '$' :: name ++ tail)
        = (substMacrosAux ms (fuel - pre.length - 1) tail).map (fun r => pre ++ v.toList ++ r) := by
  intro pre
  induction pre with
  | nil =>
    intro fuel _ hf
    obtain ⟨fuel, rfl⟩ : ∃ k, fuel = k + 1 := ⟨fuel - 1, by simp at hf; omega⟩
    obtain ⟨h1, h2⟩ := takeWhile_name name tail hn ht
    have hemp : (name ++ tail).isEmpty = false := by
      cases h : name ++ tail with
      | nil => exact absurd h hne
      | cons _ _ => rfl
    have hvc : v.toList.contains '$' = false := by simpa using hv
    simp only [List.nil_append, List.cons_append, substMacrosAux, if_true, hemp, h1, h2, hl, hvc]
    simp
  | cons c pre ih =>
    intro fuel hd hf
    obtain ⟨fuel, rfl⟩ : ∃ k, fuel = k + 1 := ⟨fuel - 1, by simp at hf; omega⟩
    simp only [List.mem_cons, not_or] at hd
    have hc : c ≠ '$' := fun h => hd.1 h.symm
    have := ih fuel hd.2 (by simp at hf ⊢; omega)
    simp only [List.cons_append, substMacrosAux, hc, if_false]
    rw [this, Option.map_map]
    have : fuel + 1 - (c :: pre).length - 1 = fuel - pre.length - 1 := by simp
    rw [this]
    rfl

/-- E4 -/
theorem subst_undefined_rejected (ms : List (String × String)) (name tail : List Char)
    (hn : ∀ x ∈ name, isMacroEnd x = false)
    (ht : tail = [] ∨ ∃ e r, tail = e :: r ∧ isMacroEnd e = true)
    (hl : lookupMacro ms (String.ofList name) = none) :
    ∀ (pre : List Char) (fuel : Nat), '$' ∉ pre → (pre ++ '$' :: name ++ tail).length < fuel →
      substMacrosAux ms fuel (pre ++ '$' :: name ++ tail) = none := by
  intro pre
  induction pre with
  | nil =>
    intro fuel _ hf
    obtain ⟨fuel, rfl⟩ : ∃ k, fuel = k + 1 := ⟨fuel - 1, by simp at hf; omega⟩
    obtain ⟨h1, h2⟩ := takeWhile_name name tail hn ht
    simp only [List.nil_append, List.cons_append, substMacrosAux, if_true, h1, hl]
    split <;> rfl
  | cons c pre ih =>
    intro fuel hd hf
    obtain ⟨fuel, rfl⟩ : ∃ k, fuel = k + 1 := ⟨fuel - 1, by simp at hf; omega⟩
    simp only [List.mem_cons, not_or] at hd
    have hc : c ≠ '$' := fun h => hd.1 h.symm
    have := ih fuel hd.2 (by simp at hf ⊢; omega)
    simp only [List.cons_append, substMacrosAux, hc, if_false]
    rw [this]
    rfl

/-! non-vacuity -/
example : substMacrosAux [("a", "X")] 10 "b $a c".toList = some "b X c".toList := by decide
example : substMacrosAux [("a", "X"), ("a", "Y")] 10 "$a{$a}".toList = some "Y{Y}".toList := by decide
example : substMacrosAux [] 10 "b $a c".toList = none := by decide
example : substMacrosAux [("a", "X")] 10 "b $".toList = none := by decide

end C13
