import VermouthModel.C13_Mapping
import VermouthProofs.C13_Disp
/-!
C13 — theorems about the model of the new-style `.mapping` reader (`C13.Mapping.readMapping`).

* `mapping_emitted_once_in_order`: the mappings of a file are exactly `mapSpec` (the declarative
  specification of the dispatcher, `C13_Disp.lean`) instantiated with the handlers of the reader:
  one mapping per ended `[ block ]` / `[ modification ]` section, in file order;
* `mapping_line_spec`, `mapping_line_error`: what one `[ mapping ]` line does;
* `mapping_entries_fold`: the entries of every emitted mapping are the fold, in file order, of the
  `[ mapping ]` lines of its section (the last line about a pair wins).
-/
namespace C13.Mapping
open C13

/-! ## insertion-ordered dictionaries -/

theorem dget_dictSet_same {K V : Type} [DecidableEq K] (d : List (K × V)) (k : K) (v : V) :
    dget (dictSet d k v) k = some v := by
  induction d with
  | nil => simp [dictSet, dget]
  | cons e r ih =>
    obtain ⟨k', v'⟩ := e
    by_cases h : k' = k
    · simp [dictSet, dget, h]
    · simp [dictSet, dget, h, ih]

theorem dget_dictSet_other {K V : Type} [DecidableEq K] (d : List (K × V)) (k k' : K) (v : V)
    (hne : k' ≠ k) : dget (dictSet d k v) k' = dget d k' := by
  induction d with
  | nil =>
    have : ¬ k = k' := fun h => hne h.symm
    simp [dictSet, dget, this]
  | cons e r ih =>
    obtain ⟨k0, v0⟩ := e
    by_cases h : k0 = k
    · subst h
      have : ¬ k0 = k' := fun h => hne h.symm
      simp [dictSet, dget, this]
    · by_cases h2 : k0 = k'
      · subst h2
        simp [dictSet, dget, h]
      · simp [dictSet, dget, h, h2, ih]

/-- `mapping[i][j] = w` sets exactly that entry -/
theorem getW_setW (m : WMap) (i j i' j' : Nat) (w : Int) :
    getW (setW m i j w) i' j' = if i' = i ∧ j' = j then some w else getW m i' j' := by
  unfold getW setW
  by_cases hi : i' = i
  · subst hi
    rw [dget_dictSet_same]
    by_cases hj : j' = j
    · subst hj
      simp [dget_dictSet_same]
    · simp only [Option.bind_some, hj, and_false, if_false]
      rw [dget_dictSet_other _ _ _ _ hj]
      cases dget m i' <;> simp [dget]
  · rw [dget_dictSet_other _ _ _ _ hi]
    simp [hi]

/-! ## (i) one mapping per ended section, in order -/

theorem emitAll_length (lines : List Line) (s : MSt MCtx) : (emitAll lines s).length = s.out.length := by
  unfold emitAll
  simp only [List.length_map, List.length_zip, List.length_append, List.length_drop, List.length_cons,
    List.length_nil]
  omega

/-- **the mappings of a file are those of the dispatcher specification**: a successful
`readMapping` is a successful run of the base dispatcher on the classified, macro-expanded lines
whose emitted contexts are exactly `mapSpec` instantiated with the handlers of the mapping reader
(so: one per header that ends a `block`/`modification` section and one at the end of the file if
such a section is open, in file order, each started afresh), and the result lists them in that
order, one `Emitted` per context. -/
theorem mapping_emitted_once_in_order (lib : Lib) (raw : List String) (es : List Emitted)
    (h : readMapping lib raw = some es) :
    ∃ lines lines' s, classify raw = some lines ∧ expandMacros mapT [] [] lines = some lines' ∧
      mapRun (mparams lib) lines' = some s ∧
      s.out = mapSpec (mparams lib) [] (0, {}) 0 lines' ∧
      es = emitAll lines' s ∧ es.length = (mapSpec (mparams lib) [] (0, {}) 0 lines').length := by
  unfold readMapping at h
  cases h1 : classify raw with
  | none => simp [h1] at h
  | some lines =>
    cases h2 : expandMacros mapT [] [] lines with
    | none => simp [h1, h2] at h
    | some lines' =>
      cases h3 : mapRun (mparams lib) lines' with
      | none => simp [h1, h2, h3] at h
      | some s =>
        simp [h1, h2, h3] at h
        have hs := map_out_spec (mparams lib) lines' s h3
        refine ⟨lines, lines', s, by first | rfl | assumption, by first | rfl | assumption,
          by first | rfl | assumption, hs, h.symm, ?_⟩
        rw [← h, emitAll_length, hs]
        rfl

/-! ### ... which is: one mapping per `[ block ]` / `[ modification ]` header

For the dispatch table of the mapping reader the specification can be read off the headers alone:
`block` and `modification` only occur as the first element of a registered path, so such a header
always restarts the path, and the section it opens is ended exactly once (by the next such header,
by a header that is not one of its sub-sections, or by the end of the file). -/

def isKindName (n : String) : Bool := n = "block" || n = "modification"

/-- number of `[ block ]` / `[ modification ]` headers -/
def kindHeaders : List Line → Nat
  | [] => 0
  | .header n :: r => (if isKindName n then 1 else 0) + kindHeaders r
  | .content _ :: r => kindHeaders r

/-- the section paths the reader can be in: at most two names, a kind name only in front -/
def PathInv (sec : Path) : Prop := sec.length ≤ 2 ∧ (sec.drop 1).all (fun e => !isKindName e) = true

theorem isDeclPath_eq (p : Path) : isDeclPath p = p.any isKindName := rfl

theorem mapT_shape : mapT.all (fun p => decide (p.length ≤ 2) && (p.drop 1).all (fun e => !isKindName e)) = true := by
  decide

theorem pathInv_of_mem (p : Path) (h : mapT.contains p = true) : PathInv p := by
  have hm : p ∈ mapT := by simpa using h
  have := List.all_eq_true.mp mapT_shape p hm
  simp only [Bool.and_eq_true, decide_eq_true_eq] at this
  exact this

theorem reduceRev_mem_or_single (T : List Path) (last : String) (l : List String) :
    T.contains (reduceRev T last l).reverse = true ∨ reduceRev T last l = [last] := by
  induction l with
  | nil => right; rfl
  | cons r rest ih =>
    simp only [reduceRev]
    split
    · left; assumption
    · exact ih

theorem reducePath_mem_or_single (T : List Path) (sec : Path) (n : String) :
    T.contains (reducePath T sec n) = true ∨ reducePath T sec n = [n] := by
  rcases reduceRev_mem_or_single T n sec.reverse with h | h
  · left; exact h
  · right; simp [reducePath, h]

theorem any_false_of_all_not (l : List String) (h : l.all (fun e => !isKindName e) = true) :
    l.any isKindName = false := by
  induction l with
  | nil => rfl
  | cons a r ih =>
    simp only [List.all_cons, Bool.and_eq_true, Bool.not_eq_true'] at h
    simp [List.any_cons, h.1, ih h.2]

/-- one header: the invariant is kept, and (emitted here) + (open afterwards) = (open before) + (this
header is a kind header) -/
theorem header_count (sec : Path) (n : String) (hinv : PathInv sec) :
    PathInv (reducePath mapT sec n) ∧
    (if isDeclPath (endedOf mapT sec n) then 1 else 0) + (if isDeclPath (reducePath mapT sec n) then 1 else 0) =
      (if isDeclPath sec then 1 else 0) + (if isKindName n then 1 else 0) := by
  have hred := reducePath_eq mapT sec n
  generalize hk : (reducePath mapT sec n).length - 1 = k at hred
  have hend : endedOf mapT sec n = sec.drop k := by unfold endedOf; rw [hk]
  have hsec : isDeclPath sec = (isDeclPath (sec.take k) || isDeclPath (sec.drop k)) := by
    have h : (sec.take k ++ sec.drop k).any isKindName =
        ((sec.take k).any isKindName || (sec.drop k).any isKindName) := List.any_append
    rw [List.take_append_drop] at h
    simpa only [isDeclPath_eq] using h
  have hnew : isDeclPath (reducePath mapT sec n) = (isDeclPath (sec.take k) || isKindName n) := by
    rw [hred]; simp [isDeclPath_eq, List.any_append]
  rw [hend, hsec, hnew]
  rcases reducePath_mem_or_single mapT sec n with hmem | hsingle
  · have hnewinv := pathInv_of_mem _ hmem
    refine ⟨hnewinv, ?_⟩
    cases hkept : isDeclPath (sec.take k) with
    | false => simp
    | true =>
      -- the kept prefix is not empty, so the new path has two names: `[kind, n]`
      have hk1 : 1 ≤ k := by
        cases k with
        | zero => simp [isDeclPath_eq] at hkept
        | succ k => omega
      have hlen : (reducePath mapT sec n).length = k + 1 := by
        have := congrArg List.length hred
        have h0 : 1 ≤ (reducePath mapT sec n).length := by
          rcases hl : reducePath mapT sec n with _ | ⟨a, b⟩
          · exact absurd hl (reducePath_ne_nil _ _ _)
          · simp
        omega
      have hk2 : k = 1 := by have := hnewinv.1; omega
      subst hk2
      have hn : isKindName n = false := by
        have h2 := hnewinv.2
        rw [hred] at h2
        have hl1 : (sec.take 1).length = 1 := by
          have := congrArg List.length hred
          simp only [List.length_append, List.length_cons, List.length_nil] at this
          omega
        rcases ht : sec.take 1 with _ | ⟨a, b⟩
        · simp [ht] at hl1
        · rcases b with _ | ⟨b1, b2⟩
          · rw [ht] at h2
            simpa using h2
          · simp [ht] at hl1
      have he : isDeclPath (sec.drop 1) = false := by
        rw [isDeclPath_eq]; exact any_false_of_all_not _ hinv.2
      rw [he, hn]
      rfl
  · refine ⟨by rw [hsingle]; exact ⟨by simp, by simp⟩, ?_⟩
    have hk0 : k = 0 := by rw [hsingle] at hk; simpa using hk.symm
    subst hk0
    simp [isDeclPath_eq]

theorem mapSpec_count_from {C : Type} (P : MParams C) (hT : P.T = mapT) (lines : List Line) :
    ∀ (sec : Path) (cur : Nat × C) (i : Nat), PathInv sec →
      (mapSpec P sec cur i lines).length = (if isDeclPath sec then 1 else 0) + kindHeaders lines := by
  induction lines with
  | nil =>
    intro sec cur i _
    simp only [mapSpec, kindHeaders]
    split <;> simp
  | cons l r ih =>
    intro sec cur i hinv
    cases l with
    | header n =>
      obtain ⟨hinv', hcount⟩ := header_count sec n hinv
      simp only [mapSpec, kindHeaders, hT]
      split
      next he =>
        rw [List.length_cons, ih _ _ _ hinv']
        simp only [he, if_true] at hcount
        omega
      next he =>
        rw [ih _ _ _ hinv']
        simp only [he] at hcount
        simp only [Bool.false_eq_true, if_false] at hcount
        omega
    | content t =>
      simp only [mapSpec, kindHeaders]
      exact ih _ _ _ hinv

/-- **one mapping per `[ block ]` / `[ modification ]` header**: a file that is read successfully
yields as many mappings as it has such headers (`mapping_emitted_once_in_order` gives their order and
content). -/
theorem mapping_count_eq_kind_headers (lib : Lib) (raw : List String) (es : List Emitted)
    (h : readMapping lib raw = some es) :
    ∃ lines lines', classify raw = some lines ∧ expandMacros mapT [] [] lines = some lines' ∧
      es.length = kindHeaders lines' := by
  obtain ⟨lines, lines', s, h1, h2, _, _, _, hlen⟩ := mapping_emitted_once_in_order lib raw es h
  refine ⟨lines, lines', h1, h2, ?_⟩
  rw [hlen, mapSpec_count_from (mparams lib) rfl lines' [] (0, {}) 0 ⟨by simp, by simp⟩]
  simp [isDeclPath]

/-! ## (ii) one `[ mapping ]` line -/

/-- the `[ mapping ]` sections are handled by `mappingLine` -/
theorem handle_mapping_section (lib : Lib) (k : String) (hk : k = "block" ∨ k = "modification")
    (line : String) (c : MCtx) : handle lib [k, "mapping"] line c = mappingLine line c := by
  rcases hk with rfl | rfl <;> rfl

/-- **a `[ mapping ]` line `from to [w]`** whose two atom specifications resolve to the unique
nodes `i` (of `blocks_from`) and `j` (of `blocks_to`) sets entry `(i, j)` to `w` (1 when the column
is absent: `weightOf [] = some 1`), leaves every other entry unchanged, and does not touch the
blocks, identifiers, names and references. -/
theorem mapping_line_spec (c : MCtx) (line f t : String) (rest : List String) (w : Int)
    (af ato : Attrs) (cf ct : Option Attrs) (i j : Nat)
    (hs : splitWs line = f :: t :: rest) (hw : weightOf rest = some w)
    (hf : resolve c.ids c.curFrom .frm f = some (af, cf))
    (ht : resolve c.ids c.curTo .to t = some (ato, ct))
    (hi : findAtoms c.molFrom af = [i]) (hj : findAtoms c.molTo ato = [j]) :
    ∃ c', mappingLine line c = some c' ∧ getW c'.mapping i j = some w ∧
      (∀ i' j', (i', j') ≠ (i, j) → getW c'.mapping i' j' = getW c.mapping i' j') ∧
      c'.molFrom = c.molFrom ∧ c'.molTo = c.molTo ∧ c'.ids = c.ids ∧ c'.names = c.names ∧
      c'.refs = c.refs ∧ c'.ffFrom = c.ffFrom ∧ c'.ffTo = c.ffTo := by
  refine ⟨{ c with curFrom := cf, curTo := ct, mapping := setW c.mapping i j w }, ?_, ?_, ?_,
    rfl, rfl, rfl, rfl, rfl, rfl, rfl⟩
  · simp [mappingLine, mappingToks, mappingArgs, hs, hw, hf, ht, hi, hj]
  · simp [getW_setW]
  · intro i' j' hne
    rw [getW_setW]
    have : ¬ (i' = i ∧ j' = j) := fun h => hne (by rw [h.1, h.2])
    simp [this]

/-- a line whose from or to atom resolves to 0 or ≥ 2 nodes is an error (AssertionError) -/
theorem mapping_line_error (c : MCtx) (line f t : String) (rest : List String)
    (af ato : Attrs) (cf ct : Option Attrs)
    (hs : splitWs line = f :: t :: rest)
    (hf : resolve c.ids c.curFrom .frm f = some (af, cf))
    (ht : resolve c.ids c.curTo .to t = some (ato, ct))
    (h : (findAtoms c.molFrom af).length ≠ 1 ∨ (findAtoms c.molTo ato).length ≠ 1) :
    mappingLine line c = none := by
  simp only [mappingLine, mappingToks, mappingArgs, hs, hf, ht]
  cases weightOf rest with
  | none => rfl
  | some w =>
    simp only
    split
    next i j hi hj => simp [hi, hj] at h
    next => rfl

/-- the default weight is 1, an explicit one is `int(column)` (further columns are ignored) -/
theorem weightOf_default : weightOf [] = some 1 := rfl
theorem weightOf_explicit (x : String) (r : List String) : weightOf (x :: r) = pyInt? x := rfl

/-! ## (iii) the entries of a mapping are the fold of its `[ mapping ]` lines -/

variable {C : Type}

/-- dispatcher parameters that only record the (section path, text) of the content lines -/
def bodyP (T : List Path) : MParams (List (Path × String)) :=
  { T := T, handle := fun p t c => some (c ++ [(p, t)]), fresh := [] }

/-- the context obtained from a fresh one by the content lines `ls` -/
def runBody (P : MParams C) (ls : List (Path × String)) : C :=
  ls.foldl (fun c pt => (P.handle pt.1 pt.2 c).getD c) P.fresh

theorem runBody_append (P : MParams C) (acc : List (Path × String)) (p : Path) (t : String) :
    runBody P (acc ++ [(p, t)]) = (P.handle p t (runBody P acc)).getD (runBody P acc) := by
  simp [runBody, List.foldl_append]

/-- every emitted context is its own content lines applied to a fresh context -/
theorem mapSpec_bodies (P : MParams C) (lines : List Line) :
    ∀ (sec : Path) (n : Nat) (acc : List (Path × String)) (i : Nat),
      mapSpec P sec (n, runBody P acc) i lines =
        (mapSpec (bodyP P.T) sec (n, acc) i lines).map (fun b => (b.1, runBody P b.2)) := by
  induction lines with
  | nil =>
    intro sec n acc i
    simp only [mapSpec]
    split <;> simp
  | cons l r ih =>
    intro sec n acc i
    cases l with
    | header name =>
      simp only [mapSpec]
      have hT : (bodyP P.T).T = P.T := rfl
      have hf : P.fresh = runBody P [] := rfl
      have hb : (bodyP P.T).fresh = [] := rfl
      rw [hT, hb]
      split
      · rw [List.map_cons, hf, ih]
      · exact ih _ _ _ _
    | content t =>
      simp only [mapSpec]
      have hb : ((bodyP P.T).handle sec t acc).getD acc = acc ++ [(sec, t)] := rfl
      rw [hb, ← ih, runBody_append]

/-- the triple a `[ mapping ]` line contributes in context `c` -/
def tripleOf (toks : List String) (c : MCtx) : Option (Nat × Nat × Int) :=
  (mappingArgs toks c).map fun a => (a.1, a.2.1, a.2.2.1)

def entryAt (p : Path) (t : String) (c : MCtx) : Option (Nat × Nat × Int) :=
  match findEntry p with
  | some e => if e.method = "_mapping" then tripleOf (splitWs t) c else none
  | none => none

def applyT (m : WMap) (e : Nat × Nat × Int) : WMap := setW m e.1 e.2.1 e.2.2

/-- the `(from node, to node, weight)` triples of the `[ mapping ]` lines among `ls`, in order, each
resolved in the context reached by the lines before it -/
def triplesFrom (lib : Lib) : MCtx → List (Path × String) → List (Nat × Nat × Int)
  | _, [] => []
  | c, pt :: r => (entryAt pt.1 pt.2 c).toList ++ triplesFrom lib ((handle lib pt.1 pt.2 c).getD c) r

theorem setMol_mapping (c : MCtx) (d : Dir) (m : Mol) : (c.setMol d m).mapping = c.mapping := by
  cases d <;> rfl
theorem setCur_mapping (c : MCtx) (d : Dir) (a : Option Attrs) : (c.setCur d a).mapping = c.mapping := by
  cases d <;> rfl

theorem mappingToks_mapping (toks : List String) (c : MCtx) :
    ((mappingToks toks c).getD c).mapping = (tripleOf toks c).toList.foldl applyT c.mapping := by
  unfold mappingToks tripleOf
  cases mappingArgs toks c <;> simp [applyT]

theorem ffLine_mapping (d : Dir) (line : String) (c c' : MCtx) (h : ffLine d line c = some c') :
    c'.mapping = c.mapping := by
  cases d <;> simp [ffLine] at h <;> subst h <;> rfl

theorem nodesLine_mapping (d : Dir) (line : String) (c c' : MCtx) (h : nodesLine d line c = some c') :
    c'.mapping = c.mapping := by
  unfold nodesLine at h
  split at h
  · split at h
    · simp only [Option.some.injEq] at h
      subst h
      rw [setMol_mapping, setCur_mapping]
    · cases h
  · cases h

theorem edgesLine_mapping (d : Dir) (line : String) (c c' : MCtx) (h : edgesLine d line c = some c') :
    c'.mapping = c.mapping := by
  unfold edgesLine at h
  split at h
  · split at h
    · cases h
    · split at h
      · split at h
        · split at h
          · cases h
          · simp only [Option.some.injEq] at h
            subst h
            rw [setMol_mapping, setCur_mapping]
        · cases h
      · cases h
  · cases h

theorem refLine_mapping (line : String) (c c' : MCtx) (h : refLine line c = some c') :
    c'.mapping = c.mapping := by
  unfold refLine at h
  split at h
  · split at h
    · split at h
      · split at h
        · simp only [Option.some.injEq] at h
          subst h
          rfl
        · cases h
      · cases h
    · cases h
  · cases h

theorem register_mapping (d : Dir) (mtype : String) (c : MCtx) (spec : String × Attrs) :
    (register d mtype c spec).mapping = c.mapping := by
  cases d <;> rfl

theorem blockStep_mapping (lib : Lib) (d : Dir) (mtype : String) (c c' : MCtx) (spec : String × Attrs)
    (h : blockStep lib d mtype c spec = some c') : c'.mapping = c.mapping := by
  unfold blockStep at h
  split at h
  · simp only [Option.some.injEq] at h
    subst h
    exact register_mapping _ _ _ _
  · split at h
    · cases h
    · simp only [Option.some.injEq] at h
      subst h
      rw [register_mapping, setMol_mapping]

theorem foldOpt_inv {α β γ : Type} (f : β → α → Option β) (g : β → γ)
    (hf : ∀ b a b', f b a = some b' → g b' = g b) (l : List α) :
    ∀ b b', foldOpt f b l = some b' → g b' = g b := by
  induction l with
  | nil => intro b b' h; simp [foldOpt] at h; subst h; rfl
  | cons a r ih =>
    intro b b' h
    simp only [foldOpt] at h
    cases h1 : f b a with
    | none => simp [h1] at h
    | some b1 =>
      simp only [h1] at h
      rw [ih b1 b' h, hf b a b1 h1]

theorem blocksLine_mapping (lib : Lib) (d : Dir) (mtype : String) (line : String) (c c' : MCtx)
    (h : blocksLine lib d mtype line c = some c') : c'.mapping = c.mapping := by
  unfold blocksLine at h
  split at h
  · cases h
  · exact foldOpt_inv _ (·.mapping) (fun b a b' hb => blockStep_mapping lib d mtype b b' a hb) _ _ _ h

/-- a handler changes the entries only through a `[ mapping ]` line, by the triple of that line -/
theorem handle_mapping (lib : Lib) (p : Path) (t : String) (c : MCtx) :
    ((handle lib p t c).getD c).mapping = (entryAt p t c).toList.foldl applyT c.mapping := by
  unfold handle entryAt
  cases hfe : findEntry p with
  | none => simp
  | some e =>
    simp only
    by_cases hm : e.method = "_mapping"
    · simp only [hm, if_true]
      exact mappingToks_mapping _ _
    · simp only [hm, if_false, Option.toList_none, List.foldl_nil]
      have key : ∀ (r : Option MCtx), (∀ c', r = some c' → c'.mapping = c.mapping) →
          (r.getD c).mapping = c.mapping := by
        intro r hr
        cases r with
        | none => rfl
        | some c' => exact hr c' rfl
      apply key
      intro c' h
      split at h
      · exact refLine_mapping _ _ _ h
      · split at h
        · simp only [Option.some.injEq] at h; subst h; rfl
        · split at h
          · cases h
          · split at h
            · cases h
            · split at h
              · exact ffLine_mapping _ _ _ _ h
              · split at h
                · exact blocksLine_mapping _ _ _ _ _ _ h
                · split at h
                  · exact nodesLine_mapping _ _ _ _ h
                  · split at h
                    · exact edgesLine_mapping _ _ _ _ h
                    · cases h

theorem entries_fold_from (lib : Lib) (ls : List (Path × String)) :
    ∀ c0 : MCtx, (ls.foldl (fun c pt => (handle lib pt.1 pt.2 c).getD c) c0).mapping =
      (triplesFrom lib c0 ls).foldl applyT c0.mapping := by
  induction ls with
  | nil => intro c0; rfl
  | cons pt r ih =>
    intro c0
    simp only [List.foldl_cons, triplesFrom, List.foldl_append]
    rw [ih, handle_mapping]

/-- the entries of the context built from the content lines `ls` are the fold of the triples of its
`[ mapping ]` lines, in order -/
theorem entries_fold (lib : Lib) (ls : List (Path × String)) :
    (runBody (mparams lib) ls).mapping = (triplesFrom lib {} ls).foldl applyT [] :=
  entries_fold_from lib ls {}

theorem emit_mapping (ty : String) (c : MCtx) : (emit ty c).mapping = c.mapping := rfl

theorem emitAll_mapping (lines : List Line) (s : MSt MCtx) :
    (emitAll lines s).map (·.mapping) = s.out.map (·.2.mapping) := by
  unfold emitAll
  rw [List.map_map]
  have h : ((fun x : Emitted => x.mapping) ∘ fun x : (Nat × MCtx) × Nat =>
      emit ((secAt mapT lines x.2).head?.getD "") x.1.2) = (fun b : Nat × MCtx => b.2.mapping) ∘ Prod.fst := by
    funext x; rfl
  rw [h, ← List.map_map, List.map_fst_zip]
  simp only [List.length_append, List.length_drop, List.length_map, List.length_cons, List.length_nil]
  omega

/-- **the entries of an emitted mapping are the fold of its `[ mapping ]` lines in order** (so the
last line about a pair of nodes wins, `getW_setW`): the k-th mapping of the result holds the fold
of the triples of the content lines that the dispatcher specification assigns to the k-th section
(`mapSpec` on the recording parameters `bodyP`). -/
theorem mapping_entries_fold (lib : Lib) (raw : List String) (es : List Emitted)
    (h : readMapping lib raw = some es) :
    ∃ lines lines', classify raw = some lines ∧ expandMacros mapT [] [] lines = some lines' ∧
      es.map (·.mapping) =
        (mapSpec (bodyP mapT) [] (0, []) 0 lines').map
          (fun b => (triplesFrom lib {} b.2).foldl applyT []) := by
  obtain ⟨lines, lines', s, h1, h2, _, hs, he, _⟩ := mapping_emitted_once_in_order lib raw es h
  refine ⟨lines, lines', h1, h2, ?_⟩
  rw [he, emitAll_mapping, hs]
  have hb := mapSpec_bodies (mparams lib) lines' [] 0 [] 0
  have hfresh : runBody (mparams lib) [] = ({} : MCtx) := rfl
  rw [hfresh] at hb
  rw [hb, List.map_map]
  apply List.map_congr_left
  intro b _
  exact entries_fold lib b.2

/-! ## non-vacuity: a concrete file -/

def demoAla : LBlock :=
  { name := "ALA", ff := some "aa", nrexcl := some 3,
    nodes := [("N", [("atomname", .str "N"), ("resname", .str "ALA"), ("resid", .int 1)]),
              ("CA", [("atomname", .str "CA"), ("resname", .str "ALA"), ("resid", .int 1)])],
    edges := [("N", "CA", [])] }

def demoAlaCG : LBlock :=
  { name := "ALA", ff := some "cg", nrexcl := some 1,
    nodes := [("BB", [("atomname", .str "BB"), ("resname", .str "ALA"), ("resid", .int 1)])],
    edges := [] }

def demoLib : Lib :=
  [{ name := "aa", blocks := [demoAla], mods := [] }, { name := "cg", blocks := [demoAlaCG], mods := [] }]

def demoFile : List String :=
  ["[ block ]", "[ from ]", "aa", "[ to ]", "cg", "[ from blocks ]", "ALA", "[ to blocks ]", "ALA",
   "[ mapping ]", "N BB", "CA BB", "[ block ]", "[ from ]", "aa"]

def flat (m : WMap) : List (Nat × Nat × Int) := m.flatMap fun e => e.2.map fun jw => (e.1, jw.1, jw.2)

/- two sections, two mappings, in file order (weights are not written in the demonstration file because
`String.toNat?` does not reduce in the kernel) -/
example : (readMapping demoLib demoFile).map (fun es => es.map fun e => (e.type, e.names)) =
    some [("block", ["ALA"]), ("block", [])] := by decide +kernel
example : (readMapping demoLib demoFile).map (fun es => es.map fun e => flat e.mapping) =
    some [[(0, 0, 1), (1, 0, 1)], []] := by decide +kernel

/-- the fold is in line order: the last line about a pair wins -/
example : flat ([(0, 0, 2), (1, 0, 1), (0, 0, 1)].foldl applyT []) = [(0, 0, 1), (1, 0, 1)] := by decide

/-- the context after the `from`/`to`/`from blocks`/`to blocks` lines of the demonstration file -/
def demoCtx : MCtx :=
  runBody (mparams demoLib) [(["block", "from"], "aa"), (["block", "to"], "cg"),
    (["block", "from blocks"], "ALA"), (["block", "to blocks"], "ALA")]

def demoIdAttrs : Attrs := [("resname", .str "ALA"), ("resid", .int 1)]

/-- the hypotheses of `mapping_line_spec` hold for the line `CA BB` in that context -/
example : ∃ c', mappingLine "CA BB" demoCtx = some c' ∧ getW c'.mapping 1 0 = some 1 := by
  obtain ⟨c', h1, h2, _⟩ := mapping_line_spec demoCtx "CA BB" "CA" "BB" [] 1
    (demoIdAttrs ++ [("atomname", .str "CA")]) (demoIdAttrs ++ [("atomname", .str "BB")])
    (some demoIdAttrs) (some demoIdAttrs) 1 0
    (by decide +kernel) rfl (by decide +kernel) (by decide +kernel) (by decide +kernel) (by decide +kernel)
  exact ⟨c', h1, h2⟩

/-- an atom that no node has: the line is rejected -/
example : mappingLine "ZZ BB" demoCtx = none := by decide +kernel

end C13.Mapping
