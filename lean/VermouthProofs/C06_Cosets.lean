import VermouthProofs.C06_IsmagsSym
import VermouthProofs.C06_IsmagsLcs
import VermouthModel.C06_Cosets
/-! The cosets `analyze_symmetry` must return: the checker `cosetsExactB` decides the declarative
statement `CosetsExact`; cosets that pass it have the product of their sizes equal to the number of
automorphisms of the pattern (orbit-stabiliser along the stabiliser chain in key order, proved by
counting fibres of lists - no group library).  Core Lean only. -/
namespace C06I
open Iso

/-! ### the checker decides the declarative statement -/

theorem mem_stabOrbit (sg : Graph) (A : List Map) (i t : Int) :
    t ∈ stabOrbit sg A i ↔ ∃ a ∈ A, fixesBelow sg a i = true ∧ Map.toFun a i = t := by
  unfold stabOrbit
  simp only [List.mem_map, List.mem_filter]
  constructor
  · rintro ⟨a, ⟨ha, hf⟩, rfl⟩; exact ⟨a, ha, hf, rfl⟩
  · rintro ⟨a, ha, hf, rfl⟩; exact ⟨a, ⟨ha, hf⟩, rfl⟩

theorem mem_stabOrbit_auts (sg : Graph) (hs : sg.keys.Nodup) {i : Int} (hi : i ∈ sg.keys) (t : Int) :
    t ∈ stabOrbit sg (auts sg) i ↔ InOrb sg i t :=
  (mem_stabOrbit sg (auts sg) i t).trans (inOrb_iff_auts sg hs hi t).symm

/-- every entry of the dict is the orbit of its key in the stabiliser of the smaller nodes; nodes
without an entry have a trivial orbit -/
def CosetsExact (sg : Graph) (cosets : List (Int × List Int)) : Prop :=
  (∀ k ts, (k, ts) ∈ cosets → k ∈ sg.keys ∧ ∀ t, t ∈ ts ↔ InOrb sg k t)
  ∧ ∀ i ∈ sg.keys, (∃ ts, (i, ts) ∈ cosets) ∨ ∀ t, InOrb sg i t → t = i

theorem cosetsExactB_iff (sg : Graph) (hs : sg.keys.Nodup) (cosets : List (Int × List Int)) :
    cosetsExactB sg cosets = true ↔ CosetsExact sg cosets := by
  unfold cosetsExactB CosetsExact
  simp only [Bool.and_eq_true, List.all_eq_true, List.any_eq_true, List.contains_iff_mem, Bool.or_eq_true,
    beq_iff_eq, sameSet_iff]
  constructor
  · rintro ⟨h1, h2⟩
    refine ⟨?_, ?_⟩
    · intro k ts he
      obtain ⟨hk, hsame⟩ := h1 (k, ts) he
      exact ⟨hk, fun t => (hsame t).trans (mem_stabOrbit_auts sg hs hk t)⟩
    · intro i hi
      rcases h2 i hi with ⟨e, he, rfl⟩ | h
      · exact Or.inl ⟨e.2, he⟩
      · exact Or.inr fun t ht => h t ((mem_stabOrbit_auts sg hs hi t).2 ht)
  · rintro ⟨h1, h2⟩
    refine ⟨?_, ?_⟩
    · rintro ⟨k, ts⟩ he
      obtain ⟨hk, hmem⟩ := h1 k ts he
      exact ⟨hk, fun t => (hmem t).trans (mem_stabOrbit_auts sg hs hk t).symm⟩
    · intro i hi
      rcases h2 i hi with ⟨ts, he⟩ | h
      · exact Or.inl ⟨(i, ts), he, rfl⟩
      · exact Or.inr fun t ht => h t ((mem_stabOrbit_auts sg hs hi t).1 ht)

/-! ### counting -/

def prodN (l : List Nat) : Nat := l.foldr (· * ·) 1

theorem prodN_cons (a : Nat) (l : List Nat) : prodN (a :: l) = a * prodN l := rfl

theorem prodN_perm {l l' : List Nat} (h : l.Perm l') : prodN l = prodN l' := by
  induction h with
  | nil => rfl
  | cons x _ ih => simp only [prodN_cons, ih]
  | swap x y l => simp only [prodN_cons, Nat.mul_left_comm]
  | trans _ _ ih1 ih2 => exact ih1.trans ih2

theorem prodN_append (l l' : List Nat) : prodN (l ++ l') = prodN l * prodN l' := by
  induction l with
  | nil => simp [prodN]
  | cons a l ih => simp only [List.cons_append, prodN_cons, ih, Nat.mul_assoc]

theorem prodN_ones {l : List Nat} (h : ∀ x ∈ l, x = 1) : prodN l = 1 := by
  induction l with
  | nil => rfl
  | cons a l ih =>
    rw [prodN_cons, h a (by simp), ih (fun x hx => h x (by simp [hx]))]

theorem length_filter_add {α} (p : α → Bool) (l : List α) :
    l.length = (l.filter p).length + (l.filter fun a => !p a).length := by
  induction l with
  | nil => rfl
  | cons a l ih =>
    by_cases h : p a = true
    · simp only [List.filter_cons, h, Bool.not_true, if_true, List.length_cons]
      simp only [Bool.false_eq_true, if_false]; omega
    · have h' : p a = false := by simpa using h
      simp only [List.filter_cons, h', Bool.not_false, if_true, List.length_cons]
      simp only [Bool.false_eq_true, if_false]; omega

/-- a list whose elements fall into `|O|` fibres of `c` elements each has `|O| * c` elements -/
theorem length_of_fibres {α} (v : α → Int) (c : Nat) : ∀ (O : List Int) (L : List α), O.Nodup →
    (∀ a ∈ L, v a ∈ O) → (∀ t ∈ O, (L.filter fun a => v a == t).length = c) → L.length = O.length * c
  | [], L, _, hv, _ => by
    cases L with
    | nil => simp
    | cons a l => exact absurd (hv a (List.mem_cons_self ..)) (by simp)
  | t :: O, L, hO, hv, hc => by
    rw [List.nodup_cons] at hO
    have hsplit := length_filter_add (fun a => v a == t) L
    have ih := length_of_fibres v c O (L.filter fun a => !(v a == t)) hO.2
      (by
        intro a ha
        obtain ⟨haL, hne⟩ := List.mem_filter.1 ha
        rcases List.mem_cons.1 (hv a haL) with h | h
        · simp [h] at hne
        · exact h)
      (by
        intro t' ht'
        rw [List.filter_filter, ← hc t' (List.mem_cons_of_mem _ ht')]
        congr 1
        apply List.filter_congr
        intro a _
        by_cases e : v a = t'
        · have hne : t' ≠ t := fun h => hO.1 (h ▸ ht')
          simp [e, hne]
        · simp [e])
    rw [hsplit, hc t (List.mem_cons_self ..), ih, List.length_cons, Nat.succ_mul, Nat.add_comm]

theorem length_one_of_all_eq {α} {l : List α} {x : α} (hn : l.Nodup) (hall : ∀ y ∈ l, y = x) (hx : x ∈ l) :
    l.length = 1 := by
  cases l with
  | nil => simp at hx
  | cons y l' =>
    cases l' with
    | nil => rfl
    | cons z l'' =>
      rw [List.nodup_cons] at hn
      have h1 := hall y (by simp)
      have h2 := hall z (by simp)
      exact absurd (by simp [h1, h2]) hn.1

/-! ### automorphisms as maps along the pattern nodes -/

theorem mem_auts (sg : Graph) (hs : sg.keys.Nodup) (a : Map) :
    a ∈ auts sg ↔ a.map Prod.fst = sg.keys ∧ IsIndIso sg sg (Map.toFun a) :=
  mem_allIsosP_iff sg sg _ hs a

theorem mapMk_mem_auts (sg : Graph) (hs : sg.keys.Nodup) {f : Int → Int} (hf : IsIndIso sg sg f) :
    (sg.keys.map fun u => (u, f u)) ∈ auts sg :=
  allIsosP_complete sg sg _ hs f hf

theorem auts_nodup (sg : Graph) (hs : sg.keys.Nodup) : (auts sg).Nodup := allIsosP_nodup sg sg _ hs

theorem fst_mapMk (S : List Int) (f : Int → Int) : (S.map fun u => (u, f u)).map Prod.fst = S := by
  rw [List.map_map]
  conv => rhs; rw [← List.map_id S]
  apply List.map_congr_left
  intro u _; rfl

/-- `b ∘ c` as a map along the pattern nodes -/
def compMap (sg : Graph) (b c : Map) : Map := sg.keys.map fun u => (u, Map.toFun b (Map.toFun c u))

/-- the automorphisms fixing all nodes below `k` that send `k` where `b` sends it are as many as those
that fix `k` too (`c ↦ b ∘ c` is a bijection between the two lists) -/
theorem fibre_length (sg : Graph) (hs : sg.keys.Nodup) {k : Int} (hk : k ∈ sg.keys) {b : Map} (hb : b ∈ auts sg)
    (hbf : fixesBelow sg b k = true) :
    (((auts sg).filter fun a => fixesBelow sg a k).filter fun a => Map.toFun a k == Map.toFun b k).length
      = (((auts sg).filter fun a => fixesBelow sg a k).filter fun a => Map.toFun a k == k).length := by
  obtain ⟨hbd, hbI⟩ := (mem_auts sg hs b).1 hb
  have hbF : FixBelow sg (Map.toFun b) k := (fixesBelow_iff sg b k).1 hbf
  have hnodG : ((auts sg).filter fun a => fixesBelow sg a k).Nodup := (auts_nodup sg hs).filter _
  -- injectivity of b on the nodes
  have hbinj : ∀ u ∈ sg.keys, ∀ v ∈ sg.keys, Map.toFun b u = Map.toFun b v → u = v := by
    intro u hu v hv e
    apply Classical.byContradiction
    intro hne
    exact hbI.inj u hu v hv hne e
  have hperm : ((((auts sg).filter fun a => fixesBelow sg a k).filter fun a => Map.toFun a k == k).map
      (compMap sg b)).Perm
      (((auts sg).filter fun a => fixesBelow sg a k).filter fun a => Map.toFun a k == Map.toFun b k) := by
    rw [List.perm_ext_iff_of_nodup _ (hnodG.filter _)]
    · intro x
      simp only [List.mem_map, List.mem_filter, beq_iff_eq]
      constructor
      · rintro ⟨c, ⟨⟨hc, hcf⟩, hck⟩, rfl⟩
        obtain ⟨_, hcI⟩ := (mem_auts sg hs c).1 hc
        have hcF : FixBelow sg (Map.toFun c) k := (fixesBelow_iff sg c k).1 hcf
        refine ⟨⟨mapMk_mem_auts sg hs (isAut_comp hbI hcI), ?_⟩, ?_⟩
        · rw [fixesBelow_iff]
          intro j hj hlt
          show Map.toFun (sg.keys.map fun u => (u, (Map.toFun b ∘ Map.toFun c) u)) j = j
          rw [toFun_mapMk _ hj]
          simp only [Function.comp, hcF j hj hlt, hbF j hj hlt]
        · show Map.toFun (sg.keys.map fun u => (u, (Map.toFun b ∘ Map.toFun c) u)) k = _
          rw [toFun_mapMk _ hk]
          simp only [Function.comp, hck]
      · rintro ⟨⟨hx, hxf⟩, hxk⟩
        obtain ⟨hxd, hxI⟩ := (mem_auts sg hs x).1 hx
        have hxF : FixBelow sg (Map.toFun x) k := (fixesBelow_iff sg x k).1 hxf
        obtain ⟨b', hb'I, hinv⟩ := isAut_inv hs hbI
        have hb'F : FixBelow sg b' k := fixBelow_inv hbI hb'I hinv hbF
        have hcI : IsIndIso sg sg (b' ∘ Map.toFun x) := isAut_comp hb'I hxI
        refine ⟨sg.keys.map fun u => (u, (b' ∘ Map.toFun x) u), ⟨⟨mapMk_mem_auts sg hs hcI, ?_⟩, ?_⟩, ?_⟩
        · rw [fixesBelow_iff]
          intro j hj hlt
          rw [toFun_mapMk _ hj]
          simp only [Function.comp, hxF j hj hlt, hb'F j hj hlt]
        · rw [toFun_mapMk _ hk]
          simp only [Function.comp, hxk]
          -- b' (b k) = k
          apply hbinj _ (hb'I.node _ (hbI.node k hk).1).1 _ hk
          exact hinv _ (hbI.node k hk).1
        · apply map_ext_of_keys
          · rw [hxd]; exact fst_mapMk _ _
          · unfold compMap; rw [fst_mapMk]; exact hs
          · intro u hu
            unfold compMap at hu ⊢
            rw [fst_mapMk] at hu
            rw [toFun_mapMk _ hu, toFun_mapMk _ hu]
            exact hinv _ (hxI.node u hu).1
    · -- the mapped list has no duplicates: c ↦ b ∘ c is injective on automorphisms
      rw [List.nodup_iff_pairwise_ne, List.pairwise_map]
      refine List.Pairwise.imp_of_mem ?_ (List.nodup_iff_pairwise_ne.1 (hnodG.filter _))
      intro c c' hc hc' hne e
      apply hne
      obtain ⟨hcd, hcI⟩ := (mem_auts sg hs c).1 (List.mem_filter.1 (List.mem_filter.1 hc).1).1
      obtain ⟨hcd', hcI'⟩ := (mem_auts sg hs c').1 (List.mem_filter.1 (List.mem_filter.1 hc').1).1
      apply map_ext_of_keys (by rw [hcd, hcd']) (by rw [hcd]; exact hs)
      intro u hu
      rw [hcd] at hu
      apply hbinj _ (hcI.node u hu).1 _ (hcI'.node u hu).1
      have := congrArg (fun m => Map.toFun m u) e
      simp only [compMap] at this
      rw [toFun_mapMk _ hu, toFun_mapMk _ hu] at this
      exact this
  rw [← hperm.length_eq, List.length_map]

/-- orbit-stabiliser for one step of the chain -/
theorem orbit_stab (sg : Graph) (hs : sg.keys.Nodup) {k : Int} (hk : k ∈ sg.keys) (O : List Int) (hO : O.Nodup)
    (hmem : ∀ t, t ∈ O ↔ t ∈ stabOrbit sg (auts sg) k) :
    ((auts sg).filter fun a => fixesBelow sg a k).length
      = O.length * (((auts sg).filter fun a => fixesBelow sg a k).filter fun a => Map.toFun a k == k).length := by
  apply length_of_fibres (fun a => Map.toFun a k) _ O _ hO
  · intro a ha
    obtain ⟨haA, haf⟩ := List.mem_filter.1 ha
    exact (hmem _).2 ((mem_stabOrbit sg _ k _).2 ⟨a, haA, haf, rfl⟩)
  · intro t ht
    obtain ⟨b, hb, hbf, rfl⟩ := (mem_stabOrbit sg _ k t).1 ((hmem t).1 ht)
    exact fibre_length sg hs hk hb hbf

/-! ### the chain -/

def fixAllB (sg : Graph) (a : Map) : Bool := sg.keys.all fun j => Map.toFun a j == j

/-- the subgroup the chain has reached when the nodes `S` (ascending) are still to be treated -/
def stabAt (sg : Graph) : List Int → Map → Bool
  | [], a => fixAllB sg a
  | k :: _, a => fixesBelow sg a k

theorem stab_id_length (sg : Graph) (hs : sg.keys.Nodup) : ((auts sg).filter (fixAllB sg)).length = 1 := by
  apply length_one_of_all_eq (x := sg.keys.map fun u => (u, id u)) ((auts_nodup sg hs).filter _)
  · intro y hy
    obtain ⟨hyA, hyf⟩ := List.mem_filter.1 hy
    obtain ⟨hyd, _⟩ := (mem_auts sg hs y).1 hyA
    apply map_ext_of_keys (by rw [hyd, fst_mapMk]) (by rw [hyd]; exact hs)
    intro u hu
    rw [hyd] at hu
    rw [toFun_mapMk _ hu]
    simp only [fixAllB, List.all_eq_true, beq_iff_eq] at hyf
    exact hyf u hu
  · refine List.mem_filter.2 ⟨mapMk_mem_auts sg hs (isAut_id sg), ?_⟩
    simp only [fixAllB, List.all_eq_true, beq_iff_eq]
    intro u hu
    rw [toFun_mapMk _ hu]; rfl

theorem stabAt_step (sg : Graph) {k : Int} {S : List Int} (hk : k ∈ sg.keys) (hsorted : (k :: S).Pairwise (· < ·))
    (hinv : ∀ j ∈ sg.keys, j ∉ k :: S → ∀ s ∈ k :: S, j < s) (a : Map) :
    (fixesBelow sg a k && Map.toFun a k == k) = stabAt sg S a := by
  rw [List.pairwise_cons] at hsorted
  rw [Bool.eq_iff_iff]
  simp only [Bool.and_eq_true, beq_iff_eq, fixesBelow_iff]
  cases S with
  | nil =>
    simp only [stabAt, fixAllB, List.all_eq_true, beq_iff_eq]
    constructor
    · rintro ⟨hf, hak⟩ j hj
      by_cases e : j = k
      · rw [e]; exact hak
      · exact hf j hj (hinv j hj (by simp [e]) k (by simp))
    · intro h
      exact ⟨fun j hj _ => h j hj, h k hk⟩
  | cons k' S' =>
    simp only [stabAt, fixesBelow_iff]
    have hlt : k < k' := hsorted.1 k' (by simp)
    constructor
    · rintro ⟨hf, hak⟩ j hj hjlt
      by_cases e : j = k
      · rw [e]; exact hak
      · by_cases hjS : j ∈ k' :: S'
        · -- impossible: k' is the smallest of the rest
          rcases List.mem_cons.1 hjS with h | h
          · omega
          · have := (List.pairwise_cons.1 hsorted.2).1 j h
            omega
        · exact hf j hj (hinv j hj (by simp [e, hjS]) k (by simp))
    · intro h
      exact ⟨fun j hj hjlt => h j hj (by omega), h k hk hlt⟩


theorem chain_length (sg : Graph) (hs : sg.keys.Nodup) (osz : Int → Nat)
    (hosz : ∀ k ∈ sg.keys, ∃ O : List Int, O.Nodup ∧ (∀ t, t ∈ O ↔ t ∈ stabOrbit sg (auts sg) k) ∧ O.length = osz k) :
    ∀ S : List Int, S.Pairwise (· < ·) → (∀ s ∈ S, s ∈ sg.keys) → (∀ j ∈ sg.keys, j ∉ S → ∀ s ∈ S, j < s) →
      ((auts sg).filter (stabAt sg S)).length = prodN (S.map osz)
  | [], _, _, _ => by
    have : (auts sg).filter (stabAt sg []) = (auts sg).filter (fixAllB sg) := List.filter_congr (fun a _ => rfl)
    rw [this, stab_id_length sg hs]; rfl
  | k :: S, hsorted, hsub, hinv => by
    have hk := hsub k (by simp)
    obtain ⟨O, hO, hmem, hlen⟩ := hosz k hk
    have h1 := orbit_stab sg hs hk O hO hmem
    have h2 : (((auts sg).filter fun a => fixesBelow sg a k).filter fun a => Map.toFun a k == k)
        = (auts sg).filter (stabAt sg S) := by
      rw [List.filter_filter]
      apply List.filter_congr
      intro a _
      rw [← stabAt_step sg hk hsorted hinv a, Bool.and_comm]
    have hsorted' := List.pairwise_cons.1 hsorted
    have ih := chain_length sg hs osz hosz S hsorted'.2 (fun s hs' => hsub s (by simp [hs']))
      (by
        intro j hj hjS s hsS
        by_cases e : j = k
        · rw [e]; exact hsorted'.1 s hsS
        · exact hinv j hj (by simp [e, hjS]) s (by simp [hsS]))
    have h0 : (auts sg).filter (stabAt sg (k :: S)) = (auts sg).filter fun a => fixesBelow sg a k :=
      List.filter_congr (fun a _ => rfl)
    rw [h0, h1, h2, ih, List.map_cons, prodN_cons, hlen]

/-! ### the keys in ascending order -/

theorem insertBy_sorted (a : Int) (l : List Int) (h : l.Pairwise (· ≤ ·)) :
    (insertBy (fun a b => decide (a ≤ b)) a l).Pairwise (· ≤ ·) := by
  induction l with
  | nil => simp [insertBy]
  | cons b l ih =>
    rw [List.pairwise_cons] at h
    unfold insertBy
    split
    · rename_i hab
      have hab' : a ≤ b := by simpa using hab
      refine List.pairwise_cons.2 ⟨?_, List.pairwise_cons.2 h⟩
      intro x hx
      rcases List.mem_cons.1 hx with e | e
      · rw [e]; exact hab'
      · have := h.1 x e; omega
    · rename_i hab
      have hab' : ¬ a ≤ b := by simpa using hab
      refine List.pairwise_cons.2 ⟨?_, ih h.2⟩
      intro x hx
      have hx' := (insertBy_perm _ a l).mem_iff.1 hx
      rcases List.mem_cons.1 hx' with e | e
      · rw [e]; omega
      · exact h.1 x e

theorem sortInts_sorted (l : List Int) : (sortInts l).Pairwise (· ≤ ·) := by
  induction l with
  | nil => exact List.Pairwise.nil
  | cons a l ih => exact insertBy_sorted a _ ih

theorem sortInts_strict {l : List Int} (h : l.Nodup) : (sortInts l).Pairwise (· < ·) := by
  have h1 := sortInts_sorted l
  have h2 := List.nodup_iff_pairwise_ne.1 (sortInts_nodup h)
  exact (h1.and h2).imp (fun ⟨a, b⟩ => by omega)

/-- `|Aut(pattern)|` is the product of the orbit sizes along the stabiliser chain in key order -/
theorem auts_length_eq_prod (sg : Graph) (hs : sg.keys.Nodup) (osz : Int → Nat)
    (hosz : ∀ k ∈ sg.keys, ∃ O : List Int, O.Nodup ∧ (∀ t, t ∈ O ↔ t ∈ stabOrbit sg (auts sg) k) ∧ O.length = osz k) :
    (auts sg).length = prodN (sg.keys.map osz) := by
  have hperm := sortBy_perm (fun a b => decide (a ≤ b)) sg.keys
  have hchain := chain_length sg hs osz hosz (sortInts sg.keys) (sortInts_strict hs)
    (fun s h => (mem_sortInts _ _).1 h) (fun j hj hjS => absurd ((mem_sortInts _ _).2 hj) hjS)
  have hall : (auts sg).filter (stabAt sg (sortInts sg.keys)) = auts sg := by
    apply List.filter_eq_self.2
    intro a _
    cases hK : sortInts sg.keys with
    | nil =>
      have hnil : sg.keys = [] := by
        have := hperm.symm
        unfold sortInts at hK
        rw [hK] at this
        exact List.Perm.eq_nil this
      simp [stabAt, fixAllB, hnil]
    | cons k K' =>
      show fixesBelow sg a k = true
      rw [fixesBelow_iff]
      intro j hj hlt
      have hjK : j ∈ sortInts sg.keys := (mem_sortInts _ _).2 hj
      have hstrict := sortInts_strict hs
      rw [hK] at hjK hstrict
      rcases List.mem_cons.1 hjK with e | e
      · omega
      · have := (List.pairwise_cons.1 hstrict).1 j e; omega
  rw [hall] at hchain
  rw [hchain]
  exact prodN_perm (hperm.map osz)

/-! ### dicts -/

theorem nodupB_iff (l : List Int) : nodupB l = true ↔ l.Nodup := by
  induction l with
  | nil => simp [nodupB]
  | cons a l ih => simp [nodupB, ih]

theorem mem_of_lookup_some {β} {l : List (Int × β)} {k : Int} {v : β} (h : l.lookup k = some v) : (k, v) ∈ l := by
  induction l with
  | nil => simp at h
  | cons e l ih =>
    obtain ⟨a, b⟩ := e
    rw [List.lookup_cons] at h
    by_cases e : k = a
    · subst e; simp at h; simp [h]
    · have : (k == a) = false := by simpa using e
      rw [this] at h
      exact List.mem_cons_of_mem _ (ih h)

theorem lookup_none_not_mem {β} {l : List (Int × β)} {k : Int} (h : l.lookup k = none) (v : β) : (k, v) ∉ l := by
  induction l with
  | nil => simp
  | cons e l ih =>
    obtain ⟨a, b⟩ := e
    rw [List.lookup_cons] at h
    by_cases e : k = a
    · subst e; simp at h
    · have : (k == a) = false := by simpa using e
      rw [this] at h
      intro hm
      rcases List.mem_cons.1 hm with h' | h'
      · exact e (by cases h'; rfl)
      · exact ih h h'

theorem lookup_of_mem_nodup {β} {l : List (Int × β)} (hn : (l.map Prod.fst).Nodup) {k : Int} {v : β}
    (h : (k, v) ∈ l) : l.lookup k = some v := by
  induction l with
  | nil => simp at h
  | cons e l ih =>
    obtain ⟨a, b⟩ := e
    simp only [List.map_cons, List.nodup_cons, List.mem_map] at hn
    rw [List.lookup_cons]
    rcases List.mem_cons.1 h with h' | h'
    · cases h'; simp
    · have hne : k ≠ a := by
        intro e; subst e; exact hn.1 ⟨(k, v), h', rfl⟩
      have : (k == a) = false := by simpa using hne
      rw [this]; exact ih hn.2 h'

/-- the size `analyze_symmetry` claims for the orbit of `k`: `len(cosets[k])`, 1 without an entry -/
def oszOf (cosets : List (Int × List Int)) (k : Int) : Nat :=
  match cosets.lookup k with
  | some ts => ts.length
  | none => 1

/-- **orbit-stabiliser along the chain**: exact cosets (a dict of sets) have the product of their sizes
equal to the number of automorphisms of the pattern -/
theorem cosetProduct_eq (sg : Graph) (hs : sg.keys.Nodup) (cosets : List (Int × List Int))
    (hex : CosetsExact sg cosets) (hd : cosetsDictB cosets = true) : cosetProduct cosets = (auts sg).length := by
  simp only [cosetsDictB, Bool.and_eq_true, List.all_eq_true, nodupB_iff] at hd
  obtain ⟨hkn, hvn⟩ := hd
  have hosz : ∀ k ∈ sg.keys, ∃ O : List Int, O.Nodup ∧ (∀ t, t ∈ O ↔ t ∈ stabOrbit sg (auts sg) k)
      ∧ O.length = oszOf cosets k := by
    intro k hk
    cases hl : cosets.lookup k with
    | none =>
      refine ⟨[k], by simp, ?_, by simp [oszOf, hl]⟩
      intro t
      rw [mem_stabOrbit_auts sg hs hk]
      constructor
      · intro ht
        have : t = k := by simpa using ht
        rw [this]; exact inOrb_self sg k
      · intro ht
        rcases hex.2 k hk with ⟨ts, he⟩ | h
        · exact absurd he (lookup_none_not_mem hl ts)
        · simp [h t ht]
    | some ts =>
      have he := mem_of_lookup_some hl
      refine ⟨ts, hvn _ he, ?_, by simp [oszOf, hl]⟩
      intro t
      rw [mem_stabOrbit_auts sg hs hk]
      exact (hex.1 k ts he).2 t
  rw [auts_length_eq_prod sg hs _ hosz]
  -- the pattern nodes = the keys of the dict followed by the other nodes
  have hperm : sg.keys.Perm (cosets.map Prod.fst ++ sg.keys.filter fun j => !(cosets.map Prod.fst).contains j) := by
    rw [List.perm_ext_iff_of_nodup hs]
    · intro a
      simp only [List.mem_append, List.mem_filter, Bool.not_eq_true']
      constructor
      · intro ha
        by_cases h : a ∈ cosets.map Prod.fst
        · exact Or.inl h
        · exact Or.inr ⟨ha, by simpa using h⟩
      · rintro (h | h)
        · obtain ⟨e, he, rfl⟩ := List.mem_map.1 h
          exact (hex.1 e.1 e.2 he).1
        · exact h.1
    · rw [List.nodup_append]
      refine ⟨hkn, hs.filter _, ?_⟩
      intro a ha b hb e
      subst e
      have := (List.mem_filter.1 hb).2
      simp [ha] at this
  rw [prodN_perm (hperm.map (oszOf cosets)), List.map_append, prodN_append]
  have hrest : prodN ((sg.keys.filter fun j => !(cosets.map Prod.fst).contains j).map (oszOf cosets)) = 1 := by
    apply prodN_ones
    intro x hx
    obtain ⟨j, hj, rfl⟩ := List.mem_map.1 hx
    have hnot : j ∉ cosets.map Prod.fst := by
      have := (List.mem_filter.1 hj).2
      simpa using this
    cases hl : cosets.lookup j with
    | none => simp [oszOf, hl]
    | some ts => exact absurd (List.mem_map.2 ⟨(j, ts), mem_of_lookup_some hl, rfl⟩) hnot
  rw [hrest, Nat.mul_one, List.map_map]
  show prodN (cosets.map fun e => e.2.length) = _
  congr 1
  apply List.map_congr_left
  intro e he
  simp only [Function.comp, oszOf, lookup_of_mem_nodup hkn (show (e.1, e.2) ∈ cosets from he)]

end C06I
