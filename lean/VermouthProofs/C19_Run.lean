import VermouthModel.C19
/-! Helper lemmas for C19 (matcher, marking, report). Core Lean only. -/
namespace C19

/-! ### the matcher -/

theorem optAgrees_iff {α} [DecidableEq α] (w h : Option α) :
    optAgrees w h = true ↔ ∀ v, w = some v → h = some v := by
  cases w with
  | none => simp [optAgrees]
  | some v => simp [optAgrees]

theorem nodup_eraseDups {α} [BEq α] [LawfulBEq α] (l : List α) : l.eraseDups.Nodup := by
  generalize hn : l.length = n
  induction n using Nat.strongRecOn generalizing l with
  | _ n ih =>
    cases l with
    | nil => simp
    | cons a t =>
      rw [List.eraseDups_cons, List.nodup_cons]
      refine ⟨?_, ?_⟩
      · rw [List.mem_eraseDups, List.mem_filter]
        simp
      · have hlen : (List.filter (fun b => !b == a) t).length ≤ t.length := List.length_filter_le _ _
        simp only [List.length_cons] at hn
        exact ih _ (by omega) _ rfl

/-! ### marking -/

/-- a request that raises NameError on molecule `m0` -/
def bad (lib : Lib) (m0 : Mol) (k : Kind) (rq : Request) : Bool :=
  matchesAny lib rq.spec m0 && !lib.known k rq.target

def countOf (lib : Lib) (m0 : Mol) (k : Kind) (idx : Nat) (rq : Request) : Count :=
  { success := matchesAny lib rq.spec m0, kind := k, index := idx, mutmod := formatSpec rq.spec, post := rq.target }

def countsFrom (lib : Lib) (m0 : Mol) (k : Kind) : Nat → List Request → List Count
  | _, [] => []
  | idx, rq :: rest => countOf lib m0 k idx rq :: countsFrom lib m0 k (idx + 1) rest

theorem resiter_ok (lib : Lib) (m0 : Mol) (k : Kind) (rq : Request) (atoms : List Atom)
    (h : bad lib m0 k rq = false) :
    resiter lib m0 k rq atoms = .ok (markAll lib m0 k rq atoms, matchesAny lib rq.spec m0) := by
  unfold resiter; unfold bad at h; rw [h]; rfl

theorem resiter_bad (lib : Lib) (m0 : Mol) (k : Kind) (rq : Request) (atoms : List Atom)
    (h : bad lib m0 k rq = true) :
    resiter lib m0 k rq atoms = .error (.nameError k rq.target) := by
  unfold resiter; unfold bad at h; rw [h]; rfl

theorem runKind_err (lib : Lib) (m0 : Mol) (k : Kind) (l : List Request) (idx : Nat) (st : MolState)
    (e : Err) (h : st.err = some e) : runKind lib m0 k l idx st = st := by
  cases l with
  | nil => rfl
  | cons rq rest => unfold runKind; rw [h]

theorem runKind_ok (lib : Lib) (m0 : Mol) (k : Kind) (l : List Request) (idx : Nat) (atoms : List Atom)
    (counts : List Count) (h : ∀ rq ∈ l, bad lib m0 k rq = false) :
    runKind lib m0 k l idx { atoms := atoms, counts := counts, err := none } =
      { atoms := l.foldl (fun as rq => markAll lib m0 k rq as) atoms,
        counts := counts ++ countsFrom lib m0 k idx l, err := none } := by
  induction l generalizing idx atoms counts with
  | nil => simp [runKind, countsFrom]
  | cons rq rest ih =>
    unfold runKind
    simp only
    rw [resiter_ok _ _ _ _ _ (h rq (by simp))]
    simp only
    rw [ih _ _ _ (fun r hr => h r (by simp [hr]))]
    simp [countsFrom, countOf]

theorem runKind_bad (lib : Lib) (m0 : Mol) (k : Kind) (l : List Request) (idx : Nat) (atoms : List Atom)
    (counts : List Count) (h : ∃ rq ∈ l, bad lib m0 k rq = true) :
    ∃ rq ∈ l, bad lib m0 k rq = true ∧
      (runKind lib m0 k l idx { atoms := atoms, counts := counts, err := none }).err
        = some (.nameError k rq.target) := by
  induction l generalizing idx atoms counts with
  | nil => obtain ⟨rq, hm, _⟩ := h; simp at hm
  | cons rq rest ih =>
    by_cases hb : bad lib m0 k rq = true
    · refine ⟨rq, by simp, hb, ?_⟩
      unfold runKind
      simp only
      rw [resiter_bad _ _ _ _ _ hb]
    · have hb' : bad lib m0 k rq = false := by simpa using hb
      have h' : ∃ r ∈ rest, bad lib m0 k r = true := by
        obtain ⟨r, hm, hr⟩ := h
        simp only [List.mem_cons] at hm
        cases hm with
        | inl e => subst e; exact absurd hr hb
        | inr e => exact ⟨r, e, hr⟩
      unfold runKind
      simp only
      rw [resiter_ok _ _ _ _ _ hb']
      simp only
      obtain ⟨r, hm, hr, he⟩ := ih (idx + 1) (markAll lib m0 k rq atoms)
        (counts ++ [{ success := matchesAny lib rq.spec m0, kind := k, index := idx,
                      mutmod := formatSpec rq.spec, post := rq.target }]) h'
      exact ⟨r, by simp [hm], hr, he⟩

/-- the marks one atom receives from a list of requests of kind `k` -/
def markAtom (lib : Lib) (m0 : Mol) (k : Kind) (l : List Request) (a : Atom) : Atom :=
  l.foldl (fun a rq => if residueMatches lib.protein rq.spec m0 a.res then addMark k rq.target a else a) a

theorem addMark_res (k : Kind) (t : Str) (a : Atom) : (addMark k t a).res = a.res := by
  cases k <;> rfl

theorem foldl_markAll (lib : Lib) (m0 : Mol) (k : Kind) (l : List Request) (atoms : List Atom) :
    l.foldl (fun as rq => markAll lib m0 k rq as) atoms = atoms.map (markAtom lib m0 k l) := by
  induction l generalizing atoms with
  | nil =>
    have : markAtom lib m0 k [] = id := by funext a; rfl
    simp [this]
  | cons rq rest ih =>
    simp only [List.foldl_cons]
    rw [ih]
    simp only [markAll, List.map_map]
    apply List.map_congr_left
    intro a _
    simp [markAtom, List.foldl_cons]

def targetsFor (lib : Lib) (m0 : Mol) (l : List Request) (r : ResKey) : List Str :=
  (l.filter (fun rq => residueMatches lib.protein rq.spec m0 r)).map (·.target)

theorem markAtom_mod (lib : Lib) (m0 : Mol) (l : List Request) (a : Atom) :
    markAtom lib m0 .modification l a = { a with mods := a.mods ++ targetsFor lib m0 l a.res } := by
  induction l generalizing a with
  | nil => simp [markAtom, targetsFor]
  | cons rq rest ih =>
    have ih' := fun a => ih a
    unfold markAtom at ih' ⊢
    simp only [List.foldl_cons]
    by_cases hm : residueMatches lib.protein rq.spec m0 a.res = true
    · rw [if_pos hm, ih']
      simp [targetsFor, List.filter_cons, hm, addMark]
    · rw [if_neg hm, ih']
      simp [targetsFor, List.filter_cons, hm]

theorem markAtom_mut (lib : Lib) (m0 : Mol) (l : List Request) (a : Atom) :
    markAtom lib m0 .mutation l a = { a with muts := a.muts ++ targetsFor lib m0 l a.res } := by
  induction l generalizing a with
  | nil => simp [markAtom, targetsFor]
  | cons rq rest ih =>
    have ih' := fun a => ih a
    unfold markAtom at ih' ⊢
    simp only [List.foldl_cons]
    by_cases hm : residueMatches lib.protein rq.spec m0 a.res = true
    · rw [if_pos hm, ih']
      simp [targetsFor, List.filter_cons, hm, addMark]
    · rw [if_neg hm, ih']
      simp [targetsFor, List.filter_cons, hm]

/-- the declarative result for one atom -/
def marked (lib : Lib) (m0 : Mol) (mods muts : List Request) (a : Atom) : Atom :=
  { a with mods := a.mods ++ targetsFor lib m0 mods a.res,
           muts := a.muts ++ targetsFor lib m0 muts a.res }

/-- a molecule on which `annotate_modifications` raises -/
def molBad (lib : Lib) (mods muts : List Request) (m : Mol) : Bool :=
  !(mods.isEmpty && muts.isEmpty) &&
  (m.atoms.isEmpty || mods.any (bad lib m .modification) || muts.any (bad lib m .mutation))

def molCounts (lib : Lib) (mods muts : List Request) (m : Mol) : List Count :=
  countsFrom lib m .modification 0 mods ++ countsFrom lib m .mutation 0 muts

theorem annotateMol_ok (lib : Lib) (mods muts : List Request) (m : Mol) (counts : List Count)
    (h : molBad lib mods muts m = false) :
    annotateMol lib mods muts m counts =
      { atoms := m.atoms.map (marked lib m mods muts), counts := counts ++ molCounts lib mods muts m, err := none } := by
  unfold annotateMol
  by_cases he : (mods.isEmpty && muts.isEmpty) = true
  · rw [if_pos he]
    simp only [Bool.and_eq_true, List.isEmpty_iff] at he
    obtain ⟨rfl, rfl⟩ := he
    have : marked lib m [] [] = id := by
      funext a; cases a; simp [marked, targetsFor]
    simp [this, molCounts, countsFrom]
  · rw [if_neg he]
    simp only [molBad, Bool.and_eq_false_iff, Bool.or_eq_false_iff, Bool.not_eq_false'] at h
    cases h with
    | inl h => exact absurd h he
    | inr h =>
      obtain ⟨⟨h1, h2⟩, h3⟩ := h
      rw [if_neg (by simp [h1])]
      simp only
      have hm : ∀ rq ∈ mods, bad lib m .modification rq = false := by
        intro rq hr
        cases hb : bad lib m .modification rq with
        | false => rfl
        | true =>
          have : mods.any (bad lib m .modification) = true := List.any_eq_true.mpr ⟨rq, hr, hb⟩
          rw [this] at h2; cases h2
      have ht : ∀ rq ∈ muts, bad lib m .mutation rq = false := by
        intro rq hr
        cases hb : bad lib m .mutation rq with
        | false => rfl
        | true =>
          have : muts.any (bad lib m .mutation) = true := List.any_eq_true.mpr ⟨rq, hr, hb⟩
          rw [this] at h3; cases h3
      rw [runKind_ok _ _ _ _ _ _ _ hm, runKind_ok _ _ _ _ _ _ _ ht, foldl_markAll, foldl_markAll]
      simp only [List.map_map, molCounts, List.append_assoc, MolState.mk.injEq, and_true]
      apply List.map_congr_left
      intro a _
      simp only [Function.comp, markAtom_mod, markAtom_mut, marked]

theorem annotateMol_bad (lib : Lib) (mods muts : List Request) (m : Mol) (counts : List Count)
    (h : molBad lib mods muts m = true) :
    ∃ e, (annotateMol lib mods muts m counts).err = some e ∧
      (e = .keyError ∧ m.atoms = [] ∨
       ∃ k rq, e = .nameError k rq.target ∧ bad lib m k rq = true ∧
         (k = .modification ∧ rq ∈ mods ∨ k = .mutation ∧ rq ∈ muts)) := by
  unfold annotateMol
  simp only [molBad, Bool.and_eq_true, Bool.not_eq_true', Bool.or_eq_true] at h
  obtain ⟨he, h⟩ := h
  rw [if_neg (by simp [he])]
  by_cases hemp : m.atoms.isEmpty = true
  · rw [if_pos hemp]
    exact ⟨.keyError, rfl, Or.inl ⟨rfl, by simpa using hemp⟩⟩
  · rw [if_neg hemp]
    simp only
    by_cases hm : ∃ rq ∈ mods, bad lib m .modification rq = true
    · obtain ⟨rq, hr, hb, herr⟩ := runKind_bad lib m .modification mods 0 m.atoms counts hm
      refine ⟨.nameError .modification rq.target, ?_, Or.inr ⟨.modification, rq, rfl, hb, Or.inl ⟨rfl, hr⟩⟩⟩
      rw [runKind_err _ _ _ _ _ _ _ herr]
      exact herr
    · have hm' : ∀ rq ∈ mods, bad lib m .modification rq = false := by
        intro rq hr
        cases hb : bad lib m .modification rq with
        | false => rfl
        | true => exact absurd ⟨rq, hr, hb⟩ hm
      have ht : ∃ rq ∈ muts, bad lib m .mutation rq = true := by
        rcases h with (h | h) | h
        · exact absurd h hemp
        · exact absurd (List.any_eq_true.mp h) hm
        · exact List.any_eq_true.mp h
      rw [runKind_ok _ _ _ _ _ _ _ hm']
      obtain ⟨rq, hr, hb, herr⟩ := runKind_bad lib m .mutation muts 0 _ _ ht
      exact ⟨.nameError .mutation rq.target, herr, Or.inr ⟨.mutation, rq, rfl, hb, Or.inr ⟨rfl, hr⟩⟩⟩

def markMol (lib : Lib) (mods muts : List Request) (m : Mol) : Mol :=
  { m with atoms := m.atoms.map (marked lib m mods muts) }

theorem runMols_ok (lib : Lib) (mods muts : List Request) (mols : List Mol) (counts : List Count)
    (h : ∀ m ∈ mols, molBad lib mods muts m = false) :
    runMols lib mods muts mols counts =
      { mols := mols.map (markMol lib mods muts),
        counts := counts ++ mols.flatMap (molCounts lib mods muts), err := none } := by
  induction mols generalizing counts with
  | nil => simp [runMols]
  | cons m rest ih =>
    unfold runMols
    simp only
    rw [annotateMol_ok _ _ _ _ _ (h m (by simp))]
    simp only
    rw [ih _ (fun x hx => h x (by simp [hx]))]
    simp [markMol, List.flatMap_cons]

theorem runMols_bad (lib : Lib) (mods muts : List Request) (mols : List Mol) (counts : List Count)
    (h : ∃ m ∈ mols, molBad lib mods muts m = true) :
    ∃ m ∈ mols, ∃ e, (runMols lib mods muts mols counts).err = some e ∧
      (e = .keyError ∧ m.atoms = [] ∨
       ∃ k rq, e = .nameError k rq.target ∧ bad lib m k rq = true ∧
         (k = .modification ∧ rq ∈ mods ∨ k = .mutation ∧ rq ∈ muts)) := by
  induction mols generalizing counts with
  | nil => obtain ⟨m, hm, _⟩ := h; simp at hm
  | cons m rest ih =>
    unfold runMols
    simp only
    by_cases hb : molBad lib mods muts m = true
    · obtain ⟨e, he, hwhy⟩ := annotateMol_bad lib mods muts m counts hb
      refine ⟨m, by simp, e, ?_, hwhy⟩
      rw [he]
    · have hb' : molBad lib mods muts m = false := by simpa using hb
      rw [annotateMol_ok _ _ _ _ _ hb']
      simp only
      have h' : ∃ x ∈ rest, molBad lib mods muts x = true := by
        obtain ⟨x, hx, hxb⟩ := h
        simp only [List.mem_cons] at hx
        cases hx with
        | inl e => subst e; exact absurd hxb hb
        | inr e => exact ⟨x, e, hxb⟩
      obtain ⟨x, hx, e, he, hwhy⟩ := ih (counts ++ molCounts lib mods muts m) h'
      exact ⟨x, by simp [hx], e, he, hwhy⟩

/-! ### the bookkeeping list does not influence marks or errors -/

theorem runKind_counts_indep (lib : Lib) (m0 : Mol) (k : Kind) (l : List Request) (idx : Nat) (st st' : MolState)
    (ha : st.atoms = st'.atoms) (he : st.err = st'.err) :
    (runKind lib m0 k l idx st).atoms = (runKind lib m0 k l idx st').atoms ∧
    (runKind lib m0 k l idx st).err = (runKind lib m0 k l idx st').err := by
  induction l generalizing idx st st' with
  | nil => exact ⟨ha, he⟩
  | cons rq rest ih =>
    unfold runKind
    cases hs : st.err with
    | some e =>
      have hs' : st'.err = some e := by rw [← he, hs]
      rw [hs']
      simp only
      exact ⟨ha, by rw [hs, hs']⟩
    | none =>
      have hs' : st'.err = none := by rw [← he, hs]
      rw [hs']
      simp only
      rw [← ha]
      cases resiter lib m0 k rq st.atoms with
      | error e => simp
      | ok r => simp only; exact ih _ _ _ rfl rfl

theorem annotateMol_counts_indep (lib : Lib) (mods muts : List Request) (m : Mol) (c c' : List Count) :
    (annotateMol lib mods muts m c).atoms = (annotateMol lib mods muts m c').atoms ∧
    (annotateMol lib mods muts m c).err = (annotateMol lib mods muts m c').err := by
  unfold annotateMol
  split
  · exact ⟨rfl, rfl⟩
  · split
    · exact ⟨rfl, rfl⟩
    · simp only
      obtain ⟨h1, h2⟩ := runKind_counts_indep lib m .modification mods 0
        { atoms := m.atoms, counts := c, err := none } { atoms := m.atoms, counts := c', err := none } rfl rfl
      exact runKind_counts_indep lib m .mutation muts 0 _ _ h1 h2

/-! ### the report -/

def Count.toReport (c : Count) : Report := { mutmod := c.mutmod, kind := c.kind, post := c.post }

/-- the bookkeeping records that are reported (same loop as `reportLoop`) -/
def reportedCounts (all : List Count) : List Count → List SpecId → List Count
  | [], _ => []
  | c :: rest, reported =>
    if !foundAnywhere all c.id && !reported.contains c.id then
      c :: reportedCounts all rest (c.id :: reported)
    else reportedCounts all rest reported

theorem reportLoop_eq (all l : List Count) (rep : List SpecId) :
    reportLoop all l rep = (reportedCounts all l rep).map Count.toReport := by
  induction l generalizing rep with
  | nil => rfl
  | cons c rest ih =>
    unfold reportLoop reportedCounts
    split
    · simp [ih, Count.toReport]
    · exact ih rep

theorem reportedCounts_mem (all l : List Count) (rep : List SpecId) (c : Count)
    (h : c ∈ reportedCounts all l rep) :
    c ∈ l ∧ foundAnywhere all c.id = false ∧ c.id ∉ rep := by
  induction l generalizing rep with
  | nil => simp [reportedCounts] at h
  | cons d rest ih =>
    unfold reportedCounts at h
    split at h
    · rename_i hc
      simp only [Bool.and_eq_true, Bool.not_eq_true', List.contains_eq_mem, decide_eq_false_iff_not] at hc
      simp only [List.mem_cons] at h
      cases h with
      | inl e => subst e; exact ⟨by simp, hc.1, hc.2⟩
      | inr e =>
        obtain ⟨h1, h2, h3⟩ := ih _ e
        exact ⟨by simp [h1], h2, fun hm => h3 (by simp [hm])⟩
    · obtain ⟨h1, h2, h3⟩ := ih _ h
      exact ⟨by simp [h1], h2, h3⟩

theorem reportedCounts_nodup (all l : List Count) (rep : List SpecId) :
    ((reportedCounts all l rep).map Count.id).Nodup := by
  induction l generalizing rep with
  | nil => simp [reportedCounts]
  | cons d rest ih =>
    unfold reportedCounts
    split
    · rw [List.map_cons, List.nodup_cons]
      refine ⟨?_, ih _⟩
      intro hm
      rw [List.mem_map] at hm
      obtain ⟨c, hc, e⟩ := hm
      have := (reportedCounts_mem all rest _ c hc).2.2
      exact this (by simp [e])
    · exact ih rep

theorem reportedCounts_complete (all l : List Count) (rep : List SpecId) (c : Count)
    (hc : c ∈ l) (hf : foundAnywhere all c.id = false) (hr : c.id ∉ rep) :
    c.id ∈ (reportedCounts all l rep).map Count.id := by
  induction l generalizing rep with
  | nil => simp at hc
  | cons d rest ih =>
    unfold reportedCounts
    simp only [List.mem_cons] at hc
    split
    · rename_i hd
      by_cases e : c.id = d.id
      · simp [e]
      · cases hc with
        | inl h => subst h; exact absurd rfl e
        | inr h =>
          have := ih (d.id :: rep) h (by
            intro hm; simp only [List.mem_cons] at hm
            cases hm with
            | inl x => exact e x
            | inr x => exact hr x)
          simp [this]
    · rename_i hd
      cases hc with
      | inl h =>
        subst h
        simp only [Bool.and_eq_true, Bool.not_eq_true', List.contains_eq_mem, decide_eq_false_iff_not] at hd
        exact absurd ⟨hf, hr⟩ hd
      | inr h => exact ih rep h hr

theorem mem_countsFrom (lib : Lib) (m : Mol) (k : Kind) (idx : Nat) (l : List Request) (c : Count) :
    c ∈ countsFrom lib m k idx l ↔ ∃ j rq, l[j]? = some rq ∧ c = countOf lib m k (idx + j) rq := by
  induction l generalizing idx with
  | nil => simp [countsFrom]
  | cons r rest ih =>
    simp only [countsFrom, List.mem_cons, ih]
    constructor
    · rintro (h | ⟨j, rq, hj, hc⟩)
      · exact ⟨0, r, by simp, by simpa using h⟩
      · exact ⟨j + 1, rq, by simpa using hj, by rw [hc]; congr 1; omega⟩
    · rintro ⟨j, rq, hj, hc⟩
      cases j with
      | zero =>
        simp at hj; subst hj
        exact Or.inl (by simpa using hc)
      | succ j =>
        simp at hj
        exact Or.inr ⟨j, rq, hj, by rw [hc]; congr 1; omega⟩

/-- the request with a given bookkeeping identity -/
def reqAt (mods muts : List Request) (id : SpecId) : Option Request :=
  match id.1 with
  | .modification => mods[id.2]?
  | .mutation => muts[id.2]?

theorem mem_molCounts (lib : Lib) (mods muts : List Request) (m : Mol) (c : Count) :
    c ∈ molCounts lib mods muts m ↔
      ∃ rq, reqAt mods muts c.id = some rq ∧ c = countOf lib m c.kind c.index rq := by
  unfold molCounts
  rw [List.mem_append, mem_countsFrom, mem_countsFrom]
  constructor
  · rintro (⟨j, rq, hj, hc⟩ | ⟨j, rq, hj, hc⟩)
    · refine ⟨rq, ?_, ?_⟩
      · subst hc; simpa [reqAt, Count.id, countOf] using hj
      · subst hc; simp [countOf]
    · refine ⟨rq, ?_, ?_⟩
      · subst hc; simpa [reqAt, Count.id, countOf] using hj
      · subst hc; simp [countOf]
  · rintro ⟨rq, hr, hc⟩
    cases hk : c.kind with
    | modification =>
      left
      refine ⟨c.index, rq, ?_, ?_⟩
      · simpa [reqAt, Count.id, hk] using hr
      · rw [hc]; simp [countOf, hk]
    | mutation =>
      right
      refine ⟨c.index, rq, ?_, ?_⟩
      · simpa [reqAt, Count.id, hk] using hr
      · rw [hc]; simp [countOf, hk]

theorem found_system (lib : Lib) (mods muts : List Request) (mols : List Mol) (id : SpecId) (rq : Request)
    (h : reqAt mods muts id = some rq) :
    foundAnywhere (mols.flatMap (molCounts lib mods muts)) id = mols.any (fun m => matchesAny lib rq.spec m) := by
  rw [Bool.eq_iff_iff]
  unfold foundAnywhere
  rw [List.any_eq_true, List.any_eq_true]
  constructor
  · rintro ⟨c, hc, hid⟩
    rw [List.mem_flatMap] at hc
    obtain ⟨m, hm, hcm⟩ := hc
    rw [mem_molCounts] at hcm
    obtain ⟨rq', hr', hc'⟩ := hcm
    simp only [Bool.and_eq_true, decide_eq_true_eq] at hid
    rw [hid.1, h] at hr'
    cases hr'
    refine ⟨m, hm, ?_⟩
    have := hid.2
    rw [hc'] at this
    simpa [countOf] using this
  · rintro ⟨m, hm, hmatch⟩
    refine ⟨countOf lib m id.1 id.2 rq, ?_, ?_⟩
    · rw [List.mem_flatMap]
      refine ⟨m, hm, ?_⟩
      rw [mem_molCounts]
      exact ⟨rq, by simpa [countOf, Count.id] using h, by simp [countOf]⟩
    · simp [countOf, Count.id, hmatch]

end C19
