import VermouthProofs.Iso
import VermouthModel.C06_Ismags
/-! Lemmas about the transcription of the ISMAGS search core (`VermouthModel/C06_Ismags.lean`).
Core Lean only. -/
namespace C06I
open Iso

/-! ### dict / set helpers -/

theorem Cands.get_set (c : Cands) (u : Int) (v : List NodeSet) (w : Int) :
    (Cands.set c u v).get w = if w == u then v else c.get w := by
  induction c with
  | nil =>
    by_cases h : w = u
    · subst h; simp [Cands.set, Cands.get]
    · have : (w == u) = false := by simpa using h
      simp [Cands.set, Cands.get, List.lookup, this]
  | cons e r ih =>
    obtain ⟨k, b⟩ := e
    unfold Cands.set
    by_cases hu : u = k
    · subst hu
      simp only [BEq.rfl, if_true]
      by_cases h : w = u
      · subst h; simp [Cands.get, List.lookup]
      · have : (w == u) = false := by simpa using h
        simp [Cands.get, List.lookup, this]
    · have hu' : (u == k) = false := by simpa using hu
      simp only [hu', Bool.false_eq_true, if_false]
      by_cases hk : w = k
      · subst hk
        have : (w == u) = false := by simpa using (fun e => hu e.symm)
        simp [Cands.get, List.lookup, this]
      · have hk' : (w == k) = false := by simpa using hk
        have e1 : Cands.get ((k, b) :: Cands.set r u v) w = Cands.get (Cands.set r u v) w := by
          simp [Cands.get, List.lookup, hk']
        have e2 : Cands.get ((k, b) :: r) w = Cands.get r w := by
          simp [Cands.get, List.lookup, hk']
        rw [e1, e2, ih]

theorem mem_insertSet (cs : List NodeSet) (s s' : NodeSet) : s' ∈ insertSet cs s ↔ s' ∈ cs ∨ s' = s := by
  unfold insertSet
  split
  · rename_i h
    have : s ∈ cs := by simpa using h
    constructor
    · exact Or.inl
    · rintro (h | rfl)
      · exact h
      · exact this
  · simp

theorem mem_intersect_imp {cs : List NodeSet} {t : Int} (h : t ∈ intersect cs) : ∀ s ∈ cs, t ∈ s := by
  cases cs with
  | nil => simp
  | cons s rest =>
    simp only [intersect, List.mem_filter, List.all_eq_true, List.contains_iff_mem] at h
    intro s' hs'
    rcases List.mem_cons.1 hs' with rfl | h'
    · exact h.1
    · exact h.2 s' h'

theorem mem_intersect_iff {cs : List NodeSet} (hne : cs ≠ []) (t : Int) :
    t ∈ intersect cs ↔ ∀ s ∈ cs, t ∈ s := by
  refine ⟨mem_intersect_imp, ?_⟩
  cases cs with
  | nil => exact absurd rfl hne
  | cons s rest =>
    intro h
    simp only [intersect, List.mem_filter, List.all_eq_true, List.contains_iff_mem]
    exact ⟨h s (by simp), fun r hr => h r (by simp [hr])⟩

theorem intersect_nodup {cs : List NodeSet} (h : ∀ s ∈ cs, s.Nodup) : (intersect cs).Nodup := by
  cases cs with
  | nil => simp [intersect]
  | cons s rest => exact (h s (by simp)).filter _

theorem intersect_singleton (s : NodeSet) : intersect [s] = s := by
  simp [intersect]

theorem insertBy_perm {α} (le : α → α → Bool) (a : α) (l : List α) : (insertBy le a l).Perm (a :: l) := by
  induction l with
  | nil => exact List.Perm.refl _
  | cons b l ih =>
    unfold insertBy
    split
    · exact List.Perm.refl _
    · exact ((List.Perm.cons b ih).trans (List.Perm.swap a b l))

theorem sortBy_perm {α} (le : α → α → Bool) (l : List α) : (sortBy le l).Perm l := by
  induction l with
  | nil => exact List.Perm.refl _
  | cons a l ih =>
    show (insertBy le a (sortBy le l)).Perm (a :: l)
    exact (insertBy_perm le a _).trans (List.Perm.cons a ih)

theorem mem_sortInts (l : List Int) (t : Int) : t ∈ sortInts l ↔ t ∈ l :=
  (sortBy_perm _ l).mem_iff

theorem sortInts_nodup {l : List Int} (h : l.Nodup) : (sortInts l).Nodup :=
  (sortBy_perm _ l).nodup_iff.2 h

theorem lookup_map_mk {β} (l : List Int) (f : Int → β) {u : Int} (h : u ∈ l) :
    (l.map fun u => (u, f u)).lookup u = some (f u) := by
  induction l with
  | nil => simp at h
  | cons a l ih =>
    by_cases e : u = a
    · subst e; simp [List.lookup]
    · have : (u == a) = false := by simpa using e
      rcases List.mem_cons.1 h with h' | h'
      · exact absurd h' e
      · simp only [List.map_cons, List.lookup, this]; exact ih h'

/-! ### the sets added while a node is mapped -/

/-- what a constraint between `a` (mapped first, on `ga`) and `b` (mapped later, on `gb`) demands:
the `if (sgn, sgn2) in constraints .. elif (sgn2, sgn) in constraints ..` of `_map_nodes` -/
def cOK (C : Constraints) (a ga b gb : Int) : Bool :=
  if C.contains (a, b) then decide (ga < gb) else if C.contains (b, a) then decide (gb < ga) else true

theorem mem_edgeOptions_sound {g sg : Graph} {sgn gn u t : Int} (h : t ∈ edgeOptions g sg sgn gn u)
    (hne : t ≠ gn) : g.ecol gn t = sg.ecol sgn u := by
  unfold edgeOptions at h
  split at h
  · rename_i hc
    simp only [List.mem_filter, Option.isNone_iff_eq_none] at h
    rw [hc]; exact h.2
  · rename_i c hc
    split at h
    · simp at h
    · simp only [List.mem_filter, Bool.or_eq_true, beq_iff_eq] at h
      rcases h.2 with h' | h'
      · exact absurd h' hne
      · rw [hc]; exact h'

theorem mem_edgeOptions_complete {g sg : Graph} {sgn gn u t : Int} (ht : t ∈ g.keys)
    (h : g.ecol gn t = sg.ecol sgn u) : t ∈ edgeOptions g sg sgn gn u := by
  unfold edgeOptions
  split
  · rename_i hc
    simp only [List.mem_filter, Option.isNone_iff_eq_none]
    exact ⟨ht, by rw [h, hc]⟩
  · rename_i c hc
    have hm : t ∈ g.keys.filter fun t => g.ecol gn t == some c := by
      simp only [List.mem_filter, beq_iff_eq]; exact ⟨ht, by rw [h, hc]⟩
    split
    · rename_i he
      have := List.isEmpty_iff.1 he
      rw [this] at hm; simp at hm
    · simp only [List.mem_filter, Bool.or_eq_true, beq_iff_eq]
      exact ⟨ht, Or.inr (by rw [h, hc])⟩

theorem edgeOptions_nodup {g sg : Graph} (hg : g.keys.Nodup) (sgn gn u : Int) :
    (edgeOptions g sg sgn gn u).Nodup := by
  unfold edgeOptions
  split
  · exact hg.filter _
  · split
    · simp
    · exact hg.filter _

theorem consOptions_sound {g : Graph} {C : Constraints} {a ga b t : Int}
    (h : ∀ s, consOptions g C a ga b = some s → t ∈ s) : cOK C a ga b t = true := by
  unfold consOptions at h
  unfold cOK
  split
  · rename_i h1
    simp only [h1, if_true] at h
    have := h _ rfl
    simp only [List.mem_filter, decide_eq_true_eq] at this
    simpa using this.2
  · rename_i h1
    simp only [h1, Bool.false_eq_true, if_false] at h
    split
    · rename_i h2
      simp only [h2, if_true] at h
      have := h _ rfl
      simp only [List.mem_filter, decide_eq_true_eq] at this
      simpa using this.2
    · rfl

theorem consOptions_complete {g : Graph} {C : Constraints} {a ga b t : Int} (ht : t ∈ g.keys)
    (hc : cOK C a ga b t = true) : ∀ s, consOptions g C a ga b = some s → t ∈ s := by
  intro s hs
  unfold consOptions at hs
  unfold cOK at hc
  split at hs
  · rename_i h1
    simp only [h1, if_true, decide_eq_true_eq] at hc
    cases hs
    simp only [List.mem_filter, decide_eq_true_eq]; exact ⟨ht, hc⟩
  · rename_i h1
    simp only [h1, Bool.false_eq_true, if_false] at hc
    split at hs
    · rename_i h2
      simp only [h2, if_true, decide_eq_true_eq] at hc
      cases hs
      simp only [List.mem_filter, decide_eq_true_eq]; exact ⟨ht, hc⟩
    · cases hs

theorem consOptions_nodup {g : Graph} (hg : g.keys.Nodup) {C : Constraints} {a ga b : Int} {s : NodeSet}
    (h : consOptions g C a ga b = some s) : s.Nodup := by
  unfold consOptions at h
  split at h
  · cases h; exact hg.filter _
  · split at h
    · cases h; exact hg.filter _
    · cases h

theorem mem_get_addOptions (g sg : Graph) (C : Constraints) (sgn gn : Int) (c : Cands) (x w : Int) (s : NodeSet) :
    s ∈ (addOptions g sg C sgn gn c x).get w ↔
      s ∈ c.get w ∨ (w = x ∧ (s = edgeOptions g sg sgn gn x ∨ consOptions g C sgn gn x = some s)) := by
  unfold addOptions
  by_cases hw : w = x
  · subst hw
    cases hco : consOptions g C sgn gn w with
    | none =>
      simp only [Cands.get_set, BEq.rfl, if_true, mem_insertSet]
      constructor
      · rintro (h | h)
        · exact Or.inl h
        · exact Or.inr ⟨trivial, Or.inl h⟩
      · rintro (h | ⟨_, h | h⟩)
        · exact Or.inl h
        · exact Or.inr h
        · cases h
    | some s0 =>
      simp only [Cands.get_set, BEq.rfl, if_true, mem_insertSet]
      constructor
      · rintro ((h | h) | h)
        · exact Or.inl h
        · exact Or.inr ⟨trivial, Or.inl h⟩
        · exact Or.inr ⟨trivial, Or.inr (by rw [h])⟩
      · rintro (h | ⟨_, h | h⟩)
        · exact Or.inl (Or.inl h)
        · exact Or.inl (Or.inr h)
        · exact Or.inr (Option.some.inj h).symm
  · have hw' : (w == x) = false := by simpa using hw
    cases hco : consOptions g C sgn gn x with
    | none =>
      simp only [Cands.get_set, hw', Bool.false_eq_true, if_false]
      constructor
      · exact Or.inl
      · rintro (h | ⟨e, _⟩)
        · exact h
        · exact absurd e hw
    | some s0 =>
      simp only [Cands.get_set, hw', Bool.false_eq_true, if_false]
      constructor
      · exact Or.inl
      · rintro (h | ⟨e, _⟩)
        · exact h
        · exact absurd e hw

theorem mem_get_foldl_addOptions (g sg : Graph) (C : Constraints) (sgn gn : Int) (left : List Int) (c : Cands)
    (w : Int) (s : NodeSet) :
    s ∈ (left.foldl (addOptions g sg C sgn gn) c).get w ↔
      s ∈ c.get w ∨ (w ∈ left ∧ (s = edgeOptions g sg sgn gn w ∨ consOptions g C sgn gn w = some s)) := by
  induction left generalizing c with
  | nil => simp
  | cons x rest ih =>
    rw [List.foldl_cons, ih, mem_get_addOptions]
    constructor
    · rintro ((h | ⟨rfl, h⟩) | ⟨h1, h2⟩)
      · exact Or.inl h
      · exact Or.inr ⟨by simp, h⟩
      · exact Or.inr ⟨by simp [h1], h2⟩
    · rintro (h | ⟨h1, h2⟩)
      · exact Or.inl (Or.inl h)
      · rcases List.mem_cons.1 h1 with rfl | h1
        · exact Or.inl (Or.inr ⟨rfl, h2⟩)
        · exact Or.inr ⟨h1, h2⟩

/-! ### the choice of the next node -/

theorem foldl_pick_mem {α} (f : α → α → Bool) (rest : List α) (u : α) :
    rest.foldl (fun best x => if f x best then x else best) u ∈ u :: rest := by
  induction rest generalizing u with
  | nil => simp
  | cons a rest ih =>
    rw [List.foldl_cons]
    split
    · have := ih a
      rcases List.mem_cons.1 this with h | h
      · rw [h]; simp
      · exact List.mem_cons_of_mem _ (List.mem_cons_of_mem _ h)
    · have := ih u
      rcases List.mem_cons.1 this with h | h
      · rw [h]; simp
      · exact List.mem_cons_of_mem _ (List.mem_cons_of_mem _ h)

/-- `min(nodes, key=..)` returns one of the nodes -/
theorem pickMin_mem (c : Cands) (l : List Int) (h : l ≠ []) : pickMin c l ∈ l := by
  cases l with
  | nil => exact absurd rfl h
  | cons u rest =>
    exact foldl_pick_mem (fun x best => properSubset (smallest (c.get x)) (smallest (c.get best))) rest u

/-- what the theorems need of the rule choosing the next node -/
def PickOK (pick : Map → Cands → List Int → Int) : Prop := ∀ m c l, l ≠ [] → pick m c l ∈ l

theorem pickMin_ok : PickOK (fun _ => pickMin) := fun _ => pickMin_mem

/-! ### soundness of `_map_nodes` -/

/-- relation between an EARLIER pair `x` and a LATER pair `y` of a mapping -/
def StepRel (g sg : Graph) (C : Constraints) (x y : Int × Int) : Prop :=
  x.2 ≠ y.2 ∧ g.ecol x.2 y.2 = sg.ecol x.1 y.1 ∧ cOK C x.1 x.2 y.1 y.2 = true

def NodeOK (g sg : Graph) (x : Int × Int) : Prop := x.2 ∈ g.keys ∧ colourPred g sg x.1 x.2 = true

/-- a (partial) mapping, newest pair first, every pair acceptable against the earlier ones -/
def MapOK (g sg : Graph) (C : Constraints) (m : Map) : Prop :=
  m.Pairwise (fun y x => StepRel g sg C x y) ∧ ∀ x ∈ m, NodeOK g sg x

/-- `t` is acceptable for `u` against everything mapped so far -/
def Good (g sg : Graph) (C : Constraints) (mapping : Map) (u t : Int) : Prop :=
  NodeOK g sg (u, t) ∧ ∀ x ∈ mapping, t ≠ x.2 → g.ecol x.2 t = sg.ecol x.1 u ∧ cOK C x.1 x.2 u t = true

/-- soundness invariant of the candidate table: a node lying in ALL candidate sets of an unmapped
pattern node is acceptable against the current mapping -/
def SInv (g sg : Graph) (C : Constraints) (cands : Cands) (mapping : Map) (tbm : List Int) : Prop :=
  ∀ u ∈ tbm, u ∉ mapping.map Prod.fst → ∀ t, (∀ s ∈ cands.get u, t ∈ s) → Good g sg C mapping u t

theorem sInv_set_intersect {g sg : Graph} {C : Constraints} {cands : Cands} {mapping : Map} {tbm : List Int}
    (h : SInv g sg C cands mapping tbm) (v : Int) :
    SInv g sg C (cands.set v [intersect (cands.get v)]) mapping tbm := by
  intro u hu hun t ht
  apply h u hu hun t
  intro s hs
  rw [Cands.get_set] at ht
  split at ht
  · rename_i e
    have e' : u = v := by simpa using e
    subst e'
    exact mem_intersect_imp (ht _ (by simp)) s hs
  · exact ht s hs

theorem mem_keys_of_mem {m : Map} {x : Int × Int} (h : x ∈ m) : x.1 ∈ m.map Prod.fst :=
  List.mem_map.2 ⟨x, h, rfl⟩

theorem not_mem_of_mem_filter_not_contains {tbm keys : List Int} {x : Int}
    (h : x ∈ tbm.filter (fun u => !keys.contains u)) : x ∉ keys := by
  simpa using (List.mem_filter.1 h).2

theorem sameSet_iff (a b : List Int) : sameSet a b = true ↔ ∀ x, x ∈ a ↔ x ∈ b := by
  simp only [sameSet, Bool.and_eq_true, List.all_eq_true, List.contains_iff_mem]
  constructor
  · rintro ⟨h1, h2⟩ x; exact ⟨h1 x, h2 x⟩
  · intro h; exact ⟨fun x hx => (h x).1 hx, fun x hx => (h x).2 hx⟩

/-- the step of the invariant: after mapping `sgn` on `gn` and adding the option sets -/
theorem sInv_step {g sg : Graph} {C : Constraints} {cands : Cands} {mapping : Map} {tbm : List Int}
    {sgn gn : Int} (h : SInv g sg C cands mapping tbm) :
    let keys := ((sgn, gn) :: mapping).map Prod.fst
    let left := tbm.filter fun u => !keys.contains u
    SInv g sg C (left.foldl (addOptions g sg C sgn gn) (cands.set sgn [intersect (cands.get sgn)]))
      ((sgn, gn) :: mapping) tbm := by
  intro keys left u hu hun t ht
  have hun' : u ≠ sgn ∧ u ∉ mapping.map Prod.fst := by
    simp only [List.map_cons, List.mem_cons, not_or] at hun; exact hun
  have hleft : u ∈ left := by
    simp only [left, List.mem_filter, Bool.not_eq_true', List.contains_eq_mem, decide_eq_false_iff_not]
    exact ⟨hu, hun⟩
  have hne : (u == sgn) = false := by simpa using hun'.1
  have hold : ∀ s ∈ cands.get u, t ∈ s := by
    intro s hs
    apply ht
    rw [mem_get_foldl_addOptions, Cands.get_set, hne]
    exact Or.inl hs
  have hgood := h u hu hun'.2 t hold
  have hedge : t ∈ edgeOptions g sg sgn gn u := by
    apply ht
    rw [mem_get_foldl_addOptions]
    exact Or.inr ⟨hleft, Or.inl rfl⟩
  have hcons : cOK C sgn gn u t = true := by
    apply consOptions_sound
    intro s hs
    apply ht
    rw [mem_get_foldl_addOptions]
    exact Or.inr ⟨hleft, Or.inr hs⟩
  refine ⟨hgood.1, ?_⟩
  intro x hx hne
  rcases List.mem_cons.1 hx with rfl | hx
  · exact ⟨mem_edgeOptions_sound hedge hne, hcons⟩
  · exact hgood.2 x hx hne

/-- **Soundness of `_map_nodes`**: whatever the candidate sets that satisfy the invariant, the
constraints and the rule for the next node, every yielded mapping extends the given one, maps
exactly `to_be_mapped`, each node once, and every pair of it is acceptable against the earlier pairs. -/
theorem mapNodes_sound {pick : Map → Cands → List Int → Int} (hpick : PickOK pick) (g sg : Graph) (C : Constraints)
    (tbm : List Int) (fuel : Nat) (sgn : Int) (cands : Cands) (mapping : Map)
    (hinv : SInv g sg C cands mapping tbm) (hok : MapOK g sg C mapping)
    (hsgn : sgn ∉ mapping.map Prod.fst) (hnd : (mapping.map Prod.fst).Nodup) :
    ∀ m ∈ mapNodes pick g sg C fuel sgn cands mapping tbm,
      MapOK g sg C m ∧ (m.map Prod.fst).Nodup ∧ (∃ rest, m = rest ++ mapping)
        ∧ ∀ u, u ∈ tbm ↔ u ∈ m.map Prod.fst := by
  induction fuel generalizing sgn cands mapping with
  | zero => intro m hm; simp [mapNodes] at hm
  | succ fuel ih =>
    intro m hm
    simp only [mapNodes, List.mem_flatMap] at hm
    obtain ⟨gn, hgn, hm⟩ := hm
    rw [mem_sortInts] at hgn
    split at hm
    · simp at hm
    · rename_i hcond
      simp only [Bool.or_eq_true, List.any_eq_true, beq_iff_eq, Bool.not_eq_true', not_or,
        not_exists, not_and, Bool.not_eq_false] at hcond
      obtain ⟨hval, htbm⟩ := hcond
      have hgood := hinv sgn (by simpa using htbm) hsgn gn (fun s hs => mem_intersect_imp hgn s hs)
      have hok' : MapOK g sg C ((sgn, gn) :: mapping) := by
        refine ⟨List.pairwise_cons.2 ⟨?_, hok.1⟩, ?_⟩
        · intro x hx
          have hne : gn ≠ x.2 := fun e => hval x hx e.symm
          exact ⟨fun e => hne e.symm, (hgood.2 x hx hne).1, (hgood.2 x hx hne).2⟩
        · intro x hx
          rcases List.mem_cons.1 hx with rfl | hx
          · exact hgood.1
          · exact hok.2 x hx
      have hnd' : (((sgn, gn) :: mapping).map Prod.fst).Nodup := by
        simp only [List.map_cons, List.nodup_cons]; exact ⟨hsgn, hnd⟩
      split at hm
      · rename_i hsame
        have : m = (sgn, gn) :: mapping := by simpa using hm
        subst this
        exact ⟨hok', hnd', ⟨[(sgn, gn)], rfl⟩, (sameSet_iff _ _).1 hsame⟩
      · split at hm
        · simp at hm
        · rename_i hleft
          have hne : (tbm.filter fun u => !(((sgn, gn) :: mapping).map Prod.fst).contains u) ≠ [] := by
            intro e; apply hleft; rw [e]; rfl
          have hp := hpick ((sgn, gn) :: mapping) (List.foldl (addOptions g sg C sgn gn) (cands.set sgn [intersect (cands.get sgn)])
            (tbm.filter fun u => !(((sgn, gn) :: mapping).map Prod.fst).contains u)) _ hne
          have hp2 := not_mem_of_mem_filter_not_contains hp
          obtain ⟨h1, h2, ⟨rest, h3⟩, h4⟩ := ih _ _ _ (sInv_step hinv) hok' hp2 hnd' m hm
          exact ⟨h1, h2, ⟨rest ++ [(sgn, gn)], by rw [h3]; simp⟩, h4⟩

/-! ### from `MapOK` to the declarative notions -/

theorem stepRel_pair {g sg : Graph} {C : Constraints} {m : Map} (h : MapOK g sg C m) {x y : Int × Int}
    (hx : x ∈ m) (hy : y ∈ m) (hne : x ≠ y) :
    x.2 ≠ y.2 ∧ g.ecol x.2 y.2 = sg.ecol x.1 y.1 ∧ (cOK C x.1 x.2 y.1 y.2 = true ∨ cOK C y.1 y.2 x.1 x.2 = true) := by
  rcases pairwise_or h.1 hx hy hne with h' | h'
  · -- y earlier than x
    exact ⟨fun e => h'.1 e.symm, by rw [ecol_comm g, ecol_comm sg]; exact h'.2.1, Or.inr h'.2.2⟩
  · exact ⟨h'.1, h'.2.1, Or.inl h'.2.2⟩

theorem mem_toFun {m : Map} (hn : (m.map Prod.fst).Nodup) {u : Int} (hu : u ∈ m.map Prod.fst) :
    (u, Map.toFun m u) ∈ m := by
  obtain ⟨⟨u', t⟩, hx, rfl⟩ := List.mem_map.1 hu
  simpa [toFun_of_mem hn hx] using hx

/-- a mapping all of whose pairs are acceptable is an induced, colour-respecting subgraph
isomorphism on its domain -/
theorem mapOK_indIso {g sg : Graph} {C : Constraints} {m : Map} (hn : (m.map Prod.fst).Nodup)
    (h : MapOK g sg C m) : IsIndIsoOn g sg (colourPred g sg) (m.map Prod.fst) (Map.toFun m) := by
  refine ⟨?_, ?_, ?_⟩
  · intro u hu; exact h.2 _ (mem_toFun hn hu)
  · intro u hu v hv hne
    exact (stepRel_pair h (mem_toFun hn hu) (mem_toFun hn hv) (fun e => hne (Prod.mk.inj e).1)).1
  · intro u hu v hv hne
    exact (stepRel_pair h (mem_toFun hn hu) (mem_toFun hn hv) (fun e => hne (Prod.mk.inj e).1)).2.1

/-- what the search enforces of a constraints list on the nodes `S`: for every listed pair
`(lo, hi)` of distinct nodes, `f lo < f hi` - unless the reversed pair is listed too (then one of
the two, whichever node was mapped first) -/
def Enforced (C : Constraints) (S : List Int) (f : Int → Int) : Prop :=
  ∀ lo hi, (lo, hi) ∈ C → lo ∈ S → hi ∈ S → lo ≠ hi → f lo < f hi ∨ ((hi, lo) ∈ C ∧ f hi < f lo)

/-- no pair is listed in both directions (in particular no `(a, a)`) -/
def antisymB (C : Constraints) : Bool := C.all fun p => !C.contains (p.2, p.1)

/-- every listed constraint holds -/
def Satisfies (C : Constraints) (S : List Int) (f : Int → Int) : Prop :=
  ∀ lo hi, (lo, hi) ∈ C → lo ∈ S → hi ∈ S → f lo < f hi

theorem antisymB_iff (C : Constraints) : antisymB C = true ↔ ∀ a b, (a, b) ∈ C → (b, a) ∉ C := by
  simp only [antisymB, List.all_eq_true, Bool.not_eq_true', List.contains_eq_mem, decide_eq_false_iff_not]
  constructor
  · intro h a b hab; exact h (a, b) hab
  · intro h p hp; exact h p.1 p.2 hp

theorem enforced_satisfies {C : Constraints} (ha : antisymB C = true) {S : List Int} {f : Int → Int}
    (h : Enforced C S f) : Satisfies C S f := by
  rw [antisymB_iff] at ha
  intro lo hi hc hlo hhi
  have hne : lo ≠ hi := by
    intro e; subst e; exact ha _ _ hc hc
  rcases h lo hi hc hlo hhi hne with h' | ⟨h', _⟩
  · exact h'
  · exact absurd h' (ha _ _ hc)

theorem mapOK_enforced {g sg : Graph} {C : Constraints} {m : Map} (hn : (m.map Prod.fst).Nodup)
    (h : MapOK g sg C m) : Enforced C (m.map Prod.fst) (Map.toFun m) := by
  intro lo hi hc hlo hhi hne
  have hp := stepRel_pair h (mem_toFun hn hlo) (mem_toFun hn hhi) (fun e => hne (Prod.mk.inj e).1)
  have hc' : C.contains (lo, hi) = true := by simpa using hc
  rcases hp.2.2 with h' | h'
  · simp only [cOK, hc', if_true, decide_eq_true_eq] at h'
    exact Or.inl h'
  · simp only [cOK] at h'
    split at h'
    · rename_i h2
      exact Or.inr ⟨by simpa using h2, by simpa using h'⟩
    · simp only [hc', if_true, decide_eq_true_eq] at h'
      exact Or.inl h'

theorem indIsoOn_congr_mem {g sg : Graph} {pred : NodePred} {S S' : List Int} {f : Int → Int}
    (h : ∀ u, u ∈ S' ↔ u ∈ S) (hi : IsIndIsoOn g sg pred S f) : IsIndIsoOn g sg pred S' f :=
  ⟨fun u hu => hi.node u ((h u).1 hu), fun u hu v hv => hi.inj u ((h u).1 hu) v ((h v).1 hv),
    fun u hu v hv => hi.edge u ((h u).1 hu) v ((h v).1 hv)⟩

theorem indIsoOn_congr_fun {g sg : Graph} {pred : NodePred} {S : List Int} {f f' : Int → Int}
    (h : ∀ u ∈ S, f' u = f u) (hi : IsIndIsoOn g sg pred S f) : IsIndIsoOn g sg pred S f' := by
  refine ⟨?_, ?_, ?_⟩
  · intro u hu; rw [h u hu]; exact hi.node u hu
  · intro u hu v hv hne; rw [h u hu, h v hv]; exact hi.inj u hu v hv hne
  · intro u hu v hv hne; rw [h u hu, h v hv]; exact hi.edge u hu v hv hne

/-! ### the candidate tables of `find_isomorphisms` / `largest_common_subgraph` satisfy the invariant -/

theorem get_initialCands (edgeNone : Bool) (g sg : Graph) {u : Int} (hu : u ∈ sg.keys) :
    nodeColourSet g sg u ∈ (initialCands edgeNone g sg).get u
    ∧ ∀ s ∈ (initialCands edgeNone g sg).get u, s = nodeColourSet g sg u ∨ s = lookaheadSet edgeNone g sg u := by
  unfold initialCands Cands.get
  rw [lookup_map_mk sg.keys _ hu]
  simp only [Option.getD_some]
  split
  · simp
  · constructor
    · rw [mem_insertSet]; simp
    · intro s hs
      rw [mem_insertSet] at hs
      simpa using hs

theorem get_findNodecolorCandidates (g sg : Graph) {u : Int} (hu : u ∈ sg.keys) :
    (findNodecolorCandidates g sg).get u = [nodeColourSet g sg u] := by
  unfold findNodecolorCandidates Cands.get
  rw [lookup_map_mk sg.keys _ hu]; rfl

theorem mem_nodeColourSet (g sg : Graph) (u t : Int) :
    t ∈ nodeColourSet g sg u ↔ t ∈ g.keys ∧ colourPred g sg u t = true := by
  simp [nodeColourSet, colourPred]

theorem sInv_initial (edgeNone : Bool) (g sg : Graph) (C : Constraints) (tbm : List Int)
    (htbm : ∀ u ∈ tbm, u ∈ sg.keys) : SInv g sg C (initialCands edgeNone g sg) [] tbm := by
  intro u hu _ t ht
  have := ht _ (get_initialCands edgeNone g sg (htbm u hu)).1
  exact ⟨(mem_nodeColourSet g sg u t).1 this, by simp⟩

theorem sInv_nodecolor (g sg : Graph) (C : Constraints) (tbm : List Int)
    (htbm : ∀ u ∈ tbm, u ∈ sg.keys) : SInv g sg C (findNodecolorCandidates g sg) [] tbm := by
  intro u hu _ t ht
  have := ht (nodeColourSet g sg u) (by rw [get_findNodecolorCandidates g sg (htbm u hu)]; simp)
  exact ⟨(mem_nodeColourSet g sg u t).1 this, by simp⟩

theorem mapOK_nil (g sg : Graph) (C : Constraints) : MapOK g sg C [] := ⟨List.Pairwise.nil, by simp⟩

/-! ### completeness of `_map_nodes` -/

/-- `F` is a solution on the nodes `tbm`: an induced colour-respecting isomorphism that meets,
for every ordered pair of distinct nodes, what the search demands of the constraints -/
def Sol (g sg : Graph) (C : Constraints) (tbm : List Int) (F : Int → Int) : Prop :=
  IsIndIsoOn g sg (colourPred g sg) tbm F ∧ ∀ a ∈ tbm, ∀ b ∈ tbm, a ≠ b → cOK C a (F a) b (F b) = true

/-- completeness invariant of the candidate table with respect to a solution `F` -/
def CInv (cands : Cands) (mapping : Map) (tbm : List Int) (F : Int → Int) : Prop :=
  ∀ u ∈ tbm, u ∉ mapping.map Prod.fst → cands.get u ≠ [] ∧ ∀ s ∈ cands.get u, F u ∈ s

theorem cInv_set_intersect {cands : Cands} {mapping : Map} {tbm : List Int} {F : Int → Int}
    (h : CInv cands mapping tbm F) (v : Int) : CInv (cands.set v [intersect (cands.get v)]) mapping tbm F := by
  intro u hu hun
  rw [Cands.get_set]
  split
  · rename_i e
    have e' : u = v := by simpa using e
    subst e'
    refine ⟨by simp, ?_⟩
    intro s hs
    have : s = intersect (cands.get u) := by simpa using hs
    subst this
    exact (mem_intersect_iff (h u hu hun).1 _).2 (h u hu hun).2
  · exact h u hu hun

theorem cInv_step {g sg : Graph} {C : Constraints} {cands : Cands} {mapping : Map} {tbm : List Int}
    {F : Int → Int} {sgn : Int} (hsol : Sol g sg C tbm F) (hsgn : sgn ∈ tbm) (h : CInv cands mapping tbm F) :
    let keys := ((sgn, F sgn) :: mapping).map Prod.fst
    let left := tbm.filter fun u => !keys.contains u
    CInv (left.foldl (addOptions g sg C sgn (F sgn)) (cands.set sgn [intersect (cands.get sgn)]))
      ((sgn, F sgn) :: mapping) tbm F := by
  intro keys left u hu hun
  have hun' : u ≠ sgn ∧ u ∉ mapping.map Prod.fst := by
    simp only [List.map_cons, List.mem_cons, not_or] at hun; exact hun
  have hne : (u == sgn) = false := by simpa using hun'.1
  obtain ⟨h1, h2⟩ := h u hu hun'.2
  constructor
  · obtain ⟨s0, hs0⟩ := List.exists_mem_of_ne_nil _ h1
    intro e
    have : s0 ∈ (left.foldl (addOptions g sg C sgn (F sgn)) (cands.set sgn [intersect (cands.get sgn)])).get u := by
      rw [mem_get_foldl_addOptions, Cands.get_set, hne]; exact Or.inl hs0
    rw [e] at this; simp at this
  · intro s hs
    rw [mem_get_foldl_addOptions, Cands.get_set, hne] at hs
    rcases hs with hs | ⟨_, hs | hs⟩
    · exact h2 s hs
    · subst hs
      exact mem_edgeOptions_complete (hsol.1.node u hu).1 (hsol.1.edge sgn hsgn u hu (fun e => hun'.1 e.symm))
    · exact consOptions_complete (hsol.1.node u hu).1 (hsol.2 sgn hsgn u hu (fun e => hun'.1 e.symm)) s hs

/-- **Completeness of `_map_nodes`**: every solution that extends the current mapping and whose
values lie in all candidate sets is yielded. -/
theorem mapNodes_complete {pick : Map → Cands → List Int → Int} (hpick : PickOK pick) (g sg : Graph) (C : Constraints)
    (tbm : List Int) (F : Int → Int) (hsol : Sol g sg C tbm F)
    (fuel : Nat) (sgn : Int) (cands : Cands) (mapping : Map)
    (hext : ∀ x ∈ mapping, F x.1 = x.2) (hdom : ∀ x ∈ mapping, x.1 ∈ tbm)
    (hinv : CInv cands mapping tbm F) (hsgn : sgn ∈ tbm) (hnew : sgn ∉ mapping.map Prod.fst)
    (hnd : (mapping.map Prod.fst).Nodup) (hfuel : tbm.length ≤ fuel + mapping.length) :
    ∃ m ∈ mapNodes pick g sg C fuel sgn cands mapping tbm, ∀ u ∈ tbm, Map.toFun m u = F u := by
  induction fuel generalizing sgn cands mapping with
  | zero =>
    exfalso
    have hn : (sgn :: mapping.map Prod.fst).Nodup := List.nodup_cons.2 ⟨hnew, hnd⟩
    have hsub : (sgn :: mapping.map Prod.fst) ⊆ tbm := by
      intro x hx
      rcases List.mem_cons.1 hx with rfl | hx
      · exact hsgn
      · obtain ⟨y, hy, rfl⟩ := List.mem_map.1 hx
        exact hdom y hy
    have := hn.length_le_of_subset hsub
    simp at this hfuel
    omega
  | succ fuel ih =>
    have hgn : F sgn ∈ sortInts (intersect (cands.get sgn)) := by
      rw [mem_sortInts, mem_intersect_iff (hinv sgn hsgn hnew).1]
      exact (hinv sgn hsgn hnew).2
    have hval : (mapping.any fun p => p.2 == F sgn) = false := by
      rw [List.any_eq_false]
      intro x hx hx2
      have hx2' : x.2 = F sgn := by simpa using hx2
      have hne : x.1 ≠ sgn := fun e => hnew (e ▸ mem_keys_of_mem hx)
      exact hsol.1.inj _ (hdom x hx) _ hsgn hne (by rw [hext x hx, hx2'])
    have htbm : tbm.contains sgn = true := by simpa using hsgn
    have hext' : ∀ x ∈ (sgn, F sgn) :: mapping, F x.1 = x.2 := by
      intro x hx
      rcases List.mem_cons.1 hx with rfl | hx
      · rfl
      · exact hext x hx
    have hdom' : ∀ x ∈ (sgn, F sgn) :: mapping, x.1 ∈ tbm := by
      intro x hx
      rcases List.mem_cons.1 hx with rfl | hx
      · exact hsgn
      · exact hdom x hx
    have hnd' : (((sgn, F sgn) :: mapping).map Prod.fst).Nodup := by
      simp only [List.map_cons, List.nodup_cons]; exact ⟨hnew, hnd⟩
    have key : ∀ (f : Int → List Map), (∃ m ∈ f (F sgn), ∀ u ∈ tbm, Map.toFun m u = F u) →
        ∃ m ∈ (sortInts (intersect (cands.get sgn))).flatMap f, ∀ u ∈ tbm, Map.toFun m u = F u :=
      fun f ⟨m, hm, hp⟩ => ⟨m, List.mem_flatMap.2 ⟨F sgn, hgn, hm⟩, hp⟩
    simp only [mapNodes]
    apply key
    simp only [hval, htbm, Bool.not_true, Bool.or_self, Bool.false_eq_true, if_false]
    split
    · refine ⟨_, List.mem_singleton.2 rfl, ?_⟩
      rename_i hsame
      intro u hu
      have hu' := ((sameSet_iff _ _).1 hsame u).1 hu
      have hm := mem_toFun hnd' hu'
      exact (hext' _ hm).symm
    · rename_i hsame
      split
      · rename_i hleft
        exfalso
        apply hsame
        rw [sameSet_iff]
        intro x
        constructor
        · intro hx
          apply Classical.byContradiction
          intro hnx
          have : x ∈ tbm.filter fun u => !(((sgn, F sgn) :: mapping).map Prod.fst).contains u := by
            simp only [List.mem_filter, Bool.not_eq_true', List.contains_eq_mem, decide_eq_false_iff_not]
            exact ⟨hx, hnx⟩
          rw [List.isEmpty_iff.1 hleft] at this
          simp at this
        · intro hx
          obtain ⟨y, hy, rfl⟩ := List.mem_map.1 hx
          exact hdom' y hy
      · rename_i hleft
        have hne : (tbm.filter fun u => !(((sgn, F sgn) :: mapping).map Prod.fst).contains u) ≠ [] := by
          intro e; apply hleft; rw [e]; rfl
        have hp := hpick ((sgn, F sgn) :: mapping) (List.foldl (addOptions g sg C sgn (F sgn)) (cands.set sgn [intersect (cands.get sgn)])
          (tbm.filter fun u => !(((sgn, F sgn) :: mapping).map Prod.fst).contains u)) _ hne
        exact ih _ _ _ hext' hdom' (cInv_step hsol hsgn hinv) (List.mem_filter.1 hp).1
          (not_mem_of_mem_filter_not_contains hp) hnd' (by simp only [List.length_cons]; omega)

/-! ### every solution once: the yielded mappings differ pairwise as functions -/

/-- all candidate sets are duplicate-free (they are filters of the graph's node list) -/
def NInv (cands : Cands) : Prop := ∀ u, ∀ s ∈ cands.get u, s.Nodup

theorem nInv_set_intersect {cands : Cands} (h : NInv cands) (v : Int) :
    NInv (cands.set v [intersect (cands.get v)]) := by
  intro u s hs
  rw [Cands.get_set] at hs
  split at hs
  · have : s = intersect (cands.get v) := by simpa using hs
    subst this
    exact intersect_nodup (h v)
  · exact h u s hs

theorem nInv_step {g sg : Graph} (hg : g.keys.Nodup) {C : Constraints} {cands : Cands} (h : NInv cands)
    (sgn gn : Int) (left : List Int) :
    NInv (left.foldl (addOptions g sg C sgn gn) (cands.set sgn [intersect (cands.get sgn)])) := by
  intro u s hs
  rw [mem_get_foldl_addOptions] at hs
  rcases hs with hs | ⟨_, hs | hs⟩
  · exact nInv_set_intersect h sgn u s hs
  · subst hs; exact edgeOptions_nodup hg _ _ _
  · exact consOptions_nodup hg hs

/-- the yielded mappings extend the given one and list every node once (no invariant needed) -/
theorem mapNodes_struct {pick : Map → Cands → List Int → Int} (hpick : PickOK pick) (g sg : Graph) (C : Constraints)
    (tbm : List Int) (fuel : Nat) (sgn : Int) (cands : Cands) (mapping : Map)
    (hsgn : sgn ∉ mapping.map Prod.fst) (hnd : (mapping.map Prod.fst).Nodup) :
    ∀ m ∈ mapNodes pick g sg C fuel sgn cands mapping tbm,
      (m.map Prod.fst).Nodup ∧ ∃ rest, m = rest ++ mapping := by
  induction fuel generalizing sgn cands mapping with
  | zero => intro m hm; simp [mapNodes] at hm
  | succ fuel ih =>
    intro m hm
    simp only [mapNodes, List.mem_flatMap] at hm
    obtain ⟨gn, _, hm⟩ := hm
    split at hm
    · simp at hm
    · have hnd' : (((sgn, gn) :: mapping).map Prod.fst).Nodup := by
        simp only [List.map_cons, List.nodup_cons]; exact ⟨hsgn, hnd⟩
      split at hm
      · have : m = (sgn, gn) :: mapping := by simpa using hm
        subst this
        exact ⟨hnd', [(sgn, gn)], rfl⟩
      · split at hm
        · simp at hm
        · rename_i hleft
          have hne : (tbm.filter fun u => !(((sgn, gn) :: mapping).map Prod.fst).contains u) ≠ [] := by
            intro e; apply hleft; rw [e]; rfl
          have hp := hpick ((sgn, gn) :: mapping) (List.foldl (addOptions g sg C sgn gn) (cands.set sgn [intersect (cands.get sgn)])
            (tbm.filter fun u => !(((sgn, gn) :: mapping).map Prod.fst).contains u)) _ hne
          obtain ⟨h1, rest, h2⟩ := ih _ _ _ (not_mem_of_mem_filter_not_contains hp) hnd' m hm
          exact ⟨h1, rest ++ [(sgn, gn)], by rw [h2, List.append_assoc]; rfl⟩

/-- two yielded mappings differ at some node of `to_be_mapped` -/
def Differ (tbm : List Int) (m m' : Map) : Prop := ∃ u ∈ tbm, Map.toFun m u ≠ Map.toFun m' u

theorem mapNodes_distinct {pick : Map → Cands → List Int → Int} (hpick : PickOK pick) (g sg : Graph) (hg : g.keys.Nodup)
    (C : Constraints) (tbm : List Int) (fuel : Nat) (sgn : Int) (cands : Cands) (mapping : Map)
    (hn : NInv cands) (hsgn : sgn ∉ mapping.map Prod.fst) (hnd : (mapping.map Prod.fst).Nodup) :
    (mapNodes pick g sg C fuel sgn cands mapping tbm).Pairwise (Differ tbm) := by
  induction fuel generalizing sgn cands mapping with
  | zero => simp [mapNodes]
  | succ fuel ih =>
    simp only [mapNodes]
    rw [List.pairwise_flatMap]
    constructor
    · intro gn _
      split
      · exact List.Pairwise.nil
      · split
        · exact List.pairwise_singleton _ _
        · split
          · exact List.Pairwise.nil
          · rename_i hleft
            have hne : (tbm.filter fun u => !(((sgn, gn) :: mapping).map Prod.fst).contains u) ≠ [] := by
              intro e; apply hleft; rw [e]; rfl
            have hp := hpick ((sgn, gn) :: mapping) (List.foldl (addOptions g sg C sgn gn) (cands.set sgn [intersect (cands.get sgn)])
              (tbm.filter fun u => !(((sgn, gn) :: mapping).map Prod.fst).contains u)) _ hne
            exact ih _ _ _ (nInv_step hg hn sgn gn _) (not_mem_of_mem_filter_not_contains hp)
              (by simp only [List.map_cons, List.nodup_cons]; exact ⟨hsgn, hnd⟩)
    · have hnod : (sortInts (intersect (cands.get sgn))).Nodup := sortInts_nodup (intersect_nodup (hn sgn))
      refine hnod.imp ?_
      intro gn gn' hne x hx y hy
      -- both branches are the tail of a `mapNodes (fuel+1)` computation: use the structure lemma
      have hval : ∀ (gn : Int) (x : Map),
          x ∈ (if ((mapping.any fun p => p.2 == gn) || !tbm.contains sgn) = true then []
            else if sameSet tbm (((sgn, gn) :: mapping).map Prod.fst) = true then [(sgn, gn) :: mapping]
            else if (tbm.filter fun u => !(((sgn, gn) :: mapping).map Prod.fst).contains u).isEmpty = true then []
            else mapNodes pick g sg C fuel
              (pick ((sgn, gn) :: mapping) (List.foldl (addOptions g sg C sgn gn) (cands.set sgn [intersect (cands.get sgn)])
                (tbm.filter fun u => !(((sgn, gn) :: mapping).map Prod.fst).contains u))
                (tbm.filter fun u => !(((sgn, gn) :: mapping).map Prod.fst).contains u))
              (List.foldl (addOptions g sg C sgn gn) (cands.set sgn [intersect (cands.get sgn)])
                (tbm.filter fun u => !(((sgn, gn) :: mapping).map Prod.fst).contains u))
              ((sgn, gn) :: mapping) tbm) →
          sgn ∈ tbm ∧ Map.toFun x sgn = gn := by
        intro gn x hx
        split at hx
        · simp at hx
        · rename_i hcond
          have htbm : sgn ∈ tbm := by
            simp only [Bool.or_eq_true, Bool.not_eq_true', not_or, Bool.not_eq_false] at hcond
            simpa using hcond.2
          have hnd' : (((sgn, gn) :: mapping).map Prod.fst).Nodup := by
            simp only [List.map_cons, List.nodup_cons]; exact ⟨hsgn, hnd⟩
          refine ⟨htbm, ?_⟩
          split at hx
          · have : x = (sgn, gn) :: mapping := by simpa using hx
            subst this
            exact toFun_of_mem hnd' (by simp)
          · split at hx
            · simp at hx
            · rename_i hleft
              have hne : (tbm.filter fun u => !(((sgn, gn) :: mapping).map Prod.fst).contains u) ≠ [] := by
                intro e; apply hleft; rw [e]; rfl
              have hp := hpick ((sgn, gn) :: mapping) (List.foldl (addOptions g sg C sgn gn) (cands.set sgn [intersect (cands.get sgn)])
                (tbm.filter fun u => !(((sgn, gn) :: mapping).map Prod.fst).contains u)) _ hne
              obtain ⟨h1, rest, h2⟩ := mapNodes_struct hpick g sg C tbm fuel _ _ _
                (not_mem_of_mem_filter_not_contains hp) hnd' x hx
              exact toFun_of_mem h1 (by rw [h2]; simp)
      obtain ⟨htbm, hxv⟩ := hval gn x hx
      obtain ⟨_, hyv⟩ := hval gn' y hy
      exact ⟨sgn, htbm, by rw [hxv, hyv]; exact hne⟩

/-! ### the look-ahead candidates keep every isomorphism -/

/-- the edge list has no entry joining a node to itself (graphs are simple) -/
def noSelfLoops (g : Graph) : Bool := g.edges.all fun e => e.1 != e.2.1

theorem ecol_self_none {g : Graph} (h : noSelfLoops g = true) (u : Int) : g.ecol u u = none := by
  unfold Graph.ecol
  have : g.edges.find? (joins u u) = none := by
    rw [List.find?_eq_none]
    intro e he hj
    have hne := List.all_eq_true.1 h e he
    simp only [joins, Bool.or_self, Bool.and_eq_true, beq_iff_eq] at hj
    simp only [bne_iff_ne, ne_eq] at hne
    exact hne (hj.1.trans hj.2.symm)
  rw [this]; rfl

theorem nbCount_le {g sg : Graph} (hs : sg.keys.Nodup) (hloop : noSelfLoops sg = true) {F : Int → Int}
    (hF : IsIndIsoOn g sg (colourPred g sg) sg.keys F) {u : Int} (hu : u ∈ sg.keys) (ec nc : Int) :
    nbCount sg u ec nc ≤ nbCount g (F u) ec nc := by
  unfold nbCount
  have hN : ∀ w ∈ sg.keys.filter (fun v => sg.ecol u v == some ec && sg.ncol v == some nc),
      w ∈ sg.keys ∧ w ≠ u ∧ sg.ecol u w = some ec ∧ sg.ncol w = some nc := by
    intro w hw
    simp only [List.mem_filter, Bool.and_eq_true, beq_iff_eq] at hw
    refine ⟨hw.1, ?_, hw.2.1, hw.2.2⟩
    intro e; subst e
    rw [ecol_self_none hloop] at hw
    simp at hw
  have hnd : ((sg.keys.filter (fun v => sg.ecol u v == some ec && sg.ncol v == some nc)).map F).Nodup := by
    rw [List.nodup_iff_pairwise_ne, List.pairwise_map]
    refine List.Pairwise.imp_of_mem ?_ (hs.filter _)
    intro a b ha hb hne
    exact hF.inj a (hN a ha).1 b (hN b hb).1 hne
  have hsub : (sg.keys.filter (fun v => sg.ecol u v == some ec && sg.ncol v == some nc)).map F
      ⊆ g.keys.filter (fun v => g.ecol (F u) v == some ec && g.ncol v == some nc) := by
    intro x hx
    obtain ⟨w, hw, rfl⟩ := List.mem_map.1 hx
    obtain ⟨h1, h2, h3, h4⟩ := hN w hw
    simp only [List.mem_filter, Bool.and_eq_true, beq_iff_eq]
    refine ⟨(hF.node w h1).1, ?_, ?_⟩
    · rw [hF.edge u hu w h1 (fun e => h2 e.symm)]; exact h3
    · have := (hF.node w h1).2
      simp only [colourPred, beq_iff_eq] at this
      rw [this]; exact h4
  have := hnd.length_le_of_subset hsub
  simpa using this

theorem lookaheadOK_of_iso (edgeNone : Bool) {g sg : Graph} (hs : sg.keys.Nodup) (hloop : noSelfLoops sg = true)
    {F : Int → Int} (hF : IsIndIsoOn g sg (colourPred g sg) sg.keys F) {u : Int} (hu : u ∈ sg.keys) :
    lookaheadOK edgeNone g sg u (F u) = true := by
  unfold lookaheadOK
  rw [List.all_eq_true]
  intro v _
  split
  · rw [Bool.or_eq_true]; right
    exact decide_eq_true (nbCount_le hs hloop hF hu _ _)
  · rfl

theorem cInv_initial (edgeNone : Bool) {g sg : Graph} (hs : sg.keys.Nodup) (hloop : noSelfLoops sg = true)
    {F : Int → Int} (hF : IsIndIsoOn g sg (colourPred g sg) sg.keys F) :
    CInv (initialCands edgeNone g sg) [] sg.keys F := by
  intro u hu _
  obtain ⟨h1, h2⟩ := get_initialCands edgeNone g sg hu
  refine ⟨fun e => by rw [e] at h1; simp at h1, ?_⟩
  intro s hs'
  rcases h2 s hs' with rfl | rfl
  · exact (mem_nodeColourSet g sg u _).2 (hF.node u hu)
  · simp only [lookaheadSet, List.mem_filter]
    exact ⟨(hF.node u hu).1, lookaheadOK_of_iso edgeNone hs hloop hF hu⟩

theorem cInv_nodecolor {g sg : Graph} {tbm : List Int} (htbm : ∀ u ∈ tbm, u ∈ sg.keys) {F : Int → Int}
    (hF : IsIndIsoOn g sg (colourPred g sg) tbm F) : CInv (findNodecolorCandidates g sg) [] tbm F := by
  intro u hu _
  rw [get_findNodecolorCandidates g sg (htbm u hu)]
  refine ⟨by simp, ?_⟩
  intro s hs
  have : s = nodeColourSet g sg u := by simpa using hs
  subst this
  exact (mem_nodeColourSet g sg u _).2 (hF.node u hu)

theorem get_of_not_mem_keys {β} (l : List Int) (f : Int → β) {u : Int} (h : u ∉ l) :
    (l.map fun u => (u, f u)).lookup u = none := by
  induction l with
  | nil => rfl
  | cons a l ih =>
    simp only [List.mem_cons, not_or] at h
    have : (u == a) = false := by simpa using h.1
    simp only [List.map_cons, List.lookup, this]; exact ih h.2

theorem nInv_initial (edgeNone : Bool) {g sg : Graph} (hg : g.keys.Nodup) : NInv (initialCands edgeNone g sg) := by
  intro u s hs
  by_cases hu : u ∈ sg.keys
  · rcases (get_initialCands edgeNone g sg hu).2 s hs with rfl | rfl
    · exact hg.filter _
    · exact hg.filter _
  · unfold initialCands Cands.get at hs
    rw [get_of_not_mem_keys sg.keys _ hu] at hs
    simp at hs

theorem nInv_nodecolor {g sg : Graph} (hg : g.keys.Nodup) : NInv (findNodecolorCandidates g sg) := by
  intro u s hs
  by_cases hu : u ∈ sg.keys
  · rw [get_findNodecolorCandidates g sg hu] at hs
    have : s = nodeColourSet g sg u := by simpa using hs
    subst this; exact hg.filter _
  · unfold findNodecolorCandidates Cands.get at hs
    rw [get_of_not_mem_keys sg.keys _ hu] at hs
    simp at hs

theorem initialCands_keys (edgeNone : Bool) (g sg : Graph) : (initialCands edgeNone g sg).map Prod.fst = sg.keys := by
  unfold initialCands
  rw [List.map_map]
  conv => rhs; rw [← List.map_id sg.keys]
  apply List.map_congr_left; intro u _; rfl

theorem initialCands_any (edgeNone : Bool) (g sg : Graph) (h : sg.keys ≠ []) :
    ((initialCands edgeNone g sg).any fun e => !e.2.isEmpty) = true := by
  obtain ⟨u, hu⟩ := List.exists_mem_of_ne_nil _ h
  rw [List.any_eq_true]
  refine ⟨(u, _), List.mem_map.2 ⟨u, hu, rfl⟩, ?_⟩
  dsimp only
  split
  · rfl
  · unfold insertSet; split <;> simp

/-- under `antisymB` the search's demand on every ordered pair is "every listed constraint holds" -/
theorem sol_iff_satisfies {C : Constraints} (ha : antisymB C = true) (S : List Int) (F : Int → Int) :
    (∀ a ∈ S, ∀ b ∈ S, a ≠ b → cOK C a (F a) b (F b) = true) ↔ Satisfies C S F := by
  rw [antisymB_iff] at ha
  constructor
  · intro h lo hi hc hlo hhi
    have hne : lo ≠ hi := by intro e; subst e; exact ha _ _ hc hc
    have := h lo hlo hi hhi hne
    have hc' : C.contains (lo, hi) = true := by simpa using hc
    simp only [cOK, hc', if_true, decide_eq_true_eq] at this
    exact this
  · intro h a ha' b hb _
    unfold cOK
    split
    · rename_i h1; exact decide_eq_true (h a b (by simpa using h1) ha' hb)
    · split
      · rename_i h2; exact decide_eq_true (h b a (by simpa using h2) hb ha')
      · rfl

/-! ### the possible results of the code's `min(..)` -/

theorem legalChoice_mem {c : Cands} {nodes : List Int} {x : Int} (h : legalChoice c nodes x = true) : x ∈ nodes := by
  unfold legalChoice at h
  rw [Bool.and_eq_true] at h
  simpa using h.1

/-- the keys `min(candidates[n], key=len)` can return -/
def keySets (c : Cands) (y : Int) : List NodeSet := if (c.get y).isEmpty then [[]] else shortestSets (c.get y)

theorem foldl_min_length (rest : List NodeSet) (s : NodeSet) :
    rest.foldl (fun best x => if x.length < best.length then x else best) s ∈ s :: rest
    ∧ ∀ s' ∈ s :: rest,
        (rest.foldl (fun best x => if x.length < best.length then x else best) s).length ≤ s'.length := by
  induction rest generalizing s with
  | nil => simp
  | cons a rest ih =>
    rw [List.foldl_cons]
    by_cases hlt : a.length < s.length
    · simp only [hlt, if_true]
      obtain ⟨h1, h2⟩ := ih a
      refine ⟨List.mem_cons_of_mem _ h1, ?_⟩
      intro s' hs'
      rcases List.mem_cons.1 hs' with rfl | hs'
      · have := h2 a (by simp); omega
      · exact h2 s' hs'
    · simp only [hlt, if_false]
      obtain ⟨h1, h2⟩ := ih s
      refine ⟨?_, ?_⟩
      · rcases List.mem_cons.1 h1 with h | h
        · rw [h]; simp
        · exact List.mem_cons_of_mem _ (List.mem_cons_of_mem _ h)
      · intro s' hs'
        rcases List.mem_cons.1 hs' with rfl | hs'
        · exact h2 s' (by simp)
        · rcases List.mem_cons.1 hs' with rfl | hs'
          · have := h2 s (by simp); omega
          · exact h2 s' (List.mem_cons_of_mem _ hs')

theorem smallest_mem_keySets (c : Cands) (y : Int) : smallest (c.get y) ∈ keySets c y := by
  unfold keySets
  cases hcs : c.get y with
  | nil => simp [smallest]
  | cons s rest =>
    have := foldl_min_length rest s
    simp only [List.isEmpty_cons, Bool.false_eq_true, if_false, shortestSets, List.mem_filter, List.all_eq_true,
      decide_eq_true_eq, smallest]
    exact this

theorem properSubset_iff (a b : NodeSet) : properSubset a b = true ↔ (∀ x ∈ a, x ∈ b) ∧ ¬ ∀ x ∈ b, x ∈ a := by
  simp [properSubset, List.all_eq_true]

theorem properSubset_trans {a b c : NodeSet} (h1 : properSubset a b = true) (h2 : properSubset b c = true) :
    properSubset a c = true := by
  rw [properSubset_iff] at *
  refine ⟨fun x hx => h2.1 x (h1.1 x hx), ?_⟩
  intro h
  exact h1.2 (fun x hx => h x (h2.1 x hx))

/-- the result of `min` with the frozenset keys `k`: nothing is strictly below it -/
theorem foldl_min_minimal (k : Int → NodeSet) (rest : List Int) (u : Int) :
    let r := rest.foldl (fun best x => if properSubset (k x) (k best) then x else best) u
    (r = u ∨ properSubset (k r) (k u) = true) ∧ ∀ y ∈ u :: rest, properSubset (k y) (k r) = false := by
  induction rest generalizing u with
  | nil =>
    refine ⟨Or.inl rfl, ?_⟩
    intro y hy
    have : y = u := by simpa using hy
    subst this
    simp only [List.foldl_nil]
    cases h : properSubset (k y) (k y) with
    | false => rfl
    | true => rw [properSubset_iff] at h; exact absurd h.1 h.2
  | cons a rest ih =>
    intro r
    by_cases hlt : properSubset (k a) (k u) = true
    · have hr : r = rest.foldl (fun best x => if properSubset (k x) (k best) then x else best) a := by
        simp only [r, List.foldl_cons, hlt, if_true]
      obtain ⟨h1, h2⟩ := ih a
      rw [← hr] at h1 h2
      have hru : properSubset (k r) (k u) = true := by
        rcases h1 with h | h
        · rw [h]; exact hlt
        · exact properSubset_trans h hlt
      refine ⟨Or.inr hru, ?_⟩
      intro y hy
      rcases List.mem_cons.1 hy with rfl | hy
      · cases h : properSubset (k y) (k r) with
        | false => rfl
        | true =>
          have := properSubset_trans h hru
          rw [properSubset_iff] at this; exact absurd this.1 this.2
      · exact h2 y hy
    · have hr : r = rest.foldl (fun best x => if properSubset (k x) (k best) then x else best) u := by
        simp only [r, List.foldl_cons, hlt, Bool.false_eq_true, if_false]
      obtain ⟨h1, h2⟩ := ih u
      rw [← hr] at h1 h2
      refine ⟨h1, ?_⟩
      intro y hy
      rcases List.mem_cons.1 hy with rfl | hy
      · exact h2 y (by simp)
      · rcases List.mem_cons.1 hy with rfl | hy
        · cases h : properSubset (k y) (k r) with
          | false => rfl
          | true =>
            exfalso
            rcases h1 with h1 | h1
            · rw [h1] at h; exact hlt h
            · exact hlt (properSubset_trans h h1)
        · exact h2 y (List.mem_cons_of_mem _ hy)

/-- **The deterministic rule of the model is one of the possible results of the code's `min(..)`**:
`pickMin` passes the check `legalChoice` applied to the choices recorded from the real run. -/
theorem pickMin_legal (c : Cands) (nodes : List Int) (h : nodes ≠ []) : legalChoice c nodes (pickMin c nodes) = true := by
  cases nodes with
  | nil => exact absurd rfl h
  | cons u rest =>
    have hmem := pickMin_mem c (u :: rest) h
    obtain ⟨_, hmin⟩ := foldl_min_minimal (fun y => smallest (c.get y)) rest u
    unfold legalChoice
    rw [Bool.and_eq_true]
    refine ⟨by simpa using hmem, ?_⟩
    rw [List.any_eq_true]
    refine ⟨smallest (c.get (pickMin c (u :: rest))), smallest_mem_keySets c _, ?_⟩
    rw [List.all_eq_true]
    intro y hy
    rw [Bool.or_eq_true]
    right
    rw [List.any_eq_true]
    refine ⟨smallest (c.get y), smallest_mem_keySets c y, ?_⟩
    have := hmin y hy
    simp only [pickMin]
    rw [this]; rfl

end C06I
