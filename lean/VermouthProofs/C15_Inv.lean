import VermouthProofs.C15
import Mathlib.Data.Nat.Sqrt
/-! Helper lemmas for C15: length rounding, invariance under lattice isometries. -/
namespace C15

/-! ### rounding of the square root -/

theorem roundSqrtScaled_spec (num den d2 : Nat) (hden : 0 < den) :
    (2 * roundSqrtScaled num den d2 - 1) * (2 * roundSqrtScaled num den d2 - 1) * (den * den)
        ≤ 4 * d2 * (num * num) ∧
    4 * d2 * (num * num)
        ≤ (2 * roundSqrtScaled num den d2 + 1) * (2 * roundSqrtScaled num den d2 + 1) * (den * den) := by
  unfold roundSqrtScaled
  simp only []
  generalize 4 * d2 * (num * num) = x
  have hD : 0 < den * den := Nat.mul_pos hden hden
  generalize den * den = D at *
  have h1 : Nat.sqrt (x / D) * Nat.sqrt (x / D) ≤ x / D := Nat.sqrt_le _
  have h2 : x / D < (Nat.sqrt (x / D) + 1) * (Nat.sqrt (x / D) + 1) := Nat.lt_succ_sqrt _
  have h3 : x / D * D ≤ x := Nat.div_mul_le_self x D
  have h4 : x < (x / D + 1) * D := (Nat.div_lt_iff_lt_mul hD).mp (Nat.lt_succ_self _)
  generalize Nat.sqrt (x / D) = r at *
  generalize x / D = y at *
  split
  · next h =>
    obtain ⟨hodd, hxr, hn⟩ := h
    have e : 2 * ((r + 1) / 2 - 1) + 1 = r := by omega
    have e2 : 2 * ((r + 1) / 2 - 1) - 1 ≤ r := by omega
    constructor
    · calc _ ≤ r * r * D := Nat.mul_le_mul_right _ (Nat.mul_le_mul e2 e2)
        _ = x := hxr
    · rw [e]; exact Nat.le_of_eq hxr.symm
  · have e1 : 2 * ((r + 1) / 2) - 1 ≤ r := by omega
    have e2 : r + 1 ≤ 2 * ((r + 1) / 2) + 1 := by omega
    constructor
    · calc _ ≤ r * r * D := Nat.mul_le_mul_right _ (Nat.mul_le_mul e1 e1)
        _ ≤ y * D := Nat.mul_le_mul_right _ h1
        _ ≤ x := h3
    · calc x ≤ (y + 1) * D := Nat.le_of_lt h4
        _ ≤ (r + 1) * (r + 1) * D := Nat.mul_le_mul_right _ h2
        _ ≤ _ := Nat.mul_le_mul_right _ (Nat.mul_le_mul e2 e2)

/-! ### moving the coordinates -/

def movePos (T : V3 → V3) : Pos → Pos
  | .at x y z => Pos.at (T (x, y, z)).1 (T (x, y, z)).2.1 (T (x, y, z)).2.2
  | q => q

def moveAtom (T : V3 → V3) (a : Atom) : Atom := { a with pos := movePos T a.pos }

def moveAll (T : V3 → V3) (atoms : List Atom) : List Atom := atoms.map (moveAtom T)

theorem moveAtom_default (T : V3 → V3) : moveAtom T default = default := rfl

theorem atomAt_moveAll (T : V3 → V3) (atoms : List Atom) (i : Nat) :
    atomAt (moveAll T atoms) i = moveAtom T (atomAt atoms i) := by
  unfold atomAt moveAll
  by_cases h : i < atoms.length
  · exact getD_map_lt atoms _ i default default h
  · have h' : atoms.length ≤ i := Nat.le_of_not_lt h
    rw [List.getD_eq_getElem?_getD, List.getD_eq_getElem?_getD, List.getElem?_eq_none (by simpa using h'),
      List.getElem?_eq_none h']
    rfl

theorem selection_moveAll (T : V3 → V3) (names : List String) (atoms : List Atom) :
    selection names (moveAll T atoms) = selection names atoms := by
  unfold selection
  have hl : (moveAll T atoms).length = atoms.length := by simp [moveAll]
  rw [hl]
  apply List.filter_congr
  intro i _
  rw [atomAt_moveAll]; rfl

theorem keyAt_moveAll (T : V3 → V3) (atoms : List Atom) (i : Nat) :
    keyAt (moveAll T atoms) i = keyAt atoms i := by
  unfold keyAt; rw [atomAt_moveAll]; rfl

theorem atomOfKey_moveAll (T : V3 → V3) (atoms : List Atom) (k : Int) :
    atomOfKey (moveAll T atoms) k = (atomOfKey atoms k).map (moveAtom T) := by
  unfold atomOfKey moveAll
  rw [List.find?_map]
  rfl

theorem resEdges_moveAll (T : V3 → V3) (atoms : List Atom) (edges : List (Int × Int)) :
    resEdges (moveAll T atoms) edges = resEdges atoms edges := by
  unfold resEdges
  congr 1
  funext e
  rw [atomOfKey_moveAll, atomOfKey_moveAll]
  cases atomOfKey atoms e.1 <;> cases atomOfKey atoms e.2 <;> rfl

theorem connEntry_moveAll (T : V3 → V3) (atoms : List Atom) (E : List (ResKey × ResKey)) (sep i j : Nat) :
    connEntry (moveAll T atoms) E sep i j = connEntry atoms E sep i j := by
  unfold connEntry; rw [atomAt_moveAll, atomAt_moveAll]; rfl

theorem crit_moveAtom (T : V3 → V3) (d : Domain) (a b : Atom) :
    crit d (moveAtom T a) (moveAtom T b) = crit d a b := by
  cases d <;> rfl

theorem domEntry_moveAll (T : V3 → V3) (sel : List Nat) (atoms : List Atom) (d : Domain) (i j : Nat) :
    domEntry sel (moveAll T atoms) d i j = domEntry sel atoms d i j := by
  unfold domEntry
  simp only [atomAt_moveAll, crit_moveAtom]

theorem vec_movePos (T : V3 → V3) (q : Pos) (h : ∃ x y z, q = Pos.at x y z) :
    vec (movePos T q) = T (vec q) := by
  obtain ⟨x, y, z, rfl⟩ := h
  rfl

theorem length_moveAll (T : V3 → V3) (atoms : List Atom) : (moveAll T atoms).length = atoms.length := by
  simp [moveAll]

theorem nodesOf_moveAll (T : V3 → V3) (atoms : List Atom) (r : ResKey) :
    nodesOf (moveAll T atoms) r = nodesOf atoms r := by
  unfold nodesOf
  rw [length_moveAll]
  apply List.filter_congr
  intro i _
  rw [atomAt_moveAll]; rfl

theorem residues_moveAll (T : V3 → V3) (atoms : List Atom) : residues (moveAll T atoms) = residues atoms := by
  unfold residues moveAll
  rw [List.map_map]
  rfl

theorem connFull_moveAll (T : V3 → V3) (atoms : List Atom) (E : List (ResKey × ResKey)) (sep : Nat) :
    connFull (moveAll T atoms) E sep = connFull atoms E sep := by
  unfold connFull connWrites
  simp only [length_moveAll, residues_moveAll, nodesOf_moveAll]

theorem domFull_moveAll (T : V3 → V3) (sel : List Nat) (atoms : List Atom) (d : Domain) :
    domFull sel (moveAll T atoms) d = domFull sel atoms d := by
  unfold domFull domWrites
  simp only [length_moveAll, atomAt_moveAll, crit_moveAtom]

theorem mats_moveAll (T : V3 → V3) (hT : ∀ u v, dist2 (T u) (T v) = dist2 u v)
    (atoms : List Atom) (edges : List (Int × Int)) (p : Params)
    (hpos : ∀ i ∈ selection p.names atoms, ∃ x y z, (atomAt atoms i).pos = Pos.at x y z) :
    mats (moveAll T atoms) edges p = mats atoms edges p := by
  unfold mats
  simp only [selection_moveAll, resEdges_moveAll, connFull_moveAll, domFull_moveAll]
  have hcoord : (selection p.names atoms).map (fun i => vec (atomAt (moveAll T atoms) i).pos)
      = ((selection p.names atoms).map (fun i => vec (atomAt atoms i).pos)).map T := by
    rw [List.map_map]
    apply List.map_congr_left
    intro i hi
    rw [atomAt_moveAll]
    exact vec_movePos T _ (hpos i hi)
  have hdist : ∀ l : List V3, ((l.map T).map fun a => (l.map T).map fun b => dist2 a b)
      = (l.map fun a => l.map fun b => dist2 a b) := by
    intro l
    simp only [List.map_map]
    apply List.map_congr_left
    intro a _
    apply List.map_congr_left
    intro b _
    exact hT a b
  rw [hcoord, hdist]

theorem emit_moveAll (T : V3 → V3) (atoms : List Atom) (p : Params) (M : Mats) :
    emit (moveAll T atoms) p M = emit atoms p M := by
  unfold emit
  simp only [keyAt_moveAll]

theorem movePos_missing (T : V3 → V3) (q : Pos) : movePos T q = Pos.missing ↔ q = Pos.missing := by
  cases q <;> simp [movePos]

theorem movePos_nan (T : V3 → V3) (q : Pos) : movePos T q = Pos.nan ↔ q = Pos.nan := by
  cases q <;> simp [movePos]

theorem selAtoms_moveAll (T : V3 → V3) (names : List String) (atoms : List Atom) :
    (selection names (moveAll T atoms)).map (atomAt (moveAll T atoms))
      = ((selection names atoms).map (atomAt atoms)).map (moveAtom T) := by
  rw [selection_moveAll, List.map_map]
  apply List.map_congr_left
  intro i _
  exact atomAt_moveAll T atoms i

theorem miss_move (T : V3 → V3) (l : List Atom) :
    (((l.map (moveAtom T)).filter fun a => a.pos = Pos.missing).map (·.key))
      = ((l.filter fun a => a.pos = Pos.missing).map (·.key)) := by
  induction l with
  | nil => rfl
  | cons a t ih =>
    have h : ((moveAtom T a).pos = Pos.missing) ↔ (a.pos = Pos.missing) := movePos_missing T a.pos
    by_cases ha : a.pos = Pos.missing
    · simp only [List.map_cons, List.filter_cons, h.mpr ha, ha, decide_true, if_true, ih]; rfl
    · simp only [List.map_cons, List.filter_cons, mt h.mp ha, ha, decide_false, Bool.false_eq_true, if_false]
      exact ih

theorem nan_move (T : V3 → V3) (l : List Atom) :
    ((l.map (moveAtom T)).any fun a => a.pos = Pos.nan) = (l.any fun a => a.pos = Pos.nan) := by
  induction l with
  | nil => rfl
  | cons a t ih =>
    have h : ((moveAtom T a).pos = Pos.nan) ↔ (a.pos = Pos.nan) := movePos_nan T a.pos
    simp only [List.map_cons, List.any_cons, ih]
    congr 1
    exact decide_eq_decide.mpr h

end C15
