import VermouthProofs.C18_Write
import VermouthProofs.C18_Map
/-! Helper lemmas for C18, part 11: the rendered numbers are single tokens; tokens of a data line. -/
namespace C18

/-- a character that can stand inside a column of a parameter file: no blank, no comment sign -/
def tokChar (c : Char) : Bool := !isWs c && c != ';'

/-- a column: non-empty, no blank, no `;` -/
def TokStr (t : List Char) : Prop := t ≠ [] ∧ ∀ c ∈ t, tokChar c = true
instance (t : List Char) : Decidable (TokStr t) := by unfold TokStr; exact inferInstance

theorem TokStr.wsFree {t : List Char} (h : TokStr t) : WsFree t :=
  ⟨h.1, fun c hc => by have := h.2 c hc; simp only [tokChar, Bool.and_eq_true, Bool.not_eq_true'] at this; exact this.1⟩

theorem TokStr.no_semicolon {t : List Char} (h : TokStr t) : ∀ c ∈ t, (c != ';') = true :=
  fun c hc => by have := h.2 c hc; simp only [tokChar, Bool.and_eq_true] at this; exact this.2

theorem digitChar_tok (d : Nat) : tokChar (digitChar d) = true := by
  have h : ∀ m : Fin 10, tokChar (Char.ofNat (48 + m.val)) = true := by decide
  exact h ⟨d % 10, Nat.mod_lt _ (by decide)⟩

theorem decAux_all (P : Char → Prop) (hd : ∀ d, P (digitChar d)) :
    ∀ (fuel n : Nat) (acc : List Char), (∀ c ∈ acc, P c) → ∀ c ∈ decAux fuel n acc, P c := by
  intro fuel
  induction fuel with
  | zero => intro n acc h; simpa [decAux] using h
  | succ f ih =>
    intro n acc h
    unfold decAux
    split
    · intro c hc
      rcases List.mem_cons.mp hc with e | e
      · subst e; exact hd _
      · exact h c e
    · apply ih
      intro c hc
      rcases List.mem_cons.mp hc with e | e
      · subst e; exact hd _
      · exact h c e

theorem decAux_ne_nil : ∀ (fuel n : Nat) (acc : List Char), acc ≠ [] → decAux fuel n acc ≠ [] := by
  intro fuel
  induction fuel with
  | zero => intro n acc h; simpa [decAux] using h
  | succ f ih =>
    intro n acc h
    unfold decAux
    split
    · simp
    · exact ih _ _ (by simp)

theorem decNat_tok (n : Nat) : TokStr (decNat n) := by
  constructor
  · unfold decNat decAux
    split
    · simp
    · exact decAux_ne_nil _ _ _ (by simp)
  · exact decAux_all (fun c => tokChar c = true) digitChar_tok _ _ _ (by simp)

theorem decInt_tok (i : Int) : TokStr (decInt i) := by
  unfold decInt
  split
  · exact ⟨by simp, fun c hc => by
      rcases List.mem_cons.mp hc with e | e
      · subst e; decide
      · exact (decNat_tok _).2 c e⟩
  · exact decNat_tok _

theorem fmtFixed_tok (prec : Nat) (x : Q) : TokStr (fmtFixed prec x) := by
  unfold fmtFixed
  constructor
  · simp
  · intro c hc
    simp only [List.mem_append, List.mem_cons, padLeft, List.mem_replicate] at hc
    rcases hc with (hc | hc) | hc | hc | hc
    · split at hc
      · simp only [List.mem_singleton] at hc; subst hc; decide
      · cases hc
    · exact (decNat_tok _).2 c hc
    · subst hc; decide
    · rw [hc.2]; decide
    · exact (decNat_tok _).2 c hc

/-! ### what a reader of the file sees on a data line: the columns before the comment -/

/-- `line.split(';')[0]` -/
def dataPrefix (l : List Char) : List Char := l.takeWhile (· != ';')
/-- `line.split(';')[0].split()` -/
def lineTokens (l : List Char) : List (List Char) := splitWs (dataPrefix l)

theorem takeWhile_append_stop {p : Char → Bool} (x rest : List Char) (hx : ∀ c ∈ x, p c = true)
    (hrest : rest = [] ∨ ∃ c r, rest = c :: r ∧ p c = false) : (x ++ rest).takeWhile p = x := by
  induction x with
  | nil =>
    rcases hrest with e | ⟨c, r, e, hc⟩
    · subst e; rfl
    · subst e; simp [List.takeWhile, hc]
  | cons a x ih =>
    simp only [List.cons_append, List.takeWhile, hx a (by simp)]
    rw [ih (fun c hc => hx c (List.mem_cons_of_mem _ hc))]

/-- columns joined by single blanks, a trailing blank, then nothing or a comment starting with `;` -/
theorem lineTokens_render (toks : List (List Char)) (com : List Char) (ht : ∀ t ∈ toks, TokStr t) (hne : toks ≠ [])
    (hcom : com = [] ∨ ∃ r, com = ';' :: r) :
    lineTokens (render toks ++ ' ' :: com) = toks := by
  unfold lineTokens dataPrefix
  have hr : ∀ c ∈ render toks ++ [' '], (c != ';') = true := by
    intro c hc
    rcases List.mem_append.mp hc with h | h
    · clear hc hne
      induction toks with
      | nil => cases h
      | cons t more ih =>
        cases more with
        | nil => exact (ht t (by simp)).no_semicolon c h
        | cons t' more' =>
          simp only [render, List.mem_append, List.mem_cons] at h
          rcases h with h | h | h
          · exact (ht t (by simp)).no_semicolon c h
          · subst h; decide
          · exact ih (fun x hx => ht x (List.mem_cons_of_mem _ hx)) h
    · simp only [List.mem_singleton] at h; subst h; decide
  have e : render toks ++ ' ' :: com = (render toks ++ [' ']) ++ com := by simp
  rw [e, takeWhile_append_stop _ _ hr (by
    rcases hcom with h | ⟨r, h⟩
    · exact Or.inl h
    · exact Or.inr ⟨';', r, h, by decide⟩)]
  have := splitWs_render [] [' '] toks (fun t h => (ht t h).wsFree) (by intro c hc; cases hc) (by decide)
  simpa using this

theorem nbComment_shape (m : Meta) : nbComment m = [] ∨ ∃ r, nbComment m = ';' :: r := by
  unfold nbComment
  split
  · exact Or.inr ⟨_, rfl⟩
  · exact Or.inl rfl

theorem atComment_shape (m : Meta) : atComment m = [] ∨ ∃ r, atComment m = ';' :: r := by
  unfold atComment
  split
  · exact Or.inr ⟨_, rfl⟩
  · exact Or.inl rfl

/-- the columns of a `[ nonbond_params ]` data line -/
def nbRow (a1 a2 : String) (n1 n2 : Q) : List (List Char) := [a1.toList, a2.toList, ['1'], F8 n1, F8 n2]

theorem nbLine_ok {c6 : Bool} {p : NbParam} {l : List Char} (h : nbLine c6 p = .ok l) :
    ∃ a1 a2 n1 n2, nbPair p = some (a1, a2) ∧ nbNumbers c6 p.sigma p.eps = .ok (n1, n2) ∧
      l = render (nbRow a1 a2 n1 n2) ++ ' ' :: nbComment p.mt := by
  unfold nbLine at h
  cases hp : nbPair p with
  | none => rw [hp] at h; cases h
  | some ab =>
    obtain ⟨a1, a2⟩ := ab
    rw [hp] at h
    cases hn : nbNumbers c6 p.sigma p.eps with
    | error e => rw [hn] at h; cases h
    | ok nn =>
      obtain ⟨n1, n2⟩ := nn
      rw [hn] at h
      cases h
      exact ⟨a1, a2, n1, n2, rfl, rfl, by simp [nbRow, render]⟩

theorem nbPair_mem {p : NbParam} {a1 a2 : String} (h : nbPair p = some (a1, a2)) : a1 ∈ p.atoms ∧ a2 ∈ p.atoms := by
  unfold nbPair at h
  split at h
  · rename_i a b he
    cases h; rw [he]; simp
  · rename_i a tl _ he
    cases h; rw [he]; simp
  · cases h

theorem nbRow_tok (a1 a2 : String) (n1 n2 : Q) (h1 : TokStr a1.toList) (h2 : TokStr a2.toList) :
    ∀ t ∈ nbRow a1 a2 n1 n2, TokStr t := by
  intro t ht
  simp only [nbRow, List.mem_cons, List.not_mem_nil, or_false] at ht
  rcases ht with e | e | e | e | e <;> subst e
  · exact h1
  · exact h2
  · decide
  · exact fmtFixed_tok _ _
  · exact fmtFixed_tok _ _

/-- the columns of an `[ atomtypes ]` data line -/
def atRow (ty mass charge : String) (n1 n2 : Q) : List (List Char) :=
  [ty.toList, mass.toList, charge.toList, ['A'], F8 n1, F8 n2]

theorem atLine_ok {c6 : Bool} {t : AtType} {l : List Char} (h : atLine c6 t = .ok l) :
    ∃ ty mass charge n1 n2, t.atype = some ty ∧ t.mass = some mass ∧ t.charge = some charge ∧
      nbNumbers c6 t.sigma t.eps = .ok (n1, n2) ∧
      l = render (atRow ty mass charge n1 n2) ++ ' ' :: atComment t.mt := by
  unfold atLine at h
  cases ha : t.atype with
  | none => rw [ha] at h; cases h
  | some ty =>
    cases hc : t.charge with
    | none => rw [ha, hc] at h; cases h
    | some charge =>
      cases hm : t.mass with
      | none => rw [ha, hc, hm] at h; cases h
      | some mass =>
        rw [ha, hc, hm] at h
        simp only at h
        cases hn : nbNumbers c6 t.sigma t.eps with
        | error e => rw [hn] at h; cases h
        | ok nn =>
          obtain ⟨n1, n2⟩ := nn
          rw [hn] at h
          cases h
          exact ⟨ty, mass, charge, n1, n2, rfl, rfl, rfl, rfl, by simp [atRow, render]⟩

end C18
