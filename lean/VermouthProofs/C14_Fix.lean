import VermouthModel.C14
/-!
Helper lemmas for C14: `identify_ptms` and one iteration of `fix_ptm`.
-/
namespace C14

theorem mem_addNew {l xs : List Int} {a : Int} : a ∈ addNew l xs ↔ a ∈ l ∨ a ∈ xs := by
  unfold addNew
  induction xs generalizing l with
  | nil => simp
  | cons x xs ih =>
    simp only [List.foldl_cons]
    rw [ih]
    by_cases hx : l.contains x = true
    · have hxl : x ∈ l := by simpa using hx
      rw [if_pos hx]
      constructor
      · rintro (h | h)
        · exact Or.inl h
        · exact Or.inr (List.mem_cons_of_mem _ h)
      · rintro (h | h)
        · exact Or.inl h
        · rcases List.mem_cons.1 h with rfl | h
          · exact Or.inl hxl
          · exact Or.inr h
    · rw [if_neg hx]
      constructor
      · rintro (h | h)
        · rcases List.mem_append.1 h with h | h
          · exact Or.inl h
          · exact Or.inr (by simp at h; simp [h])
        · exact Or.inr (List.mem_cons_of_mem _ h)
      · rintro (h | h)
        · exact Or.inl (List.mem_append_left _ h)
        · rcases List.mem_cons.1 h with rfl | h
          · exact Or.inl (by simp)
          · exact Or.inr h

/-- what the annotations of the INPUT say about a group -/
def usedOf (annot : Int → List Nat) (g : Group) : List Nat := dedupNat (g.atoms.flatMap annot)

theorem usedBranch_inl {res : List Atom} {edges : List (Int × Int)} {mods : List Modif} {g : Group} :
    ∀ (us : List Nat) (cov : Cover) (known : List Int) (cov' : Cover),
      usedBranch res edges mods g us cov known = .inl cov' →
      (∀ a ∈ known, ∃ e ∈ cov, a ∈ patoms e.2) →
      (∀ e ∈ cov, e ∈ cov') ∧ ∀ a ∈ g.atoms, ∃ e ∈ cov', a ∈ patoms e.2 := by
  intro us
  induction us with
  | nil =>
    intro cov known cov' h hk
    simp only [usedBranch] at h
    split at h
    · next hl =>
      cases h
      refine ⟨fun e he => he, ?_⟩
      intro a ha
      apply hk
      have : (g.atoms.filter fun a => !known.contains a) = [] := by simpa using hl
      rw [List.filter_eq_nil_iff] at this
      have := this a ha
      simpa using this
    · cases h
  | cons i rest ih =>
    intro cov known cov' h hk
    simp only [usedBranch] at h
    split at h
    · next m hm =>
      have := ih (cov ++ [(i, m)]) (known ++ patoms m) cov' h (by
        intro a ha
        rcases List.mem_append.1 ha with h1 | h1
        · obtain ⟨e, he, hae⟩ := hk a h1
          exact ⟨e, List.mem_append_left _ he, hae⟩
        · exact ⟨(i, m), by simp, h1⟩)
      exact ⟨fun e he => this.1 e (List.mem_append_left _ he), this.2⟩
    · cases h

theorem identifyLoop_inl {res : List Atom} {edges : List (Int × Int)} {mods : List Modif} {annot : Int → List Nat} :
    ∀ (gs : List Group) (cov : Cover) (tc pending : List Int) (cov' : Cover) (tc' pending' : List Int),
      identifyLoop res edges mods annot gs cov tc pending = .inl (cov', tc', pending') →
      (∀ e ∈ cov, e ∈ cov') ∧ (∀ a ∈ tc, a ∈ tc') ∧ (∀ a ∈ pending, a ∈ pending') ∧
      ∀ g ∈ gs, (usedOf annot g = [] → ∀ a ∈ g.atoms, a ∈ tc' ∧ a ∈ pending')
        ∧ (usedOf annot g ≠ [] → ∀ a ∈ g.atoms, ∃ e ∈ cov', a ∈ patoms e.2) := by
  intro gs
  induction gs with
  | nil =>
    intro cov tc pending cov' tc' pending' h
    simp only [identifyLoop, Sum.inl.injEq, Prod.mk.injEq] at h
    obtain ⟨rfl, rfl, rfl⟩ := h
    exact ⟨fun e h => h, fun a h => h, fun a h => h, by simp⟩
  | cons g gs ih =>
    intro cov tc pending cov' tc' pending' h
    simp only [identifyLoop] at h
    split at h
    · next hu =>
      have hu' : usedOf annot g = [] := by simpa [usedOf] using hu
      obtain ⟨i1, i2, i3, i4⟩ := ih _ _ _ _ _ _ h
      refine ⟨i1, fun a ha => i2 a (mem_addNew.2 (Or.inl (mem_addNew.2 (Or.inl ha)))),
        fun a ha => i3 a (List.mem_append_left _ ha), ?_⟩
      intro g' hg'
      rcases List.mem_cons.1 hg' with rfl | hg'
      · refine ⟨fun _ a ha => ⟨i2 a (mem_addNew.2 (Or.inl (mem_addNew.2 (Or.inr ha)))),
          i3 a (List.mem_append_right _ ha)⟩, fun hne => absurd hu' hne⟩
      · exact i4 g' hg'
    · next hu =>
      have hu' : usedOf annot g ≠ [] := by simpa [usedOf] using hu
      split at h
      · cases h
      · split at h
        · next cov1 hub =>
          obtain ⟨u1, u2⟩ := usedBranch_inl _ _ _ _ hub (by simp)
          obtain ⟨i1, i2, i3, i4⟩ := ih _ _ _ _ _ _ h
          refine ⟨fun e he => i1 e (u1 e he), i2, i3, ?_⟩
          intro g' hg'
          rcases List.mem_cons.1 hg' with rfl | hg'
          · refine ⟨fun he => absurd he hu', fun _ a ha => ?_⟩
            obtain ⟨e, he, hae⟩ := u2 a ha
            exact ⟨e, i1 e he, hae⟩
          · exact i4 g' hg'
        · cases h

theorem identifyLoop_inr {res : List Atom} {edges : List (Int × Int)} {mods : List Modif} {annot : Int → List Nat} :
    ∀ (gs : List Group) (cov : Cover) (tc pending : List Int) (r : IdRes),
      identifyLoop res edges mods annot gs cov tc pending = .inr r →
      ∃ rm, r = .keyError rm ∧ (∀ a ∈ pending, a ∈ rm)
        ∧ ∀ g ∈ gs, usedOf annot g = [] → ∀ a ∈ g.atoms, a ∈ rm := by
  intro gs
  induction gs with
  | nil =>
    intro cov tc pending r h
    simp [identifyLoop] at h
  | cons g gs ih =>
    intro cov tc pending r h
    simp only [identifyLoop] at h
    have later : ∀ (pre : List Int) (g' : Group), g' ∈ gs → ∀ a ∈ g'.atoms, a ∈ pre ++ gs.flatMap (·.atoms) := by
      intro pre g' hg' a ha
      exact List.mem_append_right _ (List.mem_flatMap.2 ⟨g', hg', ha⟩)
    split at h
    · next hu =>
      obtain ⟨rm, hr, h1, h2⟩ := ih _ _ _ _ h
      refine ⟨rm, hr, fun a ha => h1 a (List.mem_append_left _ ha), ?_⟩
      intro g' hg' hu' a ha
      rcases List.mem_cons.1 hg' with rfl | hg'
      · exact h1 a (List.mem_append_right _ ha)
      · exact h2 g' hg' hu' a ha
    · next hu =>
      have hu' : usedOf annot g ≠ [] := by simpa [usedOf] using hu
      split at h
      · cases h
        refine ⟨_, rfl, fun a ha => List.mem_append_left _ (List.mem_append_left _ ha), ?_⟩
        intro g' hg' hue a ha
        rcases List.mem_cons.1 hg' with rfl | hg'
        · exact absurd hue hu'
        · exact later _ g' hg' a ha
      · split at h
        · obtain ⟨rm, hr, h1, h2⟩ := ih _ _ _ _ h
          refine ⟨rm, hr, h1, ?_⟩
          intro g' hg' hue a ha
          rcases List.mem_cons.1 hg' with rfl | hg'
          · exact absurd hue hu'
          · exact h2 g' hg' hue a ha
        · cases h
          refine ⟨_, rfl, fun a ha => List.mem_append_left _ (List.mem_append_left _ ha), ?_⟩
          intro g' hg' hue a ha
          rcases List.mem_cons.1 hg' with rfl | hg'
          · exact absurd hue hu'
          · exact later _ g' hg' a ha

/-! ### one iteration of `fix_ptm`: labelling and removal -/

/-- what the renaming / `replace` step never touches -/
def proj (a : Atom) : Int × List Nat × Bool := (a.key, a.mods, a.hasModKey)

theorem applyPair_proj (ma : MAtom) (a : Atom) : proj (applyPair ma a) = proj a := rfl

theorem updAtom_proj (atoms : List Atom) (k : Int) (f : Atom → Atom) (hf : ∀ a, proj (f a) = proj a) :
    (updAtom atoms k f).map proj = atoms.map proj := by
  unfold updAtom
  rw [List.map_map]
  apply List.map_congr_left
  intro a _
  simp only [Function.comp]
  split
  · exact hf a
  · rfl

theorem applyPlacement_proj (md : Modif) (p : Placement) (atoms : List Atom) :
    (applyPlacement md p atoms).map proj = atoms.map proj := by
  unfold applyPlacement
  induction p generalizing atoms with
  | nil => rfl
  | cons q p ih =>
    simp only [List.foldl_cons]
    rw [ih]
    split
    · exact updAtom_proj _ _ _ (applyPair_proj _)
    · rfl

theorem mem_of_map_proj {l l' : List Atom} (h : l'.map proj = l.map proj) {b : Atom} (hb : b ∈ l') :
    ∃ a ∈ l, proj a = proj b := by
  have : proj b ∈ l.map proj := by rw [← h]; exact List.mem_map.2 ⟨b, hb, rfl⟩
  obtain ⟨a, ha, hab⟩ := List.mem_map.1 this
  exact ⟨a, ha, hab⟩

theorem labelAtom_key (i : Nat) (a : Atom) : (labelAtom i a).key = a.key := by
  unfold labelAtom; split <;> rfl

theorem labelAtom_mem (i : Nat) (a : Atom) : i ∈ (labelAtom i a).mods := by
  unfold labelAtom
  split
  · next h =>
    simp only [Bool.and_eq_true, List.contains_iff_mem] at h
    exact h.2
  · simp

theorem labelAtom_mono (i : Nat) (a : Atom) {j : Nat} (h : j ∈ a.mods) : j ∈ (labelAtom i a).mods := by
  unfold labelAtom
  split
  · exact h
  · simp [h]

theorem applyOne_keys (mods : List Modif) (nIdxs : List Int) (atoms : List Atom) (c : Nat × Placement) :
    (applyOne mods nIdxs atoms c).map (·.key) = atoms.map (·.key) := by
  unfold applyOne
  rw [List.map_map]
  have h := applyPlacement_proj (modAt mods c.1) c.2 atoms
  have h2 : (applyPlacement (modAt mods c.1) c.2 atoms).map (·.key) = atoms.map (·.key) := by
    have := congrArg (List.map Prod.fst) h
    rw [List.map_map, List.map_map] at this
    exact this
  rw [← h2]
  apply List.map_congr_left
  intro a _
  simp only [Function.comp]
  split
  · exact labelAtom_key _ _
  · rfl

theorem applyOne_spec (mods : List Modif) (nIdxs : List Int) (atoms : List Atom) (c : Nat × Placement)
    {b : Atom} (hb : b ∈ applyOne mods nIdxs atoms c) :
    ∃ a ∈ atoms, a.key = b.key ∧ (∀ i ∈ a.mods, i ∈ b.mods) ∧ (b.key ∈ nIdxs → c.1 ∈ b.mods) := by
  unfold applyOne at hb
  obtain ⟨a', ha', rfl⟩ := List.mem_map.1 hb
  obtain ⟨a, ha, hp⟩ := mem_of_map_proj (applyPlacement_proj (modAt mods c.1) c.2 atoms) ha'
  have hk : a.key = a'.key := congrArg Prod.fst hp
  have hm : a.mods = a'.mods := congrArg (fun x => x.2.1) hp
  refine ⟨a, ha, ?_, ?_, ?_⟩
  · split
    · rw [labelAtom_key]; exact hk
    · exact hk
  · intro i hi
    rw [hm] at hi
    split
    · exact labelAtom_mono _ _ hi
    · exact hi
  · intro hin
    split
    · exact labelAtom_mem _ _
    · next hne =>
      exfalso
      apply hne
      split at hin
      · rw [labelAtom_key] at hin; simpa using hin
      · simpa using hin

theorem foldl_applyOne_keys (mods : List Modif) (nIdxs : List Int) (cs : Cover) (atoms : List Atom) :
    (cs.foldl (applyOne mods nIdxs) atoms).map (·.key) = atoms.map (·.key) := by
  induction cs generalizing atoms with
  | nil => rfl
  | cons c cs ih =>
    simp only [List.foldl_cons]
    rw [ih, applyOne_keys]

theorem foldl_applyOne_spec (mods : List Modif) (nIdxs : List Int) (cs : Cover) (atoms : List Atom)
    {b : Atom} (hb : b ∈ cs.foldl (applyOne mods nIdxs) atoms) :
    ∃ a ∈ atoms, a.key = b.key ∧ (∀ i ∈ a.mods, i ∈ b.mods) ∧ (b.key ∈ nIdxs → ∀ e ∈ cs, e.1 ∈ b.mods) := by
  induction cs generalizing atoms with
  | nil => exact ⟨b, hb, rfl, fun i h => h, by simp⟩
  | cons c cs ih =>
    simp only [List.foldl_cons] at hb
    obtain ⟨a1, ha1, hk1, hm1, hl1⟩ := ih _ hb
    obtain ⟨a, ha, hk, hm, hl⟩ := applyOne_spec mods nIdxs atoms c ha1
    refine ⟨a, ha, hk.trans hk1, fun i hi => hm1 i (hm i hi), ?_⟩
    intro hin e he
    rcases List.mem_cons.1 he with rfl | he
    · exact hm1 _ (hl (hk1 ▸ hin))
    · exact hl1 hin e he

theorem mem_removeAtoms_keys (m : Mol) (rm : List Int) (a : Int) :
    a ∈ (removeAtoms m rm).keys ↔ a ∈ m.keys ∧ a ∉ rm := by
  unfold removeAtoms Mol.keys
  simp only [List.mem_map, List.mem_filter]
  constructor
  · rintro ⟨x, ⟨hx, hr⟩, rfl⟩
    exact ⟨⟨x, hx, rfl⟩, by simpa using hr⟩
  · rintro ⟨⟨x, hx, rfl⟩, hr⟩
    exact ⟨x, ⟨hx, by simpa using hr⟩, rfl⟩

end C14
