import VermouthModel.C02
/-! Character level: the whitespace splitter undoes the padding and joining of the renderer. -/
namespace C02

/-- a cell of a rendered line: `a` spaces, optionally a token, `b` spaces -/
structure Cell where
  before : Nat
  tok : Option (List Char)
  after : Nat

def Cell.chars (c : Cell) : List Char := spaces c.before ++ c.tok.getD [] ++ spaces c.after

/-- token characters: not empty, no whitespace, no `;` -/
def TokC (t : List Char) : Prop := t ≠ [] ∧ ∀ c ∈ t, isWs c = false ∧ c ≠ ';'

def Cell.ok (c : Cell) : Prop := ∀ t, c.tok = some t → TokC t

theorem isWs_space : isWs ' ' = true := by decide

theorem splitGo_tok (t : List Char) (ht : ∀ c ∈ t, isWs c = false) (rest cur : List Char) :
    splitGo (t ++ rest) cur = splitGo rest (t.reverse ++ cur) := by
  induction t generalizing cur with
  | nil => rfl
  | cons c t ih =>
    have hc := ht c (by simp)
    simp only [List.cons_append, splitGo, hc, Bool.false_eq_true, if_false]
    rw [ih (fun x hx => ht x (by simp [hx]))]
    simp

theorem splitGo_spaces (n : Nat) (rest : List Char) : splitGo (spaces n ++ rest) [] = splitGo rest [] := by
  induction n with
  | zero => rfl
  | succ k ih =>
    simp only [spaces, List.replicate_succ, List.cons_append, splitGo, isWs_space, if_true,
      List.isEmpty_nil]
    exact ih

theorem splitGo_spaces_end (n : Nat) : splitGo (spaces n) [] = [] := by
  have := splitGo_spaces n []
  simpa [splitGo] using this

/-- a token followed by nothing or by a whitespace character is emitted -/
theorem splitGo_tok_then (t : List Char) (ht : TokC t) (rest : List Char)
    (hr : rest = [] ∨ ∃ c r, rest = c :: r ∧ isWs c = true) :
    splitGo (t ++ rest) [] = String.ofList t :: splitGo rest [] := by
  rw [splitGo_tok t (fun c hc => (ht.2 c hc).1)]
  have hne : (t.reverse ++ []).isEmpty = false := by
    cases t with
    | nil => exact absurd rfl ht.1
    | cons a b => simp
  rcases hr with rfl | ⟨c, r, rfl, hc⟩
  · simp only [splitGo, hne, Bool.false_eq_true, if_false]
    simp
  · simp only [splitGo, hc, if_true, hne, Bool.false_eq_true, if_false]
    simp

theorem spaces_append_space (n : Nat) (r : List Char) : spaces n ++ ' ' :: r = ' ' :: (spaces n ++ r) := by
  induction n with
  | zero => rfl
  | succ k ih =>
    simp only [spaces, List.replicate_succ, List.cons_append] at ih ⊢
    rw [ih]

/-- one cell followed by the separator and the rest of the line -/
theorem splitGo_cell_sep (c : Cell) (hc : c.ok) (r : List Char) :
    splitGo (c.chars ++ ' ' :: r) [] = (c.tok.map String.ofList).toList ++ splitGo r [] := by
  obtain ⟨a, tk, b⟩ := c
  cases tk with
  | none =>
    simp only [Cell.chars, Option.getD_none, List.append_nil, List.append_assoc, Option.map_none,
      Option.toList_none, List.nil_append]
    rw [splitGo_spaces, splitGo_spaces]
    simp only [splitGo, isWs_space, if_true, List.isEmpty_nil]
  | some t =>
    have ht : TokC t := hc t rfl
    simp only [Cell.chars, Option.getD_some, List.append_assoc, Option.map_some, Option.toList_some,
      List.singleton_append]
    rw [splitGo_spaces, spaces_append_space]
    rw [splitGo_tok_then t ht _ (Or.inr ⟨' ', _, rfl, isWs_space⟩)]
    simp only [splitGo, isWs_space, if_true, List.isEmpty_nil]
    rw [splitGo_spaces]

theorem splitGo_cell_end (c : Cell) (hc : c.ok) :
    splitGo c.chars [] = (c.tok.map String.ofList).toList := by
  obtain ⟨a, tk, b⟩ := c
  cases tk with
  | none =>
    simp only [Cell.chars, Option.getD_none, List.append_nil, Option.map_none, Option.toList_none]
    rw [splitGo_spaces, splitGo_spaces_end]
  | some t =>
    have ht : TokC t := hc t rfl
    simp only [Cell.chars, Option.getD_some, List.append_assoc, Option.map_some, Option.toList_some]
    rw [splitGo_spaces]
    have hr : spaces b = [] ∨ ∃ c r, spaces b = c :: r ∧ isWs c = true := by
      cases b with
      | zero => exact Or.inl rfl
      | succ k => exact Or.inr ⟨' ', spaces k, rfl, isWs_space⟩
    rw [splitGo_tok_then t ht _ hr, splitGo_spaces_end]

theorem joinSp_cons_cons (a b : List Char) (r : List (List Char)) :
    joinSp (a :: b :: r) = a ++ ' ' :: joinSp (b :: r) := rfl

/-- **splitter lemma**: splitting a line made of cells joined by single spaces gives the tokens -/
theorem splitWs_joinSp (cells : List Cell) (h : ∀ c ∈ cells, c.ok) :
    splitWs (joinSp (cells.map Cell.chars)) = cells.flatMap (fun c => (c.tok.map String.ofList).toList) := by
  unfold splitWs
  induction cells with
  | nil => rfl
  | cons c rest ih =>
    cases rest with
    | nil =>
      simp only [List.map_cons, List.map_nil, joinSp, List.flatMap_cons, List.flatMap_nil, List.append_nil]
      exact splitGo_cell_end c (h c (by simp))
    | cons d rest' =>
      rw [List.map_cons, List.map_cons, joinSp_cons_cons, List.flatMap_cons]
      rw [splitGo_cell_sep c (h c (by simp))]
      congr 1
      have := ih (fun x hx => h x (by simp [hx]))
      rw [List.map_cons] at this
      exact this

/-! ### comments -/

theorem stripComment_noSemi (l : List Char) (h : ∀ c ∈ l, c ≠ ';') : stripComment l = l := by
  unfold stripComment
  induction l with
  | nil => rfl
  | cons a t ih =>
    have ha : (a != ';') = true := by simpa using h a (by simp)
    rw [List.takeWhile_cons, ha, if_pos rfl, ih (fun c hc => h c (by simp [hc]))]

theorem stripComment_semi (l r : List Char) (h : ∀ c ∈ l, c ≠ ';') : stripComment (l ++ ';' :: r) = l := by
  unfold stripComment
  induction l with
  | nil => simp
  | cons a t ih =>
    have ha : (a != ';') = true := by simpa using h a (by simp)
    rw [List.cons_append, List.takeWhile_cons, ha, if_pos rfl, ih (fun c hc => h c (by simp [hc]))]

theorem spaces_noSemi (n : Nat) : ∀ c ∈ spaces n, c ≠ ';' := by
  intro c hc
  simp only [spaces, List.mem_replicate] at hc
  rw [hc.2]; decide

theorem cell_noSemi (c : Cell) (hc : c.ok) : ∀ x ∈ c.chars, x ≠ ';' := by
  intro x hx
  simp only [Cell.chars, List.mem_append] at hx
  rcases hx with (hx | hx) | hx
  · exact spaces_noSemi _ x hx
  · cases ht : c.tok with
    | none => rw [ht] at hx; simp at hx
    | some t => rw [ht] at hx; exact ((hc t ht).2 x hx).2
  · exact spaces_noSemi _ x hx

theorem joinSp_noSemi (cells : List (List Char)) (h : ∀ l ∈ cells, ∀ x ∈ l, x ≠ ';') :
    ∀ x ∈ joinSp cells, x ≠ ';' := by
  induction cells with
  | nil => intro x hx; simp [joinSp] at hx
  | cons a rest ih =>
    cases rest with
    | nil => simpa [joinSp] using h a (by simp)
    | cons b rest' =>
      intro x hx
      simp only [joinSp, List.mem_append, List.mem_cons] at hx
      rcases hx with hx | rfl | hx
      · exact h a (by simp) x hx
      · decide
      · exact ih (fun l hl => h l (by simp [hl])) x (by simpa [joinSp] using hx)

/-- tokens of a line made of cells, with or without a trailing comment -/
theorem tokenize_cells (cells : List Cell) (h : ∀ c ∈ cells, c.ok) :
    tokenizeChars (joinSp (cells.map Cell.chars))
      = cells.flatMap (fun c => (c.tok.map String.ofList).toList) := by
  unfold tokenizeChars
  rw [stripComment_noSemi _ (joinSp_noSemi _ (by
    intro l hl
    simp only [List.mem_map] at hl
    obtain ⟨c, hc, rfl⟩ := hl
    exact cell_noSemi c (h c hc)))]
  exact splitWs_joinSp cells h

theorem joinSp_append_space (cells : List (List Char)) (hne : cells ≠ []) :
    joinSp cells ++ [' '] = joinSp (cells ++ [[]]) := by
  induction cells with
  | nil => exact absurd rfl hne
  | cons a rest ih =>
    cases rest with
    | nil => simp [joinSp]
    | cons b rest' =>
      have := ih (by simp)
      simp only [joinSp, List.cons_append, List.append_assoc] at this ⊢
      rw [this]

theorem tokenize_cells_comment (cells : List Cell) (h : ∀ c ∈ cells, c.ok) (hne : cells ≠ [])
    (txt : List Char) :
    tokenizeChars (joinSp (cells.map Cell.chars) ++ ' ' :: ';' :: txt)
      = cells.flatMap (fun c => (c.tok.map String.ofList).toList) := by
  have e : joinSp (cells.map Cell.chars) ++ ' ' :: ';' :: txt
      = (joinSp (cells.map Cell.chars) ++ [' ']) ++ ';' :: txt := by simp
  have hne' : cells.map Cell.chars ≠ [] := by simpa using hne
  rw [e, joinSp_append_space _ hne']
  have e2 : cells.map Cell.chars ++ [[]] = (cells ++ [(⟨0, none, 0⟩ : Cell)]).map Cell.chars := by
    simp [Cell.chars, spaces]
  rw [e2]
  have hok : ∀ c ∈ cells ++ [(⟨0, none, 0⟩ : Cell)], c.ok := by
    intro c hc
    simp only [List.mem_append, List.mem_singleton] at hc
    rcases hc with hc | rfl
    · exact h c hc
    · intro t ht; cases ht
  unfold tokenizeChars
  rw [stripComment_semi _ _ (joinSp_noSemi _ (by
    intro l hl
    simp only [List.mem_map] at hl
    obtain ⟨c, hc, rfl⟩ := hl
    exact cell_noSemi c (hok c hc)))]
  rw [splitWs_joinSp _ hok]
  simp

end C02
