import VermouthModel.C19
namespace C19
end C19
