import VermouthModel.C19
/-! Helper lemmas for C19 (parser part). Core Lean only. -/
namespace C19

/-! ### splitting -/

theorem splitFirst_append (c : Char) (a b : List Char) (h : c ∉ a) :
    splitFirst c (a ++ c :: b) = some (a, b) := by
  induction a with
  | nil => simp [splitFirst]
  | cons x xs ih =>
    have hx : x ≠ c := fun e => h (by simp [e])
    have hxs : c ∉ xs := fun e => h (by simp [e])
    simp [splitFirst, hx, ih hxs]

theorem splitFirst_none (c : Char) (l : List Char) (h : c ∉ l) : splitFirst c l = none := by
  induction l with
  | nil => rfl
  | cons x xs ih =>
    have hx : x ≠ c := fun e => h (by simp [e])
    have hxs : c ∉ xs := fun e => h (by simp [e])
    simp [splitFirst, hx, ih hxs]

theorem splitFirst_some (c : Char) (l a b : List Char) (h : splitFirst c l = some (a, b)) :
    l = a ++ c :: b ∧ c ∉ a := by
  induction l generalizing a b with
  | nil => simp [splitFirst] at h
  | cons x xs ih =>
    unfold splitFirst at h
    by_cases hx : x = c
    · simp [hx] at h
      obtain ⟨rfl, rfl⟩ := h
      simp [hx]
    · simp only [hx, if_false] at h
      cases hs : splitFirst c xs with
      | none => simp [hs] at h
      | some p =>
        obtain ⟨a', b'⟩ := p
        simp [hs] at h
        obtain ⟨rfl, rfl⟩ := h
        obtain ⟨e, hn⟩ := ih a' b' hs
        refine ⟨by simp [e], ?_⟩
        intro hm
        cases hm with
        | head => exact hx rfl
        | tail _ hm' => exact hn hm'

theorem splitFirst_eq_none (c : Char) (l : List Char) (h : splitFirst c l = none) : c ∉ l := by
  induction l with
  | nil => simp
  | cons x xs ih =>
    unfold splitFirst at h
    by_cases hx : x = c
    · simp [hx] at h
    · simp only [hx, if_false] at h
      cases hs : splitFirst c xs with
      | none =>
        intro hm
        cases hm with
        | head => exact hx rfl
        | tail _ hm' => exact ih hs hm'
      | some p => obtain ⟨a', b'⟩ := p; simp [hs] at h

theorem splitLast_append (c : Char) (a b : List Char) (h : c ∉ b) :
    splitLast c (a ++ c :: b) = some (a, b) := by
  unfold splitLast
  have : (a ++ c :: b).reverse = b.reverse ++ c :: a.reverse := by simp
  rw [this, splitFirst_append c _ _ (by simpa using h)]
  simp

theorem splitLast_none (c : Char) (l : List Char) (h : c ∉ l) : splitLast c l = none := by
  unfold splitLast
  rw [splitFirst_none c _ (by simpa using h)]

theorem splitLast_some (c : Char) (l a b : List Char) (h : splitLast c l = some (a, b)) :
    l = a ++ c :: b ∧ c ∉ b := by
  unfold splitLast at h
  cases hs : splitFirst c l.reverse with
  | none => simp [hs] at h
  | some p =>
    obtain ⟨x, y⟩ := p
    simp [hs] at h
    obtain ⟨rfl, rfl⟩ := h
    obtain ⟨e, hn⟩ := splitFirst_some c _ _ _ hs
    have := congrArg List.reverse e
    simp at this
    exact ⟨this, by simpa using hn⟩

theorem splitLast_eq_none (c : Char) (l : List Char) (h : splitLast c l = none) : c ∉ l := by
  unfold splitLast at h
  cases hs : splitFirst c l.reverse with
  | none => simpa using splitFirst_eq_none c _ hs
  | some p => obtain ⟨x, y⟩ := p; simp [hs] at h

/-! ### digit suffix -/

theorem before_append_suffix (l : List Char) : beforeDigits l ++ digitSuffix l = l := by
  unfold beforeDigits digitSuffix
  rw [← List.reverse_append, List.takeWhile_append_dropWhile, List.reverse_reverse]

theorem mem_takeWhile_imp {α} (p : α → Bool) (l : List α) (x : α) (h : x ∈ l.takeWhile p) : p x = true := by
  induction l with
  | nil => simp at h
  | cons y t ih =>
    rw [List.takeWhile_cons] at h
    by_cases hy : p y = true
    · simp only [hy, if_true, List.mem_cons] at h
      cases h with
      | inl e => exact e ▸ hy
      | inr e => exact ih e
    · simp [hy] at h

theorem digitSuffix_all (l : List Char) : ∀ c ∈ digitSuffix l, isDigit c = true := by
  intro c hc
  unfold digitSuffix at hc
  rw [List.mem_reverse] at hc
  exact mem_takeWhile_imp _ _ _ hc

theorem endsInDigit_beforeDigits (l : List Char) : endsInDigit (beforeDigits l) = false := by
  unfold endsInDigit beforeDigits
  rw [List.reverse_reverse]
  cases h : List.dropWhile isDigit l.reverse with
  | nil => rfl
  | cons c t =>
    simp only
    have := List.head_dropWhile_not isDigit (l := l.reverse) (by rw [h]; simp)
    simp only [h, List.head_cons] at this
    simpa using this

theorem digit_split (n d : List Char) (hd : ∀ c ∈ d, isDigit c = true) (hn : endsInDigit n = false) :
    digitSuffix (n ++ d) = d ∧ beforeDigits (n ++ d) = n := by
  unfold digitSuffix beforeDigits
  have hr : (n ++ d).reverse = d.reverse ++ n.reverse := by simp
  have hd' : ∀ c ∈ d.reverse, isDigit c = true := by simpa using hd
  rw [hr, List.takeWhile_append_of_pos hd', List.dropWhile_append_of_pos hd']
  unfold endsInDigit at hn
  cases hnr : n.reverse with
  | nil =>
    have : n = [] := by simpa using hnr
    simp [this]
  | cons c t =>
    rw [hnr] at hn
    simp only at hn
    have e : n = (c :: t).reverse := by rw [← hnr, List.reverse_reverse]
    simp [List.takeWhile_cons, List.dropWhile_cons, hn, e]

/-! ### digits of a natural number -/

theorem digitChar_spec : ∀ d, d < 10 → isDigit (digitChar d) = true ∧ digitVal (digitChar d) = d := by
  decide

theorem isDigit_ne (c : Char) (h : isDigit c = true) :
    c ≠ '-' ∧ c ≠ '+' ∧ c ≠ '#' ∧ c ≠ '_' ∧ isWs c = false := by
  refine ⟨?_, ?_, ?_, ?_, ?_⟩
  · rintro rfl; revert h; decide
  · rintro rfl; revert h; decide
  · rintro rfl; revert h; decide
  · rintro rfl; revert h; decide
  · unfold isWs
    simp only [Bool.or_eq_false_iff, decide_eq_false_iff_not]
    refine ⟨⟨⟨⟨⟨?_, ?_⟩, ?_⟩, ?_⟩, ?_⟩, ?_⟩ <;> (rintro rfl; revert h; decide)

def digitStep (acc : Nat) (c : Char) : Nat := if isDigit c then acc * 10 + digitVal c else acc

theorem digitsVal_eq (cs : List Char) : digitsVal cs = cs.foldl digitStep 0 := rfl

theorem natDigitsAux_val (fuel n : Nat) (acc : List Char) (h : n < fuel) :
    (natDigitsAux fuel n acc).foldl digitStep 0 = acc.foldl digitStep n := by
  induction fuel generalizing n acc with
  | zero => omega
  | succ f ih =>
    unfold natDigitsAux
    have hd := digitChar_spec (n % 10) (Nat.mod_lt _ (by omega))
    by_cases h10 : n < 10
    · simp only [h10, if_true, List.foldl_cons]
      have : n % 10 = n := Nat.mod_eq_of_lt h10
      rw [this] at hd
      simp only [this, digitStep, hd.1, hd.2, if_true, Nat.zero_mul, Nat.zero_add]
    · simp only [h10, if_false]
      rw [ih (n / 10) _ (by omega)]
      simp only [List.foldl_cons]
      have : n / 10 * 10 + n % 10 = n := by omega
      simp [digitStep, hd.1, hd.2, this]

theorem natDigitsAux_all (fuel n : Nat) (acc : List Char) :
    ∀ c ∈ natDigitsAux fuel n acc, isDigit c = true ∨ c ∈ acc := by
  induction fuel generalizing n acc with
  | zero => intro c hc; exact Or.inr hc
  | succ f ih =>
    intro c hc
    unfold natDigitsAux at hc
    have hd := digitChar_spec (n % 10) (Nat.mod_lt _ (by omega))
    by_cases h10 : n < 10
    · simp only [h10, if_true, List.mem_cons] at hc
      cases hc with
      | inl e => exact Or.inl (e ▸ hd.1)
      | inr e => exact Or.inr e
    · simp only [h10, if_false] at hc
      cases ih _ _ c hc with
      | inl e => exact Or.inl e
      | inr e =>
        simp only [List.mem_cons] at e
        cases e with
        | inl e => exact Or.inl (e ▸ hd.1)
        | inr e => exact Or.inr e

theorem natDigitsAux_len (fuel n : Nat) (acc : List Char) :
    acc.length ≤ (natDigitsAux fuel n acc).length := by
  induction fuel generalizing n acc with
  | zero => simp [natDigitsAux]
  | succ f ih =>
    unfold natDigitsAux
    by_cases h10 : n < 10
    · simp [h10]
    · simp only [h10, if_false]
      have := ih (n / 10) (digitChar (n % 10) :: acc)
      simp only [List.length_cons] at this
      omega

theorem natDigits_val (n : Nat) : digitsVal (natDigits n) = n := by
  rw [digitsVal_eq]; unfold natDigits
  rw [natDigitsAux_val _ _ _ (by omega)]; rfl

theorem natDigits_all (n : Nat) : ∀ c ∈ natDigits n, isDigit c = true := by
  intro c hc
  cases natDigitsAux_all _ _ _ c hc with
  | inl h => exact h
  | inr h => simp at h

theorem natDigits_ne_nil (n : Nat) : natDigits n ≠ [] := by
  unfold natDigits natDigitsAux
  by_cases h10 : n < 10
  · simp [h10]
  · simp only [h10, if_false]
    intro h
    have := natDigitsAux_len n (n / 10) [digitChar (n % 10)]
    rw [h] at this
    simp at this

theorem validRest_digits (l : List Char) (h : ∀ c ∈ l, isDigit c = true) : validRest l = true := by
  induction l with
  | nil => rfl
  | cons c t ih =>
    have hc := h c (by simp)
    have hne := (isDigit_ne c hc).2.2.2.1
    unfold validRest
    simp [hne, hc, ih (fun x hx => h x (by simp [hx]))]

theorem validDigits_digits (l : List Char) (hne : l ≠ []) (h : ∀ c ∈ l, isDigit c = true) :
    validDigits l = true := by
  cases l with
  | nil => exact absurd rfl hne
  | cons c t =>
    unfold validDigits
    simp [h c (by simp), validRest_digits t (fun x hx => h x (by simp [hx]))]

theorem dropWhile_none {α} (p : α → Bool) (l : List α) (h : ∀ x ∈ l, p x = false) : l.dropWhile p = l := by
  cases l with
  | nil => rfl
  | cons x t => simp [List.dropWhile_cons, h x (by simp)]

theorem stripWs_digits (l : List Char) (h : ∀ c ∈ l, isDigit c = true) : stripWs l = l := by
  unfold stripWs
  have hw : ∀ c ∈ l, isWs c = false := fun c hc => (isDigit_ne c (h c hc)).2.2.2.2
  rw [dropWhile_none _ _ hw, dropWhile_none _ _ (by simpa using hw), List.reverse_reverse]

/-- `int` of a non-empty string of ASCII digits is its decimal value. -/
theorem pyInt_digits (l : List Char) (hne : l ≠ []) (h : ∀ c ∈ l, isDigit c = true) :
    pyInt l = some (digitsVal l : Int) := by
  unfold pyInt
  rw [stripWs_digits l h]
  cases l with
  | nil => exact absurd rfl hne
  | cons c t =>
    have hc := isDigit_ne c (h c (by simp))
    simp [hc.1, hc.2.1, validDigits_digits (c :: t) hne h]

theorem pyInt_natDigits (n : Nat) : pyInt (natDigits n) = some (n : Int) := by
  rw [pyInt_digits _ (natDigits_ne_nil n) (natDigits_all n), natDigits_val]

/-! ### parser and formatter -/

theorem assemble_nil (chain : Option Str) (name : Str) :
    assemble chain name [] = .ok { chain := chain, resname := nonEmpty name, resid := none, icode := none } := by
  simp [assemble]

theorem assemble_digits (chain : Option Str) (name ds : Str) (hne : ds ≠ [])
    (h : ∀ c ∈ ds, isDigit c = true) :
    assemble chain name ds =
      .ok { chain := chain, resname := nonEmpty name, resid := some (digitsVal ds : Int), icode := none } := by
  unfold assemble
  have : ds.isEmpty = false := by cases ds with
    | nil => exact absurd rfl hne
    | cons _ _ => rfl
  simp [this, pyInt_digits ds hne h]

/-- the residue part written by `_format_resname` is read back as written -/
theorem parseRes_format (chain : Option Str) (name ds : Str) (hname : '#' ∉ name)
    (hds : ∀ c ∈ ds, isDigit c = true) :
    parseRes chain (name ++ (if endsInDigit name = true then ['#'] else []) ++ ds) = assemble chain name ds := by
  have hds' : '#' ∉ ds := fun hm => (isDigit_ne _ (hds _ hm)).2.2.1 rfl
  unfold parseRes
  by_cases he : endsInDigit name = true
  · have e : name ++ (if endsInDigit name = true then ['#'] else []) ++ ds = name ++ '#' :: ds := by simp [he]
    rw [e, splitLast_append _ _ _ hds']
  · have e : name ++ (if endsInDigit name = true then ['#'] else []) ++ ds = name ++ ds := by simp [he]
    have hno : '#' ∉ name ++ ds := by
      intro hm; rw [List.mem_append] at hm
      cases hm with
      | inl h => exact hname h
      | inr h => exact hds' h
    rw [e, splitLast_none _ _ hno]
    have hs := digit_split name ds hds (by simpa using he)
    simp only [hs.1, hs.2]

/-- general shape of what the parser does with the residue part -/
theorem parseRes_cases (chain : Option Str) (res : Str) :
    (∃ name idstr, res = name ++ '#' :: idstr ∧ '#' ∉ idstr ∧ parseRes chain res = assemble chain name idstr) ∨
    ('#' ∉ res ∧ ∃ name idstr, res = name ++ idstr ∧ (∀ c ∈ idstr, isDigit c = true) ∧
        endsInDigit name = false ∧ parseRes chain res = assemble chain name idstr) := by
  unfold parseRes
  cases hs : splitLast '#' res with
  | some p =>
    obtain ⟨name, idstr⟩ := p
    obtain ⟨e, hn⟩ := splitLast_some _ _ _ _ hs
    exact Or.inl ⟨name, idstr, e, hn, rfl⟩
  | none =>
    refine Or.inr ⟨splitLast_eq_none _ _ hs, beforeDigits res, digitSuffix res,
      (before_append_suffix res).symm, digitSuffix_all res, endsInDigit_beforeDigits res, rfl⟩

end C19
