import VermouthProofs.C18_Render
/-! Helper lemmas for C18, part 12: reading a written parameter file back, line by line. -/
namespace C18

/-- a line that carries data: not blank, not a directive, not a preprocessor line, not a comment -/
def isDataLine (l : List Char) : Bool :=
  match l with
  | [] => false
  | c :: _ => c != '[' && c != '#' && c != ';'

/-- a small reader of a parameter file, independent of the writers: the columns of every data line -/
def readParamFile (lines : List (List Char)) : List (List (List Char)) := (lines.filter isDataLine).map lineTokens

def colHead (t : List Char) : Bool :=
  match t with
  | [] => true
  | c :: _ => c != '[' && c != '#'

/-- a column that can open a data line: a token that does not start with `[` or `#` -/
def ColName (t : List Char) : Prop := TokStr t ∧ colHead t = true
instance (t : List Char) : Decidable (ColName t) := by unfold ColName; exact inferInstance

/-- `lines` are the texts of `items`, none of them failing -/
inductive Texts {α : Type} (data : α → Except WErr (List Char)) : List (Item α) → List (List Char) → Prop where
  | nil : Texts data [] []
  | cons {it : Item α} {l : List Char} {items : List (Item α)} {lines : List (List Char)} :
      it.text data = .ok l → Texts data items lines → Texts data (it :: items) (l :: lines)

theorem renderItems_lines {α : Type} (data : α → Except WErr (List Char)) :
    ∀ items : List (Item α), (renderItems data items).err = none →
      Texts data items (renderItems data items).lines := by
  intro items
  induction items with
  | nil => intro _; exact Texts.nil
  | cons it rest ih =>
    intro h
    unfold renderItems at h ⊢
    cases ht : it.text data with
    | error e => rw [ht] at h; cases h
    | ok l =>
      rw [ht] at h
      exact Texts.cons ht (ih h)

theorem renderItems_err {α : Type} (data : α → Except WErr (List Char)) :
    ∀ items : List (Item α), (∀ it ∈ items, ∃ l, it.text data = .ok l) → (renderItems data items).err = none := by
  intro items
  induction items with
  | nil => intro _; rfl
  | cons it rest ih =>
    intro h
    obtain ⟨l, hl⟩ := h it (by simp)
    unfold renderItems
    rw [hl]
    exact ih (fun x hx => h x (List.mem_cons_of_mem _ hx))

theorem isDataLine_render (toks : List (List Char)) (t : List Char) (ts : List (List Char)) (rest : List Char)
    (e : toks = t :: ts) (h : ColName t) : isDataLine (render toks ++ rest) = true := by
  subst e
  obtain ⟨⟨hne, htok⟩, hhead⟩ := h
  cases t with
  | nil => exact absurd rfl hne
  | cons c r =>
    have hc := htok c (by simp)
    simp only [colHead, Bool.and_eq_true, bne_iff_ne] at hhead
    obtain ⟨h1, h2⟩ := hhead
    simp only [tokChar, Bool.and_eq_true, bne_iff_ne] at hc
    have : ∃ tl, render ((c :: r) :: ts) ++ rest = c :: tl := by
      cases ts with
      | nil => exact ⟨_, rfl⟩
      | cons t' ts' => exact ⟨_, rfl⟩
    obtain ⟨tl, e⟩ := this
    rw [e]
    simp [isDataLine, h1, h2, hc.2]

/-- Reading back what was rendered: if every entry's line is its row of columns (joined by single
blanks, then a blank, then nothing or a `;` comment), the reader returns exactly the rows of the
entries, in the order written. -/
theorem readParamFile_items {α : Type} (data : α → Except WErr (List Char)) (row : α → List (List Char))
    (items : List (Item α)) (lines : List (List Char))
    (h : Texts data items lines)
    (hrow : ∀ a, Item.entry a ∈ items → ∀ l, data a = .ok l →
      ∃ com t ts, l = render (row a) ++ ' ' :: com ∧ (∀ x ∈ row a, TokStr x) ∧ row a = t :: ts ∧ ColName t
        ∧ (com = [] ∨ ∃ r, com = ';' :: r)) :
    readParamFile lines = (items.filterMap Item.entry?).map row := by
  induction h with
  | nil => rfl
  | @cons it l items' lines' hl _ ih =>
    have ih' := ih (fun a ha => hrow a (List.mem_cons_of_mem _ ha))
    unfold readParamFile at ih' ⊢
    cases it with
    | directive name =>
      simp only [Item.text, Except.ok.injEq] at hl
      subst hl
      simp only [List.filterMap_cons, Item.entry?]
      rw [← ih']
      rfl
    | cond flag name =>
      cases flag <;>
      · simp only [Item.text, Except.ok.injEq] at hl
        subst hl
        simp only [List.filterMap_cons, Item.entry?]
        rw [← ih']
        rfl
    | group g =>
      simp only [Item.text, Except.ok.injEq] at hl
      subst hl
      simp only [List.filterMap_cons, Item.entry?]
      rw [← ih']
      rfl
    | entry a =>
      simp only [Item.text] at hl
      obtain ⟨com, t, ts, e, htok, hcons, hcol, hcom⟩ := hrow a (by simp) l hl
      have hd : isDataLine l = true := by rw [e]; exact isDataLine_render _ t ts _ hcons hcol
      have ht : lineTokens l = row a := by
        rw [e]; exact lineTokens_render _ _ htok (by rw [hcons]; simp) hcom
      simp only [List.filterMap_cons, Item.entry?, List.filter_cons, hd, if_true, List.map_cons, ht]
      rw [← ih']

end C18
