import VermouthModel.C17
/-!
C17 helper lemmas, part 5: residues, `annotate_residues_from_sequence`, and the loop of
`AnnotateResidues.run_system`.
-/
namespace C17

/-- number of residues of the selected molecules among the first `i` molecules: where the slice of
molecule `i` starts -/
def offset (sys : Sys) (i : Nat) : Nat := (selLengths (sys.take i)).sum

/-- what `annotate_residues_from_sequence` is meant to do with a sequence of the right length:
every atom gets the element whose index is the position of its residue -/
def annotated (m : Mol) (sequence : List Nat) (off : Nat) : Mol :=
  m.map fun a => { a with val := sequence[off + (residues m).idxOf a.res]? }

/-! ### dedup -/

theorem mem_dedup (l : List Nat) (x : Nat) : x ∈ dedup l ↔ x ∈ l := by
  induction l with
  | nil => simp [dedup]
  | cons y ys ih =>
    simp only [dedup, List.mem_cons, List.mem_filter, ih]
    by_cases h : x = y <;> simp [h]

theorem dedup_nodup (l : List Nat) : (dedup l).Nodup := by
  induction l with
  | nil => simp [dedup]
  | cons y ys ih =>
    simp only [dedup, List.nodup_cons, List.mem_filter]
    refine ⟨by simp, ?_⟩
    exact List.Pairwise.filter _ ih

/-! ### insertRes -/

theorem mem_insertRes (m : Mol) (r y : Nat) (l : List Nat) :
    y ∈ insertRes m r l ↔ y = r ∨ y ∈ l := by
  induction l with
  | nil => simp [insertRes]
  | cons x xs ih =>
    simp only [insertRes]
    split
    · simp
    · simp only [List.mem_cons, ih]
      constructor
      · rintro (h | h | h) <;> simp [h]
      · rintro (h | h | h) <;> simp [h]

theorem nodup_insertRes (m : Mol) (r : Nat) (l : List Nat) (hr : r ∉ l) (hl : l.Nodup) :
    (insertRes m r l).Nodup := by
  induction l with
  | nil => simp [insertRes]
  | cons x xs ih =>
    simp only [insertRes]
    simp only [List.mem_cons, not_or] at hr
    have hx := List.nodup_cons.mp hl
    split
    · exact List.nodup_cons.mpr ⟨by simp [hr.1, hr.2], hl⟩
    · refine List.nodup_cons.mpr ⟨?_, ih hr.2 hx.2⟩
      rw [mem_insertRes]
      intro h
      rcases h with h | h
      · exact hr.1 h.symm
      · exact hx.1 h

theorem sorted_insertRes (m : Mol) (r : Nat) (l : List Nat)
    (hl : l.Pairwise (fun r s => minKey m r ≤ minKey m s)) :
    (insertRes m r l).Pairwise (fun r s => minKey m r ≤ minKey m s) := by
  induction l with
  | nil => simp [insertRes]
  | cons x xs ih =>
    simp only [insertRes]
    have hx := List.pairwise_cons.mp hl
    split
    · rename_i hle
      refine List.pairwise_cons.mpr ⟨?_, hl⟩
      intro y hy
      rcases List.mem_cons.mp hy with h | h
      · subst h; exact hle
      · have := hx.1 y h; omega
    · rename_i hnle
      refine List.pairwise_cons.mpr ⟨?_, ih hx.2⟩
      intro y hy
      rcases (mem_insertRes m r y xs).mp hy with h | h
      · subst h; omega
      · exact hx.1 y h

/-! ### residues -/

theorem foldr_insertRes_mem (m : Mol) (l : List Nat) (y : Nat) :
    y ∈ l.foldr (insertRes m) [] ↔ y ∈ l := by
  induction l with
  | nil => simp
  | cons x xs ih => simp only [List.foldr_cons, mem_insertRes, ih, List.mem_cons]

theorem foldr_insertRes_nodup (m : Mol) (l : List Nat) (hl : l.Nodup) :
    (l.foldr (insertRes m) []).Nodup := by
  induction l with
  | nil => simp
  | cons x xs ih =>
    have hx := List.nodup_cons.mp hl
    simp only [List.foldr_cons]
    exact nodup_insertRes m x _ (by rw [foldr_insertRes_mem]; exact hx.1) (ih hx.2)

theorem foldr_insertRes_sorted (m : Mol) (l : List Nat) :
    (l.foldr (insertRes m) []).Pairwise (fun r s => minKey m r ≤ minKey m s) := by
  induction l with
  | nil => simp
  | cons x xs ih =>
    simp only [List.foldr_cons]
    exact sorted_insertRes m x _ ih

theorem mem_residues (m : Mol) (r : Nat) : r ∈ residues m ↔ ∃ a ∈ m, a.res = r := by
  unfold residues resIds
  rw [foldr_insertRes_mem, mem_dedup]
  simp

theorem nodup_residues (m : Mol) : (residues m).Nodup :=
  foldr_insertRes_nodup m _ (dedup_nodup _)

theorem sorted_residues (m : Mol) :
    (residues m).Pairwise (fun r s => minKey m r ≤ minKey m s) :=
  foldr_insertRes_sorted m _

/-! ### minKey -/

theorem foldl_min_le (ks : List Int) (k : Int) :
    ks.foldl min k ≤ k ∧ ∀ x ∈ ks, ks.foldl min k ≤ x := by
  induction ks generalizing k with
  | nil => simp
  | cons y ys ih =>
    simp only [List.foldl_cons]
    have := ih (min k y)
    refine ⟨by omega, ?_⟩
    intro x hx
    rcases List.mem_cons.mp hx with h | h
    · subst h; omega
    · exact this.2 x h

theorem foldl_min_mem (ks : List Int) (k : Int) :
    ks.foldl min k = k ∨ ks.foldl min k ∈ ks := by
  induction ks generalizing k with
  | nil => simp
  | cons y ys ih =>
    simp only [List.foldl_cons, List.mem_cons]
    rcases ih (min k y) with h | h
    · rw [h]
      rcases Int.le_total k y with h' | h'
      · left; omega
      · right; left; omega
    · right; right; exact h

theorem minKey_le_key (m : Mol) (a : Atom) (h : a ∈ m) : minKey m a.res ≤ a.key := by
  have hk : a.key ∈ keysOf m a.res := by
    unfold keysOf
    simp only [List.mem_map, List.mem_filter]
    exact ⟨a, ⟨h, by simp⟩, rfl⟩
  unfold minKey
  split
  · rename_i heq; rw [heq] at hk; simp at hk
  · rename_i k ks heq
    rw [heq] at hk
    have := foldl_min_le ks k
    rcases List.mem_cons.mp hk with h | h
    · rw [h]; exact this.1
    · exact this.2 _ h

theorem minKey_mem_keysOf (m : Mol) (r : Nat) (h : ∃ a ∈ m, a.res = r) :
    minKey m r ∈ keysOf m r := by
  obtain ⟨a, ha, har⟩ := h
  have hk : a.key ∈ keysOf m r := by
    unfold keysOf
    simp only [List.mem_map, List.mem_filter]
    exact ⟨a, ⟨ha, by simp [har]⟩, rfl⟩
  unfold minKey
  split
  · rename_i heq; rw [heq] at hk; simp at hk
  · rename_i k ks heq
    rw [heq]
    rcases foldl_min_mem ks k with h | h
    · rw [h]; simp
    · exact List.mem_cons_of_mem _ h

theorem minKey_attained' (m : Mol) (r : Nat) (h : ∃ a ∈ m, a.res = r) :
    ∃ a ∈ m, a.res = r ∧ a.key = minKey m r := by
  have := minKey_mem_keysOf m r h
  unfold keysOf at this
  simp only [List.mem_map, List.mem_filter] at this
  obtain ⟨a, ⟨ha, har⟩, hk⟩ := this
  exact ⟨a, ha, by simpa using har, hk⟩

end C17
