import VermouthModel.C17
/-!
C17 helper lemmas, part 5: residues, `annotate_residues_from_sequence`, and the loop of
`AnnotateResidues.run_system`.
-/
namespace C17

/-- number of residues of the selected molecules among the first `i` molecules: where the slice of
molecule `i` starts -/
def offset (sys : Sys) (i : Nat) : Nat := (selLengths (sys.take i)).sum

/-- what `annotate_residues_from_sequence` is meant to do with a sequence of the right length:
every atom gets the element whose index is the position of its residue -/
def annotated (m : Mol) (sequence : List Nat) (off : Nat) : Mol :=
  m.map fun a => { a with val := sequence[off + (residues m).idxOf a.res]? }

/-! ### dedup -/

theorem mem_dedup (l : List Nat) (x : Nat) : x ∈ dedup l ↔ x ∈ l := by
  induction l with
  | nil => simp [dedup]
  | cons y ys ih =>
    simp only [dedup, List.mem_cons, List.mem_filter, ih]
    by_cases h : x = y <;> simp [h]

theorem dedup_nodup (l : List Nat) : (dedup l).Nodup := by
  induction l with
  | nil => simp [dedup]
  | cons y ys ih =>
    simp only [dedup, List.nodup_cons, List.mem_filter]
    refine ⟨by simp, ?_⟩
    exact List.Pairwise.filter _ ih

/-! ### insertRes -/

theorem mem_insertRes (m : Mol) (r y : Nat) (l : List Nat) :
    y ∈ insertRes m r l ↔ y = r ∨ y ∈ l := by
  induction l with
  | nil => simp [insertRes]
  | cons x xs ih =>
    simp only [insertRes]
    split
    · simp
    · simp only [List.mem_cons, ih]
      constructor
      · rintro (h | h | h) <;> simp [h]
      · rintro (h | h | h) <;> simp [h]

theorem nodup_insertRes (m : Mol) (r : Nat) (l : List Nat) (hr : r ∉ l) (hl : l.Nodup) :
    (insertRes m r l).Nodup := by
  induction l with
  | nil => simp [insertRes]
  | cons x xs ih =>
    simp only [insertRes]
    simp only [List.mem_cons, not_or] at hr
    have hx := List.nodup_cons.mp hl
    split
    · exact List.nodup_cons.mpr ⟨by simp [hr.1, hr.2], hl⟩
    · refine List.nodup_cons.mpr ⟨?_, ih hr.2 hx.2⟩
      rw [mem_insertRes]
      intro h
      rcases h with h | h
      · exact hr.1 h.symm
      · exact hx.1 h

theorem sorted_insertRes (m : Mol) (r : Nat) (l : List Nat)
    (hl : l.Pairwise (fun r s => minKey m r ≤ minKey m s)) :
    (insertRes m r l).Pairwise (fun r s => minKey m r ≤ minKey m s) := by
  induction l with
  | nil => simp [insertRes]
  | cons x xs ih =>
    simp only [insertRes]
    have hx := List.pairwise_cons.mp hl
    split
    · rename_i hle
      refine List.pairwise_cons.mpr ⟨?_, hl⟩
      intro y hy
      rcases List.mem_cons.mp hy with h | h
      · subst h; exact hle
      · have := hx.1 y h; omega
    · rename_i hnle
      refine List.pairwise_cons.mpr ⟨?_, ih hx.2⟩
      intro y hy
      rcases (mem_insertRes m r y xs).mp hy with h | h
      · subst h; omega
      · exact hx.1 y h

/-! ### residues -/

theorem foldr_insertRes_mem (m : Mol) (l : List Nat) (y : Nat) :
    y ∈ l.foldr (insertRes m) [] ↔ y ∈ l := by
  induction l with
  | nil => simp
  | cons x xs ih => simp only [List.foldr_cons, mem_insertRes, ih, List.mem_cons]

theorem foldr_insertRes_nodup (m : Mol) (l : List Nat) (hl : l.Nodup) :
    (l.foldr (insertRes m) []).Nodup := by
  induction l with
  | nil => simp
  | cons x xs ih =>
    have hx := List.nodup_cons.mp hl
    simp only [List.foldr_cons]
    exact nodup_insertRes m x _ (by rw [foldr_insertRes_mem]; exact hx.1) (ih hx.2)

theorem foldr_insertRes_sorted (m : Mol) (l : List Nat) :
    (l.foldr (insertRes m) []).Pairwise (fun r s => minKey m r ≤ minKey m s) := by
  induction l with
  | nil => simp
  | cons x xs ih =>
    simp only [List.foldr_cons]
    exact sorted_insertRes m x _ ih

theorem mem_residues (m : Mol) (r : Nat) : r ∈ residues m ↔ ∃ a ∈ m, a.res = r := by
  unfold residues resIds
  rw [foldr_insertRes_mem, mem_dedup]
  simp

theorem nodup_residues (m : Mol) : (residues m).Nodup :=
  foldr_insertRes_nodup m _ (dedup_nodup _)

theorem sorted_residues (m : Mol) :
    (residues m).Pairwise (fun r s => minKey m r ≤ minKey m s) :=
  foldr_insertRes_sorted m _

/-! ### minKey -/

theorem foldl_min_le (ks : List Int) (k : Int) :
    ks.foldl min k ≤ k ∧ ∀ x ∈ ks, ks.foldl min k ≤ x := by
  induction ks generalizing k with
  | nil => simp
  | cons y ys ih =>
    simp only [List.foldl_cons]
    have := ih (min k y)
    refine ⟨by omega, ?_⟩
    intro x hx
    rcases List.mem_cons.mp hx with h | h
    · subst h; omega
    · exact this.2 x h

theorem foldl_min_mem (ks : List Int) (k : Int) :
    ks.foldl min k = k ∨ ks.foldl min k ∈ ks := by
  induction ks generalizing k with
  | nil => simp
  | cons y ys ih =>
    simp only [List.foldl_cons, List.mem_cons]
    rcases ih (min k y) with h | h
    · rw [h]
      rcases Int.le_total k y with h' | h'
      · left; omega
      · right; left; omega
    · right; right; exact h

theorem minKey_le_key (m : Mol) (a : Atom) (h : a ∈ m) : minKey m a.res ≤ a.key := by
  have hk : a.key ∈ keysOf m a.res := by
    unfold keysOf
    simp only [List.mem_map, List.mem_filter]
    exact ⟨a, ⟨h, by simp⟩, rfl⟩
  unfold minKey
  split
  · rename_i heq; rw [heq] at hk; simp at hk
  · rename_i k ks heq
    rw [heq] at hk
    have := foldl_min_le ks k
    rcases List.mem_cons.mp hk with h | h
    · rw [h]; exact this.1
    · exact this.2 _ h

theorem minKey_mem_keysOf (m : Mol) (r : Nat) (h : ∃ a ∈ m, a.res = r) :
    minKey m r ∈ keysOf m r := by
  obtain ⟨a, ha, har⟩ := h
  have hk : a.key ∈ keysOf m r := by
    unfold keysOf
    simp only [List.mem_map, List.mem_filter]
    exact ⟨a, ⟨ha, by simp [har]⟩, rfl⟩
  unfold minKey
  split
  · rename_i heq; rw [heq] at hk; simp at hk
  · rename_i k ks heq
    rw [heq]
    rcases foldl_min_mem ks k with h | h
    · rw [h]; simp
    · exact List.mem_cons_of_mem _ h

theorem minKey_attained' (m : Mol) (r : Nat) (h : ∃ a ∈ m, a.res = r) :
    ∃ a ∈ m, a.res = r ∧ a.key = minKey m r := by
  have := minKey_mem_keysOf m r h
  unfold keysOf at this
  simp only [List.mem_map, List.mem_filter] at this
  obtain ⟨a, ⟨ha, har⟩, hk⟩ := this
  exact ⟨a, ha, by simpa using har, hk⟩

/-! ### repeatSeq, allEqual, reconcile -/

theorem repeatSeq_length (s : List Nat) (n : Nat) : (repeatSeq s n).length = n * s.length := by
  induction n with
  | zero => simp [repeatSeq]
  | succ n ih =>
    unfold repeatSeq at ih ⊢
    rw [List.replicate_succ, List.flatten_cons, List.length_append, ih, Nat.succ_mul]; omega

theorem repeatSeq_one (s : List Nat) : repeatSeq s 1 = s := by
  simp [repeatSeq]

theorem repeatSeq_singleton (v n : Nat) : repeatSeq [v] n = List.replicate n v := by
  induction n with
  | zero => simp [repeatSeq]
  | succ n ih =>
    unfold repeatSeq at ih ⊢
    rw [List.replicate_succ, List.flatten_cons, ih, List.replicate_succ]; rfl

theorem repeatSeq_getElem? (s : List Nat) (n j k : Nat) (hj : j < n) (hk : k < s.length) :
    (repeatSeq s n)[j * s.length + k]? = s[k]? := by
  induction n generalizing j with
  | zero => omega
  | succ n ih =>
    have hs : repeatSeq s (n + 1) = s ++ repeatSeq s n := by
      unfold repeatSeq; rw [List.replicate_succ, List.flatten_cons]
    rw [hs]
    cases j with
    | zero => simp only [Nat.zero_mul, Nat.zero_add]; rw [List.getElem?_append_left hk]
    | succ j =>
      rw [List.getElem?_append_right (by rw [Nat.succ_mul]; omega)]
      have : (j + 1) * s.length + k - s.length = j * s.length + k := by
        rw [Nat.succ_mul]; omega
      rw [this]
      exact ih j (by omega)

theorem allEqual_forall (L : List Nat) (h : allEqual L = true) : ∀ x ∈ L, x = L.headD 0 := by
  cases L with
  | nil => simp
  | cons y ys =>
    simp only [allEqual, List.all_eq_true, beq_iff_eq] at h
    intro x hx
    rcases List.mem_cons.mp hx with h' | h'
    · simp [h']
    · simpa using h x h'

theorem sum_of_forall_eq (L : List Nat) (c : Nat) (h : ∀ x ∈ L, x = c) : L.sum = L.length * c := by
  induction L with
  | nil => simp
  | cons y ys ih =>
    rw [List.sum_cons, List.length_cons, ih (fun x hx => h x (List.mem_cons_of_mem _ hx)),
      h y (List.mem_cons_self ..), Nat.succ_mul]; omega

theorem allEqual_sum (L : List Nat) (h : allEqual L = true) : L.sum = L.length * L.headD 0 :=
  sum_of_forall_eq L _ (allEqual_forall L h)

theorem reconcile_length' (L seq sequence : List Nat) (h : reconcile L seq = .ok sequence) :
    sequence.length = L.sum := by
  unfold reconcile at h
  split at h
  · cases h
  · split at h
    · rename_i h2
      simp only [Bool.and_eq_true, beq_iff_eq] at h2
      injection h with h; subst h
      rw [repeatSeq_length, allEqual_sum L h2.2, h2.1.2]
    · split at h
      · rename_i h3
        simp only [beq_iff_eq] at h3
        injection h with h; subst h
        rw [repeatSeq_length, h3]; omega
      · split at h
        · cases h
        · rename_i h4
          injection h with h; subst h
          simpa using h4

theorem reconcile_exact' (L seq : List Nat) (h1 : seq.length = L.sum) (h2 : seq.length ≠ 1)
    (h3 : ¬ (L ≠ [] ∧ allEqual L = true ∧ seq.length = L.headD 0)) :
    reconcile L seq = .ok seq := by
  unfold reconcile
  have c1 : (!seq.isEmpty && L.isEmpty) = false := by
    cases L with
    | nil => simp at h1; simp [h1]
    | cons => simp
  have c2 : (!L.isEmpty && seq.length == L.headD 0 && allEqual L) = false := by
    cases hL : L with
    | nil => simp
    | cons y ys =>
      rw [hL] at h3
      simp only [ne_eq, reduceCtorEq, not_false_eq_true, true_and, not_and] at h3
      cases hE : allEqual (y :: ys) with
      | false => simp
      | true => have : ¬ seq.length = y := h3 hE; simp [this]
  have c3 : (seq.length == 1) = false := by simp [h2]
  have c4 : (seq.length != L.sum) = false := by simp [h1]
  simp only [c1, c2, c3, c4, Bool.false_eq_true, ↓reduceIte]

theorem reconcile_mismatch' (L seq : List Nat) (h1 : seq.length ≠ L.sum) (h2 : seq.length ≠ 1)
    (h3 : ¬ (L ≠ [] ∧ allEqual L = true ∧ seq.length = L.headD 0)) :
    reconcile L seq = .error .valueerror := by
  unfold reconcile
  have c2 : (!L.isEmpty && seq.length == L.headD 0 && allEqual L) = false := by
    cases hL : L with
    | nil => simp
    | cons y ys =>
      rw [hL] at h3
      simp only [ne_eq, reduceCtorEq, not_false_eq_true, true_and, not_and] at h3
      cases hE : allEqual (y :: ys) with
      | false => simp
      | true => have : ¬ seq.length = y := h3 hE; simp [this]
  have c3 : (seq.length == 1) = false := by simp [h2]
  have c4 : (seq.length != L.sum) = true := by simp [h1]
  split
  · rfl
  · simp only [c2, c3, Bool.false_eq_true, ↓reduceIte]

theorem reconcile_one' (L : List Nat) (v : Nat) (h : L ≠ []) :
    reconcile L [v] = .ok (List.replicate L.sum v) := by
  unfold reconcile
  have c1 : (![v].isEmpty && L.isEmpty) = false := by
    cases L with
    | nil => exact absurd rfl h
    | cons => simp
  simp only [c1, Bool.false_eq_true, if_false]
  split
  · rename_i h2
    simp only [Bool.and_eq_true, beq_iff_eq] at h2
    rw [repeatSeq_singleton, allEqual_sum L h2.2, ← h2.1.2]; simp
  · simp [repeatSeq_singleton]

theorem reconcile_per_molecule' (L seq : List Nat) (h1 : L ≠ []) (h2 : allEqual L = true)
    (h3 : seq.length = L.headD 0) :
    reconcile L seq = .ok (repeatSeq seq L.length) ∧
      ∀ j k, j < L.length → k < seq.length → (repeatSeq seq L.length)[j * seq.length + k]? = seq[k]? := by
  refine ⟨?_, fun j k hj hk => repeatSeq_getElem? seq L.length j k hj hk⟩
  unfold reconcile
  have c1 : (!seq.isEmpty && L.isEmpty) = false := by
    cases L with
    | nil => exact absurd rfl h1
    | cons => simp
  have c2 : (!L.isEmpty && seq.length == L.headD 0 && allEqual L) = true := by
    cases L with
    | nil => exact absurd rfl h1
    | cons y ys => simp [h2, h3]
  simp only [c1, c2, Bool.false_eq_true, ↓reduceIte]

theorem reconcile_nothing_selected' (seq : List Nat) (h : seq ≠ []) : reconcile [] seq = .error .valueerror := by
  unfold reconcile
  cases seq with
  | nil => exact absurd rfl h
  | cons => simp

/-! ### assign, annotateMol, slice -/

/-- per-atom effect of the assignment loop -/
def upd (a : Atom) (pairs : List (Nat × Nat)) : Atom :=
  pairs.foldl (fun a p => if a.res = p.1 then { a with val := some p.2 } else a) a

theorem assign_eq_map (m : Mol) (pairs : List (Nat × Nat)) :
    assign m pairs = m.map fun a => upd a pairs := by
  induction pairs generalizing m with
  | nil => simp [assign, upd]
  | cons p ps ih =>
    have : assign m (p :: ps) = assign (setRes p.1 p.2 m) ps := rfl
    rw [this, ih, setRes, List.map_map]
    apply List.map_congr_left
    intro a _
    rfl

theorem upd_zip (rs vs : List Nat) (a : Atom) (hn : rs.Nodup) (hl : vs.length = rs.length) :
    upd a (rs.zip vs) = if a.res ∈ rs then { a with val := vs[rs.idxOf a.res]? } else a := by
  induction rs generalizing vs a with
  | nil => simp [upd]
  | cons r rs ih =>
    cases vs with
    | nil => simp at hl
    | cons v vs =>
      have hn' := List.nodup_cons.mp hn
      have hl' : vs.length = rs.length := by simpa using hl
      have hstep : upd a ((r :: rs).zip (v :: vs)) =
          upd (if a.res = r then { a with val := some v } else a) (rs.zip vs) := rfl
      rw [hstep, ih vs _ hn'.2 hl']
      by_cases h : a.res = r
      · have : r ∉ rs := hn'.1
        simp [h, this]
      · have h' : ¬ r = a.res := fun e => h e.symm
        have hb : (r == a.res) = false := by simp [h']
        simp [h, List.idxOf_cons, hb]

theorem annotateMol_exact (m : Mol) (s : List Nat) (hs : s.length = (residues m).length) :
    annotateMol m s = .ok (m.map fun a => { a with val := s[(residues m).idxOf a.res]? }) := by
  have key : assign m ((residues m).zip s)
      = m.map fun a => { a with val := s[(residues m).idxOf a.res]? } := by
    rw [assign_eq_map]
    apply List.map_congr_left
    intro a ha
    rw [upd_zip _ _ _ (nodup_residues m) hs]
    have : a.res ∈ residues m := (mem_residues m a.res).mpr ⟨a, ha, rfl⟩
    simp [this]
  unfold annotateMol
  simp only
  split
  · rename_i h1
    rw [← hs, h1, repeatSeq_one, key]
  · rw [if_neg (by simpa using hs), key]

theorem slice_length (seq : List Nat) (b n : Nat) (h : b + n ≤ seq.length) :
    (slice seq b (b + n)).length = n := by
  unfold slice
  simp only [List.length_take, List.length_drop]; omega

theorem slice_getElem? (seq : List Nat) (b n k : Nat) (hk : k < n) :
    (slice seq b (b + n))[k]? = seq[b + k]? := by
  unfold slice
  rw [List.getElem?_take, if_pos (by omega), List.getElem?_drop]

theorem annotateMol_slice (m : Mol) (seq : List Nat) (b : Nat)
    (h : b + (residues m).length ≤ seq.length) :
    annotateMol m (slice seq b (b + (residues m).length)) = .ok (annotated m seq b) := by
  rw [annotateMol_exact m _ (slice_length seq b _ h)]
  unfold annotated
  congr 1
  apply List.map_congr_left
  intro a ha
  have : a.res ∈ residues m := (mem_residues m a.res).mpr ⟨a, ha, rfl⟩
  rw [slice_getElem? seq b _ _ (List.idxOf_lt_length_iff.mpr this)]

/-! ### the loop -/

/-- the intended effect of the loop on a system, starting at sequence position `b` -/
def walk (sequence : List Nat) : Nat → Sys → Sys
  | _, [] => []
  | b, (false, m) :: rest => (false, m) :: walk sequence b rest
  | b, (true, m) :: rest =>
      (true, annotated m sequence b) :: walk sequence (b + (residues m).length) rest

/-- the `(index, residue count)` pairs the loop iterates over, with indices shifted by `k` -/
def pairsFrom : Nat → Sys → List (Nat × Nat)
  | _, [] => []
  | k, (false, _) :: rest => pairsFrom (k + 1) rest
  | k, (true, m) :: rest => (k, (residues m).length) :: pairsFrom (k + 1) rest

theorem selectedIdx_cons (p : Bool × Mol) (rest : Sys) :
    selectedIdx (p :: rest) =
      if p.1 then 0 :: (selectedIdx rest).map (· + 1) else (selectedIdx rest).map (· + 1) := by
  unfold selectedIdx
  rw [List.length_cons, List.range_succ_eq_map, List.filter_cons, List.filter_map]
  have : ((fun i => (Option.map (fun x => x.fst) (p :: rest)[i]?).getD false) ∘ Nat.succ)
      = fun i => (Option.map (fun x => x.fst) rest[i]?).getD false := by
    funext i; simp
  rw [this]
  simp

theorem selLengths_cons (p : Bool × Mol) (rest : Sys) :
    selLengths (p :: rest) =
      if p.1 then (residues p.2).length :: selLengths rest else selLengths rest := by
  unfold selLengths
  rw [List.filter_cons]
  split <;> simp

theorem zip_eq_pairsFrom (sys : Sys) (k : Nat) :
    ((selectedIdx sys).map (· + k)).zip (selLengths sys) = pairsFrom k sys := by
  induction sys generalizing k with
  | nil => simp [selectedIdx, selLengths, pairsFrom]
  | cons p rest ih =>
    obtain ⟨sel, m⟩ := p
    rw [selectedIdx_cons, selLengths_cons]
    cases sel with
    | false =>
      simp only [Bool.false_eq_true, if_false, pairsFrom, List.map_map]
      rw [← ih (k + 1)]
      congr 2
      funext i; simp; omega
    | true =>
      simp only [if_true, pairsFrom, List.map_cons, List.zip_cons_cons, List.map_map, Nat.zero_add]
      rw [← ih (k + 1)]
      congr 3
      funext i; simp; omega

theorem loopStep_error (sequence : List Nat) (e : Err) (ps : List (Nat × Nat)) :
    ps.foldl (loopStep sequence) (.error e) = .error e := by
  induction ps with
  | nil => rfl
  | cons p ps ih => simpa [List.foldl_cons, loopStep] using ih

theorem loopStep_selected (sequence : List Nat) (b : Nat) (pre rest : Sys) (m : Mol)
    (h : b + (residues m).length ≤ sequence.length) :
    loopStep sequence (.ok { b := b, e := b, sys := pre ++ (true, m) :: rest })
        (pre.length, (residues m).length)
      = .ok { b := b + (residues m).length, e := b + (residues m).length,
              sys := (pre ++ [(true, annotated m sequence b)]) ++ rest } := by
  unfold loopStep
  simp only [List.getElem?_append_right (Nat.le_refl _), Nat.sub_self, List.getElem?_cons_zero,
    annotateMol_slice m sequence b h]
  simp

theorem fold_eq_walk (sequence : List Nat) (suf pre : Sys) (b : Nat)
    (h : b + (selLengths suf).sum ≤ sequence.length) :
    (pairsFrom pre.length suf).foldl (loopStep sequence) (.ok { b := b, e := b, sys := pre ++ suf })
      = .ok { b := b + (selLengths suf).sum, e := b + (selLengths suf).sum,
              sys := pre ++ walk sequence b suf } := by
  induction suf generalizing pre b with
  | nil => simp [pairsFrom, selLengths, walk]
  | cons p rest ih =>
    obtain ⟨sel, m⟩ := p
    rw [selLengths_cons] at h ⊢
    cases sel with
    | false =>
      simp only [Bool.false_eq_true, if_false] at h ⊢
      simp only [pairsFrom, walk]
      have := ih (pre ++ [(false, m)]) b h
      simpa using this
    | true =>
      simp only [if_true, List.sum_cons] at h ⊢
      simp only [pairsFrom, walk, List.foldl_cons]
      rw [loopStep_selected sequence b pre rest m (by omega)]
      have := ih (pre ++ [(true, annotated m sequence b)]) (b + (residues m).length) (by omega)
      simp only [List.length_append, List.length_cons, List.length_nil, Nat.zero_add] at this
      rw [this]
      simp [Nat.add_assoc]

theorem annotateSystem_eq_walk (sys : Sys) (seq sequence : List Nat)
    (h : reconcile (selLengths sys) seq = .ok sequence) :
    annotateSystem sys seq = .ok (walk sequence 0 sys) := by
  have hlen := reconcile_length' _ _ _ h
  have hz := zip_eq_pairsFrom sys 0
  simp only [Nat.add_zero, List.map_id'] at hz
  have hf := fold_eq_walk sequence sys [] 0 (by omega)
  simp only [List.length_nil, List.nil_append, Nat.zero_add] at hf
  unfold annotateSystem
  simp only [h, hz, hf]

theorem annotateSystem_error (sys : Sys) (seq : List Nat) (e : Err)
    (h : reconcile (selLengths sys) seq = .error e) :
    annotateSystem sys seq = .error e := by
  unfold annotateSystem
  simp only [h]

theorem annotateSystem_ok_reconcile (sys sys' : Sys) (seq : List Nat)
    (h : annotateSystem sys seq = .ok sys') :
    ∃ sequence, reconcile (selLengths sys) seq = .ok sequence := by
  cases hr : reconcile (selLengths sys) seq with
  | error e => rw [annotateSystem_error sys seq e hr] at h; cases h
  | ok sequence => exact ⟨sequence, rfl⟩

theorem walk_length (sequence : List Nat) (b : Nat) (sys : Sys) :
    (walk sequence b sys).length = sys.length := by
  induction sys generalizing b with
  | nil => rfl
  | cons p rest ih =>
    obtain ⟨sel, m⟩ := p
    cases sel <;> simp [walk, ih]

theorem walk_unselected (sequence : List Nat) (b : Nat) (sys : Sys) (i : Nat) (m : Mol)
    (h : sys[i]? = some (false, m)) : (walk sequence b sys)[i]? = some (false, m) := by
  induction sys generalizing b i with
  | nil => simp at h
  | cons p rest ih =>
    obtain ⟨sel, m'⟩ := p
    cases i with
    | zero =>
      simp only [List.getElem?_cons_zero, Option.some.injEq, Prod.mk.injEq] at h
      obtain ⟨rfl, rfl⟩ := h
      simp [walk]
    | succ i =>
      simp only [List.getElem?_cons_succ] at h
      cases sel <;> simp only [walk, List.getElem?_cons_succ] <;> exact ih _ i h

theorem offset_zero (sys : Sys) : offset sys 0 = 0 := by
  simp [offset, selLengths]

theorem offset_succ (p : Bool × Mol) (rest : Sys) (i : Nat) :
    offset (p :: rest) (i + 1) = (if p.1 then (residues p.2).length else 0) + offset rest i := by
  unfold offset
  rw [List.take_succ_cons, selLengths_cons]
  split <;> simp

theorem walk_selected (sequence : List Nat) (b : Nat) (sys : Sys) (i : Nat) (m : Mol)
    (h : sys[i]? = some (true, m)) :
    (walk sequence b sys)[i]? = some (true, annotated m sequence (b + offset sys i)) := by
  induction sys generalizing b i with
  | nil => simp at h
  | cons p rest ih =>
    obtain ⟨sel, m'⟩ := p
    cases i with
    | zero =>
      simp only [List.getElem?_cons_zero, Option.some.injEq, Prod.mk.injEq] at h
      obtain ⟨rfl, rfl⟩ := h
      simp [walk, offset_zero]
    | succ i =>
      simp only [List.getElem?_cons_succ] at h
      rw [offset_succ]
      cases sel
      · simp only [walk, List.getElem?_cons_succ, Bool.false_eq_true, if_false, Nat.zero_add]
        exact ih _ i h
      · simp only [walk, List.getElem?_cons_succ, if_true]
        rw [ih _ i h, Nat.add_assoc]

theorem offset_bound (sys : Sys) (i : Nat) (m : Mol) (h : sys[i]? = some (true, m)) :
    offset sys i + (residues m).length ≤ (selLengths sys).sum := by
  induction sys generalizing i with
  | nil => simp at h
  | cons p rest ih =>
    obtain ⟨sel, m'⟩ := p
    cases i with
    | zero =>
      simp only [List.getElem?_cons_zero, Option.some.injEq, Prod.mk.injEq] at h
      obtain ⟨rfl, rfl⟩ := h
      rw [offset_zero, selLengths_cons]; simp
    | succ i =>
      simp only [List.getElem?_cons_succ] at h
      have := ih i h
      rw [offset_succ, selLengths_cons]
      cases sel
      · simp only [Bool.false_eq_true, if_false]; omega
      · simp only [if_true, List.sum_cons]; omega

end C17
