import VermouthProofs.C18_Fold
import VermouthProofs.C18_Graph
import VermouthProofs.C18_Residues
/-! Helper lemmas for C18, part 4: what `classify` decides for one line of the contact map. -/
namespace C18

def Contact.swap (c : Contact) : Contact :=
  { residA := c.residB, chainA := c.chainB, residB := c.residA, chainB := c.chainA }

def Cand.swap (x : Cand) : Cand :=
  { ta := x.tb, tb := x.ta, d2 := x.d2, bbA := x.bbB, bbB := x.bbA }

theorem Cand.swap_triple (x : Cand) : x.swap.triple = swapT x.triple := rfl
theorem Contact.swap_swap (c : Contact) : c.swap.swap = c := rfl
theorem Cand.swap_swap (x : Cand) : x.swap.swap = x := rfl

/-- declarative reading of `classify P rs E c = .cand x` -/
def Eligible (P : Params) (rs : List Residue) (E : List (Nat × Nat)) (c : Contact) (x : Cand) : Prop :=
  ∃ (ia ib : Nat) (ra rb : Residue) (a b : Atom),
    findRes rs c.chainA c.residA = some ia ∧ findRes rs c.chainB c.residB = some ib ∧
    ¬ Within E P.sep.toNat ia ib ∧
    rs[ia]? = some ra ∧ rs[ib]? = some rb ∧
    firstBB ra P.backbone = some a ∧ firstBB rb P.backbone = some b ∧
    P.low.below (dist2 a.pos b.pos) = true ∧ P.up.above (dist2 a.pos b.pos) = true ∧
    firstType ra P.pre c.chainA c.residA = some x.ta ∧ firstType rb P.pre c.chainB c.residB = some x.tb ∧
    x.d2 = dist2 a.pos b.pos ∧ x.bbA = a.key ∧ x.bbB = b.key

theorem classify_cand_iff (P : Params) (rs : List Residue) (E : List (Nat × Nat)) (c : Contact) (x : Cand) :
    classify P rs E c = .cand x ↔ Eligible P rs E c x := by
  constructor
  · intro h
    unfold classify at h
    split at h
    · rename_i ia ib hia hib
      split at h
      · cases h
      · rename_i hball
        split at h
        · rename_i ra rb hra hrb
          split at h
          · rename_i a b ha hb
            simp only [] at h
            split at h
            · rename_i hwin
              split at h
              · rename_i ta tb hta htb
                simp only [Verdict.cand.injEq] at h
                subst h
                simp only [Bool.and_eq_true] at hwin
                refine ⟨ia, ib, ra, rb, a, b, hia, hib, ?_, hra, hrb, ha, hb, hwin.1, hwin.2, hta, htb, rfl, rfl, rfl⟩
                intro hw
                apply hball
                simp only [List.contains_eq_mem, decide_eq_true_eq]
                exact (mem_ball E ia _ ib).mpr hw
              · cases h
            · cases h
          · cases h
        · cases h
    · cases h
  · rintro ⟨ia, ib, ra, rb, a, b, hia, hib, hw, hra, hrb, ha, hb, hlow, hup, hta, htb, hd, hka, hkb⟩
    unfold classify
    have hball : (ball E ia P.sep.toNat).contains ib = false := by
      rw [Bool.eq_false_iff]
      intro hc
      simp only [List.contains_eq_mem, decide_eq_true_eq] at hc
      exact hw ((mem_ball E ia _ ib).mp hc)
    simp only [hia, hib, hball, hra, hrb, ha, hb, hlow, hup, hta, htb, Bool.false_eq_true, if_false,
      Bool.and_self, if_true, Verdict.cand.injEq]
    cases x
    simp_all

theorem eligible_unique {P : Params} {rs : List Residue} {E : List (Nat × Nat)} {c : Contact} {x x' : Cand}
    (h : Eligible P rs E c x) (h' : Eligible P rs E c x') : x = x' := by
  have e := (classify_cand_iff P rs E c x).mpr h
  have e' := (classify_cand_iff P rs E c x').mpr h'
  rw [e] at e'
  exact Verdict.cand.inj e'

theorem eligible_swap {P : Params} {rs : List Residue} {E : List (Nat × Nat)} {c : Contact} {x : Cand}
    (h : Eligible P rs E c x) : Eligible P rs E c.swap x.swap := by
  obtain ⟨ia, ib, ra, rb, a, b, hia, hib, hw, hra, hrb, ha, hb, hlow, hup, hta, htb, hd, hka, hkb⟩ := h
  refine ⟨ib, ia, rb, ra, b, a, hib, hia, fun hw' => hw hw'.symm, hrb, hra, hb, ha, ?_, ?_, htb, hta, ?_, hkb, hka⟩
  · rw [dist2_comm]; exact hlow
  · rw [dist2_comm]; exact hup
  · rw [dist2_comm]; exact hd

theorem eligible_swap_iff {P : Params} {rs : List Residue} {E : List (Nat × Nat)} {c : Contact} {x : Cand} :
    Eligible P rs E c.swap x.swap ↔ Eligible P rs E c x :=
  ⟨fun h => by simpa [Contact.swap_swap, Cand.swap_swap] using eligible_swap h, eligible_swap⟩

/-- candidates of the loop = eligible lines of the contact map, in order -/
theorem mem_candsOf_classify (P : Params) (rs : List Residue) (E : List (Nat × Nat)) (contacts : List Contact)
    (x : Cand) :
    x ∈ candsOf (contacts.map (classify P rs E)) ↔ ∃ c ∈ contacts, Eligible P rs E c x := by
  unfold candsOf
  simp only [List.mem_filterMap, List.mem_map]
  constructor
  · rintro ⟨v, ⟨c, hc, rfl⟩, hv⟩
    refine ⟨c, hc, ?_⟩
    rw [← classify_cand_iff]
    split at hv
    · rename_i y hy
      simp only [Option.some.injEq] at hv
      rw [hy, hv]
    · cases hv
  · rintro ⟨c, hc, he⟩
    refine ⟨_, ⟨c, hc, rfl⟩, ?_⟩
    rw [(classify_cand_iff P rs E c x).mpr he]

/-- The type name found for an end of a contact determines which residue key was asked for:
different (chain, input resid) never resolve to the same Go type. -/
def TypeDeterminesKey (P : Params) (rs : List Residue) : Prop :=
  ∀ (i j : Nat) (ri rj : Residue) (ch ch' : String) (r r' : Int) (t : String),
    findRes rs ch r = some i → findRes rs ch' r' = some j → rs[i]? = some ri → rs[j]? = some rj →
    firstType ri P.pre ch r = some t → firstType rj P.pre ch' r' = some t → ch = ch' ∧ r = r'

theorem Contact.ext' {c c' : Contact} (h1 : c.residA = c'.residA) (h2 : c.chainA = c'.chainA)
    (h3 : c.residB = c'.residB) (h4 : c.chainB = c'.chainB) : c = c' := by
  cases c; cases c'; simp_all

theorem same_triple_same_contact {P : Params} {rs : List Residue} {E : List (Nat × Nat)}
    (htk : TypeDeterminesKey P rs) {c c' : Contact} {x x' : Cand}
    (h : Eligible P rs E c x) (h' : Eligible P rs E c' x') (hta : x.ta = x'.ta) (htb : x.tb = x'.tb) : c = c' := by
  obtain ⟨ia, ib, ra, rb, a, b, hia, hib, _, hra, hrb, _, _, _, _, hta1, htb1, _, _, _⟩ := h
  obtain ⟨ia', ib', ra', rb', a', b', hia', hib', _, hra', hrb', _, _, _, _, hta2, htb2, _, _, _⟩ := h'
  have A := htk ia ia' ra ra' _ _ _ _ x.ta hia hia' hra hra' hta1 (hta ▸ hta2)
  have B := htk ib ib' rb rb' _ _ _ _ x.tb hib hib' hrb hrb' htb1 (htb ▸ htb2)
  exact Contact.ext' A.2 A.1 B.2 B.1

theorem eligible_types_ne {P : Params} {rs : List Residue} {E : List (Nat × Nat)}
    (htk : TypeDeterminesKey P rs) {c : Contact} {x : Cand} (h : Eligible P rs E c x) : x.ta ≠ x.tb := by
  obtain ⟨ia, ib, ra, rb, a, b, hia, hib, hw, hra, hrb, _, _, _, _, hta1, htb1, _, _, _⟩ := h
  intro he
  have A := htk ia ib ra rb _ _ _ _ x.ta hia hib hra hrb hta1 (he ▸ htb1)
  rw [A.1, A.2, hib] at hia
  have : ib = ia := Option.some.inj hia
  subst this
  exact hw (Within.refl _ _)

/-- without repeated lines, and when type names determine residue keys, no candidate triple repeats -/
theorem cands_nodup {P : Params} {rs : List Residue} {E : List (Nat × Nat)} (htk : TypeDeterminesKey P rs)
    (contacts : List Contact) (hnd : contacts.Nodup) :
    ((candsOf (contacts.map (classify P rs E))).map Cand.triple).Nodup := by
  induction contacts with
  | nil => simp [candsOf]
  | cons c rest ih =>
    rw [List.nodup_cons] at hnd
    have ih' := ih hnd.2
    cases hcl : classify P rs E c with
    | skip => simpa [candsOf, hcl] using ih'
    | exit => simpa [candsOf, hcl] using ih'
    | keyerror => simpa [candsOf, hcl] using ih'
    | cand x =>
      have e : candsOf ((c :: rest).map (classify P rs E)) = x :: candsOf (rest.map (classify P rs E)) := by
        simp [candsOf, hcl]
      rw [e, List.map_cons, List.nodup_cons]
      refine ⟨?_, ih'⟩
      intro hm
      obtain ⟨y, hy, hty⟩ := List.mem_map.mp hm
      obtain ⟨c', hc', hel'⟩ := (mem_candsOf_classify P rs E rest y).mp hy
      have hel := (classify_cand_iff P rs E c x).mp hcl
      have h1 : y.ta = x.ta := congrArg Prod.fst hty
      have h2 : y.tb = x.tb := congrArg (fun t => t.2.1) hty
      have := same_triple_same_contact htk hel' hel h1 h2
      subst this
      exact hnd.1 hc'

theorem firstType_some {r : Residue} {pre chain : String} {resid : Int} {t : String}
    (h : firstType r pre chain resid = some t) :
    ∃ a ∈ r.members, a.atype = t ∧ startsWith a.atype pre = true ∧ a.oldResid = resid ∧ a.chain = chain := by
  unfold firstType at h
  cases hf : r.members.find? (fun a => a.oldResid == resid && a.chain == chain && startsWith a.atype pre) with
  | none => rw [hf] at h; cases h
  | some a =>
    rw [hf] at h
    simp only [Option.map_some, Option.some.injEq] at h
    have hp := List.find?_some hf
    have hm := List.mem_of_find?_eq_some hf
    simp only [Bool.and_eq_true, beq_iff_eq] at hp
    exact ⟨a, hm, h, hp.2, hp.1.1, hp.1.2⟩

theorem firstBB_some {r : Residue} {bb : String} {a : Atom} (h : firstBB r bb = some a) :
    a ∈ r.members ∧ a.atomname = bb := by
  unfold firstBB at h
  have hp := List.find?_some h
  exact ⟨List.mem_of_find?_eq_some h, by simpa using hp⟩

/-- the decidable condition `TypesSeparate` implies `TypeDeterminesKey` -/
theorem typesSeparate_determines {P : Params} {rs : List Residue} (hsep : TypesSeparate P.pre rs) :
    TypeDeterminesKey P rs := by
  intro i j ri rj ch ch' r r' t hi hj hri hrj hti htj
  obtain ⟨a, ha, hat, hpre, _, _⟩ := firstType_some hti
  obtain ⟨b, hb, hbt, _, _, _⟩ := firstType_some htj
  have hij := hsep i j ri rj hri hrj a ha b hb hpre (by rw [hat, hbt])
  subst hij
  obtain ⟨r1, hr1, hc1, ho1⟩ := findRes_sound rs ch r i hi
  obtain ⟨r2, hr2, hc2, ho2⟩ := findRes_sound rs ch' r' i hj
  rw [hr1] at hr2
  have : r1 = r2 := Option.some.inj hr2
  subst this
  refine ⟨by rw [← hc1, ← hc2], ?_⟩
  rw [ho1] at ho2
  exact Option.some.inj ho2

end C18
