import VermouthProofs.C17_Blocks
/-!
C17 helper lemmas, part 3: what each `while pattern in s: s = s.replace(...)` loop computes on a
string flanked by dots, in terms of blocks.
-/
namespace C17

def dotMask (s : List Char) : List Bool := s.map (fun c => c == '.')

def Flanked (s : List Char) : Prop := s.head? = some '.' ∧ s.getLast? = some '.'

theorem flanked_of_dotMask (s t : List Char) (h : dotMask t = dotMask s) (hs : Flanked s) : Flanked t := by
  unfold dotMask at h
  constructor
  · have := congrArg List.head? h
    rw [List.head?_map, List.head?_map, hs.1] at this
    cases ht : t.head? with
    | none => rw [ht] at this; simp at this
    | some c => rw [ht] at this; simp at this; rw [this]
  · have := congrArg List.getLast? h
    rw [List.getLast?_map, List.getLast?_map, hs.2] at this
    cases ht : t.getLast? with
    | none => rw [ht] at this; simp at this
    | some c => rw [ht] at this; simp at this; rw [this]

/-- The generic statement about one loop. -/
theorem phase (f : List Char → List Char) (pat rep : List Char) (hne : pat ≠ [])
    (hlt : countH rep < countH pat) (hmask : dotMask pat = dotMask rep)
    (hstep : ∀ a b, mapBlocks f (a ++ pat ++ b) = mapBlocks f (a ++ rep ++ b))
    (hnf : ∀ t, Flanked t → occurs pat t = false → ∀ b ∈ splitDot t, f b = b)
    (s : List Char) (hs : Flanked s) :
    whileReplace pat rep (s.length + 1) s = mapBlocks f s ∧
      Flanked (whileReplace pat rep (s.length + 1) s) := by
  have hdone := whileReplace_done pat rep hne hlt (s.length + 1) s
    (Nat.lt_succ_of_le (countH_le_length s))
  have hinv := whileReplace_inv (mapBlocks f) pat rep hstep (s.length + 1) s
  have hm := whileReplace_inv dotMask pat rep
    (by intro a b; simp [dotMask, List.map_append] at *; exact hmask) (s.length + 1) s
  have hfl := flanked_of_dotMask _ _ hm hs
  refine ⟨?_, hfl⟩
  rw [← hinv]
  exact (mapBlocks_fixed f _ (hnf _ hfl hdone)).symm

/-! ### the three kinds of block functions -/

def fEq (m r b : List Char) : List Char := if b = m then r else b
def fPre (h o b : List Char) : List Char := if h <+: b then o ++ b.drop h.length else b
def fSuf (h o b : List Char) : List Char := if h <:+ b then b.take (b.length - h.length) ++ o else b

theorem decomp_mid (a m b : List Char) :
    a ++ ('.' :: m ++ ['.']) ++ b = joinDot (splitDot a ++ m :: splitDot b) := by
  rw [joinDot_append _ _ (splitDot_ne_nil a) (by simp), joinDot_cons _ _ (splitDot_ne_nil b),
    joinDot_splitDot, joinDot_splitDot]
  simp

theorem decomp_pre (a h b : List Char) :
    a ++ ('.' :: h) ++ b = joinDot (splitDot a ++ (h ++ (splitDot b).headD []) :: (splitDot b).tail) := by
  rw [joinDot_append _ _ (splitDot_ne_nil a) (by simp), ← joinDot_cons_prepend,
    headD_tail_eq _ (splitDot_ne_nil b), joinDot_splitDot, joinDot_splitDot]
  simp

theorem decomp_suf (a h b : List Char) :
    a ++ (h ++ ['.']) ++ b =
      joinDot ((splitDot a).dropLast ++ ((splitDot a).getLast (splitDot_ne_nil a) ++ h) :: splitDot b) := by
  have e : (splitDot a).dropLast ++ ((splitDot a).getLast (splitDot_ne_nil a) ++ h) :: splitDot b
      = ((splitDot a).dropLast ++ [(splitDot a).getLast (splitDot_ne_nil a) ++ h]) ++ splitDot b := by simp
  rw [e, joinDot_append _ _ (by simp) (splitDot_ne_nil b), ← joinDot_concat_append,
    List.dropLast_concat_getLast, joinDot_splitDot, joinDot_splitDot]
  simp

theorem dotFree_append {a b : List Char} (ha : DotFree a) (hb : DotFree b) : DotFree (a ++ b) := by
  unfold DotFree at *; simp [ha, hb]

theorem dotFree_of_mem_dropLast (a : List Char) : ∀ b ∈ (splitDot a).dropLast, DotFree b :=
  fun b hb => splitDot_blocks_dotFree a b (List.dropLast_subset _ hb)

theorem dotFree_of_mem_tail (a : List Char) : ∀ b ∈ (splitDot a).tail, DotFree b :=
  fun b hb => splitDot_blocks_dotFree a b (List.mem_of_mem_tail hb)

theorem step_mid (m r : List Char) (hm : DotFree m) (hr : DotFree r) (a b : List Char) :
    mapBlocks (fEq m r) (a ++ ('.' :: m ++ ['.']) ++ b) = mapBlocks (fEq m r) (a ++ ('.' :: r ++ ['.']) ++ b) := by
  rw [decomp_mid, decomp_mid]
  apply mapBlocks_congr_block _ _ _ _ _ (splitDot_blocks_dotFree a) (splitDot_blocks_dotFree b) hm hr
  unfold fEq
  by_cases h : r = m <;> simp [h]

theorem step_pre (h o : List Char) (hh : DotFree h) (ho : DotFree o)
    (hno : ∀ x, ¬ h <+: o ++ x) (a b : List Char) :
    mapBlocks (fPre h o) (a ++ ('.' :: h) ++ b) = mapBlocks (fPre h o) (a ++ ('.' :: o) ++ b) := by
  rw [decomp_pre, decomp_pre]
  have hb0 : DotFree ((splitDot b).headD []) := by
    have := splitDot_ne_nil b
    cases hl : splitDot b with
    | nil => exact absurd hl this
    | cons x l => exact splitDot_blocks_dotFree b x (by simp [hl])
  apply mapBlocks_congr_block _ _ _ _ _ (splitDot_blocks_dotFree a) (dotFree_of_mem_tail b)
    (dotFree_append hh hb0) (dotFree_append ho hb0)
  unfold fPre
  rw [if_pos (List.prefix_append _ _), if_neg (hno _)]
  simp

theorem step_suf (h o : List Char) (hh : DotFree h) (ho : DotFree o)
    (hno : ∀ x, ¬ h <:+ x ++ o) (a b : List Char) :
    mapBlocks (fSuf h o) (a ++ (h ++ ['.']) ++ b) = mapBlocks (fSuf h o) (a ++ (o ++ ['.']) ++ b) := by
  rw [decomp_suf, decomp_suf]
  have hl : DotFree ((splitDot a).getLast (splitDot_ne_nil a)) :=
    splitDot_blocks_dotFree a _ (List.getLast_mem _)
  apply mapBlocks_congr_block _ _ _ _ _ (dotFree_of_mem_dropLast a) (splitDot_blocks_dotFree b)
    (dotFree_append hl hh) (dotFree_append hl ho)
  unfold fSuf
  rw [if_pos (List.suffix_append _ _), if_neg (hno _)]
  simp

/-! ### normal forms -/

theorem head_not_dot_of_dotFree (m y : List Char) (hm : DotFree m) (hne : m ≠ []) :
    (m ++ y).head? ≠ some '.' := by
  cases m with
  | nil => exact absurd rfl hne
  | cons c m =>
    simp only [List.cons_append, List.head?_cons]
    intro e
    apply hm
    simp at e
    simp [e]

theorem last_not_dot_of_dotFree (x m : List Char) (hm : DotFree m) (hne : m ≠ []) :
    (x ++ m).getLast? ≠ some '.' := by
  rw [List.getLast?_append]
  intro e
  apply hm
  cases hl : m.getLast? with
  | none => rw [List.getLast?_eq_none_iff] at hl; exact absurd hl hne
  | some c =>
    rw [hl] at e
    simp at e
    exact List.mem_of_getLast? (e ▸ hl)

theorem nf_mid (m r : List Char) (hm : DotFree m) (hne : m ≠ []) (t : List Char) (ht : Flanked t)
    (ho : occurs ('.' :: m ++ ['.']) t = false) : ∀ b ∈ splitDot t, fEq m r b = b := by
  intro b hb
  unfold fEq
  split
  · rename_i hbm
    subst hbm
    exfalso
    obtain ⟨A, B, hAB⟩ := List.append_of_mem hb
    have ht' : t = joinDot (A ++ b :: B) := by rw [← hAB, joinDot_splitDot]
    cases A with
    | nil =>
      obtain ⟨y, hy⟩ := joinDot_cons_prefix b B
      rw [List.nil_append, hy] at ht'
      exact head_not_dot_of_dotFree b y hm hne (ht' ▸ ht.1)
    | cons a A =>
      cases B with
      | nil =>
        obtain ⟨x, hx⟩ := joinDot_concat_suffix (a :: A) b
        rw [hx] at ht'
        exact last_not_dot_of_dotFree x b hm hne (ht' ▸ ht.2)
      | cons b' B =>
        rw [joinDot_append _ _ (by simp) (by simp), joinDot_cons b _ (by simp)] at ht'
        have : t = joinDot (a :: A) ++ ('.' :: b ++ ['.']) ++ joinDot (b' :: B) := by
          rw [ht']; simp
        rw [this, occurs_append] at ho
        exact Bool.noConfusion ho
  · rfl

theorem nf_pre (h o : List Char) (hh : DotFree h) (hne : h ≠ []) (t : List Char) (ht : Flanked t)
    (ho : occurs ('.' :: h) t = false) : ∀ b ∈ splitDot t, fPre h o b = b := by
  intro b hb
  unfold fPre
  split
  · rename_i hpre
    exfalso
    obtain ⟨b', rfl⟩ := hpre
    obtain ⟨A, B, hAB⟩ := List.append_of_mem hb
    have ht' : t = joinDot (A ++ (h ++ b') :: B) := by rw [← hAB, joinDot_splitDot]
    obtain ⟨y, hy⟩ := joinDot_cons_prefix (h ++ b') B
    cases A with
    | nil =>
      rw [List.nil_append, hy, List.append_assoc] at ht'
      exact head_not_dot_of_dotFree h _ hh hne (ht' ▸ ht.1)
    | cons a A =>
      rw [joinDot_append _ _ (by simp) (by simp), hy] at ht'
      have : t = joinDot (a :: A) ++ ('.' :: h) ++ (b' ++ y) := by
        rw [ht']; simp
      rw [this, occurs_append] at ho
      exact Bool.noConfusion ho
  · rfl

theorem nf_suf (h o : List Char) (hh : DotFree h) (hne : h ≠ []) (t : List Char) (ht : Flanked t)
    (ho : occurs (h ++ ['.']) t = false) : ∀ b ∈ splitDot t, fSuf h o b = b := by
  intro b hb
  unfold fSuf
  split
  · rename_i hsuf
    exfalso
    obtain ⟨b', rfl⟩ := hsuf
    obtain ⟨A, B, hAB⟩ := List.append_of_mem hb
    have ht' : t = joinDot ((A ++ [b' ++ h]) ++ B) := by rw [← joinDot_splitDot t, hAB]; simp
    obtain ⟨x, hx⟩ := joinDot_concat_suffix A (b' ++ h)
    cases B with
    | nil =>
      rw [List.append_nil, hx, ← List.append_assoc] at ht'
      exact last_not_dot_of_dotFree _ h hh hne (ht' ▸ ht.2)
    | cons b2 B =>
      rw [joinDot_append _ _ (by simp) (by simp), hx] at ht'
      have : t = (x ++ b') ++ (h ++ ['.']) ++ joinDot (b2 :: B) := by
        rw [ht']; simp
      rw [this, occurs_append] at ho
      exact Bool.noConfusion ho
  · rfl

end C17
