import VermouthProofs.C01_Finish
/-! C01 — positions of placements, key ranges, `combinations`. -/
namespace C01
open C12

theorem split_lt {α} (l pre1 post1 pre2 post2 : List α) (p1 p2 : α)
    (h1 : l = pre1 ++ p1 :: post1) (h2 : l = pre2 ++ p2 :: post2) (hlt : pre1.length < pre2.length) :
    ∃ mid, pre2 = pre1 ++ p1 :: mid ∧ post1 = mid ++ p2 :: post2 := by
  induction pre1 generalizing l pre2 with
  | nil =>
    cases pre2 with
    | nil => simp at hlt
    | cons z pre2' =>
      subst h1
      simp only [List.nil_append, List.cons_append, List.cons.injEq] at h2
      obtain ⟨rfl, rfl⟩ := h2
      exact ⟨pre2', rfl, rfl⟩
  | cons z pre1' ih =>
    cases pre2 with
    | nil => simp at hlt
    | cons z' pre2' =>
      subst h1
      simp only [List.cons_append, List.cons.injEq] at h2
      obtain ⟨rfl, h2⟩ := h2
      obtain ⟨mid, hm1, hm2⟩ := ih _ pre2' rfl h2 (by simpa using hlt)
      exact ⟨mid, by rw [hm1]; rfl, hm2⟩

theorem mem_pairsOf_split {α} (pre mid post : List α) (x y : α) :
    (x, y) ∈ pairsOf (pre ++ x :: (mid ++ y :: post)) := by
  induction pre with
  | nil =>
    simp only [List.nil_append, pairsOf, List.mem_append, List.mem_map]
    left
    exact ⟨y, by simp, rfl⟩
  | cons z pre ih =>
    simp only [List.cons_append, pairsOf, List.mem_append]
    exact Or.inr ih

theorem after_n_ge (o : Off) (l : List Placement) : o.n ≤ (o.after l).n := by
  rw [after_n]; omega

theorem mem_range_iff (o : Off) (b : Mol) (x : Int) :
    x ∈ (shiftNodes o b).map Prod.fst ↔ (o.n : Int) + 1 ≤ x ∧ x ≤ (o.n : Int) + (b.nodes.length : Int) := by
  rw [mem_shiftNodes_keys]
  constructor
  · rintro ⟨i, hi, rfl⟩; omega
  · intro h; exact ⟨(x - (o.n : Int) - 1).toNat, by omega, by omega⟩

/-- the key ranges of the placements follow each other -/
theorem range_order (o : Off) (qs pre1 post1 pre2 post2 : List Placement) (p1 p2 : Placement)
    (h1 : qs = pre1 ++ p1 :: post1) (h2 : qs = pre2 ++ p2 :: post2) (hlt : pre1.length < pre2.length) :
    (o.after pre1).n + p1.block.nodes.length ≤ (o.after pre2).n := by
  obtain ⟨mid, rfl, _⟩ := split_lt qs pre1 post1 pre2 post2 p1 p2 h1 h2 hlt
  rw [after_append]
  simp only [Off.after]
  have := after_n_ge ((o.after pre1).next p1.block) mid
  rw [next_n] at this
  exact this

/-- particle `x` belongs to the `i`-th placement (counting from 0) -/
def InPlacement (qs : List Placement) (i : Nat) (x : Int) : Prop :=
  ∃ pre p post, qs = pre ++ p :: post ∧ pre.length = i
    ∧ x ∈ (shiftNodes (Off.zero.after pre) p.block).map Prod.fst

theorem inPlacement_unique (qs : List Placement) (i j : Nat) (x : Int)
    (hi : InPlacement qs i x) (hj : InPlacement qs j x) : i = j := by
  obtain ⟨pre1, p1, post1, h1, rfl, hx1⟩ := hi
  obtain ⟨pre2, p2, post2, h2, rfl, hx2⟩ := hj
  rw [mem_range_iff] at hx1 hx2
  rcases Nat.lt_trichotomy pre1.length pre2.length with hlt | heq | hgt
  · have := range_order Off.zero qs _ _ _ _ _ _ h1 h2 hlt
    omega
  · exact heq
  · have := range_order Off.zero qs _ _ _ _ _ _ h2 h1 hgt
    omega

theorem adj_comm (m : MolIn) (a b : Int) : m.adj a b = m.adj b a := by
  unfold MolIn.adj; rw [Bool.or_comm]

end C01
