import VermouthModel.C15
import VermouthProofs.C15_Fill
import Mathlib.Data.List.Nodup
import Mathlib.Tactic.Linarith
/-! Helper lemmas for C15. -/
namespace C15

/-! ### matrices -/

theorem getD_map_range {α} (n : Nat) (f : Nat → α) (i : Nat) (d : α) (h : i < n) :
    ((List.range n).map f).getD i d = f i := by
  simp [List.getD_eq_getElem?_getD, h]

theorem mget_tabulate {α} (n : Nat) (f : Nat → Nat → α) (i j : Nat) (d : α) (hi : i < n) (hj : j < n) :
    mget (tabulate n f) i j d = f i j := by
  unfold mget tabulate
  rw [getD_map_range _ _ _ _ hi, getD_map_range _ _ _ _ hj]

theorem getD_map_lt {α β} (l : List α) (f : α → β) (i : Nat) (d : β) (d' : α) (h : i < l.length) :
    (l.map f).getD i d = f (l.getD i d') := by
  simp [List.getD_eq_getElem?_getD, h]

/-- **Sub-selection indexing**: entry (a, b) of `M[:, sel][sel]` is entry (sel[a], sel[b]) of `M`. -/
theorem mget_subMatrix {α} (M : List (List α)) (sel : List Nat) (d : α) (a b : Nat)
    (ha : a < sel.length) (hb : b < sel.length) :
    mget (subMatrix M sel d) a b d = mget M (sel.getD a 0) (sel.getD b 0) d := by
  unfold mget subMatrix sliceRows sliceCols
  rw [getD_map_lt sel _ a [] 0 ha]
  by_cases hr : sel.getD a 0 < M.length
  · rw [getD_map_lt M _ _ [] [] hr, getD_map_lt sel _ b d 0 hb]
  · have hr' : M.length ≤ sel.getD a 0 := Nat.le_of_not_lt hr
    have h1 : (M.map fun row => sel.map fun c => row.getD c d).getD (sel.getD a 0) [] = [] := by
      rw [List.getD_eq_getElem?_getD, List.getElem?_eq_none (by simpa using hr')]; rfl
    have h2 : M.getD (sel.getD a 0) [] = [] := by
      rw [List.getD_eq_getElem?_getD, List.getElem?_eq_none hr']; rfl
    rw [h1, h2]; simp

/-! ### selection -/

theorem mem_selection (names : List String) (atoms : List Atom) (i : Nat) :
    i ∈ selection names atoms ↔ i < atoms.length ∧ selected names (atomAt atoms i) = true := by
  unfold selection; simp

theorem selection_sorted (names : List String) (atoms : List Atom) :
    (selection names atoms).Pairwise (· < ·) := by
  unfold selection
  exact List.Pairwise.filter _ List.pairwise_lt_range

theorem selection_nodup (names : List String) (atoms : List Atom) : (selection names atoms).Nodup :=
  (selection_sorted names atoms).imp (fun h => Nat.ne_of_lt h)

theorem sorted_getD_lt {l : List Nat} (h : l.Pairwise (· < ·)) {a b : Nat} (hab : a < b) (hb : b < l.length) :
    l.getD a 0 < l.getD b 0 := by
  have ha : a < l.length := by omega
  simp only [List.getD_eq_getElem?_getD, List.getElem?_eq_getElem ha, List.getElem?_eq_getElem hb, Option.getD_some]
  exact List.pairwise_iff_getElem.mp h a b ha hb hab

theorem getD_mem {l : List Nat} {a : Nat} (ha : a < l.length) : l.getD a 0 ∈ l := by
  simp [List.getD_eq_getElem?_getD, ha]

theorem exists_index_of_mem {l : List Nat} {x : Nat} (h : x ∈ l) : ∃ a, a < l.length ∧ l.getD a 0 = x := by
  obtain ⟨a, ha, hx⟩ := List.getElem_of_mem h
  exact ⟨a, ha, by simp [List.getD_eq_getElem?_getD, ha, hx]⟩

theorem sorted_index_lt {l : List Nat} (h : l.Pairwise (· < ·)) {a b : Nat} (ha : a < l.length) (hb : b < l.length)
    (hlt : l.getD a 0 < l.getD b 0) : a < b := by
  rcases Nat.lt_trichotomy a b with h1 | h1 | h1
  · exact h1
  · subst h1; omega
  · have := sorted_getD_lt h h1 ha; omega

/-! ### upper triangle -/

theorem mem_triu (m i j : Nat) : (i, j) ∈ triu m ↔ i ≤ j ∧ j < m := by
  unfold triu
  simp only [List.mem_flatMap, List.mem_range, List.mem_map, List.mem_filter, decide_eq_true_eq, Prod.mk.injEq]
  constructor
  · rintro ⟨i', hi', j', ⟨hj', hle⟩, rfl, rfl⟩; exact ⟨hle, hj'⟩
  · rintro ⟨hle, hj⟩; exact ⟨i, by omega, j, ⟨hj, hle⟩, rfl, rfl⟩

theorem triu_nodup (m : Nat) : (triu m).Nodup := by
  unfold triu
  rw [List.nodup_flatMap]
  constructor
  · intro i _
    refine List.Nodup.map ?_ (List.Nodup.filter _ List.nodup_range)
    intro a b h; simpa using h
  · refine List.Pairwise.imp_of_mem ?_ (List.nodup_range (n := m))
    intro a b _ _ hab
    simp only [Function.onFun, List.disjoint_left, List.mem_map, List.mem_filter]
    rintro ⟨x, y⟩ ⟨_, _, h1⟩ ⟨_, _, h2⟩
    simp only [Prod.mk.injEq] at h1 h2
    exact hab (h1.1.trans h2.1.symm)

/-! ### residue graph: bounded BFS = walks of bounded length -/

def Adj (E : List (ResKey × ResKey)) (a b : ResKey) : Prop := (a, b) ∈ E ∨ (b, a) ∈ E

theorem adj_symm {E : List (ResKey × ResKey)} {a b : ResKey} (h : Adj E a b) : Adj E b a := Or.symm h

/-- `IsWalk E a l b`: `a :: l` is a walk in the residue graph that ends in `b` (`l.length` steps). -/
def IsWalk (E : List (ResKey × ResKey)) : ResKey → List ResKey → ResKey → Prop
  | a, [], b => a = b
  | a, m :: rest, b => Adj E a m ∧ IsWalk E m rest b

theorem mem_nbrs (E : List (ResKey × ResKey)) (r x : ResKey) : x ∈ nbrs E r ↔ Adj E r x := by
  unfold nbrs Adj
  simp only [List.mem_flatMap, List.mem_append]
  constructor
  · rintro ⟨⟨e1, e2⟩, he, h | h⟩
    · by_cases h1 : e1 = r
      · simp [h1] at h; subst h1; subst h; exact Or.inl he
      · simp [h1] at h
    · by_cases h2 : e2 = r
      · simp [h2] at h; subst h2; subst h; exact Or.inr he
      · simp [h2] at h
  · rintro (h | h)
    · exact ⟨(r, x), h, Or.inl (by simp)⟩
    · exact ⟨(x, r), h, Or.inr (by simp)⟩

theorem mem_expand (E : List (ResKey × ResKey)) (S : List ResKey) (x : ResKey) :
    x ∈ expand E S ↔ x ∈ S ∨ ∃ y ∈ S, Adj E y x := by
  unfold expand
  rw [List.mem_eraseDups, List.mem_append, List.mem_flatMap]
  simp only [mem_nbrs]

theorem walk_snoc {E : List (ResKey × ResKey)} {a y x : ResKey} {l : List ResKey}
    (h : IsWalk E a l y) (hadj : Adj E y x) : IsWalk E a (l ++ [x]) x := by
  induction l generalizing a with
  | nil => cases h; exact ⟨hadj, rfl⟩
  | cons m rest ih => exact ⟨h.1, ih h.2⟩

theorem walk_snoc_inv {E : List (ResKey × ResKey)} {a b x : ResKey} {l : List ResKey}
    (h : IsWalk E a (l ++ [x]) b) : b = x ∧ ∃ y, IsWalk E a l y ∧ Adj E y x := by
  induction l generalizing a with
  | nil => exact ⟨h.2.symm, a, rfl, h.1⟩
  | cons m rest ih =>
    obtain ⟨hb, y, hy, hadj⟩ := ih h.2
    exact ⟨hb, y, ⟨h.1, hy⟩, hadj⟩

theorem mem_ball (E : List (ResKey × ResKey)) (c : Nat) (r x : ResKey) :
    x ∈ ball E c r ↔ ∃ l : List ResKey, l.length ≤ c ∧ IsWalk E r l x := by
  induction c generalizing x with
  | zero =>
    simp only [ball, List.mem_singleton, Nat.le_zero, List.length_eq_zero_iff]
    constructor
    · rintro rfl; exact ⟨[], rfl, rfl⟩
    · rintro ⟨l, rfl, h⟩; exact h.symm
  | succ c ih =>
    simp only [ball, mem_expand]
    constructor
    · rintro (h | ⟨y, hy, hadj⟩)
      · obtain ⟨l, hl, hw⟩ := (ih x).mp h
        exact ⟨l, by omega, hw⟩
      · obtain ⟨l, hl, hw⟩ := (ih y).mp hy
        exact ⟨l ++ [x], by simp; omega, walk_snoc hw hadj⟩
    · rintro ⟨l, hl, hw⟩
      by_cases hlen : l.length ≤ c
      · exact Or.inl ((ih x).mpr ⟨l, hlen, hw⟩)
      · rcases List.eq_nil_or_concat l with rfl | ⟨l', z, rfl⟩
        · simp at hlen
        · rw [List.concat_eq_append] at hw hl
          obtain ⟨hb, y, hy, hadj⟩ := walk_snoc_inv hw
          subst hb
          simp at hl
          exact Or.inr ⟨y, (ih y).mpr ⟨l', by omega, hy⟩, hadj⟩

/-! ### force constant -/

theorem forceConst_gt_iff (p : Params) (diag : Bool) (d2 : Nat) (h0 : 0 ≤ p.minForce) :
    p.minForce < forceConst p diag d2 ↔
      diag = false ∧ d2 ≤ p.upper2 ∧ p.minForce < min (kOf p d2) p.base := by
  unfold forceConst
  simp only [gt_iff_lt, lt_min_iff]
  cases diag <;> simp only [Bool.false_eq_true, if_false, if_true, true_and, false_and, iff_false]
  · split_ifs <;> constructor <;> intro h
    all_goals first
      | (exfalso; linarith)
      | (refine ⟨by omega, by linarith, by linarith⟩)
      | (obtain ⟨h1, h2, h3⟩ := h; first | (exfalso; omega) | linarith)
  · constructor
    · intro h; exfalso; split_ifs at h <;> linarith
    · rintro ⟨h, _⟩; exact absurd h (by simp)

theorem forceConst_value (p : Params) (d2 : Nat) (h0 : 0 ≤ p.minForce) (h : p.minForce < forceConst p false d2) :
    forceConst p false d2 = min (kOf p d2) p.base := by
  unfold forceConst at *
  simp only [gt_iff_lt, Bool.false_eq_true, if_false] at *
  split_ifs at * <;> first | (exfalso; linarith) | (simp only [min_def]; split_ifs <;> linarith)

/-! ### the loops that fill the two full matrices compute the closed forms -/

theorem atomAt_mem' (atoms : List Atom) (i : Nat) (hi : i < atoms.length) : atomAt atoms i ∈ atoms := by
  unfold atomAt
  simp [List.getD_eq_getElem?_getD, hi]

theorem mem_nodesOf (atoms : List Atom) (r : ResKey) (i : Nat) :
    i ∈ nodesOf atoms r ↔ i < atoms.length ∧ (atomAt atoms i).res = r := by
  unfold nodesOf; simp

theorem mem_connWrites_cells (atoms : List Atom) (E : List (ResKey × ResKey)) (sep i j : Nat) :
    (i, j) ∈ (connWrites atoms E sep).map (·.1) ↔
      i < atoms.length ∧ j < atoms.length ∧ (atomAt atoms j).res ∈ ball E sep (atomAt atoms i).res := by
  unfold connWrites
  constructor
  · intro h
    obtain ⟨w, hw, e⟩ := List.mem_map.mp h
    obtain ⟨R, _, hw⟩ := List.mem_flatMap.mp hw
    obtain ⟨T, hT, hw⟩ := List.mem_flatMap.mp hw
    obtain ⟨o, ho, hw⟩ := List.mem_flatMap.mp hw
    obtain ⟨t, ht, rfl⟩ := List.mem_map.mp hw
    simp only [Prod.mk.injEq] at e
    obtain ⟨rfl, rfl⟩ := e
    have ho' := (mem_nodesOf atoms R o).mp ho
    have ht' := (mem_nodesOf atoms T t).mp ht
    exact ⟨ho'.1, ht'.1, by rw [ht'.2, ho'.2]; exact hT⟩
  · rintro ⟨hi, hj, hb⟩
    have hres : (atomAt atoms i).res ∈ residues atoms := by
      unfold residues
      rw [List.mem_eraseDups, List.mem_map]
      exact ⟨atomAt atoms i, atomAt_mem' atoms i hi, rfl⟩
    apply List.mem_map.mpr
    refine ⟨((i, j), true), ?_, rfl⟩
    apply List.mem_flatMap.mpr; refine ⟨(atomAt atoms i).res, hres, ?_⟩
    apply List.mem_flatMap.mpr; refine ⟨(atomAt atoms j).res, hb, ?_⟩
    apply List.mem_flatMap.mpr; refine ⟨i, (mem_nodesOf atoms _ i).mpr ⟨hi, rfl⟩, ?_⟩
    exact List.mem_map.mpr ⟨j, (mem_nodesOf atoms _ j).mpr ⟨hj, rfl⟩, rfl⟩

/-- The three nested loops of `build_connectivity_matrix` followed by `fill_diagonal(False)` produce, at
every cell, the closed form `connEntry`. -/
theorem mget_connFull (atoms : List Atom) (E : List (ResKey × ResKey)) (sep i j : Nat)
    (hi : i < atoms.length) (hj : j < atoms.length) :
    mget (connFull atoms E sep) i j false = connEntry atoms E sep i j := by
  unfold connFull
  have h1 := mget_fill atoms.length (fun _ _ => true) (connWrites atoms E sep)
    (by
      intro w hw
      have hc : (w.1.1, w.1.2) ∈ (connWrites atoms E sep).map (·.1) := List.mem_map.mpr ⟨w, hw, rfl⟩
      have := (mem_connWrites_cells atoms E sep _ _).mp hc
      refine ⟨this.1, this.2.1, ?_⟩
      unfold connWrites at hw
      simp only [List.mem_flatMap, List.mem_map] at hw
      obtain ⟨_, _, _, _, _, _, _, _, rfl⟩ := hw
      rfl)
    (zeros atoms.length) (sq_tabulate _ _)
  have h2 := mget_fill atoms.length (fun _ _ => false) ((List.range atoms.length).map fun i => ((i, i), false))
    (by
      intro w hw
      simp only [List.mem_map, List.mem_range] at hw
      obtain ⟨k, hk, rfl⟩ := hw
      exact ⟨hk, hk, rfl⟩)
    _ h1.1
  rw [h2.2 i j false, h1.2 i j false, mget_zeros]
  unfold connEntry resConnected
  have hdiag : (i, j) ∈ ((List.range atoms.length).map fun i => ((i, i), false)).map (·.1) ↔ i = j := by
    simp only [List.map_map, List.mem_map, List.mem_range, Function.comp, Prod.mk.injEq]
    constructor
    · rintro ⟨k, _, rfl, rfl⟩; rfl
    · rintro rfl; exact ⟨i, hi, rfl, rfl⟩
  by_cases e : i = j
  · rw [if_pos (hdiag.mpr e)]; simp [e]
  · rw [if_neg (mt hdiag.mp e)]
    have hne : (i != j) = true := by simp [e]
    rw [hne, Bool.true_and]
    by_cases hb : (atomAt atoms j).res ∈ ball E sep (atomAt atoms i).res
    · rw [if_pos ((mem_connWrites_cells atoms E sep i j).mpr ⟨hi, hj, hb⟩)]
      exact (List.contains_iff_mem.mpr hb).symm
    · rw [if_neg (fun h => hb ((mem_connWrites_cells atoms E sep i j).mp h).2.2)]
      cases hc : (ball E sep (atomAt atoms i).res).contains (atomAt atoms j).res
      · rfl
      · exact absurd (List.contains_iff_mem.mp hc) hb

theorem mem_domWrites (sel : List Nat) (atoms : List Atom) (d : Domain) (w : (Nat × Nat) × Bool) :
    w ∈ domWrites sel atoms d ↔ ∃ k l, (k, l) ∈ combos2 sel ∧
      (w = ((k, l), crit d (atomAt atoms k) (atomAt atoms l)) ∨ w = ((l, k), crit d (atomAt atoms k) (atomAt atoms l))) := by
  unfold domWrites
  constructor
  · intro h
    obtain ⟨⟨k, l⟩, hkl, hw⟩ := List.mem_flatMap.mp h
    simp only [List.mem_cons, List.not_mem_nil, or_false] at hw
    exact ⟨k, l, hkl, hw⟩
  · rintro ⟨k, l, hkl, hw⟩
    apply List.mem_flatMap.mpr
    refine ⟨(k, l), hkl, ?_⟩
    simp only [List.mem_cons, List.not_mem_nil, or_false]
    exact hw

theorem mem_domWrites_cells (sel : List Nat) (hs : sel.Pairwise (· < ·)) (atoms : List Atom) (d : Domain) (i j : Nat) :
    (i, j) ∈ (domWrites sel atoms d).map (·.1) ↔ i ∈ sel ∧ j ∈ sel ∧ i ≠ j := by
  constructor
  · intro h
    obtain ⟨w, hw, e⟩ := List.mem_map.mp h
    obtain ⟨k, l, hkl, hw⟩ := (mem_domWrites sel atoms d w).mp hw
    have := (mem_combos2 sel hs k l).mp hkl
    rcases hw with rfl | rfl
    · simp only [Prod.mk.injEq] at e
      obtain ⟨rfl, rfl⟩ := e
      exact ⟨this.1, this.2.1, by omega⟩
    · simp only [Prod.mk.injEq] at e
      obtain ⟨rfl, rfl⟩ := e
      exact ⟨this.2.1, this.1, by omega⟩
  · rintro ⟨hi, hj, hne⟩
    apply List.mem_map.mpr
    rcases Nat.lt_or_gt_of_ne hne with h | h
    · exact ⟨((i, j), _), (mem_domWrites sel atoms d _).mpr ⟨i, j, (mem_combos2 sel hs i j).mpr ⟨hi, hj, h⟩, Or.inl rfl⟩, rfl⟩
    · exact ⟨((i, j), _), (mem_domWrites sel atoms d _).mpr ⟨j, i, (mem_combos2 sel hs j i).mpr ⟨hj, hi, h⟩, Or.inr rfl⟩, rfl⟩

/-- The loop of `build_pair_matrix` produces, at every cell, the closed form `domEntry`. -/
theorem mget_domFull (sel : List Nat) (hs : sel.Pairwise (· < ·)) (atoms : List Atom)
    (hn : ∀ x ∈ sel, x < atoms.length) (d : Domain) (i j : Nat) :
    mget (domFull sel atoms d) i j false = domEntry sel atoms d i j := by
  unfold domFull
  have h1 := mget_fill atoms.length
    (fun i j => if i < j then crit d (atomAt atoms i) (atomAt atoms j) else crit d (atomAt atoms j) (atomAt atoms i))
    (domWrites sel atoms d)
    (by
      intro w hw
      obtain ⟨k, l, hkl, e⟩ := (mem_domWrites sel atoms d w).mp hw
      have := (mem_combos2 sel hs k l).mp hkl
      rcases e with rfl | rfl
      · exact ⟨hn _ this.1, hn _ this.2.1, by simp [this.2.2]⟩
      · refine ⟨hn _ this.2.1, hn _ this.1, ?_⟩
        have : ¬ l < k := by omega
        simp [this])
    (zeros atoms.length) (sq_tabulate _ _)
  rw [h1.2 i j false, mget_zeros]
  unfold domEntry
  by_cases hc : i ∈ sel ∧ j ∈ sel ∧ i ≠ j
  · rw [if_pos ((mem_domWrites_cells sel hs atoms d i j).mpr hc)]
    have c1 : sel.contains i = true := List.contains_iff_mem.mpr hc.1
    have c2 : sel.contains j = true := List.contains_iff_mem.mpr hc.2.1
    rw [c1, c2]
    rcases Nat.lt_or_gt_of_ne hc.2.2 with h | h
    · simp [h]
    · have : ¬ i < j := by omega
      simp [h, this]
  · rw [if_neg (mt (mem_domWrites_cells sel hs atoms d i j).mp hc)]
    by_cases c1 : i ∈ sel
    · by_cases c2 : j ∈ sel
      · have : i = j := by
          by_contra hne; exact hc ⟨c1, c2, hne⟩
        subst this
        simp
      · have : sel.contains j = false := by
          cases h : sel.contains j
          · rfl
          · exact absurd (List.contains_iff_mem.mp h) c2
        simp only [this, Bool.and_false, Bool.false_and]
    · have : sel.contains i = false := by
        cases h : sel.contains i
        · rfl
        · exact absurd (List.contains_iff_mem.mp h) c1
      simp only [this, Bool.false_and]

/-! ### the matrices of `mats`, read at sub-selection indices -/

theorem sel_getD_lt (names : List String) (atoms : List Atom) (a : Nat)
    (ha : a < (selection names atoms).length) : (selection names atoms).getD a 0 < atoms.length :=
  ((mem_selection names atoms _).mp (getD_mem ha)).1

theorem sel_getD_selected (names : List String) (atoms : List Atom) (a : Nat)
    (ha : a < (selection names atoms).length) :
    selected names (atomAt atoms ((selection names atoms).getD a 0)) = true :=
  ((mem_selection names atoms _).mp (getD_mem ha)).2

theorem nodup_getD_inj {l : List Nat} (h : l.Nodup) {a b : Nat} (ha : a < l.length) (hb : b < l.length)
    (e : l.getD a 0 = l.getD b 0) : a = b := by
  simp only [List.getD_eq_getElem?_getD, List.getElem?_eq_getElem ha, List.getElem?_eq_getElem hb,
    Option.getD_some] at e
  exact (h.getElem_inj_iff).mp e

theorem mget_conn (atoms : List Atom) (edges : List (Int × Int)) (p : Params) (a c : Nat)
    (ha : a < (selection p.names atoms).length) (hc : c < (selection p.names atoms).length) :
    mget (mats atoms edges p).conn a c false =
      connEntry atoms (resEdges atoms edges) p.sep ((selection p.names atoms).getD a 0)
        ((selection p.names atoms).getD c 0) := by
  unfold mats
  simp only []
  rw [mget_subMatrix _ _ _ _ _ ha hc, mget_connFull _ _ _ _ _ (sel_getD_lt _ _ _ ha) (sel_getD_lt _ _ _ hc)]

theorem mget_dom (atoms : List Atom) (edges : List (Int × Int)) (p : Params) (a c : Nat)
    (ha : a < (selection p.names atoms).length) (hc : c < (selection p.names atoms).length) :
    mget (mats atoms edges p).dom a c false =
      domEntry (selection p.names atoms) atoms p.dom ((selection p.names atoms).getD a 0)
        ((selection p.names atoms).getD c 0) := by
  unfold mats
  simp only []
  rw [mget_subMatrix _ _ _ _ _ ha hc,
    mget_domFull _ (selection_sorted _ _) _ (fun x hx => ((mem_selection _ _ _).mp hx).1)]

def posAt (atoms : List Atom) (i : Nat) : V3 := vec (atomAt atoms i).pos

theorem mget_dist (atoms : List Atom) (edges : List (Int × Int)) (p : Params) (a c : Nat)
    (ha : a < (selection p.names atoms).length) (hc : c < (selection p.names atoms).length) :
    mget (mats atoms edges p).dist a c 0 =
      dist2 (posAt atoms ((selection p.names atoms).getD a 0)) (posAt atoms ((selection p.names atoms).getD c 0)) := by
  unfold mats mget posAt
  simp only []
  rw [getD_map_lt _ _ a [] (0, 0, 0) (by simpa using ha), getD_map_lt _ _ c 0 (0, 0, 0) (by simpa using hc),
    getD_map_lt _ _ a (0, 0, 0) 0 ha, getD_map_lt _ _ c (0, 0, 0) 0 hc]

/-- may the pair of NODE indices (i, j) be linked: not connected within the separation, same domain -/
def linkOK (atoms : List Atom) (edges : List (Int × Int)) (p : Params) (i j : Nat) : Bool :=
  !(connEntry atoms (resEdges atoms edges) p.sep i j) && domEntry (selection p.names atoms) atoms p.dom i j

/-- `constants[a, c]` expressed through the node indices `selection[a]`, `selection[c]`. -/
theorem constEntry_eq (atoms : List Atom) (edges : List (Int × Int)) (p : Params) (a c : Nat)
    (ha : a < (selection p.names atoms).length) (hc : c < (selection p.names atoms).length) :
    constEntry p (mats atoms edges p) a c =
      if linkOK atoms edges p ((selection p.names atoms).getD a 0) ((selection p.names atoms).getD c 0) then
        forceConst p (a == c)
          (dist2 (posAt atoms ((selection p.names atoms).getD a 0)) (posAt atoms ((selection p.names atoms).getD c 0)))
      else 0 := by
  unfold constEntry linkOK
  rw [mget_conn _ _ _ _ _ ha hc, mget_dom _ _ _ _ _ ha hc, mget_dist _ _ _ _ _ ha hc]

/-- The five criteria of the property for the ordered pair of node indices (i, j). -/
def Criteria (atoms : List Atom) (edges : List (Int × Int)) (p : Params) (i j : Nat) : Prop :=
  selected p.names (atomAt atoms i) = true ∧ selected p.names (atomAt atoms j) = true ∧
  crit p.dom (atomAt atoms i) (atomAt atoms j) = true ∧
  resConnected (resEdges atoms edges) p.sep (atomAt atoms i).res (atomAt atoms j).res = false ∧
  dist2 (posAt atoms i) (posAt atoms j) ≤ p.upper2 ∧
  p.minForce < min (kOf p (dist2 (posAt atoms i) (posAt atoms j))) p.base

theorem linkOK_iff (atoms : List Atom) (edges : List (Int × Int)) (p : Params) (i j : Nat) (hij : i < j)
    (hi : i ∈ selection p.names atoms) (hj : j ∈ selection p.names atoms) :
    linkOK atoms edges p i j = true ↔
      crit p.dom (atomAt atoms i) (atomAt atoms j) = true ∧
      resConnected (resEdges atoms edges) p.sep (atomAt atoms i).res (atomAt atoms j).res = false := by
  unfold linkOK connEntry domEntry
  have hne : (i != j) = true := by simp; omega
  simp only [hne, Bool.true_and, List.contains_iff_mem, hi, hj, hij, if_true, Bool.and_eq_true,
    Bool.not_eq_true', true_and, and_true]
  exact And.comm

theorem constEntry_gt_iff (atoms : List Atom) (edges : List (Int × Int)) (p : Params) (h0 : 0 ≤ p.minForce)
    (a c : Nat) (hac : a ≤ c) (hc : c < (selection p.names atoms).length) :
    p.minForce < constEntry p (mats atoms edges p) a c ↔
      a < c ∧ Criteria atoms edges p ((selection p.names atoms).getD a 0) ((selection p.names atoms).getD c 0) := by
  have ha : a < (selection p.names atoms).length := by omega
  rw [constEntry_eq _ _ _ _ _ ha hc]
  rcases Nat.eq_or_lt_of_le hac with rfl | hlt
  · -- diagonal
    constructor
    · intro h; exfalso
      split at h
      · have := (forceConst_gt_iff p (a == a) _ h0).mp h; simp at this
      · linarith
    · rintro ⟨h, _⟩; omega
  · have hs := sorted_getD_lt (selection_sorted p.names atoms) hlt hc
    have hL := linkOK_iff atoms edges p _ _ hs (getD_mem ha) (getD_mem hc)
    have hne : (a == c) = false := by simp; omega
    unfold Criteria
    constructor
    · intro h
      split at h
      · next hl =>
        have := (forceConst_gt_iff p _ _ h0).mp h
        exact ⟨hlt, sel_getD_selected _ _ _ ha, sel_getD_selected _ _ _ hc, (hL.mp hl).1, (hL.mp hl).2,
          this.2.1, this.2.2⟩
      · linarith
    · rintro ⟨_, _, _, h3, h4, h5, h6⟩
      rw [if_pos (hL.mpr ⟨h3, h4⟩)]
      exact (forceConst_gt_iff p _ _ h0).mpr ⟨hne, h5, h6⟩

/-! ### emission -/

def mkBond (atoms : List Atom) (p : Params) (M : Mats) (ij : Nat × Nat) : Bond :=
  { a := keyAt atoms (M.sel.getD ij.1 0), b := keyAt atoms (M.sel.getD ij.2 0),
    d2 := mget M.dist ij.1 ij.2 0, len5 := len5Of (mget M.dist ij.1 ij.2 0),
    k := constEntry p M ij.1 ij.2 }

theorem filterMap_ite {α β} (l : List α) (c : α → Prop) [DecidablePred c] (f : α → β) :
    l.filterMap (fun x => if c x then some (f x) else none) = (l.filter (fun x => decide (c x))).map f := by
  induction l with
  | nil => rfl
  | cons x t ih =>
    by_cases hx : c x
    · simp [List.filterMap_cons, hx, ih]
    · simp [List.filterMap_cons, hx, ih]

theorem emit_eq (atoms : List Atom) (p : Params) (M : Mats) :
    emit atoms p M =
      ((triu M.sel.length).filter (fun ij => decide (p.minForce < constEntry p M ij.1 ij.2))).map
        (mkBond atoms p M) := by
  have h := filterMap_ite (triu M.sel.length) (fun ij => p.minForce < constEntry p M ij.1 ij.2) (mkBond atoms p M)
  rw [← h]
  rfl

theorem mem_emit (atoms : List Atom) (p : Params) (M : Mats) (b : Bond) :
    b ∈ emit atoms p M ↔
      ∃ a c, a ≤ c ∧ c < M.sel.length ∧ p.minForce < constEntry p M a c ∧ b = mkBond atoms p M (a, c) := by
  rw [emit_eq]
  simp only [List.mem_map, List.mem_filter, decide_eq_true_eq]
  constructor
  · rintro ⟨⟨a, c⟩, ⟨ht, hgt⟩, rfl⟩
    exact ⟨a, c, ((mem_triu _ _ _).mp ht).1, ((mem_triu _ _ _).mp ht).2, hgt, rfl⟩
  · rintro ⟨a, c, hac, hc, hgt, rfl⟩
    exact ⟨(a, c), ⟨(mem_triu _ _ _).mpr ⟨hac, hc⟩, hgt⟩, rfl⟩

theorem key_inj (atoms : List Atom) (hk : (atoms.map (·.key)).Nodup) (i j : Nat) (hi : i < atoms.length)
    (hj : j < atoms.length) (e : keyAt atoms i = keyAt atoms j) : i = j := by
  unfold keyAt atomAt at e
  have hi' : i < (atoms.map (·.key)).length := by simpa using hi
  have hj' : j < (atoms.map (·.key)).length := by simpa using hj
  have e' : (atoms.map (·.key))[i] = (atoms.map (·.key))[j] := by
    simpa [List.getD_eq_getElem?_getD, hi, hj] using e
  exact (hk.getElem_inj_iff).mp e'

theorem set_getD_self {α} (l : List α) (i : Nat) (d : α) (h : i < l.length) : l.set i (l.getD i d) = l := by
  rw [List.getD_eq_getElem?_getD, List.getElem?_eq_getElem h]
  exact List.set_getElem_self h

end C15
