import VermouthModel.C18
/-! Helper lemmas for C18, part 2: the symmetric-contact loop (second-occurrence rule). -/
namespace C18

abbrev Triple := String × String × Nat

/-- the same contact seen from the other residue -/
def swapT (t : Triple) : Triple := (t.2.1, t.1, t.2.2)

theorem swapT_swapT (t : Triple) : swapT (swapT t) = t := rfl
theorem Cand.swapped_eq (c : Cand) : c.swapped = swapT c.triple := rfl

theorem swapT_eq_iff (t u : Triple) : swapT t = u ↔ t = swapT u := by
  constructor
  · intro h; rw [← h, swapT_swapT]
  · intro h; rw [h, swapT_swapT]

/-- invariant of the loop after the candidates `l` have been processed -/
structure Inv (l : List Cand) (s : LoopState) : Prop where
  cm_sub : ∀ t ∈ s.cm, t ∈ l.map Cand.triple
  out_sub : ∀ c ∈ s.out, c ∈ l ∧ c.swapped ∈ s.cm
  cover : ∀ c ∈ l, c.triple ∈ s.cm ∨ c ∈ s.out
  asym : ∀ t ∈ s.cm, t ≠ swapT t → swapT t ∉ s.cm
  out_not_cm : ∀ c ∈ s.out, c.triple ∉ s.cm
  out_sublist : s.out.Sublist l

theorem inv_init : Inv [] { cm := [], out := [] } :=
  ⟨by simp, by simp, by simp, by simp, by simp, by simp⟩

theorem inv_step (l : List Cand) (s : LoopState) (c : Cand) (h : Inv l s)
    (hn : ((l ++ [c]).map Cand.triple).Nodup) : Inv (l ++ [c]) (step s c) := by
  have hfresh : c.triple ∉ l.map Cand.triple := by
    rw [List.map_append, List.nodup_append] at hn
    intro hm
    exact hn.2.2 _ hm _ (by simp) rfl
  unfold step
  by_cases hc : s.cm.contains c.swapped = true
  · have hc' : c.swapped ∈ s.cm := by simpa using hc
    simp only [hc, if_true]
    refine ⟨?_, ?_, ?_, h.asym, ?_, ?_⟩
    · intro t ht
      have := h.cm_sub t ht
      simp only [List.map_append, List.mem_append]
      exact Or.inl this
    · intro x hx
      rcases List.mem_append.mp hx with hx | hx
      · exact ⟨List.mem_append_left _ (h.out_sub x hx).1, (h.out_sub x hx).2⟩
      · simp only [List.mem_singleton] at hx
        subst hx
        exact ⟨by simp, hc'⟩
    · intro x hx
      rcases List.mem_append.mp hx with hx | hx
      · rcases h.cover x hx with h1 | h1
        · exact Or.inl h1
        · exact Or.inr (List.mem_append_left _ h1)
      · simp only [List.mem_singleton] at hx
        subst hx
        exact Or.inr (by simp)
    · intro x hx
      rcases List.mem_append.mp hx with hx | hx
      · exact h.out_not_cm x hx
      · simp only [List.mem_singleton] at hx
        subst hx
        intro hm
        exact hfresh (h.cm_sub _ hm)
    · exact List.Sublist.append h.out_sublist (List.Sublist.refl _)
  · have hc' : c.swapped ∉ s.cm := by simpa using hc
    simp only [hc]
    refine ⟨?_, ?_, ?_, ?_, ?_, ?_⟩
    · intro t ht
      simp only [List.map_append, List.mem_append]
      rcases List.mem_append.mp ht with ht | ht
      · exact Or.inl (h.cm_sub t ht)
      · simp only [List.mem_singleton] at ht
        subst ht
        exact Or.inr (by simp)
    · intro x hx
      exact ⟨List.mem_append_left _ (h.out_sub x hx).1, List.mem_append_left _ (h.out_sub x hx).2⟩
    · intro x hx
      rcases List.mem_append.mp hx with hx | hx
      · rcases h.cover x hx with h1 | h1
        · exact Or.inl (List.mem_append_left _ h1)
        · exact Or.inr h1
      · simp only [List.mem_singleton] at hx
        subst hx
        exact Or.inl (by simp)
    · intro t ht hne hm
      rcases List.mem_append.mp ht with ht | ht
      · rcases List.mem_append.mp hm with hm | hm
        · exact h.asym t ht hne hm
        · simp only [List.mem_singleton] at hm
          have : t = c.swapped := by rw [Cand.swapped_eq, ← swapT_eq_iff]; exact hm
          exact hc' (this ▸ ht)
      · simp only [List.mem_singleton] at ht
        subst ht
        rcases List.mem_append.mp hm with hm | hm
        · exact hc' hm
        · simp only [List.mem_singleton] at hm
          exact hne hm.symm
    · intro x hx hm
      rcases List.mem_append.mp hm with hm | hm
      · exact h.out_not_cm x hx hm
      · simp only [List.mem_singleton] at hm
        apply hfresh
        rw [← hm]
        exact List.mem_map.mpr ⟨x, (h.out_sub x hx).1, rfl⟩
    · exact h.out_sublist.trans (List.sublist_append_left _ _)

theorem inv_fold (l' l : List Cand) (s : LoopState) (h : Inv l s)
    (hn : ((l ++ l').map Cand.triple).Nodup) : Inv (l ++ l') (l'.foldl step s) := by
  induction l' generalizing l s with
  | nil => simpa using h
  | cons c r ih =>
    have e : l ++ c :: r = (l ++ [c]) ++ r := by simp
    rw [e] at hn ⊢
    simp only [List.foldl_cons]
    apply ih
    · apply inv_step l s c h
      rw [List.map_append] at hn
      exact (List.nodup_append.mp hn).1
    · exact hn

theorem inv_emitted (l : List Cand) (hn : (l.map Cand.triple).Nodup) :
    Inv l (l.foldl step { cm := [], out := [] }) := by
  have := inv_fold l [] _ inv_init (by simpa using hn)
  simpa using this

/-! ### the loop with error verdicts -/

def candsOf (vs : List Verdict) : List Cand :=
  vs.filterMap fun v => match v with
    | .cand c => some c
    | _ => none

def noAbort (vs : List Verdict) : Prop := ∀ v ∈ vs, v ≠ Verdict.exit ∧ v ≠ Verdict.keyerror

theorem runLoop_ok (vs : List Verdict) (s : LoopState) (h : noAbort vs) :
    runLoop vs s = .ok ((candsOf vs).foldl step s).out := by
  induction vs generalizing s with
  | nil => simp [runLoop, candsOf]
  | cons v r ih =>
    have hr : noAbort r := fun x hx => h x (List.mem_cons_of_mem _ hx)
    cases v with
    | skip => simpa [runLoop, candsOf] using ih s hr
    | exit => exact absurd rfl (h _ (by simp)).1
    | keyerror => exact absurd rfl (h _ (by simp)).2
    | cand c => simpa [runLoop, candsOf] using ih (step s c) hr

theorem runLoop_ok_noAbort (vs : List Verdict) (s : LoopState) (out : List Cand)
    (h : runLoop vs s = .ok out) : noAbort vs := by
  induction vs generalizing s with
  | nil => intro v hv; cases hv
  | cons v r ih =>
    cases v with
    | skip =>
      intro x hx
      rcases List.mem_cons.mp hx with hx | hx
      · subst hx; simp
      · exact ih s (by simpa [runLoop] using h) x hx
    | exit => simp [runLoop] at h
    | keyerror => simp [runLoop] at h
    | cand c =>
      intro x hx
      rcases List.mem_cons.mp hx with hx | hx
      · subst hx; simp
      · exact ih (step s c) (by simpa [runLoop] using h) x hx

end C18
