import VermouthProofs.C02_Parse
/-! Running the reader over the chunks the writer produces. -/
namespace C02

/-- the reader's fold over written lines (by their tokens) -/
def run (tbl : List (String × Arity)) : PState → List Line → Except PErr PState
  | st, [] => .ok st
  | st, l :: ls =>
    match step tbl st (lineTokens l) with
    | .ok st' => run tbl st' ls
    | .error e => .error e

theorem run_eq_foldlM (tbl) (st : PState) (ls : List Line) :
    run tbl st ls = (ls.map lineTokens).foldlM (step tbl) st := by
  induction ls generalizing st with
  | nil => rfl
  | cons l t ih =>
    simp only [run, List.map_cons, List.foldlM_cons]
    cases h : step tbl st (lineTokens l) with
    | error e => rfl
    | ok st' => simp only []; rw [ih]; rfl

theorem run_append_ok (tbl) (st st' : PState) (a b : List Line) (h : run tbl st a = .ok st') :
    run tbl st (a ++ b) = run tbl st' b := by
  induction a generalizing st with
  | nil => simp only [run] at h; cases h; rfl
  | cons l t ih =>
    simp only [List.cons_append, run] at h ⊢
    cases hs : step tbl st (lineTokens l) with
    | error e => rw [hs] at h; cases h
    | ok s1 => rw [hs] at h; simp only [] at h ⊢; exact ih s1 h

theorem run_cons_ok (tbl) (st st' : PState) (l : Line) (ls : List Line)
    (h : step tbl st (lineTokens l) = .ok st') : run tbl st (l :: ls) = run tbl st' ls := by
  simp only [run, h]

theorem run_skip (tbl) (st : PState) (ls : List Line)
    (h : ∀ l ∈ ls, skippable (lineTokens l) = true) : run tbl st ls = .ok st := by
  induction ls with
  | nil => rfl
  | cons l t ih =>
    rw [run_cons_ok tbl st st l t (step_skippable tbl st _ (h l (by simp)))]
    exact ih (fun x hx => h x (by simp [hx]))

theorem skippable_blank : skippable (lineTokens .blank) = true := rfl
theorem skippable_comment (t : String) : skippable (lineTokens (.comment t)) = true := rfl

theorem freeOk_lines (tbl : List (String × List String)) (h : freeOk tbl = true) (name : String) :
    ∀ l ∈ linesOf tbl name, skippable (lineTokens l) = true := by
  intro l hl
  simp only [linesOf, List.mem_map] at hl
  obtain ⟨s, hs, rfl⟩ := hl
  cases hlk : tbl.lookup name with
  | none => rw [hlk] at hs; simp at hs
  | some ls =>
    rw [hlk] at hs
    have hmem : (name, ls) ∈ tbl := by
      clear h hs
      induction tbl with
      | nil => simp at hlk
      | cons p t ih =>
        obtain ⟨pn, pl⟩ := p
        simp only [List.lookup_cons] at hlk
        by_cases hp : name == pn
        · rw [hp] at hlk
          simp only [Option.some.injEq] at hlk
          have : name = pn := by simpa using hp
          simp [this, ← hlk]
        · have hp' : (name == pn) = false := by simpa using hp
          rw [hp'] at hlk
          exact List.mem_cons_of_mem _ (ih hlk)
    simp only [freeOk, List.all_eq_true] at h
    exact h _ hmem s hs

/-! ### prelude -/

theorem run_defines (tbl) (st : PState) (defs : List (String × String)) :
    run tbl st (defs.flatMap (fun d =>
      [Line.directive "#ifndef" [d.1], Line.directive "#define" [d.1, d.2],
       Line.directive "#endif" [], Line.blank])) = .ok st := by
  induction defs with
  | nil => rfl
  | cons d t ih =>
    simp only [List.flatMap_cons, List.cons_append, List.nil_append]
    rw [run_cons_ok tbl st _ _ _ (by simpa [lineTokens] using step_ifndef tbl st d.1)]
    rw [run_cons_ok tbl _ _ _ _ (by simpa [lineTokens] using step_define tbl _ [d.1, d.2])]
    rw [run_cons_ok tbl _ _ _ _ (by simpa [lineTokens] using step_endif tbl _ (d.1, false) st.guard rfl)]
    rw [run_cons_ok tbl _ _ _ _ (step_nil tbl _)]
    exact ih

theorem run_prelude (tbl) (m : Mol) (hk : keywords.contains m.moltype = false) :
    run tbl PState.init (prelude m) =
      .ok { PState.init with sect := some "moleculetype",
                             out := { PState.init.out with moltype := some (m.moltype, m.nrexcl) } } := by
  unfold prelude
  rw [List.append_assoc, List.append_assoc]
  rw [run_append_ok tbl PState.init PState.init _ _
    (run_skip tbl _ _ (by intro l hl; simp only [List.mem_map] at hl; obtain ⟨t, _, rfl⟩ := hl; rfl))]
  rw [run_append_ok tbl PState.init PState.init _ _
    (run_skip tbl _ _ (by intro l hl; split at hl <;> simp at hl; subst hl; rfl))]
  rw [run_append_ok tbl PState.init PState.init _ _ (run_defines tbl _ _)]
  rw [run_cons_ok tbl _ _ _ _ (by simpa [lineTokens] using step_sect tbl PState.init "moleculetype")]
  rw [run_cons_ok tbl _ _ _ _ (by simpa [lineTokens] using step_moltype tbl _ m.moltype m.nrexcl rfl hk)]
  rw [run_cons_ok tbl _ _ _ _ (step_nil tbl _)]
  rfl

/-! ### atoms -/

theorem run_atomLines (tbl) (w : Widths) (l : List Atom) (st : PState) (s : Nat)
    (hs : st.sect = some "atoms") (hi : s = st.out.atoms.length + 1) (hok : ∀ a ∈ l, atomOk a = true) :
    run tbl st (atomLines w l s) =
      .ok { st with out := { st.out with atoms := st.out.atoms ++ l.map toPAtom } } := by
  induction l generalizing st s with
  | nil => simp [atomLines, run]
  | cons a t ih =>
    simp only [atomLines]
    rw [run_cons_ok tbl st _ _ _ (step_atom tbl st w s a hs hi (hok a (by simp)))]
    rw [ih (pushAtom st (toPAtom a)) (s + 1) (by simpa [pushAtom] using hs)
      (by simp [pushAtom, hi]) (fun x hx => hok x (by simp [hx]))]
    simp [pushAtom]

end C02

namespace C02

theorem run_atomsPart (tbl) (m : Mol) (st : PState) (h0 : st.out.atoms = [])
    (hpre : freeOk m.pre = true) (hpost : freeOk m.post = true) (hok : ∀ a ∈ m.atoms, atomOk a = true) :
    run tbl st (atomsPart m) =
      .ok { st with sect := some "atoms",
                    out := { st.out with atoms := (sortedNodes m).map toPAtom } } := by
  unfold atomsPart
  rw [List.append_assoc, List.append_assoc, List.append_assoc]
  rw [run_append_ok tbl st { st with sect := some "atoms" } _ _
    (by rw [run_cons_ok tbl st _ _ _ (by simpa [lineTokens] using step_sect tbl st "atoms")]; rfl)]
  rw [run_append_ok tbl _ _ _ _ (run_skip tbl _ _ (freeOk_lines m.pre hpre "atoms"))]
  rw [run_append_ok tbl _ _ _ _ (run_atomLines tbl (widthsOf m) (sortedNodes m) _ 1 rfl (by simp [h0])
    (fun a ha => hok a ((sortedNodes_perm m).mem_iff.mp ha)))]
  rw [run_append_ok tbl _ _ _ _ (run_skip tbl _ _ (freeOk_lines m.post hpost "atoms"))]
  rw [run_cons_ok tbl _ _ _ _ (step_nil tbl _)]
  simp [run, h0]

/-! ### interaction lines, blocks, sections: pure versions of the writer's pieces -/

def idxsOf (c : List (Int × Nat)) (i : Inter) : List Nat := i.atoms.filterMap (lookupIdx c)

def interLine (c : List (Int × Nat)) (w : Nat) (vsn : Bool) (i : Inter) : Line :=
  .inter w vsn (idxsOf c i) i.params i.comment

def guardOpen (k : Key) : List Line :=
  match k.cond with
  | some (d, flag) => [Line.directive (if flag then "#ifdef" else "#ifndef") [d]]
  | none => []

def guardClose (k : Key) : List Line :=
  match k.cond with
  | some _ => [Line.directive "#endif" []]
  | none => []

def groupLine (k : Key) : List Line := if k.group = "" then [] else [Line.comment k.group]

def blockLines (c : List (Int × Nat)) (w : Nat) (name : String) (post : List Line) (blk : Key × List Inter) :
    List Line :=
  guardOpen blk.1 ++ groupLine blk.1 ++ blk.2.map (interLine c w (name == "virtual_sitesn"))
    ++ guardClose blk.1 ++ post ++ [Line.blank]

def sectionLines (m : Mol) (c : List (Int × Nat)) (w : Nat) (s : Nat × String × List Inter) : List Line :=
  [Line.sect (retag s.2.1)] ++ linesOf m.pre (retag s.2.1)
    ++ ((groupRuns (sortInters s.2.2)).map (blockLines c w (retag s.2.1) (linesOf m.post (retag s.2.1)))).flatten

/-- the facts about one in-memory interaction that make its line readable -/
structure InterReady (c : List (Int × Nat)) (N : Nat) (ar : Arity) (i : Inter) : Prop where
  lookups : ∀ k ∈ i.atoms, (lookupIdx c k).isSome = true
  range : ∀ k ∈ i.atoms, ∀ n, lookupIdx c k = some n → 1 ≤ n ∧ n ≤ N
  fits : arityFits ar i.atoms.length i.params
  nonempty : i.atoms ≠ []

theorem mapM_eq_filterMap {α β} (f : α → Option β) (l : List α) (h : ∀ x ∈ l, (f x).isSome = true) :
    l.mapM f = some (l.filterMap f) ∧ (l.filterMap f).length = l.length := by
  induction l with
  | nil => exact ⟨rfl, rfl⟩
  | cons a t ih =>
    obtain ⟨b, hb⟩ := Option.isSome_iff_exists.mp (h a (by simp))
    obtain ⟨h1, h2⟩ := ih (fun x hx => h x (by simp [hx]))
    rw [List.mapM_cons, hb, h1, List.filterMap_cons, hb]
    exact ⟨rfl, by simp [h2]⟩

theorem idxsOf_length {c N ar i} (h : InterReady c N ar i) : (idxsOf c i).length = i.atoms.length :=
  (mapM_eq_filterMap _ _ h.lookups).2

theorem idxsOf_range {c N ar i} (h : InterReady c N ar i) : ∀ n ∈ idxsOf c i, 1 ≤ n ∧ n ≤ N := by
  intro n hn
  simp only [idxsOf, List.mem_filterMap] at hn
  obtain ⟨k, hk, hkn⟩ := hn
  exact h.range k hk n hkn

theorem writeInter_ok {c N ar i} (w : Nat) (vsn : Bool) (h : InterReady c N ar i) :
    writeInter c w vsn i = .ok (interLine c w vsn i) := by
  unfold writeInter
  rw [(mapM_eq_filterMap _ _ h.lookups).1]
  have hne : (i.atoms.filterMap (lookupIdx c)).isEmpty = false := by
    have hl := idxsOf_length h
    have hn := h.nonempty
    unfold idxsOf at hl
    cases hf : List.filterMap (lookupIdx c) i.atoms with
    | nil =>
      rw [hf] at hl
      exact absurd (List.eq_nil_of_length_eq_zero hl.symm) hn
    | cons _ _ => rfl
  simp only [hne, Bool.and_false, Bool.false_eq_true, if_false]
  rfl

theorem writeBlock_ok {c N ar} (w : Nat) (name : String) (post : List Line) (blk : Key × List Inter)
    (h : ∀ i ∈ blk.2, InterReady c N ar i) :
    writeBlock c w name post blk = .ok (blockLines c w name post blk) := by
  unfold writeBlock
  rw [mapM_except_ok_of_forall _ (interLine c w (name == "virtual_sitesn")) _
    (fun i hi => writeInter_ok w _ (h i hi))]
  rfl

/-! ### `groupby` -/

theorem groupRuns_keys (l : List Inter) : ∀ blk ∈ groupRuns l, ∀ i ∈ blk.2, keyOf i = blk.1 := by
  induction l with
  | nil => intro blk h; simp [groupRuns] at h
  | cons a t ih =>
    intro blk hblk i hi
    simp only [groupRuns] at hblk
    cases hg : groupRuns t with
    | nil =>
      rw [hg] at hblk
      simp only [List.mem_singleton] at hblk
      subst hblk
      simp only [List.mem_singleton] at hi
      subst hi; rfl
    | cons b gs =>
      obtain ⟨k, is⟩ := b
      rw [hg] at hblk ih
      simp only [] at hblk
      by_cases hk : keyOf a = k
      · rw [if_pos hk] at hblk
        simp only [List.mem_cons] at hblk
        rcases hblk with rfl | hblk
        · simp only [List.mem_cons] at hi
          rcases hi with rfl | hi
          · exact hk
          · exact ih (k, is) (by simp) i hi
        · exact ih blk (by simp [hblk]) i hi
      · rw [if_neg hk] at hblk
        simp only [List.mem_cons] at hblk
        rcases hblk with rfl | rfl | hblk
        · simp only [List.mem_singleton] at hi
          subst hi; rfl
        · exact ih (k, is) (by simp) i hi
        · exact ih blk (by simp [hblk]) i hi

theorem groupRuns_flatten (l : List Inter) : (groupRuns l).flatMap (·.2) = l := by
  induction l with
  | nil => rfl
  | cons a t ih =>
    simp only [groupRuns]
    cases hg : groupRuns t with
    | nil =>
      rw [hg] at ih
      simp only [List.flatMap_nil] at ih
      simp [← ih]
    | cons b gs =>
      obtain ⟨k, is⟩ := b
      rw [hg] at ih
      simp only []
      by_cases hk : keyOf a = k
      · rw [if_pos hk]
        simp only [List.flatMap_cons, List.cons_append] at ih ⊢
        rw [ih]
      · rw [if_neg hk]
        simp only [List.flatMap_cons, List.cons_append, List.nil_append] at ih ⊢
        rw [ih]

theorem groupRuns_mem (l : List Inter) : ∀ blk ∈ groupRuns l, ∀ i ∈ blk.2, i ∈ l := by
  intro blk hblk i hi
  rw [← groupRuns_flatten l]
  exact List.mem_flatMap.mpr ⟨blk, hblk, hi⟩

end C02

namespace C02

def pinterOf (c : List (Int × Nat)) (s : String) (g : List (String × Bool)) (i : Inter) : PInter :=
  ⟨s, g, idxsOf c i, i.params⟩

theorem run_interLines (tbl : List (String × Arity)) (c : List (Int × Nat)) (w : Nat) (s : String) (ar : Arity)
    (is : List Inter) (st : PState)
    (hs : st.sect = some s) (h1 : s ≠ "moleculetype") (h2 : s ≠ "atoms")
    (ht : tbl.lookup s = some ar) (hv : (ar = .firstSkip) ↔ (s = "virtual_sitesn"))
    (hr : ∀ i ∈ is, InterReady c st.out.atoms.length ar i) :
    run tbl st (is.map (interLine c w (s == "virtual_sitesn")))
      = .ok { st with out := { st.out with inters := st.out.inters ++ is.map (pinterOf c s st.guard) } } := by
  induction is generalizing st with
  | nil => simp [run]
  | cons i t ih =>
    have hi := hr i (by simp)
    simp only [List.map_cons]
    have hstep : step tbl st (lineTokens (interLine c w (s == "virtual_sitesn") i)) = .ok _ :=
      step_inter tbl st s ar w (idxsOf c i) i.params i.comment hs h1 h2 ht
        (by rw [idxsOf_length hi]; exact hi.fits) hv (idxsOf_range hi)
    rw [run_cons_ok tbl st _ _ _ hstep]
    rw [ih { st with out := { st.out with
        inters := st.out.inters ++ [⟨s, st.guard, idxsOf c i, i.params⟩] } } hs
      (fun j hj => hr j (by simp [hj]))]
    simp [pinterOf]

def guardList (k : Key) : List (String × Bool) :=
  match k.cond with
  | some cnd => [cnd]
  | none => []

theorem run_block (tbl : List (String × Arity)) (c : List (Int × Nat)) (w : Nat) (s : String) (ar : Arity)
    (post : List Line) (blk : Key × List Inter) (st : PState)
    (hs : st.sect = some s) (hg : st.guard = []) (h1 : s ≠ "moleculetype") (h2 : s ≠ "atoms")
    (ht : tbl.lookup s = some ar) (hv : (ar = .firstSkip) ↔ (s = "virtual_sitesn"))
    (hr : ∀ i ∈ blk.2, InterReady c st.out.atoms.length ar i)
    (hpost : ∀ l ∈ post, skippable (lineTokens l) = true) :
    run tbl st (blockLines c w s post blk)
      = .ok { st with out := { st.out with
                inters := st.out.inters ++ blk.2.map (pinterOf c s (guardList blk.1)) } } := by
  obtain ⟨k, is⟩ := blk
  unfold blockLines
  simp only [List.append_assoc]
  cases hc : k.cond with
  | none =>
    simp only [guardOpen, guardClose, guardList, hc, List.nil_append]
    rw [run_append_ok tbl st st _ _ (run_skip tbl _ _ (by
      intro l hl; unfold groupLine at hl; split at hl <;> simp at hl; subst hl; rfl))]
    rw [run_append_ok tbl st _ _ _ (run_interLines tbl c w s ar is st hs h1 h2 ht hv hr)]
    rw [run_append_ok tbl _ _ _ _ (run_skip tbl _ _ hpost)]
    rw [run_cons_ok tbl _ _ _ _ (step_nil tbl _)]
    simp [run, hg]
  | some cnd =>
    obtain ⟨d, flag⟩ := cnd
    simp only [guardOpen, guardClose, guardList, hc, List.cons_append, List.nil_append]
    have hopen : step tbl st (lineTokens (Line.directive (if flag then "#ifdef" else "#ifndef") [d]))
        = .ok { st with guard := [(d, flag)] } := by
      cases flag
      · simpa [lineTokens, hg] using step_ifndef tbl st d
      · simpa [lineTokens, hg] using step_ifdef tbl st d
    rw [run_cons_ok tbl st _ _ _ hopen]
    rw [run_append_ok tbl _ _ _ _ (run_skip tbl _ _ (by
      intro l hl; unfold groupLine at hl; split at hl <;> simp at hl; subst hl; rfl))]
    rw [run_append_ok tbl _ _ _ _ (run_interLines tbl c w s ar is { st with guard := [(d, flag)] }
      hs h1 h2 ht hv hr)]
    rw [run_cons_ok tbl _ _ _ _ (by simpa [lineTokens] using step_endif tbl _ (d, flag) [] rfl)]
    rw [run_append_ok tbl _ _ _ _ (run_skip tbl _ _ hpost)]
    rw [run_cons_ok tbl _ _ _ _ (step_nil tbl _)]
    simp [run, hg]

theorem run_blocks (tbl : List (String × Arity)) (c : List (Int × Nat)) (w : Nat) (s : String) (ar : Arity)
    (post : List Line) (blks : List (Key × List Inter)) (st : PState)
    (hs : st.sect = some s) (hg : st.guard = []) (h1 : s ≠ "moleculetype") (h2 : s ≠ "atoms")
    (ht : tbl.lookup s = some ar) (hv : (ar = .firstSkip) ↔ (s = "virtual_sitesn"))
    (hr : ∀ blk ∈ blks, ∀ i ∈ blk.2, InterReady c st.out.atoms.length ar i)
    (hpost : ∀ l ∈ post, skippable (lineTokens l) = true) :
    run tbl st ((blks.map (blockLines c w s post)).flatten)
      = .ok { st with out := { st.out with
                inters := st.out.inters
                  ++ blks.flatMap (fun blk => blk.2.map (pinterOf c s (guardList blk.1))) } } := by
  induction blks generalizing st with
  | nil => simp [run]
  | cons b t ih =>
    simp only [List.map_cons, List.flatten_cons, List.flatMap_cons]
    rw [run_append_ok tbl st _ _ _ (run_block tbl c w s ar post b st hs hg h1 h2 ht hv
      (hr b (by simp)) hpost)]
    rw [ih { st with out := { st.out with
        inters := st.out.inters ++ b.2.map (pinterOf c s (guardList b.1)) } } hs hg
      (fun blk hb => hr blk (by simp [hb]))]
    simp

end C02
