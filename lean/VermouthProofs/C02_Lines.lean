import VermouthProofs.C02_Chars
/-! Character level, per line kind: `tokenize (renderLine l) = lineTokens l`. -/
namespace C02

def tokS (s : String) : Prop := TokC s.toList

theorem digit_not_ws (c : Char) (h : c.isDigit = true) : isWs c = false ∧ c ≠ ';' := by
  refine ⟨?_, ?_⟩
  · simp only [isWs, Bool.or_eq_false_iff, decide_eq_false_iff_not]
    refine ⟨⟨⟨⟨⟨?_, ?_⟩, ?_⟩, ?_⟩, ?_⟩, ?_⟩ <;> (intro e; subst e; revert h; decide)
  · intro e; subst e; revert h; decide

theorem tokS_toString (n : Nat) : tokS (toString n) := by
  show TokC (Nat.repr n).toList
  rw [Nat.toList_repr]
  exact ⟨Nat.toDigits_ne_nil, fun c hc => digit_not_ws c (Nat.isDigit_of_mem_toDigits (by omega) (by omega) hc)⟩

def tokCell (s : String) : Cell := ⟨0, some s.toList, 0⟩
def padLCell (w : Nat) (s : String) : Cell :=
  if s = "" then ⟨w - s.length, none, 0⟩ else ⟨w - s.length, some s.toList, 0⟩
def padRCell (w : Nat) (s : String) : Cell := ⟨0, some s.toList, w - s.length⟩

theorem tokCell_chars (s : String) : (tokCell s).chars = s.toList := by
  simp [tokCell, Cell.chars, spaces]
theorem padRCell_chars (w : Nat) (s : String) : (padRCell w s).chars = padR w s := by
  simp [padRCell, Cell.chars, spaces, padR]
theorem padLCell_chars (w : Nat) (s : String) : (padLCell w s).chars = padL w s := by
  unfold padLCell
  split
  · next h => subst h; simp [Cell.chars, spaces, padL]
  · simp [Cell.chars, spaces, padL]

theorem tokCell_ok (s : String) (h : tokS s) : (tokCell s).ok := by
  intro t ht; simp only [tokCell, Option.some.injEq] at ht; subst ht; exact h
theorem padRCell_ok (w : Nat) (s : String) (h : tokS s) : (padRCell w s).ok := by
  intro t ht; simp only [padRCell, Option.some.injEq] at ht; subst ht; exact h
theorem padLCell_ok (w : Nat) (s : String) (h : s = "" ∨ tokS s) : (padLCell w s).ok := by
  intro t ht
  unfold padLCell at ht
  split at ht
  · cases ht
  · next hne =>
    simp only [Option.some.injEq] at ht; subst ht
    rcases h with h | h
    · exact absurd h hne
    · exact h

theorem tokCell_tok (s : String) : ((tokCell s).tok.map String.ofList).toList = [s] := by
  simp [tokCell, String.ofList_toList]
theorem padRCell_tok (w : Nat) (s : String) : ((padRCell w s).tok.map String.ofList).toList = [s] := by
  simp [padRCell, String.ofList_toList]
theorem padLCell_tok (w : Nat) (s : String) :
    ((padLCell w s).tok.map String.ofList).toList = if s = "" then [] else [s] := by
  unfold padLCell
  split <;> simp [String.ofList_toList]
theorem padLCell_tok_ne (w : Nat) (s : String) (h : tokS s) :
    ((padLCell w s).tok.map String.ofList).toList = [s] := by
  rw [padLCell_tok]
  have : s ≠ "" := by
    intro e; subst e; exact h.1 rfl
  simp [this]

/-- what the character-level lemma needs to know about a line -/
def LineOk : Line → Prop
  | .blank => True
  | .comment _ => True
  | .sect n => tokS n
  | .directive kw args => tokS kw ∧ ∀ a ∈ args, tokS a
  | .free _ => True
  | .moltype a b => tokS a ∧ tokS b
  | .atom _ _ a => tokS a.atype ∧ tokS a.resid ∧ tokS a.resname ∧ tokS a.atomname ∧ tokS a.cgnr
      ∧ (a.charge = "" ∨ tokS a.charge) ∧ (a.mass = "" ∨ tokS a.mass)
  | .inter _ vsn atoms params _ => (∀ p ∈ params, tokS p) ∧ (vsn = true → atoms ≠ [])

theorem joinSp_append (xs r : List (List Char)) (hx : xs ≠ []) (hr : r ≠ []) :
    joinSp (xs ++ r) = joinSp xs ++ ' ' :: joinSp r := by
  induction xs with
  | nil => exact absurd rfl hx
  | cons x xs' ih =>
    cases xs' with
    | nil =>
      cases r with
      | nil => exact absurd rfl hr
      | cons b r' => rfl
    | cons x2 xs'' =>
      rw [List.cons_append, List.cons_append, joinSp_cons_cons, joinSp_cons_cons]
      rw [← List.cons_append, ih (by simp)]
      simp

theorem joinSp_singleton (a : List Char) : joinSp [a] = a := rfl

theorem joinSp_insert_join (xs ys zs : List (List Char)) (hy : ys ≠ []) :
    joinSp (xs ++ joinSp ys :: zs) = joinSp (xs ++ ys ++ zs) := by
  have hA : joinSp (joinSp ys :: zs) = joinSp (ys ++ zs) := by
    cases zs with
    | nil => simp [joinSp_singleton]
    | cons z zs' =>
      rw [joinSp_cons_cons, joinSp_append ys (z :: zs') hy (by simp)]
  cases xs with
  | nil => simpa using hA
  | cons x xs' =>
    rw [joinSp_append (x :: xs') _ (by simp) (by simp), hA, List.append_assoc,
      joinSp_append (x :: xs') (ys ++ zs) (by simp) (by simp [hy])]

end C02

namespace C02

def emptyCell : Cell := ⟨0, none, 0⟩
theorem emptyCell_chars : emptyCell.chars = [] := by simp [emptyCell, Cell.chars, spaces]
theorem emptyCell_ok : emptyCell.ok := by intro t ht; cases ht

theorem tokS_lb : tokS "[" := by
  refine ⟨by simp, ?_⟩
  intro c hc
  simp only [String.reduceToList, List.mem_singleton] at hc
  subst hc
  exact ⟨by decide, by decide⟩

theorem tokS_rb : tokS "]" := by
  refine ⟨by simp, ?_⟩
  intro c hc
  simp only [String.reduceToList, List.mem_singleton] at hc
  subst hc
  exact ⟨by decide, by decide⟩

/-- cells of an interaction line -/
def interCells (w : Nat) (vsn : Bool) (atoms : List Nat) (params : List String) : List Cell :=
  let cells := atoms.map (fun (i : Nat) => padLCell w (toString i))
  let ps := if params = [] then [emptyCell] else params.map tokCell
  if vsn then
    (match cells with
     | a :: rest => a :: ps ++ rest
     | [] => ps)
  else cells ++ ps

theorem map_padLCell_chars (w : Nat) (atoms : List Nat) :
    (atoms.map (fun (i : Nat) => padLCell w (toString i))).map Cell.chars
      = atoms.map (fun (i : Nat) => padL w (toString i)) := by
  rw [List.map_map]
  apply List.map_congr_left
  intro i _
  exact padLCell_chars w (toString i)

theorem map_tokCell_chars (ps : List String) : (ps.map tokCell).map Cell.chars = ps.map String.toList := by
  rw [List.map_map]
  apply List.map_congr_left
  intro p _
  exact tokCell_chars p

theorem interCells_chars (w : Nat) (vsn : Bool) (atoms : List Nat) (params : List String) :
    joinSp ((interCells w vsn atoms params).map Cell.chars)
      = joinSp (if vsn then
          (match atoms.map (fun (i : Nat) => padL w (toString i)) with
           | a :: rest => a :: joinSp (params.map String.toList) :: rest
           | [] => [joinSp (params.map String.toList)])
        else atoms.map (fun (i : Nat) => padL w (toString i)) ++ [joinSp (params.map String.toList)]) := by
  unfold interCells
  by_cases hp : params = []
  · subst hp
    cases vsn
    · simp only [Bool.false_eq_true, if_false, if_true, List.map_append, map_padLCell_chars,
        List.map_cons, List.map_nil, emptyCell_chars, joinSp]
    · cases atoms with
      | nil => simp [emptyCell_chars, joinSp]
      | cons a rest =>
        simp only [if_true, List.map_cons, List.cons_append, List.nil_append, List.map_nil,
          emptyCell_chars, padLCell_chars, map_padLCell_chars, joinSp]
  · have hne : params.map String.toList ≠ [] := by simpa using hp
    cases vsn
    · simp only [Bool.false_eq_true, if_false, hp, List.map_append, map_padLCell_chars, map_tokCell_chars]
      have := joinSp_insert_join (atoms.map (fun (i : Nat) => padL w (toString i)))
        (params.map String.toList) [] hne
      simp only [List.append_nil] at this
      rw [this]
    · cases atoms with
      | nil =>
        simp only [if_true, hp, if_false, List.map_nil, map_tokCell_chars, joinSp_singleton]
      | cons a rest =>
        simp only [if_true, hp, if_false, List.map_cons, List.map_append, map_tokCell_chars,
          map_padLCell_chars, padLCell_chars]
        have := joinSp_insert_join [padL w (toString a)] (params.map String.toList)
          (rest.map (fun (i : Nat) => padL w (toString i))) hne
        simp only [List.cons_append, List.nil_append] at this ⊢
        rw [← this]

theorem interCells_ok (w : Nat) (vsn : Bool) (atoms : List Nat) (params : List String)
    (hp : ∀ p ∈ params, tokS p) : ∀ c ∈ interCells w vsn atoms params, c.ok := by
  have hA : ∀ c ∈ atoms.map (fun (i : Nat) => padLCell w (toString i)), c.ok := by
    intro c hc
    simp only [List.mem_map] at hc
    obtain ⟨i, _, rfl⟩ := hc
    exact padLCell_ok w _ (Or.inr (tokS_toString i))
  have hP : ∀ c ∈ (if params = [] then [emptyCell] else params.map tokCell), c.ok := by
    intro c hc
    split at hc
    · simp only [List.mem_singleton] at hc; subst hc; exact emptyCell_ok
    · simp only [List.mem_map] at hc
      obtain ⟨p, hpm, rfl⟩ := hc
      exact tokCell_ok p (hp p hpm)
  intro c hc
  unfold interCells at hc
  simp only [] at hc
  split at hc
  · split at hc
    · next a rest heq =>
      simp only [List.mem_cons, List.mem_append] at hc
      rcases hc with (rfl | hc) | hc
      · exact hA _ (by rw [heq]; simp)
      · exact hP c hc
      · exact hA c (by rw [heq]; simp [hc])
    · exact hP c hc
  · simp only [List.mem_append] at hc
    rcases hc with hc | hc
    · exact hA c hc
    · exact hP c hc

theorem flatMap_padLCell_tok (w : Nat) (atoms : List Nat) :
    (atoms.map (fun (i : Nat) => padLCell w (toString i))).flatMap
        (fun c => (c.tok.map String.ofList).toList)
      = atoms.map (fun (i : Nat) => toString i) := by
  induction atoms with
  | nil => rfl
  | cons a t ih =>
    simp only [List.map_cons, List.flatMap_cons, ih, padLCell_tok_ne w _ (tokS_toString a)]
    rfl

theorem flatMap_tokCell_tok (params : List String) :
    (params.map tokCell).flatMap (fun c => (c.tok.map String.ofList).toList) = params := by
  induction params with
  | nil => rfl
  | cons p t ih =>
    simp only [List.map_cons, List.flatMap_cons, tokCell_tok, ih]
    rfl

theorem flatMap_params_tok (params : List String) :
    (if params = [] then [emptyCell] else params.map tokCell).flatMap
        (fun c => (c.tok.map String.ofList).toList) = params := by
  split
  · next h => subst h; simp [emptyCell]
  · exact flatMap_tokCell_tok params

theorem interCells_tok (w : Nat) (vsn : Bool) (atoms : List Nat) (params : List String) :
    (interCells w vsn atoms params).flatMap (fun c => (c.tok.map String.ofList).toList)
      = lineTokens (.inter w vsn atoms params none) := by
  unfold interCells lineTokens
  simp only []
  cases vsn
  · simp only [Bool.false_eq_true, if_false, List.flatMap_append, flatMap_padLCell_tok, flatMap_params_tok]
  · cases atoms with
    | nil =>
      simp only [if_true, List.map_nil, flatMap_params_tok]
    | cons a rest =>
      simp only [if_true, List.map_cons, List.flatMap_cons, List.flatMap_append, flatMap_params_tok,
        flatMap_padLCell_tok, padLCell_tok_ne w _ (tokS_toString a), List.cons_append, List.nil_append]

theorem interCells_ne (w : Nat) (vsn : Bool) (atoms : List Nat) (params : List String) :
    interCells w vsn atoms params ≠ [] := by
  unfold interCells
  simp only []
  have hP : (if params = [] then [emptyCell] else params.map tokCell) ≠ [] := by
    split
    · simp
    · next h => simpa using h
  split
  · split
    · simp
    · exact hP
  · intro e
    exact hP (List.append_eq_nil_iff.mp e).2

end C02

namespace C02

theorem tokenize_nil : tokenizeChars [] = [] := rfl

theorem renderLine_inter_eq (w : Nat) (vsn : Bool) (atoms : List Nat) (params : List String) :
    renderLineChars (.inter w vsn atoms params none)
      = joinSp ((interCells w vsn atoms params).map Cell.chars) := by
  have h := interCells_chars w vsn atoms params
  cases vsn
  · simp only [Bool.false_eq_true, if_false] at h
    simp only [renderLineChars, Bool.false_eq_true, if_false, List.append_nil]
    exact h.symm
  · cases atoms with
    | nil =>
      simp only [if_true, List.map_nil] at h
      simp only [renderLineChars, if_true, List.map_nil, List.append_nil]
      exact h.symm
    | cons a rest =>
      simp only [if_true, List.map_cons] at h
      simp only [renderLineChars, if_true, List.map_cons, List.append_nil]
      exact h.symm

theorem renderLine_inter_comment (w : Nat) (vsn : Bool) (atoms : List Nat) (params : List String) (c : String) :
    renderLineChars (.inter w vsn atoms params (some c))
      = renderLineChars (.inter w vsn atoms params none) ++ ' ' :: ';' :: ' ' :: c.toList := by
  simp only [renderLineChars, List.append_nil]

/-- **Character level, one line**: tokenising the rendered characters of a written line gives
exactly the tokens the line carries. -/
theorem tokenize_renderLine (l : Line) (h : LineOk l) : tokenizeChars (renderLineChars l) = lineTokens l := by
  cases l with
  | blank => rfl
  | comment t =>
    simp [renderLineChars, tokenizeChars, stripComment, lineTokens, splitWs, splitGo]
  | sect n =>
    have := tokenize_cells [tokCell "[", tokCell n, tokCell "]"] (by
      intro c hc
      simp only [List.mem_cons, List.not_mem_nil, or_false] at hc
      rcases hc with rfl | rfl | rfl
      · exact tokCell_ok _ tokS_lb
      · exact tokCell_ok _ h
      · exact tokCell_ok _ tokS_rb)
    simp only [List.map_cons, List.map_nil, tokCell_chars, List.flatMap_cons, List.flatMap_nil,
      tokCell_tok, List.append_nil, List.cons_append, List.nil_append] at this
    simpa [renderLineChars, lineTokens] using this
  | directive kw args =>
    obtain ⟨hk, ha⟩ := h
    have := tokenize_cells (tokCell kw :: args.map tokCell) (by
      intro c hc
      simp only [List.mem_cons, List.mem_map] at hc
      rcases hc with rfl | ⟨a, ham, rfl⟩
      · exact tokCell_ok _ hk
      · exact tokCell_ok _ (ha a ham))
    simp only [List.map_cons, tokCell_chars, map_tokCell_chars, List.flatMap_cons, tokCell_tok,
      flatMap_tokCell_tok, List.cons_append, List.nil_append] at this
    simpa [renderLineChars, lineTokens] using this
  | free t => rfl
  | moltype a b =>
    have := tokenize_cells [tokCell a, tokCell b] (by
      intro c hc
      simp only [List.mem_cons, List.not_mem_nil, or_false] at hc
      rcases hc with rfl | rfl
      · exact tokCell_ok _ h.1
      · exact tokCell_ok _ h.2)
    simp only [List.map_cons, List.map_nil, tokCell_chars, List.flatMap_cons, List.flatMap_nil,
      tokCell_tok, List.append_nil, List.cons_append, List.nil_append] at this
    simpa [renderLineChars, lineTokens] using this
  | atom w i a =>
    obtain ⟨h1, h2, h3, h4, h5, h6, h7⟩ := h
    have := tokenize_cells
      [padLCell w.idx (toString i), padRCell w.atype a.atype, padLCell w.resid a.resid,
       padRCell w.resname a.resname, padRCell w.atomname a.atomname, padLCell w.cgnr a.cgnr,
       padLCell w.charge a.charge, padLCell w.mass a.mass] (by
      intro c hc
      simp only [List.mem_cons, List.not_mem_nil, or_false] at hc
      rcases hc with rfl | rfl | rfl | rfl | rfl | rfl | rfl | rfl
      · exact padLCell_ok _ _ (Or.inr (tokS_toString i))
      · exact padRCell_ok _ _ h1
      · exact padLCell_ok _ _ (Or.inr h2)
      · exact padRCell_ok _ _ h3
      · exact padRCell_ok _ _ h4
      · exact padLCell_ok _ _ (Or.inr h5)
      · exact padLCell_ok _ _ h6
      · exact padLCell_ok _ _ h7)
    simp only [List.map_cons, List.map_nil, padLCell_chars, padRCell_chars, List.flatMap_cons,
      List.flatMap_nil, padRCell_tok, padLCell_tok_ne _ _ (tokS_toString i), padLCell_tok_ne _ _ h2,
      padLCell_tok_ne _ _ h5, padLCell_tok, List.append_nil, List.cons_append, List.nil_append] at this
    simp only [renderLineChars, lineTokens]
    rw [this]
    simp
  | inter w vsn atoms params comment =>
    have hok := interCells_ok w vsn atoms params h.1
    have htok := interCells_tok w vsn atoms params
    have hl : lineTokens (.inter w vsn atoms params comment) = lineTokens (.inter w vsn atoms params none) := rfl
    rw [hl, ← htok]
    cases comment with
    | none =>
      rw [renderLine_inter_eq]
      exact tokenize_cells _ hok
    | some c =>
      rw [renderLine_inter_comment, renderLine_inter_eq]
      exact tokenize_cells_comment _ hok (interCells_ne w vsn atoms params) _

end C02
