import VermouthProofs.C01_Read
/-! C01 — after the placement loop: particles' attributes, edges between placements, warnings. -/
namespace C01
open C12

theorem mem_map_fst_iff_lookup (inner : List (Int × Rat)) (x : Int) :
    x ∈ inner.map Prod.fst ↔ ∃ w, inner.lookup x = some w := by
  induction inner with
  | nil => simp [List.lookup]
  | cons p r ih =>
    obtain ⟨k, w⟩ := p
    by_cases h : x = k
    · subst h; simp [List.lookup]
    · have hb : (x == k) = false := by simpa using h
      simp only [List.map_cons, List.mem_cons, h, false_or, List.lookup, hb, ih]

theorem lastW_isSome_iff (a b : Int) (es : List (Int × Int × Rat)) :
    (∃ w, lastW a b es none = some w) ↔ ∃ w, (a, b, w) ∈ es := by
  constructor
  · rintro ⟨w, h⟩
    rcases lastW_some a b es none w h with h | h
    · exact ⟨w, h⟩
    · cases h
  · rintro ⟨w, h⟩
    cases hl : lastW a b es none with
    | some w' => exact ⟨w', rfl⟩
    | none => exact absurd ⟨rfl, rfl⟩ ((lastW_none a b es none hl).2 _ h)

theorem mem_beadsOf (st : St) (a x : Int) :
    x ∈ beadsOf st a ↔ (∃ w, get2 st.molToOut a x = some w) ∧ x ∉ st.spawned := by
  unfold beadsOf get2
  simp only [List.mem_filter, Bool.not_eq_true', List.contains_eq_mem, decide_eq_false_iff_not]
  apply and_congr_left
  intro _
  cases h : st.molToOut.lookup a with
  | none => simp
  | some inner => simp only [Option.getD_some, Option.bind_some]; exact mem_map_fst_iff_lookup inner x

theorem placeAll_spec (qs : List Placement) (hok : (placeAll qs).err = none) :
    (placeAll qs).out.nodes = nodesSpec Off.zero qs
    ∧ (placeAll qs).molToOut = addEntries [] (logSpec Off.zero qs)
    ∧ (placeAll qs).outToMol = addEntriesRev [] (logSpec Off.zero qs)
    ∧ (∀ x, x ∈ (placeAll qs).spawned ↔ x ∈ spawnedSpec Off.zero qs)
    ∧ (placeAll qs).placed = qs.map (·.atoms)
    ∧ (placeAll qs).out.inters = intersSpec Off.zero qs
    ∧ (∀ x y, (placeAll qs).out.hasEdge x y = true ↔
         (x, y) ∈ edgesSpec Off.zero qs ∨ (y, x) ∈ edgesSpec Off.zero qs) := by
  unfold placeAll at hok ⊢
  obtain ⟨t1, _, t3, t4, t5, t6, t7, t8⟩ := fold_spec qs {} Off.zero inv_empty rfl hok
  refine ⟨by simpa using t1, t3, t4, ?_, by simpa using t6, by simpa using t7, ?_⟩
  · intro x; rw [t5]; simp
  · intro x y; rw [t8]; simp [Mol.hasEdge]

/-- a particle reached from atom `a`: some placement assigned `a` to it, and it is not spawned -/
theorem mem_beadsOf_placeAll (qs : List Placement) (hok : (placeAll qs).err = none) (a x : Int) :
    x ∈ beadsOf (placeAll qs) a ↔
      (∃ w, (a, x, w) ∈ logSpec Off.zero qs) ∧ x ∉ spawnedSpec Off.zero qs := by
  obtain ⟨_, t2, _, t4, _⟩ := placeAll_spec qs hok
  rw [mem_beadsOf, t2]
  simp only [get2_addEntries, t4]
  rw [show get2 ([] : Dict2) a x = none from rfl, lastW_isSome_iff]

theorem mem_interEdges (m : MolIn) (st : St) (u v : Int) :
    (u, v) ∈ interEdges m st ↔
      ∃ ab ∈ crossBonds m st, u ∈ beadsOf st ab.1 ∧ v ∈ beadsOf st ab.2 ∧ u ≠ v := by
  unfold interEdges
  simp only [List.mem_flatMap, List.mem_map, List.mem_filter, Prod.mk.injEq, bne_iff_ne, ne_eq]
  constructor
  · rintro ⟨ab, hab, u', hu', v', ⟨hv', hne⟩, rfl, rfl⟩
    exact ⟨ab, hab, hu', hv', hne⟩
  · rintro ⟨ab, hab, hu, hv, hne⟩
    exact ⟨ab, hab, u, hu, v, ⟨hv, hne⟩, rfl, rfl⟩

theorem mem_crossBonds (m : MolIn) (st : St) (a b : Int) :
    (a, b) ∈ crossBonds m st ↔ ∃ kk ∈ pairsOf st.placed, a ∈ kk.1 ∧ b ∈ kk.2 ∧ m.adj a b = true := by
  unfold crossBonds edgesBetween
  simp only [List.mem_flatMap, List.mem_map, List.mem_filter, Prod.mk.injEq]
  constructor
  · rintro ⟨kk, hkk, a', ha', b', ⟨hb', hadj⟩, rfl, rfl⟩
    exact ⟨kk, hkk, ha', hb', hadj⟩
  · rintro ⟨kk, hkk, ha, hb, hadj⟩
    exact ⟨kk, hkk, a, ha, b, ⟨hb, hadj⟩, rfl, rfl⟩

/-- adding the edges between placements changes nothing but the edge set -/
theorem withInterEdges_spec (m : MolIn) (qs : List Placement) (hok : (placeAll qs).err = none) :
    (withInterEdges m (placeAll qs)).nodes = (placeAll qs).out.nodes
    ∧ (withInterEdges m (placeAll qs)).inters = (placeAll qs).out.inters
    ∧ ∀ x y, (withInterEdges m (placeAll qs)).hasEdge x y = true ↔
        (placeAll qs).out.hasEdge x y = true ∨ (x, y) ∈ interEdges m (placeAll qs)
          ∨ (y, x) ∈ interEdges m (placeAll qs) := by
  have hin : ∀ e ∈ interEdges m (placeAll qs), e.1 ∈ (placeAll qs).out.keys ∧ e.2 ∈ (placeAll qs).out.keys := by
    intro e he
    obtain ⟨e1, e2⟩ := e
    obtain ⟨ab, _, hu, hv, _⟩ := (mem_interEdges m _ e1 e2).1 he
    obtain ⟨⟨w1, h1⟩, _⟩ := (mem_beadsOf_placeAll qs hok _ _).1 hu
    obtain ⟨⟨w2, h2⟩, _⟩ := (mem_beadsOf_placeAll qs hok _ _).1 hv
    have hn := (placeAll_spec qs hok).1
    unfold Mol.keys
    rw [hn]
    exact ⟨logSpec_bead_mem _ _ _ h1, logSpec_bead_mem _ _ _ h2⟩
  obtain ⟨f1, f2, _, _, _, f6⟩ := foldl_addEdge (interEdges m (placeAll qs)) (placeAll qs).out hin
  exact ⟨f1, f2, f6⟩

theorem assemble_ok (m : MolIn) (ps : List Placement) (r : Result) (h : assemble m ps = .ok r) :
    (placeAll (order ps)).err = none ∧ r = finish m (placeAll (order ps)) := by
  unfold assemble at h
  split at h
  · cases h
  · simp only at h
    split at h
    · cases h
    · rename_i he
      cases h
      exact ⟨he, rfl⟩

/-! ### overlap -/

theorem applyBlock_overlap_mono (st : St) (p : Placement) (x : Int) (hx : x ∈ st.overlap) :
    x ∈ (applyBlock st p).overlap := by
  unfold applyBlock
  split
  · exact hx
  · simp only
    split
    · split
      · simp only [mem_unionInt]; exact Or.inl hx
      · exact hx
    · exact hx

theorem foldl_overlap_mono (ps : List Placement) (st : St) (x : Int) (hx : x ∈ st.overlap) :
    x ∈ (ps.foldl applyBlock st).overlap := by
  induction ps generalizing st with
  | nil => exact hx
  | cons p ps ih => exact ih _ (applyBlock_overlap_mono st p x hx)

theorem foldl_append_err (pre post : List Placement) (st : St)
    (h : ((pre ++ post).foldl applyBlock st).err = none) : (pre.foldl applyBlock st).err = none := by
  rw [List.foldl_append] at h
  cases he : (pre.foldl applyBlock st).err with
  | none => rfl
  | some e => rw [foldl_applyBlock_err post _ e he, he] at h; cases h

/-- when the whole loop succeeded, every placement's weight entries could be renamed -/
theorem step_of_split (qs pre post : List Placement) (p : Placement) (hsplit : qs = pre ++ p :: post)
    (hok : (placeAll qs).err = none) :
    (pre.foldl applyBlock {}).err = none ∧ Inv (pre.foldl applyBlock {}).out (Off.zero.after pre)
    ∧ (applyBlock (pre.foldl applyBlock {}) p).err = none := by
  have h1 : ((pre ++ [p]).foldl applyBlock {}).err = none := by
    have : qs = (pre ++ [p]) ++ post := by rw [hsplit]; simp
    unfold placeAll at hok
    rw [this] at hok
    exact foldl_append_err _ _ _ hok
  rw [List.foldl_append] at h1
  have hpre : (pre.foldl applyBlock {}).err = none := by
    cases he : (pre.foldl applyBlock {}).err with
    | none => rfl
    | some e => rw [List.foldl_cons, List.foldl_nil, applyBlock_err _ _ e he, he] at h1; cases h1
  obtain ⟨_, hinv, _⟩ := fold_spec pre {} Off.zero inv_empty rfl hpre
  exact ⟨hpre, hinv, by simpa using h1⟩

theorem weightEntries_isSome (ps pre : List Placement) (p : Placement) (post : List Placement)
    (hsplit : order ps = pre ++ p :: post) (hok : (placeAll (order ps)).err = none) :
    (weightEntries p.block.keys ((Off.zero.after pre).n : Int) p.molToBlock).isSome = true := by
  obtain ⟨hpre, hinv, hstep⟩ := step_of_split _ pre post p hsplit hok
  exact (applyBlock_spec _ p _ hinv hpre hstep).2.2.2.2.2.2.2.2.2.1

end C01
