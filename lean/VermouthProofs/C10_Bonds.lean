import VermouthProofs.C10
/-! Helper lemmas for C10, part 2: name pass, distance pass, the loop over residues. Core Lean only. -/
namespace C10

theorem mem_allPairs {n : Nat} {e : Edge} : e ∈ allPairs n ↔ e.1 < e.2 ∧ e.2 < n := by
  obtain ⟨i, j⟩ := e
  unfold allPairs
  simp only [List.mem_flatMap, List.mem_map, List.mem_filter, List.mem_range, decide_eq_true_eq,
    Prod.mk.injEq]
  constructor
  · rintro ⟨a, _, b, ⟨hb, hab⟩, h1, h2⟩
    subst h1; subst h2
    exact ⟨hab, hb⟩
  · rintro ⟨h1, h2⟩
    exact ⟨i, by omega, j, ⟨h2, h1⟩, rfl, rfl⟩

theorem has_iff {E : List Edge} {u v : Nat} : has E u v = true ↔ (u, v) ∈ E ∨ (v, u) ∈ E := by
  unfold has
  simp

theorem has_false_iff {E : List Edge} {u v : Nat} : has E u v = false ↔ (u, v) ∉ E ∧ (v, u) ∉ E := by
  rw [← Bool.not_eq_true, has_iff]
  exact not_or

/-! ### names -/

theorem hasDupName_false {atoms : List Atom} {ms : List Nat} (h : hasDupName atoms ms = false)
    {i j : Nat} (hi : i ∈ ms) (hj : j ∈ ms) {nm : String}
    (h1 : (atomAt atoms i).name = some nm) (h2 : (atomAt atoms j).name = some nm) : i = j := by
  apply Classical.byContradiction
  intro hne
  have : hasDupName atoms ms = true := by
    unfold hasDupName
    rw [List.any_eq_true]
    refine ⟨i, hi, ?_⟩
    rw [List.any_eq_true]
    refine ⟨j, hj, ?_⟩
    simp [hne, h1, h2]
  rw [h] at this
  cases this

theorem lookupName_some {atoms : List Atom} {ms : List Nat} {nm : String} {u : Nat}
    (h : lookupName atoms ms nm = some u) : u ∈ ms ∧ (atomAt atoms u).name = some nm := by
  unfold lookupName at h
  refine ⟨List.mem_of_find?_eq_some h, ?_⟩
  have := List.find?_some h
  simpa using this

theorem lookupName_of_nodup {atoms : List Atom} {ms : List Nat} {nm : String} {u : Nat}
    (hd : hasDupName atoms ms = false) (hu : u ∈ ms) (hn : (atomAt atoms u).name = some nm) :
    lookupName atoms ms nm = some u := by
  cases h : lookupName atoms ms nm with
  | none =>
    unfold lookupName at h
    rw [List.find?_eq_none] at h
    have := h u hu
    simp [hn] at this
  | some u' =>
    obtain ⟨hu', hn'⟩ := lookupName_some h
    rw [hasDupName_false hd hu' hu hn' hn]

/-- the atoms `u`, `v` carry the names of the block nodes `e.1`, `e.2` -/
def Named (atoms : List Atom) (b : Block) (e : Edge) (u v : Nat) : Prop :=
  (atomAt atoms u).name ≠ none ∧ (atomAt atoms v).name ≠ none
    ∧ b.names[e.1]? = (atomAt atoms u).name ∧ b.names[e.2]? = (atomAt atoms v).name

theorem mapPair_some {atoms : List Atom} {ms : List Nat} {b : Block} {e : Edge} {u v : Nat}
    (h : mapPair atoms ms b e = some (u, v)) : u ∈ ms ∧ v ∈ ms ∧ Named atoms b e u v := by
  unfold mapPair at h
  cases h1 : b.names[e.1]? with
  | none => simp [h1] at h
  | some n1 =>
    cases h2 : b.names[e.2]? with
    | none => simp [h1, h2] at h
    | some n2 =>
      cases h3 : lookupName atoms ms n1 with
      | none => simp [h1, h2, h3] at h
      | some u' =>
        cases h4 : lookupName atoms ms n2 with
        | none => simp [h1, h2, h3, h4] at h
        | some v' =>
          simp only [h1, h2, h3, h4, Option.some.injEq, Prod.mk.injEq] at h
          obtain ⟨hu, hv⟩ := h
          subst hu; subst hv
          obtain ⟨a1, a2⟩ := lookupName_some h3
          obtain ⟨b1, b2⟩ := lookupName_some h4
          refine ⟨a1, b1, ?_, ?_, ?_, ?_⟩
          · rw [a2]; simp
          · rw [b2]; simp
          · rw [a2]; exact h1
          · rw [b2]; exact h2

theorem mapPair_of_named {atoms : List Atom} {ms : List Nat} {b : Block} {e : Edge} {u v : Nat}
    (hd : hasDupName atoms ms = false) (hu : u ∈ ms) (hv : v ∈ ms) (hn : Named atoms b e u v) :
    mapPair atoms ms b e = some (u, v) := by
  obtain ⟨n1, n2, e1, e2⟩ := hn
  cases h1 : (atomAt atoms u).name with
  | none => exact absurd h1 n1
  | some a =>
    cases h2 : (atomAt atoms v).name with
    | none => exact absurd h2 n2
    | some c =>
      unfold mapPair
      rw [e1, e2, h1, h2]
      simp only []
      rw [lookupName_of_nodup hd hu h1, lookupName_of_nodup hd hv h2]

theorem mem_blockNonEdges {b : Block} {e : Edge} :
    e ∈ blockNonEdges b ↔ e.1 < e.2 ∧ e.2 < b.names.length ∧ (e.1, e.2) ∉ b.edges ∧ (e.2, e.1) ∉ b.edges := by
  unfold blockNonEdges
  rw [List.mem_filter, mem_allPairs]
  simp only [Bool.not_eq_eq_eq_not, Bool.not_true, has_false_iff]
  constructor
  · rintro ⟨⟨a, b⟩, c, d⟩; exact ⟨a, b, c, d⟩
  · rintro ⟨a, b, c, d⟩; exact ⟨⟨a, b⟩, c, d⟩

/-! ### what one residue contributes -/

def nameOf (S : Sys) (k : ResKey) : List Edge :=
  if S.allowName then
    match namePass S.atoms S.ff k with
    | some r => r.1
    | none => []
  else []

def nonOf (S : Sys) (k : ResKey) : List Edge :=
  if S.allowName then
    match namePass S.atoms S.ff k with
    | some r => r.2
    | none => []
  else []

/-- the residue falls back to the distance criterion inside the loop -/
def failed (S : Sys) (k : ResKey) : Bool :=
  S.allowName && S.allowDist && (namePass S.atoms S.ff k).isNone

theorem stepRes_nameE (S : Sys) (st : St) (k : ResKey) :
    (stepRes S st k).nameE = st.nameE ++ nameOf S k := by
  unfold stepRes nameOf
  cases h1 : S.allowName <;> cases h2 : namePass S.atoms S.ff k <;> cases h3 : S.allowDist <;> simp

theorem stepRes_NE (S : Sys) (st : St) (k : ResKey) :
    (stepRes S st k).NE = st.NE ++ nonOf S k := by
  unfold stepRes nonOf
  cases h1 : S.allowName <;> cases h2 : namePass S.atoms S.ff k <;> cases h3 : S.allowDist <;> simp

theorem stepRes_fbE (S : Sys) (st : St) (k : ResKey) :
    (stepRes S st k).fbE = st.fbE ++
      (if failed S k then distPass S (fun i => keyAt S.atoms i == k) [] (bondedIn S st) else []) := by
  unfold stepRes failed
  cases h1 : S.allowName <;> cases h2 : namePass S.atoms S.ff k <;> cases h3 : S.allowDist <;> simp

theorem fold_nameE (S : Sys) (ks : List ResKey) : ∀ (st : St),
    (ks.foldl (stepRes S) st).nameE = st.nameE ++ ks.flatMap (nameOf S) := by
  induction ks with
  | nil => intro st; simp
  | cons k ks ih =>
    intro st
    rw [List.foldl_cons, ih, stepRes_nameE, List.flatMap_cons, List.append_assoc]

theorem fold_NE (S : Sys) (ks : List ResKey) : ∀ (st : St),
    (ks.foldl (stepRes S) st).NE = st.NE ++ ks.flatMap (nonOf S) := by
  induction ks with
  | nil => intro st; simp
  | cons k ks ih =>
    intro st
    rw [List.foldl_cons, ih, stepRes_NE, List.flatMap_cons, List.append_assoc]

theorem nameOf_mem {S : Sys} {k : ResKey} {u v : Nat} (h : (u, v) ∈ nameOf S k) :
    S.allowName = true ∧ ∃ b, lookupBlock S.ff k.resname = some b
      ∧ hasDupName S.atoms (members S.atoms k) = false
      ∧ u ∈ members S.atoms k ∧ v ∈ members S.atoms k
      ∧ ∃ e ∈ b.edges, Named S.atoms b e u v := by
  unfold nameOf at h
  cases h1 : S.allowName with
  | false => simp [h1] at h
  | true =>
    simp only [h1, if_true] at h
    unfold namePass at h
    cases h2 : lookupBlock S.ff k.resname with
    | none => simp [h2] at h
    | some b =>
      cases h3 : hasDupName S.atoms (members S.atoms k) with
      | true => simp [h2, h3] at h
      | false =>
        simp only [h2, h3] at h
        simp only [Bool.false_eq_true, if_false] at h
        rw [List.mem_filterMap] at h
        obtain ⟨e, he, hm⟩ := h
        obtain ⟨a1, a2, a3⟩ := mapPair_some hm
        exact ⟨rfl, b, rfl, rfl, a1, a2, e, he, a3⟩

theorem nameOf_of {S : Sys} {k : ResKey} {u v : Nat} {b : Block} (han : S.allowName = true)
    (hb : lookupBlock S.ff k.resname = some b) (hd : hasDupName S.atoms (members S.atoms k) = false)
    (hu : u ∈ members S.atoms k) (hv : v ∈ members S.atoms k) {e : Edge} (he : e ∈ b.edges)
    (hn : Named S.atoms b e u v) : (u, v) ∈ nameOf S k := by
  unfold nameOf namePass
  simp only [han, if_true, hb, hd, Bool.false_eq_true, if_false]
  rw [List.mem_filterMap]
  exact ⟨e, he, mapPair_of_named hd hu hv hn⟩

theorem nonOf_mem {S : Sys} {k : ResKey} {u v : Nat} (h : (u, v) ∈ nonOf S k) :
    S.allowName = true ∧ ∃ b, lookupBlock S.ff k.resname = some b
      ∧ hasDupName S.atoms (members S.atoms k) = false
      ∧ u ∈ members S.atoms k ∧ v ∈ members S.atoms k
      ∧ ∃ e ∈ blockNonEdges b, Named S.atoms b e u v := by
  unfold nonOf at h
  cases h1 : S.allowName with
  | false => simp [h1] at h
  | true =>
    simp only [h1, if_true] at h
    unfold namePass at h
    cases h2 : lookupBlock S.ff k.resname with
    | none => simp [h2] at h
    | some b =>
      cases h3 : hasDupName S.atoms (members S.atoms k) with
      | true => simp [h2, h3] at h
      | false =>
        simp only [h2, h3] at h
        simp only [Bool.false_eq_true, if_false] at h
        rw [List.mem_filterMap] at h
        obtain ⟨e, he, hm⟩ := h
        obtain ⟨a1, a2, a3⟩ := mapPair_some hm
        exact ⟨rfl, b, rfl, rfl, a1, a2, e, he, a3⟩

theorem nonOf_of {S : Sys} {k : ResKey} {u v : Nat} {b : Block} (han : S.allowName = true)
    (hb : lookupBlock S.ff k.resname = some b) (hd : hasDupName S.atoms (members S.atoms k) = false)
    (hu : u ∈ members S.atoms k) (hv : v ∈ members S.atoms k) {e : Edge} (he : e ∈ blockNonEdges b)
    (hn : Named S.atoms b e u v) : (u, v) ∈ nonOf S k := by
  unfold nonOf namePass
  simp only [han, if_true, hb, hd, Bool.false_eq_true, if_false]
  rw [List.mem_filterMap]
  exact ⟨e, he, mapPair_of_named hd hu hv hn⟩

/-- a residue that contributes a name bond or a non-bond did not fall back -/
theorem namePass_isSome_of_block {S : Sys} {k : ResKey} {b : Block}
    (hb : lookupBlock S.ff k.resname = some b) (hd : hasDupName S.atoms (members S.atoms k) = false) :
    (namePass S.atoms S.ff k).isSome = true := by
  unfold namePass
  simp [hb, hd]

/-! ### distance pass -/

theorem mem_distPass {S : Sys} {inN : Nat → Bool} {NE : List Edge} {bonded : Nat → Nat → Bool} {e : Edge} :
    e ∈ distPass S inN NE bonded ↔
      e.1 < e.2 ∧ e.2 < S.atoms.length ∧ eligible S inN e.1 = true ∧ eligible S inN e.2 = true
        ∧ inCut S inN e.1 e.2 = true ∧ crit S NE e.1 e.2 = true ∧ bonded e.1 e.2 = false := by
  unfold distPass
  rw [List.mem_filter, mem_allPairs]
  simp only [Bool.and_eq_true, Bool.not_eq_eq_eq_not, Bool.not_true]
  constructor
  · rintro ⟨⟨a, b⟩, ⟨⟨⟨c, d⟩, f⟩, g⟩, h⟩; exact ⟨a, b, c, d, f, g, h⟩
  · rintro ⟨a, b, c, d, f, g, h⟩; exact ⟨⟨a, b⟩, ⟨⟨⟨c, d⟩, f⟩, g⟩, h⟩

theorem distPass_weaken {S : Sys} {inN : Nat → Bool} {NE : List Edge} {b1 b2 : Nat → Nat → Bool} {e : Edge}
    (hb : ∀ u v, b2 u v = true → b1 u v = true) (h : e ∈ distPass S inN NE b1) :
    e ∈ distPass S inN NE b2 := by
  rw [mem_distPass] at h ⊢
  obtain ⟨a, b, c, d, f, g, hh⟩ := h
  refine ⟨a, b, c, d, f, g, ?_⟩
  cases hx : b2 e.1 e.2 with
  | false => rfl
  | true => rw [hb _ _ hx] at hh; cases hh

theorem fold_fbE_sub (S : Sys) (ks : List ResKey) : ∀ (st : St) (e : Edge),
    e ∈ (ks.foldl (stepRes S) st).fbE →
      e ∈ st.fbE ∨ ∃ k ∈ ks, failed S k = true
        ∧ e ∈ distPass S (fun i => keyAt S.atoms i == k) [] (has S.pre) := by
  induction ks with
  | nil => intro st e h; exact Or.inl h
  | cons k ks ih =>
    intro st e h
    rw [List.foldl_cons] at h
    rcases ih _ e h with h1 | ⟨k', hk', hf, hd⟩
    · rw [stepRes_fbE, List.mem_append] at h1
      rcases h1 with h1 | h1
      · exact Or.inl h1
      · right
        cases hf : failed S k with
        | false => simp [hf] at h1
        | true =>
          simp only [hf, if_true] at h1
          refine ⟨k, List.mem_cons_self, hf, distPass_weaken ?_ h1⟩
          intro u v hp
          unfold bondedIn
          simp [hp]
    · exact Or.inr ⟨k', List.mem_cons_of_mem _ hk', hf, hd⟩

/-! ### the KD-tree cut-off never removes a pair that meets the criterion -/

theorem foldl_max_ge_init (f : Nat → Nat) (l : List Nat) : ∀ (m : Nat),
    m ≤ l.foldl (fun m i => max m (f i)) m := by
  induction l with
  | nil => intro m; exact Nat.le_refl _
  | cons a l ih =>
    intro m
    rw [List.foldl_cons]
    exact Nat.le_trans (Nat.le_max_left _ _) (ih _)

theorem foldl_max_ge_mem (f : Nat → Nat) (l : List Nat) : ∀ (m : Nat) (i : Nat), i ∈ l →
    f i ≤ l.foldl (fun m i => max m (f i)) m := by
  induction l with
  | nil => intro m i h; cases h
  | cons a l ih =>
    intro m i h
    rw [List.foldl_cons]
    rw [List.mem_cons] at h
    cases h with
    | inl h => subst h; exact Nat.le_trans (Nat.le_max_right _ _) (foldl_max_ge_init f l _)
    | inr h => exact ih _ i h

theorem radius_le_maxRadius {S : Sys} {inN : Nat → Bool} {i r : Nat} (hi : i < S.atoms.length)
    (he : eligible S inN i = true) (hr : radiusOf S.radii (atomAt S.atoms i).element = some r) :
    r ≤ maxRadius S inN := by
  unfold maxRadius
  have := foldl_max_ge_mem (fun i => (radiusOf S.radii (atomAt S.atoms i).element).getD 0)
    ((List.range S.atoms.length).filter (eligible S inN)) 0 i
    (List.mem_filter.mpr ⟨List.mem_range.mpr hi, he⟩)
  simpa [hr] using this

theorem within_mono {p q ra rb ra' rb' d : Nat} (h : ra + rb ≤ ra' + rb')
    (hw : within p q ra rb d = true) : within p q ra' rb' d = true := by
  unfold within at hw ⊢
  simp only [decide_eq_true_eq] at hw ⊢
  exact Nat.le_trans hw (Nat.mul_le_mul_left _ (Nat.mul_le_mul h h))

/-! ### the integer test is the stated inequality on the real distance -/

theorem sq_le_sq_iff (a b : Nat) : a * a ≤ b * b ↔ a ≤ b := by
  constructor
  · intro h
    apply Classical.byContradiction
    intro hn
    have hlt : b < a := by omega
    have : b * b < a * a := Nat.mul_self_lt_mul_self hlt
    omega
  · intro h; exact Nat.mul_le_mul h h

theorem within_below (p q ra rb d2 D s : Nat) (hD : D * D ≤ s * s * d2)
    (hw : within p q ra rb d2 = true) : 2 * q * D ≤ 10 * p * s * (ra + rb) := by
  unfold within at hw
  simp only [decide_eq_true_eq] at hw
  rw [← sq_le_sq_iff]
  have h1 : 2 * q * D * (2 * q * D) = 4 * (q * q) * (D * D) := by grind
  have h2 : 10 * p * s * (ra + rb) * (10 * p * s * (ra + rb))
      = s * s * (100 * (p * p) * ((ra + rb) * (ra + rb))) := by grind
  rw [h1, h2]
  calc 4 * (q * q) * (D * D) ≤ 4 * (q * q) * (s * s * d2) := Nat.mul_le_mul_left _ hD
    _ = s * s * (4 * (q * q) * d2) := by grind
    _ ≤ s * s * (100 * (p * p) * ((ra + rb) * (ra + rb))) := Nat.mul_le_mul_left _ hw

theorem within_above (p q ra rb d2 D s : Nat) (hs : 0 < s) (hD : s * s * d2 ≤ D * D)
    (hle : 2 * q * D ≤ 10 * p * s * (ra + rb)) : within p q ra rb d2 = true := by
  unfold within
  simp only [decide_eq_true_eq]
  rw [← sq_le_sq_iff] at hle
  have h1 : 2 * q * D * (2 * q * D) = 4 * (q * q) * (D * D) := by grind
  have h2 : 10 * p * s * (ra + rb) * (10 * p * s * (ra + rb))
      = s * s * (100 * (p * p) * ((ra + rb) * (ra + rb))) := by grind
  rw [h1, h2] at hle
  have h3 : s * s * (4 * (q * q) * d2) ≤ s * s * (100 * (p * p) * ((ra + rb) * (ra + rb))) := by
    calc s * s * (4 * (q * q) * d2) = 4 * (q * q) * (s * s * d2) := by grind
      _ ≤ 4 * (q * q) * (D * D) := Nat.mul_le_mul_left _ hD
      _ ≤ _ := hle
  exact Nat.le_of_mul_le_mul_left h3 (Nat.mul_pos hs hs)

end C10
