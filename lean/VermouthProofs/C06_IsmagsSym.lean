import VermouthProofs.C06_Ismags
/-! Symmetry breaking: constraints that are the cosets of the stabiliser chain (in key order) select
exactly one member of every class of isomorphisms that differ by an automorphism of the pattern.
Core Lean only. -/
namespace C06I
open Iso

/-- `f` fixes every pattern node smaller than `i` -/
def FixBelow (sg : Graph) (f : Int → Int) (i : Int) : Prop := ∀ j ∈ sg.keys, j < i → f j = j

/-- `t` lies in the orbit of `i` under the automorphisms fixing all smaller nodes -/
def InOrb (sg : Graph) (i t : Int) : Prop := ∃ f, IsIndIso sg sg f ∧ FixBelow sg f i ∧ f i = t

/-- the constraints are exactly the non-trivial members of these orbits -/
def CValid (sg : Graph) (C : Constraints) : Prop :=
  ∀ lo hi, (lo, hi) ∈ C ↔ lo ∈ sg.keys ∧ lo ≠ hi ∧ InOrb sg lo hi

theorem inOrb_self (sg : Graph) (i : Int) : InOrb sg i i := ⟨id, isAut_id sg, fun _ _ _ => rfl, rfl⟩

theorem inOrb_mem {sg : Graph} {i t : Int} (hi : i ∈ sg.keys) (h : InOrb sg i t) : t ∈ sg.keys := by
  obtain ⟨f, hf, _, rfl⟩ := h
  exact (hf.node i hi).1

theorem fixBelow_mono {sg : Graph} {f : Int → Int} {i i' : Int} (hle : i' ≤ i) (h : FixBelow sg f i) :
    FixBelow sg f i' := fun j hj hlt => h j hj (by omega)

theorem inOrb_closed {sg : Graph} {b : Int → Int} {j t : Int} (hb : IsIndIso sg sg b) (hfix : FixBelow sg b j)
    (h : InOrb sg j t) : InOrb sg j (b t) := by
  obtain ⟨f, hf, hff, rfl⟩ := h
  refine ⟨b ∘ f, isAut_comp hb hf, ?_, rfl⟩
  intro j' hj' hlt
  simp only [Function.comp, hff j' hj' hlt, hfix j' hj' hlt]

theorem fixBelow_inv {sg : Graph} {f h' : Int → Int} {i : Int} (hf : IsIndIso sg sg f) (hh : IsIndIso sg sg h')
    (hinv : ∀ u ∈ sg.keys, f (h' u) = u) (hfix : FixBelow sg f i) : FixBelow sg h' i := by
  intro j hj hlt
  apply Classical.byContradiction
  intro hne
  have h1 : f (h' j) = j := hinv j hj
  have h2 : f j = j := hfix j hj hlt
  exact hf.inj _ (hh.node j hj).1 _ hj hne (by rw [h1, h2])

theorem indIso_comp_aut {g sg : Graph} {F a : Int → Int} (hF : IsIndIso g sg F) (ha : IsIndIso sg sg a) :
    IsIndIso g sg (F ∘ a) := by
  refine ⟨?_, ?_, ?_⟩
  · intro u hu
    have h1 := ha.node u hu
    have h2 := hF.node (a u) h1.1
    refine ⟨h2.1, ?_⟩
    have e1 : sg.ncol (a u) = sg.ncol u := by simpa [colourPred] using h1.2
    have e2 : g.ncol (F (a u)) = sg.ncol (a u) := by simpa [colourPred] using h2.2
    simp [colourPred, e2, e1]
  · intro u hu v hv hne
    exact hF.inj _ (ha.node u hu).1 _ (ha.node v hv).1 (ha.inj u hu v hv hne)
  · intro u hu v hv hne
    have := hF.edge _ (ha.node u hu).1 _ (ha.node v hv).1 (ha.inj u hu v hv hne)
    simp only [Function.comp]
    rw [this, ha.edge u hu v hv hne]

theorem exists_min {α} (val : α → Int) (P : α → Prop) (l : List α) (h : ∃ x ∈ l, P x) :
    ∃ x ∈ l, P x ∧ ∀ y ∈ l, P y → val x ≤ val y := by
  induction l with
  | nil => obtain ⟨x, hx, _⟩ := h; simp at hx
  | cons a l ih =>
    by_cases hl : ∃ x ∈ l, P x
    · obtain ⟨x, hx, hpx, hmin⟩ := ih hl
      by_cases ha : P a ∧ val a < val x
      · refine ⟨a, by simp, ha.1, ?_⟩
        intro y hy hpy
        rcases List.mem_cons.1 hy with rfl | hy
        · exact Int.le_refl _
        · have := hmin y hy hpy; omega
      · refine ⟨x, List.mem_cons_of_mem _ hx, hpx, ?_⟩
        intro y hy hpy
        rcases List.mem_cons.1 hy with rfl | hy
        · have : ¬ val y < val x := fun h' => ha ⟨hpy, h'⟩
          omega
        · exact hmin y hy hpy
    · obtain ⟨x, hx, hpx⟩ := h
      rcases List.mem_cons.1 hx with rfl | hx
      · refine ⟨x, by simp, hpx, ?_⟩
        intro y hy hpy
        rcases List.mem_cons.1 hy with rfl | hy
        · exact Int.le_refl _
        · exact absurd ⟨y, hy, hpy⟩ hl
      · exact absurd ⟨x, hx, hpx⟩ hl

theorem length_filter_lt {l : List Int} {p q : Int → Bool} (himp : ∀ x, p x = true → q x = true) {a : Int}
    (ha : a ∈ l) (hq : q a = true) (hp : p a = false) : (l.filter p).length < (l.filter q).length := by
  induction l with
  | nil => simp at ha
  | cons b l ih =>
    have hle : (l.filter p).length ≤ (l.filter q).length := by
      rw [← List.countP_eq_length_filter, ← List.countP_eq_length_filter]
      exact List.countP_mono_left (fun x _ => himp x)
    rcases List.mem_cons.1 ha with rfl | ha'
    · simp only [List.filter_cons, hp, hq, Bool.false_eq_true, if_false, if_true, List.length_cons]
      omega
    · have := ih ha'
      simp only [List.filter_cons]
      cases hpb : p b with
      | true => simp only [himp b hpb, if_true, List.length_cons]; omega
      | false =>
        cases hqb : q b with
        | true => simp only [Bool.false_eq_true, if_false, if_true, List.length_cons]; omega
        | false => simp only [Bool.false_eq_true, if_false]; omega

/-- `F j` is minimal over the orbit of `j` -/
def MinAt (sg : Graph) (F : Int → Int) (j : Int) : Prop := ∀ t, InOrb sg j t → F j ≤ F t

/-- **Existence of a minimiser**: every function on the pattern nodes can be composed with an
automorphism of the pattern such that the value at every node is minimal over that node's orbit
(stepwise along the stabiliser chain; `S` = the nodes already dealt with, closed downwards). -/
theorem exists_minimiser_aux {sg : Graph} (n : Nat) (S : List Int) (F : Int → Int)
    (hS : ∀ j ∈ S, j ∈ sg.keys) (hdown : ∀ j ∈ S, ∀ j' ∈ sg.keys, j' < j → j' ∈ S)
    (hn : (sg.keys.filter fun u => !S.contains u).length ≤ n) (hmin : ∀ j ∈ S, MinAt sg F j) :
    ∃ a, IsIndIso sg sg a ∧ (∀ j ∈ S, a j = j) ∧ ∀ j ∈ sg.keys, MinAt sg (F ∘ a) j := by
  induction n generalizing S F with
  | zero =>
    refine ⟨id, isAut_id sg, fun _ _ => rfl, ?_⟩
    intro j hj
    have hnil : (sg.keys.filter fun u => !S.contains u) = [] := List.eq_nil_of_length_eq_zero (by omega)
    have hjS : j ∈ S := by
      apply Classical.byContradiction
      intro hno
      have : j ∈ sg.keys.filter fun u => !S.contains u := by
        simp only [List.mem_filter, Bool.not_eq_true', List.contains_eq_mem, decide_eq_false_iff_not]
        exact ⟨hj, hno⟩
      rw [hnil] at this
      simp at this
    exact hmin j hjS
  | succ n ih =>
    by_cases hall : ∀ j ∈ sg.keys, j ∈ S
    · exact ⟨id, isAut_id sg, fun _ _ => rfl, fun j hj => hmin j (hall j hj)⟩
    · have hex : ∃ x ∈ sg.keys, x ∉ S := by
        apply Classical.byContradiction
        intro hno
        apply hall
        intro j hj
        apply Classical.byContradiction
        intro hjs
        exact hno ⟨j, hj, hjs⟩
      obtain ⟨i, hiK, hiS, himin⟩ := exists_min id (fun x => x ∉ S) sg.keys hex
      simp only [id] at himin
      have hlt : ∀ j ∈ S, j < i := by
        intro j hj
        have hne : j ≠ i := fun e => hiS (e ▸ hj)
        apply Classical.byContradiction
        intro hnlt
        have : i < j := by omega
        exact hiS (hdown j hj i hiK this)
      obtain ⟨t, htK, htO, htmin⟩ := exists_min F (InOrb sg i) sg.keys ⟨i, hiK, inOrb_self sg i⟩
      obtain ⟨b, hb, hbfix, hbi⟩ := htO
      have hS' : ∀ j ∈ i :: S, j ∈ sg.keys := by
        intro j hj
        rcases List.mem_cons.1 hj with rfl | hj
        · exact hiK
        · exact hS j hj
      have hdown' : ∀ j ∈ i :: S, ∀ j' ∈ sg.keys, j' < j → j' ∈ i :: S := by
        intro j hj j' hj' hlt'
        rcases List.mem_cons.1 hj with rfl | hj
        · apply List.mem_cons_of_mem
          apply Classical.byContradiction
          intro hno
          have := himin j' hj' hno
          omega
        · exact List.mem_cons_of_mem _ (hdown j hj j' hj' hlt')
      have hn' : (sg.keys.filter fun u => !(i :: S).contains u).length ≤ n := by
        have := length_filter_lt (l := sg.keys) (p := fun u => !(i :: S).contains u) (q := fun u => !S.contains u)
          (by
            intro x hx
            simp only [Bool.not_eq_true', List.contains_eq_mem, decide_eq_false_iff_not, List.mem_cons, not_or] at hx ⊢
            exact hx.2)
          hiK (by simpa using hiS) (by simp)
        omega
      have hmin' : ∀ j ∈ i :: S, MinAt sg (F ∘ b) j := by
        intro j hj t' ht'
        rcases List.mem_cons.1 hj with rfl | hj
        · have hc := inOrb_closed hb hbfix ht'
          have := htmin _ (inOrb_mem hiK hc) hc
          simp only [Function.comp, hbi]
          exact this
        · have hjlt := hlt j hj
          have hbj : b j = j := hbfix j (hS j hj) hjlt
          have hc := inOrb_closed hb (fixBelow_mono (by omega) hbfix) ht'
          have := hmin j hj _ hc
          simp only [Function.comp, hbj]
          exact this
      obtain ⟨a', ha', hfix', hgood⟩ := ih (i :: S) (F ∘ b) hS' hdown' hn' hmin'
      refine ⟨b ∘ a', isAut_comp hb ha', ?_, hgood⟩
      intro j hj
      simp only [Function.comp, hfix' j (List.mem_cons_of_mem _ hj)]
      exact hbfix j (hS j hj) (hlt j hj)

theorem exists_minimiser (sg : Graph) (F : Int → Int) :
    ∃ a, IsIndIso sg sg a ∧ ∀ j ∈ sg.keys, MinAt sg (F ∘ a) j := by
  obtain ⟨a, ha, _, h⟩ := exists_minimiser_aux (sg := sg) sg.keys.length [] F (by simp) (by simp)
    (List.length_filter_le _ _) (by simp)
  exact ⟨a, ha, h⟩

/-- **Existence of a representative**: every isomorphism can be composed with an automorphism of the
pattern such that the value at every node is minimal over that node's orbit. -/
theorem exists_good {g sg : Graph} (F : Int → Int) (_hF : IsIndIso g sg F) :
    ∃ a, IsIndIso sg sg a ∧ ∀ j ∈ sg.keys, MinAt sg (F ∘ a) j := exists_minimiser sg F

theorem satisfies_of_minAt {g sg : Graph} {C : Constraints} (hv : CValid sg C) {F : Int → Int}
    (hF : IsIndIso g sg F) (h : ∀ j ∈ sg.keys, MinAt sg F j) : Satisfies C sg.keys F := by
  intro lo hi hc hlo _
  obtain ⟨_, hne, horb⟩ := (hv lo hi).1 hc
  have h1 := h lo hlo hi horb
  have h2 := hF.inj lo hlo hi (inOrb_mem hlo horb) hne
  omega

/-- **Uniqueness of the representative**: if an isomorphism and its composition with an automorphism
both satisfy all constraints, the automorphism is the identity on the pattern nodes. -/
theorem unique_rep {sg : Graph} (hs : sg.keys.Nodup) {C : Constraints} (hv : CValid sg C) {F a : Int → Int}
    (ha : IsIndIso sg sg a) (h1 : Satisfies C sg.keys F) (h2 : Satisfies C sg.keys (F ∘ a)) :
    ∀ u ∈ sg.keys, a u = u := by
  apply Classical.byContradiction
  intro hno
  have hex : ∃ x ∈ sg.keys, a x ≠ x := by
    apply Classical.byContradiction
    intro hno'
    apply hno
    intro u hu
    apply Classical.byContradiction
    intro hne
    exact hno' ⟨u, hu, hne⟩
  obtain ⟨i, hiK, hmoved, himin⟩ := exists_min id (fun x => a x ≠ x) sg.keys hex
  simp only [id] at himin
  have hfix : FixBelow sg a i := by
    intro j hj hlt
    apply Classical.byContradiction
    intro hne
    have := himin j hj hne
    omega
  obtain ⟨h', hh', hinv⟩ := isAut_inv hs ha
  have hfix' := fixBelow_inv ha hh' hinv hfix
  have htK : a i ∈ sg.keys := (ha.node i hiK).1
  have hsK : h' i ∈ sg.keys := (hh'.node i hiK).1
  have hc1 : (i, a i) ∈ C := (hv i (a i)).2 ⟨hiK, fun e => hmoved e.symm, a, ha, hfix, rfl⟩
  have hsne : i ≠ h' i := by
    intro e
    have := hinv i hiK
    rw [← e] at this
    exact hmoved this
  have hc2 : (i, h' i) ∈ C := (hv i (h' i)).2 ⟨hiK, hsne, h', hh', hfix', rfl⟩
  have e1 := h1 i (a i) hc1 hiK htK
  have e2 := h2 i (h' i) hc2 hiK hsK
  simp only [Function.comp, hinv i hiK] at e2
  omega

theorem cvalid_antisym {sg : Graph} {C : Constraints} (hv : CValid sg C) : antisymB C = true := by
  rw [antisymB_iff]
  intro x y hxy hyx
  obtain ⟨hx, hne, f, hf, hff, hfx⟩ := (hv x y).1 hxy
  obtain ⟨hy, _, f', hf', hff', hfy⟩ := (hv y x).1 hyx
  rcases Int.lt_or_gt_of_ne hne with hlt | hgt
  · -- x < y: f' fixes x and maps y on x
    have h1 : f' x = x := hff' x hx hlt
    exact hf'.inj x hx y hy hne (by rw [h1, hfy])
  · have h1 : f y = y := hff y hy hgt
    exact hf.inj x hx y hy hne (by rw [h1, hfx])

/-! ### the decidable checker -/

theorem fixesBelow_iff (sg : Graph) (a : Map) (i : Int) : fixesBelow sg a i = true ↔ FixBelow sg (Map.toFun a) i := by
  simp only [fixesBelow, List.all_eq_true, Bool.or_eq_true, Bool.not_eq_true', decide_eq_false_iff_not,
    beq_iff_eq, FixBelow]
  constructor
  · intro h j hj hlt
    rcases h j hj with h' | h'
    · exact absurd hlt h'
    · exact h'
  · intro h j hj
    by_cases hlt : j < i
    · exact Or.inr (h j hj hlt)
    · exact Or.inl hlt

theorem toFun_mapMk {S : List Int} (f : Int → Int) {u : Int} (hu : u ∈ S) :
    Map.toFun (S.map fun u => (u, f u)) u = f u := by
  unfold Map.toFun
  rw [lookup_map_mk S f hu]; rfl

theorem fixBelow_congr {sg : Graph} {f f' : Int → Int} (h : ∀ u ∈ sg.keys, f' u = f u) {i : Int}
    (hf : FixBelow sg f i) : FixBelow sg f' i := fun j hj hlt => by rw [h j hj]; exact hf j hj hlt

theorem inOrb_iff_auts (sg : Graph) (hs : sg.keys.Nodup) {i : Int} (hi : i ∈ sg.keys) (t : Int) :
    InOrb sg i t ↔ ∃ a ∈ auts sg, fixesBelow sg a i = true ∧ Map.toFun a i = t := by
  constructor
  · rintro ⟨f, hf, hff, rfl⟩
    refine ⟨sg.keys.map fun u => (u, f u), allIsosP_complete sg sg _ hs f hf, ?_, toFun_mapMk f hi⟩
    rw [fixesBelow_iff]
    exact fixBelow_congr (fun u hu => toFun_mapMk f hu) hff
  · rintro ⟨a, ha, hfix, rfl⟩
    obtain ⟨_, hf⟩ := (mem_allIsosP_iff sg sg _ hs a).1 ha
    exact ⟨Map.toFun a, hf, (fixesBelow_iff sg a i).1 hfix, rfl⟩

/-- the checker decides `CValid` -/
theorem constraintsValidB_iff (sg : Graph) (hs : sg.keys.Nodup) (C : Constraints) :
    constraintsValidB sg C = true ↔ CValid sg C := by
  unfold constraintsValidB CValid
  simp only [Bool.and_eq_true, List.all_eq_true, List.any_eq_true, List.contains_iff_mem, bne_iff_ne, ne_eq,
    beq_iff_eq, Bool.or_eq_true, Bool.not_eq_true']
  constructor
  · rintro ⟨h1, h2⟩ lo hi
    constructor
    · intro hc
      obtain ⟨⟨hlo, hne⟩, a, ha, hfix, hval⟩ := h1 (lo, hi) hc
      exact ⟨hlo, hne, (inOrb_iff_auts sg hs hlo hi).2 ⟨a, ha, hfix, hval⟩⟩
    · rintro ⟨hlo, hne, horb⟩
      obtain ⟨a, ha, hfix, hval⟩ := (inOrb_iff_auts sg hs hlo hi).1 horb
      rcases h2 lo hlo a ha with (h' | h') | h'
      · rw [hfix] at h'; cases h'
      · exact absurd (h'.symm.trans hval) hne
      · rw [hval] at h'; exact h'
  · intro h
    constructor
    · rintro ⟨lo, hi⟩ hc
      obtain ⟨hlo, hne, horb⟩ := (h lo hi).1 hc
      obtain ⟨a, ha, hfix, hval⟩ := (inOrb_iff_auts sg hs hlo hi).1 horb
      exact ⟨⟨hlo, hne⟩, a, ha, hfix, hval⟩
    · intro i hi a ha
      by_cases hfix : fixesBelow sg a i = true
      · by_cases hval : Map.toFun a i = i
        · exact Or.inl (Or.inr hval)
        · exact Or.inr ((h i (Map.toFun a i)).2 ⟨hi, fun e => hval e.symm,
            (inOrb_iff_auts sg hs hi _).2 ⟨a, ha, hfix, rfl⟩⟩)
      · exact Or.inl (Or.inl (by simpa using hfix))

end C06I
