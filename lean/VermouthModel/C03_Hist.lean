import VermouthModel.C03
/-
C03 — molecule OBJECTS: the molecule-type name lives on the molecule (`molecule.meta['moltype']`),
not on the system.  A molecule object can be listed twice in one system and can be a member of
several systems; `NameMolType.run_system` assigns `molecule.meta[meta_key] = name` molecule by
molecule, in system order (a later assignment to the same object overwrites an earlier one);
`write_gmx_topology` reads `molecule.meta["moltype"]` when it is called.

The heap is the list of molecule objects with the name each currently carries; an event is one
`NameMolType(deduplicate, molname).run_system(system)` or one `write_gmx_topology(system, ...)`,
a system being a list of object indices.
-/
namespace C03

/-- a stored name `'{molname}_{id}'`: (which molname, id) -/
abbrev MName := Nat × Nat

structure Heap where
  mols : List Mol
  /-- `molecule.meta.get('moltype')` of every object -/
  names : List (Option MName)
  deriving Repr

inductive Ev where
  | name (dedup : Bool) (mn : Nat) (sys : List Nat)
  | write (sys : List Nat)
  deriving Repr

/-- the assignments of one `run_system`, in order: a later one to the same object wins -/
def assign (names : List (Option MName)) : List (Nat × MName) → List (Option MName)
  | [] => names
  | (o, v) :: rest => assign (names.set o (some v)) rest

/-- the molecules of a system -/
def molsOf (h : Heap) (sys : List Nat) : List Mol := sys.map fun o => h.mols.getD o default

def nameEv (shares : Mol → Mol → Bool) (h : Heap) (dedup : Bool) (mn : Nat) (sys : List Nat) : Heap :=
  let ids := nameMolTypes shares dedup (molsOf h sys)
  { h with names := assign h.names (sys.zip (ids.map fun i => (mn, i))) }

/-- the names `write_gmx_topology` reads (`none`: some molecule has no name, KeyError) -/
def readNames (h : Heap) (sys : List Nat) : Option (List MName) :=
  sys.mapM fun o => (h.names.getD o none)

def writeEv (h : Heap) (sys : List Nat) : Option (TopOut MName) :=
  (readNames h sys).map fun ns => (writeStep () ns).2

def runEvents (shares : Mol → Mol → Bool) : Heap → List Ev → List (Option (TopOut MName))
  | _, [] => []
  | h, Ev.name d mn sys :: rest => runEvents shares (nameEv shares h d mn sys) rest
  | h, Ev.write sys :: rest => writeEv h sys :: runEvents shares h rest

end C03
