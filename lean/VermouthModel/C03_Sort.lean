import VermouthModel.C03
/-
C03 — `SortMoleculeAtoms` (`vermouth/processors/sort_molecule_atoms.py`) and what martinize2
does between naming and writing (`bin/martinize2`).

    node_order = sorted(molecule, key=lambda n: [nodes[n].get(attr) for attr in sortby_attrs])
    for new_idx, node_key in enumerate(node_order, 1):
        molecule._node.move_to_end(node_key)
        if target_attr is not None: molecule.nodes[node_key][target_attr] = new_idx

* the key is the LIST of the attribute values (`None` when absent), compared as python compares
  lists: the first position where the two differ (`==`) decides (`<`);
* `sorted` is stable; node keys and all other attributes are untouched; the node ORDER of the
  molecule becomes the sorted order; with a `target_attr` the nodes are renumbered 1..N in it.
* python raises TypeError when the deciding pair is not orderable (`None < 'A'`, `'A' < 1`, also
  `None < None` never decides since they are equal).  The model orders ALL values totally
  (`None` < numbers < strings) and reports with `comparable` whether every pair of keys is orderable
  by python; where it is, the model's order is python's.
-/
namespace C03

/-! ### generic stable insertion sort -/

/-- insert in front of the first element that is not smaller -/
def insBy {α} (le : α → α → Bool) (x : α) : List α → List α
  | [] => [x]
  | y :: ys => if le x y then x :: y :: ys else y :: insBy le x ys

def insSortBy {α} (le : α → α → Bool) : List α → List α
  | [] => []
  | x :: xs => insBy le x (insSortBy le xs)

/-! ### sort keys -/

/-- a value as the sort sees it: python `==` is structural equality here (`1 == 1.0`) -/
inductive SKey where
  | none
  | num (v : Int)            -- exact value in units of 1e-12
  | str (codes : List Nat)   -- code points
  deriving DecidableEq, Repr, Inhabited

def skeyOf : Val → SKey
  | Val.none => .none
  | Val.int i => .num (i * 1000000000000)
  | Val.num n => .num n
  | Val.str s => .str (s.toList.map Char.toNat)

/-- lexicographic `<` on code points (python `str.__lt__`) -/
def natsLt : List Nat → List Nat → Bool
  | [], [] => false
  | [], _ :: _ => true
  | _ :: _, [] => false
  | x :: xs, y :: ys => decide (x < y) || (x == y && natsLt xs ys)

def SKey.rank : SKey → Nat
  | .none => 0
  | .num _ => 1
  | .str _ => 2

/-- the model's total order: python's `<` wherever python defines it -/
def sLt : SKey → SKey → Bool
  | .num a, .num b => decide (a < b)
  | .str a, .str b => natsLt a b
  | a, b => decide (a.rank < b.rank)

/-- python can order the pair (or does not need to: they are equal) -/
def sComparable (a b : SKey) : Bool := a == b || (a.rank == b.rank && a.rank != 0)

/-- list `<`: the first differing position decides -/
def lexLt : List SKey → List SKey → Bool
  | [], [] => false
  | [], _ :: _ => true
  | _ :: _, [] => false
  | x :: xs, y :: ys => sLt x y || (x == y && lexLt xs ys)

/-- python can compare the two key lists: the deciding pair is orderable -/
def lexComparable : List SKey → List SKey → Bool
  | x :: xs, y :: ys => if x == y then lexComparable xs ys else sComparable x y
  | _, _ => true

def sortbyDefault : List String := ["chain", "resid", "resname", "insertion_code", "atomid"]

/-- `_keyfunc`: `[graph.nodes[node_idx].get(attr) for attr in attrs]` -/
def sortKey (attrs : List String) (a : Atom) : List SKey := attrs.map fun k => skeyOf (getAttr a k)

/-- `x` stays in front of `y` unless `y < x` -/
def sortLe (attrs : List String) (x y : Atom) : Bool := !lexLt (sortKey attrs y) (sortKey attrs x)

/-- every pair of nodes has python-comparable keys (then `sorted` cannot raise) -/
def comparable (attrs : List String) (nodes : List Atom) : Bool :=
  nodes.all fun a => nodes.all fun b => lexComparable (sortKey attrs a) (sortKey attrs b)

/-- `nodes[key][attr] = v` on the name-sorted attribute list -/
def setAttr (k : String) (v : Val) : List (String × Val) → List (String × Val)
  | [] => [(k, v)]
  | (k', v') :: r =>
    if k' = k then (k, v) :: r
    else if k < k' then (k, v) :: (k', v') :: r
    else (k', v') :: setAttr k v r

def renumber (k : String) (start : Nat) : List Atom → List Atom
  | [] => []
  | a :: r => { a with attrs := setAttr k (Val.int start) a.attrs } :: renumber k (start + 1) r

/-- `SortMoleculeAtoms(sortby_attrs, target_attr).run_molecule`: the nodes in their new order -/
def sortMoleculeAtoms (attrs : List String) (target : Option String) (nodes : List Atom) : List Atom :=
  let sorted := insSortBy (sortLe attrs) nodes
  match target with
  | none => sorted
  | some k => renumber k 1 sorted

/-- the residue a node belongs to, as the sort groups them: chain, resid, resname, insertion code -/
def residueKey (a : Atom) : List SKey := sortKey ["chain", "resid", "resname", "insertion_code"] a

/-! ### martinize2: from the processed system to the files

Transcribed from `bin/martinize2` (the part after the mapping):

    if go:   GoPipeline: MergeAllMolecules, molecule.meta['moltype'] = args.molname      (one molecule)
             defines = ("GO_VIRT",); itp_paths = {atomtypes: go_atomtypes.itp, nonbond_params: go_nbparams.itp}
    else:    itp_paths = []; [MergeChains ...]; NameMolType(deduplicate = not args.keep_duplicate_itp,
                                                          molname = args.molname); defines = ()
    if water_bias and not go: itp_paths = {atomtypes: virtual_sites_atomtypes.itp, nonbond_params: ...}
    if not go: SortMoleculeAtoms().run_system(system)         # default attributes, no renumbering
    if args.top_path is not None: write_gmx_topology(system, top_path, itp_paths, defines=defines)
    write_pdb(system, args.outpath, omit_charges=True)

MergeChains / MergeAllMolecules and the Go processors are not modelled (the molecules arrive as
they are after merging). -/

structure Cli where
  /-- `-o` given -/
  top : Bool
  /-- `-sep` (`keep_duplicate_itp`) -/
  sep : Bool
  go : Bool
  waterBias : Bool
  molname : String
  deriving DecidableEq, Repr

/-- what reaches the writers: molecule-type names, the molecules (sorted or not), defines, itp_paths -/
structure Plan where
  names : List String
  mols : List Mol
  defines : List String
  itpPaths : Option (List (String × String))
  writeTop : Bool
  deriving DecidableEq, Repr

def goPaths : List (String × String) :=
  [("atomtypes", "go_atomtypes.itp"), ("nonbond_params", "go_nbparams.itp")]
def vsPaths : List (String × String) :=
  [("atomtypes", "virtual_sites_atomtypes.itp"), ("nonbond_params", "virtual_sites_nonbond_params.itp")]

def cliPlan (render : Nat → String) (shares : Mol → Mol → Bool) (cli : Cli) (sys : List Mol) : Plan :=
  if cli.go then
    -- the system has been merged into one molecule named `molname`; no sorting
    { names := sys.map fun _ => cli.molname, mols := sys, defines := ["GO_VIRT"],
      itpPaths := some goPaths, writeTop := cli.top }
  else
    { names := (nameMolTypes shares (!cli.sep) sys).map render,
      mols := sys.map fun m => { m with nodes := sortMoleculeAtoms sortbyDefault none m.nodes },
      defines := [],
      itpPaths := if cli.waterBias then some vsPaths else none,
      writeTop := cli.top }

/-- the ITP files martinize2 writes: none without `-o`, else one per name, from the first molecule
of that name (`write_gmx_topology`) -/
def cliItps (p : Plan) : List (String × Nat) := if p.writeTop then itpWrites p.names else []

end C03
