import VermouthModel.C19
import VermouthModel.C19_Repair
/-!
# C19 — AnnotateMutMod followed by RepairGraph: the seam between the two models

`AnnotateMutMod` (model `VermouthModel/C19.lean`) leaves on every atom the lists `modification` /
`mutation`; `make_residue_graph` hands the lists common to the atoms of a residue to
`_get_reference_residue` (model `VermouthModel/C19_Repair.lean`), which looks at them only through
`'mutation' in residue` / `'modification' in residue` and their elements; `repair_graph` looks at
the atoms' own attributes only through their truth value (`C04.requested`).  An attribute that
`AnnotateMutMod` never wrote is absent; one it wrote is a non-empty list.

Also here: the `modifications` attribute of the reference atoms (list of Modification objects in the
code) as a table of modification NAMES per reference atom.
-/
namespace C19.Pipeline
open C04

def strs (l : List Str) : List String := l.map String.ofList

/-- the residue attribute as `_get_reference_residue` sees it: absent when nothing was requested -/
def optRequests (l : List Str) : Option (List String) := if l.isEmpty then none else some (strs l)

/-- the request part of the attribute dictionary of an atom marked by `AnnotateMutMod` -/
def requestAttrs (a : C19.Atom) : Attrs :=
  (match optRequests a.muts with | some l => [("mutation", Repair.pyList l)] | none => []) ++
  (match optRequests a.mods with | some l => [("modification", Repair.pyList l)] | none => [])

/-- the reference `RepairGraph` builds for the residue (named `resname`) of the marked atom `a` -/
def referenceOf (ff : Repair.FF) (resname : String) (a : C19.Atom) : Except Repair.RefErr Block :=
  Repair.getReference ff resname (optRequests a.muts) (optRequests a.mods)

inductive PipeErr where
  | annotate (e : C19.Err)
  | noSuchAtom
  | reference (e : Repair.RefErr)
  deriving Repr, Inhabited

/-- `AnnotateMutMod(mods, muts).run_system` then `_get_reference_residue` for the residue of atom
`k` of molecule `i` -/
def pipelineReference (lib : Lib) (ff : Repair.FF) (mods muts : List Request) (mols : List C19.Mol)
    (i : Nat) (k : Int) : Except PipeErr (C19.Atom × Block) :=
  let res := runSystem lib mods muts mols
  match res.err with
  | some e => .error (.annotate e)
  | none =>
    match (res.mols[i]?).bind fun m => m.atoms.find? fun a => a.key = k with
    | none => .error .noSuchAtom
    | some a =>
      match referenceOf ff (String.ofList (a.res.resname.getD [])) a with
      | .ok b => .ok (a, b)
      | .error e => .error (.reference e)

/-! ### the `modifications` attribute, by name -/

abbrev ModTable := List (Int × List String)

def setTbl (t : ModTable) (k : Int) (v : List String) : ModTable :=
  if t.any (fun p => p.1 == k) then t.map (fun p => if p.1 == k then (k, v) else p) else t ++ [(k, v)]

/-- the loop `for mod_idx in modification: … result.nodes[idx]['modifications'] = node_mods + [modification]`
(membership of a Modification object in the list = membership of its name) -/
def tableStep (b md : Block) (n : String) (t : ModTable) : Option ModTable :=
  match Repair.anchorMap b md with
  | none => none
  | some am =>
    let toB := am ++ Repair.newMap b.nodes.length (Repair.newAtoms md)
    some (md.nodes.foldl (fun t a =>
      match toB.lookup a.key with
      | some idx =>
        let cur := (t.lookup idx).getD []
        if cur.contains n then t else setTbl t idx (cur ++ [n])
      | none => t) t)

/-- the table after the loop `for mod_name in modifications` of `_get_reference_residue` -/
def modTable (ff : Repair.FF) : List String → Block → ModTable → Option ModTable
  | [], _, t => some t
  | n :: rest, b, t =>
    if n = "none" then modTable ff rest b t
    else match ff.mods.lookup n with
      | none => none
      | some md =>
        match Repair.patchModification b md, tableStep b md n t with
        | some b', some t' => modTable ff rest b' t'
        | _, _ => none

/-- names of the modifications recorded on reference atom `k` -/
def modNamesOf (t : ModTable) (k : Int) : List String := (t.lookup k).getD []

/-- the block that is patched: `targetName`'s block (the table follows the same steps as `getReference`) -/
def referenceTable (ff : Repair.FF) (resname : String) (mutation modification : Option (List String)) : Option ModTable :=
  match Repair.targetName resname mutation with
  | .error _ => none
  | .ok name =>
    match ff.blocks.lookup name with
    | none => none
    | some b0 => modTable ff (Repair.dedupReq (modification.getD [])) b0 []

/-- the reference with the `modifications` attribute written as the `repr` of the list of names
(absent on atoms no modification touched); `node.update(ref_node)` copies it onto the molecule -/
def withModifications (ref : Block) (t : ModTable) : Block :=
  { ref with nodes := ref.nodes.map fun a =>
      match t.lookup a.key with
      | some l => { a with attrs := setAttr a.attrs "modifications" (Repair.pyList l) }
      | none => a }

def referenceFull (ff : Repair.FF) (resname : String) (mutation modification : Option (List String)) :
    Except Repair.RefErr Block :=
  match Repair.getReference ff resname mutation modification with
  | .error e => .error e
  | .ok ref => .ok (withModifications ref ((referenceTable ff resname mutation modification).getD []))

end C19.Pipeline
