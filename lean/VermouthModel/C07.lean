import VermouthModel.Proto
import VermouthModel.C08
/-!
# C07 — model of `vermouth.file_writer.DeferredFileWriter` and of the CLI gate

Transcription of `vermouth/file_writer.py` (after the repairs of F-C07-1, F-C07-3, F-C07-4) over an
abstract file system.

* `Path`  : file names.  `bak p n` is the Gromacs backup name `#p.n#` of `p`
  (structural, so backup names of different files / numbers are different
  names by construction); `tmp k` is the `k`-th temporary file handed out by
  `tempfile.mkstemp` (the temporary directory is disjoint from every
  destination directory).
* `FS`    : association list name ↦ contents, read with `get`.
* `State` : file system + the pending table `open_files` (in order) + the
  number of temporary files handed out so far.
* `openOp`: `DeferredFileWriter.open(path, mode)` followed by writing `data`
  through the returned handle and closing it.
* `finalizeFuel k`: `DeferredFileWriter.write()` interrupted before its
  `(k+1)`-th mutating system call (`shutil.move`, the two `open` calls of
  `_append_file` = create-if-missing and append, `os.remove`); every such call is
  one atomic `Step`.
* `closeOp`: `DeferredFileWriter.close()`.
* `cliGate`: the end of `bin/martinize2` (`leftover` is `C08.leftover`).
-/
namespace C07

inductive Path where
  | base (name : String)
  | bak (p : Path) (n : Nat)
  | tmp (k : Nat)
  deriving DecidableEq, Repr, Inhabited

def Path.isTmp : Path → Bool
  | .tmp _ => true
  | _ => false

abbrev Bytes := List Char
abbrev FS := List (Path × Bytes)

def get : FS → Path → Option Bytes
  | [], _ => none
  | (k, v) :: t, p => if k = p then some v else get t p

def erase (fs : FS) (p : Path) : FS := fs.filter (fun kv => kv.1 ≠ p)
def set (fs : FS) (p : Path) (c : Bytes) : FS := (p, c) :: erase fs p

/-- The kinds of mode strings (`b`/`t` do not influence any decision). -/
inductive Mode where
  | r | w | a | rp | wp | ap | x
  deriving DecidableEq, Repr, Inhabited

/-- `'w' in mode` -/
def Mode.hasW : Mode → Bool
  | .w | .wp => true
  | _ => false
/-- `'a' in mode` -/
def Mode.hasA : Mode → Bool
  | .a | .ap => true
  | _ => false
/-- `'r' in mode` -/
def Mode.hasR : Mode → Bool
  | .r | .rp => true
  | _ => false
/-- `'+' in mode` -/
def Mode.hasPlus : Mode → Bool
  | .rp | .wp | .ap => true
  | _ => false

/-- `'a' not in mode and ('w' in mode or '+' in mode)`: finalised by backup-then-move
(`write()` tests `'a' in mode` first, so `a+` is finalised by appending). -/
def Mode.writeish (m : Mode) : Bool := !m.hasA && (m.hasW || m.hasPlus)

structure Entry where
  tmp : Nat
  dest : Path
  mode : Mode
  deriving DecidableEq, Repr, Inhabited

structure State where
  fs : FS
  pending : List Entry
  next : Nat
  deriving Repr, Inhabited

inductive Res where
  | ok
  | content (c : Bytes)
  | notFound
  | fileExists
  | keyError
  deriving DecidableEq, Repr, Inhabited

/-- Effect on the contents `c` of a file of opening it with builtin `open` in
mode `m`, writing `data`, closing. -/
def writeVia (m : Mode) (c data : Bytes) : Bytes :=
  match m with
  | .w | .wp => data
  | .a | .ap => c ++ data
  | .rp => data ++ c.drop data.length
  | .r | .x => c

/-- the loop `for open_file in self.open_files: if open_path == path` -/
def findEntry : List Entry → Path → Option Entry
  | [], _ => none
  | e :: t, p => if e.dest = p then some e else findEntry t p

/-- `open_file[2] = mode` on the first entry for `p` -/
def setModeFirst : List Entry → Path → Mode → List Entry
  | [], _, _ => []
  | e :: t, p, m => if e.dest = p then { e with mode := m } :: t else e :: setModeFirst t p m

def openOp (st : State) (p : Path) (m : Mode) (data : Bytes) : State × Res :=
  match findEntry st.pending p with
  | some e =>
      let pend := if m.hasW && e.mode.hasA then setModeFirst st.pending p m
                  else st.pending
      let st' : State := { st with pending := pend }
      -- `_open(tmp_path, mode)`
      match m with
      | .x => (st', .fileExists)
      | .r => (st', match get st.fs (.tmp e.tmp) with
                    | some c => .content c
                    | none => .notFound)
      | _ => ({ st' with fs := set st.fs (.tmp e.tmp) (writeVia m ((get st.fs (.tmp e.tmp)).getD []) data) }, .ok)
  | none =>
      if m.hasPlus || m.hasA || m.hasW then
        let k := st.next
        let pend := st.pending ++ [{ tmp := k, dest := p, mode := m }]
        if m.hasPlus && m.hasR then
          -- `shutil.copy2(filename, tmp_path)` before the entry is registered
          match get st.fs p with
          | none => (st, .notFound)   -- the temporary is removed again, nothing is registered
          | some c => ({ fs := set st.fs (.tmp k) (writeVia .rp c data), pending := pend, next := k + 1 }, .ok)
        else
          ({ fs := set st.fs (.tmp k) data, pending := pend, next := k + 1 }, .ok)
      else if m.hasR then
        match get st.fs p with
        | none => (st, .notFound)
        | some c => (st, .content c)
      else (st, .keyError)

/-! ## finalisation -/

/-- `_find_free_path`: the loop over `idx = 1, 2, …`; among `length + 1`
candidates one is free, so the fuel never runs out (`firstFreeIdx_free`). -/
def firstFreeGo (fs : FS) (p : Path) : Nat → Nat → Nat
  | 0, n => n
  | fuel + 1, n => if get fs (.bak p n) = none then n else firstFreeGo fs p fuel (n + 1)

def firstFreeIdx (fs : FS) (p : Path) : Nat := firstFreeGo fs p (fs.length + 1) 1

def firstFree (fs : FS) (p : Path) : Path :=
  if get fs p = none then p else .bak p (firstFreeIdx fs p)

inductive Step where
  | move (src dst : Path)      -- shutil.move / os.rename: replaces dst
  | touch (p : Path)           -- open(p, 'a'): creates p if missing
  | append (dst src : Path)    -- final_file.write(tmp_file.read())
  | remove (p : Path)          -- os.remove
  deriving DecidableEq, Repr, Inhabited

def applyStep (fs : FS) : Step → FS
  | .move src dst =>
      match get fs src with
      | none => fs
      | some c => set (erase fs src) dst c
  | .touch p => if get fs p = none then set fs p [] else fs
  | .append dst src => set fs dst ((get fs dst).getD [] ++ (get fs src).getD [])
  | .remove p => erase fs p

def applySteps (fs : FS) (l : List Step) : FS := l.foldl applyStep fs

/-- The mutating calls `write()` makes for one popped entry, given the file
system at the moment the entry is popped; `none` = the `AssertionError` /
`KeyError` branches (stored mode without `w`, `+`, `a`; unreachable, see
`VermouthProps.C07.stored_modes`). -/
def entrySteps (fs : FS) (e : Entry) : Option (List Step) :=
  if e.mode.hasA then
    some [Step.touch e.dest, Step.append e.dest (.tmp e.tmp), Step.remove (.tmp e.tmp)]
  else if e.mode.hasW || e.mode.hasPlus then
    let free := firstFree fs e.dest
    some ((if free ≠ e.dest then [Step.move e.dest free] else []) ++ [Step.move (.tmp e.tmp) e.dest])
  else none

/-- `write()` with at most `fuel` mutating calls allowed; the call number
`fuel + 1` raises.  The entry being processed has already been popped. -/
def finalizeFuel : Nat → FS → List Entry → FS × List Entry
  | _, fs, [] => (fs, [])
  | fuel, fs, e :: rest =>
      match entrySteps fs e with
      | none => (fs, rest)
      | some steps =>
          if steps.length ≤ fuel then finalizeFuel (fuel - steps.length) (applySteps fs steps) rest
          else (applySteps fs (steps.take fuel), rest)

/-- uninterrupted `write()` -/
def finalizeAll : FS → List Entry → FS
  | fs, [] => fs
  | fs, e :: rest =>
      match entrySteps fs e with
      | none => fs
      | some steps => finalizeAll (applySteps fs steps) rest

def finalizeOp (st : State) (fuel : Option Nat) : State :=
  match fuel with
  | none => { st with fs := finalizeAll st.fs st.pending, pending := [] }
  | some k =>
      let r := finalizeFuel k st.fs st.pending
      { st with fs := r.1, pending := r.2 }

/-- `close()` -/
def closeFs : FS → List Entry → FS
  | fs, [] => fs
  | fs, e :: rest => closeFs (erase fs (.tmp e.tmp)) rest

def closeOp (st : State) : State := { st with fs := closeFs st.fs st.pending, pending := [] }

/-! ## histories -/

inductive Op where
  | open (p : Path) (m : Mode) (data : Bytes)
  | finalize (fuel : Option Nat)
  | close
  deriving Repr, Inhabited

def stepOp (st : State) : Op → State × Res
  | .open p m d => openOp st p m d
  | .finalize f => (finalizeOp st f, .ok)
  | .close => (closeOp st, .ok)

def runOps (st : State) (ops : List Op) : State := ops.foldl (fun s o => (stepOp s o).1) st

/-- a history of deferred opens only: `(path, mode, data)` -/
abbrev OpenReq := Path × Mode × Bytes

def runOpens (st : State) (ops : List OpenReq) : State :=
  ops.foldl (fun s o => (openOp s o.1 o.2.1 o.2.2).1) st

def init (fs : FS) : State := { fs := fs, pending := [], next := 0 }

/-! ## direct-write reference semantics (what builtin `open` would have done) -/

def directOp (fs : FS) (o : OpenReq) : FS :=
  let (p, m, data) := o
  match m with
  | .w | .wp => set fs p data
  | .a | .ap => set fs p ((get fs p).getD [] ++ data)
  | .rp => match get fs p with
           | none => fs
           | some c => set fs p (writeVia .rp c data)
  | .r | .x => fs

def directRun (fs : FS) (ops : List OpenReq) : FS := ops.foldl directOp fs

/-! ## CLI gate (`bin/martinize2`, last lines of `entry`) -/

/-- `leftover_warnings = ignore_warnings_and_count(COUNTER, args.maxwarn)`;
`if leftover_warnings: sys.exit(2) else: DeferredFileWriter().write()` -/
def cliGate (leftover : Int) (st : State) : State × Nat :=
  if leftover ≠ 0 then (st, 2)
  else (finalizeOp st none, 0)

/-- The exit status the operating system reports for `sys.exit(c)`: the low byte of `c`. -/
def exitStatus (c : Nat) : Nat := c % 256

/-- a whole run: the writers' deferred opens, then the gate on the counted warnings -/
def cliRun (fs : FS) (opens : List OpenReq) (counter : List C08.Entry) (specs : List (List C08.Spec))
    (level : Nat) : State × Nat :=
  cliGate (C08.leftover counter specs level) (runOpens (init fs) opens)

end C07
